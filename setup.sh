#!/bin/sh
# One-time build after a fresh restore (offline): Coq development, extracted evaluators, translator, harness warm-up.
set -e
cd "$(dirname "$0")"
export GOFLAGS=-mod=mod GOPROXY=off GOSUMDB=off GOTOOLCHAIN=local
python3 - <<'PY'
import sys, os
sys.path.insert(0, os.getcwd())
from lib import common as C
ok, log = C.run_translator()
print("translator:", "ok" if ok else log[-2000:])
ok, log = C.coq_make()
print("coq make:", "ok" if ok else log[-3000:])
if not ok:
    sys.exit(1)
for fam in C.eval_families():
    C.build_eval(fam)
    print("evaluator", fam, "built")
C.build_harness()
print("harness built")
PY
