package main

// C15 / C01: fixed-width columns whose wire body is larger than 1 MiB (the chunk size the readers use when they
// bound allocations) and larger than bufio's 128 KiB buffer.  Oracle: the value at a row of the bulk decode equals
// the value obtained by decoding the same bytes in small pieces; re-encoding reproduces the bytes.  The observation
// is a digest of the sampled row values: compared between the two builds by checks/c15.py.

import (
	"bytes"
	"crypto/sha256"
	"encoding/hex"
	"errors"
	"fmt"
	"io"
	"reflect"
	"sort"

	"github.com/ClickHouse/ch-go/proto"
)

func init() { runners["c15big"] = runC15Big }

type c15BigSpec struct {
	typ  string
	size int
	mk   func() proto.Column
}

func runC15Big(h *H) {
	specs := []c15BigSpec{
		{typ: "Int8", size: 1}, {typ: "UInt8", size: 1}, {typ: "Bool", size: 1}, {typ: "Enum8('a' = 1, 'b' = 2)", size: 1},
		{typ: "Int16", size: 2}, {typ: "UInt16", size: 2}, {typ: "Date", size: 2}, {typ: "Enum16('x' = 1000, 'y' = -5)", size: 2},
		{typ: "Int32", size: 4}, {typ: "UInt32", size: 4}, {typ: "Float32", size: 4}, {typ: "DateTime", size: 4}, {typ: "Date32", size: 4}, {typ: "IPv4", size: 4}, {typ: "Decimal32(3)", size: 4},
		{typ: "Int64", size: 8}, {typ: "UInt64", size: 8}, {typ: "Float64", size: 8}, {typ: "DateTime64(6)", size: 8}, {typ: "Decimal64(5)", size: 8},
		{typ: "Int128", size: 16}, {typ: "UInt128", size: 16}, {typ: "UUID", size: 16}, {typ: "IPv6", size: 16}, {typ: "Decimal128(9)", size: 16},
		{typ: "Int256", size: 32}, {typ: "UInt256", size: 32}, {typ: "Decimal256(20)", size: 32},
		{typ: "FixedString(512)", size: 512},
		{typ: "FixedString(3)", size: 3, mk: func() proto.Column { return &proto.ColFixedStr{Size: 3} }},
		{typ: "FixedString(1000)", size: 1000, mk: func() proto.Column { return &proto.ColFixedStr{Size: 1000} }},
	}
	const chunk = 1 << 20
	for k, sp := range specs {
		// body sizes: just over one chunk; for every third type between two and three chunks
		body := chunk + 1 + h.R.Intn(4096)
		if k%3 == h.R.Intn(3) {
			body = 2*chunk + 1 + h.R.Intn(chunk)
		}
		rows := (body + sp.size - 1) / sp.size
		raw := make([]byte, rows*sp.size)
		h.R.Read(raw)
		switch {
		case sp.typ == "Bool":
			for i := range raw {
				raw[i] &= 1
			}
		case sp.typ[:4] == "Enum" && sp.size == 1:
			for i := range raw {
				raw[i] = 1 + raw[i]&1
			}
		case sp.typ[:4] == "Enum":
			for i := 0; i < len(raw); i += 2 {
				if raw[i]&1 == 0 {
					raw[i], raw[i+1] = 0xe8, 0x03 // 1000
				} else {
					raw[i], raw[i+1] = 0xfb, 0xff // -5
				}
			}
		}
		c, obs, oracle := c15BigOne(h, sp, rows, raw)
		h.Emit(c, obs, oracle)
		h.Stat("c15big.size" + fmt.Sprint(sp.size))
	}
}

func c15BigRow(col proto.Column) func(i int) string {
	v := reflect.ValueOf(col)
	m := v.MethodByName("Row")
	return func(i int) string {
		return fmt.Sprint(m.Call([]reflect.Value{reflect.ValueOf(i)})[0].Interface())
	}
}

func c15BigOne(h *H, sp c15BigSpec, rows int, raw []byte) (caseLine, obs, oracle string) {
	caseLine = fmt.Sprintf("big %s rows=%d bytes=%d", sp.typ, rows, len(raw))
	defer func() {
		if p := recover(); p != nil {
			obs, oracle = "crash", fmt.Sprintf("FAIL:panic while decoding a %d-byte column body: %v", len(raw), p)
		}
	}()
	s := c14ColSpec{typ: sp.typ, mk: sp.mk}
	col, err := s.build()
	if err != nil {
		return caseLine, "-", "-"
	}
	if err := col.DecodeColumn(proto.NewReader(bytes.NewReader(raw)), rows); err != nil {
		return caseLine, "err", "FAIL:a well-formed column body of " + fmt.Sprint(len(raw)) + " bytes was rejected: " + err.Error()
	}
	if col.Rows() != rows {
		return caseLine, "rows", fmt.Sprintf("FAIL:decoded %d rows, Rows() = %d", rows, col.Rows())
	}
	// sampled rows: around every multiple of 128 KiB (bufio) and of 1 MiB (chunked reads), both ends, random ones
	pick := map[int]bool{}
	add := func(i int) {
		if i >= 0 && i < rows {
			pick[i] = true
		}
	}
	for off := 0; off <= len(raw); off += 128 << 10 {
		for d := -2; d <= 2; d++ {
			add(off/sp.size + d)
		}
	}
	for i := 0; i < 3; i++ {
		add(i)
		add(rows - 1 - i)
	}
	for i := 0; i < 1500; i++ {
		add(h.R.Intn(rows))
	}
	idx := make([]int, 0, len(pick))
	for i := range pick {
		idx = append(idx, i)
	}
	sort.Ints(idx)
	bulk := c15BigRow(col)
	// the same bytes decoded in small pieces into a second column
	col2, _ := s.build()
	small := c15BigRow(col2)
	const piece = 500
	cur := -1
	dg := sha256.New()
	bad := ""
	for _, i := range idx {
		if i/piece != cur {
			cur = i / piece
			lo, hi := cur*piece, (cur+1)*piece
			if hi > rows {
				hi = rows
			}
			col2.Reset()
			if err := col2.DecodeColumn(proto.NewReader(bytes.NewReader(raw[lo*sp.size:hi*sp.size])), hi-lo); err != nil {
				return caseLine, "err", "FAIL:piecewise decode failed: " + err.Error()
			}
		}
		a, b := bulk(i), small(i-cur*piece)
		fmt.Fprintf(dg, "%d=%s;", i, a)
		if a != b && bad == "" {
			bad = fmt.Sprintf("row %d (byte offset %d) of the bulk decode is %s, decoded on its own it is %s", i, i*sp.size, a, b)
		}
	}
	// the same body cut short: at every multiple of 1 MiB and of 128 KiB (+-1), and at random places.  Every cut must
	// be rejected; the kind of the error (io.EOF / io.ErrUnexpectedEOF / other) is part of the observation, so the two
	// builds are compared on it
	cuts := map[int]bool{}
	for off := 128 << 10; off < len(raw); off += 128 << 10 {
		if off%(1<<20) == 0 || h.R.Intn(4) == 0 {
			cuts[off-1], cuts[off], cuts[off+1] = true, true, true
		}
	}
	cuts[1], cuts[len(raw)-1], cuts[len(raw)-sp.size] = true, true, true
	for i := 0; i < 6; i++ {
		cuts[1+h.R.Intn(len(raw)-1)] = true
	}
	var cl []int
	for c := range cuts {
		if c > 0 && c < len(raw) {
			cl = append(cl, c)
		}
	}
	sort.Ints(cl)
	kinds := ""
	eofCut := 0
	for _, c := range cl {
		col3, _ := s.build()
		err := col3.DecodeColumn(proto.NewReader(bytes.NewReader(raw[:c])), rows)
		switch {
		case err == nil:
			return caseLine, "accepted", fmt.Sprintf("FAIL:a column body of %d bytes cut after %d bytes was accepted as %d complete rows", len(raw), c, rows)
		case errors.Is(err, io.ErrUnexpectedEOF):
			kinds += "u"
		case errors.Is(err, io.EOF):
			kinds += "e"
			if eofCut == 0 {
				eofCut = c
			}
		default:
			kinds += "o"
		}
	}
	fmt.Fprintf(dg, "cuts=%v kinds=%s", cl, kinds)
	obs = fmt.Sprintf("ok %d %s cuts=%s", len(idx), hex.EncodeToString(dg.Sum(nil)[:12]), kinds)
	if bad != "" {
		return caseLine, obs, "FAIL:" + bad
	}
	if eofCut != 0 {
		// io.EOF is how a reader says "the input ended cleanly here"; both builds say io.ErrUnexpectedEOF for every cut
		// strictly inside a column body, which is what a caller telling a truncated stream from a finished one relies on
		return caseLine, obs, fmt.Sprintf("FAIL:a column body of %d bytes cut after %d bytes (inside the body) is reported as a clean end of input (io.EOF), not as a truncation", len(raw), eofCut)
	}
	var out proto.Buffer
	col.EncodeColumn(&out)
	if !bytes.Equal(out.Buf, raw) {
		return caseLine, obs, "FAIL:re-encoding of the decoded column differs from the bytes it was decoded from"
	}
	return caseLine, obs, "ok"
}
