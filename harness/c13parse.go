package main

// C13 (also C02): a reader of the client's Query + blank Data packets that is independent of the library's coders: a
// byte cursor and the field list of the native protocol, each field present from its own revision on (the revision
// numbers are the protocol's, written out here - not taken from proto.Feature*).  What a peer speaking the negotiated
// revision would read.

import (
	"fmt"
)

type c13Cur struct {
	b   []byte
	pos int
	err string
}

func (c *c13Cur) fail(f string, a ...any) {
	if c.err == "" {
		c.err = fmt.Sprintf(f, a...)
	}
}

func (c *c13Cur) byte1(what string) byte {
	if c.err != "" {
		return 0
	}
	if c.pos >= len(c.b) {
		c.fail("%s: the stream ends", what)
		return 0
	}
	v := c.b[c.pos]
	c.pos++
	return v
}

func (c *c13Cur) uvarint(what string) uint64 {
	var v uint64
	for shift := uint(0); shift < 70; shift += 7 {
		b := c.byte1(what)
		if c.err != "" {
			return 0
		}
		v |= uint64(b&0x7f) << shift
		if b < 0x80 {
			return v
		}
	}
	c.fail("%s: varint longer than ten bytes", what)
	return 0
}

func (c *c13Cur) raw(n int, what string) []byte {
	if c.err != "" {
		return nil
	}
	if n < 0 || c.pos+n > len(c.b) {
		c.fail("%s: %d bytes wanted, %d left", what, n, len(c.b)-c.pos)
		return nil
	}
	v := c.b[c.pos : c.pos+n]
	c.pos += n
	return v
}

func (c *c13Cur) str(what string) string {
	n := c.uvarint(what + " length")
	if c.err != "" {
		return ""
	}
	if n > uint64(len(c.b)) {
		c.fail("%s: length %d beyond the stream", what, n)
		return ""
	}
	return string(c.raw(int(n), what))
}

type c13Parsed struct {
	id, body       string
	settings       [][2]string
	params         [][2]string
	stage, comp    uint64
	quotaKey       string
	hasTrace       bool
	clientName     string
	initialQueryID string
}

// c13ParseQueryAndBlank reads one Query packet and the blank Data packet that ends the client's part of a SELECT, at
// revision ver; it returns what it read, or the reason a peer at that revision cannot read the stream.
func c13ParseQueryAndBlank(wrote []byte, ver int) (p c13Parsed, why string) {
	c := &c13Cur{b: wrote}
	if code := c.uvarint("packet code"); c.err == "" && code != 1 {
		c.fail("packet code %d, want 1 (Query)", code)
	}
	p.id = c.str("query id")
	if ver >= 54420 { // client info
		kind := c.byte1("query kind")
		if c.err == "" && kind > 2 {
			c.fail("query kind %d", kind)
		}
		_ = c.str("initial user")
		p.initialQueryID = c.str("initial query id")
		_ = c.str("initial address")
		if ver >= 54449 {
			c.raw(8, "initial query start time")
		}
		if iface := c.byte1("interface"); c.err == "" && iface != 1 {
			c.fail("interface %d, want 1 (TCP)", iface)
		}
		_ = c.str("os user")
		_ = c.str("client hostname")
		p.clientName = c.str("client name")
		_ = c.uvarint("client major")
		_ = c.uvarint("client minor")
		if pv := c.uvarint("client protocol version"); c.err == "" && int(pv) != ver {
			c.fail("client info carries protocol version %d, negotiated %d", pv, ver)
		}
		if ver >= 54060 {
			p.quotaKey = c.str("quota key")
		}
		if ver >= 54448 {
			_ = c.uvarint("distributed depth")
		}
		if ver >= 54401 {
			_ = c.uvarint("client patch")
		}
		if ver >= 54442 {
			switch t := c.byte1("trace flag"); {
			case c.err != "":
			case t == 1:
				p.hasTrace = true
				c.raw(24, "trace and span id")
				_ = c.str("trace state")
				c.byte1("trace flags")
			case t != 0:
				c.fail("trace flag %d", t)
			}
		}
		if ver >= 54453 {
			_ = c.uvarint("collaborate with initiator")
			_ = c.uvarint("count participating replicas")
			_ = c.uvarint("number of current replica")
		}
	}
	// settings: as strings from 54429 on (key, flags, value) up to a blank key; before that the client sends none and
	// the list is the blank key alone
	for n := 0; c.err == ""; n++ {
		k := c.str("setting key")
		if c.err != "" || k == "" {
			break
		}
		if ver < 54429 {
			c.fail("a setting (%q) in the binary settings list of revision %d: the list has to be blank", k, ver)
			break
		}
		if fl := c.uvarint("setting flags"); c.err == "" && fl > 7 {
			c.fail("setting flags %d", fl)
		}
		v := c.str("setting value")
		p.settings = append(p.settings, [2]string{k, v})
		if n > 10000 {
			c.fail("settings without end")
		}
	}
	if ver >= 54441 {
		_ = c.str("inter-server secret")
	}
	p.stage = c.uvarint("stage")
	p.comp = c.uvarint("compression")
	p.body = c.str("body")
	if ver >= 54459 {
		for n := 0; c.err == ""; n++ {
			k := c.str("parameter key")
			if c.err != "" || k == "" {
				break
			}
			_ = c.uvarint("parameter flags")
			v := c.str("parameter value")
			p.params = append(p.params, [2]string{k, v})
			if n > 10000 {
				c.fail("parameters without end")
			}
		}
	}
	// the blank Data packet
	if code := c.uvarint("second packet code"); c.err == "" && code != 2 {
		c.fail("second packet code %d, want 2 (Data)", code)
	}
	if ver >= 50264 {
		if t := c.str("temporary table name"); c.err == "" && t != "" {
			c.fail("temporary table name %q in the blank block", t)
		}
	}
	if ver >= 51903 {
		for c.err == "" {
			f := c.uvarint("block info field")
			if c.err != "" || f == 0 {
				break
			}
			switch f {
			case 1:
				c.byte1("overflows")
			case 2:
				c.raw(4, "bucket number")
			default:
				c.fail("block info field %d", f)
			}
		}
	}
	if cols := c.uvarint("columns"); c.err == "" && cols != 0 {
		c.fail("%d columns in the blank block", cols)
	}
	if rows := c.uvarint("rows"); c.err == "" && rows != 0 {
		c.fail("%d rows in the blank block", rows)
	}
	if c.err == "" && c.pos != len(c.b) {
		c.fail("%d bytes left after the blank block", len(c.b)-c.pos)
	}
	return p, c.err
}
