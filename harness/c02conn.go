package main

// Shared by C02 and C09: a scripted in-memory net.Conn that answers the handshake at a chosen
// revision, then a minimal valid response, and records every Write; the description of a client
// configuration / query in the transcript syntax of coq/model/GlueSend.v; a walk over the recorded
// client-to-server bytes with the LIBRARY's own server-side decoders (the direct oracle's parser);
// the CityHash128 / codec tables of the frames found in the recorded bytes (oracles of the model).

import (
	"bytes"
	"context"
	"encoding/binary"
	"errors"
	"fmt"
	"io"
	"math/rand"
	"net"
	"os"
	"reflect"
	"runtime/debug"
	"strconv"
	"strings"
	"sync"
	"time"

	ch "github.com/ClickHouse/ch-go"
	"github.com/ClickHouse/ch-go/compress"
	"github.com/ClickHouse/ch-go/proto"
	"github.com/go-faster/city"
	"go.opentelemetry.io/otel/trace"
)

// ---------------------------------------------------------------- the connection

type c02Addr string

func (a c02Addr) Network() string { return "mem" }
func (a c02Addr) String() string  { return string(a) }

type c02Timeout struct{}

func (c02Timeout) Error() string   { return "i/o timeout" }
func (c02Timeout) Timeout() bool   { return true }
func (c02Timeout) Temporary() bool { return true }

type c02Conn struct {
	mu     sync.Mutex
	cond   *sync.Cond
	in     []byte // server -> client bytes available to Read
	inPos  int
	closed bool
	rdl    time.Time
	rec    []byte // every byte the client wrote
	writes []int  // length of every Write call
	local  string
}

func c02NewConn(local string) *c02Conn {
	c := &c02Conn{local: local}
	c.cond = sync.NewCond(&c.mu)
	return c
}

// Serve makes more server bytes available to the client.
func (c *c02Conn) Serve(b []byte) {
	c.mu.Lock()
	c.in = append(c.in, b...)
	c.mu.Unlock()
	c.cond.Broadcast()
}

func (c *c02Conn) Read(p []byte) (int, error) {
	c.mu.Lock()
	defer c.mu.Unlock()
	for {
		if c.closed {
			return 0, net.ErrClosed
		}
		if c.inPos < len(c.in) {
			n := copy(p, c.in[c.inPos:])
			c.inPos += n
			c.cond.Broadcast()
			return n, nil
		}
		if !c.rdl.IsZero() {
			d := time.Until(c.rdl)
			if d <= 0 {
				return 0, &net.OpError{Op: "read", Net: "mem", Err: c02Timeout{}}
			}
			t := time.AfterFunc(d, c.cond.Broadcast)
			c.cond.Wait()
			t.Stop()
			continue
		}
		c.cond.Wait()
	}
}

// Drained reports whether the client has consumed every server byte.
func (c *c02Conn) Drained() bool {
	c.mu.Lock()
	defer c.mu.Unlock()
	return c.inPos >= len(c.in)
}

func (c *c02Conn) Write(p []byte) (int, error) {
	c.mu.Lock()
	defer c.mu.Unlock()
	if c.closed {
		return 0, net.ErrClosed
	}
	c.rec = append(c.rec, p...)
	c.writes = append(c.writes, len(p))
	return len(p), nil
}

func (c *c02Conn) Written() int {
	c.mu.Lock()
	defer c.mu.Unlock()
	return len(c.rec)
}

func (c *c02Conn) Recorded() []byte {
	c.mu.Lock()
	defer c.mu.Unlock()
	return append([]byte(nil), c.rec...)
}

func (c *c02Conn) Close() error {
	c.mu.Lock()
	c.closed = true
	c.mu.Unlock()
	c.cond.Broadcast()
	return nil
}
func (c *c02Conn) LocalAddr() net.Addr  { return c02Addr(c.local) }
func (c *c02Conn) RemoteAddr() net.Addr { return c02Addr("server") }
func (c *c02Conn) SetDeadline(t time.Time) error {
	_ = c.SetReadDeadline(t)
	return nil
}
func (c *c02Conn) SetReadDeadline(t time.Time) error {
	c.mu.Lock()
	c.rdl = t
	c.mu.Unlock()
	c.cond.Broadcast()
	return nil
}
func (c *c02Conn) SetWriteDeadline(time.Time) error { return nil }

// ---------------------------------------------------------------- configuration and query

type c02Setting struct {
	k, v string
	imp  bool
}

type c02Cfg struct {
	rev      int // negotiated revision
	clientPV int // Options.ProtocolVersion
	srvRev   int // the revision the server reports when it is newer than the client's (0: the server reports rev)
	comp     ch.Compression
	level    int
	settings []c02Setting
	name     string // Options.ClientName
	addr     string
	quota    string // connection-level quota key (addendum only)
	otel     bool   // Options.OpenTelemetryInstrumentation (no SDK installed: spans are not recording); changes no byte
}

type c02Col struct {
	name string
	spec c14ColSpec
	rows int
	seed int64
	col  proto.Column
	ty   string // dump before Do
	data string
}

type c02Query struct {
	id, body, quota, secret, iuser string
	settings                       []c02Setting
	params                         []proto.Parameter
	span                           trace.SpanContext
	ext                            []*c02Col
	extTable                       string
	input                          []*c02Col
}

var c02Modes = []ch.Compression{ch.CompressionDisabled, ch.CompressionNone, ch.CompressionLZ4, ch.CompressionLZ4HC, ch.CompressionZSTD}

func c02ModeSym(m ch.Compression) string {
	switch m {
	case ch.CompressionNone:
		return "none"
	case ch.CompressionLZ4:
		return "lz4"
	case ch.CompressionLZ4HC:
		return "lz4hc"
	case ch.CompressionZSTD:
		return "zstd"
	}
	return "off"
}

func c02Method(m ch.Compression) compress.Method {
	switch m {
	case ch.CompressionLZ4:
		return compress.LZ4
	case ch.CompressionLZ4HC:
		return compress.LZ4HC
	case ch.CompressionZSTD:
		return compress.ZSTD
	}
	return compress.None
}

func c02SettingsSx(ss []c02Setting) string {
	var xs []string
	for _, s := range ss {
		xs = append(xs, sx(hx([]byte(s.k)), hx([]byte(s.v)), bsym(s.imp)))
	}
	return sx(xs...)
}

// version of the ch-go module as internal/version resolves it in this binary
func c02ModuleVersion() (major, minor, patch int, pre string) {
	info, ok := debug.ReadBuildInfo()
	if !ok {
		return 0, 0, 0, ""
	}
	raw := ""
	for _, d := range info.Deps {
		if strings.HasPrefix(d.Path, "github.com/ClickHouse/ch-go") {
			raw = d.Version
			break
		}
	}
	v := strings.TrimPrefix(raw, "v")
	if i := strings.IndexAny(v, "+"); i >= 0 {
		v = v[:i]
	}
	if i := strings.IndexByte(v, '-'); i >= 0 {
		pre = v[i+1:]
		v = v[:i]
	}
	seg := strings.Split(v, ".")
	if len(seg) < 3 {
		return 0, 0, 0, "dev"
	}
	a, e1 := strconv.Atoi(seg[0])
	b, e2 := strconv.Atoi(seg[1])
	c, e3 := strconv.Atoi(seg[2])
	if e1 != nil || e2 != nil || e3 != nil {
		return 0, 0, 0, "dev"
	}
	return a, b, c, pre
}

// c02ClientName mirrors Connect's clientName (checked against the ClientHello the client really sends)
func c02ClientName(opt string) string {
	_, _, _, pre := c02ModuleVersion()
	if opt == "" {
		if pre != "" {
			return fmt.Sprintf("%s (%s)", proto.Name, pre)
		}
		return proto.Name
	}
	return fmt.Sprintf("%s %s", proto.Name, opt)
}

func (k *c02Cfg) sx(helloName string, helloMajor, helloMinor int) string {
	_, _, patch, _ := c02ModuleVersion()
	return sx(strconv.Itoa(k.rev), c02ModeSym(k.comp), strconv.Itoa(k.level), c02SettingsSx(k.settings),
		hx([]byte(helloName)), strconv.Itoa(helloMajor), strconv.Itoa(helloMinor), strconv.Itoa(patch), hx([]byte(k.addr)))
}

func c02ColsSx(cs []*c02Col) string {
	var xs []string
	for _, c := range cs {
		xs = append(xs, sx(hx([]byte(c.name)), c.ty, c.data))
	}
	return sx(xs...)
}

func c02SpanSx(s trace.SpanContext) string {
	if !s.IsValid() {
		return "nil"
	}
	t, sp := s.TraceID(), s.SpanID()
	return sx("span", hx(t[:]), hx(sp[:]), hx([]byte(s.TraceState().String())), strconv.Itoa(int(s.TraceFlags())))
}

func (q *c02Query) sx(effectiveID string) string {
	var ps []string
	for _, p := range q.params {
		ps = append(ps, sx(hx([]byte(p.Key)), hx([]byte(p.Value))))
	}
	return sx(hx([]byte(effectiveID)), hx([]byte(q.body)), hx([]byte(q.quota)), hx([]byte(q.secret)), hx([]byte(q.iuser)),
		c02SettingsSx(q.settings), sx(ps...), c02SpanSx(q.span), c02ColsSx(q.ext), hx([]byte(q.extTable)), c02ColsSx(q.input))
}

// ---------------------------------------------------------------- generators

// columns the model covers: the catalogue minus what colDump / the model do not represent
var c02Usable []c14ColSpec

func c02Specs() []c14ColSpec {
	if c02Usable != nil {
		return c02Usable
	}
	for _, s := range c01Catalogue() {
		if c01Skip(s) {
			continue
		}
		col, err := c14Make(s, 3, 7, false)
		if err != nil {
			continue
		}
		if _, _, err := colDump(col); err != nil {
			continue
		}
		c02Usable = append(c02Usable, s)
	}
	return c02Usable
}

// specs whose WriteColumn chains column memory without copying (default build)
func c02ZeroCopySpecs() []c14ColSpec {
	var out []c14ColSpec
	for _, s := range c02Specs() {
		n := s.name()
		switch {
		case strings.HasPrefix(n, "LowCardinality"), strings.HasPrefix(n, "Map"), strings.HasPrefix(n, "Tuple"),
			n == "String", n == "UUID", n == "Nothing", strings.HasPrefix(n, "JSON"), strings.HasPrefix(n, "Array(String"),
			strings.HasPrefix(n, "Enum"):
			continue
		}
		out = append(out, s)
	}
	return out
}

func c02MakeCol(r *rand.Rand, name string, s c14ColSpec, rows int) (*c02Col, error) {
	seed := r.Int63()
	col, err := c14Make(s, rows, seed, false)
	if err != nil {
		return nil, err
	}
	ty, data, err := colDump(col)
	if err != nil {
		return nil, err
	}
	return &c02Col{name: name, spec: s, rows: rows, seed: seed, col: col, ty: ty, data: data}, nil
}

var c02RowChoices = []int{0, 1, 1, 2, 3, 5, 17, 64, 255, 256, 257}

func c02GenCols(r *rand.Rand, n int, rows int, prefix string, pool []c14ColSpec) []*c02Col {
	var out []*c02Col
	for i := 0; i < n; i++ {
		s := pool[r.Intn(len(pool))]
		var name string
		switch r.Intn(6) {
		case 0:
			name = "" // an empty column name is legal on the wire
		case 1:
			name = string(genShortBytes(r)) + prefix
		default:
			name = fmt.Sprintf("%s%d", prefix, i)
		}
		for _, o := range out {
			if o.name == name {
				name = fmt.Sprintf("%s_%d", name, i) // column names of one block are distinct
			}
		}
		c, err := c02MakeCol(r, name, s, rows)
		if err != nil {
			continue
		}
		out = append(out, c)
	}
	return out
}

func c02GenSettings(r *rand.Rand, max int) []c02Setting {
	var out []c02Setting
	for i, n := 0, r.Intn(max+1); i < n; i++ {
		k := genShortBytes(r)
		if len(k) == 0 {
			k = []byte("k")
		}
		out = append(out, c02Setting{string(k), string(genBytes(r)), r.Intn(2) == 0})
	}
	return out
}

var c02Revisions []int

// revisions around every feature threshold, inside and outside the client's default version
func c02Revs() []int {
	if c02Revisions != nil {
		return c02Revisions
	}
	set := map[int]bool{54500: true, 54428: true, 54429: true, 51902: true}
	for _, f := range proto.FeatureValues() {
		for d := -1; d <= 1; d++ {
			v := int(f) + d
			if v >= 50263 {
				set[v] = true
			}
		}
	}
	for v := range set {
		c02Revisions = append(c02Revisions, v)
	}
	// deterministic order
	for i := range c02Revisions {
		for j := i + 1; j < len(c02Revisions); j++ {
			if c02Revisions[j] < c02Revisions[i] {
				c02Revisions[i], c02Revisions[j] = c02Revisions[j], c02Revisions[i]
			}
		}
	}
	return c02Revisions
}

func c02GenCfg(r *rand.Rand) *c02Cfg {
	revs := c02Revs()
	k := &c02Cfg{rev: revs[r.Intn(len(revs))]}
	if r.Intn(3) > 0 {
		// most cases inside the window where a server-side parser exists
		for k.rev < int(proto.FeatureSettingsSerializedAsStrings) {
			k.rev = revs[r.Intn(len(revs))]
		}
	}
	switch r.Intn(3) {
	case 0:
		k.clientPV = k.rev
		if r.Intn(2) == 0 {
			// the CLIENT is the older side (Options.ProtocolVersion pinned): the negotiated revision is the client's,
			// whatever the server could do
			k.srvRev = k.rev + []int{1, 2, 7, 30, 60, proto.Version - k.rev + 5}[r.Intn(6)]
			if k.srvRev <= k.rev {
				k.srvRev = k.rev + 1
			}
		}
	case 1:
		k.clientPV = k.rev + r.Intn(30)
	default:
		k.clientPV = proto.Version
		if k.clientPV < k.rev {
			k.clientPV = k.rev
		}
	}
	k.comp = c02Modes[r.Intn(len(c02Modes))]
	if k.comp == ch.CompressionLZ4HC {
		k.level = []int{0, 1, 9, 12, 15}[r.Intn(5)]
	}
	k.settings = c02GenSettings(r, 2)
	if r.Intn(3) == 0 {
		k.name = string(genShortBytes(r))
	}
	k.addr = []string{"127.0.0.1:51234", "[::1]:9000", "", "pipe"}[r.Intn(4)]
	k.quota = string(genShortBytes(r))
	k.otel = r.Intn(3) == 0
	return k
}

func c02GenSpan(r *rand.Rand) trace.SpanContext {
	if r.Intn(3) > 0 {
		return trace.SpanContext{}
	}
	var cfg trace.SpanContextConfig
	r.Read(cfg.TraceID[:])
	r.Read(cfg.SpanID[:])
	if r.Intn(8) == 0 {
		cfg.SpanID = trace.SpanID{} // invalid: encoded as "no span"
	}
	cfg.TraceFlags = trace.TraceFlags(r.Intn(2))
	if st, err := trace.ParseTraceState(traceStates[r.Intn(len(traceStates))]); err == nil {
		cfg.TraceState = st
	}
	return trace.NewSpanContext(cfg)
}

// ---------------------------------------------------------------- one run of the real client

type c02Run struct {
	conn      *c02Conn
	client    *ch.Client
	hsLen     int // bytes of the handshake
	helloName string
	helloMaj  int
	helloMin  int
	err       error // of Connect
}

func c02Compressed(k *c02Cfg) bool { return k.comp != ch.CompressionDisabled }

// c02Connect performs the handshake of the real client against the scripted server.
func c02Connect(k *c02Cfg) *c02Run {
	conn := c02NewConn(k.addr)
	var b proto.Buffer
	hello := proto.ServerHello{Name: "scripted", Major: 23, Minor: 8, Revision: k.rev, Timezone: "UTC", DisplayName: "h", Patch: 1}
	if k.srvRev > k.rev {
		hello.Revision = k.srvRev
	}
	hello.EncodeAware(&b, k.clientPV)
	conn.Serve(b.Buf)
	opt := ch.Options{Compression: k.comp, CompressionLevel: ch.CompressionLevel(k.level), ClientName: k.name, QuotaKey: k.quota,
		ProtocolVersion: k.clientPV, ReadTimeout: 2 * time.Second, OpenTelemetryInstrumentation: k.otel}
	for _, s := range k.settings {
		opt.Settings = append(opt.Settings, ch.Setting{Key: s.k, Value: s.v, Important: s.imp})
	}
	ctx, cancel := context.WithTimeout(context.Background(), 20*time.Second)
	defer cancel()
	cl, err := ch.Connect(ctx, conn, opt)
	run := &c02Run{conn: conn, client: cl, err: err}
	if err != nil {
		return run
	}
	rec := conn.Recorded()
	run.hsLen = len(rec)
	// what the client said about itself
	rd := proto.NewReader(bytes.NewReader(rec))
	if code, err := rd.UVarInt(); err == nil && proto.ClientCode(code) == proto.ClientCodeHello {
		var h proto.ClientHello
		if h.Decode(rd) == nil {
			run.helloName, run.helloMaj, run.helloMin = h.Name, h.Major, h.Minor
		}
	}
	return run
}

// the minimal valid response: for an INSERT without Result the column info block, then EndOfStream
func c02Response(k *c02Cfg, info []*c02Col) ([]byte, error) {
	var out proto.Buffer
	if info != nil {
		var blk proto.Buffer
		var in []proto.InputColumn
		for _, c := range info {
			e, err := c.spec.build()
			if err != nil {
				return nil, err
			}
			in = append(in, proto.InputColumn{Name: c.name, Data: e})
		}
		if err := (proto.Block{Columns: len(in), Rows: 0}).EncodeBlock(&blk, k.rev, in); err != nil {
			return nil, err
		}
		out.PutUVarInt(uint64(proto.ServerCodeData))
		if proto.FeatureTempTables.In(k.rev) {
			out.PutString("")
		}
		if c02Compressed(k) {
			w := compress.NewWriter(0, c02Method(k.comp))
			if err := w.Compress(blk.Buf); err != nil {
				return nil, err
			}
			out.Buf = append(out.Buf, w.Data...)
		} else {
			out.Buf = append(out.Buf, blk.Buf...)
		}
	}
	out.PutUVarInt(uint64(proto.ServerCodeEndOfStream))
	return out.Buf, nil
}

func (q *c02Query) chQuery() ch.Query {
	cq := ch.Query{Body: q.body, QueryID: q.id, QuotaKey: q.quota, Secret: q.secret, InitialUser: q.iuser,
		Parameters: q.params, ExternalTable: q.extTable}
	for _, s := range q.settings {
		cq.Settings = append(cq.Settings, ch.Setting{Key: s.k, Value: s.v, Important: s.imp})
	}
	for _, c := range q.ext {
		cq.ExternalData = append(cq.ExternalData, proto.InputColumn{Name: c.name, Data: c.col})
	}
	for _, c := range q.input {
		cq.Input = append(cq.Input, proto.InputColumn{Name: c.name, Data: c.col})
	}
	return cq
}

// ---------------------------------------------------------------- tables for the model

// c02Tables scans the recorded bytes for frames whose checksum verifies and records the real
// CityHash128 of their bodies and what the real codec makes of their payloads.
func c02Tables(rec []byte) (hs, zs string) {
	var hl, zl []string
	for off := 0; off+c05Header <= len(rec); off++ {
		mb := rec[off+16]
		if mb != c05EncNone && mb != c05EncLZ4 && mb != c05EncZSTD {
			continue
		}
		rs := int(binary.LittleEndian.Uint32(rec[off+17:])) - 9
		ds := int(binary.LittleEndian.Uint32(rec[off+21:]))
		if rs < 0 || off+c05Header+rs > len(rec) || ds > 1<<26 {
			continue
		}
		body := rec[off+16 : off+c05Header+rs]
		h := city.CH128(body)
		if h.Low != binary.LittleEndian.Uint64(rec[off:]) || h.High != binary.LittleEndian.Uint64(rec[off+8:]) {
			continue
		}
		hl = append(hl, sx(strconv.Itoa(off+16), strconv.Itoa(len(body)), strconv.FormatUint(h.Low, 10), strconv.FormatUint(h.High, 10)))
		if mb != c05EncNone {
			res := "e"
			if out, ok := c05Codec(mb, rec[off+c05Header:off+c05Header+rs], ds); ok {
				res = hx(out)
			}
			zl = append(zl, sx(strconv.Itoa(off+c05Header), strconv.Itoa(rs), strconv.Itoa(int(mb)), strconv.Itoa(ds), res))
		}
	}
	return sx(hl...), sx(zl...)
}

// ---------------------------------------------------------------- the library's own decoders over the recorded bytes

// one byte per Read: the position of the source is exactly what the decoders consumed
type c02Src struct {
	b   []byte
	pos int
}

func (s *c02Src) Read(p []byte) (int, error) {
	if len(p) == 0 {
		return 0, nil
	}
	if s.pos >= len(s.b) {
		return 0, io.EOF
	}
	p[0] = s.b[s.pos]
	s.pos++
	return 1, nil
}

type c02Packet struct {
	table      string
	start, end int // of the block (plain) or the frame (compressed) in the recorded bytes
	blockStart int
	cols, rows int
	info       proto.BlockInfo
	names      []string
	data       []proto.Column // decoded targets (nil for an empty block)
}

type c02Walked struct {
	query proto.Query
	ext   []c02Packet
	input []c02Packet
	end   int
}

func c02Targets(cs []*c02Col) (proto.Results, []proto.Column, error) {
	var res proto.Results
	var cols []proto.Column
	for _, c := range cs {
		e, err := c.spec.build()
		if err != nil {
			return nil, nil, err
		}
		res = append(res, proto.ResultColumn{Name: c.name, Data: e})
		cols = append(cols, e)
	}
	return res, cols, nil
}

func c02WalkPhase(src *c02Src, r *proto.Reader, k *c02Cfg, cs []*c02Col, max int) (out []c02Packet, err error) {
	defer func() {
		if p := recover(); p != nil {
			err = fmt.Errorf("panic in the library's decoder: %v", p)
		}
	}()
	for i := 0; i < max; i++ {
		code, err := r.UVarInt()
		if err != nil {
			return out, fmt.Errorf("packet code: %w", err)
		}
		if proto.ClientCode(code) != proto.ClientCodeData {
			return out, fmt.Errorf("packet code %d where a Data packet is expected (offset %d)", code, src.pos)
		}
		var cd proto.ClientData
		if err := cd.DecodeAware(r, k.rev); err != nil {
			return out, fmt.Errorf("data header: %w", err)
		}
		res, cols, err := c02Targets(cs)
		if err != nil {
			return out, err
		}
		p := c02Packet{table: cd.TableName, start: src.pos}
		var blk proto.Block
		if c02Compressed(k) {
			r.EnableCompression()
		}
		var target proto.Result
		if len(res) > 0 {
			target = &res
		}
		err = blk.DecodeBlock(r, k.rev, target)
		r.DisableCompression()
		if err != nil {
			return out, fmt.Errorf("block: %w", err)
		}
		p.end, p.cols, p.rows, p.info = src.pos, blk.Columns, blk.Rows, blk.Info
		if !blk.End() {
			p.data = cols
			for _, rc := range res {
				p.names = append(p.names, rc.Name)
			}
		}
		out = append(out, p)
		if blk.End() {
			return out, nil
		}
	}
	return out, fmt.Errorf("no terminator within %d Data packets", max)
}

// c02Walk parses everything the client wrote for one query with the library's server-side decoders.
func c02Walk(rec []byte, k *c02Cfg, ext, input []*c02Col, maxInput int) (w *c02Walked, err error) {
	defer func() {
		if p := recover(); p != nil {
			err = fmt.Errorf("panic in the library's decoder: %v", p)
		}
	}()
	src := &c02Src{b: rec}
	r := proto.NewReader(src)
	w = &c02Walked{}
	code, err := r.UVarInt()
	if err != nil {
		return w, fmt.Errorf("packet code: %w", err)
	}
	if proto.ClientCode(code) != proto.ClientCodeQuery {
		return w, fmt.Errorf("first packet has code %d, not Query", code)
	}
	if err := w.query.DecodeAware(r, k.rev); err != nil {
		return w, fmt.Errorf("query: %w", err)
	}
	if w.ext, err = c02WalkPhase(src, r, k, ext, 2); err != nil {
		return w, fmt.Errorf("external data phase: %w", err)
	}
	if len(input) > 0 {
		if w.input, err = c02WalkPhase(src, r, k, input, maxInput); err != nil {
			return w, fmt.Errorf("input phase: %w", err)
		}
	}
	w.end = src.pos
	if src.pos != len(rec) {
		return w, fmt.Errorf("%d bytes written after the last packet", len(rec)-src.pos)
	}
	return w, nil
}

// one frame, exactly: returns the decompressed payload
func c02OneFrame(region []byte) ([]byte, error) {
	if len(region) < c05Header {
		return nil, fmt.Errorf("frame shorter than its header")
	}
	rs := int(binary.LittleEndian.Uint32(region[17:])) - 9
	ds := int(binary.LittleEndian.Uint32(region[21:]))
	if rs < 0 || c05Header+rs != len(region) {
		return nil, fmt.Errorf("block is not exactly one frame: frame of %d bytes in a region of %d", c05Header+rs, len(region))
	}
	h := city.CH128(region[16:])
	if h.Low != binary.LittleEndian.Uint64(region) || h.High != binary.LittleEndian.Uint64(region[8:]) {
		return nil, fmt.Errorf("frame checksum does not verify")
	}
	switch region[16] {
	case c05EncNone:
		if ds != rs {
			return nil, fmt.Errorf("uncompressed frame with data size %d and payload %d", ds, rs)
		}
		return region[c05Header:], nil
	default:
		out, ok := c05Codec(region[16], region[c05Header:], ds)
		if !ok || len(out) != ds {
			return nil, fmt.Errorf("frame payload does not decompress to its data size")
		}
		return out, nil
	}
}

// c02ExpectQuery is the proto.Query the server has to see, as the library itself round-trips it at the
// revision (encode + decode of the literal sendQuery is documented to send).
func c02ExpectQuery(k *c02Cfg, q *c02Query, id string, run *c02Run) (proto.Query, error) {
	_, _, patch, _ := c02ModuleVersion()
	pq := proto.Query{ID: id, Body: q.body, Secret: q.secret, Stage: proto.StageComplete, Parameters: q.params}
	if c02Compressed(k) {
		pq.Compression = proto.CompressionEnabled
	}
	for _, s := range k.settings {
		pq.Settings = append(pq.Settings, proto.Setting{Key: s.k, Value: s.v, Important: s.imp})
	}
	for _, s := range q.settings {
		pq.Settings = append(pq.Settings, proto.Setting{Key: s.k, Value: s.v, Important: s.imp})
	}
	pq.Info = proto.ClientInfo{ProtocolVersion: k.rev, Major: run.helloMaj, Minor: run.helloMin, Patch: patch,
		Interface: proto.InterfaceTCP, Query: proto.ClientQueryInitial, InitialUser: q.iuser, InitialQueryID: id,
		InitialAddress: k.addr, ClientName: run.helloName, Span: q.span, QuotaKey: q.quota}
	var b proto.Buffer
	pq.EncodeAware(&b, k.rev)
	var back proto.Query
	r := proto.NewReader(bytes.NewReader(b.Buf[1:]))
	if err := back.DecodeAware(r, k.rev); err != nil {
		return back, err
	}
	return back, nil
}

func c02QueryDiff(got, want proto.Query) string {
	if got.ID != want.ID {
		return fmt.Sprintf("query id %q, want %q", got.ID, want.ID)
	}
	if got.Body != want.Body {
		return "query body differs"
	}
	if got.Secret != want.Secret {
		return "secret differs"
	}
	if got.Stage != want.Stage || got.Compression != want.Compression {
		return fmt.Sprintf("stage/compression %d/%d, want %d/%d", got.Stage, got.Compression, want.Stage, want.Compression)
	}
	if !reflect.DeepEqual(got.Settings, want.Settings) {
		return fmt.Sprintf("settings %v, want connection-level then query-level %v", got.Settings, want.Settings)
	}
	if !reflect.DeepEqual(got.Parameters, want.Parameters) {
		return fmt.Sprintf("parameters %v, want %v", got.Parameters, want.Parameters)
	}
	gi, wi := got.Info, want.Info
	gs, ws := gi.Span, wi.Span
	gi.Span, wi.Span = trace.SpanContext{}, trace.SpanContext{}
	if !reflect.DeepEqual(gi, wi) {
		return fmt.Sprintf("client info %+v, want %+v", gi, wi)
	}
	if gs.IsValid() != ws.IsValid() || (ws.IsValid() && (gs.TraceID() != ws.TraceID() || gs.SpanID() != ws.SpanID() ||
		gs.TraceFlags() != ws.TraceFlags() || gs.TraceState().String() != ws.TraceState().String())) {
		return "span context differs"
	}
	return ""
}

// c02BlockDiff compares a decoded Data packet with the columns that were handed to the client.
func c02BlockDiff(p c02Packet, wantTable string, k *c02Cfg, cs []*c02Col, rows int, what string) string {
	if !proto.FeatureTempTables.In(k.rev) {
		wantTable = ""
	}
	if p.table != wantTable {
		return fmt.Sprintf("%s: table name %q, want %q", what, p.table, wantTable)
	}
	if p.cols != len(cs) || p.rows != rows {
		return fmt.Sprintf("%s: %d columns x %d rows, want %d x %d", what, p.cols, p.rows, len(cs), rows)
	}
	wantInfo := proto.BlockInfo{}
	if len(cs) > 0 && proto.FeatureBlockInfo.In(k.rev) {
		wantInfo.BucketNum = -1
	}
	if p.info != wantInfo {
		return fmt.Sprintf("%s: block info %+v, want %+v", what, p.info, wantInfo)
	}
	for i, c := range cs {
		if i >= len(p.data) {
			return what + ": column missing"
		}
		if p.names[i] != c.name {
			return fmt.Sprintf("%s: column %d is named %q, want %q", what, i, p.names[i], c.name)
		}
		if got, want := p.data[i].Type(), c.col.Type(); got != want {
			return fmt.Sprintf("%s: column %d arrives with type %q, want %q", what, i, got, want)
		}
		if !sameRows(p.data[i], c.col) {
			return fmt.Sprintf("%s: column %d (%s) does not hold the rows that were handed to the client", what, i, c.spec.name())
		}
	}
	return ""
}

// c02Reencode: the block of a Data packet must be, byte for byte, what Block.EncodeBlock writes for the
// columns that were handed to the client (so nothing the decoders tolerate or ignore can hide in it).
func c02Reencode(rec []byte, p c02Packet, k *c02Cfg, cs []*c02Col) string {
	region := rec[p.start:p.end]
	if c02Compressed(k) {
		pl, err := c02OneFrame(region)
		if err != nil {
			return "compressed block: " + err.Error()
		}
		region = pl
	}
	if p.cols == 0 && p.rows == 0 {
		cs = nil
	}
	want, err := c09EncodeBlock(k, cs)
	if err != nil {
		return "cannot encode the expected block: " + err.Error()
	}
	if !bytes.Equal(want, region) {
		return fmt.Sprintf("the block is not what EncodeBlock writes for the columns handed to the client (%d bytes on the wire, %d expected)", len(region), len(want))
	}
	return ""
}

func c02TraceCtx(ctx context.Context, sc trace.SpanContext) context.Context {
	return trace.ContextWithSpanContext(ctx, sc)
}

func c02Sanitize(s string) string {
	b := []byte(s)
	if len(b) > 400 {
		b = b[:400]
	}
	for i, c := range b {
		if c < 0x20 || c > 0x7e {
			b[i] = '?'
		}
	}
	return string(b)
}

var _ = errors.New
var _ = os.Getenv
