package main

// C18 - result blocks bind only to compatible targets; mismatches are errors.
//
// Real proto.Block.EncodeBlock / DecodeBlock with proto.Results, proto.AutoResult and Results.Auto().
//
//	encblock <build> <rev> <overflows> <bucket> <rows> ((xNAME ty cdata) ...)          -> ok xBYTES | err
//	decblock <auto t|f> <build> <rev> (zones) (target ...) xBYTES
//	      -> ok <columns> <rows> (target ...) <bytes left> | fail (target ...) ((<Rows()> <t|f>) ...) | crash
//	         (after a failure every target is printed as it is - the failing one with the half-decoded column the decoder
//	         left - followed, per target, by Rows() and whether Row(i) returns for every i below it)
//	decseq   <auto t|f> <build> <rev> (zones) (target ...) (xBLOCK ...)                 -> seq (<decblock result>) ...
//
// target = (xNAME ty cdata) | (xNAME auto) | (xNAME auto xDATATYPE ty cdata), printed before (case) and
// after (observation) the call: the observation is the error class and every target's name, type and
// contents afterwards.  The direct oracle judges the implementation alone, see c18Judge.
//
// Sub-families (all run by default; one is selected with -arg kind=<name>):
//	roundtrip  equal schemas: blocks of catalogue columns at revisions on both sides of every feature, typed
//	           targets (names given or blank), AutoResult targets and Results.Auto(); oracle: decoded
//	           names/types/rows/values = encoded.  Also the block-level correspondence of C01.
//	pairs      one column against one target: every type of the pool against every other
//	shape      permuted / renamed / blank names / extra / missing columns, zero-row header blocks with and without targets
//	seq        2-3 blocks with changing schemas against the same targets
//	malformed  truncated and altered blocks, custom-serialization flag set
//	nested     adoption below wrappers: Array / Map (also nested in each other) around Enum, DateTime, DateTime64 leaves,
//	           2-3 blocks whose types differ in leaf parameters only, against targets built blank or with other
//	           parameters; Nullable / LowCardinality as wrappers, Map sides whose types contain commas; Tuple, named
//	           Tuple and Tuple in Tuple around such leaves (ColTuple.Infer / ColNamed.Infer repaired by C18y)
//	arity      Tuple / Map types of different arity where one is an element-wise compatible prefix of the other, in both
//	           directions, followed by a String column (what a mis-bound tuple would read); every ordered pair, every run
//	failbind   a block that fails (cut / altered / foreign schema) followed by well-formed blocks of the targets' own
//	           schema: the later blocks must bind exactly (reset-before-decode), whatever the failed one left behind

import (
	"bytes"
	"fmt"
	"io"
	"math/rand"
	"reflect"
	"regexp"
	"strconv"
	"strings"
	"time"

	"github.com/ClickHouse/ch-go/proto"
)

func init() { runners["c18"] = runC18 }

type c18Spec struct {
	c14ColSpec
	inferAs    string // after mk(): Infer(inferAs) gives the column its parameters (source columns need them)
	targetOnly bool   // a column without parameters: usable as a target only
	noBind     bool   // (unused since the C18y repair of ColTuple.Infer: a tuple with an inferable element binds its own type now)
	alias      string // a source only: the filled column is sent under this type string (proto.Alias)
}

func (s c18Spec) label() string {
	if s.typ != "" {
		return s.typ
	}
	if s.inferAs != "" {
		return s.inferAs
	}
	return fmt.Sprintf("%T:%s", s.mk(), s.mk().Type())
}

func c18T(typ string, pool ...string) c18Spec {
	return c18Spec{c14ColSpec: c14ColSpec{typ: typ, strPool: pool}}
}

func c18M(mk func() proto.Column, inferAs string, pool ...string) c18Spec {
	return c18Spec{c14ColSpec: c14ColSpec{mk: mk, strPool: pool}, inferAs: inferAs}
}

// parameter-only differences, inferable targets, arrays / maps / tuples of them
var c18Params = []c18Spec{
	c18T("Enum8('a' = 1, 'b' = 2)", "a", "b"), c18T("Enum8('a'=1,'b'=2)", "a", "b"), c18T("Enum8('c' = 1, 'd' = 2)", "c", "d"),
	c18T("Enum8('a' = 1, 'b' = 2, 'c' = 3)", "a", "b", "c"), c18T("Enum8('b' = 1, 'a' = 2)", "a", "b"),
	c18T("Enum16('a' = 1, 'b' = 2)", "a", "b"), c18T("Enum16('x' = 1000, 'y' = -5, 'z' = 7)", "x", "y", "z"),
	c18T("Int8"), c18T("Int16"), c18T("UInt8"), c18T("Int32"), c18T("UInt32"), c18T("Int64"), c18T("UInt64"), c18T("Float32"), c18T("Float64"),
	c18T("String"), c18T("UUID"), c18T("Bool"), c18T("Date"), c18T("Date32"), c18T("IPv4"), c18T("IPv6"), c18T("Nothing"),
	c18T("DateTime"), c18T("DateTime('UTC')"), c18T("DateTime('Europe/Moscow')"),
	c18T("DateTime64(3)"), c18T("DateTime64(6)"), c18T("DateTime64(9, 'UTC')"), c18T("DateTime64(3, 'Europe/Berlin')"), c18T("DateTime64(3,'UTC')"),
	c18T("Decimal32(4)"), c18T("Decimal(9, 2)"), c18T("Decimal(9,2)"), c18T("Decimal64(6)"), c18T("Decimal(12, 3)"), c18T("Decimal(18,4)"),
	c18T("Decimal128(10)"), c18T("Decimal(38, 10)"), c18T("Decimal256(20)"), c18T("Decimal(76, 38)"), c18T("Decimal(10)"),
	c18T("IntervalSecond"), c18T("IntervalYear"), c18T("IntervalQuarter"),
	c18T("Map(String,String)"),
	c18M(func() proto.Column { return proto.NewMap[string, string](new(proto.ColStr), new(proto.ColStr)) }, ""),
	c18T("Array(String)"), c18T("Array(Int8)"), c18T("Array(UInt8)"), c18T("Nullable(String)"), c18T("Nullable(Int8)"), c18T("LowCardinality(String)"),
	c18T("Array(LowCardinality(String))"), c18T("Array(Nullable(String))"),
	c18T("Array(DateTime64(3))"), c18T("Array(DateTime64(6, 'UTC'))"), c18T("Array(DateTime('UTC'))"), c18T("Array(DateTime)"),
	c18T("Nullable(DateTime64(3))"), c18T("Nullable(DateTime64(6))"), c18T("Nullable(DateTime('UTC'))"),
	c18M(func() proto.Column { return proto.NewArray[string](new(proto.ColEnum)) }, "Array(Enum8('a' = 1, 'b' = 2))", "a", "b"),
	c18M(func() proto.Column { return proto.NewArray[string](new(proto.ColEnum)) }, "Array(Enum8('c' = 1, 'd' = 2))", "c", "d"),
	c18M(func() proto.Column { return proto.NewArray[string](new(proto.ColEnum)) }, "Array(Enum16('a' = 1, 'b' = 2))", "a", "b"),
	c18M(func() proto.Column { return proto.NewMap[string, string](new(proto.ColStr), new(proto.ColEnum)) }, "Map(String, Enum8('a' = 1, 'b' = 2))", "a", "b"),
	c18M(func() proto.Column { return proto.NewMap[string, string](new(proto.ColStr), new(proto.ColEnum)) }, "Map(String,Enum8('c' = 1, 'd' = 2))", "c", "d"),
	c18M(func() proto.Column {
		return proto.NewMap[string, time.Time](new(proto.ColStr), new(proto.ColDateTime64))
	}, "Map(String, DateTime64(3))"),
	c18M(func() proto.Column {
		return proto.NewMap[string, time.Time](new(proto.ColStr), new(proto.ColDateTime64))
	}, "Map(String, DateTime64(6, 'UTC'))"),
	c18M(func() proto.Column {
		return proto.NewMap[time.Time, []time.Time](new(proto.ColDateTime), new(proto.ColDateTime64).Array())
	}, "Map(DateTime('UTC'), Array(DateTime64(9)))"),
	c18M(func() proto.Column { return proto.ColTuple{new(proto.ColStr), new(proto.ColInt64)} }, ""),
	c18M(func() proto.Column {
		return proto.ColTuple{proto.Named[string](new(proto.ColStr), "s"), proto.Named[int64](new(proto.ColInt64), "i")}
	}, ""),
	{c14ColSpec: c14ColSpec{mk: func() proto.Column { return proto.ColTuple{new(proto.ColDateTime), new(proto.ColStr)} }}},
	{c14ColSpec: c14ColSpec{mk: func() proto.Column { return proto.ColTuple{new(proto.ColStr), new(proto.ColInterval)} }}},
	// tuples with adopting elements, differing in element parameters only (ColTuple.Infer: element i gets argument i)
	c18M(func() proto.Column { return proto.ColTuple{new(proto.ColStr), new(proto.ColDateTime64)} }, "Tuple(String, DateTime64(3))"),
	c18M(func() proto.Column { return proto.ColTuple{new(proto.ColStr), new(proto.ColDateTime64)} }, "Tuple(String, DateTime64(6, 'UTC'))"),
	c18M(func() proto.Column { return proto.ColTuple{new(proto.ColStr), new(proto.ColDateTime64)} }, "Tuple(String,DateTime64(9))"),
	c18M(func() proto.Column { return proto.ColTuple{new(proto.ColStr), new(proto.ColEnum)} }, "Tuple(String, Enum8('a' = 1, 'b' = 2))", "a", "b"),
	c18M(func() proto.Column { return proto.ColTuple{new(proto.ColStr), new(proto.ColEnum)} }, "Tuple(String, Enum16('a' = 1, 'b' = 2))", "a", "b"),
	c18M(func() proto.Column { return proto.ColTuple{new(proto.ColStr), new(proto.ColEnum)} }, "Tuple(String, Enum8('c' = 1, 'd' = 2))", "c", "d"),
	c18M(func() proto.Column { return proto.ColTuple{new(proto.ColStr), new(proto.ColInt8)} }, ""),
	c18M(func() proto.Column {
		return proto.ColTuple{proto.Named[string](new(proto.ColStr), "s"), proto.Named[string](new(proto.ColEnum), "e")}
	}, "Tuple(s String, e Enum8('a' = 1, 'b' = 2))", "a", "b"),
	c18M(func() proto.Column {
		return proto.ColTuple{proto.Named[string](new(proto.ColStr), "s"), proto.Named[string](new(proto.ColEnum), "f")}
	}, "Tuple(s String, f Enum8('a' = 1, 'b' = 2))", "a", "b"),
	c18M(func() proto.Column {
		return proto.ColTuple{new(proto.ColEnum), new(proto.ColDateTime).Nullable()}
	}, "Tuple(Enum8('a' = 1, 'b' = 2), Nullable(DateTime('UTC')))", "a", "b"),
	c18M(func() proto.Column {
		return proto.ColTuple{new(proto.ColStr), proto.ColTuple{new(proto.ColEnum), new(proto.ColDateTime64)}}
	}, "Tuple(String, Tuple(Enum8('a' = 1, 'b' = 2), DateTime64(3, 'UTC')))", "a", "b"),
	c18T("FixedString(8)"), c18T("FixedString(16)"),
	{c14ColSpec: c14ColSpec{mk: func() proto.Column { return &proto.ColFixedStr{Size: 8} }, bytesLen: 8}},
	{c14ColSpec: c14ColSpec{mk: func() proto.Column { return &proto.ColFixedStr{Size: 3} }, bytesLen: 3}},
	{c14ColSpec: c14ColSpec{mk: func() proto.Column { return new(proto.ColPoint) }}},
	{c14ColSpec: c14ColSpec{mk: func() proto.Column { return new(proto.ColJSONStr) }}},
	// the raw fixed-width enum columns: Enum8(...) binds to ColEnum8 and Enum16(...) to ColEnum16, never across (C18E)
	{c14ColSpec: c14ColSpec{mk: func() proto.Column { return new(proto.ColEnum8) }}},
	{c14ColSpec: c14ColSpec{mk: func() proto.Column { return new(proto.ColEnum16) }}},
	{c14ColSpec: c14ColSpec{mk: func() proto.Column { return new(proto.ColEnum8).Array() }}},
	{c14ColSpec: c14ColSpec{mk: func() proto.Column { return new(proto.ColEnum16).Nullable() }}},
}

// columns as a caller declares them before any block arrived: no parameters yet
var c18Blank = []c18Spec{
	{c14ColSpec: c14ColSpec{mk: func() proto.Column { return new(proto.ColEnum) }, strPool: []string{"a", "b", "q"}}, targetOnly: true},
	{c14ColSpec: c14ColSpec{mk: func() proto.Column { return new(proto.ColDateTime64) }}, targetOnly: true},
	{c14ColSpec: c14ColSpec{mk: func() proto.Column { return new(proto.ColDateTime) }}, targetOnly: true},
	{c14ColSpec: c14ColSpec{mk: func() proto.Column { return new(proto.ColInterval) }}, targetOnly: true},
	{c14ColSpec: c14ColSpec{mk: func() proto.Column { return proto.NewArray[string](new(proto.ColEnum)) }, strPool: []string{"a", "b"}}, targetOnly: true},
	{c14ColSpec: c14ColSpec{mk: func() proto.Column {
		return proto.NewMap[string, time.Time](new(proto.ColStr), new(proto.ColDateTime64))
	}}, targetOnly: true},
	{c14ColSpec: c14ColSpec{mk: func() proto.Column {
		return new(proto.ColDateTime64).WithPrecision(proto.PrecisionMilli).WithLocation(time.UTC)
	}}, targetOnly: true},
	{c14ColSpec: c14ColSpec{mk: func() proto.Column { return new(proto.ColDateTime64).Array() }}, targetOnly: true},
	{c14ColSpec: c14ColSpec{mk: func() proto.Column { return proto.ColTuple{new(proto.ColStr), new(proto.ColDateTime64)} }}, targetOnly: true},
	{c14ColSpec: c14ColSpec{mk: func() proto.Column { return proto.ColTuple{new(proto.ColStr), new(proto.ColEnum)} },
		strPool: []string{"a", "b"}}, targetOnly: true},
	{c14ColSpec: c14ColSpec{mk: func() proto.Column {
		return proto.ColTuple{proto.Named[string](new(proto.ColStr), "s"), proto.Named[string](new(proto.ColEnum), "e")}
	}, strPool: []string{"a", "b"}}, targetOnly: true},
}

func c18Pool() (all []c18Spec, sources []c18Spec) {
	seen := map[string]bool{}
	add := func(s c18Spec) {
		l := s.label()
		if seen[l] {
			return
		}
		seen[l] = true
		all = append(all, s)
		if !s.targetOnly {
			sources = append(sources, s)
		}
	}
	for _, s := range c18Params {
		add(s)
	}
	for _, s := range c01Catalogue() {
		if c01Skip(s) || strings.Contains(s.name(), "FixedString(512)") { // 4096-bit scalars: slow in the model evaluator, C01's subject
			continue
		}
		add(c18Spec{c14ColSpec: s})
	}
	for _, s := range c18Blank {
		add(s)
	}
	return
}

func (s c18Spec) make() (col proto.Column, err error) {
	defer func() {
		if p := recover(); p != nil {
			err = fmt.Errorf("panic: %v", p)
		}
	}()
	col, err = s.build()
	if err != nil {
		return nil, err
	}
	if s.inferAs != "" {
		inf, ok := col.(proto.Inferable)
		if !ok {
			return nil, fmt.Errorf("%T is not inferable", col)
		}
		if err := inf.Infer(proto.ColumnType(s.inferAs)); err != nil {
			return nil, err
		}
	}
	return col, nil
}

// autoable: ColAuto can infer the type string the column reports (it cannot for "Map(String, String)", the Type() of the
// column it creates for "Map(String,String)")
func (s c18Spec) autoable() bool {
	col, err := s.make()
	if err != nil {
		return false
	}
	return new(proto.ColAuto).Infer(col.Type()) == nil
}

func (s c18Spec) filled(rows int, seed int64) (proto.Column, error) {
	col, err := s.make()
	if err != nil {
		return nil, err
	}
	if err := c14Fill(col, rows, rand.New(rand.NewSource(seed)), s.c14ColSpec); err != nil {
		return nil, err
	}
	if s.alias != "" {
		col = proto.Alias(col, proto.ColumnType(s.alias))
	}
	return col, nil
}

// ---------------------------------------------------------------- rendering

// ColLowCardinality.Reset keeps the key width of the previous block; with no rows it is not observable
var c18LcEmpty = regexp.MustCompile(`\(lc \(\) (\((?:[^()]|\([^()]*\))*\)) \d+ \(\)\)`)

// c18Clean keeps error texts (which quote bytes of altered blocks) on one transcript line
func c18Clean(s string) string {
	b := []byte(sanitize(s))
	for i, c := range b {
		if c < 0x20 || c >= 0x7f {
			b[i] = '?'
		}
	}
	return string(b)
}

func c18Norm(s string) string { return c18LcEmpty.ReplaceAllString(s, "(lc () $1 0 ())") }

func c18TargetSx(rc proto.ResultColumn) (string, bool) {
	name := hx([]byte(rc.Name))
	if a, ok := rc.Data.(*proto.ColAuto); ok {
		if a.Data == nil {
			return sx(name, "auto"), true
		}
		ty, data, err := colDump(a.Data)
		if err != nil {
			return "", false
		}
		return sx(name, "auto", hx([]byte(a.DataType)), ty, c18Norm(data)), true
	}
	ty, data, err := colDump(rc.Data)
	if err != nil {
		return "", false
	}
	return sx(name, ty, c18Norm(data)), true
}

func c18TargetsSx(res proto.Results) (string, bool) {
	xs := make([]string, len(res))
	for i, rc := range res {
		s, ok := c18TargetSx(rc)
		if !ok {
			return "", false
		}
		xs[i] = s
	}
	return sx(xs...), true
}

func c18Zones(texts ...string) string {
	seen := map[string]bool{}
	var rows []string
	for _, t := range texts {
		if len(t) > 4000 {
			t = t[:4000]
		}
		tbl := c19ZoneTable(t)
		tbl = strings.TrimSuffix(strings.TrimPrefix(tbl, "("), ")")
		for _, row := range strings.SplitAfter(tbl, ")") {
			row = strings.TrimSpace(row)
			if row != "" && !seen[row] {
				seen[row] = true
				rows = append(rows, row)
			}
		}
	}
	return "(" + strings.Join(rows, " ") + ")"
}

// ---------------------------------------------------------------- running the real code

type c18Src struct {
	name string
	col  proto.Column
	typ  string
	body []byte // state + column bytes as the block carries them
}

// c18Encode builds the block with the real encoder; the case line of the model carries the columns as they are before.
func c18Encode(rev int, info proto.BlockInfo, rows int, srcs []c18Src) (line string, wire []byte, err error) {
	defer func() {
		if p := recover(); p != nil {
			err = fmt.Errorf("panic: %v", p)
		}
	}()
	var cols []string
	var in []proto.InputColumn
	dumpOK := true
	for _, s := range srcs {
		ty, data, derr := colDump(s.col)
		if derr != nil {
			dumpOK = false
		}
		cols = append(cols, sx(hx([]byte(s.name)), ty, data))
		in = append(in, proto.InputColumn{Name: s.name, Data: s.col})
	}
	var buf proto.Buffer
	blk := proto.Block{Info: info, Columns: len(srcs), Rows: rows}
	if e := blk.EncodeBlock(&buf, rev, in); e != nil {
		return "", nil, e
	}
	if dumpOK {
		line = fmt.Sprintf("encblock %s %d %s %d %d %s", buildName, rev, bsym(info.Overflows), info.BucketNum, rows, sx(cols...))
	}
	for i := range srcs {
		srcs[i].typ = string(srcs[i].col.Type())
		st, body, e := encodeCol(srcs[i].col, nil)
		if e != nil {
			return "", nil, e
		}
		srcs[i].body = append(st, body...)
	}
	return line, buf.Buf, nil
}

type c18Out struct {
	err     error
	crashed bool
	blk     proto.Block
	left    int
}

func c18Decode(auto bool, res *proto.Results, rev int, in []byte) (o c18Out) {
	defer func() {
		if p := recover(); p != nil {
			o.crashed = true
			o.err = fmt.Errorf("panic: %v", p)
		}
	}()
	r := proto.NewReader(bytes.NewReader(in))
	var target proto.Result = *res
	if auto {
		target = res.Auto()
	}
	o.err = o.blk.DecodeBlock(r, rev, target)
	if o.err == nil {
		rest, _ := io.ReadAll(r)
		o.left = len(rest)
	}
	return o
}

func c18Obs(o c18Out, res proto.Results) string {
	if o.crashed {
		return "crash " + c18Clean(o.err.Error())
	}
	if c18Huge(res) {
		return "-" // a corrupted count made a decoder allocate a huge column: not dumped, not compared
	}
	ts, ok := c18TargetsSx(res)
	if !ok {
		return "-"
	}
	if o.err != nil {
		acc, ok := c18Acc(res)
		if !ok || len(ts) > c18DumpMax {
			return "-"
		}
		return "fail " + ts + " " + acc
	}
	return fmt.Sprintf("ok %d %d %s %d", o.blk.Columns, o.blk.Rows, ts, o.left)
}

const (
	c18AccMax  = 200000
	c18DumpMax = 1 << 20
)

func c18Huge(res proto.Results) bool {
	for _, rc := range res {
		if c18Weight(rc.Data) > c18AccMax {
			return true
		}
	}
	return false
}

// c18Weight: the number of elements a column object holds at all nesting levels (Rows() of an Array says nothing about
// the size of its element column)
func c18Weight(c any) (n int) {
	defer func() {
		if recover() != nil {
			n = 0
		}
	}()
	if c == nil {
		return 0
	}
	if a, ok := c.(*proto.ColAuto); ok {
		if a.Data == nil {
			return 0
		}
		return c18Weight(a.Data)
	}
	if tup, ok := c.(proto.ColTuple); ok {
		for _, m := range tup {
			n += c18Weight(m)
		}
		return n
	}
	if _, ok := c.(interface{ ColumnName() string }); ok {
		return c18Weight(deref(reflect.ValueOf(c)).Field(0).Interface())
	}
	v := deref(reflect.ValueOf(c))
	if v.Kind() == reflect.Struct {
		switch typeBase(v.Type()) {
		case "ColArr":
			return v.FieldByName("Offsets").Len() + c18Weight(v.FieldByName("Data").Interface())
		case "ColNullable":
			return v.FieldByName("Nulls").Len() + c18Weight(v.FieldByName("Values").Interface())
		case "ColMap":
			return v.FieldByName("Offsets").Len() + c18Weight(v.FieldByName("Keys").Interface()) + c18Weight(v.FieldByName("Values").Interface())
		case "ColLowCardinality":
			return v.FieldByName("Values").Len() + c18Weight(reflectIface(v.FieldByName("index")))
		}
	}
	if r, ok := c.(interface{ Rows() int }); ok {
		return r.Rows()
	}
	return 0
}

// c18OffsetMax: the largest cumulative offset any Array / Map inside c holds.  After a FAILED decode a column may be
// left with offsets read from the hostile bytes and no elements; Row(i) of an array whose elements never refuse an index
// (Nothing) then builds a row of that many elements: such a column is not probed
func c18OffsetMax(c any) (m uint64) {
	defer func() {
		if recover() != nil {
			m = 0
		}
	}()
	if c == nil {
		return 0
	}
	if a, ok := c.(*proto.ColAuto); ok {
		if a.Data == nil {
			return 0
		}
		return c18OffsetMax(a.Data)
	}
	if tup, ok := c.(proto.ColTuple); ok {
		for _, x := range tup {
			if v := c18OffsetMax(x); v > m {
				m = v
			}
		}
		return m
	}
	if _, ok := c.(interface{ ColumnName() string }); ok {
		return c18OffsetMax(deref(reflect.ValueOf(c)).Field(0).Interface())
	}
	v := deref(reflect.ValueOf(c))
	if v.Kind() != reflect.Struct {
		return 0
	}
	offs := func(f reflect.Value) {
		for i := 0; i < f.Len(); i++ {
			if x := f.Index(i).Uint(); x > m {
				m = x
			}
		}
	}
	sub := func(x any) {
		if v := c18OffsetMax(x); v > m {
			m = v
		}
	}
	switch typeBase(v.Type()) {
	case "ColArr":
		offs(v.FieldByName("Offsets"))
		sub(v.FieldByName("Data").Interface())
	case "ColNullable":
		sub(v.FieldByName("Values").Interface())
	case "ColMap":
		offs(v.FieldByName("Offsets"))
		sub(v.FieldByName("Keys").Interface())
		sub(v.FieldByName("Values").Interface())
	case "ColLowCardinality":
		sub(reflectIface(v.FieldByName("index")))
	}
	return m
}

// c18Readable: Row(i) returns (does not panic) for every i < n
func c18Readable(c any, n int) (ok bool) {
	defer func() {
		if recover() != nil {
			ok = false
		}
	}()
	if a, isA := c.(*proto.ColAuto); isA {
		return c18Readable(a.Data, n)
	}
	if tup, isT := c.(proto.ColTuple); isT {
		for _, m := range tup {
			if !c18Readable(m, n) {
				return false
			}
		}
		return true
	}
	m := reflect.ValueOf(c).MethodByName("Row")
	if !m.IsValid() || m.Type().NumIn() != 1 {
		return true
	}
	for i := 0; i < n; i++ {
		m.Call([]reflect.Value{reflect.ValueOf(i)})
	}
	return true
}

// c18Acc: what the accessors of every target say: Rows(), and whether every row below it can be read
func c18Acc(res proto.Results) (string, bool) {
	xs := make([]string, len(res))
	for i, rc := range res {
		n := c18Rows(rc.Data)
		switch {
		case n < 0:
			xs[i] = sx("-1", "t")
		case n > c18AccMax:
			return "", false
		case c18OffsetMax(rc.Data) > uint64(c18AccMax):
			return "", false
		default:
			rd := bsym(c18Readable(rc.Data, n))
			// ColFixedStr.Row slices its buffer: below a wrapper a row beyond the buffer's length but within its
			// capacity (memory of an earlier block) is returned, not refused - capacity is not an observable here
			if ty, _, err := colDump(rc.Data); err != nil || (strings.Contains(ty, "(fstr ") && !strings.HasPrefix(ty, "(fstr ")) {
				rd = "?"
			}
			xs[i] = sx(strconv.Itoa(n), rd)
		}
	}
	return sx(xs...), true
}

// ---------------------------------------------------------------- the direct oracle

// c18Family: the compatibility class of a type as the property words it: enums are their integers,
// Decimal(P, S) is the DecimalN of its precision, time zones and DateTime64 precision are parameters,
// spaces after commas do not matter, Array / Nullable / LowCardinality are compared element-wise.
func c18Family(t string) string {
	base, elem := t, ""
	if i := strings.IndexByte(t, '('); i > 0 && strings.HasSuffix(t, ")") {
		base, elem = t[:i], t[i+1:len(t)-1]
	}
	switch base {
	case "Enum8":
		return "Int8"
	case "Enum16":
		return "Int16"
	case "Decimal32", "Decimal64", "Decimal128", "Decimal256":
		return base
	case "Decimal":
		p := 10
		if elem != "" {
			first, _, _ := strings.Cut(elem, ",")
			n, err := strconv.Atoi(strings.TrimSpace(first))
			if err != nil {
				return t
			}
			p = n
		}
		switch {
		case p < 10:
			return "Decimal32"
		case p < 19:
			return "Decimal64"
		case p < 39:
			return "Decimal128"
		case p < 77:
			return "Decimal256"
		}
		return t
	case "DateTime", "DateTime64":
		return base
	case "Array", "Nullable", "LowCardinality":
		return base + "(" + c18Family(elem) + ")"
	}
	var parts []string
	for _, p := range strings.Split(t, ",") {
		parts = append(parts, strings.TrimSpace(p))
	}
	return strings.Join(parts, ",")
}

// c18Adopted: an inferable target carries the parameters of the server's type, and only those.
func c18Adopted(col any, srv string, hadZone string) string {
	switch c := col.(type) {
	case *proto.ColAuto:
		if string(c.DataType) != srv {
			return fmt.Sprintf("ColAuto reports type %q after binding %q", c.DataType, srv)
		}
		if c.Data != nil && c18Family(string(c.Data.Type())) == c18Family(srv) {
			return c18Adopted(c.Data, srv, "")
		}
		return ""
	case *proto.ColEnum:
		if string(c.Type()) != srv {
			return fmt.Sprintf("ColEnum reports type %q after binding %q", c.Type(), srv)
		}
		n := reflect.ValueOf(c).Elem().FieldByName("strToRaw").Len()
		m := reflect.ValueOf(c).Elem().FieldByName("rawToStr").Len()
		if want := strings.Count(srv, "="); n > want || m > want {
			return fmt.Sprintf("ColEnum knows %d names / %d values after binding %q which defines %d", n, m, srv, want)
		}
	case *proto.ColDateTime:
		want := ""
		if i := strings.IndexByte(srv, '\''); i >= 0 {
			want = strings.Trim(srv[i:strings.LastIndexByte(srv, '\'')+1], "'")
		}
		got := ""
		if c.Location != nil {
			got = c.Location.String()
		}
		if got != want {
			return fmt.Sprintf("ColDateTime has zone %q after binding %q", got, srv)
		}
	case *proto.ColDateTime64:
		e := string(proto.ColumnType(srv).Elem())
		p, zone, hasZone := strings.Cut(e, ",")
		n, err := strconv.Atoi(strings.Trim(p, "' "))
		if err != nil || !c.PrecisionSet || int(c.Precision) != n {
			return fmt.Sprintf("ColDateTime64 has precision %d (set=%v) after binding %q", c.Precision, c.PrecisionSet, srv)
		}
		if hasZone {
			if c.Location == nil || c.Location.String() != strings.Trim(zone, "' ") {
				return fmt.Sprintf("ColDateTime64 has zone %v after binding %q", c.Location, srv)
			}
		} else if c.Location != nil {
			return fmt.Sprintf("ColDateTime64 keeps zone %v after binding %q, which names none", c.Location, srv)
		}
	case *proto.ColInterval:
		if string(c.Type()) != srv {
			return fmt.Sprintf("ColInterval reports %q after binding %q", c.Type(), srv)
		}
	case proto.ColTuple:
		// element i carries the parameters spelled in the i-th argument of Tuple(...)
		args := c18TopArgs(string(proto.ColumnType(srv).Elem()))
		if len(args) != len(c) {
			for _, e := range c {
				if _, inf := e.(proto.Inferable); inf {
					return fmt.Sprintf("a tuple of %d elements, one of them adopting, was bound to %q", len(c), srv)
				}
			}
			return "" // nothing to adopt: ColumnType.Conflicts alone decides (the empty tuple is "Tuple")
		}
		for i, e := range c {
			if m := c18Adopted(e, strings.TrimSpace(args[i]), ""); m != "" {
				return fmt.Sprintf("tuple element %d: %s", i, m)
			}
		}
	default:
		if n, ok := col.(interface{ ColumnName() string }); ok { // ColNamed[T]: "name type"
			rest, found := strings.CutPrefix(srv, n.ColumnName()+" ")
			if !found {
				return fmt.Sprintf("an element named %q was bound to %q", n.ColumnName(), srv)
			}
			v := reflect.ValueOf(col)
			if v.Kind() == reflect.Pointer {
				v = v.Elem()
			}
			if f := v.FieldByName("ColumnOf"); f.IsValid() && !f.IsNil() {
				return c18Adopted(f.Interface(), rest, "")
			}
			return ""
		}
		v := reflect.ValueOf(col)
		if v.Kind() != reflect.Pointer || v.Elem().Kind() != reflect.Struct {
			return ""
		}
		switch typeBase(v.Elem().Type()) {
		case "ColArr":
			return c18Adopted(v.Elem().FieldByName("Data").Interface(), string(proto.ColumnType(srv).Elem()), "")
		case "ColNullable":
			return c18Adopted(v.Elem().FieldByName("Values").Interface(), string(proto.ColumnType(srv).Elem()), "")
		case "ColLowCardinality":
			return c18Adopted(reflectIface(v.Elem().FieldByName("index")), string(proto.ColumnType(srv).Elem()), "")
		case "ColMap":
			args := c18TopArgs(string(proto.ColumnType(srv).Elem()))
			if len(args) != 2 {
				return ""
			}
			if m := c18Adopted(v.Elem().FieldByName("Keys").Interface(), strings.TrimSpace(args[0]), ""); m != "" {
				return m
			}
			return c18Adopted(v.Elem().FieldByName("Values").Interface(), strings.TrimSpace(args[1]), "")
		}
	}
	return ""
}

// c18TopArgs: the arguments of a composite type, i.e. the pieces between the commas that are outside every pair of
// parentheses and outside quotes (the oracle's own reading of a type string)
func c18TopArgs(s string) []string {
	var out []string
	depth, start := 0, 0
	inQuote := false
	for i := 0; i < len(s); i++ {
		c := s[i]
		if inQuote {
			if c == '\\' {
				i++
			} else if c == '\'' {
				inQuote = false
			}
			continue
		}
		switch c {
		case '\'':
			inQuote = true
		case '(':
			depth++
		case ')':
			depth--
		case ',':
			if depth == 0 {
				out = append(out, s[start:i])
				start = i + 1
			}
		}
	}
	return append(out, s[start:])
}

type c18Pre struct {
	name string
	typ  string // Type() before the call, for tuple targets ("" otherwise)
	data string // contents before the call ("" when the column cannot be dumped)
	rows int
}

func c18Snapshot(res proto.Results) []c18Pre {
	out := make([]c18Pre, len(res))
	for i, rc := range res {
		out[i].name = rc.Name
		if tup, ok := rc.Data.(proto.ColTuple); ok {
			out[i].typ = c18TypeOf(tup)
		}
		if c18Weight(rc.Data) > c18AccMax {
			continue // left by a failed block with a corrupted count: not dumped (data stays "": not judged)
		}
		if a, ok := rc.Data.(*proto.ColAuto); ok && a.Data == nil {
			out[i].data = "auto"
			continue
		}
		if _, d, err := colDump(rc.Data); err == nil {
			out[i].data = c18Norm(d)
		}
		out[i].rows = c18Rows(rc.Data)
	}
	return out
}

func c18TypeOf(c proto.Column) (t string) {
	defer func() {
		if recover() != nil {
			t = ""
		}
	}()
	return string(c.Type())
}

// c18TupleArity: a tuple target with an adopting element that was offered a Tuple type with another number of elements
// holds the parameters it held before: the type cannot be adopted, element by element or in part
func c18TupleArity(pre c18Pre, rc proto.ResultColumn, srv string) string {
	tup, ok := rc.Data.(proto.ColTuple)
	if !ok || pre.typ == "" || !strings.HasPrefix(srv, "Tuple(") {
		return ""
	}
	if len(c18TopArgs(string(proto.ColumnType(srv).Elem()))) == len(tup) {
		return ""
	}
	for _, e := range tup {
		if _, inf := e.(proto.Inferable); inf {
			if now := c18TypeOf(tup); now != pre.typ {
				return fmt.Sprintf("a tuple target of %d elements reported %q, was offered %q and reports %q", len(tup), pre.typ, srv, now)
			}
			return ""
		}
	}
	return ""
}

func c18Rows(c proto.ColResult) (n int) {
	defer func() {
		if recover() != nil {
			n = -1
		}
	}()
	return c.Rows()
}

// holds: the column's contents are exactly what source column s carried (compared on the wire form)
func c18Holds(c proto.ColResult, s c18Src) bool {
	col, ok := c.(proto.Column)
	if !ok {
		return false
	}
	if a, isAuto := c.(*proto.ColAuto); isAuto {
		if a.Data == nil {
			return false
		}
		col = a.Data
	}
	if col.Rows() != s.col.Rows() {
		if tup, isT := col.(proto.ColTuple); !(isT && len(tup) == 0) {
			return false
		}
	}
	st, body, err := encodeCol(col, nil)
	return err == nil && bytes.Equal(append(st, body...), s.body)
}

// c18Judge evaluates the property on the implementation's behaviour for one well-formed block.
//   - success only if the column count matches (or no targets and no rows), every name equals the target's or the
//     target's was blank, every type is in the target's compatibility class; then target i holds column i's data,
//     has its name, and carries the server's parameters
//   - failure: targets before the failing one hold their own column's data, the others are untouched - no target
//     holds another column's data
func c18Judge(auto bool, pre []c18Pre, res proto.Results, o c18Out, rows int, srcs []c18Src, wellFormed bool) string {
	if o.crashed {
		return "FAIL:DecodeBlock panicked: " + c18Clean(o.err.Error())
	}
	if !wellFormed {
		return "ok"
	}
	grown := auto && len(pre) == 0
	if o.err == nil {
		if len(srcs) == 0 && rows == 0 {
			return "ok" // end-of-data block
		}
		if len(pre) == 0 && !auto {
			if rows != 0 && len(srcs) != 0 {
				return "FAIL:a block with columns and rows was accepted without targets"
			}
			return "ok"
		}
		if len(res) != len(srcs) {
			return fmt.Sprintf("FAIL:column count: a block of %d columns was bound to %d targets", len(srcs), len(res))
		}
		for i, s := range srcs {
			if res[i].Name != s.name {
				return fmt.Sprintf("FAIL:name: target %d is called %q after binding column %q", i, res[i].Name, s.name)
			}
			if !grown && pre[i].name != "" && pre[i].name != s.name {
				return fmt.Sprintf("FAIL:name: column %q was bound to the target named %q", s.name, pre[i].name)
			}
			has := string(res[i].Data.Type())
			if c18Family(has) != c18Family(s.typ) {
				return fmt.Sprintf("FAIL:type: column %d of type %q was bound to a target of type %q", i, s.typ, has)
			}
			if n := c18Rows(res[i].Data); n != rows {
				if tup, isT := res[i].Data.(proto.ColTuple); !(isT && len(tup) == 0) {
					return fmt.Sprintf("FAIL:rows: target %d reports %d rows after a block of %d", i, n, rows)
				}
			}
			if !c18Holds(res[i].Data, s) {
				return fmt.Sprintf("FAIL:data: target %d does not hold the data of column %d (%s)", i, i, s.typ)
			}
			if m := c18Adopted(res[i].Data, s.typ, ""); m != "" {
				return "FAIL:adopt: " + m
			}
		}
		return "ok"
	}
	// failure
	// a well-formed block can only be rejected as a mismatch (count, name, type, inference) or because a compatible target
	// cannot represent a value (an Enum without that code): a decoder that runs off the column's bytes was bound to a
	// column of another layout
	if e := o.err.Error(); strings.Contains(e, "EOF") {
		return "FAIL:layout: a well-formed block made a column decoder run past its column's data: " + c18Clean(e)
	}
	if grown {
		// Results.Auto appends the columns it decoded: a prefix of the block
		for i, rc := range res {
			if i >= len(srcs) || rc.Name != srcs[i].name || !c18Holds(rc.Data, srcs[i]) {
				return fmt.Sprintf("FAIL:data: after a failed block Results.Auto kept a column %d that is not column %d of the block", i, i)
			}
		}
		return "ok"
	}
	if len(res) != len(pre) {
		return "FAIL:the number of targets changed"
	}
	stage := 0 // 0: own data so far, 1: after the failing target (untouched)
	for i, rc := range res {
		if pre[i].name != "" && rc.Name != pre[i].name {
			return fmt.Sprintf("FAIL:name: target %d was renamed from %q to %q", i, pre[i].name, rc.Name)
		}
		if i < len(srcs) {
			if m := c18TupleArity(pre[i], rc, srcs[i].typ); m != "" {
				return "FAIL:adopt: " + m
			}
		}
		if pre[i].data == "" {
			continue
		}
		var now string
		if a, ok := rc.Data.(*proto.ColAuto); ok && a.Data == nil {
			now = "auto"
		} else if _, d, err := colDump(rc.Data); err == nil {
			now = c18Norm(d)
		}
		untouched := now == pre[i].data
		own := i < len(srcs) && c18Holds(rc.Data, srcs[i])
		switch {
		case stage == 0 && own:
			// bound
		case stage == 0:
			// the failing target: untouched, reset, or partially decoded from its own position - but never another column's data
			for j, s := range srcs {
				if j != i && rows > 0 && len(s.body) > 0 && c18Holds(rc.Data, s) && !untouched {
					return fmt.Sprintf("FAIL:data: after a failed block target %d holds the data of column %d", i, j)
				}
			}
			stage = 1
		case !untouched:
			return fmt.Sprintf("FAIL:data: target %d behind the failing column was modified", i)
		}
	}
	return "ok"
}

// ---------------------------------------------------------------- cases

type c18Tgt struct {
	spec    c18Spec
	name    string
	auto    bool // AutoResult
	prefill int
}

func c18Targets(h *H, ts []c18Tgt) (proto.Results, error) {
	var res proto.Results
	for _, t := range ts {
		if t.auto {
			res = append(res, proto.AutoResult(t.name))
			continue
		}
		col, err := t.spec.make()
		if err != nil {
			return nil, err
		}
		if t.prefill > 0 {
			_ = c14Fill(col, t.prefill, rand.New(rand.NewSource(h.R.Int63())), t.spec.c14ColSpec) // a column without parameters may refuse rows
		}
		res = append(res, proto.ResultColumn{Name: t.name, Data: col})
	}
	return res, nil
}

func c18Sources(h *H, specs []c18Spec, names []string, rows int) ([]c18Src, error) {
	var out []c18Src
	for i, s := range specs {
		col, err := s.filled(rows, h.R.Int63())
		if err != nil {
			return nil, err
		}
		out = append(out, c18Src{name: names[i], col: col})
	}
	return out, nil
}

var c18Names = []string{"a", "b", "c", "id", "value", "ts", "x y", "a.b", "Имя", "0"}

func c18Name(h *H, i int) string {
	if h.R.Intn(3) == 0 {
		return c18Names[h.R.Intn(len(c18Names))] + strconv.Itoa(i)
	}
	return "c" + strconv.Itoa(i)
}

func c18Rev(h *H) int {
	revs := revisions(h)
	return revs[h.R.Intn(len(revs))]
}

func c18Info(h *H) proto.BlockInfo {
	return proto.BlockInfo{Overflows: h.R.Intn(2) == 0, BucketNum: int(genI32(h.R))}
}

// one block against one list of targets
func c18One(h *H, kind string, rev int, specs []c18Spec, names []string, rows int, tgts []c18Tgt, auto bool, emitEnc bool) {
	srcs, err := c18Sources(h, specs, names, rows)
	if err != nil {
		h.Stat("c18.skipped.source")
		return
	}
	info := c18Info(h)
	encLine, wire, err := c18Encode(rev, info, rows, srcs)
	if err != nil {
		h.Stat("c18.skipped.encode")
		return
	}
	if emitEnc && encLine != "" {
		h.Emit(encLine, "ok "+hx(wire), "ok")
		h.Stat("c18.encblock")
	}
	res, err := c18Targets(h, tgts)
	if err != nil {
		h.Stat("c18.skipped.target")
		return
	}
	trailing := genShortBytes(h.R)
	wire = append(wire, trailing...)
	c18Run(h, kind, auto, rev, res, wire, rows, srcs, true, emitEnc, len(trailing), "")
}

func c18Run(h *H, kind string, auto bool, rev int, res proto.Results, wire []byte, rows int, srcs []c18Src, wellFormed, mustBind bool, trail int, mustFail string) {
	before, ok := c18TargetsSx(res)
	pre := c18Snapshot(res)
	var types []string
	if wellFormed {
		for _, s := range srcs {
			types = append(types, s.typ)
		}
	} else {
		types = append(types, string(wire))
	}
	o := c18Decode(auto, &res, rev, wire)
	obs := c18Obs(o, res)
	oracle := c18Judge(auto, pre, res, o, rows, srcs, wellFormed)
	if mustFail != "" && oracle == "ok" && o.err == nil {
		oracle = "FAIL:" + mustFail
	}
	if mustBind && oracle == "ok" && o.err != nil {
		oracle = "FAIL:roundtrip: a block was rejected by targets of its own column types: " + c18Clean(o.err.Error())
	}
	if mustBind && oracle == "ok" && o.left != trail {
		oracle = fmt.Sprintf("FAIL:roundtrip: the block was not consumed exactly: %d bytes left, %d follow it", o.left, trail)
	}
	if !ok {
		obs = "-"
	}
	h.Emit(fmt.Sprintf("decblock %s %s %d %s %s %s", bsym(auto), buildName, rev, c18Zones(types...), before, hx(wire)), obs, oracle)
	h.Stat("c18." + kind)
	switch {
	case o.crashed:
		h.Stat("c18.out.crash")
	case o.err != nil:
		h.Stat("c18.out.fail")
	default:
		h.Stat("c18.out.ok")
	}
}

var c18RowCounts = []int{0, 1, 2, 3, 5, 17}

func c18RowsPick(h *H) int {
	if h.Tier == "thorough" && h.R.Intn(15) == 0 {
		return []int{64, 255, 256, 257}[h.R.Intn(4)]
	}
	return c18RowCounts[h.R.Intn(len(c18RowCounts))]
}

// equal schemas
func c18Roundtrip(h *H, sources []c18Spec, n int) {
	for i := 0; i < n; i++ {
		k := 1 + h.R.Intn(4)
		if h.R.Intn(12) == 0 {
			k = 0
		}
		var specs []c18Spec
		var names []string
		autoable := true
		for j := 0; j < k; j++ {
			s := sources[h.R.Intn(len(sources))]
			for s.noBind {
				s = sources[h.R.Intn(len(sources))]
			}
			specs = append(specs, s)
			names = append(names, c18Name(h, j))
			if !s.autoable() {
				autoable = false
			}
		}
		rows := c18RowsPick(h)
		rev := c18Rev(h)
		mode := h.R.Intn(4)
		var tgts []c18Tgt
		auto := false
		switch {
		case mode == 0 && autoable: // Results.Auto()
			auto = true
		case mode == 1 && autoable: // AutoResult targets
			for j := range specs {
				tgts = append(tgts, c18Tgt{name: names[j], auto: true})
			}
		default:
			for j, s := range specs {
				t := c18Tgt{spec: s, name: names[j]}
				if h.R.Intn(3) == 0 {
					t.name = ""
				}
				if h.R.Intn(3) == 0 {
					t.prefill = 1 + h.R.Intn(3)
				}
				tgts = append(tgts, t)
			}
		}
		c18One(h, "roundtrip", rev, specs, names, rows, tgts, auto, true)
	}
}

// one column against one target: every type against every other
func c18Pairs(h *H, all, sources []c18Spec, n int) {
	type pair struct{ s, t int }
	var ps []pair
	for i := range sources {
		for j := range all {
			ps = append(ps, pair{i, j})
		}
	}
	h.R.Shuffle(len(ps), func(i, j int) { ps[i], ps[j] = ps[j], ps[i] })
	if n > len(ps) {
		n = len(ps)
	}
	// the enum / small-integer family, where ColumnType.Conflicts has its special cases (an enum binds to the integer of
	// its width and to the raw enum column of its width, never across widths): every ordered pair, every run
	focus := func(s c18Spec) bool {
		l := s.label()
		if strings.Contains(l, "Tuple(") || strings.Contains(l, "Map(") || strings.Contains(l, "ColTuple") || strings.Contains(l, "ColMap") {
			return false
		}
		if strings.Contains(l, "Enum") {
			return true
		}
		switch s.typ {
		case "Int8", "Int16", "UInt8", "UInt16":
			return true
		}
		return false
	}
	var fs []pair
	for i := range sources {
		if !focus(sources[i]) {
			continue
		}
		for j := range all {
			if focus(all[j]) {
				fs = append(fs, pair{i, j})
			}
		}
	}
	if len(fs) > 600 {
		h.R.Shuffle(len(fs), func(i, j int) { fs[i], fs[j] = fs[j], fs[i] })
		fs = fs[:600]
	}
	h.Stats["c18.pairs.enum-family"] += len(fs)
	ps = append(fs, ps[:n]...)
	n = len(ps)
	for _, p := range ps[:n] {
		rows := []int{0, 1, 2, 5}[h.R.Intn(4)]
		t := c18Tgt{spec: all[p.t], name: "v"}
		switch h.R.Intn(6) {
		case 0:
			t.name = ""
		case 1:
			t.prefill = 2
		}
		c18One(h, "pairs", c18Rev(h), []c18Spec{sources[p.s]}, []string{"v"}, rows, []c18Tgt{t}, false, false)
	}
}

// same types, different arrangement of the targets
func c18Shape(h *H, sources []c18Spec, n int) {
	for i := 0; i < n; i++ {
		k := 1 + h.R.Intn(4)
		var specs []c18Spec
		var names []string
		for j := 0; j < k; j++ {
			specs = append(specs, sources[h.R.Intn(len(sources))])
			names = append(names, c18Name(h, j))
		}
		tgts := make([]c18Tgt, k)
		for j := range tgts {
			tgts[j] = c18Tgt{spec: specs[j], name: names[j], prefill: h.R.Intn(3)}
		}
		rows := c18RowsPick(h)
		auto := false
		switch h.R.Intn(10) {
		case 0: // permuted
			h.R.Shuffle(k, func(a, b int) { tgts[a], tgts[b] = tgts[b], tgts[a] })
		case 1: // one renamed
			tgts[h.R.Intn(k)].name += "_"
		case 2: // names permuted, types in place
			j, l := h.R.Intn(k), h.R.Intn(k)
			tgts[j].name, tgts[l].name = tgts[l].name, tgts[j].name
		case 3: // some blank
			for j := range tgts {
				if h.R.Intn(2) == 0 {
					tgts[j].name = ""
				}
			}
		case 4: // an extra target
			e := c18Tgt{spec: sources[h.R.Intn(len(sources))], name: "extra", prefill: 1}
			at := h.R.Intn(k + 1)
			tgts = append(tgts[:at], append([]c18Tgt{e}, tgts[at:]...)...)
		case 5: // a missing target
			at := h.R.Intn(k)
			tgts = append(tgts[:at], tgts[at+1:]...)
		case 6: // header block (no rows)
			rows = 0
			if h.R.Intn(2) == 0 {
				tgts = nil
			}
		case 7: // no targets at all
			tgts = nil
			if h.R.Intn(2) == 0 {
				auto = true
			}
		case 8: // a type swapped somewhere behind the first column
			tgts[k-1].spec = sources[h.R.Intn(len(sources))]
		default: // AutoResult mixed with typed targets
			for j := range tgts {
				if h.R.Intn(2) == 0 && specs[j].autoable() {
					tgts[j] = c18Tgt{name: tgts[j].name, auto: true}
				}
			}
		}
		c18One(h, "shape", c18Rev(h), specs, names, rows, tgts, auto, false)
	}
}

// variants of a schema column for the next block of a sequence
func c18Vary(h *H, s c18Spec, sources []c18Spec) c18Spec {
	l := s.label()
	var same []c18Spec
	for _, o := range sources {
		if o.label() != l && c18Family(o.label()) == c18Family(l) {
			same = append(same, o)
		}
	}
	switch {
	case len(same) > 0 && h.R.Intn(3) != 0:
		return same[h.R.Intn(len(same))] // parameter-only change
	case h.R.Intn(4) == 0:
		return sources[h.R.Intn(len(sources))] // another type
	}
	return s
}

func c18Seq(h *H, sources []c18Spec, n int) {
	for i := 0; i < n; i++ {
		k := 1 + h.R.Intn(3)
		var specs []c18Spec
		var names []string
		autoable := true
		for j := 0; j < k; j++ {
			s := sources[h.R.Intn(len(sources))]
			if h.R.Intn(2) == 0 {
				s = c18Params[h.R.Intn(len(c18Params))]
			}
			specs = append(specs, s)
			names = append(names, c18Name(h, j))
			if !s.autoable() {
				autoable = false
			}
		}
		auto := false
		var tgts []c18Tgt
		switch mode := h.R.Intn(4); {
		case mode == 0 && autoable:
			auto = true
		case mode == 1 && autoable:
			for j := range specs {
				tgts = append(tgts, c18Tgt{name: []string{names[j], ""}[h.R.Intn(2)], auto: true})
			}
		default:
			for j, s := range specs {
				t := c18Tgt{spec: s, name: names[j]}
				if h.R.Intn(2) == 0 {
					t.name = ""
				}
				tgts = append(tgts, t)
			}
		}
		res, err := c18Targets(h, tgts)
		if err != nil {
			h.Stat("c18.skipped.target")
			continue
		}
		rev := c18Rev(h)
		before, dumpable := c18TargetsSx(res)
		nblocks := 2 + h.R.Intn(2)
		var wires []string
		var obss []string
		var types []string
		oracle := "ok"
		sticky := make([]string, len(res))
		for b := 0; b < nblocks; b++ {
			bs, bn := append([]c18Spec{}, specs...), append([]string{}, names...)
			if b > 0 {
				switch h.R.Intn(6) {
				case 0: // a column renamed
					bn[h.R.Intn(k)] += "2"
				case 1: // a column more
					bs, bn = append(bs, sources[h.R.Intn(len(sources))]), append(bn, "more")
				case 2: // a column less
					bs, bn = bs[:k-1], bn[:k-1]
				case 3, 4: // parameters or types change
					j := h.R.Intn(k)
					bs[j] = c18Vary(h, bs[j], sources)
				}
			}
			rows := c18RowCounts[h.R.Intn(len(c18RowCounts))]
			if b == 0 && h.R.Intn(3) == 0 {
				rows = 0 // the header block a query starts with
			}
			srcs, err := c18Sources(h, bs, bn, rows)
			if err != nil {
				break
			}
			_, wire, err := c18Encode(rev, c18Info(h), rows, srcs)
			if err != nil {
				break
			}
			for _, s := range srcs {
				types = append(types, s.typ)
			}
			pre := c18Snapshot(res)
			o := c18Decode(auto, &res, rev, wire)
			wires = append(wires, hx(wire))
			obss = append(obss, "("+c18Obs(o, res)+")")
			if v := c18Judge(auto, pre, res, o, rows, srcs, true); v != "ok" && oracle == "ok" {
				oracle = fmt.Sprintf("%s (block %d of the sequence)", v, b)
			}
			// names, once known, stay
			for j := range res {
				if j < len(sticky) {
					if sticky[j] != "" && res[j].Name != sticky[j] && oracle == "ok" {
						oracle = fmt.Sprintf("FAIL:name: target %d was %q and is %q after block %d", j, sticky[j], res[j].Name, b)
					}
					sticky[j] = res[j].Name
				}
			}
			if len(sticky) == 0 {
				sticky = make([]string, len(res))
				for j := range res {
					sticky[j] = res[j].Name
				}
			}
			if o.crashed {
				break
			}
		}
		if len(wires) == 0 {
			h.Stat("c18.skipped.seq")
			continue
		}
		obs := "seq " + strings.Join(obss, " ")
		if !dumpable || strings.Contains(obs, "(-)") {
			obs = "-"
		}
		h.Emit(fmt.Sprintf("decseq %s %s %d %s %s %s", bsym(auto), buildName, rev, c18Zones(types...), before, sx(wires...)), obs, oracle)
		h.Stat("c18.seq")
		h.Stat(fmt.Sprintf("c18.seq.blocks-%d", len(wires)))
	}
}

// altered blocks: the bytes are no longer what an encoder produces
func c18Malformed(h *H, sources []c18Spec, n int) {
	for i := 0; i < n; {
		k := 1 + h.R.Intn(3)
		var specs []c18Spec
		var names []string
		for j := 0; j < k; j++ {
			specs = append(specs, sources[h.R.Intn(len(sources))])
			names = append(names, c18Name(h, j))
		}
		rows := []int{0, 1, 2, 3}[h.R.Intn(4)]
		rev := c18Rev(h)
		srcs, err := c18Sources(h, specs, names, rows)
		if err != nil {
			i++
			continue
		}
		_, wire, err := c18Encode(rev, c18Info(h), rows, srcs)
		if err != nil {
			i++
			continue
		}
		for m := 0; m < 6; m++ {
			w := append([]byte{}, wire...)
			kind, mustFail := "", ""
			switch h.R.Intn(6) {
			case 0: // cut
				w = w[:h.R.Intn(len(w))]
				kind = "cut"
			case 1: // custom-serialization flag of the first column (the byte behind its type string)
				if !proto.FeatureCustomSerialization.In(rev) {
					continue
				}
				at := bytes.Index(w, append([]byte{byte(len(srcs[0].typ))}, srcs[0].typ...))
				if at < 0 || len(srcs[0].typ) > 127 || at+1+len(srcs[0].typ) >= len(w) {
					continue
				}
				w[at+1+len(srcs[0].typ)] = []byte{1, 1, 2, 0xff}[h.R.Intn(4)]
				kind = "flag"
				if w[at+1+len(srcs[0].typ)] == 1 {
					mustFail = "custom serialization: a block whose first column has the custom-serialization flag set was accepted"
				}
			case 2: // one byte
				w[h.R.Intn(len(w))] = []byte{0, 1, 2, 0x7f, 0x80, 0xff}[h.R.Intn(6)]
				kind = "byte"
			case 3: // bit flip
				w[h.R.Intn(len(w))] ^= 1 << uint(h.R.Intn(8))
				kind = "flip"
			case 4: // in the first bytes: block info, column and row counts
				w[h.R.Intn(min(len(w), 14))] = byte(h.R.Intn(256))
				kind = "head"
			default: // something spliced in
				at := h.R.Intn(len(w))
				w = append(append(append([]byte{}, w[:at]...), genShortBytes(h.R)...), w[at:]...)
				kind = "splice"
			}
			var tgts []c18Tgt
			for j, s := range specs {
				tgts = append(tgts, c18Tgt{spec: s, name: []string{names[j], ""}[h.R.Intn(2)], prefill: h.R.Intn(2)})
			}
			auto := h.R.Intn(4) == 0
			if auto {
				tgts = nil
			}
			res, err := c18Targets(h, tgts)
			if err != nil {
				continue
			}
			c18Run(h, "malformed."+kind, auto, rev, res, w, rows, srcs, false, false, 0, mustFail)
			i++
		}
	}
}

func runC18(h *H) {
	all, sources := c18Pool()
	kind := h.Args["kind"]
	want := func(k string) bool { return kind == "" || kind == k }
	n := h.N
	if kind == "" {
		n = h.N / 6
	}
	if want("roundtrip") {
		c18Roundtrip(h, sources, n)
	}
	if want("pairs") {
		c18Pairs(h, all, sources, n*2)
	}
	if want("shape") {
		c18Shape(h, sources, n)
	}
	if want("seq") {
		c18Seq(h, sources, n/2)
	}
	if want("malformed") {
		c18Malformed(h, sources, n/2)
	}
	if want("nested") {
		c18NestedFam(h, n/3)
	}
	if want("failbind") {
		c18FailBind(h, sources, n/3)
	}
	if want("arity") {
		c18Arity(h)
	}
}

// ---------------------------------------------------------------- sequences of blocks, generic

type c18Blk struct {
	wire       []byte
	rows       int
	srcs       []c18Src
	wellFormed bool
	mustBind   string // non-empty: a rejection of this block is a failure of the property (the text says why)
}

// c18RunSeq decodes the blocks one after the other into the same Results, judges every block and emits one decseq line.
func c18RunSeq(h *H, kind string, auto bool, rev int, res proto.Results, blks []c18Blk) {
	before, dumpable := c18TargetsSx(res)
	var wires, obss, types []string
	oracle := "ok"
	sticky := make([]string, len(res))
	for bi, b := range blks {
		if b.wellFormed {
			for _, s := range b.srcs {
				types = append(types, s.typ)
			}
		} else {
			types = append(types, string(b.wire))
		}
		pre := c18Snapshot(res)
		// the names the good block must meet are the ones the targets have NOW (an earlier block may have filled them)
		namesFit := len(pre) == len(b.srcs)
		for j := range pre {
			if namesFit && pre[j].name != "" && pre[j].name != b.srcs[j].name {
				namesFit = false
			}
		}
		o := c18Decode(auto, &res, rev, b.wire)
		wires = append(wires, hx(b.wire))
		obss = append(obss, "("+c18Obs(o, res)+")")
		if v := c18Judge(auto, pre, res, o, b.rows, b.srcs, b.wellFormed); v != "ok" && oracle == "ok" {
			oracle = fmt.Sprintf("%s (block %d of the sequence)", v, bi)
		}
		if b.mustBind != "" && namesFit && o.err != nil && oracle == "ok" {
			oracle = fmt.Sprintf("FAIL:%s: block %d was rejected: %s", b.mustBind, bi, c18Clean(o.err.Error()))
		}
		for j := range res {
			if j < len(sticky) {
				if sticky[j] != "" && res[j].Name != sticky[j] && oracle == "ok" {
					oracle = fmt.Sprintf("FAIL:name: target %d was %q and is %q after block %d", j, sticky[j], res[j].Name, bi)
				}
				sticky[j] = res[j].Name
			}
		}
		if len(sticky) == 0 {
			sticky = make([]string, len(res))
			for j := range res {
				sticky[j] = res[j].Name
			}
		}
		switch {
		case o.crashed:
			h.Stat("c18." + kind + ".block.crash")
		case o.err != nil:
			h.Stat("c18." + kind + ".block.fail")
		default:
			h.Stat("c18." + kind + ".block.ok")
		}
		if o.crashed {
			break
		}
	}
	obs := "seq " + strings.Join(obss, " ")
	if !dumpable || strings.Contains(obs, "(-)") {
		obs = "-"
	}
	h.Emit(fmt.Sprintf("decseq %s %s %d %s %s %s", bsym(auto), buildName, rev, c18Zones(types...), before, sx(wires...)), obs, oracle)
	h.Stat("c18." + kind)
}

// ---------------------------------------------------------------- nested adoption

// a wrapper structure around adopting leaves, and type strings for it that differ in leaf parameters only.
// Sources are built leaf first (the leaf's own Infer, then the wrappers around it), so that a wrapper whose Infer does
// nothing still meets blocks that spell parameters; targets are built blank or around leaves of another variant.
type c18NestSpec struct {
	leaves   []func() proto.Column               // the adopting leaves, without parameters
	wrap     func(l []proto.Column) proto.Column // the structure around them
	variants []c18NestVar
}

type c18NestVar struct {
	typ   string   // the type string of the whole structure
	leafs []string // the type string of every leaf, in the order of [leaves]
	pool  []string // admissible strings (enum names)
}

func c18NV(typ string, leafs []string, pool ...string) c18NestVar {
	return c18NestVar{typ, leafs, pool}
}

func c18Enum() proto.Column { return new(proto.ColEnum) }
func c18DT64() proto.Column { return new(proto.ColDateTime64) }
func c18DT() proto.Column   { return new(proto.ColDateTime) }

func c18Leafs(fs ...func() proto.Column) []func() proto.Column { return fs }

func ss(xs ...string) []string { return xs }

var c18Nests = []c18NestSpec{
	{leaves: c18Leafs(c18Enum), wrap: func(l []proto.Column) proto.Column { return proto.NewArray[string](l[0].(*proto.ColEnum)) },
		variants: []c18NestVar{
			c18NV("Array(Enum8('a' = 1, 'b' = 2))", ss("Enum8('a' = 1, 'b' = 2)"), "a", "b"),
			c18NV("Array(Enum8('c' = 1, 'd' = 2))", ss("Enum8('c' = 1, 'd' = 2)"), "c", "d"),
			c18NV("Array(Enum16('a' = 1, 'b' = 2))", ss("Enum16('a' = 1, 'b' = 2)"), "a", "b"),
			c18NV("Array(Enum8('b' = 1, 'a' = 2))", ss("Enum8('b' = 1, 'a' = 2)"), "a", "b"),
			c18NV("Array(Enum8('a' = 1, 'b' = 2, 'c' = 3))", ss("Enum8('a' = 1, 'b' = 2, 'c' = 3)"), "a", "b", "c")}},
	{leaves: c18Leafs(c18Enum), wrap: func(l []proto.Column) proto.Column {
		return proto.NewArray[[]string](proto.NewArray[string](l[0].(*proto.ColEnum)))
	}, variants: []c18NestVar{
		c18NV("Array(Array(Enum8('a' = 1, 'b' = 2)))", ss("Enum8('a' = 1, 'b' = 2)"), "a", "b"),
		c18NV("Array(Array(Enum8('c' = 1, 'd' = 2)))", ss("Enum8('c' = 1, 'd' = 2)"), "c", "d"),
		c18NV("Array(Array(Enum16('x' = 300, 'y' = -2)))", ss("Enum16('x' = 300, 'y' = -2)"), "x", "y")}},
	{leaves: c18Leafs(c18DT64), wrap: func(l []proto.Column) proto.Column { return l[0].(*proto.ColDateTime64).Array() },
		variants: []c18NestVar{
			c18NV("Array(DateTime64(3))", ss("DateTime64(3)")), c18NV("Array(DateTime64(6, 'UTC'))", ss("DateTime64(6, 'UTC')")),
			c18NV("Array(DateTime64(9, 'Europe/Berlin'))", ss("DateTime64(9, 'Europe/Berlin')")), c18NV("Array(DateTime64(0))", ss("DateTime64(0)"))}},
	{leaves: c18Leafs(c18DT64), wrap: func(l []proto.Column) proto.Column {
		return proto.NewArray[[]time.Time](l[0].(*proto.ColDateTime64).Array())
	}, variants: []c18NestVar{
		c18NV("Array(Array(DateTime64(3)))", ss("DateTime64(3)")), c18NV("Array(Array(DateTime64(6, 'UTC')))", ss("DateTime64(6, 'UTC')")),
		c18NV("Array(Array(DateTime64(9)))", ss("DateTime64(9)"))}},
	{leaves: c18Leafs(c18DT), wrap: func(l []proto.Column) proto.Column { return l[0].(*proto.ColDateTime).Array() },
		variants: []c18NestVar{
			c18NV("Array(DateTime)", ss("DateTime")), c18NV("Array(DateTime('UTC'))", ss("DateTime('UTC')")),
			c18NV("Array(DateTime('Europe/Moscow'))", ss("DateTime('Europe/Moscow')"))}},
	{leaves: c18Leafs(c18Enum), wrap: func(l []proto.Column) proto.Column {
		return proto.NewMap[string, string](new(proto.ColStr), l[0].(*proto.ColEnum))
	}, variants: []c18NestVar{
		c18NV("Map(String, Enum8('a' = 1))", ss("Enum8('a' = 1)"), "a"), c18NV("Map(String, Enum8('z' = 1))", ss("Enum8('z' = 1)"), "z"),
		c18NV("Map(String, Enum16('q' = 500))", ss("Enum16('q' = 500)"), "q"),
		// Map sides whose own type contains commas (repaired: ColMap.Infer cut the string at its first comma)
		c18NV("Map(String, Enum8('a' = 1, 'b' = 2))", ss("Enum8('a' = 1, 'b' = 2)"), "a", "b"),
		c18NV("Map(String, Enum8('c' = 1,'d' = 2,'e' = 3))", ss("Enum8('c' = 1,'d' = 2,'e' = 3)"), "c", "d", "e"),
		c18NV("Map(String, Enum16('a' = 1000, 'b' = -1))", ss("Enum16('a' = 1000, 'b' = -1)"), "a", "b")}},
	{leaves: c18Leafs(c18Enum, c18Enum), wrap: func(l []proto.Column) proto.Column {
		return proto.NewMap[string, string](l[0].(*proto.ColEnum), l[1].(*proto.ColEnum))
	}, variants: []c18NestVar{
		c18NV("Map(Enum8('k' = 1), Enum8('k' = 7))", ss("Enum8('k' = 1)", "Enum8('k' = 7)"), "k"),
		c18NV("Map(Enum8('x' = 1), Enum16('x' = 1000))", ss("Enum8('x' = 1)", "Enum16('x' = 1000)"), "x"),
		c18NV("Map(Enum16('k' = 2, 'j' = 3), Enum8('j' = 3, 'k' = 4))", ss("Enum16('k' = 2, 'j' = 3)", "Enum8('j' = 3, 'k' = 4)"), "k", "j")}},
	{leaves: c18Leafs(c18DT64), wrap: func(l []proto.Column) proto.Column {
		return proto.NewMap[string, time.Time](new(proto.ColStr), l[0].(*proto.ColDateTime64))
	}, variants: []c18NestVar{
		c18NV("Map(String, DateTime64(3))", ss("DateTime64(3)")), c18NV("Map(String, DateTime64(6))", ss("DateTime64(6)")),
		c18NV("Map(String, DateTime64(3, 'UTC'))", ss("DateTime64(3, 'UTC')")),
		c18NV("Map(String, DateTime64(9, 'Europe/Berlin'))", ss("DateTime64(9, 'Europe/Berlin')"))}},
	{leaves: c18Leafs(c18DT, c18DT64), wrap: func(l []proto.Column) proto.Column {
		return proto.NewMap[time.Time, []time.Time](l[0].(*proto.ColDateTime), l[1].(*proto.ColDateTime64).Array())
	}, variants: []c18NestVar{
		c18NV("Map(DateTime('UTC'), Array(DateTime64(9)))", ss("DateTime('UTC')", "DateTime64(9)")),
		c18NV("Map(DateTime, Array(DateTime64(3, 'UTC')))", ss("DateTime", "DateTime64(3, 'UTC')")),
		c18NV("Map(DateTime('Europe/Moscow'), Array(DateTime64(6)))", ss("DateTime('Europe/Moscow')", "DateTime64(6)"))}},
	{leaves: c18Leafs(c18Enum), wrap: func(l []proto.Column) proto.Column {
		return proto.NewArray[map[string]string](proto.NewMap[string, string](new(proto.ColStr), l[0].(*proto.ColEnum)))
	}, variants: []c18NestVar{
		c18NV("Array(Map(String, Enum8('a' = 1)))", ss("Enum8('a' = 1)"), "a"),
		c18NV("Array(Map(String, Enum8('b' = 1, 'c' = 2)))", ss("Enum8('b' = 1, 'c' = 2)"), "b", "c"),
		c18NV("Array(Map(String, Enum16('a' = 9)))", ss("Enum16('a' = 9)"), "a")}},
	{leaves: c18Leafs(c18Enum, c18Enum), wrap: func(l []proto.Column) proto.Column {
		return proto.NewMap[string, []string](l[0].(*proto.ColEnum), proto.NewArray[string](l[1].(*proto.ColEnum)))
	}, variants: []c18NestVar{
		c18NV("Map(Enum8('k' = 1, 'j' = 2), Array(Enum8('k' = 1, 'j' = 2)))", ss("Enum8('k' = 1, 'j' = 2)", "Enum8('k' = 1, 'j' = 2)"), "k", "j"),
		c18NV("Map(Enum16('k' = 5, 'j' = 6), Array(Enum8('j' = 1, 'k' = 2)))", ss("Enum16('k' = 5, 'j' = 6)", "Enum8('j' = 1, 'k' = 2)"), "k", "j"),
		c18NV("Map(Enum8('k' = 1), Array(Enum16('k' = 300)))", ss("Enum8('k' = 1)", "Enum16('k' = 300)"), "k")}},
	// Nullable and LowCardinality hand Infer on like Array does (repaired for this extension: they had no Infer method)
	{leaves: c18Leafs(c18DT64), wrap: func(l []proto.Column) proto.Column { return l[0].(*proto.ColDateTime64).Nullable() },
		variants: []c18NestVar{
			c18NV("Nullable(DateTime64(3))", ss("DateTime64(3)")), c18NV("Nullable(DateTime64(6))", ss("DateTime64(6)")),
			c18NV("Nullable(DateTime64(9, 'UTC'))", ss("DateTime64(9, 'UTC')")), c18NV("Nullable(DateTime64(0))", ss("DateTime64(0)"))}},
	{leaves: c18Leafs(c18DT64), wrap: func(l []proto.Column) proto.Column {
		return proto.NewArray[proto.Nullable[time.Time]](l[0].(*proto.ColDateTime64).Nullable())
	}, variants: []c18NestVar{
		c18NV("Array(Nullable(DateTime64(3)))", ss("DateTime64(3)")), c18NV("Array(Nullable(DateTime64(6)))", ss("DateTime64(6)")),
		c18NV("Array(Nullable(DateTime64(9, 'UTC')))", ss("DateTime64(9, 'UTC')"))}},
	{leaves: c18Leafs(c18DT), wrap: func(l []proto.Column) proto.Column { return l[0].(*proto.ColDateTime).Nullable() },
		variants: []c18NestVar{
			c18NV("Nullable(DateTime)", ss("DateTime")), c18NV("Nullable(DateTime('UTC'))", ss("DateTime('UTC')")),
			c18NV("Nullable(DateTime('Europe/Moscow'))", ss("DateTime('Europe/Moscow')"))}},
	{leaves: c18Leafs(c18DT64), wrap: func(l []proto.Column) proto.Column {
		return proto.NewMap[string, proto.Nullable[time.Time]](new(proto.ColStr), l[0].(*proto.ColDateTime64).Nullable())
	}, variants: []c18NestVar{
		c18NV("Map(String, Nullable(DateTime64(3, 'UTC')))", ss("DateTime64(3, 'UTC')")),
		c18NV("Map(String, Nullable(DateTime64(6)))", ss("DateTime64(6)"))}},
	{leaves: c18Leafs(c18DT), wrap: func(l []proto.Column) proto.Column { return l[0].(*proto.ColDateTime).LowCardinality() },
		variants: []c18NestVar{
			c18NV("LowCardinality(DateTime)", ss("DateTime")), c18NV("LowCardinality(DateTime('UTC'))", ss("DateTime('UTC')")),
			c18NV("LowCardinality(DateTime('Europe/Moscow'))", ss("DateTime('Europe/Moscow')"))}},
	// Tuple hands element i the i-th argument of Tuple(...), Named strips its name (repaired by C18y: both used to hand the
	// whole string on, so that none of the blocks below could bind)
	{leaves: c18Leafs(c18DT64), wrap: func(l []proto.Column) proto.Column { return proto.ColTuple{new(proto.ColStr), l[0]} },
		variants: []c18NestVar{
			c18NV("Tuple(String, DateTime64(3))", ss("DateTime64(3)")), c18NV("Tuple(String, DateTime64(6, 'UTC'))", ss("DateTime64(6, 'UTC')")),
			c18NV("Tuple(String, DateTime64(9, 'Europe/Berlin'))", ss("DateTime64(9, 'Europe/Berlin')")),
			c18NV("Tuple(String, DateTime64(0))", ss("DateTime64(0)"))}},
	{leaves: c18Leafs(c18Enum, c18DT), wrap: func(l []proto.Column) proto.Column {
		return proto.ColTuple{l[0], l[1].(*proto.ColDateTime).Nullable()}
	}, variants: []c18NestVar{
		c18NV("Tuple(Enum8('a' = 1, 'b' = 2), Nullable(DateTime('UTC')))", ss("Enum8('a' = 1, 'b' = 2)", "DateTime('UTC')"), "a", "b"),
		c18NV("Tuple(Enum16('a' = 1000, 'b' = -1), Nullable(DateTime))", ss("Enum16('a' = 1000, 'b' = -1)", "DateTime"), "a", "b"),
		c18NV("Tuple(Enum8('c' = 1,'d' = 2,'e' = 3), Nullable(DateTime('Europe/Moscow')))", ss("Enum8('c' = 1,'d' = 2,'e' = 3)", "DateTime('Europe/Moscow')"), "c", "d", "e")}},
	{leaves: c18Leafs(c18Enum, c18DT64), wrap: func(l []proto.Column) proto.Column {
		return proto.ColTuple{proto.Named[string](new(proto.ColStr), "s"), proto.Named[string](l[0].(*proto.ColEnum), "e"),
			proto.Named[time.Time](l[1].(*proto.ColDateTime64), "t")}
	}, variants: []c18NestVar{
		c18NV("Tuple(s String, e Enum8('a' = 1, 'b' = 2), t DateTime64(3))", ss("Enum8('a' = 1, 'b' = 2)", "DateTime64(3)"), "a", "b"),
		c18NV("Tuple(s String, e Enum16('x' = 300), t DateTime64(6, 'UTC'))", ss("Enum16('x' = 300)", "DateTime64(6, 'UTC')"), "x"),
		c18NV("Tuple(s String, e Enum8('b' = 1, 'a' = 2), t DateTime64(9))", ss("Enum8('b' = 1, 'a' = 2)", "DateTime64(9)"), "a", "b")}},
	{leaves: c18Leafs(c18Enum, c18DT64, c18DT), wrap: func(l []proto.Column) proto.Column {
		return proto.ColTuple{new(proto.ColStr), proto.ColTuple{l[0], l[1].(*proto.ColDateTime64).Array()}, l[2]}
	}, variants: []c18NestVar{
		c18NV("Tuple(String, Tuple(Enum8('a' = 1, 'b' = 2), Array(DateTime64(3, 'UTC'))), DateTime)",
			ss("Enum8('a' = 1, 'b' = 2)", "DateTime64(3, 'UTC')", "DateTime"), "a", "b"),
		c18NV("Tuple(String, Tuple(Enum16('q' = 500), Array(DateTime64(9))), DateTime('UTC'))",
			ss("Enum16('q' = 500)", "DateTime64(9)", "DateTime('UTC')"), "q"),
		c18NV("Tuple(String, Tuple(Enum8('c' = 1, 'd' = 2), Array(DateTime64(6))), DateTime('Europe/Moscow'))",
			ss("Enum8('c' = 1, 'd' = 2)", "DateTime64(6)", "DateTime('Europe/Moscow')"), "c", "d")}},
	{leaves: c18Leafs(c18Enum), wrap: func(l []proto.Column) proto.Column {
		return proto.ColTuple{proto.NewMap[string, string](new(proto.ColStr), l[0].(*proto.ColEnum)), new(proto.ColInt64)}
	}, variants: []c18NestVar{
		c18NV("Tuple(Map(String, Enum8('a' = 1, 'b' = 2)), Int64)", ss("Enum8('a' = 1, 'b' = 2)"), "a", "b"),
		c18NV("Tuple(Map(String, Enum16('z' = 7)), Int64)", ss("Enum16('z' = 7)"), "z")}},
}

// c18NestCol builds the structure around leaves carrying the parameters of variant v (nil: leaves without parameters)
func c18NestCol(ns c18NestSpec, v *c18NestVar) (col proto.Column, err error) {
	defer func() {
		if p := recover(); p != nil {
			err = fmt.Errorf("panic: %v", p)
		}
	}()
	var ls []proto.Column
	for i, mk := range ns.leaves {
		leaf := mk()
		if v != nil {
			if err := leaf.(proto.Inferable).Infer(proto.ColumnType(v.leafs[i])); err != nil {
				return nil, err
			}
		}
		ls = append(ls, leaf)
	}
	col = ns.wrap(ls)
	if v != nil && c18Family(string(col.Type())) != c18Family(v.typ) {
		return nil, fmt.Errorf("built %q for %q", col.Type(), v.typ)
	}
	return col, nil
}

func c18NestedFam(h *H, n int) {
	for i := 0; i < n; i++ {
		k := 1 + h.R.Intn(2)
		var nss []c18NestSpec
		var names []string
		for j := 0; j < k; j++ {
			nss = append(nss, c18Nests[h.R.Intn(len(c18Nests))])
			names = append(names, c18Name(h, j))
		}
		// targets: leaves without parameters, or already carrying the parameters of some variant
		var res proto.Results
		ok := true
		for j, ns := range nss {
			var as *c18NestVar
			if h.R.Intn(2) == 0 {
				as = &ns.variants[h.R.Intn(len(ns.variants))]
			}
			col, err := c18NestCol(ns, as)
			if err != nil {
				h.Stat("c18.skipped.nested.target")
				ok = false
				break
			}
			if as != nil && h.R.Intn(2) == 0 {
				_ = c14Fill(col, 1+h.R.Intn(2), rand.New(rand.NewSource(h.R.Int63())), c14ColSpec{strPool: as.pool})
			}
			name := names[j]
			if h.R.Intn(3) == 0 {
				name = ""
			}
			res = append(res, proto.ResultColumn{Name: name, Data: col})
		}
		if !ok {
			continue
		}
		rev := c18Rev(h)
		nblocks := 2 + h.R.Intn(2)
		var blks []c18Blk
		for b := 0; b < nblocks && ok; b++ {
			rows := c18RowCounts[h.R.Intn(len(c18RowCounts))]
			var srcs []c18Src
			for j, ns := range nss {
				v := ns.variants[h.R.Intn(len(ns.variants))]
				col, err := c18NestCol(ns, &v)
				if err == nil {
					err = c14Fill(col, rows, rand.New(rand.NewSource(h.R.Int63())), c14ColSpec{strPool: v.pool})
				}
				if err != nil {
					h.Stat("c18.skipped.nested.source")
					ok = false
					break
				}
				srcs = append(srcs, c18Src{name: names[j], col: col})
			}
			if !ok {
				break
			}
			_, wire, err := c18Encode(rev, c18Info(h), rows, srcs)
			if err != nil {
				h.Stat("c18.skipped.nested.encode")
				ok = false
				break
			}
			blks = append(blks, c18Blk{wire: wire, rows: rows, srcs: srcs, wellFormed: true,
				mustBind: "nested: a block whose types differ from the targets' in leaf parameters only"})
		}
		if !ok || len(blks) == 0 {
			continue
		}
		c18RunSeq(h, "nested", false, rev, res, blks)
	}
}

// ---------------------------------------------------------------- a failed bind, then well-formed blocks

func c18Damage(h *H, wire []byte) []byte {
	w := append([]byte{}, wire...)
	if len(w) == 0 {
		return w
	}
	switch h.R.Intn(5) {
	case 0, 1: // cut: the typical half decode
		return w[:h.R.Intn(len(w))]
	case 2:
		w[h.R.Intn(len(w))] = []byte{0, 1, 2, 0x7f, 0x80, 0xff}[h.R.Intn(6)]
	case 3:
		w[h.R.Intn(len(w))] ^= 1 << uint(h.R.Intn(8))
	default: // cut inside the last quarter: the earlier columns decode, the last one half
		return w[:len(w)-1-h.R.Intn(1+len(w)/4)]
	}
	return w
}

func c18FailBind(h *H, sources []c18Spec, n int) {
	for i := 0; i < n; i++ {
		k := 1 + h.R.Intn(3)
		var specs []c18Spec
		var names []string
		autoable := true
		for j := 0; j < k; j++ {
			s := sources[h.R.Intn(len(sources))]
			for s.noBind {
				s = sources[h.R.Intn(len(sources))]
			}
			specs = append(specs, s)
			names = append(names, c18Name(h, j))
			if !s.autoable() {
				autoable = false
			}
		}
		var tgts []c18Tgt
		auto := false
		switch mode := h.R.Intn(6); {
		case mode == 0 && autoable:
			auto = true
		case mode == 1 && autoable:
			for j := range specs {
				tgts = append(tgts, c18Tgt{name: names[j], auto: true})
			}
		default:
			for j, s := range specs {
				t := c18Tgt{spec: s, name: names[j], prefill: h.R.Intn(3)}
				if h.R.Intn(4) == 0 {
					t.name = ""
				}
				tgts = append(tgts, t)
			}
		}
		res, err := c18Targets(h, tgts)
		if err != nil {
			h.Stat("c18.skipped.target")
			continue
		}
		rev := c18Rev(h)
		good := func(why string) (c18Blk, bool) {
			rows := c18RowCounts[1+h.R.Intn(len(c18RowCounts)-1)]
			if h.R.Intn(8) == 0 {
				rows = 0
			}
			srcs, err := c18Sources(h, specs, names, rows)
			if err != nil {
				return c18Blk{}, false
			}
			_, wire, err := c18Encode(rev, c18Info(h), rows, srcs)
			if err != nil {
				return c18Blk{}, false
			}
			return c18Blk{wire: wire, rows: rows, srcs: srcs, wellFormed: true, mustBind: why}, true
		}
		var blks []c18Blk
		if h.R.Intn(3) == 0 { // a block that binds first, so that the failing one meets targets holding real rows
			if b, ok := good("roundtrip: a block of the targets' own schema"); ok {
				blks = append(blks, b)
			}
		}
		bad, ok := good("")
		if !ok {
			h.Stat("c18.skipped.source")
			continue
		}
		if bad.rows == 0 {
			bad, ok = good("")
			if !ok {
				continue
			}
		}
		dmg := h.R.Intn(6)
		if auto && dmg == 0 {
			dmg = 1 // Results.Auto() on empty Results takes its schema from the first block that decodes
		}
		switch dmg {
		case 0: // a foreign schema: one column of another type (well formed, fails at that column or binds)
			bs := append([]c18Spec{}, specs...)
			j := h.R.Intn(k)
			bs[j] = sources[h.R.Intn(len(sources))]
			srcs, err := c18Sources(h, bs, names, bad.rows)
			if err != nil {
				continue
			}
			_, wire, err := c18Encode(rev, c18Info(h), bad.rows, srcs)
			if err != nil {
				continue
			}
			bad = c18Blk{wire: wire, rows: bad.rows, srcs: srcs, wellFormed: true}
		default:
			bad = c18Blk{wire: c18Damage(h, bad.wire), rows: bad.rows, srcs: bad.srcs, wellFormed: false}
		}
		blks = append(blks, bad)
		for m, more := 0, 1+h.R.Intn(2); m < more; m++ {
			if b, ok := good("failbind: after a failed block a well-formed block of the targets' own schema"); ok {
				blks = append(blks, b)
			}
		}
		c18RunSeq(h, "failbind", auto, rev, res, blks)
	}
}

// ---------------------------------------------------------------- composite types of different arity

func c18Tup(mk func() proto.Column) c18Spec { return c18Spec{c14ColSpec: c14ColSpec{mk: mk}} }

// tuples whose element lists are prefixes of one another (ColTuple is not a ColumnOf[T]: it cannot be put below Array or
// Nullable), maps under an alias type string of another arity, also below Array
var c18Arities = []c18Spec{
	c18Tup(func() proto.Column { return proto.ColTuple{new(proto.ColInt8)} }),
	c18Tup(func() proto.Column { return proto.ColTuple{new(proto.ColInt8), new(proto.ColStr)} }),
	c18Tup(func() proto.Column { return proto.ColTuple{new(proto.ColInt8), new(proto.ColStr), new(proto.ColInt64)} }),
	c18Tup(func() proto.Column { return proto.ColTuple{new(proto.ColInt8), new(proto.ColInt64)} }),
	c18Tup(func() proto.Column { return proto.ColTuple{new(proto.ColStr)} }),
	c18Tup(func() proto.Column { return proto.ColTuple{new(proto.ColStr), new(proto.ColStr)} }),
	c18Tup(func() proto.Column { return proto.ColTuple{proto.Named[int8](new(proto.ColInt8), "a")} }),
	c18Tup(func() proto.Column {
		return proto.ColTuple{proto.Named[int8](new(proto.ColInt8), "a"), proto.Named[string](new(proto.ColStr), "b")}
	}),
	// ... with adopting elements: ColTuple.Infer refuses a type with another number of arguments before any element is touched
	c18Tup(func() proto.Column { return proto.ColTuple{new(proto.ColDateTime64).WithPrecision(proto.PrecisionMilli)} }),
	c18Tup(func() proto.Column {
		return proto.ColTuple{new(proto.ColDateTime64).WithPrecision(proto.PrecisionMicro), new(proto.ColStr)}
	}),
	c18Tup(func() proto.Column {
		return proto.ColTuple{new(proto.ColDateTime64).WithPrecision(proto.PrecisionNano), new(proto.ColStr), new(proto.ColDateTime64).WithPrecision(0)}
	}),
	c18Tup(func() proto.Column {
		return proto.ColTuple{new(proto.ColStr), new(proto.ColDateTime64).WithPrecision(proto.PrecisionNano)}
	}),
	c18Tup(func() proto.Column {
		return proto.ColTuple{proto.Named[time.Time](new(proto.ColDateTime64).WithPrecision(proto.PrecisionMilli), "a")}
	}),
	c18Tup(func() proto.Column {
		return proto.ColTuple{proto.Named[time.Time](new(proto.ColDateTime64).WithPrecision(proto.PrecisionMicro), "a"),
			proto.Named[string](new(proto.ColStr), "b")}
	}),
	c18Tup(func() proto.Column { return proto.NewMap[string, string](new(proto.ColStr), new(proto.ColStr)) }),
	c18TupAs("Map(String)", func() proto.Column { return proto.NewMap[string, string](new(proto.ColStr), new(proto.ColStr)) }),
	c18TupAs("Map(String, String, String)", func() proto.Column { return proto.NewMap[string, string](new(proto.ColStr), new(proto.ColStr)) }),
	c18Tup(func() proto.Column {
		return proto.NewArray[map[string]string](proto.NewMap[string, string](new(proto.ColStr), new(proto.ColStr)))
	}),
	c18TupAs("Array(Map(String))", func() proto.Column {
		return proto.NewArray[map[string]string](proto.NewMap[string, string](new(proto.ColStr), new(proto.ColStr)))
	}),
	c18TupAs("Array(Map(String, String, String))", func() proto.Column {
		return proto.NewArray[map[string]string](proto.NewMap[string, string](new(proto.ColStr), new(proto.ColStr)))
	}),
}

func c18TupAs(alias string, mk func() proto.Column) c18Spec {
	s := c18Tup(mk)
	s.alias = alias
	return s
}

func c18IsAlias(s c18Spec) bool { return s.alias != "" }

func c18Arity(h *H) {
	str := c18T("String")
	for _, src := range c18Arities {
		for _, tgt := range c18Arities {
			if c18IsAlias(tgt) { // an alias cannot be dumped: sources only
				continue
			}
			rows := 1 + h.R.Intn(2)
			t := c18Tgt{spec: tgt, name: "v"}
			if h.R.Intn(3) == 0 {
				t.prefill = 1
			}
			c18One(h, "arity", c18Rev(h), []c18Spec{src, str}, []string{"v", "w"}, rows,
				[]c18Tgt{t, {spec: str, name: "w"}}, false, false)
		}
	}
}
