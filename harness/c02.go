package main

// C02 - everything the client writes for a query is a well-formed packet sequence.
//
// The real ch.Connect + Client.Do run over the scripted connection of c02conn.go.  Case lines:
//
//	c02  <cfg> <query> x<recorded> <h> <z>   the bytes Do wrote; the model (coq/model/Send.v through GlueSend.v)
//	                                         parses them with its reference server-side parser and compares with
//	                                         expected_packets; observation "sent ok t" / "sent ok unsupported t" /
//	                                         "sent fail"
//	c02m <cfg> <query> x<altered>  <h> <z>   the recorded bytes with one alteration (flip, cut, extra byte):
//	                                         accept | reject by the model's parser vs the library's decoders
//
// Direct oracle: the LIBRARY's own server-side decoders (Query.DecodeAware, ClientData.DecodeAware,
// Block.DecodeBlock over compress.Reader) read the recorded bytes back; the Query must carry the caller's
// id, body, connection-level then query-level settings, parameters, secret, quota key and client info, the
// blocks must hold the rows handed to the client under their table names, compressed blocks must be exactly
// one checksummed frame, and nothing else may have been written.

import (
	"context"
	"fmt"
	"strings"
	"time"

	ch "github.com/ClickHouse/ch-go"
	"github.com/ClickHouse/ch-go/proto"
)

func init() { runners["c02"] = runC02 }

func c02GenQuery(h *H, k *c02Cfg) (*c02Query, string) {
	r := h.R
	q := &c02Query{}
	expectFail := ""
	switch r.Intn(8) {
	case 0:
		q.id = "" // Do generates a UUID
	default:
		q.id = string(genBytes(r))
		if q.id == "" {
			q.id = "q"
		}
	}
	q.body = string(genBytes(r))
	q.quota = string(genShortBytes(r))
	q.secret = string(genShortBytes(r))
	q.iuser = string(genShortBytes(r))
	q.settings = c02GenSettings(r, 3)
	if (proto.FeatureParameters.In(k.rev) && r.Intn(3) == 0) || r.Intn(12) == 0 {
		for i, n := 0, 1+r.Intn(2); i < n; i++ {
			key := genShortBytes(r)
			if len(key) == 0 {
				key = []byte("p")
			}
			q.params = append(q.params, proto.Parameter{Key: string(key), Value: string(genBytes(r))})
		}
		if !proto.FeatureParameters.In(k.rev) {
			expectFail = "parameters below FeatureParameters"
		}
	}
	q.span = c02GenSpan(r)
	specs := c02Specs()
	if r.Intn(3) == 0 {
		rows := c02RowChoices[r.Intn(len(c02RowChoices))]
		q.ext = c02GenCols(r, 1+r.Intn(2), rows, "e", specs)
		if r.Intn(2) == 0 {
			q.extTable = []string{"_data", "t1", "ext table", string(genShortBytes(r))}[r.Intn(4)]
		}
	}
	if r.Intn(2) == 0 {
		rows := c02RowChoices[r.Intn(len(c02RowChoices))]
		q.input = c02GenCols(r, 1+r.Intn(3), rows, "c", specs)
		if len(q.input) > 1 && r.Intn(25) == 0 {
			// a column with a different row count: encodeBlock must refuse
			if c, err := c02MakeCol(r, "bad", q.input[0].spec, rows+1); err == nil {
				q.input[len(q.input)-1] = c
			}
		}
	}
	if len(q.ext) > 1 && r.Intn(25) == 0 {
		if c, err := c02MakeCol(r, "bad", q.ext[0].spec, q.ext[0].rows+1); err == nil {
			q.ext[len(q.ext)-1] = c
		}
	}
	// whatever the generator did: a block whose columns disagree on the row count is refused
	for _, cs := range [][]*c02Col{q.ext, q.input} {
		for _, c := range cs {
			if c.col.Rows() != cs[0].col.Rows() && expectFail == "" {
				expectFail = "row count mismatch"
			}
		}
	}
	return q, expectFail
}

func c02IsUUID(s string) bool {
	if len(s) != 36 {
		return false
	}
	for i, c := range s {
		if i == 8 || i == 13 || i == 18 || i == 23 {
			if c != '-' {
				return false
			}
		} else if !strings.ContainsRune("0123456789abcdef", c) {
			return false
		}
	}
	return true
}

// c02Judge is the direct oracle on the recorded bytes of a successful Do.
func c02Judge(rec []byte, k *c02Cfg, q *c02Query, id string, run *c02Run, strict bool) string {
	w, err := c02Walk(rec, k, q.ext, q.input, 3)
	if err != nil {
		return "the library's own decoders do not read the stream back: " + err.Error()
	}
	want, err := c02ExpectQuery(k, q, id, run)
	if err != nil {
		return "cannot build the expected query: " + err.Error()
	}
	if d := c02QueryDiff(w.query, want); d != "" {
		return "query packet: " + d
	}
	// external data, then the end-of-external-data marker
	wantExt := 1
	if len(q.ext) > 0 {
		wantExt = 2
	}
	if len(w.ext) != wantExt {
		return fmt.Sprintf("%d Data packets before the input, want %d", len(w.ext), wantExt)
	}
	if len(q.ext) > 0 {
		table := q.extTable
		if table == "" {
			table = "_data"
		}
		if d := c02BlockDiff(w.ext[0], table, k, q.ext, q.ext[0].col.Rows(), "external data"); d != "" {
			return d
		}
	}
	if last := w.ext[len(w.ext)-1]; last.cols != 0 || last.rows != 0 || last.table != "" {
		return "end-of-external-data marker is not an empty block without table name"
	}
	if len(q.input) > 0 {
		if len(w.input) != 2 {
			return fmt.Sprintf("%d Data packets in the input phase, want the block and a terminator", len(w.input))
		}
		if d := c02BlockDiff(w.input[0], "", k, q.input, q.input[0].col.Rows(), "input"); d != "" {
			return d
		}
		if last := w.input[1]; last.cols != 0 || last.rows != 0 || last.table != "" {
			return "input terminator is not an empty block"
		}
	}
	check := func(ps []c02Packet, cs []*c02Col) string {
		for _, p := range ps {
			if strict {
				// byte for byte what EncodeBlock writes: nothing the decoders tolerate may hide in a block
				if d := c02Reencode(rec, p, k, cs); d != "" {
					return d
				}
			} else if c02Compressed(k) {
				if _, err := c02OneFrame(rec[p.start:p.end]); err != nil {
					return "compressed block: " + err.Error()
				}
			}
		}
		return ""
	}
	if d := check(w.ext, q.ext); d != "" {
		return d
	}
	return check(w.input, q.input)
}

func c02One(h *H, i int) {
	r := h.R
	k := c02GenCfg(r)
	if i%3 == 0 {
		revs := c02Revs()
		k.rev = revs[(i/3)%len(revs)]
		if k.clientPV < k.rev {
			k.clientPV = k.rev
		}
		if k.srvRev != 0 {
			k.clientPV = k.rev
			if k.srvRev <= k.rev {
				k.srvRev = k.rev + 3
			}
		}
	}
	k.comp = c02Modes[i%len(c02Modes)]
	q, expectFail := c02GenQuery(h, k)
	run := c02Connect(k)
	if run.err != nil {
		h.Emit(fmt.Sprintf("c02-connect rev=%d", k.rev), "-", "FAIL:handshake with the scripted server failed: "+c02Sanitize(run.err.Error()))
		return
	}
	defer run.client.Close()
	withInfo := len(q.input) > 0 && r.Intn(2) == 0
	var info []*c02Col
	if withInfo {
		info = q.input
	}
	resp, err := c02Response(k, info)
	if err != nil {
		h.Emit(fmt.Sprintf("c02-response rev=%d", k.rev), "-", "-")
		h.Stat("c02.skipped")
		return
	}
	run.conn.Serve(resp)
	cq := q.chQuery()
	if !withInfo {
		cq.Result = (&proto.Results{}).Auto()
	}
	ctx, cancel := context.WithTimeout(context.Background(), 20*time.Second)
	if q.span.IsValid() {
		ctx = c02TraceCtx(ctx, q.span)
	}
	if r.Intn(6) == 0 {
		// an earlier request that never went out: a Ping whose context had already ended.  It fails, the client stays
		// open - and nothing of it may be written while the query executes
		dead, dcancel := context.WithCancel(context.Background())
		dcancel()
		_ = run.client.Ping(dead)
		h.Stat("c02.after-unsent-ping")
	}
	doErr := run.client.Do(ctx, cq)
	cancel()
	rec := run.conn.Recorded()[run.hsLen:]

	// the id the client really used
	id := q.id
	if id == "" && len(rec) > 0 {
		rd := proto.NewReader(&c02Src{b: rec})
		if _, err := rd.UVarInt(); err == nil {
			if s, err := rd.Str(); err == nil {
				id = s
			}
		}
	}
	hs, zs := c02Tables(rec)
	line := fmt.Sprintf("c02 %s %s %s %s %s", k.sx(run.helloName, run.helloMaj, run.helloMin), q.sx(id), hx(rec), hs, zs)
	desc := fmt.Sprintf("rev=%d mode=%s ext=%d input=%d info=%s", k.rev, c02ModeSym(k.comp), len(q.ext), len(q.input), bsym(withInfo))
	h.Stat("c02.mode." + c02ModeSym(k.comp))
	for _, f := range proto.FeatureValues() {
		if d := k.rev - int(f); d >= -1 && d <= 1 {
			h.Stat("c02.at-threshold")
			break
		}
	}
	oracle := "ok"
	obs := "sent ok t"
	supported := proto.FeatureSettingsSerializedAsStrings.In(k.rev)
	switch {
	case doErr != nil && expectFail != "":
		obs = "sent fail"
		h.Stat("c02.refused")
	case doErr != nil:
		obs = "sent fail"
		oracle = "FAIL:Do failed on a valid query (" + desc + "): " + c02Sanitize(doErr.Error())
	case expectFail != "":
		oracle = "FAIL:Do accepted a query it has to refuse (" + expectFail + "; " + desc + ")"
		if !supported {
			obs = "sent ok unsupported t"
		}
	default:
		if run.helloName != c02ClientName(k.name) {
			oracle = fmt.Sprintf("FAIL:client hello carries name %q, Connect documents %q", run.helloName, c02ClientName(k.name))
		}
		if q.id == "" && !c02IsUUID(id) {
			oracle = fmt.Sprintf("FAIL:empty QueryID was not replaced by a UUID: %q", id)
		}
		if !supported {
			obs = "sent ok unsupported t"
			h.Stat("c02.below-window")
		} else if d := c02Judge(rec, k, q, id, run, true); d != "" {
			oracle = "FAIL:" + c02Sanitize(d) + " (" + desc + ")"
		}
	}
	h.Emit(line, obs, oracle)

	// a malformed stream next to every fifth good one
	if doErr == nil && expectFail == "" && supported && oracle == "ok" && len(rec) > 0 && i%5 == 0 {
		alt := append([]byte(nil), rec...)
		kind := r.Intn(4)
		switch kind {
		case 0, 1:
			alt[r.Intn(len(alt))] ^= byte(1 << uint(r.Intn(8)))
		case 2:
			alt = alt[:r.Intn(len(alt))]
		default:
			alt = append(alt, byte(r.Intn(256)))
		}
		// the library's decoders tolerate a little more than they write (unknown flag bits, compatible type
		// names): the verdict of the model's parser has to lie between the two readings
		verdict := "reject"
		if c02Judge(alt, k, q, id, run, true) == "" {
			verdict = "accept"
		} else if c02Judge(alt, k, q, id, run, false) == "" {
			verdict = "reject|accept"
		}
		hs, zs := c02Tables(alt)
		h.Stat("c02.malformed." + verdict)
		h.Emit(fmt.Sprintf("c02m %s %s %s %s %s", k.sx(run.helloName, run.helloMaj, run.helloMin), q.sx(id), hx(alt), hs, zs), verdict, "-")
	}
}

func runC02(h *H) {
	for i := 0; i < h.N; i++ {
		c02One(h, i)
	}
}

var _ = ch.CompressionDisabled
