package main

import (
	"bytes"
	"fmt"
	"io"
	"math/rand"
	"reflect"
	"sort"
	"strconv"
	"strings"

	"github.com/ClickHouse/ch-go/proto"
	"go.opentelemetry.io/otel/trace"
)

// fld ties one field of a message struct to its transcript form.
type fld struct {
	gen func(r *rand.Rand)
	get func() string
}

func fStr(p *string) fld {
	return fld{func(r *rand.Rand) { *p = string(genBytes(r)) }, func() string { return hx([]byte(*p)) }}
}
func fInt(p *int) fld {
	return fld{func(r *rand.Rand) { *p = genInt(r) }, func() string { return strconv.Itoa(*p) }}
}
func fUVar(p *uint64) fld {
	return fld{func(r *rand.Rand) { *p = genU64(r) }, func() string { return strconv.FormatUint(*p, 10) }}
}
func fI64(p *int64) fld {
	return fld{func(r *rand.Rand) { *p = int64(genInt(r)) }, func() string { return strconv.FormatInt(*p, 10) }}
}
func fBool(p *bool) fld {
	return fld{func(r *rand.Rand) { *p = r.Intn(2) == 0 }, func() string { return bsym(*p) }}
}

var traceStates = []string{"", "a=b", "vendor=opaque,other=1", "k1=v1,k2=v2,k3=v3"}

func fSpan(p *trace.SpanContext) fld {
	return fld{
		func(r *rand.Rand) {
			if r.Intn(3) == 0 {
				*p = trace.SpanContext{}
				return
			}
			var cfg trace.SpanContextConfig
			r.Read(cfg.TraceID[:])
			r.Read(cfg.SpanID[:])
			cfg.TraceID[r.Intn(16)] |= 1 // valid: non-zero ids
			cfg.SpanID[r.Intn(8)] |= 1
			ts, err := trace.ParseTraceState(traceStates[r.Intn(len(traceStates))])
			if err != nil {
				panic(err)
			}
			cfg.TraceState = ts
			cfg.TraceFlags = trace.TraceFlags(r.Intn(256))
			*p = trace.NewSpanContext(cfg)
		},
		func() string {
			if !p.IsValid() {
				return "nil"
			}
			t, s := p.TraceID(), p.SpanID()
			return sx("span", hx(t[:]), hx(s[:]), hx([]byte(p.TraceState().String())), strconv.Itoa(int(p.TraceFlags())))
		},
	}
}

type message struct {
	name   string
	aware  bool
	hasCod bool
	fresh  func() (any, []fld)
	enc    func(v any, b *proto.Buffer, rev int)
	dec    func(v any, r *proto.Reader, rev int) error
}

func clientInfoFields(c *proto.ClientInfo) []fld {
	return []fld{
		{func(r *rand.Rand) { c.Query = proto.ClientQueryKind(r.Intn(3)) }, func() string { return strconv.Itoa(int(c.Query)) }},
		fStr(&c.InitialUser), fStr(&c.InitialQueryID), fStr(&c.InitialAddress), fI64(&c.InitialTime),
		{func(r *rand.Rand) { c.Interface = proto.InterfaceTCP }, func() string { return strconv.Itoa(int(c.Interface)) }},
		fStr(&c.OSUser), fStr(&c.ClientHostname), fStr(&c.ClientName),
		fInt(&c.Major), fInt(&c.Minor), fInt(&c.ProtocolVersion),
		fStr(&c.QuotaKey), fInt(&c.DistributedDepth), fInt(&c.Patch), fSpan(&c.Span),
		fBool(&c.CollaborateWithInitiator), fInt(&c.CountParticipatingReplicas), fInt(&c.NumberOfCurrentReplica),
	}
}

var messages = []message{
	{"clienthello", false, true,
		func() (any, []fld) {
			m := &proto.ClientHello{}
			return m, []fld{fStr(&m.Name), fInt(&m.Major), fInt(&m.Minor), fInt(&m.ProtocolVersion), fStr(&m.Database), fStr(&m.User), fStr(&m.Password)}
		},
		func(v any, b *proto.Buffer, rev int) { v.(*proto.ClientHello).Encode(b) },
		func(v any, r *proto.Reader, rev int) error { return v.(*proto.ClientHello).Decode(r) }},
	{"serverhello", true, true,
		func() (any, []fld) {
			m := &proto.ServerHello{}
			return m, []fld{fStr(&m.Name), fInt(&m.Major), fInt(&m.Minor), fInt(&m.Revision), fStr(&m.Timezone), fStr(&m.DisplayName), fInt(&m.Patch)}
		},
		func(v any, b *proto.Buffer, rev int) { v.(*proto.ServerHello).EncodeAware(b, rev) },
		func(v any, r *proto.Reader, rev int) error { return v.(*proto.ServerHello).DecodeAware(r, rev) }},
	{"clientinfo", true, false,
		func() (any, []fld) { m := &proto.ClientInfo{}; return m, clientInfoFields(m) },
		func(v any, b *proto.Buffer, rev int) { v.(*proto.ClientInfo).EncodeAware(b, rev) },
		func(v any, r *proto.Reader, rev int) error { return v.(*proto.ClientInfo).DecodeAware(r, rev) }},
	{"clientdata", true, false,
		func() (any, []fld) { m := &proto.ClientData{}; return m, []fld{fStr(&m.TableName)} },
		func(v any, b *proto.Buffer, rev int) { v.(*proto.ClientData).EncodeAware(b, rev) },
		func(v any, r *proto.Reader, rev int) error { return v.(*proto.ClientData).DecodeAware(r, rev) }},
	{"progress", true, false,
		func() (any, []fld) {
			m := &proto.Progress{}
			return m, []fld{fUVar(&m.Rows), fUVar(&m.Bytes), fUVar(&m.TotalRows), fUVar(&m.WroteRows), fUVar(&m.WroteBytes), fUVar(&m.ElapsedNs)}
		},
		func(v any, b *proto.Buffer, rev int) { v.(*proto.Progress).EncodeAware(b, rev) },
		func(v any, r *proto.Reader, rev int) error { return v.(*proto.Progress).DecodeAware(r, rev) }},
	{"profile", true, true,
		func() (any, []fld) {
			m := &proto.Profile{}
			return m, []fld{fUVar(&m.Rows), fUVar(&m.Blocks), fUVar(&m.Bytes), fBool(&m.AppliedLimit), fUVar(&m.RowsBeforeLimit), fBool(&m.CalculatedRowsBeforeLimit)}
		},
		func(v any, b *proto.Buffer, rev int) { v.(*proto.Profile).EncodeAware(b, rev) },
		func(v any, r *proto.Reader, rev int) error { return v.(*proto.Profile).DecodeAware(r, rev) }},
	{"exception", true, false,
		func() (any, []fld) {
			m := &proto.Exception{}
			return m, []fld{
				{func(r *rand.Rand) { m.Code = proto.Error(genI32(r)) }, func() string { return strconv.Itoa(int(m.Code)) }},
				fStr(&m.Name), fStr(&m.Message), fStr(&m.Stack), fBool(&m.Nested)}
		},
		func(v any, b *proto.Buffer, rev int) { v.(*proto.Exception).EncodeAware(b, rev) },
		func(v any, r *proto.Reader, rev int) error { return v.(*proto.Exception).DecodeAware(r, rev) }},
	{"tablecolumns", true, true,
		func() (any, []fld) { m := &proto.TableColumns{}; return m, []fld{fStr(&m.First), fStr(&m.Second)} },
		func(v any, b *proto.Buffer, rev int) { v.(*proto.TableColumns).EncodeAware(b, rev) },
		func(v any, r *proto.Reader, rev int) error { return v.(*proto.TableColumns).DecodeAware(r, rev) }},
}

func fieldsSx(fs []fld) string {
	var xs []string
	for _, f := range fs {
		xs = append(xs, f.get())
	}
	return sx(xs...)
}

// decodeObs runs a decoder on b and renders the observation.
func decodeObs(b []byte, dec func(r *proto.Reader) (string, error)) (obs string, ok bool) {
	defer func() {
		if p := recover(); p != nil {
			obs, ok = "crash", false
		}
	}()
	r := proto.NewReader(bytes.NewReader(b))
	val, err := dec(r)
	if err != nil {
		if strings.Contains(err.Error(), "parse trace state") {
			// outcome decided by OpenTelemetry's tracestate parser, which is not modelled
			// (DESIGN §8): not compared
			return "-", false
		}
		return "err", false
	}
	rest, _ := io.ReadAll(r)
	return fmt.Sprintf("ok %s %d", val, len(rest)), true
}

func revisions(h *H) []int {
	set := map[int]bool{0: true, 1: true, 50000: true, 54500: true, 60000: true}
	for _, f := range proto.FeatureValues() {
		set[int(f)-1] = true
		set[int(f)] = true
		set[int(f)+1] = true
	}
	var out []int
	for v := range set {
		out = append(out, v)
	}
	sort.Ints(out)
	return out
}

func settingSx(s proto.Setting) string {
	return sx(hx([]byte(s.Key)), hx([]byte(s.Value)), bsym(s.Important), bsym(s.Custom), bsym(s.Obsolete))
}

func querySx(q *proto.Query) string {
	info := q.Info
	var sets, ps []string
	for _, s := range q.Settings {
		sets = append(sets, settingSx(s))
	}
	for _, p := range q.Parameters {
		ps = append(ps, sx(hx([]byte(p.Key)), hx([]byte(p.Value))))
	}
	return sx(hx([]byte(q.ID)), fieldsSx(clientInfoFields(&info)), sx(sets...), hx([]byte(q.Secret)),
		strconv.Itoa(int(q.Stage)), strconv.Itoa(int(q.Compression)), hx([]byte(q.Body)), sx(ps...))
}

func genQuery(r *rand.Rand) *proto.Query {
	q := &proto.Query{}
	q.ID = string(genBytes(r))
	q.Body = string(genBytes(r))
	q.Secret = string(genShortBytes(r))
	q.Stage = proto.Stage(r.Intn(3))
	q.Compression = proto.Compression(r.Intn(2))
	for _, f := range clientInfoFields(&q.Info) {
		f.gen(r)
	}
	for i, n := 0, r.Intn(4); i < n; i++ {
		k := genShortBytes(r)
		if len(k) == 0 {
			k = []byte("k")
		}
		q.Settings = append(q.Settings, proto.Setting{Key: string(k), Value: string(genBytes(r)),
			Important: r.Intn(2) == 0, Custom: r.Intn(2) == 0, Obsolete: r.Intn(2) == 0})
	}
	for i, n := 0, r.Intn(3); i < n; i++ {
		k := genShortBytes(r)
		if len(k) == 0 {
			k = []byte("p")
		}
		q.Parameters = append(q.Parameters, proto.Parameter{Key: string(k), Value: string(genBytes(r))})
	}
	return q
}

// emitDec emits one decode case together with its cuts (C07) when asked.
func emitDec(h *H, name string, rev int, b []byte, dec func(r *proto.Reader) (string, error), oracle string) {
	obs, _ := decodeObs(b, dec)
	h.Emit(fmt.Sprintf("dec %s %d %s", name, rev, hx(b)), obs, oracle)
}

func init() {
	runners["c17"] = runC17
}

func runC17(h *H) {
	revs := revisions(h)
	if h.Tier == "thorough" {
		for v := 50000; v <= 54500; v++ {
			revs = append(revs, v)
		}
	}
	maxRev := 0
	for _, f := range proto.FeatureValues() {
		if int(f) > maxRev {
			maxRev = int(f)
		}
	}
	perMsg := h.N / (len(messages) + 3)
	if perMsg < 1 {
		perMsg = 1
	}
	for _, m := range messages {
		for i := 0; i < perMsg; i++ {
			rev := revs[h.R.Intn(len(revs))]
			if i < len(revs) {
				rev = revs[i] // every representative at least once
			}
			if !m.aware {
				rev = 0
			}
			v, fs := m.fresh()
			for _, f := range fs {
				f.gen(h.R)
			}
			var b proto.Buffer
			pre := genShortBytes(h.R) // the buffer need not be empty
			b.Buf = append(b.Buf, pre...)
			m.enc(v, &b, rev)
			enc := b.Buf[len(pre):]
			h.Emit(fmt.Sprintf("enc %s %d %s", m.name, rev, fieldsSx(fs)), hx(enc), "-")
			h.Stat("msg." + m.name)
			body := enc
			if m.hasCod {
				body = enc[1:]
			}
			trailing := genShortBytes(h.R)
			v2, fs2 := m.fresh()
			in := append(append([]byte{}, body...), trailing...)
			obs, ok := decodeObs(in, func(r *proto.Reader) (string, error) {
				err := m.dec(v2, r, rev)
				return fieldsSx(fs2), err
			})
			oracle := "ok"
			if !ok {
				oracle = "FAIL:decode of own encoding failed"
			} else {
				if !strings.HasSuffix(obs, " "+strconv.Itoa(len(trailing))) {
					oracle = "FAIL:did not consume exactly the encoding: " + obs
				}
				var b2 proto.Buffer
				m.enc(v2, &b2, rev)
				if !bytes.Equal(b2.Buf, enc) {
					oracle = "FAIL:re-encoding of the decoded message differs"
				}
				if rev >= maxRev && !reflect.DeepEqual(v, v2) && fieldsSx(fs) != fieldsSx(fs2) {
					oracle = "FAIL:decoded message differs at full revision"
				}
			}
			h.Emit(fmt.Sprintf("dec %s %d %s", m.name, rev, hx(in)), obs, oracle)
			// field-targeted corruption: one byte changed
			if len(body) > 0 && i%3 == 0 {
				mut := append([]byte{}, body...)
				mut[h.R.Intn(len(mut))] ^= byte(1 << uint(h.R.Intn(8)))
				v3, fs3 := m.fresh()
				emitDec(h, m.name, rev, mut, func(r *proto.Reader) (string, error) {
					err := m.dec(v3, r, rev)
					return fieldsSx(fs3), err
				}, "-")
				h.Stat("mutant")
			}
		}
	}
	// Query
	for i := 0; i < perMsg; i++ {
		rev := revs[h.R.Intn(len(revs))]
		if i < len(revs) {
			rev = revs[i]
		}
		q := genQuery(h.R)
		var b proto.Buffer
		q.EncodeAware(&b, rev)
		h.Emit(fmt.Sprintf("enc query %d %s", rev, querySx(q)), hx(b.Buf), "-")
		h.Stat("msg.query")
		trailing := genShortBytes(h.R)
		in := append(append([]byte{}, b.Buf[1:]...), trailing...)
		var q2 proto.Query
		obs, ok := decodeObs(in, func(r *proto.Reader) (string, error) {
			err := q2.DecodeAware(r, rev)
			return querySx(&q2), err
		})
		oracle := "ok"
		supported := proto.FeatureSettingsSerializedAsStrings.In(rev)
		switch {
		case !supported && ok:
			oracle = "FAIL:query decoded below settings-as-strings"
		case !supported:
		case !ok:
			oracle = "FAIL:decode of own encoding failed"
		default:
			if !strings.HasSuffix(obs, " "+strconv.Itoa(len(trailing))) {
				oracle = "FAIL:did not consume exactly the encoding"
			}
			var b2 proto.Buffer
			q2.EncodeAware(&b2, rev)
			if !bytes.Equal(b2.Buf, b.Buf) {
				oracle = "FAIL:re-encoding of the decoded query differs"
			}
			if rev >= maxRev && querySx(q) != querySx(&q2) {
				oracle = "FAIL:decoded query differs at full revision"
			}
		}
		h.Emit(fmt.Sprintf("dec query %d %s", rev, hx(in)), obs, oracle)
	}
	// strings beyond the reader's 1 MiB pre-allocation step (read in several chunks): direct oracle only,
	// the case lines would be megabytes long
	for _, n := range []int{1 << 20, 1<<20 + 1, 2<<20 + 17} {
		long := make([]byte, n)
		for i := range long {
			long[i] = byte('a' + i%23)
		}
		rev := revs[h.R.Intn(len(revs))]
		check := func(name string, enc func(b *proto.Buffer), dec func(r *proto.Reader) (string, error)) {
			var b proto.Buffer
			enc(&b)
			r := proto.NewReader(bytes.NewReader(b.Buf[:]))
			got, err := dec(r)
			rest, _ := io.ReadAll(r)
			oracle := "ok"
			switch {
			case err != nil:
				oracle = fmt.Sprintf("FAIL:%s with a %d-byte string: decode of own encoding failed: %v", name, n, err)
			case got != string(long):
				oracle = fmt.Sprintf("FAIL:%s with a %d-byte string: decoded string differs from the encoded one", name, n)
			case len(rest) != 0:
				oracle = fmt.Sprintf("FAIL:%s with a %d-byte string: did not consume exactly the encoding", name, n)
			}
			h.Emit(fmt.Sprintf("long %s %d %d", name, rev, n), "-", oracle)
			h.Stat("msg.longstring")
		}
		check("tablecolumns", func(b *proto.Buffer) { (&proto.TableColumns{First: "t", Second: string(long)}).EncodeAware(b, rev) },
			func(r *proto.Reader) (string, error) {
				if _, err := r.UVarInt(); err != nil {
					return "", err
				}
				var m proto.TableColumns
				err := m.DecodeAware(r, rev)
				return m.Second, err
			})
		check("exception", func(b *proto.Buffer) { (&proto.Exception{Code: 60, Name: "n", Message: string(long), Stack: "s"}).EncodeAware(b, rev) },
			func(r *proto.Reader) (string, error) {
				var m proto.Exception
				err := m.DecodeAware(r, rev)
				return m.Message, err
			})
		if proto.FeatureSettingsSerializedAsStrings.In(rev) {
			check("query", func(b *proto.Buffer) { q := genQuery(h.R); q.Body = string(long); q.EncodeAware(b, rev) },
				func(r *proto.Reader) (string, error) {
					if _, err := r.UVarInt(); err != nil {
						return "", err
					}
					var q proto.Query
					err := q.DecodeAware(r, rev)
					return q.Body, err
				})
		}
	}
	// a multi-byte length varint that straddles a refill of the reader's buffer (128 KiB steps): the first string's
	// length is swept so that the next field's two-byte length lands on every offset around the boundary
	for _, boundary := range []int{1 << 17, 2 << 17, 3 << 17} {
		rev := revs[h.R.Intn(len(revs))]
		second := strings.Repeat("s", 130+h.R.Intn(300))
		sweep := func(name string, enc func(b *proto.Buffer, first string), dec func(r *proto.Reader) (string, string, error)) {
			bad, firstBad := 0, ""
			for l := boundary - 290; l <= boundary+8; l++ {
				first := strings.Repeat("f", l)
				var b proto.Buffer
				enc(&b, first)
				r := proto.NewReader(bytes.NewReader(b.Buf))
				g1, g2, err := dec(r)
				rest, _ := io.ReadAll(r)
				if err != nil || g1 != first || g2 != second || len(rest) != 0 {
					bad++
					if firstBad == "" {
						firstBad = fmt.Sprintf("first string of %d bytes: err=%v, strings equal=%v/%v, %d bytes left", l, err, g1 == first, g2 == second, len(rest))
					}
				}
			}
			oracle := "ok"
			if bad > 0 {
				oracle = fmt.Sprintf("FAIL:%s: decode of own encoding fails for %d of 299 string lengths around %d (a length field split by a buffer refill): %s", name, bad, boundary, firstBad)
			}
			h.Emit(fmt.Sprintf("refill %s %d %d", name, rev, boundary), "-", oracle)
			h.Stat("msg.refill")
		}
		sweep("tablecolumns", func(b *proto.Buffer, first string) { (&proto.TableColumns{First: first, Second: second}).EncodeAware(b, rev) },
			func(r *proto.Reader) (string, string, error) {
				if _, err := r.UVarInt(); err != nil {
					return "", "", err
				}
				var m proto.TableColumns
				err := m.DecodeAware(r, rev)
				return m.First, m.Second, err
			})
		sweep("exception", func(b *proto.Buffer, first string) {
			(&proto.Exception{Code: 60, Name: first, Message: second, Stack: "s"}).EncodeAware(b, rev)
		},
			func(r *proto.Reader) (string, string, error) {
				var m proto.Exception
				err := m.DecodeAware(r, rev)
				return m.Name, m.Message, err
			})
		sweep("serverhello", func(b *proto.Buffer, first string) {
			(&proto.ServerHello{Name: first, Major: 300, Minor: 400, Revision: 54460, Timezone: second, DisplayName: "d", Patch: 500}).EncodeAware(b, 54460)
		},
			func(r *proto.Reader) (string, string, error) {
				if _, err := r.UVarInt(); err != nil {
					return "", "", err
				}
				var m proto.ServerHello
				err := m.DecodeAware(r, 54460)
				return m.Name, m.Timezone, err
			})
	}
	// BlockInfo and block header
	for i := 0; i < perMsg; i++ {
		rev := revs[h.R.Intn(len(revs))]
		bi := proto.BlockInfo{Overflows: h.R.Intn(2) == 0, BucketNum: int(genI32(h.R))}
		var b proto.Buffer
		bi.Encode(&b)
		biSx := sx(bsym(bi.Overflows), strconv.Itoa(bi.BucketNum))
		h.Emit(fmt.Sprintf("enc blockinfo 0 %s", biSx), hx(b.Buf), "-")
		h.Stat("msg.blockinfo")
		var bi2 proto.BlockInfo
		trailing := genShortBytes(h.R)
		in := append(append([]byte{}, b.Buf...), trailing...)
		obs, ok := decodeObs(in, func(r *proto.Reader) (string, error) {
			err := bi2.Decode(r)
			return sx(bsym(bi2.Overflows), strconv.Itoa(bi2.BucketNum)), err
		})
		oracle := "ok"
		if !ok || bi2 != bi || !strings.HasSuffix(obs, " "+strconv.Itoa(len(trailing))) {
			oracle = "FAIL:block info round trip"
		}
		h.Emit(fmt.Sprintf("dec blockinfo 0 %s", hx(in)), obs, oracle)

		blk := proto.Block{Info: bi, Columns: h.R.Intn(5), Rows: h.R.Intn(1000)}
		var hb proto.Buffer
		blk.EncodeAware(&hb, rev)
		h.Emit(fmt.Sprintf("enc blockheader %d %s", rev, sx(biSx, strconv.Itoa(blk.Columns), strconv.Itoa(blk.Rows))), hx(hb.Buf), "-")
		h.Stat("msg.blockheader")
	}
}
