package main

// C16: a reused String-backed column and values beyond the reader's 1 MiB growth step.  ColStr keeps one byte buffer and
// a position per row; DecodeColumn grows the buffer in bounded steps for long values.  After Reset, decoding a block into
// the used column must give what a fresh column gives - whatever the column held before (less data, more data, long or
// short rows) and wherever the long values sit in the new block (first, after short rows, twice).  Direct oracle only
// (megabyte values are not run through the list model).

import (
	"bytes"
	"fmt"

	"github.com/ClickHouse/ch-go/proto"
)

func init() { runners["c16str"] = runC16Str }

func c16StrVal(h *H, n int, tag byte) []byte {
	b := make([]byte, n)
	for i := range b {
		b[i] = 'a' + byte((i+int(tag))%26)
	}
	if n > 0 {
		b[0] = tag
	}
	return b
}

func runC16Str(h *H) {
	const mib = 1 << 20
	for i := 0; i < h.N; i++ {
		// what the column holds before it is reused
		var before [][]byte
		switch h.R.Intn(4) {
		case 0: // a little
			before = [][]byte{[]byte("first"), []byte("second"), []byte("third")}
		case 1: // one long value
			before = [][]byte{c16StrVal(h, mib+mib/2+h.R.Intn(1000), 'P')}
		case 2: // many short rows (the batch pre-allocation path)
			for k := 0; k < 2000; k++ {
				before = append(before, c16StrVal(h, h.R.Intn(100), 'q'))
			}
		default: // nothing: reset of an empty column
		}
		// the block decoded after the Reset
		var rows [][]byte
		shape := h.R.Intn(5)
		long := func(tag byte) []byte { return c16StrVal(h, mib+1+h.R.Intn(mib), tag) }
		switch shape {
		case 0:
			rows = [][]byte{long('A')}
		case 1: // a long row after short ones
			for k, n := 0, 1+h.R.Intn(50); k < n; k++ {
				rows = append(rows, c16StrVal(h, h.R.Intn(127), 's'))
			}
			rows = append(rows, long('B'), c16StrVal(h, 3, 't'))
		case 2: // two long rows
			rows = [][]byte{long('C'), c16StrVal(h, 200, 'u'), long('D')}
		case 3: // rows of 128 bytes and more, then a long one
			rows = [][]byte{c16StrVal(h, 128, 'v'), c16StrVal(h, 5000, 'w'), long('E')}
		default: // exactly at the step
			rows = [][]byte{c16StrVal(h, mib, 'F'), c16StrVal(h, mib+1, 'G')}
		}
		if h.R.Intn(2) == 0 {
			// values from 64 KiB up (a size class of their own in a writer that treats long values apart) besides the megabyte ones
			rows = append(rows, c16StrVal(h, 65536+h.R.Intn(3), 'H'), c16StrVal(h, 70000, 'I'), c16StrVal(h, 1+h.R.Intn(200), 'j'))
		}
		var src proto.ColStr
		for _, r := range rows {
			src.AppendBytes(r)
		}
		var enc proto.Buffer
		src.EncodeColumn(&enc)
		caseLine := fmt.Sprintf("c16str before=%d rows shape=%d rows=%d bytes=%d", len(before), shape, len(rows), len(enc.Buf))
		oracle := func() (o string) {
			defer func() {
				if p := recover(); p != nil {
					o = fmt.Sprintf("FAIL:panic while decoding into a reused String column: %v", p)
				}
			}()
			var used proto.ColStr
			for _, b := range before {
				used.AppendBytes(b)
			}
			used.Reset()
			if err := used.DecodeColumn(proto.NewReader(bytes.NewReader(enc.Buf)), len(rows)); err != nil {
				return "FAIL:a reused (reset) String column rejects what a fresh one accepts: " + err.Error()
			}
			var fresh proto.ColStr
			if err := fresh.DecodeColumn(proto.NewReader(bytes.NewReader(enc.Buf)), len(rows)); err != nil {
				return "FAIL:a fresh String column rejects the library's own encoding: " + err.Error()
			}
			if used.Rows() != len(rows) || fresh.Rows() != len(rows) {
				return fmt.Sprintf("FAIL:rows: reused %d, fresh %d, encoded %d", used.Rows(), fresh.Rows(), len(rows))
			}
			for k := range rows {
				u, f := used.RowBytes(k), fresh.RowBytes(k)
				if !bytes.Equal(f, rows[k]) {
					return fmt.Sprintf("FAIL:row %d of a fresh column differs from the value encoded (%d bytes)", k, len(rows[k]))
				}
				if !bytes.Equal(u, f) {
					d := 0
					for d < len(u) && d < len(f) && u[d] == f[d] {
						d++
					}
					return fmt.Sprintf("FAIL:after Reset, row %d of the reused column differs from the fresh column's at byte %d of %d (%q vs %q): something of what the column held before came back",
						k, d, len(f), string(u[d:min(d+12, len(u))]), string(f[d:min(d+12, len(f))]))
				}
			}
			// re-encoding the reused column gives the bytes it was decoded from
			var re proto.Buffer
			used.EncodeColumn(&re)
			if !bytes.Equal(re.Buf, enc.Buf) {
				return "FAIL:re-encoding the reused column differs from the bytes it was decoded from"
			}
			// and so does sending it through the vectored writer - now, and again after one more row was appended
			// (the second send holds every row once, with its own value)
			send := func(c *proto.ColStr) ([]byte, error) {
				var out bytes.Buffer
				w := proto.NewWriter(&out, new(proto.Buffer))
				w.ChainBuffer(func(b *proto.Buffer) { b.PutString("hdr") })
				c.WriteColumn(w)
				if _, err := w.Flush(); err != nil {
					return nil, err
				}
				return out.Bytes(), nil
			}
			var hdr proto.Buffer
			hdr.PutString("hdr")
			sent, err := send(&used)
			if err != nil {
				return "FAIL:Flush: " + err.Error()
			}
			if !bytes.Equal(sent, append(append([]byte{}, hdr.Buf...), enc.Buf...)) {
				return "FAIL:WriteColumn+Flush of the reused column differs from its EncodeColumn bytes"
			}
			used.AppendBytes([]byte("one more row"))
			var re2 proto.Buffer
			used.EncodeColumn(&re2)
			sent2, err := send(&used)
			if err != nil {
				return "FAIL:Flush: " + err.Error()
			}
			if !bytes.Equal(sent2, append(append([]byte{}, hdr.Buf...), re2.Buf...)) {
				return "FAIL:after one more Append, WriteColumn+Flush differs from EncodeColumn (a row sent with another row's length or value)"
			}
			var back proto.ColStr
			if err := back.DecodeColumn(proto.NewReader(bytes.NewReader(sent2[len(hdr.Buf):])), len(rows)+1); err != nil {
				return "FAIL:what WriteColumn+Flush sent does not decode: " + err.Error()
			}
			for k := range rows {
				if !bytes.Equal(back.RowBytes(k), rows[k]) {
					return fmt.Sprintf("FAIL:row %d sent through the writer came back as another value (%d bytes for %d)", k, len(back.RowBytes(k)), len(rows[k]))
				}
			}
			return "ok"
		}()
		h.Emit(caseLine, "-", oracle)
		h.Stat(fmt.Sprintf("c16str.shape%d", shape))
	}
}
