package main

// C14: the path equivalence (WriteColumn/WriteBlock + Flush == EncodeColumn/EncodeBlock) for string-backed columns
// holding LONG values: lengths around 4 KiB, 64 KiB, 128 KiB and 1 MiB, a long value followed by rows of other
// lengths (what a zero-copy chaining of values would get wrong), plain and nested.

import (
	"bytes"
	"fmt"
	"strings"

	"github.com/ClickHouse/ch-go/proto"
)

func init() { runners["c14long"] = runC14Long }

var c14LongLens = []int{0, 1, 127, 128, 4095, 4096, 16383, 16384, 65535, 65536, 65537, 131071, 131072, 131073, 1 << 20, 1<<20 + 1}

type c14LongKind struct {
	name string
	mk   func(vals []string) proto.Column
}

var c14LongKinds = []c14LongKind{
	{"String", func(v []string) proto.Column {
		c := new(proto.ColStr)
		for _, s := range v {
			c.Append(s)
		}
		return c
	}},
	{"Bytes", func(v []string) proto.Column {
		c := new(proto.ColBytes)
		for _, s := range v {
			c.Append([]byte(s))
		}
		return c
	}},
	{"Array(String)", func(v []string) proto.Column {
		c := new(proto.ColStr).Array()
		for i := 0; i < len(v); i += 2 {
			j := i + 2
			if j > len(v) {
				j = len(v)
			}
			c.Append(v[i:j])
		}
		return c
	}},
	{"Nullable(String)", func(v []string) proto.Column {
		c := new(proto.ColStr).Nullable()
		for i, s := range v {
			if i%4 == 3 {
				c.Append(proto.Null[string]())
			} else {
				c.Append(proto.NewNullable(s))
			}
		}
		return c
	}},
	{"LowCardinality(String)", func(v []string) proto.Column {
		c := new(proto.ColStr).LowCardinality()
		for _, s := range v {
			c.Append(s)
		}
		c.Append(v[0])
		return c
	}},
	{"Map(String,String)", func(v []string) proto.Column {
		c := proto.NewMap[string, string](new(proto.ColStr), new(proto.ColStr))
		for i := 0; i+1 < len(v); i += 2 {
			c.AppendKV([]proto.KV[string, string]{{Key: v[i], Value: v[i+1]}})
		}
		return c
	}},
	{"Tuple(String,Int32)", func(v []string) proto.Column {
		s := new(proto.ColStr)
		n := new(proto.ColInt32)
		for i, x := range v {
			s.Append(x)
			n.Append(int32(i))
		}
		return proto.ColTuple{s, n}
	}},
	{"JSON-as-string", func(v []string) proto.Column {
		c := new(proto.ColJSONStr)
		for _, s := range v {
			c.Append(s)
		}
		return c
	}},
}

func c14LongVals(h *H) ([]string, string) {
	n := 3 + h.R.Intn(4)
	lens := make([]int, n)
	for i := range lens {
		if h.R.Intn(2) == 0 {
			lens[i] = c14LongLens[h.R.Intn(len(c14LongLens))]
		} else {
			lens[i] = h.R.Intn(300)
		}
	}
	// at least one value of 64 KiB or more that is not the last row
	lens[h.R.Intn(n-1)] = c14LongLens[8+h.R.Intn(len(c14LongLens)-8)]
	vals := make([]string, n)
	var ls []string
	for i, l := range lens {
		b := make([]byte, l)
		h.R.Read(b)
		vals[i] = string(b)
		ls = append(ls, fmt.Sprint(l))
	}
	return vals, strings.Join(ls, ",")
}

func runC14Long(h *H) {
	for i := 0; i < h.N; i++ {
		k := c14LongKinds[i%len(c14LongKinds)]
		vals, ls := c14LongVals(h)
		block := i%3 == 2
		cname := fmt.Sprintf("long %s lens=%s block=%s", k.name, ls, bsym(block))
		var viaBuf, viaVec []byte
		c1, c2 := k.mk(vals), k.mk(vals)
		var e1, e2 error
		if !block {
			e1 = c14Guard(func() error {
				if p, ok := c1.(proto.Preparable); ok {
					if err := p.Prepare(); err != nil {
						return err
					}
				}
				b := new(proto.Buffer)
				if se, ok := c1.(proto.StateEncoder); ok {
					se.EncodeState(b)
				}
				c1.EncodeColumn(b)
				viaBuf = b.Buf
				return nil
			})
			e2 = c14Guard(func() error {
				if p, ok := c2.(proto.Preparable); ok {
					if err := p.Prepare(); err != nil {
						return err
					}
				}
				var out bytes.Buffer
				w := proto.NewWriter(&out, new(proto.Buffer))
				if se, ok := c2.(proto.StateEncoder); ok {
					w.ChainBuffer(se.EncodeState)
				}
				c2.WriteColumn(w)
				_, err := w.Flush()
				viaVec = out.Bytes()
				return err
			})
		} else {
			blk := proto.Block{Info: proto.BlockInfo{BucketNum: -1}, Columns: 2, Rows: c1.Rows()}
			side := func() proto.Column {
				c := new(proto.ColUInt16)
				for j := 0; j < c1.Rows(); j++ {
					c.Append(uint16(j))
				}
				return c
			}
			in1 := []proto.InputColumn{{Name: "v", Data: c1}, {Name: "n", Data: side()}}
			in2 := []proto.InputColumn{{Name: "v", Data: c2}, {Name: "n", Data: side()}}
			e1 = c14Guard(func() error {
				b := new(proto.Buffer)
				err := blk.EncodeBlock(b, 54460, in1)
				viaBuf = b.Buf
				return err
			})
			e2 = c14Guard(func() error {
				var out bytes.Buffer
				w := proto.NewWriter(&out, new(proto.Buffer))
				err := blk.WriteBlock(w, 54460, in2)
				_, ferr := w.Flush()
				viaVec = out.Bytes()
				if err == nil {
					err = ferr
				}
				return err
			})
		}
		oracle := "ok"
		switch {
		case e1 != nil || e2 != nil:
			oracle = fmt.Sprintf("FAIL:encoding a column with long values failed: buffer path %v, vectored path %v", e1, e2)
		case !bytes.Equal(viaBuf, viaVec):
			oracle = "FAIL:the vectored path differs from the buffer path for long values: " + c14Diff(viaBuf, viaVec)
		}
		h.Emit(cname, "-", oracle)
		h.Stat("c14long." + k.name)
	}
	// several BIG buffered pieces in one flush: a block of two to four String columns of many short rows (each column is
	// copied into the staging buffer: 64 KiB .. 400 KiB per column), then - as the client does - the blank end-of-data
	// block appended behind it, one Flush.  The staging buffer grows and is cut several times before anything is written.
	for i := 0; i < h.N/4+2; i++ {
		ncols := 2 + h.R.Intn(3)
		rows := 2000 + h.R.Intn(6000)
		var in1, in2 []proto.InputColumn
		var sizes []string
		for c := 0; c < ncols; c++ {
			a, b := new(proto.ColStr), new(proto.ColStr)
			w := 20 + h.R.Intn(60)
			total := 0
			for r := 0; r < rows; r++ {
				v := make([]byte, w+h.R.Intn(8))
				h.R.Read(v)
				a.AppendBytes(v)
				b.AppendBytes(v)
				total += len(v) + 1
			}
			sizes = append(sizes, fmt.Sprint(total))
			name := fmt.Sprintf("s%d", c)
			in1 = append(in1, proto.InputColumn{Name: name, Data: a})
			in2 = append(in2, proto.InputColumn{Name: name, Data: b})
		}
		blk := proto.Block{Info: proto.BlockInfo{BucketNum: -1}, Columns: ncols, Rows: rows}
		blank := proto.Block{Info: proto.BlockInfo{BucketNum: -1}}
		var viaBuf, viaVec []byte
		e1 := c14Guard(func() error {
			b := new(proto.Buffer)
			if err := blk.EncodeBlock(b, 54460, in1); err != nil {
				return err
			}
			err := blank.EncodeBlock(b, 54460, nil)
			viaBuf = b.Buf
			return err
		})
		e2 := c14Guard(func() error {
			var out bytes.Buffer
			w := proto.NewWriter(&out, new(proto.Buffer))
			if err := blk.WriteBlock(w, 54460, in2); err != nil {
				return err
			}
			var berr error
			w.ChainBuffer(func(b *proto.Buffer) { berr = blank.EncodeBlock(b, 54460, nil) })
			_, ferr := w.Flush()
			viaVec = out.Bytes()
			if berr != nil {
				return berr
			}
			return ferr
		})
		oracle := "ok"
		switch {
		case e1 != nil || e2 != nil:
			oracle = fmt.Sprintf("FAIL:encoding a block of big String columns failed: buffer path %v, vectored path %v", e1, e2)
		case !bytes.Equal(viaBuf, viaVec):
			oracle = "FAIL:the vectored path differs from the buffer path when several big buffered pieces share one flush: " + c14Diff(viaBuf, viaVec)
		}
		h.Emit(fmt.Sprintf("bigpieces cols=%d rows=%d bytes=%s", ncols, rows, strings.Join(sizes, ",")), "-", oracle)
		h.Stat("c14long.bigpieces")
	}
}
