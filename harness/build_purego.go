//go:build purego

package main

const buildName = "safe"
