package main

// C03 — results, telemetry and exceptions are delivered exactly once, in order.
//
// The real ch.Connect + Client.Do run over a scripted in-memory connection (c03conn.go) that
// answers the handshake and then plays a generated packet script.  Every callback records what it
// was given and, for OnResult, the contents of the bound Result columns at that moment (colDump).
//
// Case lines (consumed by coq/model/GlueRecv.v):
//   recv ...  the byte stream the server sent, the callbacks, the bound columns -> callback trace,
//             class of the returned error (errors.As / errors.Is results for exceptions), final columns
//   enc ...   the script as a description -> the bytes (the model's server against proto's encoders)
//   encf ...  the same with every compressed block cut into frames (cut points, a method per frame)
// Direct oracle (well-formed scripts): the trace/return value expected from the script alone,
// computed here without decoding anything, against what the callbacks saw.

import (
	"bytes"
	"context"
	"encoding/binary"
	"errors"
	"fmt"
	"io"
	"math/rand"
	"net"
	"os"
	"regexp"
	"sort"
	"strconv"
	"strings"
	"time"

	ch "github.com/ClickHouse/ch-go"
	"github.com/ClickHouse/ch-go/compress"
	"github.com/ClickHouse/ch-go/proto"
	"github.com/go-faster/city"
)

func init() { runners["c03"] = runC03 }

var c03ErrCB = errors.New("c03 callback failure")

// the failure of a callback comes in the classes of errors the library itself looks for on its own read and write paths
// (a network timeout, a closed connection, the ends of a stream, context errors): whatever its class, a callback's error
// ends the query and comes back from Do
type c03TimeoutErr struct{}

func (c03TimeoutErr) Error() string   { return "c03: i/o timeout" }
func (c03TimeoutErr) Timeout() bool   { return true }
func (c03TimeoutErr) Temporary() bool { return true }
func (c03TimeoutErr) Unwrap() error   { return c03ErrCB }

var c03ErrKind int

func c03CallbackErr() error {
	c03ErrKind++
	switch c03ErrKind % 9 {
	case 1:
		return &net.OpError{Op: "write", Net: "tcp", Err: c03TimeoutErr{}}
	case 2:
		return fmt.Errorf("forwarding rows: %w: %w", c03ErrCB, context.DeadlineExceeded)
	case 3:
		return fmt.Errorf("sink: %w: %w", c03ErrCB, io.EOF)
	case 4:
		return fmt.Errorf("sink: %w: %w", c03ErrCB, io.ErrUnexpectedEOF)
	case 5:
		return fmt.Errorf("sink: %w: %w", c03ErrCB, os.ErrDeadlineExceeded)
	case 6:
		return fmt.Errorf("sink: %w: %w", c03ErrCB, context.Canceled)
	case 7:
		return &net.OpError{Op: "write", Net: "tcp", Err: fmt.Errorf("%w: %w", c03ErrCB, net.ErrClosed)}
	}
	return c03ErrCB
}

var c03Revs = []int{54460, 54460, 54460, 54459, 54455, 54454, 54453, 54451, 54450, 54421, 54420, 54419, 54406, 54058, 51903, 51902, 50264, 50263}

// ---------------------------------------------------------------- script

type c03Col struct {
	name   string
	spec   c14ColSpec
	col    proto.Column
	before string // (ty, data) before Prepare: what the model's server encodes
	ty     string
	after  string // data after the encoder ran Prepare: what the client must end up with
}

type c03PE struct {
	typ    uint8
	name   string
	value  int64
	host   string
	time   uint32
	thread uint64
}

type c03Log struct {
	query, source, text string
	time                uint32
	host                string
	thread              uint64
	prio                uint8
}

type c03Pkt struct {
	kind     string // data totals log pevents progress profile tablecolumns exception end raw
	info     proto.BlockInfo
	rows     int
	cols     []*c03Col
	progress proto.Progress
	profile  proto.Profile
	tc       proto.TableColumns
	chain    []proto.Exception
	pes      []c03PE
	logs     []c03Log
	peBad    bool   // the value column has a type ProfileEvents.All rejects
	raw      []byte // kind raw: bytes put on the wire as they are
	split    int    // compressed blocks: number of frames the block is cut into (1..4)
	cutSeed  int64  // compressed blocks: seed of the cut points and frame methods (drawn from h.R)
	off, end int    // position of the packet in the stream
	frames   [][2]int
	fspec    string   // how the block was framed, for the encf line: ((m n) ... mlast)
	fcomp    []string // (m x<payload> x<compressed>) for every frame written
	cutKinds []string // statistics: what the cut points hit
	foreign  bool     // some frame was written with another method than the case's
}

type c03HSpec struct {
	set  bool
	fail int // -1 = never
}

func (h c03HSpec) sx() string {
	if !h.set {
		return "n"
	}
	if h.fail < 0 {
		return "ok"
	}
	return sx("fail", strconv.Itoa(h.fail))
}

type c03Case struct {
	rev     int
	comp    ch.Compression
	method  compress.Method
	hs      [7]c03HSpec // result progress profile pevents pevent logs log
	tkind   string      // nil auto typed empty
	targets []*c03Col   // typed: the client's columns
	tnames  []string
	packets []*c03Pkt
	stream  []byte
	probes  []int
	wf      bool // well-formed: the direct oracle applies
	chunk   int
	note    string
}

func c03Bi(i proto.BlockInfo) string { return sx(bsym(i.Overflows), strconv.Itoa(i.BucketNum)) }

func c03PESx(e c03PE) string {
	return fmt.Sprintf("%d %s %d %s %d %d", e.typ, hx([]byte(e.name)), e.value, hx([]byte(e.host)), e.time, e.thread)
}

func c03LogSx(l c03Log) string {
	return fmt.Sprintf("%s %s %s %d %s %d %d", hx([]byte(l.query)), hx([]byte(l.source)), hx([]byte(l.text)), l.time, hx([]byte(l.host)), l.thread, l.prio)
}

func c03ProgressSx(p proto.Progress) string {
	return fmt.Sprintf("(p %d %d %d %d %d %d)", p.Rows, p.Bytes, p.TotalRows, p.WroteRows, p.WroteBytes, p.ElapsedNs)
}

func c03ProfileSx(p proto.Profile) string {
	return fmt.Sprintf("(f %d %d %d %s %d %s)", p.Rows, p.Blocks, p.Bytes, bsym(p.AppliedLimit), p.RowsBeforeLimit, bsym(p.CalculatedRowsBeforeLimit))
}

func c03ExcSx(code int, name, msg, stack string) string {
	return sx(strconv.Itoa(code), hx([]byte(name)), hx([]byte(msg)), hx([]byte(stack)))
}

// ---------------------------------------------------------------- generation

var c03Names = []string{"a", "b", "c0", "value", "x y", "Ünï", "", "n"}

func c03Word(r *rand.Rand) string {
	switch r.Intn(6) {
	case 0:
		return ""
	case 1:
		return strings.Repeat("q", 127+r.Intn(3))
	default:
		return string(genShortBytes(r))
	}
}

func c03Specs() []c14ColSpec {
	var out []c14ColSpec
	for _, s := range c01Catalogue() {
		if c01Skip(s) {
			continue
		}
		n := s.name()
		// FixedString(512) x hundreds of rows makes case lines of megabytes
		if strings.Contains(n, "512") {
			continue
		}
		out = append(out, s)
	}
	return out
}

var c03RowCounts = []int{0, 1, 1, 2, 3, 5, 17, 64, 255, 256, 257}

func c03MakeCol(h *H, name string, s c14ColSpec, rows int) *c03Col {
	col, err := c14Make(s, rows, h.R.Int63(), false)
	if err != nil {
		return nil
	}
	ty, data, derr := colDump(col)
	if derr != nil {
		return nil
	}
	return &c03Col{name: name, spec: s, col: col, ty: ty, before: data}
}

func c03Block(h *H, kind string, schema []c14ColSpec, names []string, rows int) *c03Pkt {
	p := &c03Pkt{kind: kind, rows: rows, split: 1}
	if h.R.Intn(3) == 0 {
		p.info = proto.BlockInfo{Overflows: h.R.Intn(2) == 0, BucketNum: int(genI32(h.R))}
	} else {
		p.info = proto.BlockInfo{BucketNum: -1}
	}
	for i, s := range schema {
		c := c03MakeCol(h, names[i], s, rows)
		if c == nil {
			return nil
		}
		p.cols = append(p.cols, c)
	}
	return p
}

func c03PEBlock(h *H, rows int, bad bool) *c03Pkt {
	p := &c03Pkt{kind: "pevents", rows: rows, split: 1, info: proto.BlockInfo{BucketNum: -1}, peBad: bad}
	var host, name proto.ColStr
	var tm proto.ColDateTime
	var tid proto.ColUInt64
	var typ proto.ColInt8
	var vi proto.ColInt64
	var vu proto.ColUInt64
	var vs proto.ColStr
	unsigned := h.R.Intn(2) == 0
	for i := 0; i < rows; i++ {
		e := c03PE{typ: uint8(1 + h.R.Intn(2)), name: c03Word(h.R), host: c03Word(h.R), time: h.R.Uint32(), thread: genU64(h.R)}
		if h.R.Intn(8) == 0 {
			e.typ = uint8(h.R.Intn(256))
		}
		v := genU64(h.R)
		e.value = int64(v)
		host.Append(e.host)
		name.Append(e.name)
		tm.Data = append(tm.Data, proto.DateTime(e.time))
		tid.Append(e.thread)
		typ.Append(int8(e.typ))
		vi.Append(int64(v))
		vu.Append(v)
		vs.Append("v")
		p.pes = append(p.pes, e)
	}
	var val proto.Column = &vi
	if unsigned {
		val = &vu
	}
	if bad {
		val = &vs
	}
	cols := []struct {
		n string
		c proto.Column
	}{{"host_name", &host}, {"current_time", &tm}, {"thread_id", &tid}, {"type", &typ}, {"name", &name}, {"value", val}}
	for _, c := range cols {
		ty, data, err := colDump(c.c)
		if err != nil {
			return nil
		}
		p.cols = append(p.cols, &c03Col{name: c.n, col: c.c, ty: ty, before: data})
	}
	return p
}

func c03LogBlock(h *H, rows int) *c03Pkt {
	p := &c03Pkt{kind: "log", rows: rows, split: 1, info: proto.BlockInfo{BucketNum: -1}}
	var host, query, source, text proto.ColStr
	var tm proto.ColDateTime
	var micro proto.ColUInt32
	var tid proto.ColUInt64
	var prio proto.ColInt8
	for i := 0; i < rows; i++ {
		l := c03Log{query: c03Word(h.R), source: c03Word(h.R), text: c03Word(h.R), time: h.R.Uint32(), host: c03Word(h.R), thread: genU64(h.R), prio: uint8(h.R.Intn(256))}
		tm.Data = append(tm.Data, proto.DateTime(l.time))
		micro.Append(h.R.Uint32())
		host.Append(l.host)
		query.Append(l.query)
		tid.Append(l.thread)
		prio.Append(int8(l.prio))
		source.Append(l.source)
		text.Append(l.text)
		p.logs = append(p.logs, l)
	}
	cols := []struct {
		n string
		c proto.Column
	}{{"event_time", &tm}, {"event_time_microseconds", &micro}, {"host_name", &host}, {"query_id", &query},
		{"thread_id", &tid}, {"priority", &prio}, {"source", &source}, {"text", &text}}
	for _, c := range cols {
		ty, data, err := colDump(c.c)
		if err != nil {
			return nil
		}
		p.cols = append(p.cols, &c03Col{name: c.n, col: c.c, ty: ty, before: data})
	}
	return p
}

func c03Exc(h *H) proto.Exception {
	codes := []int{0, 1, 60, 81, 241, 394, 1000, 1002, -1, 2147483647, -2147483648}
	e := proto.Exception{Code: proto.Error(codes[h.R.Intn(len(codes))]), Name: "DB::Exception", Message: "DB::Exception: " + c03Word(h.R), Stack: c03Word(h.R)}
	if h.R.Intn(3) == 0 {
		e.Code = proto.Error(genI32(h.R))
		e.Name = c03Word(h.R)
	}
	return e
}

func c03Telemetry(h *H) *c03Pkt {
	switch h.R.Intn(6) {
	case 0:
		return &c03Pkt{kind: "progress", progress: proto.Progress{Rows: genU64(h.R), Bytes: genU64(h.R), TotalRows: genU64(h.R), WroteRows: genU64(h.R), WroteBytes: genU64(h.R), ElapsedNs: genU64(h.R)}}
	case 1:
		// keep-alive shaped packets: any subset of the counters is zero (all of them included)
		p := proto.Progress{Rows: uint64(h.R.Intn(300)), Bytes: uint64(h.R.Intn(70000)), TotalRows: uint64(h.R.Intn(1000)), WroteRows: uint64(h.R.Intn(300)), WroteBytes: uint64(h.R.Intn(70000)), ElapsedNs: uint64(h.R.Intn(1 << 30))}
		for i, f := range []*uint64{&p.Rows, &p.Bytes, &p.TotalRows, &p.WroteRows, &p.WroteBytes, &p.ElapsedNs} {
			if i < 2 && h.R.Intn(2) == 0 || i >= 2 && h.R.Intn(3) == 0 {
				*f = 0
			}
		}
		return &c03Pkt{kind: "progress", progress: p}
	case 2:
		return &c03Pkt{kind: "profile", profile: proto.Profile{Rows: genU64(h.R), Blocks: genU64(h.R), Bytes: genU64(h.R), AppliedLimit: h.R.Intn(2) == 0, RowsBeforeLimit: genU64(h.R), CalculatedRowsBeforeLimit: h.R.Intn(2) == 0}}
	case 3:
		return &c03Pkt{kind: "tablecolumns", tc: proto.TableColumns{First: c03Word(h.R), Second: "columns format version: 1\n" + c03Word(h.R)}}
	case 4:
		return c03PEBlock(h, []int{0, 1, 2, 3, 9}[h.R.Intn(5)], false)
	default:
		return c03LogBlock(h, []int{0, 1, 2, 3, 9}[h.R.Intn(5)])
	}
}

// a well-formed case
func c03Gen(h *H, specs []c14ColSpec) *c03Case {
	cs := &c03Case{wf: true}
	cs.rev = c03Revs[h.R.Intn(len(c03Revs))]
	switch h.R.Intn(5) {
	case 0:
		cs.comp, cs.method = ch.CompressionLZ4, compress.LZ4
	case 1:
		cs.comp, cs.method = ch.CompressionZSTD, compress.ZSTD
	case 2:
		cs.comp, cs.method = ch.CompressionNone, compress.None
	default:
		cs.comp = ch.CompressionDisabled
	}
	cs.chunk = []int{0, 0, 1, 7, 4096}[h.R.Intn(5)]
	for i := range cs.hs {
		cs.hs[i] = c03HSpec{set: h.R.Intn(3) != 0, fail: -1}
		if cs.hs[i].set && h.R.Intn(6) == 0 {
			cs.hs[i].fail = h.R.Intn(4)
		}
	}
	if h.R.Intn(4) != 0 {
		cs.hs[0].set = true // OnResult mostly present
	}
	// schema
	ncols := 1 + h.R.Intn(3)
	if h.R.Intn(10) == 0 {
		ncols = 4 + h.R.Intn(3)
	}
	var schema []c14ColSpec
	var names []string
	used := map[string]bool{}
	for i := 0; i < ncols; i++ {
		schema = append(schema, specs[h.R.Intn(len(specs))])
		n := c03Names[h.R.Intn(len(c03Names))]
		for used[n] || n == "" {
			n = "c" + strconv.Itoa(i) + c03Names[h.R.Intn(len(c03Names))]
		}
		used[n] = true
		names = append(names, n)
	}
	if cs.comp != ch.CompressionDisabled && h.R.Intn(3) == 0 {
		// columns whose encoding has offsets and strings a frame boundary can fall into
		want := c03FrameTypes[h.R.Intn(len(c03FrameTypes))]
		for _, sp := range specs {
			if sp.typ == want {
				schema[h.R.Intn(len(schema))] = sp
				break
			}
		}
	}
	switch k := h.R.Intn(12); {
	case k == 0:
		cs.tkind = "nil"
	case k == 1:
		cs.tkind = "empty"
	case k <= 4:
		cs.tkind = "auto"
		// Results.Auto needs every type to be inferable from its string
		// (the string the column itself reports: what the server side of this harness sends)
		for i, s := range schema {
			ok := false
			if col, err := s.build(); err == nil {
				a := new(proto.ColAuto)
				ok = c14Guard(func() error { return a.Infer(col.Type()) }) == nil
			}
			if !ok {
				schema[i] = c14ColSpec{typ: "UInt64"}
			}
		}
	default:
		cs.tkind = "typed"
	}
	headerOnly := cs.tkind == "nil" || cs.tkind == "empty"
	if cs.tkind == "typed" {
		for i, s := range schema {
			stale := 0
			if h.R.Intn(3) == 0 {
				stale = 1 + h.R.Intn(4) // rows left over from an earlier query: must be overwritten
			}
			c := c03MakeCol(h, names[i], s, stale)
			if c == nil {
				return nil
			}
			cs.targets = append(cs.targets, c)
			tn := names[i]
			if h.R.Intn(4) == 0 {
				tn = "" // name inferred from the first block
			}
			cs.tnames = append(cs.tnames, tn)
		}
	}
	// packets
	n := h.R.Intn(12)
	if h.R.Intn(8) == 0 {
		n = 20 + h.R.Intn(20)
	}
	if !cs.hs[0].set && h.R.Intn(3) != 0 {
		n = h.R.Intn(4)
	}
	if h.R.Intn(3) != 0 {
		// header block first, as the server does
		if p := c03Block(h, "data", schema, names, 0); p != nil {
			cs.packets = append(cs.packets, p)
		}
	}
	for i := 0; i < n; i++ {
		var p *c03Pkt
		switch k := h.R.Intn(10); {
		case k < 5:
			rows := c03RowCounts[h.R.Intn(len(c03RowCounts))]
			if headerOnly {
				rows = 0
			}
			kind := "data"
			if h.R.Intn(5) == 0 {
				kind = "totals"
			}
			p = c03Block(h, kind, schema, names, rows)
		case k == 5:
			p = &c03Pkt{kind: "data", split: 1, info: proto.BlockInfo{BucketNum: -1}} // the empty block
			if h.R.Intn(2) == 0 {
				p.kind = "totals"
			}
		default:
			p = c03Telemetry(h)
		}
		if p == nil {
			return nil
		}
		if cs.comp != ch.CompressionDisabled && (p.kind == "data" || p.kind == "totals") {
			// 1..4 frames; the cut points and the method of every frame are drawn in c03Encode from cutSeed
			p.cutSeed = h.R.Int63()
			if h.R.Intn(5) < 3 {
				p.split = 2 + h.R.Intn(3)
			}
		}
		cs.packets = append(cs.packets, p)
	}
	switch k := h.R.Intn(20); {
	case k < 12:
		cs.packets = append(cs.packets, &c03Pkt{kind: "end"})
	case k < 18:
		depth := 1 + h.R.Intn(3)
		if h.R.Intn(4) == 0 {
			depth = 4 + h.R.Intn(12)
		}
		if h.R.Intn(10) == 0 {
			depth = []int{16, 17, 18, 19, 32, 33, 64, 100}[h.R.Intn(8)] // "any depth"
		}
		p := &c03Pkt{kind: "exception"}
		for i := 0; i < depth; i++ {
			e := c03Exc(h)
			e.Nested = i+1 < depth
			p.chain = append(p.chain, e)
		}
		cs.packets = append(cs.packets, p)
	default:
		// the server goes away without a terminator
	}
	if h.R.Intn(4) == 0 && len(cs.packets) > 0 {
		// whatever follows a terminator must not be delivered
		for i, k := 0, 1+h.R.Intn(3); i < k; i++ {
			if p := c03Telemetry(h); p != nil {
				cs.packets = append(cs.packets, p)
			}
		}
		if h.R.Intn(2) == 0 {
			if p := c03Block(h, "data", schema, names, 1+h.R.Intn(3)); p != nil && !headerOnly {
				cs.packets = append(cs.packets, p)
			}
		}
	}
	// probes: the codes of the chain and a few that are not in it
	seen := map[int]bool{}
	for _, p := range cs.packets {
		for _, e := range p.chain {
			if !seen[int(e.Code)] {
				seen[int(e.Code)] = true
				cs.probes = append(cs.probes, int(e.Code))
			}
		}
	}
	for _, c := range []int{60, 1000, 7} {
		if !seen[c] && h.R.Intn(2) == 0 {
			seen[c] = true
			cs.probes = append(cs.probes, c)
		}
	}
	if len(cs.probes) > 12 {
		cs.probes = cs.probes[:12]
	}
	return cs
}

// ---------------------------------------------------------------- the server side: bytes

type c03Tables struct {
	hashes []string // (off len lo hi)
	codecs []string // (off len mb ds res)
	// by content, for the enc line
	chash []string
	ccomp []string
}

func c03Input(p *c03Pkt) []proto.InputColumn {
	var in []proto.InputColumn
	for _, c := range p.cols {
		in = append(in, proto.InputColumn{Name: c.name, Data: c.col.(proto.ColInput)})
	}
	return in
}

// c03Encode writes the script as the server would, recording where compressed frames lie.
func c03Encode(cs *c03Case) error {
	var b proto.Buffer
	rev := cs.rev
	for _, p := range cs.packets {
		p.off = len(b.Buf)
		switch p.kind {
		case "raw":
			b.Buf = append(b.Buf, p.raw...)
		case "end":
			proto.ServerCodeEndOfStream.Encode(&b)
		case "progress":
			proto.ServerCodeProgress.Encode(&b)
			p.progress.EncodeAware(&b, rev)
		case "profile":
			p.profile.EncodeAware(&b, rev)
		case "tablecolumns":
			p.tc.EncodeAware(&b, rev)
		case "exception":
			proto.ServerCodeException.Encode(&b)
			for _, e := range p.chain {
				e.EncodeAware(&b, rev)
			}
		case "data", "totals", "log", "pevents":
			code := map[string]proto.ServerCode{"data": proto.ServerCodeData, "totals": proto.ServerCodeTotals, "log": proto.ServerCodeLog, "pevents": proto.ServerProfileEvents}[p.kind]
			code.Encode(&b)
			if proto.FeatureTempTables.In(rev) {
				b.PutString("")
			}
			var blk proto.Buffer
			if err := (proto.Block{Info: p.info, Columns: len(p.cols), Rows: p.rows}).EncodeBlock(&blk, rev, c03Input(p)); err != nil {
				return err
			}
			for _, c := range p.cols {
				_, data, err := colDump(c.col)
				if err != nil {
					return err
				}
				c.after = data
			}
			// what a ClickHouse server does (not what the library believes): only Data / Totals /
			// Extremes blocks go through the compressed stream; Log and ProfileEvents never do
			if cs.comp != ch.CompressionDisabled && (p.kind == "data" || p.kind == "totals") {
				parts, methods := c03Frames(cs, p, blk.Buf)
				var spec []string
				for i, part := range parts {
					w := compress.NewWriter(0, methods[i])
					if err := w.Compress(part); err != nil {
						return err
					}
					p.frames = append(p.frames, [2]int{len(b.Buf), len(w.Data)})
					b.Buf = append(b.Buf, w.Data...)
					ms := c03MethodSym(methods[i])
					if i+1 < len(parts) {
						spec = append(spec, sx(ms, strconv.Itoa(len(part))))
					} else {
						spec = append(spec, ms)
					}
					if methods[i] != cs.method {
						p.foreign = true
					}
					if methods[i] != compress.None {
						p.fcomp = append(p.fcomp, sx(ms, hx(part), hx(w.Data[25:])))
					}
				}
				p.fspec = sx(spec...)
			} else {
				b.Buf = append(b.Buf, blk.Buf...)
			}
		}
		p.end = len(b.Buf)
	}
	cs.stream = b.Buf
	return nil
}

// column kinds whose encoding holds offsets and strings (no column state in front of the data)
var c03FrameTypes = []string{"String", "Array(String)", "Array(UInt32)", "Map(String,String)", "Nullable(String)", "Array(Nullable(String))", "Array(UUID)"}

func c03MethodSym(m compress.Method) string {
	switch m {
	case compress.LZ4:
		return "lz4"
	case compress.LZ4HC:
		return "lz4hc"
	case compress.ZSTD:
		return "zstd"
	}
	return "none"
}

// c03Frames cuts the encoding of one block into p.split frames: the cut points are uniform or aimed at the
// inside of an offsets array, a string, a length prefix or the block header; two equal cut points make a frame
// with an empty payload; the last frame is never empty (a server has no reason to send one and the decoder
// would not ask for it).  Every frame has a method of its own now and then.
func c03Frames(cs *c03Case, p *c03Pkt, buf []byte) ([][]byte, []compress.Method) {
	r := rand.New(rand.NewSource(p.cutSeed))
	n := p.split
	if n < 1 {
		n = 1
	}
	if len(buf) < 2 {
		n = 1
	}
	type aim struct {
		pos  int
		kind string
	}
	var aims, deep []aim
	if n > 1 {
		for _, a := range c03CutAims(cs, p, buf, r) {
			if a.pos > 0 && a.pos < len(buf) {
				aims = append(aims, aim{a.pos, a.kind})
				if a.kind == "offsets" || a.kind == "string" || a.kind == "string-length" {
					deep = append(deep, aim{a.pos, a.kind})
				}
			}
		}
	}
	var cuts []int
	for i := 0; i+1 < n; i++ {
		switch k := r.Intn(8); {
		case k == 0 && len(cuts) > 0:
			cuts = append(cuts, cuts[r.Intn(len(cuts))]) // an empty payload
			p.cutKinds = append(p.cutKinds, "empty")
		case k <= 4 && len(aims) > 0:
			a := aims[r.Intn(len(aims))]
			if len(deep) > 0 && r.Intn(3) != 0 {
				a = deep[r.Intn(len(deep))] // inside offsets / a string / a length prefix
			}
			cuts = append(cuts, a.pos)
			p.cutKinds = append(p.cutKinds, a.kind)
		case k == 5:
			cuts = append(cuts, 0) // an empty first frame
			p.cutKinds = append(p.cutKinds, "empty")
		default:
			cuts = append(cuts, r.Intn(len(buf))) // < len(buf): the last frame is not empty
			p.cutKinds = append(p.cutKinds, "uniform")
		}
	}
	sort.Ints(cuts)
	var parts [][]byte
	lo := 0
	for _, c := range cuts {
		parts = append(parts, buf[lo:c])
		lo = c
	}
	parts = append(parts, buf[lo:])
	methods := make([]compress.Method, len(parts))
	mixed := r.Intn(3) == 0
	all := []compress.Method{compress.LZ4, compress.ZSTD, compress.None, compress.LZ4HC}
	for i := range methods {
		methods[i] = cs.method
		if mixed {
			methods[i] = all[r.Intn(len(all))]
		}
	}
	if mixed && len(parts) > 1 {
		p.cutKinds = append(p.cutKinds, "mixed-methods")
	}
	return parts, methods
}

type c03Aim struct {
	pos  int
	kind string
}

// c03CutAims finds places inside the encoded block where a frame boundary is most likely to hurt: inside the
// block header, inside a column header, inside the offsets of an Array / Map column, inside a string and inside
// a string's length prefix.  The layout is recovered from the column headers (name, type) found in order.
func c03CutAims(cs *c03Case, p *c03Pkt, buf []byte, r *rand.Rand) []c03Aim {
	var aims []c03Aim
	aims = append(aims, c03Aim{1 + r.Intn(3), "block-header"})
	pos := 0
	for _, c := range p.cols {
		var hb proto.Buffer
		hb.PutString(c.name)
		hb.PutString(string(c.col.Type()))
		i := bytes.Index(buf[pos:], hb.Buf)
		if i < 0 {
			break
		}
		start := pos + i
		aims = append(aims, c03Aim{start + 1 + r.Intn(len(hb.Buf)-1), "column-header"})
		pos = start + len(hb.Buf)
		if proto.FeatureCustomSerialization.In(cs.rev) {
			pos++
		}
		ty := string(c.col.Type())
		if p.rows == 0 || strings.Contains(ty, "LowCardinality") || strings.Contains(ty, "JSON") {
			continue
		}
		data := pos
		strs := -1 // where a run of strings starts
		nstr := 0
		switch {
		case strings.HasPrefix(ty, "Array(") || strings.HasPrefix(ty, "Map("):
			if data+8*p.rows > len(buf) {
				continue
			}
			aims = append(aims, c03Aim{data + 1 + r.Intn(8*p.rows-1), "offsets"})
			total := int(binary.LittleEndian.Uint64(buf[data+8*(p.rows-1):]))
			switch ty {
			case "Array(String)", "Map(String,String)":
				strs, nstr = data+8*p.rows, total
			case "Array(Nullable(String))":
				strs, nstr = data+8*p.rows+total, total
			}
		case ty == "String":
			strs, nstr = data, p.rows
		case ty == "Nullable(String)":
			strs, nstr = data+p.rows, p.rows
		}
		q := strs
		for k := 0; strs >= 0 && k < nstr && q < len(buf); k++ {
			l, w := binary.Uvarint(buf[q:])
			if w <= 0 || q+w+int(l) > len(buf) {
				break
			}
			if w > 1 && r.Intn(2) == 0 {
				aims = append(aims, c03Aim{q + 1, "string-length"})
			}
			if l >= 2 && r.Intn(3) != 0 {
				aims = append(aims, c03Aim{q + w + 1 + r.Intn(int(l)-1), "string"})
			}
			q += w + int(l)
		}
	}
	return aims
}

// oracle tables for the frames as they are in the final stream (after any alteration)
func c03Oracles(cs *c03Case) c03Tables {
	var t c03Tables
	s := cs.stream
	for _, p := range cs.packets {
		for _, f := range p.frames {
			off, n := f[0], f[1]
			if off+n > len(s) || n < 25 {
				continue
			}
			body := s[off+16 : off+n]
			hh := city.CH128(body)
			t.hashes = append(t.hashes, sx(strconv.Itoa(off+16), strconv.Itoa(n-16), strconv.FormatUint(hh.Low, 10), strconv.FormatUint(hh.High, 10)))
			t.chash = append(t.chash, sx(hx(body), strconv.FormatUint(hh.Low, 10), strconv.FormatUint(hh.High, 10)))
			mb := s[off+16]
			ds := int(uint32(s[off+21]) | uint32(s[off+22])<<8 | uint32(s[off+23])<<16 | uint32(s[off+24])<<24)
			if mb == 0x82 || mb == 0x90 {
				res := "e"
				var plain []byte
				if ds <= 1<<24 {
					if out, ok := c05Codec(mb, s[off+25:off+n], ds); ok {
						res = hx(out)
						plain = out
					}
				}
				t.codecs = append(t.codecs, sx(strconv.Itoa(off+25), strconv.Itoa(n-25), strconv.Itoa(int(mb)), strconv.Itoa(ds), res))
				if plain != nil {
					t.ccomp = append(t.ccomp, sx(hx(plain), hx(s[off+25:off+n])))
				}
			}
		}
	}
	return t
}

// ---------------------------------------------------------------- the client side

type c03Run struct {
	events []string
	counts [7]int
	ret    string
	final  string
	crash  string
	errTxt string
}

// an empty LowCardinality column keeps the key width of the block it held before Reset (an
// unexported field with no effect on rows; the next DecodeColumn overwrites it): printed as 0
var c03EmptyLC = regexp.MustCompile(`\(lc \(\) (\((?:fix \(\)|bytes|fstr x|bool|nothing 0|point \(\) \(\))\)) [0-3] \(\)\)`)

func c03Canon(data string) string {
	if !strings.Contains(data, "(lc () ") {
		return data
	}
	return c03EmptyLC.ReplaceAllString(data, "(lc () $1 0 ())")
}

func c03Bound(cs *c03Case, res *proto.Results, kind string) string {
	if kind == "nil" {
		return "nil"
	}
	var xs []string
	for _, rc := range *res {
		_, data, err := colDump(rc.Data)
		if err != nil {
			data = "dump-error"
		}
		xs = append(xs, sx(hx([]byte(rc.Name)), c03Canon(data)))
	}
	return sx(xs...)
}

func c03Do(cs *c03Case) (run *c03Run) {
	run = &c03Run{}
	defer func() {
		if p := recover(); p != nil {
			run.crash = fmt.Sprint(p)
		}
	}()
	var hello proto.Buffer
	sh := proto.ServerHello{Name: "scripted", Major: 23, Minor: 8, Revision: cs.rev, Timezone: "UTC", DisplayName: "c03", Patch: 1}
	sh.EncodeAware(&hello, proto.Version)
	conn := &c03Conn{in: append(append([]byte{}, hello.Buf...), cs.stream...), chunk: cs.chunk}
	ctx, cancel := context.WithTimeout(context.Background(), 30*time.Second)
	defer cancel()
	client, err := ch.Connect(ctx, conn, ch.Options{Compression: cs.comp, ReadTimeout: 10 * time.Second})
	if err != nil {
		run.crash = "handshake: " + err.Error()
		return run
	}
	var results proto.Results
	q := ch.Query{Body: "SELECT c03"}
	switch cs.tkind {
	case "nil":
	case "auto":
		q.Result = results.Auto()
	case "empty":
		results = proto.Results{}
		q.Result = results
	default:
		for i, t := range cs.targets {
			results = append(results, proto.ResultColumn{Name: cs.tnames[i], Data: t.col.(proto.ColResult)})
		}
		q.Result = results
	}
	fire := func(k int, ev string) error {
		run.events = append(run.events, ev)
		i := run.counts[k]
		run.counts[k]++
		if cs.hs[k].fail == i {
			return c03CallbackErr()
		}
		return nil
	}
	if cs.hs[0].set {
		q.OnResult = func(ctx context.Context, b proto.Block) error {
			return fire(0, sx("r", c03Bi(b.Info), strconv.Itoa(b.Columns), strconv.Itoa(b.Rows), c03Bound(cs, &results, cs.tkind)))
		}
	}
	if cs.hs[1].set {
		q.OnProgress = func(ctx context.Context, p proto.Progress) error { return fire(1, c03ProgressSx(p)) }
	}
	if cs.hs[2].set {
		q.OnProfile = func(ctx context.Context, p proto.Profile) error { return fire(2, c03ProfileSx(p)) }
	}
	peOf := func(e proto.ProfileEvent) c03PE {
		return c03PE{typ: uint8(e.Type), name: e.Name, value: e.Value, host: e.Host, time: uint32(e.Time.Unix()), thread: e.ThreadID}
	}
	logOf := func(l proto.Log) c03Log {
		return c03Log{query: l.QueryID, source: l.Source, text: l.Text, time: uint32(l.Time.Unix()), host: l.Host, thread: l.ThreadID, prio: uint8(l.Priority)}
	}
	if cs.hs[3].set {
		q.OnProfileEvents = func(ctx context.Context, es []ch.ProfileEvent) error {
			xs := []string{"pes"}
			for _, e := range es {
				xs = append(xs, sx(c03PESx(peOf(e))))
			}
			return fire(3, sx(xs...))
		}
	}
	if cs.hs[4].set {
		q.OnProfileEvent = func(ctx context.Context, e ch.ProfileEvent) error { return fire(4, sx("pe", c03PESx(peOf(e)))) }
	}
	if cs.hs[5].set {
		q.OnLogs = func(ctx context.Context, ls []ch.Log) error {
			xs := []string{"ls"}
			for _, l := range ls {
				xs = append(xs, sx(c03LogSx(logOf(l))))
			}
			return fire(5, sx(xs...))
		}
	}
	if cs.hs[6].set {
		q.OnLog = func(ctx context.Context, l ch.Log) error { return fire(6, sx("l", c03LogSx(logOf(l)))) }
	}
	err = client.Do(ctx, q)
	switch {
	case err == nil:
		run.ret = "nil"
	default:
		run.errTxt = err.Error()
		if exc, ok := ch.AsException(err); ok {
			var next, pr []string
			for _, n := range exc.Next {
				next = append(next, c03ExcSx(int(n.Code), n.Name, n.Message, n.Stack))
			}
			for _, p := range cs.probes {
				pr = append(pr, sx(strconv.Itoa(p), bsym(errors.Is(err, proto.Error(p))), bsym(ch.IsErr(err, proto.Error(p)))))
			}
			run.ret = sx("exc", c03ExcSx(int(exc.Code), exc.Name, exc.Message, exc.Stack), sx(next...), sx(pr...))
		} else if errors.Is(err, c03ErrCB) {
			run.ret = "cb"
		} else {
			run.ret = "err"
		}
	}
	if run.ret == "err" {
		run.final = "-"
	} else {
		run.final = c03Bound(cs, &results, cs.tkind)
	}
	return run
}

// ---------------------------------------------------------------- the direct oracle

// c03Expect computes, from the script alone, what the callbacks must have seen and what Do must return.
func c03Expect(cs *c03Case) (events []string, ret string, final string) {
	var counts [7]int
	failed := false
	fire := func(k int, ev string) bool { // false = this invocation fails
		events = append(events, ev)
		i := counts[k]
		counts[k]++
		if cs.hs[k].fail == i {
			failed = true
			return false
		}
		return true
	}
	bound := "nil"
	switch cs.tkind {
	case "auto", "empty":
		bound = "()"
	case "typed":
		var xs []string
		for i, t := range cs.targets {
			xs = append(xs, sx(hx([]byte(cs.tnames[i])), t.before))
		}
		bound = sx(xs...)
	}
	first := true
	ret = "err" // the stream ends without a terminator
loop:
	for _, p := range cs.packets {
		switch p.kind {
		case "end":
			ret = "nil"
			break loop
		case "exception":
			var next, pr []string
			codes := map[int]bool{}
			for i, e := range p.chain {
				codes[int(e.Code)] = true
				if i > 0 {
					next = append(next, c03ExcSx(int(e.Code), e.Name, e.Message, e.Stack))
				}
			}
			top := p.chain[0]
			for _, c := range cs.probes {
				pr = append(pr, sx(strconv.Itoa(c), bsym(codes[c]), bsym(int(top.Code) == c)))
			}
			ret = sx("exc", c03ExcSx(int(top.Code), top.Name, top.Message, top.Stack), sx(next...), sx(pr...))
			break loop
		case "progress":
			if cs.hs[1].set {
				q := p.progress
				if !proto.FeatureClientWriteInfo.In(cs.rev) {
					q.WroteRows, q.WroteBytes = 0, 0
				}
				if !proto.FeatureServerQueryTimeInProgress.In(cs.rev) {
					q.ElapsedNs = 0
				}
				if !fire(1, c03ProgressSx(q)) {
					break loop
				}
			}
		case "profile":
			if cs.hs[2].set && !fire(2, c03ProfileSx(p.profile)) {
				break loop
			}
		case "tablecolumns":
		case "data", "totals":
			if len(p.cols) == 0 && p.rows == 0 {
				continue
			}
			switch cs.tkind {
			case "nil":
			case "empty":
			default:
				var xs []string
				for _, c := range p.cols {
					xs = append(xs, sx(hx([]byte(c.name)), c.after))
				}
				bound = sx(xs...)
			}
			if cs.hs[0].set {
				info := p.info
				if !proto.FeatureBlockInfo.In(cs.rev) {
					info = proto.BlockInfo{}
				}
				if !fire(0, sx("r", c03Bi(info), strconv.Itoa(len(p.cols)), strconv.Itoa(p.rows), bound)) {
					break loop
				}
			} else {
				if !first {
					ret = "err"
					return events, ret, "-"
				}
				if p.rows > 0 {
					first = false
				}
			}
		case "pevents":
			if !cs.hs[3].set && !cs.hs[4].set {
				continue
			}
			if p.peBad {
				return events, "err", "-"
			}
			if cs.hs[3].set {
				xs := []string{"pes"}
				for _, e := range p.pes {
					xs = append(xs, sx(c03PESx(e)))
				}
				if !fire(3, sx(xs...)) {
					break loop
				}
			}
			if cs.hs[4].set {
				for _, e := range p.pes {
					if !fire(4, sx("pe", c03PESx(e))) {
						break loop
					}
				}
			}
		case "log":
			if !cs.hs[5].set && !cs.hs[6].set {
				continue
			}
			if cs.hs[5].set {
				xs := []string{"ls"}
				for _, l := range p.logs {
					xs = append(xs, sx(c03LogSx(l)))
				}
				if !fire(5, sx(xs...)) {
					break loop
				}
			}
			if cs.hs[6].set {
				for _, l := range p.logs {
					if !fire(6, sx("l", c03LogSx(l))) {
						break loop
					}
				}
			}
		}
	}
	if failed {
		ret = "cb"
	}
	if ret == "err" {
		return events, ret, "-"
	}
	return events, ret, bound
}

func c03Diff(kind string, want, got []string) string {
	for i := 0; i < len(want) || i < len(got); i++ {
		switch {
		case i >= len(got):
			return fmt.Sprintf("%s: callback %d was never made (%d expected, %d seen): missing %s", kind, i, len(want), len(got), c03Head(want[i]))
		case i >= len(want):
			return fmt.Sprintf("%s: extra callback %d (%d expected, %d seen): %s", kind, i, len(want), len(got), c03Head(got[i]))
		case want[i] != got[i]:
			if c03Head(want[i]) != c03Head(got[i]) {
				return fmt.Sprintf("%s: callback %d out of order or of the wrong kind: expected %s, got %s", kind, i, c03Head(want[i]), c03Head(got[i]))
			}
			return fmt.Sprintf("%s: callback %d %s delivered other contents than the server sent", kind, i, c03Head(want[i]))
		}
	}
	return ""
}

func c03Head(ev string) string {
	ev = strings.TrimPrefix(ev, "(")
	if i := strings.IndexAny(ev, " )"); i >= 0 {
		ev = ev[:i]
	}
	return ev
}

func c03RetClass(r string) string {
	if strings.HasPrefix(r, "(exc") {
		return "exception"
	}
	return r
}

// ---------------------------------------------------------------- case line

func c03Line(cs *c03Case, t c03Tables) string {
	var hs []string
	for _, x := range cs.hs {
		hs = append(hs, x.sx())
	}
	target := "nil"
	switch cs.tkind {
	case "auto":
		target = "(auto)"
	case "empty":
		target = "(typed)"
	case "typed":
		xs := []string{"typed"}
		for i, c := range cs.targets {
			xs = append(xs, sx(hx([]byte(cs.tnames[i])), c.ty, c.before))
		}
		target = sx(xs...)
	}
	var probes []string
	for _, p := range cs.probes {
		probes = append(probes, strconv.Itoa(p))
	}
	// what ColAuto.Infer makes of every type string of the script
	var infer []string
	seen := map[string]bool{}
	for _, p := range cs.packets {
		for _, c := range p.cols {
			ts := string(c.col.Type())
			if seen[ts] {
				continue
			}
			seen[ts] = true
			a := new(proto.ColAuto)
			if err := c14Guard(func() error { return a.Infer(proto.ColumnType(ts)) }); err != nil {
				continue
			}
			if ty, _, err := colDump(a.Data); err == nil {
				infer = append(infer, sx(hx([]byte(ts)), ty))
			}
		}
	}
	return fmt.Sprintf("recv %d %s %s %s %s %s %s %s %s %s", cs.rev, bsym(cs.comp != ch.CompressionDisabled), buildName,
		sx(hs...), target, sx(probes...), sx(infer...), hx(cs.stream), sx(t.hashes...), sx(t.codecs...))
}

func c03EncLines(cs *c03Case, t c03Tables, framed bool) string {
	var ps []string
	for _, p := range cs.packets {
		switch p.kind {
		case "end":
			ps = append(ps, "end")
		case "progress":
			q := p.progress
			ps = append(ps, fmt.Sprintf("(progress %d %d %d %d %d %d)", q.Rows, q.Bytes, q.TotalRows, q.WroteRows, q.WroteBytes, q.ElapsedNs))
		case "profile":
			q := p.profile
			ps = append(ps, fmt.Sprintf("(profile %d %d %d %s %d %s)", q.Rows, q.Blocks, q.Bytes, bsym(q.AppliedLimit), q.RowsBeforeLimit, bsym(q.CalculatedRowsBeforeLimit)))
		case "tablecolumns":
			ps = append(ps, sx("tablecolumns", hx([]byte(p.tc.First)), hx([]byte(p.tc.Second))))
		case "exception":
			xs := []string{"exception"}
			for _, e := range p.chain {
				xs = append(xs, c03ExcSx(int(e.Code), e.Name, e.Message, e.Stack))
			}
			ps = append(ps, sx(xs...))
		default:
			var cols []string
			for _, c := range p.cols {
				cols = append(cols, sx(hx([]byte(c.name)), c.ty, c.before))
			}
			ps = append(ps, sx(p.kind, c03Bi(p.info), strconv.Itoa(p.rows), sx(cols...)))
		}
	}
	if framed {
		var frs, tab []string
		for _, p := range cs.packets {
			if p.fspec != "" {
				frs = append(frs, p.fspec)
			} else {
				frs = append(frs, "(none)")
			}
			tab = append(tab, p.fcomp...)
		}
		return fmt.Sprintf("encf %d %s %s %s %s %s %s", cs.rev, bsym(cs.comp != ch.CompressionDisabled), buildName, sx(ps...), sx(frs...), sx(tab...), sx(t.chash...))
	}
	m := "none"
	switch cs.method {
	case compress.LZ4:
		m = "lz4"
	case compress.ZSTD:
		m = "zstd"
	}
	return fmt.Sprintf("enc %d %s %s %s %s %s %s", cs.rev, bsym(cs.comp != ch.CompressionDisabled), buildName, m, sx(ps...), sx(t.ccomp...), sx(t.chash...))
}

func c03EncLine(cs *c03Case, t c03Tables) string  { return c03EncLines(cs, t, false) }
func c03EncFLine(cs *c03Case, t c03Tables) string { return c03EncLines(cs, t, true) }

// ---------------------------------------------------------------- malformed streams

// c03Mutate turns a well-formed case into a malformed one (correspondence only).
func c03Mutate(h *H, cs *c03Case) bool {
	cs.wf = false
	s := cs.stream
	if len(s) == 0 {
		return false
	}
	pick := func() *c03Pkt { return cs.packets[h.R.Intn(len(cs.packets))] }
	switch k := h.R.Intn(10); k {
	case 0: // cut
		cs.stream = s[:h.R.Intn(len(s))]
		cs.note = "cut"
	case 1: // one byte altered
		i := h.R.Intn(len(s))
		s[i] ^= byte(1 << uint(h.R.Intn(8)))
		cs.note = "flip"
	case 2: // a non-empty temporary table name / a stray byte after a packet code
		p := pick()
		i := p.off + 1
		if i >= len(s) {
			return false
		}
		s[i] = byte(1 + h.R.Intn(3))
		cs.note = "byte-after-code"
	case 3: // a packet code the client does not handle, or not a code at all
		p := pick()
		s[p.off] = []byte{0, 4, 8, 9, 12, 13, 15, 16, 127, 128, 200, 255}[h.R.Intn(12)]
		cs.note = "code"
	case 4: // Data <-> Totals <-> Log <-> ProfileEvents
		p := pick()
		s[p.off] = []byte{1, 7, 10, 14}[h.R.Intn(4)]
		cs.note = "kind-swap"
	case 5: // altered byte inside a compressed frame
		p := pick()
		if len(p.frames) == 0 {
			return false
		}
		f := p.frames[h.R.Intn(len(p.frames))]
		s[f[0]+h.R.Intn(f[1])] ^= byte(1 << uint(h.R.Intn(8)))
		cs.note = "frame"
	case 6: // drop a packet's tail and everything after it re-aligned: delete a few bytes
		i := h.R.Intn(len(s))
		n := 1 + h.R.Intn(3)
		if i+n > len(s) {
			n = len(s) - i
		}
		cs.stream = append(append([]byte{}, s[:i]...), s[i+n:]...)
		c03Shift(cs, i, i+n, -n)
		cs.note = "delete"
	case 7: // insert bytes
		i := h.R.Intn(len(s) + 1)
		ins := genShortBytes(h.R)
		if len(ins) == 0 {
			return false
		}
		cs.stream = append(append(append([]byte{}, s[:i]...), ins...), s[i:]...)
		c03Shift(cs, i, i, len(ins))
		cs.note = "insert"
	case 9: // a frame without payload BEHIND the last frame of a compressed block: the decoder has what it needs and
		// never asks for it, so it is taken for the next packet (why the theorems ask for a non-empty last payload)
		var p *c03Pkt
		for i := 0; i < 8 && (p == nil || len(p.frames) == 0); i++ {
			p = pick()
		}
		if p == nil || len(p.frames) == 0 {
			return false
		}
		w := compress.NewWriter(0, []compress.Method{compress.LZ4, compress.ZSTD, compress.None}[h.R.Intn(3)])
		if err := w.Compress(nil); err != nil {
			return false
		}
		cs.stream = append(append(append([]byte{}, s[:p.end]...), w.Data...), s[p.end:]...)
		c03Shift(cs, p.end, p.end, len(w.Data))
		p.frames = append(p.frames, [2]int{p.end, len(w.Data)})
		cs.note = "trailing-empty-frame"
	default: // a second copy of one packet
		p := pick()
		cs.stream = append(append(append([]byte{}, s[:p.end]...), s[p.off:p.end]...), s[p.end:]...)
		c03Shift(cs, p.end, p.end, p.end-p.off)
		// the frames of the copy
		var extra [][2]int
		for _, f := range p.frames {
			extra = append(extra, [2]int{f[0] + p.end - p.off, f[1]})
		}
		p.frames = append(p.frames, extra...)
		cs.note = "duplicate"
	}
	return true
}

// c03Shift keeps the recorded frame positions right after bytes [lo,hi) were replaced by hi-lo+delta bytes:
// frames before the edit stay, frames after it move, frames touching it are forgotten.
func c03Shift(cs *c03Case, lo, hi, delta int) {
	for _, p := range cs.packets {
		var keep [][2]int
		for _, f := range p.frames {
			switch {
			case f[0]+f[1] <= lo:
				keep = append(keep, f)
			case f[0] >= hi:
				keep = append(keep, [2]int{f[0] + delta, f[1]})
			}
		}
		p.frames = keep
	}
}

// c03Schema makes a case whose blocks do not fit the bound columns.
func c03Schema(h *H, specs []c14ColSpec) *c03Case {
	simple := []c14ColSpec{{typ: "UInt8"}, {typ: "UInt64"}, {typ: "Int32"}, {typ: "String"}, {typ: "Bool"}, {typ: "UUID"}, {typ: "Float64"}, {typ: "Nullable(String)"}, {typ: "FixedString(8)", bytesLen: 8}}
	cs := c03Gen(h, simple)
	if cs == nil || cs.tkind != "typed" || len(cs.packets) == 0 {
		return nil
	}
	cs.wf = false
	switch h.R.Intn(5) {
	case 0: // another name
		cs.tnames[h.R.Intn(len(cs.tnames))] = "other"
		cs.note = "name"
	case 1: // another type of the same width / another type
		i := h.R.Intn(len(cs.targets))
		c := c03MakeCol(h, cs.targets[i].name, simple[h.R.Intn(len(simple))], 0)
		if c == nil {
			return nil
		}
		cs.targets[i] = c
		cs.note = "type"
	case 2: // one target less
		if len(cs.targets) < 2 {
			return nil
		}
		cs.targets = cs.targets[:len(cs.targets)-1]
		cs.tnames = cs.tnames[:len(cs.targets)]
		cs.note = "fewer-targets"
	case 3: // one target more
		c := c03MakeCol(h, "extra", simple[h.R.Intn(len(simple))], 0)
		if c == nil {
			return nil
		}
		cs.targets = append(cs.targets, c)
		cs.tnames = append(cs.tnames, "extra")
		cs.note = "more-targets"
	default: // profile events whose value column is not an integer column
		for i, p := range cs.packets {
			if p.kind == "pevents" {
				if q := c03PEBlock(h, 1+h.R.Intn(3), true); q != nil {
					cs.packets[i] = q
				}
			}
		}
		cs.packets = append([]*c03Pkt{c03PEBlock(h, 2, true)}, cs.packets...)
		cs.note = "pevents-value-type"
		cs.wf = true // the script says what must happen: All() fails when a handler is set
	}
	return cs
}

// ---------------------------------------------------------------- driver

func c03Emit(h *H, cs *c03Case, withEnc bool) {
	t := c03Oracles(cs)
	line := c03Line(cs, t)
	// the extracted evaluator works on inductive numbers and lists: keep the quick tier's lines short
	maxLine := 40000
	if h.Tier == "thorough" {
		maxLine = 80000
	}
	if len(line) > maxLine {
		h.Stat("skipped.too-long")
		return
	}
	run := c03Do(cs)
	if run.crash != "" {
		if strings.HasPrefix(run.crash, "handshake") {
			h.Emit(line, "-", "FAIL:handshake with the scripted server failed: "+sanitize(run.crash))
			return
		}
		h.Emit(line, "crash "+sanitize(run.crash), "FAIL:panic in Client.Do: "+sanitize(run.crash))
		return
	}
	obs := fmt.Sprintf("ok %s %s %s", sx(run.events...), run.ret, run.final)
	oracle := "-"
	if cs.wf {
		oracle = "ok"
		wantEv, wantRet, wantFinal := c03Expect(cs)
		kinds := fmt.Sprintf("rev=%d comp=%d target=%s", cs.rev, int(cs.comp), cs.tkind)
		if d := c03Diff("callbacks", wantEv, run.events); d != "" {
			oracle = "FAIL:" + d + " [" + kinds + "]"
			if os.Getenv("C03_DEBUG") != "" {
				for i := range wantEv {
					if i < len(run.events) && wantEv[i] != run.events[i] {
						a, b := wantEv[i], run.events[i]
						j := 0
						for j < len(a) && j < len(b) && a[j] == b[j] {
							j++
						}
						lo := j - 200
						if lo < 0 {
							lo = 0
						}
						fmt.Fprintf(os.Stderr, "DIFF case %d ev %d at %d\n want ...%.400s\n got  ...%.400s\n", h.Count, i, j, a[lo:], b[lo:])
						break
					}
				}
			}
		} else if wantRet != run.ret {
			if c03RetClass(wantRet) != c03RetClass(run.ret) {
				oracle = fmt.Sprintf("FAIL:return value: Do returned %s where the script calls for %s [%s] %s", c03RetClass(run.ret), c03RetClass(wantRet), kinds, sanitize(run.errTxt))
			} else {
				oracle = "FAIL:exception chain: the returned error does not carry the chain the server sent (fields, Next, errors.Is/IsErr) [" + kinds + "]"
			}
		} else if wantFinal != run.final {
			oracle = "FAIL:bound columns after Do do not hold the last block received [" + kinds + "]"
		}
	}
	if os.Getenv("C03_DEBUG") != "" && run.errTxt != "" {
		fmt.Fprintf(os.Stderr, "case %d: %s %s: %s\n", h.Count, cs.note, run.ret, run.errTxt)
	}
	h.Emit(line, obs, oracle)
	h.Stat("ret." + c03RetClass(run.ret))
	h.Stat("target." + cs.tkind)
	h.Stat(fmt.Sprintf("events.%s", c03Bucket(len(run.events))))
	if cs.comp != ch.CompressionDisabled {
		h.Stat("compressed")
		for _, p := range cs.packets {
			if len(p.frames) > 0 {
				h.Stat(fmt.Sprintf("frames.%d", len(p.frames)))
			}
			for _, k := range p.cutKinds {
				h.Stat("cut." + k)
			}
		}
	}
	if cs.wf {
		h.Stat("wellformed")
	} else {
		h.Stat("malformed." + cs.note)
	}
	if withEnc {
		single, hasRaw := true, false
		for _, p := range cs.packets {
			if len(p.frames) > 1 || p.kind == "raw" || p.foreign {
				single = false
			}
			if p.kind == "raw" {
				hasRaw = true
			}
		}
		if single {
			el := c03EncLine(cs, t)
			if len(el) < maxLine {
				h.Emit(el, "ok "+hx(cs.stream), "-")
				h.Stat("enc")
			}
		} else if !hasRaw {
			// the model's framed server (encode_packets_fr) against the bytes of the real encoders and compress.Writer
			el := c03EncFLine(cs, t)
			if len(el) < maxLine {
				h.Emit(el, "ok "+hx(cs.stream), "-")
				h.Stat("encf")
			}
		}
	}
}

func c03Bucket(n int) string {
	switch {
	case n == 0:
		return "0"
	case n < 4:
		return "1-3"
	case n < 16:
		return "4-15"
	default:
		return "16+"
	}
}

func runC03(h *H) {
	specs := c03Specs()
	for h.Count < h.N {
		var cs *c03Case
		k := h.R.Intn(10)
		if k == 9 {
			cs = c03Schema(h, specs)
		} else {
			cs = c03Gen(h, specs)
		}
		if cs == nil {
			h.Stat("skipped.gen")
			continue
		}
		if err := c03Encode(cs); err != nil {
			h.Stat("skipped.encode")
			continue
		}
		withEnc := cs.wf && k < 6
		if k >= 6 && k <= 8 {
			if !c03Mutate(h, cs) {
				continue
			}
			withEnc = false
		}
		c03Emit(h, cs, withEnc)
	}
}
