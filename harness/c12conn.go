package main

// C12: a scripted ClickHouse server over net.Pipe for running the REAL client under the race detector.
//
// Design constraint (it decides whether the detector can see a race at all): the detector is
// happens-before based, so every piece of synchronisation the test double adds between the client's
// sending goroutine and its receiving goroutine can hide a race of the library.  Therefore
//   - the transport is net.Pipe, whose read half and write half do not synchronise with each other;
//   - the server has one goroutine that only reads and one that only writes; the reader hands a request
//     to the writer through a channel ONCE per request (that edge is causal on a real network too);
//   - while an INSERT streams, the writer emits Progress packets on its own clock, not per block read;
//     the only thing it learns from the reader is one atomic flag stored once (end of input seen).
//
// What a query gets back is written in its body:  "c12 seq=<letters> rows=<n> gap=<microseconds>"
//
//	D data block (rows)   T totals block (1 row)   P progress   F profile   L log block (2 rows)
//	E profile events (2 rows)   C table columns   H insert header (the column info block, 0 rows)
//	W send Progress every gap until the end-of-input block has been read   G sleep gap
//	Z end of stream   X exception   K cut the connection   S stall until Cancel arrives / the peer closes
//
// Ping is answered with Pong.

import (
	"context"
	"io"
	"net"
	"strconv"
	"strings"
	"sync"
	"sync/atomic"
	"time"

	"github.com/ClickHouse/ch-go/compress"
	"github.com/ClickHouse/ch-go/proto"
)

const (
	c12ProgressRows  = 3
	c12ProgressBytes = 17
	c12LogRows       = 2
	c12EventRows     = 2
)

type c12Req struct {
	ping bool
	seq  string
	rows int
	gap  time.Duration
}

type c12Srv struct {
	conn net.Conn
	r    *proto.Reader
	rev  int
	comp bool
	cw   *compress.Writer

	endOfInput atomic.Bool // stored once by the reader
	cancelSeen atomic.Bool // stored once by the reader
	closed     atomic.Bool

	// owned by the reader goroutine; read by the harness after Wait()
	inBlocks, inRows int
	queries, pings   int
	malformed        string
	// owned by the writer goroutine; read by the harness after Wait()
	progressSent int
	blocksSent   int
	rowsSent     int
	lastCols     int

	done sync.WaitGroup
}

// c12NewPipe returns the client side of a fresh connection whose peer is a running scripted server.
func c12NewPipe(comp bool, method compress.Method, serverRev int) (net.Conn, *c12Srv) {
	cli, srv := net.Pipe()
	return cli, c12Serve(srv, comp, method, serverRev)
}

// c12Serve starts the scripted server on its end of a connection
func c12Serve(srv net.Conn, comp bool, method compress.Method, serverRev int) *c12Srv {
	s := &c12Srv{conn: srv, r: proto.NewReader(srv), comp: comp, cw: compress.NewWriter(compress.LevelZero, method), rev: serverRev}
	reqs := make(chan c12Req, 16)
	s.done.Add(2)
	go s.reader(reqs)
	go s.writer(reqs)
	return s
}

// c12Listener: the scripted server behind a loopback TCP listener, for options that carry the standard library's own
// *net.Dialer (an object the caller owns and every connection made from these options shares)
type c12Listener struct {
	ln   net.Listener
	mu   sync.Mutex
	srvs []*c12Srv
	done sync.WaitGroup
}

func c12Listen(comp bool, method compress.Method) (*c12Listener, error) {
	ln, err := net.Listen("tcp", "127.0.0.1:0")
	if err != nil {
		return nil, err
	}
	l := &c12Listener{ln: ln}
	l.done.Add(1)
	go func() {
		defer l.done.Done()
		for {
			conn, err := ln.Accept()
			if err != nil {
				return
			}
			s := c12Serve(conn, comp, method, proto.Version)
			l.mu.Lock()
			l.srvs = append(l.srvs, s)
			l.mu.Unlock()
		}
	}()
	return l, nil
}

func (l *c12Listener) WaitAll() (n int, malformed string) {
	_ = l.ln.Close()
	l.done.Wait()
	l.mu.Lock()
	srvs := append([]*c12Srv(nil), l.srvs...)
	l.mu.Unlock()
	for _, s := range srvs {
		s.Wait()
		if s.malformed != "" && malformed == "" {
			malformed = s.malformed
		}
	}
	return len(srvs), malformed
}

// Wait closes the server side and waits for both goroutines.
func (s *c12Srv) Wait() {
	s.closed.Store(true)
	_ = s.conn.Close()
	s.done.Wait()
}

func c12ParseBody(body string) (c12Req, bool) {
	f := strings.Fields(body)
	if len(f) == 0 || f[0] != "c12" {
		return c12Req{seq: "Z"}, false
	}
	rq := c12Req{seq: "Z", rows: 1}
	for _, kv := range f[1:] {
		k, v, _ := strings.Cut(kv, "=")
		switch k {
		case "seq":
			rq.seq = v
		case "rows":
			rq.rows, _ = strconv.Atoi(v)
		case "gap":
			n, _ := strconv.Atoi(v)
			rq.gap = time.Duration(n) * time.Microsecond
		}
	}
	return rq, true
}

func (s *c12Srv) reader(reqs chan<- c12Req) {
	defer s.done.Done()
	defer close(reqs)
	r := s.r
	fail := func(what string, err error) {
		if err == nil || !(c11IsEnd(err)) {
			if s.malformed == "" {
				s.malformed = what
				if err != nil {
					s.malformed += ": " + err.Error()
				}
			}
		}
	}
	// handshake: the writer goroutine is not started on the hello; answer it here
	code, err := r.UVarInt()
	if err != nil {
		return
	}
	if proto.ClientCode(code) != proto.ClientCodeHello {
		fail("first packet is not Hello", nil)
		return
	}
	var hello proto.ClientHello
	if err := hello.Decode(r); err != nil {
		fail("client hello", err)
		return
	}
	rev := s.rev
	if hello.ProtocolVersion < rev {
		rev = hello.ProtocolVersion
	}
	{
		var b proto.Buffer
		sh := proto.ServerHello{Name: "c12", Major: 23, Minor: 8, Revision: s.rev, Timezone: "UTC", DisplayName: "c12", Patch: 1}
		sh.EncodeAware(&b, rev)
		if _, err := s.conn.Write(b.Buf); err != nil {
			return
		}
	}
	s.rev = rev // before the first request is handed to the writer
	if proto.FeatureAddendum.In(rev) && proto.FeatureQuotaKey.In(rev) {
		if _, err := r.Str(); err != nil {
			fail("addendum", err)
			return
		}
	}
	awaitingExternalEnd := false
	var pending c12Req
	for {
		code, err := r.UVarInt()
		if err != nil {
			fail("packet code", err)
			return
		}
		switch proto.ClientCode(code) {
		case proto.ClientCodePing:
			s.pings++
			reqs <- c12Req{ping: true}
		case proto.ClientCodeCancel:
			s.cancelSeen.Store(true)
		case proto.ClientCodeQuery:
			s.queries++
			var q proto.Query
			if err := q.DecodeAware(r, rev); err != nil {
				fail("query", err)
				return
			}
			pending, _ = c12ParseBody(q.Body)
			awaitingExternalEnd = true
		case proto.ClientCodeData:
			var cd proto.ClientData
			if err := cd.DecodeAware(r, rev); err != nil {
				fail("client data", err)
				return
			}
			var blk proto.Block
			var res proto.Results
			if s.comp {
				r.EnableCompression()
			}
			err := blk.DecodeBlock(r, rev, res.Auto())
			if s.comp {
				r.DisableCompression()
			}
			if err != nil {
				fail("data block", err)
				return
			}
			blank := blk.Columns == 0 && blk.Rows == 0
			switch {
			case awaitingExternalEnd && blank:
				awaitingExternalEnd = false
				reqs <- pending
			case awaitingExternalEnd:
				// external data table: ignored
			case blank:
				s.endOfInput.Store(true)
			default:
				s.inBlocks++
				s.inRows += blk.Rows
			}
		default:
			fail("unexpected client packet "+strconv.Itoa(int(code)), nil)
			return
		}
	}
}

func (s *c12Srv) putBlock(b *proto.Buffer, code proto.ServerCode, cols []proto.InputColumn, rows int) {
	code.Encode(b)
	if proto.FeatureTempTables.In(s.rev) {
		b.PutString("")
	}
	var raw proto.Buffer
	blk := proto.Block{Columns: len(cols), Rows: rows, Info: proto.BlockInfo{BucketNum: -1}}
	if err := blk.EncodeBlock(&raw, s.rev, cols); err != nil {
		panic("c12: server cannot encode its own block: " + err.Error())
	}
	if s.comp && code.Compressible() {
		if err := s.cw.Compress(raw.Buf); err != nil {
			panic("c12: server cannot compress: " + err.Error())
		}
		b.Buf = append(b.Buf, s.cw.Data...)
	} else {
		b.Buf = append(b.Buf, raw.Buf...)
	}
}

// c12InsertSchema is the table the scripted server pretends to have for INSERTs.
func c12InsertSchema() (names []string, types []proto.ColumnType) {
	return []string{"v", "s", "e"}, []proto.ColumnType{"UInt64", "String", "Enum8('a'=1,'b'=2)"}
}

func (s *c12Srv) writer(reqs <-chan c12Req) {
	defer s.done.Done()
	send := func(b *proto.Buffer) bool {
		_, err := s.conn.Write(b.Buf)
		b.Reset()
		return err == nil
	}
	nap := func(d time.Duration) {
		if d > 0 {
			time.Sleep(d)
		}
	}
	for rq := range reqs {
		var b proto.Buffer
		if rq.ping {
			proto.ServerCodePong.Encode(&b)
			if !send(&b) {
				return
			}
			continue
		}
		for _, op := range rq.seq {
			ok := true
			switch op {
			case 'D', 'T':
				rows := rq.rows
				code := proto.ServerCodeData
				if op == 'T' {
					rows, code = 1, proto.ServerCodeTotals
				}
				var v proto.ColUInt64
				var str proto.ColStr
				for i := 0; i < rows; i++ {
					v.Append(uint64(i) * 7)
					str.Append("row" + strconv.Itoa(i))
				}
				s.putBlock(&b, code, []proto.InputColumn{{Name: "v", Data: &v}, {Name: "s", Data: &str}}, rows)
				ok = send(&b)
				if ok {
					s.blocksSent++
					s.rowsSent += rows
					s.lastCols = 2
				}
			case 'H':
				names, types := c12InsertSchema()
				var cols []proto.InputColumn
				for i := range names {
					cols = append(cols, proto.InputColumn{Name: names[i], Data: c12Header{t: types[i]}})
				}
				s.putBlock(&b, proto.ServerCodeData, cols, 0)
				ok = send(&b)
				if ok {
					s.blocksSent++
					s.lastCols = len(cols)
				}
			case 'P':
				proto.ServerCodeProgress.Encode(&b)
				proto.Progress{Rows: c12ProgressRows, Bytes: c12ProgressBytes, TotalRows: 100}.EncodeAware(&b, s.rev)
				ok = send(&b)
				if ok {
					s.progressSent++
				}
			case 'W':
				for !s.endOfInput.Load() && !s.closed.Load() {
					proto.ServerCodeProgress.Encode(&b)
					proto.Progress{Rows: c12ProgressRows, Bytes: c12ProgressBytes, WroteRows: 1}.EncodeAware(&b, s.rev)
					if !send(&b) {
						return
					}
					s.progressSent++
					nap(rq.gap)
				}
			case 'G':
				nap(rq.gap)
			case 'F':
				// Profile.EncodeAware writes the packet code itself
				proto.Profile{Rows: 5, Blocks: 1, Bytes: 50}.EncodeAware(&b, s.rev)
				ok = send(&b)
			case 'C':
				proto.TableColumns{First: "t", Second: "columns format version: 1"}.EncodeAware(&b, s.rev)
				ok = send(&b)
			case 'L':
				var (
					tm   proto.ColDateTime
					us   proto.ColUInt32
					host proto.ColStr
					qid  proto.ColStr
					tid  proto.ColUInt64
					prio proto.ColInt8
					src  proto.ColStr
					text proto.ColStr
				)
				for i := 0; i < c12LogRows; i++ {
					tm.Append(time.Unix(1700000000+int64(i), 0))
					us.Append(uint32(i))
					host.Append("h")
					qid.Append("q")
					tid.Append(uint64(i))
					prio.Append(int8(i))
					src.Append("src")
					text.Append("text" + strconv.Itoa(i))
				}
				s.putBlock(&b, proto.ServerCodeLog, []proto.InputColumn{
					{Name: "event_time", Data: &tm}, {Name: "event_time_microseconds", Data: &us},
					{Name: "host_name", Data: &host}, {Name: "query_id", Data: &qid}, {Name: "thread_id", Data: &tid},
					{Name: "priority", Data: &prio}, {Name: "source", Data: &src}, {Name: "text", Data: &text},
				}, c12LogRows)
				ok = send(&b)
				if ok {
					s.blocksSent++
					s.rowsSent += c12LogRows
					s.lastCols = 8
				}
			case 'E':
				var (
					host proto.ColStr
					tm   proto.ColDateTime
					tid  proto.ColUInt64
					typ  proto.ColInt8
					name proto.ColStr
					val  proto.ColInt64
				)
				for i := 0; i < c12EventRows; i++ {
					host.Append("h")
					tm.Append(time.Unix(1700000000, 0))
					tid.Append(1)
					typ.Append(int8(proto.ProfileIncrement))
					name.Append("Ev" + strconv.Itoa(i))
					val.Append(int64(i))
				}
				s.putBlock(&b, proto.ServerProfileEvents, []proto.InputColumn{
					{Name: "host_name", Data: &host}, {Name: "current_time", Data: &tm}, {Name: "thread_id", Data: &tid},
					{Name: "type", Data: &typ}, {Name: "name", Data: &name}, {Name: "value", Data: &val},
				}, c12EventRows)
				ok = send(&b)
				if ok {
					s.blocksSent++
					s.rowsSent += c12EventRows
					s.lastCols = 6
				}
			case 'Z':
				proto.ServerCodeEndOfStream.Encode(&b)
				ok = send(&b)
			case 'X':
				proto.ServerCodeException.Encode(&b)
				ex := proto.Exception{Code: proto.ErrUnknownTable, Name: "DB::Exception", Message: "c12 scripted exception", Stack: "-"}
				ex.EncodeAware(&b, s.rev)
				ok = send(&b)
			case 'K':
				_ = s.conn.Close()
				return
			case 'S':
				for !s.cancelSeen.Load() && !s.closed.Load() {
					time.Sleep(50 * time.Microsecond)
					// a peer that went away shows as a failing zero-progress write only when we write; probe rarely
				}
			}
			if !ok {
				return
			}
		}
	}
}

// c12Header is a zero-row column that only carries a type (the INSERT header block).
type c12Header struct{ t proto.ColumnType }

func (c c12Header) Type() proto.ColumnType              { return c.t }
func (c12Header) Rows() int                             { return 0 }
func (c12Header) EncodeColumn(*proto.Buffer)            {}
func (c12Header) WriteColumn(*proto.Writer)             {}
func (c12Header) Reset()                                {}
func (c12Header) DecodeColumn(*proto.Reader, int) error { return nil }

// c12Dialer hands out pipes to fresh scripted servers (for chpool).
type c12Dialer struct {
	mu       sync.Mutex
	srvs     []*c12Srv
	comp     bool
	method   compress.Method
	failNext int
}

func (d *c12Dialer) DialContext(ctx context.Context, network, address string) (net.Conn, error) {
	d.mu.Lock()
	defer d.mu.Unlock()
	if d.failNext > 0 {
		d.failNext--
		return nil, io.ErrUnexpectedEOF
	}
	cli, s := c12NewPipe(d.comp, d.method, proto.Version)
	d.srvs = append(d.srvs, s)
	return cli, nil
}

func (d *c12Dialer) WaitAll() (n int, malformed string) {
	d.mu.Lock()
	srvs := append([]*c12Srv(nil), d.srvs...)
	d.mu.Unlock()
	for _, s := range srvs {
		s.Wait()
		if s.malformed != "" && malformed == "" {
			malformed = s.malformed
		}
	}
	return len(srvs), malformed
}
