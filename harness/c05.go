package main

// C05 - compressed frames round-trip and any corrupted frame is rejected.
//
// Runs the real compress.Writer / compress.Reader (directly, and behind proto.Reader with
// compression enabled) on generated streams and prints, per case,
//
//	case line (consumed by the model evaluator, model/GlueCmp.v)
//	observation on the implementation
//	direct property oracle on the implementation: ok | FAIL:...
//
// The CityHash128 values and codec results that the model needs as oracles are computed here
// with the real libraries (city.CH128, lz4.UncompressBlock, zstd DecodeAll) and put into the
// case line.

import (
	"bytes"
	"encoding/binary"
	"errors"
	"fmt"
	"io"
	"math/rand"
	"runtime"
	"runtime/debug"
	"sort"
	"strconv"
	"strings"

	"github.com/ClickHouse/ch-go/compress"
	"github.com/ClickHouse/ch-go/proto"
	"github.com/go-faster/city"
	"github.com/klauspost/compress/zstd"
	"github.com/pierrec/lz4/v4"
)

func init() { runners["c05"] = runC05 }

// the oracle's own knowledge of the documented frame format
const (
	c05Header   = 25
	c05MaxData  = 128 << 20
	c05MaxBlock = 128 << 20
	c05EncNone  = 0x02
	c05EncLZ4   = 0x82
	c05EncZSTD  = 0x90
)

var c05Zstd *zstd.Decoder

func c05ZstdDec() *zstd.Decoder {
	if c05Zstd == nil {
		d, err := zstd.NewReader(nil, zstd.WithDecoderConcurrency(1), zstd.WithDecoderLowmem(true),
			zstd.WithDecoderMaxMemory(256<<20))
		if err != nil {
			panic(err)
		}
		c05Zstd = d
	}
	return c05Zstd
}

// c05Codec applies the real codec named by the method byte.  ok=false: codec error.
func c05Codec(mb byte, raw []byte, ds int) (out []byte, ok bool) {
	defer func() {
		if p := recover(); p != nil {
			out, ok = nil, false
		}
	}()
	switch mb {
	case c05EncLZ4:
		dst := make([]byte, ds)
		n, err := lz4.UncompressBlock(raw, dst)
		if err != nil {
			return nil, false
		}
		return dst[:n], true
	case c05EncZSTD:
		d, err := c05ZstdDec().DecodeAll(raw, nil)
		if err != nil {
			return nil, false
		}
		return d, true
	}
	return nil, false
}

func c05MethodSym(m compress.Method) string { return strings.ToLower(m.String()) }

type c05Spec struct {
	m     compress.Method
	level compress.Level
}

// ---- payload generators -------------------------------------------------------

func c05Payload(r *rand.Rand, n, kind int) []byte {
	b := make([]byte, n)
	switch kind % 3 {
	case 0: // compressible text
		words := []string{"hello ", "clickhouse ", "0123456789", "\n", "aaaa", "block "}
		i := 0
		for i < n {
			w := words[r.Intn(len(words))]
			i += copy(b[i:], w)
		}
	case 1: // incompressible
		r.Read(b)
	default: // all zero
	}
	return b
}

func c05SmallLen(r *rand.Rand) int {
	switch r.Intn(10) {
	case 0:
		return 0
	case 1:
		return 1
	case 2:
		return 2 + r.Intn(6)
	case 3:
		return []int{12, 13, 15, 16, 17, 31, 32, 33, 63, 64, 65}[r.Intn(11)]
	default:
		return r.Intn(40)
	}
}

func c05AnyLen(r *rand.Rand) int {
	switch r.Intn(12) {
	case 0:
		return 0
	case 1:
		return []int{127, 128, 129, 254, 255, 256, 257, 1023, 1024, 1025, 4095, 4096, 4097}[r.Intn(13)]
	case 2:
		return r.Intn(4097)
	case 3:
		if r.Intn(3) == 0 {
			return 16384 + r.Intn(3) - 1
		}
		return r.Intn(20000)
	default:
		return c05SmallLen(r)
	}
}

func c05RandSpec(r *rand.Rand) c05Spec {
	switch r.Intn(4) {
	case 0:
		return c05Spec{compress.None, 0}
	case 1:
		return c05Spec{compress.LZ4, 0}
	case 2:
		return c05Spec{compress.LZ4HC, compress.Level(r.Intn(14))}
	default:
		return c05Spec{compress.ZSTD, 0}
	}
}

// c05Writers caches one Writer per spec (the client reuses its writer across blocks).
type c05Writers map[c05Spec]*compress.Writer

func (ws c05Writers) frame(s c05Spec, p []byte, fresh bool) ([]byte, error) {
	w := ws[s]
	if w == nil || fresh {
		w = compress.NewWriter(s.level, s.m)
		ws[s] = w
	}
	if err := w.Compress(p); err != nil {
		return nil, err
	}
	return append([]byte{}, w.Data...), nil
}

// ---- oracle tables for the model ------------------------------------------------

// c05Tables walks the stream the way a frame reader has to (header, two size fields, body)
// and records the real CityHash128 of every candidate body and, where the stored checksum
// matches, what the real codec makes of the payload.
func c05Tables(stream []byte) (hs, zs string) {
	var hl, zl []string
	off := 0
	for steps := 0; steps < 4096; steps++ {
		if len(stream)-off < c05Header {
			break
		}
		rsField := int(binary.LittleEndian.Uint32(stream[off+17:]))
		ds := int(binary.LittleEndian.Uint32(stream[off+21:]))
		rs := rsField - 9
		if ds > c05MaxData || rs < 0 || rs > c05MaxBlock {
			off += c05Header
			continue
		}
		if len(stream)-off-c05Header < rs {
			break
		}
		body := stream[off+16 : off+c05Header+rs]
		h := city.CH128(body)
		hl = append(hl, sx(strconv.Itoa(off+16), strconv.Itoa(len(body)),
			strconv.FormatUint(h.Low, 10), strconv.FormatUint(h.High, 10)))
		if h.Low == binary.LittleEndian.Uint64(stream[off:]) && h.High == binary.LittleEndian.Uint64(stream[off+8:]) {
			mb := stream[off+16]
			if mb == c05EncLZ4 || mb == c05EncZSTD {
				res := "e"
				if ds <= 1<<24 {
					if out, ok := c05Codec(mb, stream[off+c05Header:off+c05Header+rs], ds); ok && len(out) <= 1<<24 {
						res = hx(out)
					}
				}
				zl = append(zl, sx(strconv.Itoa(off+c05Header), strconv.Itoa(rs), strconv.Itoa(int(mb)), strconv.Itoa(ds), res))
			}
		}
		off += c05Header + rs
	}
	return sx(hl...), sx(zl...)
}

// ---- running the implementation ---------------------------------------------------

type c05Op struct {
	full bool
	n    int
}

func c05OpsSx(ops []c05Op) string {
	var xs []string
	for _, o := range ops {
		k := "r"
		if o.full {
			k = "f"
		}
		xs = append(xs, sx(k, strconv.Itoa(o.n)))
	}
	return sx(xs...)
}

// c05Under is the underlying transport: a flat stream handed out in pieces of at most
// chunk bytes (0: as much as asked), with the consumption offset visible to the oracle.
type c05Under struct {
	data  []byte
	off   int
	chunk int
	r     *rand.Rand
}

func (u *c05Under) Read(p []byte) (int, error) {
	if u.off >= len(u.data) {
		return 0, io.EOF
	}
	n := len(p)
	if u.chunk > 0 && n > u.chunk {
		n = 1 + u.r.Intn(u.chunk)
		if n > len(p) {
			n = len(p)
		}
	}
	n = copy(p[:n], u.data[u.off:])
	u.off += n
	return n, nil
}

type c05Ev struct {
	data []byte // err == "" : bytes handed out (merged)
	err  string // class and details
}

func c05ErrClass(err error) string {
	var bad *compress.CorruptedDataErr
	switch {
	case errors.As(err, &bad):
		return fmt.Sprintf("corrupt %d %d %d %d %d %d", bad.Actual.Low, bad.Actual.High,
			bad.Reference.Low, bad.Reference.High, bad.RawSize, bad.DataSize)
	case errors.Is(err, io.ErrUnexpectedEOF):
		return "ueof"
	case errors.Is(err, io.EOF):
		return "eof"
	}
	return "other"
}

// c05Verified parses region as a run of complete frames that verify (the oracle's own,
// independent reading of "a frame whose checksum verified") and returns their payloads.
func c05Verified(region []byte) (payload []byte, ok bool) {
	for len(region) > 0 {
		if len(region) < c05Header {
			return nil, false
		}
		rs := int(binary.LittleEndian.Uint32(region[17:])) - 9
		ds := int(binary.LittleEndian.Uint32(region[21:]))
		if rs < 0 || rs > c05MaxBlock || ds > c05MaxData || len(region) < c05Header+rs {
			return nil, false
		}
		h := city.CH128(region[16 : c05Header+rs])
		if h.Low != binary.LittleEndian.Uint64(region) || h.High != binary.LittleEndian.Uint64(region[8:]) {
			return nil, false
		}
		raw := region[c05Header : c05Header+rs]
		switch region[16] {
		case c05EncNone:
			if rs != ds {
				return nil, false
			}
			payload = append(payload, raw...)
		case c05EncLZ4, c05EncZSTD:
			out, ok := c05Codec(region[16], raw, ds)
			if !ok || len(out) != ds {
				return nil, false
			}
			payload = append(payload, out...)
		default:
			return nil, false
		}
		region = region[c05Header+rs:]
	}
	return payload, true
}

type c05Run struct {
	evs   []c05Ev
	crash bool
	prov  string // provenance oracle verdict ("" = holds / not applicable)
	alloc uint64 // bytes allocated by the first operation (limit cases)
}

// c05Exec applies the ops cyclically until nerr errors were seen or maxops ops ran.
func c05Exec(h *H, path string, stream []byte, ops []c05Op, nerr, maxops, chunk int, measure bool) (res c05Run) {
	defer func() {
		if p := recover(); p != nil {
			res.crash = true
		}
	}()
	under := &c05Under{data: stream, chunk: chunk, r: h.R}
	var rd func(p []byte) (int, error)
	var rdFull func(p []byte) error
	direct := path == "direct"
	if direct {
		r := compress.NewReader(under)
		rd = r.Read
		rdFull = func(p []byte) error { _, err := io.ReadFull(r, p); return err }
	} else {
		pr := proto.NewReader(under)
		pr.EnableCompression()
		rd = pr.Read
		rdFull = pr.ReadFull
	}
	var queue []byte // payload bytes of verified frames consumed but not yet handed out
	provOff := false
	errs := 0
	for i := 0; i < maxops && errs < nerr; i++ {
		op := ops[i%len(ops)]
		buf := make([]byte, op.n)
		o1 := under.off
		var ms1, ms2 runtime.MemStats
		if measure && i == 0 {
			runtime.ReadMemStats(&ms1)
		}
		var n int
		var err error
		if op.full {
			err = rdFull(buf)
			if err == nil {
				n = op.n
			}
		} else {
			n, err = rd(buf)
		}
		if measure && i == 0 {
			runtime.ReadMemStats(&ms2)
			res.alloc = ms2.TotalAlloc - ms1.TotalAlloc
		}
		o2 := under.off
		if err != nil {
			errs++
			res.evs = append(res.evs, c05Ev{err: c05ErrClass(err)})
			if n > 0 && !op.full && res.prov == "" {
				res.prov = fmt.Sprintf("op %d returned %d bytes together with an error", i, n)
			}
		} else if n > 0 {
			if k := len(res.evs); k > 0 && res.evs[k-1].err == "" {
				res.evs[k-1].data = append(res.evs[k-1].data, buf[:n]...)
			} else {
				res.evs = append(res.evs, c05Ev{data: append([]byte{}, buf[:n]...)})
			}
		}
		// provenance: on the direct path, where consumption is visible.  A failed io.ReadFull
		// drops an unknown part of what it had read: tracking stops there.
		if direct && op.full && err != nil {
			provOff = true
		}
		if direct && !provOff && res.prov == "" {
			if err == nil {
				if pl, ok := c05Verified(stream[o1:o2]); ok {
					queue = append(queue, pl...)
				} else if o2 > o1 {
					res.prov = fmt.Sprintf("op %d succeeded after consuming bytes %d..%d that are not a run of verified frames", i, o1, o2)
				}
			}
			if n > 0 && res.prov == "" {
				if n > len(queue) || !bytes.Equal(buf[:n], queue[:n]) {
					res.prov = fmt.Sprintf("op %d handed out %d bytes that do not continue the payloads of verified frames (consumed %d..%d)", i, n, o1, o2)
				} else {
					queue = queue[n:]
				}
			}
		}
	}
	return res
}

func c05Obs(r c05Run) string {
	if r.crash {
		return "crash"
	}
	xs := []string{"ok"}
	for _, e := range r.evs {
		if e.err == "" {
			xs = append(xs, sx("d", hx(e.data)))
		} else if e.err == "ueof" || e.err == "other" {
			// a codec may itself fail with io.ErrUnexpectedEOF: only clean end of stream and the
			// corruption error are told apart from "some other error"
			xs = append(xs, sx("e", "err"))
		} else {
			xs = append(xs, sx("e", e.err))
		}
	}
	return strings.Join(xs, " ")
}

// ---- expectations (the direct oracle for structured streams) -----------------------

// c05Seg is one stretch of a generated stream together with what the property demands of it.
type c05Seg struct {
	bytes   []byte
	payload []byte // good frame: its payload
	want    string // "" good frame | "corrupt" (lengths intact) | "error" (some error, then unknown) | "eofclass" (truncated tail) | "any"
}

// c05Expect compares the observed events of single Reads with the property:
// payloads of good frames in order, an error at every bad stretch, clean eof at the end.
func c05Expect(segs []c05Seg, evs []c05Ev, nerr int) string {
	type want struct {
		data []byte
		err  string
	}
	var ws []want
	open := true // everything up to here is determined
	for _, s := range segs {
		if !open {
			break
		}
		switch s.want {
		case "":
			if len(s.payload) == 0 {
				continue
			}
			if k := len(ws); k > 0 && ws[k-1].err == "" {
				ws[k-1].data = append(ws[k-1].data, s.payload...)
			} else {
				ws = append(ws, want{data: append([]byte{}, s.payload...)})
			}
		case "corrupt":
			body := s.bytes[16:]
			hh := city.CH128(body)
			ws = append(ws, want{err: fmt.Sprintf("corrupt %d %d %d %d %d %d", hh.Low, hh.High,
				binary.LittleEndian.Uint64(s.bytes), binary.LittleEndian.Uint64(s.bytes[8:]),
				len(s.bytes)-c05Header, int(binary.LittleEndian.Uint32(s.bytes[21:])))})
		case "any": // nothing is known from here on (the provenance oracle still applies)
			open = false
		case "error":
			ws = append(ws, want{err: "anyerror"})
			open = false
		case "eofclass":
			ws = append(ws, want{err: "eofclass"})
		}
	}
	if open {
		ws = append(ws, want{err: "eof"})
	}
	i := 0
	errsSeen := 0
	for wi, w := range ws {
		if errsSeen >= nerr {
			return ""
		}
		if i >= len(evs) {
			return fmt.Sprintf("reads ended before event %d (%s)", i, w.err)
		}
		e := evs[i]
		if w.err == "" {
			if e.err != "" {
				return fmt.Sprintf("event %d: error %q where %d payload bytes were due", i, e.err, len(w.data))
			}
			last := wi == len(ws)-1 && !open
			if !bytes.Equal(e.data, w.data) && !(last && bytes.HasPrefix(e.data, w.data)) {
				return fmt.Sprintf("event %d: handed out %d bytes that differ from the %d payload bytes due", i, len(e.data), len(w.data))
			}
		} else {
			if e.err == "" {
				return fmt.Sprintf("event %d: %d bytes handed out where an error (%s) was due: not rejected", i, len(e.data), w.err)
			}
			errsSeen++
			switch w.err {
			case "anyerror":
			case "eofclass":
				if e.err != "eof" && e.err != "ueof" {
					return fmt.Sprintf("event %d: truncated input answered with %q", i, e.err)
				}
			default:
				got, due := e.err, w.err
				if strings.HasPrefix(due, "corrupt ") && strings.HasPrefix(got, "corrupt ") {
					// the property speaks about the two checksums; the sizes in the error are
					// compared with the model only
					got = strings.Join(strings.Fields(got)[:5], " ")
					due = strings.Join(strings.Fields(due)[:5], " ")
				}
				if got != due {
					return fmt.Sprintf("event %d: error %q, due %q", i, e.err, w.err)
				}
			}
		}
		i++
	}
	if open {
		// after the clean end of stream nothing but end of stream
		for ; i < len(evs); i++ {
			if evs[i].err != "eof" {
				if evs[i].err == "" {
					return fmt.Sprintf("event %d: %d bytes handed out after the end of the stream", i, len(evs[i].data))
				}
				return fmt.Sprintf("event %d: %q after the end of the stream", i, evs[i].err)
			}
		}
	}
	return ""
}

func c05Concat(segs []c05Seg) []byte {
	var b []byte
	for _, s := range segs {
		b = append(b, s.bytes...)
	}
	return b
}

// c05EmitRd runs one rd case on one path and emits it.
func c05EmitRd(h *H, path string, segs []c05Seg, ops []c05Op, nerr, chunk int, tag string) {
	stream := c05Concat(segs)
	total := len(stream)
	for _, sg := range segs {
		total += len(sg.payload)
	}
	maxops := c05Maxops(ops, total, len(segs), nerr)
	hs, zs := c05Tables(stream)
	res := c05Exec(h, path, stream, ops, nerr, maxops, chunk, false)
	oracle := "ok"
	allReads := true
	for _, o := range ops {
		if o.full {
			allReads = false
		}
	}
	if res.crash {
		oracle = "FAIL:panic in the reader " + tag
	} else if res.prov != "" {
		oracle = "FAIL:" + tag + " " + res.prov
	} else if allReads {
		if msg := c05Expect(segs, res.evs, nerr); msg != "" {
			oracle = "FAIL:" + tag + " " + msg
		}
	} else {
		// io.ReadFull drops what it read before an error: only prefix / rejection checks
		var want []byte
		clean, unknown := true, false
		for _, s := range segs {
			if s.want != "" {
				clean = false
				unknown = s.want == "any"
				break
			}
			want = append(want, s.payload...)
		}
		var got []byte
		for _, e := range res.evs {
			if e.err == "" {
				got = append(got, e.data...)
			} else if clean && e.err != "eof" {
				oracle = "FAIL:" + tag + " error " + e.err + " on a clean stream"
			} else if !clean {
				break
			}
		}
		if !bytes.HasPrefix(want, got) && clean {
			oracle = "FAIL:" + tag + " ReadFull handed out bytes that are not a prefix of the payloads"
		}
		if !clean && !unknown && len(got) > len(want) {
			// data beyond the good prefix before the first error
			oracle = "FAIL:" + tag + " bytes handed out past the last good frame before any error"
		}
	}
	c := fmt.Sprintf("rd %s %s %s %d %d %s %s", path, hx(stream), c05OpsSx(ops), nerr, maxops, hs, zs)
	h.Emit(c, c05Obs(res), oracle)
	h.Stat("rd." + path)
	h.Stat("rd.kind." + strings.SplitN(tag, " ", 2)[0])
}

func c05Schedule(r *rand.Rand, total int) []c05Op {
	switch r.Intn(9) {
	case 0:
		return []c05Op{{false, 1}}
	case 1:
		return []c05Op{{false, 2}, {false, 3}}
	case 2:
		return []c05Op{{false, total + 1 + r.Intn(8)}}
	case 3:
		return []c05Op{{false, 1 + r.Intn(total+1)}}
	case 4:
		return []c05Op{{false, 4096}}
	case 5:
		n := 1 + r.Intn(4)
		ops := make([]c05Op, n)
		for i := range ops {
			ops[i] = c05Op{false, 1 + r.Intn(17)}
		}
		return ops
	case 6:
		return []c05Op{{false, 0}, {false, 1 + r.Intn(9)}}
	case 7:
		return []c05Op{{true, 1 + r.Intn(9)}}
	default:
		return []c05Op{{true, 1 + r.Intn(5)}, {false, 1 + r.Intn(5)}, {true, 0}}
	}
}

func c05Maxops(ops []c05Op, total, frames, nerr int) int {
	minp := 1 << 30
	for _, o := range ops {
		if o.n > 0 && o.n < minp {
			minp = o.n
		}
	}
	if minp == 1<<30 {
		minp = 1
	}
	m := (total/minp + frames + nerr + 4) * len(ops)
	if m > 100000 {
		m = 100000
	}
	return m
}

func c05Paths(i int) []string {
	if i%3 == 0 {
		return []string{"direct", "proto"}
	}
	if i%3 == 1 {
		return []string{"direct"}
	}
	return []string{"proto"}
}

func c05SetSum(f []byte) {
	h := city.CH128(f[16:])
	binary.LittleEndian.PutUint64(f[0:], h.Low)
	binary.LittleEndian.PutUint64(f[8:], h.High)
}

// ---- the family -------------------------------------------------------------------

func runC05(h *H) {
	r := h.R
	ws := c05Writers{}
	thorough := h.Tier == "thorough"
	budget := h.N

	// E. size fields at and beyond the limits.  First, in ascending order of the sizes, every result
	// flushed: an implementation that allocates what a hostile header asks for may abort the process.
	c05Limits(h, ws)

	// A. Writer: frame construction at every payload length
	var lens []int
	if thorough {
		for n := 0; n <= 4096; n++ {
			lens = append(lens, n)
		}
	} else {
		for n := 0; n <= 72; n++ {
			lens = append(lens, n)
		}
		for n := 73 + int(h.Seed%7); n <= 4096; n += 7 {
			lens = append(lens, n)
		}
		lens = append(lens, 127, 128, 129, 254, 255, 256, 257, 509, 510, 511, 512, 1023, 1024, 1025, 2047, 2048, 4095, 4096)
	}
	lens = append(lens, 4097, 16383, 16384, 65535, 65536)
	nWr := 0
	for i, n := range lens {
		var specs []c05Spec
		if thorough {
			specs = []c05Spec{{compress.None, 0}, {compress.LZ4, 0}, {compress.LZ4HC, compress.Level(i % 14)}, {compress.ZSTD, 0}}
		} else {
			all := []c05Spec{{compress.None, 0}, {compress.LZ4, 0}, {compress.LZ4HC, compress.Level(i % 14)}, {compress.ZSTD, 0}}
			specs = []c05Spec{all[i%4], all[(i+1+i/4)%4]}
		}
		for j, s := range specs {
			if nWr >= budget/3 && !thorough {
				break
			}
			nWr++
			p := c05Payload(r, n, i+j)
			c05EmitWr(h, ws, s, p, (i+j)%5 == 0)
		}
	}
	// LZ4HC at every level (0 = default 9, > 12 clamped)
	for lvl := 0; lvl <= 14; lvl++ {
		for _, n := range []int{0, 1, 13, 64, 700, 4096} {
			c05EmitWr(h, ws, c05Spec{compress.LZ4HC, compress.Level(lvl)}, c05Payload(r, n, lvl+n), lvl%2 == 0)
		}
	}
	c05EmitWr(h, ws, c05Spec{compress.LZ4HC, compress.Level(1 << 31)}, c05Payload(r, 100, 0), true)

	// big payloads: the implementation and the direct oracle only (not run through the model)
	bigs := []int{256 << 10, 1 << 20, 3<<20 + 17}
	if thorough {
		bigs = append(bigs, 4<<20, 8<<20)
	}
	for i, n := range bigs {
		for k, s := range []c05Spec{{compress.None, 0}, {compress.LZ4, 0}, {compress.LZ4HC, 3}, {compress.ZSTD, 0}} {
			c05Big(h, s, c05Payload(r, n, i+k), i+k)
		}
	}

	// mixed payloads: mostly incompressible with a short compressible stretch at the end, in the middle or at the start (a
	// block of opaque blobs whose last column is small and constant): where an encoder's output-size estimate is tight
	for i := 0; i < 48; i++ {
		n := []int{4096, 20000, 700, 65536}[i%4]
		p := make([]byte, n)
		r.Read(p)
		z := 16 + r.Intn(80)
		var q []byte
		switch i % 3 {
		case 0:
			q = append(p, make([]byte, z)...)
		case 1:
			q = append(append(append([]byte{}, p[:n/2]...), make([]byte, z)...), p[n/2:]...)
		default:
			q = append(make([]byte, z), p...)
		}
		for k, sp := range []c05Spec{{compress.LZ4, 0}, {compress.LZ4HC, 0}, {compress.LZ4HC, 1}, {compress.LZ4HC, 12}, {compress.ZSTD, 0}} {
			c05Big(h, sp, q, i+k)
		}
	}

	// the client reading compressed Data blocks from a scripted server (query.go re-export)
	c05Client(h)

	rest := budget - h.Count
	if rest < 200 {
		rest = 200
	}

	// B. clean frame sequences x read schedules x both paths
	for i := 0; i < rest/8; i++ {
		nf := 1 + r.Intn(5)
		var segs []c05Seg
		total := 0
		for k := 0; k < nf; k++ {
			n := c05AnyLen(r)
			if i%11 != 0 && n > 4200 {
				n = r.Intn(300)
			}
			p := c05Payload(r, n, r.Intn(3))
			f, err := ws.frame(c05RandSpec(r), p, r.Intn(4) == 0)
			if err != nil {
				panic(err)
			}
			segs = append(segs, c05Seg{bytes: f, payload: p})
			total += n
		}
		ops := c05Schedule(r, total)
		if total > 5000 {
			ops = []c05Op{{r.Intn(3) == 0, 700 + r.Intn(5000)}}
		} else if total > 400 && !(thorough && i%4 == 0) && i%97 != 0 {
			// byte-sized reads over long payloads cost the model quadratic time: keep a few
			minp := 1 << 30
			for _, o := range ops {
				if o.n > 0 && o.n < minp {
					minp = o.n
				}
			}
			if total/minp > 150 {
				ops = []c05Op{{r.Intn(4) == 0, total/(10+r.Intn(120)) + 1}, {false, 1 + r.Intn(total)}}
			}
		}
		nerr := 3
		chunk := []int{0, 0, 1, 7, 64}[r.Intn(5)]
		for _, path := range c05Paths(i) {
			c05EmitRd(h, path, segs, ops, nerr, chunk, "clean")
		}
	}

	// C. every single-byte alteration at every offset of small frames
	nAlt := 0
	for round := 0; nAlt < rest*4/8; round++ {
		s := []c05Spec{{compress.None, 0}, {compress.LZ4, 0}, {compress.LZ4HC, compress.Level(round % 13)}, {compress.ZSTD, 0}}[round%4]
		n := c05SmallLen(r)
		if round%9 == 8 {
			n = 60 + r.Intn(200)
		}
		p := c05Payload(r, n, round/4)
		f, err := ws.frame(s, p, round%5 == 0)
		if err != nil {
			panic(err)
		}
		var pre, post []c05Seg
		if round%2 == 1 {
			pp := c05Payload(r, c05SmallLen(r), r.Intn(3))
			pf, _ := ws.frame(c05RandSpec(r), pp, false)
			pre = []c05Seg{{bytes: pf, payload: pp}}
		}
		if round%3 != 0 {
			pp := c05Payload(r, 1+c05SmallLen(r), r.Intn(3))
			pf, _ := ws.frame(c05RandSpec(r), pp, false)
			post = []c05Seg{{bytes: pf, payload: pp}}
		}
		for off := 0; off < len(f); off++ {
			if len(f) > 110 && off >= c05Header+8 && off < len(f)-8 && r.Intn(6) != 0 {
				continue // long frames: header, both ends and a sample of the middle
			}
			vals := []byte{f[off] + 1}
			if round%2 == 0 {
				vals = append(vals, f[off]^0x80)
			}
			if round%4 == 0 {
				v := byte(r.Intn(256))
				if v != f[off] && v != vals[0] {
					vals = append(vals, v)
				}
			}
			for _, v := range vals {
				g := append([]byte{}, f...)
				g[off] = v
				want := "corrupt"
				if off >= 17 && off < 25 {
					want = "error"
				}
				segs := append(append(append([]c05Seg{}, pre...), c05Seg{bytes: g, want: want}), post...)
				total := len(p) + 80
				ops := []c05Op{{false, 1 + r.Intn(total)}}
				if nAlt%5 == 0 {
					ops = c05Schedule(r, total)
				}
				path := "direct"
				if nAlt%4 == 3 {
					path = "proto"
				}
				nerr := 4
				c05EmitRd(h, path, segs, ops, nerr, []int{0, 0, 3}[nAlt%3], fmt.Sprintf("alter off=%d", off))
				nAlt++
			}
		}
	}

	// D. every proper prefix of short streams
	nCut := 0
	for round := 0; nCut < rest/8; round++ {
		nf := 1 + round%3
		var segs []c05Seg
		for k := 0; k < nf; k++ {
			p := c05Payload(r, c05SmallLen(r), r.Intn(3))
			f, _ := ws.frame(c05RandSpec(r), p, false)
			segs = append(segs, c05Seg{bytes: f, payload: p})
		}
		last := segs[nf-1]
		for cut := 0; cut < len(last.bytes); cut++ {
			cs := append(append([]c05Seg{}, segs[:nf-1]...), c05Seg{bytes: last.bytes[:cut], want: "eofclass"})
			if cut == 0 {
				cs = cs[:nf-1]
			}
			ops := []c05Op{{false, 1 + r.Intn(64)}}
			path := "direct"
			if nCut%3 == 2 {
				path = "proto"
			}
			c05EmitRd(h, path, cs, ops, 3, []int{0, 2}[nCut%2], fmt.Sprintf("cut at=%d", cut))
			nCut++
		}
	}

	// F. malformed streams: field-targeted mutations with the checksum recomputed, splices, noise
	for i := 0; i < rest/8; i++ {
		c05Malformed(h, ws, i)
	}
}

func c05EmitWr(h *H, ws c05Writers, s c05Spec, p []byte, fresh bool) {
	f, err := ws.frame(s, p, fresh)
	name := c05MethodSym(s.m)
	if err != nil {
		h.Emit(fmt.Sprintf("wr %s %d %s x (0 0) -", name, uint32(s.level), hx(p)), "err", "FAIL:Compress failed: "+err.Error())
		return
	}
	hh := city.CH128(f[16:])
	z := "-"
	if s.m != compress.None {
		z = "e"
		if out, ok := c05Codec(f[16], f[c05Header:], len(p)); ok {
			z = hx(out)
		}
	}
	// direct oracle: the frame decompresses to exactly the payload, then clean end of stream
	oracle := "ok"
	got, rerr := io.ReadAll(compress.NewReader(bytes.NewReader(f)))
	switch {
	case !bytes.Equal(got, p):
		oracle = fmt.Sprintf("FAIL:round trip %s len=%d: got %d bytes, differ", name, len(p), len(got))
	case rerr == nil || !errors.Is(rerr, io.EOF):
		oracle = fmt.Sprintf("FAIL:round trip %s len=%d: stream did not end with EOF: %v", name, len(p), rerr)
	}
	h.Emit(fmt.Sprintf("wr %s %d %s %s (%d %d) %s", name, uint32(s.level), hx(p), hx(f), hh.Low, hh.High, z), "ok "+hx(f), oracle)
	h.Stat("wr." + name)
}

func c05Big(h *H, s c05Spec, p []byte, i int) {
	name := c05MethodSym(s.m)
	w := compress.NewWriter(s.level, s.m)
	oracle := "ok"
	if err := w.Compress(p); err != nil {
		oracle = "FAIL:Compress failed: " + err.Error()
	} else {
		f := append(append([]byte{}, w.Data...), w.Data...) // the frame twice
		rd := compress.NewReader(&c05Under{data: f, chunk: []int{0, 4096, 100000}[i%3], r: h.R})
		buf := make([]byte, []int{1 << 16, 1<<20 + 1, 4099}[i%3])
		var got []byte
		var rerr error
		for {
			n, err := rd.Read(buf)
			got = append(got, buf[:n]...)
			if err != nil {
				rerr = err
				break
			}
		}
		if len(got) != 2*len(p) || !bytes.Equal(got[:len(p)], p) || !bytes.Equal(got[len(p):], p) {
			oracle = fmt.Sprintf("FAIL:round trip big %s len=%d: got %d bytes", name, len(p), len(got))
		} else if !errors.Is(rerr, io.EOF) {
			oracle = fmt.Sprintf("FAIL:round trip big %s: ended with %v", name, rerr)
		} else {
			// one flipped byte far inside
			g := append([]byte{}, w.Data...)
			g[len(g)/2] ^= 0x10
			n, err := compress.NewReader(bytes.NewReader(g)).Read(buf)
			var bad *compress.CorruptedDataErr
			if err == nil || n != 0 || !errors.As(err, &bad) {
				oracle = fmt.Sprintf("FAIL:big %s frame with a flipped byte: n=%d err=%v", name, n, err)
			}
		}
	}
	h.Emit(fmt.Sprintf("big %s %d kind=%d", name, len(p), i%3), "-", oracle)
	h.Stat("big." + name)
}

func c05Header25(mb byte, rsField, ds uint32) []byte {
	f := make([]byte, c05Header)
	f[16] = mb
	binary.LittleEndian.PutUint32(f[17:], rsField)
	binary.LittleEndian.PutUint32(f[21:], ds)
	return f
}

func c05Limits(h *H, ws c05Writers) {
	r := h.R
	good := c05Payload(r, 9, 0)
	gf, _ := ws.frame(c05Spec{compress.LZ4, 0}, good, false)
	type lim struct {
		rs, ds uint32
		over   bool
	}
	var cases []lim
	for _, ds := range []uint32{c05MaxData - 1, c05MaxData, c05MaxData + 1, c05MaxData + 2, 1<<28 - 1, 1 << 28, 1<<31 - 1, 1 << 31, 1<<31 + 1, 1<<32 - 1} {
		cases = append(cases, lim{9 + 5, ds, ds > c05MaxData})
	}
	for _, rs := range []uint32{0, 1, 8, 9, 10, c05MaxBlock + 8, c05MaxBlock + 9, c05MaxBlock + 10, c05MaxBlock + 11, 1 << 28, 1<<31 - 1, 1 << 31, 1<<31 + 8, 1<<31 + 9, 1<<32 - 1} {
		cases = append(cases, lim{rs, 5, rs < 9 || rs > c05MaxBlock+9})
	}
	cases = append(cases, lim{1<<32 - 1, 1<<32 - 1, true}, lim{c05MaxBlock + 9, c05MaxData, false}, lim{c05MaxBlock + 10, c05MaxData + 1, true})
	// one field just beyond its limit while the OTHER sits at or just under its own (a bound that is relative to the
	// other field is widest there)
	cases = append(cases, lim{c05MaxBlock + 10, c05MaxData, true}, lim{c05MaxBlock + 10, c05MaxData - 1, true},
		lim{c05MaxBlock + 9 + 4096, c05MaxData - 7, true}, lim{c05MaxBlock + 9 + 500000, c05MaxData, true}, lim{c05MaxBlock + 9, c05MaxData + 1, true})
	sort.SliceStable(cases, func(a, b int) bool {
		return uint64(cases[a].rs)+uint64(cases[a].ds) < uint64(cases[b].rs)+uint64(cases[b].ds)
	})
	allocFails := 0
	// probes first: the smallest over-limit requests, one Read each, nothing read after the error
	for _, c := range []lim{{14, c05MaxData + 1, true}, {c05MaxBlock + 10, 5, true}, {14, c05MaxData + 4096, true}} {
		stream := c05Header25(c05EncNone, c.rs, c.ds)
		ops := []c05Op{{false, 16}}
		res := c05Exec(h, "direct", stream, ops, 1, 1, 0, true)
		oracle := "ok"
		switch {
		case res.crash:
			oracle = "FAIL:limit panic"
		case len(res.evs) == 0 || res.evs[0].err == "":
			oracle = fmt.Sprintf("FAIL:limit rawsize-field=%d datasize-field=%d beyond the limits not rejected", c.rs, c.ds)
		case res.alloc > 4<<20:
			oracle = fmt.Sprintf("FAIL:limit rawsize-field=%d datasize-field=%d rejected only after allocating %d bytes", c.rs, c.ds, res.alloc)
			allocFails += 2
		}
		h.Emit(fmt.Sprintf("rd direct %s %s 1 1 () ()", hx(stream), c05OpsSx(ops)), c05Obs(res), oracle)
		h.Stat("rd.kind.limit")
		_ = h.out.Flush()
		debug.FreeOSMemory()
	}
	for i, c := range cases {
		if allocFails >= 4 && c.over {
			// the implementation allocates what over-limit headers ask for: established; do not
			// go on to the multi-GiB requests, which would only abort the process
			h.Stat("rd.kind.limit.skipped")
			continue
		}
		for _, mb := range []byte{c05EncNone, c05EncLZ4, c05EncZSTD}[i%3 : i%3+1] {
			hd := c05Header25(mb, c.rs, c.ds)
			tail := c05Payload(r, 5+r.Intn(30), 1)
			body := append(append([]byte{}, hd...), tail...)
			if i%2 == 0 {
				c05SetSum(body[:c05Header+c05Min(len(tail), c05Max(int(c.rs)-9, 0))])
			}
			stream := append(append([]byte{}, body...), gf...)
			for _, path := range []string{"direct", "proto"} {
				ops := []c05Op{{false, 64}}
				hs, zs := c05Tables(stream)
				_ = h.out.Flush() // an unbounded allocation would abort the process: keep what was found so far
				res := c05Exec(h, path, stream, ops, 3, 8, 0, true)
				oracle := "ok"
				first := ""
				if len(res.evs) > 0 {
					first = res.evs[0].err
				}
				switch {
				case res.crash:
					oracle = "FAIL:limit panic"
				case c.over && first == "":
					oracle = fmt.Sprintf("FAIL:limit rawsize-field=%d datasize-field=%d beyond the limits not rejected", c.rs, c.ds)
				case c.over && res.alloc > 4<<20:
					oracle = fmt.Sprintf("FAIL:limit rawsize-field=%d datasize-field=%d rejected only after allocating %d bytes", c.rs, c.ds, res.alloc)
					allocFails++
				case res.prov != "":
					oracle = "FAIL:limit " + res.prov
				}
				h.Emit(fmt.Sprintf("rd %s %s %s %d %d %s %s", path, hx(stream), c05OpsSx(ops), 3, 8, hs, zs), c05Obs(res), oracle)
				h.Stat("rd.kind.limit")
				_ = h.out.Flush()
				if res.alloc > 64<<20 {
					debug.FreeOSMemory()
				}
			}
		}
	}
}

func c05Min(a, b int) int {
	if a < b {
		return a
	}
	return b
}
func c05Max(a, b int) int {
	if a > b {
		return a
	}
	return b
}

// c05Malformed: streams the writer never produces.  The expectation is only the provenance
// oracle (and no panic), plus the correspondence with the model.
func c05Malformed(h *H, ws c05Writers, i int) {
	r := h.R
	var segs []c05Seg
	mk := func() ([]byte, []byte) {
		p := c05Payload(r, c05SmallLen(r), r.Intn(3))
		f, _ := ws.frame(c05RandSpec(r), p, false)
		return f, p
	}
	tag := "malformed"
	switch i % 8 {
	case 0: // lying data size, checksum recomputed
		f, _ := mk()
		ds := binary.LittleEndian.Uint32(f[21:])
		binary.LittleEndian.PutUint32(f[21:], uint32(int(ds)+[]int{-1, 1, 2, 100, -int(ds), 70000}[r.Intn(6)]))
		c05SetSum(f)
		segs = append(segs, c05Seg{bytes: f, want: "any"})
		tag = "malformed datasize"
	case 1: // lying raw size (shorter: the frame ends early; longer: swallows what follows), checksum recomputed over the new extent
		f, _ := mk()
		g, _ := mk()
		all := append(append([]byte{}, f...), g...)
		rs := int(binary.LittleEndian.Uint32(all[17:])) - 9
		nrs := rs + []int{-1, 1, 3, -rs}[r.Intn(4)]
		if nrs < 0 {
			nrs = 0
		}
		if c05Header+nrs > len(all) {
			nrs = len(all) - c05Header
		}
		binary.LittleEndian.PutUint32(all[17:], uint32(nrs+9))
		c05SetSum(all[:c05Header+nrs])
		segs = append(segs, c05Seg{bytes: all, want: "any"})
		tag = "malformed rawsize"
	case 2: // another method byte, checksum recomputed
		f, _ := mk()
		f[16] = []byte{c05EncNone, c05EncLZ4, c05EncZSTD, 0x00, 0x01, 0x03, 0x81, 0x83, 0x91, 0xff, byte(r.Intn(256))}[r.Intn(11)]
		c05SetSum(f)
		segs = append(segs, c05Seg{bytes: f, want: "any"})
		tag = "malformed method"
	case 3: // payload bytes changed, checksum recomputed: the codec has to cope
		f, _ := mk()
		if len(f) > c05Header {
			f[c05Header+r.Intn(len(f)-c05Header)] ^= byte(1 << uint(r.Intn(8)))
		}
		c05SetSum(f)
		segs = append(segs, c05Seg{bytes: f, want: "any"})
		tag = "malformed payload"
	case 4: // noise
		b := make([]byte, r.Intn(90))
		r.Read(b)
		segs = append(segs, c05Seg{bytes: b, want: "any"})
		tag = "malformed noise"
	case 5: // small size fields over noise
		b := make([]byte, c05Header+r.Intn(60))
		r.Read(b)
		binary.LittleEndian.PutUint32(b[17:], uint32(9+r.Intn(40)))
		binary.LittleEndian.PutUint32(b[21:], uint32(r.Intn(40)))
		if r.Intn(2) == 0 {
			b[16] = []byte{c05EncNone, c05EncLZ4, c05EncZSTD}[r.Intn(3)]
			rs := int(binary.LittleEndian.Uint32(b[17:])) - 9
			if c05Header+rs <= len(b) {
				c05SetSum(b[:c05Header+rs])
			}
		}
		segs = append(segs, c05Seg{bytes: b, want: "any"})
		tag = "malformed header"
	case 6: // a frame spliced into the middle of another
		f, _ := mk()
		g, _ := mk()
		k := r.Intn(len(f) + 1)
		b := append(append(append([]byte{}, f[:k]...), g...), f[k:]...)
		segs = append(segs, c05Seg{bytes: b, want: "any"})
		tag = "malformed splice"
	default: // a hand-made None frame (what a foreign writer would send)
		p := c05Payload(r, c05SmallLen(r), r.Intn(3))
		f := append(c05Header25(c05EncNone, uint32(len(p)+9), uint32(len(p))), p...)
		c05SetSum(f)
		segs = append(segs, c05Seg{bytes: f, payload: p})
		tag = "malformed foreign-none"
	}
	// good frames around it
	if r.Intn(2) == 0 {
		f, p := mk()
		segs = append([]c05Seg{{bytes: f, payload: p}}, segs...)
	}
	if r.Intn(3) != 0 {
		f, p := mk()
		segs = append(segs, c05Seg{bytes: f, payload: p})
	}
	ops := c05Schedule(r, 60)
	path := []string{"direct", "proto"}[i%2]
	nerr := 4
	c05EmitRd(h, path, segs, ops, nerr, []int{0, 1, 5}[i%3], tag)
}
