package main

// C15: two corners of "identical decode results in both builds".
//  - zero rows on a reader with a history: Array(T) columns whose arrays are all empty make the element column decode 0
//    rows right after other data went through the same proto.Reader (block decoding skips 0-row columns, wrappers do not);
//  - Bool bytes other than 0 and 1: the builds differ in what they ACCEPT (documented: the default build keeps the byte,
//    the pure-Go build rejects it), which is outside the property; what both accept must decode and re-encode alike.
// Observations are compared between the two builds by checks/c15.py.

import (
	"bytes"
	"fmt"

	"github.com/ClickHouse/ch-go/proto"
)

func init() { runners["c15x"] = runC15X }

func runC15X(h *H) {
	elems := []string{"Bool", "UUID", "UInt8", "Int64", "String", "FixedString(8)", "Enum8('a' = 1, 'b' = 2)", "Date", "IPv6", "Int256", "Float32", "Nullable(UInt16)"}
	for _, el := range elems {
		for _, rows := range []int{1, 3, 17} {
			typ := "Array(" + el + ")"
			caseLine := fmt.Sprintf("emptyarr %s rows=%d", typ, rows)
			obs, oracle := func() (obs, oracle string) {
				defer func() {
					if p := recover(); p != nil {
						obs, oracle = "crash", fmt.Sprintf("FAIL:%s with %d empty arrays, decoded after other data on the same reader: panic: %v", typ, rows, p)
					}
				}()
				s := c14ColSpec{typ: typ}
				col, err := s.build()
				if err != nil {
					return "-", "-"
				}
				// the stream: three UInt64 values of another column, then the offsets of `rows` empty arrays, then a tail
				var in proto.Buffer
				for i := 0; i < 3; i++ {
					in.PutUInt64(0x0101010101010101 * uint64(i+2))
				}
				for i := 0; i < rows; i++ {
					in.PutUInt64(0)
				}
				in.PutRaw([]byte{0xEE, 0xEE})
				r := proto.NewReader(bytes.NewReader(in.Buf))
				var first proto.ColUInt64
				if err := first.DecodeColumn(r, 3); err != nil {
					return "-", "-"
				}
				if err := col.DecodeColumn(r, rows); err != nil {
					return "err", fmt.Sprintf("FAIL:%s with %d empty arrays is rejected after other data on the same reader: %v", typ, rows, err)
				}
				rest := make([]byte, 8)
				n, _ := r.Read(rest)
				_, d, derr := colDump(col)
				if derr != nil {
					d = "?"
				}
				obs = fmt.Sprintf("ok rows=%d left=%d %s", col.Rows(), n, d)
				if col.Rows() != rows || n != 2 || !rowsReadable(col) {
					return obs, fmt.Sprintf("FAIL:%s with %d empty arrays decoded after other data: Rows()=%d, %d bytes left of 2, rows readable=%v", typ, rows, col.Rows(), n, rowsReadable(col))
				}
				var re proto.Buffer
				col.EncodeColumn(&re)
				if !bytes.Equal(re.Buf, in.Buf[24:24+8*rows]) {
					return obs, fmt.Sprintf("FAIL:%s with %d empty arrays does not re-encode to its bytes (element column holds phantom rows?)", typ, rows)
				}
				return obs, "ok"
			}()
			h.Emit(caseLine, obs, oracle)
			h.Stat("c15x.emptyarr")
		}
	}
	// Bool bytes other than 0/1
	for i := 0; i < 40; i++ {
		n := 1 + h.R.Intn(9)
		raw := make([]byte, n)
		for k := range raw {
			raw[k] = []byte{0, 1, 1, 0, 2, 3, 128, 255, byte(h.R.Intn(256))}[h.R.Intn(9)]
		}
		obs := func() (obs string) {
			defer func() {
				if p := recover(); p != nil {
					obs = "crash"
				}
			}()
			var c proto.ColBool
			if err := c.DecodeColumn(proto.NewReader(bytes.NewReader(raw)), n); err != nil {
				return "rej"
			}
			var re proto.Buffer
			c.EncodeColumn(&re)
			vals := ""
			for k := 0; k < c.Rows(); k++ {
				if c.Row(k) {
					vals += "t"
				} else {
					vals += "f"
				}
			}
			return "acc " + vals + " " + hx(re.Buf)
		}()
		oracle := "ok"
		if obs == "crash" {
			oracle = "FAIL:decoding Bool bytes " + hx(raw) + " panicked"
		}
		h.Emit("boolnc "+hx(raw), obs, oracle)
		h.Stat("c15x.boolnc")
	}
}
