package main

// C11 — a pooled connection has one holder; dead or expired ones are never reissued.
//
// The real chpool.Pool runs against the scripted in-memory server of c11srv.go.
//
// Family c11 (sequential): operation sequences from the model's alphabet
//
//	pool <id> <MaxConns> <MinConns> <lifetime> <idletime> (<New's dials: t f ...>) ((acq t) (do 0 cut t) (rel 0) ... (close))
//
// are run one operation at a time; after each the harness waits until the goroutines puddle started
// have finished and prints what the model prints: outcome, resource (= connection id) per handle,
// Stat(), closed connections.  New (createIdleResources) runs with scripted dial outcomes; the dials of the
// goroutines checkMinConns starts wait at a gate (c11srv.go): a tick is reported as (tick k) with the k dials
// that arrived, and each (spawn t|f) lets the oldest of them return, so that other operations - Close
// included - run while creations are in flight.  Untimed sequences (exhaustive to a depth, then random long ones) use
// hour-long lifetimes and no health check; timed sequences run on a slotted real-time schedule
// (operations at (4j+2)q, health check ticks at multiples of the period, thresholds at (4L+1)q) with
// lifetimes, idle times and the background health check in play.  Alongside, a direct oracle judges
// the property on the implementation alone (FAIL:...).
//
// Family c11r (meant for the -race build): the same kinds of operations from N goroutines against a
// pool with short lifetimes and a 2 ms health check; direct oracle only.

import (
	"context"
	"fmt"
	"math/rand"
	"net"
	"os"
	"reflect"
	"runtime"
	"sort"
	"strconv"
	"strings"
	"sync"
	"sync/atomic"
	"time"

	ch "github.com/ClickHouse/ch-go"
	"github.com/ClickHouse/ch-go/chpool"
)

func init() {
	runners["c11"] = runC11
	runners["c11r"] = runC11Race
}

// ---------------------------------------------------------------- reflection (by type, not by name)

var c11NetConnType = reflect.TypeOf((*net.Conn)(nil)).Elem()

func c11Field(v reflect.Value, pred func(reflect.StructField) bool) (reflect.Value, bool) {
	if v.Kind() != reflect.Struct {
		return reflect.Value{}, false
	}
	for i := 0; i < v.NumField(); i++ {
		if pred(v.Type().Field(i)) {
			return v.Field(i), true
		}
	}
	return reflect.Value{}, false
}

// c11ConnOf returns the connection behind a handle: -1 when the handle holds no resource, -2 when the
// structure of chpool.Client is not understood.
func c11ConnOf(c *chpool.Client) (conn *c11Conn, code int) {
	defer func() {
		if recover() != nil {
			conn, code = nil, -2
		}
	}()
	v := reflect.ValueOf(c).Elem()
	res, ok := c11Field(v, func(f reflect.StructField) bool {
		return f.Type.Kind() == reflect.Ptr && strings.HasPrefix(f.Type.Elem().Name(), "Resource[")
	})
	if !ok {
		return nil, -2
	}
	if res.IsNil() {
		return nil, -1
	}
	val, ok := c11Field(res.Elem(), func(f reflect.StructField) bool {
		return f.Type.Kind() == reflect.Ptr && f.Type.Elem().Kind() == reflect.Struct && f.Type.Elem().PkgPath() == v.Type().PkgPath()
	})
	if !ok || val.IsNil() {
		return nil, -2
	}
	cl, ok := c11Field(val.Elem(), func(f reflect.StructField) bool {
		return f.Type == reflect.TypeOf((*ch.Client)(nil))
	})
	if !ok || cl.IsNil() {
		return nil, -2
	}
	nc, ok := c11Field(cl.Elem(), func(f reflect.StructField) bool { return f.Type == c11NetConnType })
	if !ok || nc.IsNil() {
		return nil, -2
	}
	e := nc.Elem()
	if e.Type() != reflect.TypeOf((*c11Conn)(nil)) {
		return nil, -2
	}
	return (*c11Conn)(e.UnsafePointer()), 0
}

// c11PuddleClosed reads puddle's closed flag (after a Stat() call, which takes puddle's mutex).
func c11PuddleClosed(p *chpool.Pool) (closed bool, ok bool) {
	defer func() {
		if recover() != nil {
			closed, ok = false, false
		}
	}()
	_ = p.Stat()
	v := reflect.ValueOf(p).Elem()
	pp, found := c11Field(v, func(f reflect.StructField) bool {
		return f.Type.Kind() == reflect.Ptr && strings.HasPrefix(f.Type.Elem().Name(), "Pool[")
	})
	if !found || pp.IsNil() {
		return false, false
	}
	b, found := c11Field(pp.Elem(), func(f reflect.StructField) bool { return f.Type.Kind() == reflect.Bool })
	if !found {
		return false, false
	}
	return b.Bool(), true
}

// ---------------------------------------------------------------- scripts

type c11Op struct {
	kind string // acq rel do ping pdo pping sleep close spawn
	h    int
	dial bool   // acq / pdo / pping: the dial (if one happens) succeeds; spawn: the dial at the gate succeeds
	req  string // ok exc cut cancel
}

type c11Script struct {
	id       int
	max      int
	min      int    // MinConns
	newDials []bool // outcomes of New's dials (missing = success)
	timed    bool
	lifeU    int // lifetime in units (timed)
	idleU    int
	periodU  int // health check period in units
	ops      []c11Op
	category string
}

const c11Hour = 3600 * 1000 * 4 // model time for "an hour" in quarter units of a millisecond-ish scale

// ---------------------------------------------------------------- one sequential run

type c11Run struct {
	s         c11Script
	env       *c11Env
	p         *chpool.Pool
	handles   []*chpool.Client
	live      []bool
	mustDie   map[int]string
	released  map[int]time.Time // conn id -> when it was last put back (harness clock)
	viol      []string
	groups    []string
	items     []string
	closeCh   chan struct{}
	closing   bool
	q         time.Duration // quarter unit (timed)
	t0        time.Time
	slot      int
	late      bool
	unsettled bool
	window    bool // a cut left the client open (C04's business): not compared
	tok       int
	ghosts    int // creations that completed after Close: puddle keeps counting them as idle
}

func (r *c11Run) fail(format string, a ...any) {
	if len(r.viol) < 6 {
		r.viol = append(r.viol, fmt.Sprintf(format, a...))
	}
}

func (r *c11Run) liveCount() int {
	n := 0
	for _, l := range r.live {
		if l {
			n++
		}
	}
	return n
}

// settle waits until every goroutine puddle started on behalf of this pool has finished: nothing is
// counted as acquired beyond what the harness holds, and every open connection is held or idle.
func (r *c11Run) settle() {
	wait := 2 * time.Second
	if r.unsettled {
		wait = 5 * time.Millisecond // it did not settle before: do not wait long again
	}
	deadline := time.Now().Add(wait)
	for i := 0; ; i++ {
		st := r.p.Stat()
		liveOpen := 0
		for h, l := range r.live {
			if l {
				if c, code := c11ConnOf(r.handles[h]); code == 0 && !c.closed.Load() {
					liveOpen++
				}
			}
		}
		open := r.env.openCount()
		if int(st.AcquiredResources()) == r.liveCount() && open-liveOpen == int(st.IdleResources())-r.ghosts &&
			int(st.ConstructingResources()) == r.env.pendingCount() {
			return
		}
		if time.Now().After(deadline) {
			r.unsettled = true
			r.fail("pool-did-not-settle: Stat acquired=%d idle=%d constructing=%d total=%d, handles held=%d (with open connection %d), open connections=%d, dials at the gate=%d",
				st.AcquiredResources(), st.IdleResources(), st.ConstructingResources(), st.TotalResources(), r.liveCount(), liveOpen, open, r.env.pendingCount())
			return
		}
		if i < 50 {
			runtime.Gosched()
		} else {
			time.Sleep(50 * time.Microsecond)
		}
	}
}

func (r *c11Run) connIDs() map[int]int { // handle -> conn id for every handle that holds a resource
	m := map[int]int{}
	for h, c := range r.handles {
		if c == nil {
			continue
		}
		cc, code := c11ConnOf(c)
		if code == -2 {
			r.fail("harness cannot read chpool.Client (structure changed)")
			continue
		}
		if code == 0 {
			m[h] = cc.id
		}
	}
	return m
}

func (r *c11Run) closedSet() []int {
	var out []int
	for _, c := range r.env.snapshot() {
		if c.closed.Load() {
			out = append(out, c.id)
		}
	}
	return out
}

func (r *c11Run) state(obs string) string {
	ids := r.connIDs()
	var hs []int
	for h := range ids {
		hs = append(hs, h)
	}
	sort.Ints(hs)
	var hb []string
	for _, h := range hs {
		hb = append(hb, fmt.Sprintf("(%d %d)", h, ids[h]))
	}
	st := r.p.Stat()
	var cb []string
	for _, c := range r.closedSet() {
		cb = append(cb, strconv.Itoa(c))
	}
	return fmt.Sprintf("(%s (%s) (%d %d %d %d) (%s))", obs, strings.Join(hb, " "), st.TotalResources(), st.AcquiredResources(), st.IdleResources(), st.ConstructingResources(), strings.Join(cb, " "))
}

// judge evaluates the state-based part of the property after an operation has settled.
func (r *c11Run) judge(what string) {
	ids := r.connIDs()
	seen := map[int]int{}
	for h, l := range r.live {
		if !l {
			continue
		}
		id, ok := ids[h]
		if !ok {
			r.fail("held-handle-lost-its-connection: handle %d after %s", h, what)
			continue
		}
		if o, dup := seen[id]; dup {
			r.fail("two-holders-on-one-connection: handles %d and %d both hold connection #%d after %s", o, h, id, what)
		}
		seen[id] = h
	}
	st := r.p.Stat()
	if int(st.AcquiredResources()) < len(seen) {
		// somebody else's (repeated) Release handed a connection that is in use back to the pool
		r.fail("connection-in-use-not-acquired: %d handles hold connections but the pool counts %d acquired after %s (a held connection was returned to the pool behind its holder's back)", len(seen), st.AcquiredResources(), what)
	}
	if int(st.TotalResources()) > r.s.max {
		r.fail("more-resources-than-max: Stat total=%d MaxConns=%d after %s", st.TotalResources(), r.s.max, what)
	}
	if o := r.env.openCount(); o > r.s.max {
		r.fail("more-open-connections-than-max: %d open, MaxConns=%d after %s", o, r.s.max, what)
	}
	conns := r.env.snapshot()
	for id, why := range r.mustDie {
		if id < len(conns) && !conns[id].closed.Load() {
			r.fail("dead-connection-not-destroyed: connection #%d (%s) is still open after %s", id, why, what)
			delete(r.mustDie, id)
		}
	}
}

func (r *c11Run) ctxFor(cancelTok string) (context.Context, context.CancelFunc) {
	st := r.p.Stat()
	d := 5 * time.Second
	if int(st.AcquiredResources()+st.ConstructingResources()) >= r.s.max {
		d = time.Millisecond // every token is taken (holders, creations in flight): the acquire can only wait
	}
	ctx, cancel := context.WithTimeout(c11Fg(context.Background()), d)
	if cancelTok != "" {
		r.env.cancels.Store(cancelTok, cancel)
	}
	return ctx, cancel
}

func (r *c11Run) query(req string) (ch.Query, string) {
	tok := ""
	body := "c11 " + req
	if req == "cancel" {
		r.tok++
		tok = fmt.Sprintf("t%d_%d", r.s.id, r.tok)
		body = "c11 stall " + tok
	}
	return ch.Query{Body: body}, tok
}

func c11Obs(err error) string {
	if err != nil {
		return "err"
	}
	return "ok"
}

// afterAcquire applies the oracle to a handle that was just handed out.
func (r *c11Run) afterAcquire(h int, c *chpool.Client, what string) {
	cc, code := c11ConnOf(c)
	if code != 0 {
		r.fail("acquired-handle-without-connection after %s", what)
		return
	}
	if cc.closed.Load() {
		r.fail("closed-connection-reissued: %s returned connection #%d, which is closed", what, cc.id)
	}
	if why, bad := r.mustDie[cc.id]; bad {
		r.fail("dead-connection-reissued: %s returned connection #%d (%s)", what, cc.id, why)
	}
	for h2, l := range r.live {
		if l && h2 != h {
			if c2, code2 := c11ConnOf(r.handles[h2]); code2 == 0 && c2 == cc {
				r.fail("two-holders-on-one-connection: %s returned connection #%d, which handle %d holds", what, cc.id, h2)
			}
		}
	}
	delete(r.released, cc.id)
}

func (r *c11Run) expired(c *c11Conn, now time.Time) (bool, bool) { // (certainly expired, certainly not)
	if !r.s.timed {
		return false, true
	}
	age := now.Sub(c.dialedAt)
	life := time.Duration(4*r.s.lifeU+1) * r.q
	return age > life+r.q/2, age < life-r.q/2
}

// step runs one operation and returns the model item and the observation group (empty for sleeps).
func (r *c11Run) step(op c11Op) {
	switch op.kind {
	case "acq":
		if !op.dial {
			r.env.mu.Lock()
			r.env.failNext = 1
			r.env.mu.Unlock()
		}
		ctx, cancel := r.ctxFor("")
		c, err := r.p.Acquire(ctx)
		cancel()
		r.env.mu.Lock()
		r.env.failNext = 0
		r.env.mu.Unlock()
		h := len(r.handles)
		if err != nil {
			c = nil
		}
		r.handles = append(r.handles, c)
		r.live = append(r.live, c != nil)
		if c != nil {
			r.afterAcquire(h, c, fmt.Sprintf("Acquire (handle %d)", h))
		}
		r.items = append(r.items, fmt.Sprintf("(acq %s)", bsym(op.dial)))
		r.settle()
		r.judge("Acquire")
		r.groups = append(r.groups, r.state(c11Obs(err)))
	case "rel":
		r.items = append(r.items, fmt.Sprintf("(rel %d)", op.h))
		if op.h >= len(r.handles) || r.handles[op.h] == nil {
			r.groups = append(r.groups, r.state("ok"))
			return
		}
		c := r.handles[op.h]
		if r.live[op.h] {
			cc, code := c11ConnOf(c)
			r.live[op.h] = false
			now := time.Now()
			if code == 0 {
				exp, _ := r.expired(cc, now)
				if cc.closed.Load() {
					r.mustDie[cc.id] = "released with a closed client"
				} else if exp {
					r.mustDie[cc.id] = "released past its lifetime"
				}
				r.released[cc.id] = now
			}
			c.Release()
			r.settle()
			r.judge(fmt.Sprintf("Release of handle %d", op.h))
			if _, code2 := c11ConnOf(c); code2 == 0 {
				r.fail("released-handle-keeps-its-resource: handle %d still points at a connection after Release", op.h)
			}
		} else {
			before := r.state("x")
			c.Release() // a repeated Release
			r.settle()
			after := r.state("x")
			if before != after {
				r.fail("repeated-release-had-an-effect: Release of the already released handle %d changed %s into %s", op.h, before, after)
			}
			r.judge(fmt.Sprintf("repeated Release of handle %d", op.h))
		}
		r.groups = append(r.groups, r.state("ok"))
	case "do", "ping":
		if op.h >= len(r.handles) || r.handles[op.h] == nil || !r.live[op.h] {
			if op.kind == "do" {
				r.items = append(r.items, fmt.Sprintf("(do %d %s f)", op.h, op.req))
			} else {
				r.items = append(r.items, fmt.Sprintf("(ping %d)", op.h))
			}
			r.groups = append(r.groups, r.state("nohandle"))
			return
		}
		c := r.handles[op.h]
		cc, _ := c11ConnOf(c)
		var err error
		if op.kind == "ping" {
			ctx, cancel := context.WithTimeout(context.Background(), 5*time.Second)
			err = c.Ping(ctx)
			cancel()
			r.items = append(r.items, fmt.Sprintf("(ping %d)", op.h))
		} else {
			q, tok := r.query(op.req)
			ctx, cancel := context.WithTimeout(context.Background(), 5*time.Second)
			if tok != "" {
				r.env.cancels.Store(tok, cancel)
			}
			err = c.Do(ctx, q)
			cancel()
			closes := cc != nil && cc.closed.Load()
			if op.req == "cut" && !closes {
				r.window = true
			}
			r.items = append(r.items, fmt.Sprintf("(do %d %s %s)", op.h, op.req, bsym(closes)))
		}
		r.settle()
		r.judge(op.kind)
		r.groups = append(r.groups, r.state(c11Obs(err)))
	case "pdo", "pping":
		if !op.dial {
			r.env.mu.Lock()
			r.env.failNext = 1
			r.env.mu.Unlock()
		}
		before := map[int]int32{}
		for _, c := range r.env.snapshot() {
			before[c.id] = c.served.Load()
		}
		var err error
		if op.kind == "pping" {
			ctx, cancel := r.ctxFor("")
			err = r.p.Ping(ctx)
			cancel()
		} else {
			q, tok := r.query(op.req)
			ctx, cancel := r.ctxFor(tok)
			err = r.p.Do(ctx, q)
			cancel()
		}
		r.env.mu.Lock()
		r.env.failNext = 0
		r.env.mu.Unlock()
		var used *c11Conn
		for _, c := range r.env.snapshot() {
			if c.served.Load() != before[c.id] {
				used = c
			}
		}
		closes := false
		if used != nil {
			closes = used.closed.Load() && !used.byPool.Load()
			now := time.Now()
			exp, _ := r.expired(used, now)
			if closes {
				r.mustDie[used.id] = "released by Pool.Do with a closed client"
			} else if exp {
				r.mustDie[used.id] = "released by Pool.Do past its lifetime"
			}
			if why, bad := r.mustDie[used.id]; bad && !closes && !exp {
				r.fail("dead-connection-reissued: Pool.%s ran on connection #%d (%s)", op.kind, used.id, why)
			}
			for h2, l := range r.live {
				if l {
					if c2, code2 := c11ConnOf(r.handles[h2]); code2 == 0 && c2 == used {
						r.fail("two-holders-on-one-connection: Pool.%s ran on connection #%d, which handle %d holds", op.kind, used.id, h2)
					}
				}
			}
			r.released[used.id] = now
			if op.kind == "pdo" && op.req == "cut" && !closes {
				r.window = true
			}
		}
		r.handles = append(r.handles, nil)
		r.live = append(r.live, false)
		if op.kind == "pping" {
			r.items = append(r.items, fmt.Sprintf("(pping %s)", bsym(op.dial)))
		} else {
			r.items = append(r.items, fmt.Sprintf("(pdo %s %s %s)", bsym(op.dial), op.req, bsym(closes)))
		}
		r.settle()
		r.judge("Pool." + op.kind)
		r.groups = append(r.groups, r.state(c11Obs(err)))
	case "close":
		r.items = append(r.items, "(close)")
		if !r.closing {
			r.closing = true
			go func() {
				r.p.Close()
				close(r.closeCh)
			}()
		}
		// wait until puddle is closed (Close itself returns only when every handle is back)
		deadline := time.Now().Add(2 * time.Second)
		for {
			closed, ok := c11PuddleClosed(r.p)
			if closed {
				break
			}
			if !ok {
				time.Sleep(2 * time.Millisecond)
				break
			}
			if time.Now().After(deadline) {
				r.fail("close-did-not-close: puddle is not closed 2s after Pool.Close was called")
				break
			}
			runtime.Gosched()
		}
		r.settle()
		r.judge("Close")
		r.groups = append(r.groups, r.state("-"))
	case "spawn":
		// the oldest dial waiting at the gate returns (nothing to do when none waits)
		closedNow, _ := c11PuddleClosed(r.p)
		before := r.env.dialed()
		w, ok := r.env.letGo(op.dial)
		if !ok {
			return
		}
		r.items = append(r.items, fmt.Sprintf("(spawn %s)", bsym(op.dial)))
		if op.dial {
			conns := r.env.snapshot()
			if len(conns) != before+1 {
				r.fail("harness: a released background dial produced %d connections", len(conns)-before)
			} else {
				c := conns[before]
				r.released[c.id] = w.arrived // idle since puddle created the resource
				if closedNow {
					r.ghosts++
					r.mustDie[c.id] = "dialed by CreateResource for a pool that was closed meanwhile"
				}
			}
		}
		r.settle()
		r.judge("completion of a background creation")
		r.groups = append(r.groups, r.state("-"))
	case "sleep":
		// to the next slot; a health check tick lies at the boundary when the new slot index is a multiple of the period
		idleBefore := map[int]bool{}
		held := map[int]bool{}
		for h, l := range r.live {
			if l {
				if c, code := c11ConnOf(r.handles[h]); code == 0 {
					held[c.id] = true
				}
			}
		}
		for _, c := range r.env.snapshot() {
			if !c.closed.Load() && !held[c.id] {
				idleBefore[c.id] = true
			}
		}
		r.slot++
		boundary := r.t0.Add(time.Duration(4*r.slot) * r.q)
		target := boundary.Add(2 * r.q)
		r.items = append(r.items, "(adv 2)")
		tick := r.slot%r.s.periodU == 0
		tickItem := len(r.items)
		if tick {
			r.items = append(r.items, "(tick ?)")
		}
		r.items = append(r.items, "(adv 2)")
		gateBefore := r.env.pendingCount()
		bgBefore := r.env.bgDials.Load()
		time.Sleep(time.Until(target))
		if time.Since(target) > r.q/2 {
			r.late = true
		}
		if tick {
			r.settle()
			// the creations checkMinConns started: their dials are waiting at the gate
			k := r.env.pendingCount() - gateBefore
			if bg := int(r.env.bgDials.Load() - bgBefore); bg != k {
				r.fail("harness lost a background dial: %d dials seen, %d at the gate", bg, k)
			}
			r.items[tickItem] = fmt.Sprintf("(tick %d)", k)
			closedNow, _ := c11PuddleClosed(r.p)
			if !r.closing && !closedNow {
				life := time.Duration(4*r.s.lifeU+1) * r.q
				idl := time.Duration(4*r.s.idleU+1) * r.q
				for _, c := range r.env.snapshot() {
					if !idleBefore[c.id] {
						continue
					}
					age := boundary.Sub(c.dialedAt)
					idle := time.Duration(0)
					if rel, ok := r.released[c.id]; ok {
						idle = boundary.Sub(rel)
					}
					if (age > life+r.q/2 || idle > idl+r.q/2) && !c.closed.Load() {
						r.fail("expired-idle-connection-survived-health-check: connection #%d (age %v, idle %v, lifetime %v, idle time %v)", c.id, age, idle, life, idl)
					}
				}
			}
			r.judge("health check")
			r.groups = append(r.groups, r.state("-"))
		}
	}
}

func c11RunScript(s c11Script, unitMs int) (caseLine, obs, oracle string, late bool) {
	env := &c11Env{maxOpen: s.max, gated: true}
	for i := 0; i < s.min; i++ {
		ok := true
		if i < len(s.newDials) {
			ok = s.newDials[i]
		}
		env.plan = append(env.plan, ok)
	}
	r := &c11Run{s: s, env: env, mustDie: map[int]string{}, released: map[int]time.Time{}, closeCh: make(chan struct{})}
	opt := chpool.Options{
		ClientOptions:     ch.Options{Dialer: env, Address: "c11"},
		MaxConns:          int32(s.max),
		MinConns:          int32(s.min),
		MaxConnLifetime:   time.Hour,
		MaxConnIdleTime:   time.Hour,
		HealthCheckPeriod: time.Hour,
	}
	lifeM, idleM := c11Hour, c11Hour
	if s.timed {
		r.q = time.Duration(unitMs) * time.Millisecond / 4
		opt.MaxConnLifetime = time.Duration(4*s.lifeU+1) * r.q
		opt.MaxConnIdleTime = time.Duration(4*s.idleU+1) * r.q
		opt.HealthCheckPeriod = time.Duration(4*s.periodU) * r.q
		lifeM, idleM = 4*s.lifeU+1, 4*s.idleU+1
	}
	crashed := ""
	newFailed := false
	func() {
		defer func() {
			if e := recover(); e != nil {
				crashed = fmt.Sprint(e)
			}
		}()
		r.t0 = time.Now()
		p, err := chpool.New(c11Fg(context.Background()), opt)
		env.mu.Lock()
		env.plan = nil // what New did not consume is not for later dials
		env.mu.Unlock()
		if err != nil {
			// New closed the pool it had begun to fill: everything it dialed must get closed
			newFailed = true
			deadline := time.Now().Add(2 * time.Second)
			for env.openCount() > 0 && time.Now().Before(deadline) {
				time.Sleep(50 * time.Microsecond)
			}
			var cb []string
			for _, c := range env.snapshot() {
				if c.closed.Load() {
					cb = append(cb, strconv.Itoa(c.id))
				} else {
					r.fail("connection-leak-after-failed-New: connection #%d is still open after New returned %v", c.id, err)
				}
			}
			r.groups = append(r.groups, fmt.Sprintf("(err () (0 0 0 0) (%s))", strings.Join(cb, " ")))
			return
		}
		r.p = p
		for _, c := range env.snapshot() {
			r.released[c.id] = c.dialedAt // idle since New created it
		}
		r.settle()
		r.judge("New")
		if st := p.Stat(); s.min <= s.max && int(st.IdleResources()) != s.min {
			r.fail("New-did-not-create-MinConns-idle-connections: Stat idle=%d total=%d, MinConns=%d", st.IdleResources(), st.TotalResources(), s.min)
		}
		r.groups = append(r.groups, r.state("ok"))
		if s.timed {
			r.items = append(r.items, "(adv 2)")
			time.Sleep(time.Until(r.t0.Add(2 * r.q)))
		}
		for _, op := range s.ops {
			slotEnd := r.t0.Add(time.Duration(4*r.slot+3) * r.q)
			r.step(op)
			if s.timed && op.kind != "sleep" && time.Now().After(slotEnd) {
				r.late = true
			}
		}
		// wind down: every handle back, pool closed, everything must be closed
		for h := range r.handles {
			if r.live[h] {
				r.step(c11Op{kind: "rel", h: h})
			}
		}
		r.step(c11Op{kind: "close"})
		// creations still in flight complete now, into the closed pool (Close waits for them)
		for i := 0; env.pendingCount() > 0 && i < 64; i++ {
			r.step(c11Op{kind: "spawn", dial: (s.id+i)%3 != 0})
		}
		select {
		case <-r.closeCh:
		case <-time.After(2 * time.Second):
			r.fail("close-did-not-return: Pool.Close still blocked 2s after every handle was released")
		}
		for _, c := range env.snapshot() {
			if !c.closed.Load() {
				r.fail("connection-leak-after-close: connection #%d is still open after Close and release of every handle", c.id)
			}
		}
	}()
	env.mu.Lock()
	var nd []string
	for _, ok := range env.planUsed {
		nd = append(nd, bsym(ok))
	}
	env.mu.Unlock()
	_ = newFailed
	caseLine = fmt.Sprintf("pool %d %d %d %d %d (%s) (%s)", s.id, s.max, s.min, lifeM, idleM, strings.Join(nd, " "), strings.Join(r.items, " "))
	obs = "ok " + strings.Join(r.groups, " ")
	if len(r.groups) == 0 {
		obs = "ok"
	}
	if crashed != "" {
		obs = "crash " + strings.ReplaceAll(strings.ReplaceAll(crashed, "\n", " "), "\t", " ")
		r.fail("panic: %s", crashed)
	}
	for _, v := range env.violations() {
		r.fail("%s", v)
	}
	if r.window {
		obs = "-" // a cut that left the client open: what happens next is C04's business
	}
	oracle = "ok"
	if len(r.viol) > 0 {
		oracle = "FAIL:" + strings.ReplaceAll(strings.ReplaceAll(strings.Join(r.viol, " | "), "\n", " "), "\t", " ")
	}
	if r.p != nil && !r.closing {
		go r.p.Close()
	}
	for { // never leave a goroutine of the pool waiting at the gate
		if _, ok := env.letGo(false); !ok {
			break
		}
	}
	return caseLine, obs, oracle, r.late
}

// ---------------------------------------------------------------- generators

func c11Exhaustive(depth, max, min int, out *[]c11Script, budget int) {
	var rec func(prefix []c11Op, handles int)
	rec = func(prefix []c11Op, handles int) {
		if len(*out) >= budget {
			return
		}
		if len(prefix) > 0 {
			*out = append(*out, c11Script{max: max, min: min, ops: append([]c11Op(nil), prefix...), category: "exhaustive"})
		}
		if len(prefix) == depth {
			return
		}
		rec(append(prefix, c11Op{kind: "acq", dial: true}), handles+1)
		for h := 0; h < handles; h++ {
			rec(append(prefix, c11Op{kind: "rel", h: h}), handles)
			rec(append(prefix, c11Op{kind: "do", h: h, req: "ok"}), handles)
			rec(append(prefix, c11Op{kind: "do", h: h, req: "cut"}), handles)
		}
		rec(append(prefix, c11Op{kind: "pdo", dial: true, req: "ok"}), handles+1)
		rec(append(prefix, c11Op{kind: "close"}), handles)
	}
	rec(nil, 0)
}

func c11Count(depth int) int {
	var out []c11Script
	c11Exhaustive(depth, 1, 0, &out, 1<<30)
	return len(out)
}

var c11Reqs = []string{"ok", "ok", "exc", "cut", "cut", "cancel"}

// c11Min draws MinConns in 0..max (0 a third of the time) and, now and then, a failing dial for New.
func c11Min(r *rand.Rand, s *c11Script) {
	if r.Intn(3) != 0 {
		s.min = 1 + r.Intn(s.max)
	}
	if s.min > 0 && r.Intn(15) == 0 {
		for i := 0; i < s.min; i++ {
			s.newDials = append(s.newDials, true)
		}
		s.newDials[r.Intn(s.min)] = false
	}
	if r.Intn(60) == 0 {
		s.min = s.max + 1 // New must fail: ErrNotAvailable from puddle
	}
}

func c11Random(r *rand.Rand, timed bool) c11Script {
	s := c11Script{max: 1 + r.Intn(3), timed: timed, category: "random"}
	n := 6 + r.Intn(30)
	if timed {
		s.category = "timed"
		s.max = 1 + r.Intn(3)
		s.lifeU = 1 + r.Intn(3)
		s.idleU = 1 + r.Intn(2)
		s.periodU = 2 + r.Intn(2)
		n = 5 + r.Intn(10)
	}
	c11Min(r, &s)
	handles := 0
	sleeps := 0
	held := 0            // rough count of handles the script holds
	spawnish := func() { // creations a tick may have started: let some of them complete, not always at once
		for j := 0; j < 3; j++ {
			if r.Intn(10) < 6 {
				s.ops = append(s.ops, c11Op{kind: "spawn", dial: r.Intn(8) != 0})
			}
		}
	}
	for i := 0; i < n; i++ {
		h := 0
		if handles > 0 {
			// mostly recent handles; sometimes an old one (a stale holder); rarely one that does not exist
			switch r.Intn(10) {
			case 0:
				h = r.Intn(handles + 2)
			case 1, 2, 3:
				h = r.Intn(handles)
			default:
				h = handles - 1 - r.Intn(min(handles, 3))
			}
		} else if r.Intn(4) == 0 {
			h = r.Intn(2)
		}
		k := r.Intn(100)
		if held > s.max && k < 24 && r.Intn(4) != 0 {
			k = 24 + r.Intn(26) // every token is taken: mostly release instead of a blocked Acquire
		}
		switch {
		case k < 24:
			s.ops = append(s.ops, c11Op{kind: "acq", dial: r.Intn(12) != 0})
			handles++
			held++
		case k < 50:
			if held > 0 {
				held--
			}
			s.ops = append(s.ops, c11Op{kind: "rel", h: h})
			if r.Intn(4) == 0 {
				s.ops = append(s.ops, c11Op{kind: "rel", h: h})
			}
		case k < 68:
			s.ops = append(s.ops, c11Op{kind: "do", h: h, req: c11Reqs[r.Intn(len(c11Reqs))]})
		case k < 73:
			s.ops = append(s.ops, c11Op{kind: "ping", h: h})
		case k < 82:
			s.ops = append(s.ops, c11Op{kind: "pdo", dial: r.Intn(12) != 0, req: c11Reqs[r.Intn(len(c11Reqs))]})
			handles++
		case k < 85:
			s.ops = append(s.ops, c11Op{kind: "pping", dial: true})
			handles++
		case k < 88 && i > n/2:
			s.ops = append(s.ops, c11Op{kind: "close"})
		default:
			if timed && sleeps < 7 {
				s.ops = append(s.ops, c11Op{kind: "sleep"})
				sleeps++
				if r.Intn(3) == 0 && sleeps < 7 {
					s.ops = append(s.ops, c11Op{kind: "sleep"})
					sleeps++
				}
				if s.min > 0 {
					spawnish()
				}
			} else if timed && s.min > 0 && r.Intn(2) == 0 {
				s.ops = append(s.ops, c11Op{kind: "spawn", dial: r.Intn(8) != 0})
			} else {
				s.ops = append(s.ops, c11Op{kind: "acq", dial: true})
				handles++
			}
		}
	}
	return s
}

// c11Floor: timed histories in which the pool sits AT the MinConns floor when a tick finds expired connections:
// New's MinConns connections (some used and returned, never more than MinConns in the pool) outlive their
// lifetime or idle time; the tick must destroy them all the same, checkMinConns replaces them, and the
// replacements meet holders, further ticks and Close while some of their dials are still in flight.
func c11Floor(r *rand.Rand) c11Script {
	s := c11Script{timed: true, category: "floor"}
	s.max = 1 + r.Intn(3)
	s.min = 1 + r.Intn(s.max)
	s.periodU = 2 + r.Intn(2)
	if r.Intn(2) == 0 { // the lifetime runs out
		s.lifeU, s.idleU = 1, 1+r.Intn(2)
	} else { // only the idle time runs out
		s.lifeU, s.idleU = 3, 1
	}
	handles := 0
	use := func() { // a holder takes one of the floor connections and gives it back: the pool stays at MinConns
		s.ops = append(s.ops, c11Op{kind: "acq", dial: true})
		if r.Intn(2) == 0 {
			s.ops = append(s.ops, c11Op{kind: "do", h: handles, req: "ok"})
		}
		s.ops = append(s.ops, c11Op{kind: "rel", h: handles})
		handles++
	}
	if r.Intn(2) == 0 {
		use()
	}
	for i := 0; i < s.periodU; i++ { // to the first tick: everything New dialed is past its idle time (or lifetime)
		s.ops = append(s.ops, c11Op{kind: "sleep"})
	}
	held := -1
	for round := 0; round < 3; round++ {
		for j := 0; j < s.min; j++ {
			switch r.Intn(6) {
			case 0: // leave this dial at the gate for now
			case 1:
				s.ops = append(s.ops, c11Op{kind: "spawn", dial: false})
			default:
				s.ops = append(s.ops, c11Op{kind: "spawn", dial: true})
			}
		}
		switch r.Intn(5) {
		case 0:
			use()
		case 1:
			s.ops = append(s.ops, c11Op{kind: "acq", dial: true})
			held = handles
			handles++
		case 2:
			s.ops = append(s.ops, c11Op{kind: "pdo", dial: true, req: c11Reqs[r.Intn(len(c11Reqs))]})
			handles++
		case 3:
			if round == 2 {
				s.ops = append(s.ops, c11Op{kind: "close"})
			}
		}
		for i := 0; i < s.periodU; i++ {
			s.ops = append(s.ops, c11Op{kind: "sleep"})
		}
		if held >= 0 && r.Intn(2) == 0 {
			s.ops = append(s.ops, c11Op{kind: "rel", h: held})
			held = -1
		}
	}
	for j := 0; j < s.min; j++ {
		if r.Intn(3) != 0 {
			s.ops = append(s.ops, c11Op{kind: "spawn", dial: r.Intn(6) != 0})
		}
	}
	return s
}

// a few fixed histories: the reproduced defect (DESIGN section 6, row 9) and the corners of the property
func c11Corpus() []c11Script {
	a := c11Op{kind: "acq", dial: true}
	rel := func(h int) c11Op { return c11Op{kind: "rel", h: h} }
	do := func(h int, q string) c11Op { return c11Op{kind: "do", h: h, req: q} }
	sl := c11Op{kind: "sleep"}
	sp := func(ok bool) c11Op { return c11Op{kind: "spawn", dial: ok} }
	return []c11Script{
		{max: 2, ops: []c11Op{a, rel(0), a, rel(0), a, do(1, "ok"), do(2, "ok")}, category: "corpus"},
		{max: 1, ops: []c11Op{a, do(0, "cut"), rel(0), rel(0), a, a}, category: "corpus"},
		{max: 1, ops: []c11Op{a, do(0, "cancel"), rel(0), a, do(1, "ok"), rel(1), rel(0), a}, category: "corpus"},
		{max: 2, ops: []c11Op{a, a, {kind: "close"}, rel(0), rel(0), a, rel(1)}, category: "corpus"},
		{max: 2, ops: []c11Op{a, a, a, rel(1), rel(0), a, a, do(3, "exc"), rel(3), rel(1), a}, category: "corpus"},
		{max: 2, timed: true, lifeU: 1, idleU: 1, periodU: 2, category: "corpus",
			ops: []c11Op{a, a, rel(0), {kind: "sleep"}, {kind: "sleep"}, rel(1), a, {kind: "sleep"}, {kind: "sleep"}, a}},
		{max: 2, timed: true, lifeU: 3, idleU: 1, periodU: 2, category: "corpus",
			ops: []c11Op{a, a, rel(0), rel(1), {kind: "sleep"}, a, {kind: "sleep"}, {kind: "sleep"}, {kind: "sleep"}, a, rel(0)}},
		// MinConns: New fills the pool; holders reuse what New dialed
		{max: 2, min: 2, ops: []c11Op{a, a, a, rel(0), do(1, "cut"), rel(1), a, a}, category: "corpus"},
		{max: 3, min: 2, newDials: []bool{true, false}, category: "corpus"},
		{max: 2, min: 3, category: "corpus"},
		// at the floor: both of New's connections are past their idle time at the first tick; one replacement is
		// used, the other dial fails; the next tick tops the pool up again; Close while a dial is in flight
		{max: 2, min: 2, timed: true, lifeU: 3, idleU: 1, periodU: 2, category: "corpus",
			ops: []c11Op{sl, sl, sp(true), sp(false), a, do(0, "ok"), sl, sl, sp(true), rel(0), sl, sl, {kind: "close"}, sp(true)}},
		{max: 1, min: 1, timed: true, lifeU: 1, idleU: 1, periodU: 2, category: "corpus",
			ops: []c11Op{a, rel(0), sl, sl, a, sp(true), a, rel(1), sl, sl, sl, sl, {kind: "close"}, sp(true), sp(true)}},
		{max: 3, min: 1, timed: true, lifeU: 1, idleU: 2, periodU: 2, category: "corpus",
			ops: []c11Op{sl, sl, a, a, sp(true), rel(0), sl, sl, sp(true), sl, sl, rel(1), sp(false)}},
	}
}

func runC11(h *H) {
	unit := 40
	if v, err := strconv.Atoi(h.Args["unit"]); err == nil && v > 0 {
		unit = v
	}
	only := map[int]bool{}
	for _, f := range strings.Split(h.Args["only"], ",") {
		if v, err := strconv.Atoi(f); err == nil {
			only[v] = true
		}
	}
	var scripts []c11Script
	scripts = append(scripts, c11Corpus()...)
	// exhaustive part: the deepest level whose histories (MaxConns 1 and 2) fit in half the budget
	depth := 1
	for depth < 7 && 2*c11Count(depth+1) <= h.N/2 {
		depth++
	}
	for max := 1; max <= 2; max++ {
		c11Exhaustive(depth, max, 0, &scripts, 1<<30)
	}
	// ... and, one level less deep, from a pool New has filled: (MaxConns, MinConns) = (1,1), (2,1), (2,2)
	if depth > 1 {
		c11Exhaustive(depth-1, 1, 1, &scripts, 1<<30)
		c11Exhaustive(depth-1, 2, 1, &scripts, 1<<30)
		c11Exhaustive(depth-1, 2, 2, &scripts, 1<<30)
	}
	h.Stats["c11.exhaustive.len"+strconv.Itoa(depth)] = 1
	nTimed := h.N / 16
	nRandom := h.N - len(scripts) - nTimed
	if nRandom < h.N/8 {
		nRandom = h.N / 8
	}
	seeds := make([]int64, nRandom+nTimed)
	for i := range seeds {
		seeds[i] = h.R.Int63()
	}
	for i := 0; i < nRandom; i++ {
		scripts = append(scripts, c11Random(rand.New(rand.NewSource(seeds[i])), false))
	}
	for i := 0; i < nTimed; i++ {
		rr := rand.New(rand.NewSource(seeds[nRandom+i]))
		if i%5 < 2 { // two fifths of the timed histories sit at the MinConns floor when connections expire
			scripts = append(scripts, c11Floor(rr))
		} else {
			scripts = append(scripts, c11Random(rr, true))
		}
	}
	for i := range scripts {
		scripts[i].id = i
	}
	type result struct{ c, o, f string }
	results := make([]*result, len(scripts))
	var failures atomic.Int64 // once many histories have failed the rest adds nothing
	run := func(idx []int, workers int) {
		var wg sync.WaitGroup
		var next atomic.Int64
		for w := 0; w < workers; w++ {
			wg.Add(1)
			go func() {
				defer wg.Done()
				for {
					k := int(next.Add(1)) - 1
					if k >= len(idx) {
						return
					}
					i := idx[k]
					if failures.Load() >= 40 {
						continue
					}
					var c, o, f string
					var late bool
					for attempt := 0; attempt < 3; attempt++ {
						c, o, f, late = c11RunScript(scripts[i], unit*(1+attempt))
						if !late {
							break
						}
					}
					if late {
						o = "-" // the machine did not keep the schedule three times: not compared
						if strings.HasPrefix(f, "FAIL") {
							f = "-"
						}
						c += " late"
					}
					if strings.HasPrefix(f, "FAIL") {
						failures.Add(1)
					}
					results[i] = &result{c, o, f}
				}
			}()
		}
		wg.Wait()
	}
	var untimed, timed []int
	for i, s := range scripts {
		if len(only) > 0 && !only[i] {
			continue
		}
		if s.timed {
			timed = append(timed, i)
		} else {
			untimed = append(untimed, i)
		}
	}
	run(untimed, 2*runtime.NumCPU())
	tw := 48
	if len(only) > 0 {
		tw = 4
	}
	run(timed, tw)
	if failures.Load() >= 40 {
		h.Stat("c11.stopped-after-40-failing-histories")
	}
	for i, res := range results {
		if res == nil {
			continue
		}
		c := res.c
		if strings.HasSuffix(c, " late") {
			c = strings.TrimSuffix(c, " late")
			h.Stat("c11.late-not-compared")
		}
		h.Emit(c, res.o, res.f)
		h.Stat("c11." + scripts[i].category)
		h.Stat("c11.maxconns" + strconv.Itoa(scripts[i].max))
		if scripts[i].min > 0 {
			h.Stat("c11.minconns>0")
			if scripts[i].timed {
				h.Stat("c11.timed.minconns>0")
			}
		}
		if strings.Contains(c, "(spawn ") {
			h.Stat("c11.background-creation-completed")
		}
		if strings.Contains(c, "(close) (spawn t)") {
			h.Stat("c11.creation-completed-after-close")
		}
		if res.o == "-" {
			h.Stat("c11.not-compared")
		}
	}
}

// ---------------------------------------------------------------- concurrent holders (direct oracle only)

func c11RaceCase(seed int64, id int) (desc, oracle string) {
	r := rand.New(rand.NewSource(seed))
	max := 1 + r.Intn(3)
	g := 2 + r.Intn(6)
	nops := 20 + r.Intn(60)
	withClose := r.Intn(2) == 0
	minc := 0
	if r.Intn(3) != 0 {
		minc = 1 + r.Intn(max) // checkMinConns keeps dialing behind the holders' backs, also while Close runs
	}
	env := &c11Env{maxOpen: max, delay: time.Duration(50+r.Intn(300)) * time.Microsecond}
	opt := chpool.Options{
		ClientOptions:     ch.Options{Dialer: env, Address: "c11"},
		MaxConns:          int32(max),
		MinConns:          int32(minc),
		MaxConnLifetime:   time.Duration(2+r.Intn(6)) * time.Millisecond,
		MaxConnIdleTime:   time.Duration(1+r.Intn(4)) * time.Millisecond,
		HealthCheckPeriod: time.Duration(1+r.Intn(3)) * time.Millisecond,
	}
	desc = fmt.Sprintf("race %d goroutines=%d maxconns=%d minconns=%d ops=%d close=%v", id, g, max, minc, nops, withClose)
	p, err := chpool.New(context.Background(), opt)
	if err != nil {
		return desc, "FAIL:chpool.New: " + err.Error()
	}
	var mu sync.Mutex
	var freshClosed atomic.Int64
	holders := map[*c11Conn]int{}
	var viol []string
	fail := func(format string, a ...any) {
		mu.Lock()
		if len(viol) < 6 {
			viol = append(viol, fmt.Sprintf(format, a...))
		}
		mu.Unlock()
	}
	hold := func(c *chpool.Client, gid int) *c11Conn {
		cc, code := c11ConnOf(c)
		if code != 0 {
			fail("acquired-handle-without-connection (goroutine %d)", gid)
			return nil
		}
		mu.Lock()
		holders[cc]++
		n := holders[cc]
		mu.Unlock()
		if n > 1 {
			fail("two-holders-on-one-connection: connection #%d is held %d times", cc.id, n)
		}
		if cc.closed.Load() {
			if cc.everHeld.Load() || cc.served.Load() > 0 {
				fail("closed-connection-reissued: Acquire returned connection #%d again, which is closed (closed by the pool=%v)", cc.id, cc.byPool.Load())
			} else {
				// a freshly dialed connection closed by the handshake watchdog when Pool.Close cancelled the
				// constructor's context just as the handshake finished: not a reissue (C13's business)
				freshClosed.Add(1)
			}
		}
		cc.everHeld.Store(true)
		return cc
	}
	unhold := func(cc *c11Conn) {
		if cc != nil {
			mu.Lock()
			holders[cc]--
			mu.Unlock()
		}
	}
	seeds := make([]int64, g)
	for i := range seeds {
		seeds[i] = r.Int63()
	}
	var wg sync.WaitGroup
	var tok atomic.Int64
	closeAt := r.Intn(nops)
	start := time.Now()
	for gi := 0; gi < g; gi++ {
		wg.Add(1)
		go func(gid int) {
			defer wg.Done()
			defer func() {
				if e := recover(); e != nil {
					fail("panic in holder goroutine %d: %v", gid, e)
				}
			}()
			rr := rand.New(rand.NewSource(seeds[gid]))
			var old []*chpool.Client // handles this goroutine has released
			for i := 0; i < nops; i++ {
				if time.Since(start) > 4*time.Second {
					fail("holders-starved: goroutine %d got through %d of %d operations in 4s (connections or tokens are not coming back)", gid, i, nops)
					return
				}
				if withClose && gid == 0 && i == closeAt {
					go p.Close()
				}
				switch k := rr.Intn(10); {
				case k < 6:
					ctx, cancel := context.WithTimeout(context.Background(), 40*time.Millisecond)
					c, err := p.Acquire(ctx)
					cancel()
					if err != nil {
						continue
					}
					cc := hold(c, gid)
					for j, m := 0, rr.Intn(3); j <= m; j++ {
						req := c11Reqs[rr.Intn(len(c11Reqs))]
						if rr.Intn(5) == 0 {
							ctx, cancel := context.WithTimeout(context.Background(), time.Second)
							_ = c.Ping(ctx)
							cancel()
							continue
						}
						body := "c11 " + req
						ctx, cancel := context.WithTimeout(context.Background(), time.Second)
						if req == "cancel" {
							t := fmt.Sprintf("r%d_%d", id, tok.Add(1))
							env.cancels.Store(t, cancel)
							body = "c11 stall " + t
						}
						_ = c.Do(ctx, ch.Query{Body: body})
						cancel()
					}
					if rr.Intn(4) == 0 {
						time.Sleep(time.Duration(rr.Intn(3000)) * time.Microsecond)
					}
					unhold(cc)
					c.Release()
					if rr.Intn(3) == 0 {
						c.Release()
					}
					old = append(old, c)
				case k < 8:
					// generous: a Ping that times out leaves its Pong unread on an open client (not C11's business)
					ctx, cancel := context.WithTimeout(context.Background(), 2*time.Second)
					if rr.Intn(3) == 0 {
						_ = p.Ping(ctx)
					} else {
						_ = p.Do(ctx, ch.Query{Body: "c11 " + []string{"ok", "exc", "cut"}[rr.Intn(3)]})
					}
					cancel()
				case k < 9:
					if len(old) > 0 {
						old[rr.Intn(len(old))].Release() // a stale holder releases again, possibly much later
					}
				default:
					time.Sleep(time.Duration(rr.Intn(1500)) * time.Microsecond)
				}
				if st := p.Stat(); int(st.TotalResources()) > max {
					fail("more-resources-than-max: Stat total=%d MaxConns=%d", st.TotalResources(), max)
				}
			}
		}(gi)
	}
	wg.Wait()
	done := make(chan struct{})
	go func() { p.Close(); close(done) }()
	select {
	case <-done:
	case <-time.After(3 * time.Second):
		fail("close-did-not-return: Pool.Close still blocked 3s after every handle was released")
	}
	time.Sleep(200 * time.Microsecond)
	deadline := time.Now().Add(time.Second)
	for {
		open := env.openCount()
		if open == 0 {
			break
		}
		if time.Now().After(deadline) {
			fail("connection-leak-after-close: %d of %d connections still open after Close and release of every handle", open, env.dialed())
			break
		}
		time.Sleep(time.Millisecond)
	}
	for _, v := range env.violations() {
		fail("%s", v)
	}
	if n := freshClosed.Load(); n > 0 {
		desc += fmt.Sprintf(" fresh-connection-closed-by-handshake-watchdog=%d", n)
	}
	if len(viol) > 0 {
		return desc, "FAIL:" + strings.ReplaceAll(strings.Join(viol, " | "), "\t", " ")
	}
	return desc, "ok"
}

func runC11Race(h *H) {
	fmt.Fprintln(os.Stderr, "c11r: concurrent holders")
	seeds := make([]int64, h.N)
	for i := range seeds {
		seeds[i] = h.R.Int63()
	}
	type res struct{ d, o string }
	out := make([]res, h.N)
	var wg sync.WaitGroup
	var next, failures atomic.Int64
	for w := 0; w < 8; w++ {
		wg.Add(1)
		go func() {
			defer wg.Done()
			for {
				i := int(next.Add(1)) - 1
				if i >= h.N {
					return
				}
				if failures.Load() >= 10 {
					continue // enough failing runs: the rest adds nothing
				}
				d, o := c11RaceCase(seeds[i], i)
				if strings.HasPrefix(o, "FAIL") {
					failures.Add(1)
				}
				out[i] = res{d, o}
			}
		}()
	}
	wg.Wait()
	for _, r := range out {
		if r.d == "" {
			continue
		}
		h.Emit(r.d, "-", r.o)
		h.Stat("c11r.runs")
		if strings.Contains(r.d, "fresh-connection-closed") {
			h.Stat("c11r.fresh-connection-closed-by-handshake-watchdog")
		}
	}
}
