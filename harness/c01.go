package main

// Column-level families shared by C01 / C06 / C07 / C15: real columns of the catalogue are filled
// by reflection, dumped into the model's (ty, cdata) form, encoded and decoded by the real code.
//
//	enc  <build> <ty> <cdata before Prepare>   -> ok xSTATE xBYTES <cdata after Prepare> | err prepare
//	dec  <build> <ty> <rows> xBYTES            -> ok <cdata> <Rows()> <every Row(i) readable> <bytes left> | err | crash

import (
	"bytes"
	"fmt"
	"io"
	"math/rand"
	"os"
	"reflect"
	"strconv"
	"strings"

	"github.com/ClickHouse/ch-go/proto"
)

func init() {
	runners["c01"] = runC01
	runners["c06"] = runC06
	runners["c07"] = runC07
}

// extra catalogue entries on top of c14Catalogue
var c01Extra = []c14ColSpec{
	{typ: "Array(Nullable(UUID))"}, {typ: "Nullable(Bool)"}, {typ: "Nullable(Nothing)"},
	{typ: "Array(Nothing)"}, {typ: "LowCardinality(UInt8)"}, {typ: "LowCardinality(Int64)"},
	{typ: "Array(LowCardinality(UInt32))"},
	{typ: "Array(Date32)"}, {typ: "Array(Decimal128(3))"}, {typ: "Nullable(Decimal256(7))"}, {typ: "Array(IPv4)"},
	{mk: func() proto.Column { return proto.ColTuple{} }},
	{mk: func() proto.Column {
		return proto.ColTuple{proto.Named[string](new(proto.ColStr), "s"), proto.Named[int32](new(proto.ColInt32), "i")}
	}},
	{mk: func() proto.Column {
		return proto.NewMap[string, proto.Nullable[uint8]](new(proto.ColStr), new(proto.ColUInt8).Nullable())
	}},
	{mk: func() proto.Column { return proto.NewArray[bool](new(proto.ColBool)) }},
	{mk: func() proto.Column { return new(proto.ColJSONStr).Array() }},
	{mk: func() proto.Column { return new(proto.ColJSONStr).LowCardinality() }},
}

func c01Catalogue() []c14ColSpec {
	out := append([]c14ColSpec{}, c14Catalogue...)
	return append(out, c01Extra...)
}

// floats under LowCardinality: Go's map equality (NaN != NaN, -0 == +0) makes the dictionary
// differ from bit equality; outside the modelled nestings (DESIGN C01)
func c01Skip(s c14ColSpec) bool {
	n := s.name()
	// LowCardinality(Date): the dictionary is keyed by time.Time, two instants of one day are two
	// dictionary entries with the same wire value (lossy element conversion, C20's subject)
	return strings.Contains(n, "LowCardinality(Float") || strings.Contains(n, "LowCardinality(Nullable") ||
		strings.Contains(n, "LowCardinality(Date")
}

var c01RowCounts = []int{0, 1, 2, 3, 5, 17, 254, 255, 256, 257}

// encodeCol runs Prepare + EncodeState + EncodeColumn the way Block.EncodeRawBlock does.
func encodeCol(col proto.Column, pre []byte) (state, body []byte, err error) {
	defer func() {
		if p := recover(); p != nil {
			err = fmt.Errorf("panic: %v", p)
		}
	}()
	if p, ok := col.(proto.Preparable); ok {
		if e := p.Prepare(); e != nil {
			return nil, nil, errPrepare
		}
	}
	if col.Rows() == 0 {
		return nil, nil, nil
	}
	// the output buffer is a reused one: what precedes is `pre`, and its spare capacity still holds the
	// bytes of an earlier, longer use (0xA5) - an encoder must not let them show
	var b proto.Buffer
	arena := make([]byte, len(pre)+8192)
	for i := range arena {
		arena[i] = 0xA5
	}
	copy(arena, pre)
	b.Buf = arena[:len(pre)]
	if s, ok := col.(proto.StateEncoder); ok {
		s.EncodeState(&b)
	}
	ns := len(b.Buf)
	col.EncodeColumn(&b)
	if !bytes.Equal(b.Buf[:len(pre)], pre) {
		return nil, nil, fmt.Errorf("uuid/prefix: the bytes already in the buffer were changed")
	}
	return append([]byte{}, b.Buf[len(pre):ns]...), append([]byte{}, b.Buf[ns:]...), nil
}

var errPrepare = fmt.Errorf("prepare")

// encodeColFresh: state and column into a zero proto.Buffer (the column is prepared already)
func encodeColFresh(col proto.Column) (out []byte, err error) {
	defer func() {
		if p := recover(); p != nil {
			err = fmt.Errorf("panic: %v", p)
		}
	}()
	if col.Rows() == 0 {
		return nil, nil // as encodeCol and EncodeRawBlock: nothing is written for a column without rows
	}
	var b proto.Buffer
	if s, ok := col.(proto.StateEncoder); ok {
		s.EncodeState(&b)
	}
	col.EncodeColumn(&b)
	return b.Buf, nil
}

// decodeCol decodes into a fresh column of spec s, as Results.DecodeResult does after Reset.
func decodeCol(s c14ColSpec, rows int, in []byte) (col proto.Column, left int, err error, crashed bool) {
	defer func() {
		if p := recover(); p != nil {
			crashed = true
			err = fmt.Errorf("panic: %v", p)
		}
	}()
	col, err = s.build()
	if err != nil {
		return nil, 0, err, false
	}
	r := proto.NewReader(bytes.NewReader(in))
	if rows > 0 {
		if sd, ok := col.(proto.StateDecoder); ok {
			if err := sd.DecodeState(r); err != nil {
				return col, 0, err, false
			}
		}
		if err := col.DecodeColumn(r, rows); err != nil {
			return col, 0, err, false
		}
	}
	rest, _ := io.ReadAll(r)
	return col, len(rest), nil, false
}

// rowsReadable calls Row(i) (RowKV for maps) for every i below Rows(); false if one panics.
func rowsReadable(col proto.Column) (ok bool) {
	defer func() {
		if p := recover(); p != nil {
			ok = false
		}
	}()
	if tup, isT := col.(proto.ColTuple); isT {
		for _, c := range tup {
			if !rowsReadable(c) {
				return false
			}
		}
		return true
	}
	v := reflect.ValueOf(col)
	m := v.MethodByName("RowKV")
	if !m.IsValid() {
		m = v.MethodByName("Row")
	}
	if !m.IsValid() {
		return true
	}
	n := col.Rows()
	for i := 0; i < n; i++ {
		m.Call([]reflect.Value{reflect.ValueOf(i)})
	}
	return true
}

// sameRows compares two columns row by row through their accessors.
func sameRows(a, b proto.Column) (same bool) {
	defer func() {
		if p := recover(); p != nil {
			same = false
		}
	}()
	if a.Rows() != b.Rows() {
		return false
	}
	if ta, ok := a.(proto.ColTuple); ok {
		tb := b.(proto.ColTuple)
		for i := range ta {
			if !sameRows(ta[i], tb[i]) {
				return false
			}
		}
		return true
	}
	ma, mb := reflect.ValueOf(a).MethodByName("RowKV"), reflect.ValueOf(b).MethodByName("RowKV")
	if !ma.IsValid() {
		ma, mb = reflect.ValueOf(a).MethodByName("Row"), reflect.ValueOf(b).MethodByName("Row")
	}
	if !ma.IsValid() {
		return true
	}
	for i := 0; i < a.Rows(); i++ {
		arg := []reflect.Value{reflect.ValueOf(i)}
		x, y := ma.Call(arg)[0].Interface(), mb.Call(arg)[0].Interface()
		if !reflect.DeepEqual(x, y) && fmt.Sprintf("%#v", x) != fmt.Sprintf("%#v", y) {
			return false
		}
	}
	return true
}

func decObs(s c14ColSpec, rows int, in []byte) (obs string, col proto.Column, ok bool) {
	col, left, err, crashed := decodeCol(s, rows, in)
	switch {
	case crashed:
		return "crash " + sanitize(err.Error()), nil, false
	case err != nil:
		return "err", nil, false
	}
	_, data, derr := colDump(col)
	if derr != nil {
		return "-", col, true
	}
	return fmt.Sprintf("ok %s %d %s %d", data, col.Rows(), bsym(rowsReadable(col)), left), col, true
}

func sanitize(s string) string {
	s = strings.ReplaceAll(s, "\t", " ")
	s = strings.ReplaceAll(s, "\n", " ")
	if len(s) > 200 {
		s = s[:200]
	}
	return s
}

// one catalogue column: encode, decode, return the pieces later families reuse
type c01Case struct {
	spec        c14ColSpec
	ty          string
	rows        int
	state, body []byte
	col         proto.Column
}

func c01One(h *H, s c14ColSpec, rows int, emit bool) *c01Case {
	seed := h.R.Int63()
	col, err := s.build()
	if err != nil {
		h.Stat("col.skipped.build")
		if h.Args["debug"] != "" {
			fmt.Fprintln(os.Stderr, "skip build", s.name(), err)
		}
		return nil
	}
	if err := c14Fill(col, rows, rand.New(rand.NewSource(seed)), s); err != nil {
		h.Stat("col.skipped.fill")
		return nil
	}
	ty, data0, derr := colDump(col)
	if derr != nil {
		h.Stat("col.skipped.dump")
		return nil
	}
	pre := genShortBytes(h.R)
	if h.R.Intn(2) == 0 {
		pre = append(pre, make([]byte, 1+h.R.Intn(7))...) // lengths not divisible by 8 too
	}
	state, body, eerr := encodeCol(col, pre)
	oracle := "ok"
	var obs string
	switch {
	case eerr == errPrepare:
		obs = "err prepare"
	case eerr != nil:
		obs, oracle = "crash "+sanitize(eerr.Error()), "FAIL:encode "+sanitize(eerr.Error())
	default:
		_, data1, _ := colDump(col)
		obs = fmt.Sprintf("ok %s %s %s", hx(state), hx(body), data1)
		// buffer independence: the same column into an empty buffer
		s2, b2, e2 := encodeCol(col, nil)
		if e2 != nil || !bytes.Equal(s2, state) || !bytes.Equal(b2, body) {
			oracle = "FAIL:uuid/prefix: bytes depend on what the buffer already held"
		}
		// and into a buffer that was never used: spare capacity that is zero, not 0xA5
		if fresh, e3 := encodeColFresh(col); e3 != nil || !bytes.Equal(fresh, append(append([]byte{}, state...), body...)) {
			oracle = "FAIL:uuid/prefix: bytes depend on what the buffer's spare capacity held (a fresh buffer gives other bytes than a reused one)"
		}
		if tup, isT := col.(proto.ColTuple); col.Rows() != rows && !(isT && len(tup) == 0) {
			oracle = "FAIL:Rows() after fill"
		}
	}
	if emit {
		h.Emit(fmt.Sprintf("enc %s %s %s", buildName, ty, data0), obs, oracle)
		h.Stat("col.enc")
	}
	if eerr != nil {
		return nil
	}
	return &c01Case{s, ty, rows, state, body, col}
}

func (c *c01Case) wire() []byte { return append(append([]byte{}, c.state...), c.body...) }

func runC01(h *H) {
	cat := c01Catalogue()
	n := 0
	for n < h.N {
		for _, s := range cat {
			if c01Skip(s) {
				continue
			}
			rows := c01RowCounts[h.R.Intn(len(c01RowCounts))]
			if h.Tier == "thorough" && h.R.Intn(40) == 0 {
				rows = []int{1000, 4096}[h.R.Intn(2)] // the 65534..65537 dictionary boundary is covered once per run below
			}
			c := c01One(h, s, rows, true)
			n++
			if c == nil {
				continue
			}
			trailing := genShortBytes(h.R)
			in := append(c.wire(), trailing...)
			obs, col2, ok := decObs(s, rows, in)
			oracle := "ok"
			switch {
			case !ok:
				oracle = "FAIL:decode of own encoding failed: " + obs
			case !strings.HasSuffix(obs, " "+strconv.Itoa(len(trailing))) && obs != "-":
				oracle = "FAIL:did not consume exactly the encoding"
			case !strings.Contains(s.name(), "LowCardinality(Date") && !sameRows(c.col, col2):
				// (a Date dictionary keeps the day only: compared through the re-encoding below)
				oracle = "FAIL:decoded rows differ from the appended rows"
			default:
				if s2, b2, e2 := encodeCol(col2, nil); e2 != nil || !bytes.Equal(s2, c.state) || !bytes.Equal(b2, c.body) {
					oracle = "FAIL:re-encoding of the decoded column differs"
				}
			}
			h.Emit(fmt.Sprintf("dec %s %s %d %s", buildName, c.ty, rows, hx(in)), obs, oracle)
			h.Stat("col.dec")
			if n >= h.N {
				break
			}
		}
	}
	// the 65534..65537 dictionary boundary once per run
	for _, k := range []int{254, 255, 256, 257, 65534, 65535, 65536, 65537} {
		col := new(proto.ColStr).LowCardinality()
		for i := 0; i < k; i++ {
			col.Append(strconv.Itoa(i))
		}
		col.Append("0")
		ty, data0, _ := colDump(col)
		if k > 300 && h.Tier != "thorough" {
			data0 = "" // too long for the model transcript in the quick tier: direct oracle only
		}
		state, body, err := encodeCol(col, nil)
		if err != nil {
			h.Emit(fmt.Sprintf("lcdict %d", k), "-", "FAIL:encode "+err.Error())
			continue
		}
		s := c14ColSpec{typ: "LowCardinality(String)"}
		_, col2, ok := decObs(s, k+1, append(append([]byte{}, state...), body...))
		oracle := "ok"
		if !ok || !sameRows(col, col2) {
			oracle = fmt.Sprintf("FAIL:LowCardinality with %d dictionary entries does not round-trip", k)
		}
		if data0 != "" {
			_, data1, _ := colDump(col)
			h.Emit(fmt.Sprintf("enc %s %s %s", buildName, ty, data0), fmt.Sprintf("ok %s %s %s", hx(state), hx(body), data1), oracle)
		} else {
			h.Emit(fmt.Sprintf("lcdict %d", k), "-", oracle)
		}
		h.Stat("col.lcdict")
	}
}

// C07: every proper prefix of an encoding is rejected
func runC07(h *H) {
	cat := c01Catalogue()
	n := 0
	for n < h.N {
		for _, s := range cat {
			if c01Skip(s) {
				continue
			}
			rows := []int{1, 2, 3, 5, 9}[h.R.Intn(5)]
			c := c01One(h, s, rows, false)
			if c == nil {
				continue
			}
			w := c.wire()
			step := 1
			if len(w) > 600 && h.Tier != "thorough" {
				step = 1 + len(w)/300
			}
			for cut := 0; cut < len(w); cut += step {
				obs, _, ok := decObs(s, rows, w[:cut])
				oracle := "ok"
				if ok {
					oracle = fmt.Sprintf("FAIL:prefix of %d of %d bytes accepted", cut, len(w))
				}
				h.Emit(fmt.Sprintf("dec %s %s %d %s", buildName, c.ty, rows, hx(w[:cut])), obs, oracle)
				n++
			}
			h.Stat("col.cutset")
			if n >= h.N {
				break
			}
		}
	}
}

// C06: hostile input.  Field-targeted: every aligned 8-byte, 4-byte, 2-byte and 1-byte window is
// overwritten with boundary values; plus bit flips and splices.
var c06Values8 = []uint64{0, 1, 2, 0x7f, 0x80, 0xff, 0x100, 0xffff, 0x10000, 100000000, 100000001, 1 << 31, 1 << 32, 1 << 40, 1<<63 - 1, 1 << 63, ^uint64(0), ^uint64(0) - 1, 0x0600, 0x0601, 0x0603, 0x0604, 0x0200, 0x0700}

func runC06(h *H) {
	cat := c01Catalogue()
	pend, _ := os.Create(h.Args["pending"])
	if pend != nil {
		defer pend.Close()
	}
	try := func(s c14ColSpec, ty string, rows int, in []byte, kind string) {
		c := fmt.Sprintf("dec %s %s %d %s", buildName, ty, rows, hx(in))
		if pend != nil {
			// if the process dies in the next call this names the input
			pend.Truncate(0)
			pend.Seek(0, 0)
			pend.WriteString(c)
			pend.Sync()
		}
		obs, col, ok := decObs(s, rows, in)
		oracle := "ok"
		if strings.HasPrefix(obs, "crash") {
			oracle = "FAIL:panic while decoding: " + obs
		} else if ok {
			if col.Rows() != rows {
				oracle = fmt.Sprintf("FAIL:decode succeeded, column reports rows %d for a block of %d", col.Rows(), rows)
			} else if !rowsReadable(col) {
				oracle = "FAIL:offsets/Row: a Row(i) accessor panics after a successful decode"
			}
		}
		h.Emit(c, obs, oracle)
		h.Stat("mut." + kind)
	}
	n := 0
	for n < h.N {
		for _, s := range cat {
			if c01Skip(s) {
				continue
			}
			rows := []int{1, 2, 3, 4}[h.R.Intn(4)]
			c := c01One(h, s, rows, false)
			if c == nil || c.ty == "(tuple)" { // Tuple() of no columns has no rows of its own (not a ClickHouse type)
				continue
			}
			w := c.wire()
			// different declared row counts over the same bytes
			for _, r2 := range []int{0, 1, rows + 1, rows * 2, 255} {
				try(s, c.ty, r2, w, "rows")
				n++
			}
			if len(w) == 0 {
				continue
			}
			for k := 0; k < 24; k++ {
				m := append([]byte{}, w...)
				switch h.R.Intn(5) {
				case 0: // 8-byte field
					if len(m) >= 8 {
						off := h.R.Intn(len(m) - 7)
						if h.R.Intn(2) == 0 {
							off &^= 7
						}
						v := c06Values8[h.R.Intn(len(c06Values8))]
						for i := 0; i < 8; i++ {
							m[off+i] = byte(v >> (8 * uint(i)))
						}
						try(s, c.ty, rows, m, "u64")
					}
				case 1: // one byte (varint lengths, null maps, bools, keys)
					off := h.R.Intn(len(m))
					m[off] = []byte{0, 1, 2, 0x7f, 0x80, 0xff, 0xfe, 3}[h.R.Intn(8)]
					try(s, c.ty, rows, m, "byte")
				case 2: // bit flip
					off := h.R.Intn(len(m))
					m[off] ^= 1 << uint(h.R.Intn(8))
					try(s, c.ty, rows, m, "flip")
				case 3: // huge varint spliced in
					off := h.R.Intn(len(m))
					ins := [][]byte{{0xff, 0xff, 0xff, 0xff, 0xff, 0xff, 0xff, 0xff, 0xff, 0x01}, {0x80, 0x80, 0x80, 0x80, 0x80, 0x80, 0x20}, {0xff, 0xff, 0xff, 0xff, 0x0f}, {0x80}}[h.R.Intn(4)]
					m = append(append(append([]byte{}, m[:off]...), ins...), m[off+1:]...)
					try(s, c.ty, rows, m, "varint")
				default: // splice with another column's bytes
					o := c01One(h, cat[h.R.Intn(len(cat))], rows, false)
					if o != nil && len(o.wire()) > 0 {
						ow := o.wire()
						off := h.R.Intn(len(m))
						m = append(append([]byte{}, m[:off]...), ow[h.R.Intn(len(ow)):]...)
						try(s, c.ty, rows, m, "splice")
					}
				}
				n++
			}
			if n >= h.N {
				break
			}
		}
	}
	// LowCardinality, field by field: every key width with boundary key values, meta bits, dictionary and
	// key counts that disagree with what follows (built with the library's own Buffer primitives)
	lcSpecs := []c14ColSpec{{typ: "LowCardinality(String)"}, {typ: "LowCardinality(UInt16)"}, {typ: "Array(LowCardinality(String))"}}
	for i := 0; i < h.N/20+40; i++ {
		s := lcSpecs[h.R.Intn(2)]
		col, _ := s.build()
		ty, _, _ := colDump(col)
		d := 1 + h.R.Intn(4)    // dictionary entries on the wire
		rows := 1 + h.R.Intn(3) // rows
		k := h.R.Intn(4)        // key width 2^k bytes
		var b proto.Buffer
		b.PutInt64(1) // state: key serialization version
		meta := int64(0x0600) | int64(k)
		switch h.R.Intn(8) {
		case 0:
			meta = int64(k) // additional-keys bit missing
		case 1:
			meta |= 0x0100 // global dictionary bit
		case 2:
			meta = int64(0x0600) | int64(4+h.R.Intn(250)) // invalid key type
		}
		b.PutInt64(meta)
		idxRows := int64(d)
		switch h.R.Intn(8) {
		case 0:
			idxRows = int64(d + 1)
		case 1:
			idxRows = []int64{0, -1, 1 << 40, 100000001}[h.R.Intn(4)]
		}
		b.PutInt64(idxRows)
		for j := 0; j < d; j++ {
			if s.typ == "LowCardinality(String)" {
				b.PutString(strconv.Itoa(j))
			} else {
				b.PutUInt16(uint16(j))
			}
		}
		keyRows := int64(rows)
		if h.R.Intn(8) == 0 {
			keyRows = []int64{0, -1, int64(rows + 1), 1 << 40}[h.R.Intn(4)]
		}
		b.PutInt64(keyRows)
		for j := 0; j < rows; j++ {
			var kv uint64
			switch h.R.Intn(6) {
			case 0:
				kv = uint64(d) // first key beyond the dictionary
			case 1:
				kv = 1<<(8*(uint(1)<<uint(k))-1) + uint64(h.R.Intn(3)) // top bit of the key width set
			case 2:
				kv = ^uint64(0) >> (64 - 8*(uint(1)<<uint(k))) // all ones
			default:
				kv = uint64(h.R.Intn(d))
			}
			switch k {
			case 0:
				b.PutUInt8(uint8(kv))
			case 1:
				b.PutUInt16(uint16(kv))
			case 2:
				b.PutUInt32(uint32(kv))
			default:
				b.PutUInt64(kv)
			}
		}
		try(s, ty, rows, b.Buf, "lcfield")
	}
	if pend != nil {
		pend.Truncate(0)
	}
}

// C07 for protocol messages: every proper prefix of every message encoding is rejected
func init() {
	runners["c07msg"] = runC07Msg
	runners["c15"] = runC15
}

func runC07Msg(h *H) {
	revs := revisions(h)
	n := 0
	for n < h.N {
		for _, m := range messages {
			rev := revs[h.R.Intn(len(revs))]
			if !m.aware {
				rev = 0
			}
			v, fs := m.fresh()
			for _, f := range fs {
				f.gen(h.R)
			}
			var b proto.Buffer
			m.enc(v, &b, rev)
			body := b.Buf
			if m.hasCod {
				body = body[1:]
			}
			step := 1
			if len(body) > 400 {
				step = 1 + len(body)/200
			}
			for cut := 0; cut < len(body); cut += step {
				v2, fs2 := m.fresh()
				obs, ok := decodeObs(body[:cut], func(r *proto.Reader) (string, error) {
					err := m.dec(v2, r, rev)
					return fieldsSx(fs2), err
				})
				oracle := "ok"
				if ok {
					oracle = fmt.Sprintf("FAIL:prefix of %d of %d bytes of %s accepted", cut, len(body), m.name)
				}
				h.Emit(fmt.Sprintf("dec %s %d %s", m.name, rev, hx(body[:cut])), obs, oracle)
				n++
			}
			h.Stat("msgcut." + m.name)
		}
		// Query
		rev := revs[h.R.Intn(len(revs))]
		if !proto.FeatureSettingsSerializedAsStrings.In(rev) {
			continue
		}
		q := genQuery(h.R)
		var b proto.Buffer
		q.EncodeAware(&b, rev)
		body := b.Buf[1:]
		step := 1 + len(body)/150
		for cut := 0; cut < len(body); cut += step {
			var q2 proto.Query
			obs, ok := decodeObs(body[:cut], func(r *proto.Reader) (string, error) {
				err := q2.DecodeAware(r, rev)
				return querySx(&q2), err
			})
			oracle := "ok"
			if ok {
				oracle = fmt.Sprintf("FAIL:prefix of %d of %d bytes of a query accepted", cut, len(body))
			}
			h.Emit(fmt.Sprintf("dec query %d %s", rev, hx(body[:cut])), obs, oracle)
			n++
		}
		h.Stat("msgcut.query")
	}
}

// C15: every value of the narrow element types, fresh and reset targets
func runC15(h *H) {
	narrow := []string{"Int8", "UInt8", "Bool", "Enum8('a' = 1, 'b' = 2)", "Nullable(Int8)", "Array(Int8)", "LowCardinality(UInt8)"}
	wide := []string{"Int16", "UInt16", "Date", "Enum16('x' = 1000, 'y' = -5, 'z' = 7)"}
	sweep := func(typ string, bits int) {
		s := c14ColSpec{typ: typ}
		col, err := s.build()
		if err != nil {
			h.Stat("c15.skipped")
			return
		}
		// all element values through the raw wire form: decode 2^bits rows of consecutive values
		n := 1 << uint(bits)
		raw := make([]byte, 0, n*bits/8)
		for i := 0; i < n; i++ {
			raw = append(raw, byte(i))
			if bits == 16 {
				raw = append(raw, byte(i>>8))
			}
		}
		ty, _, derr := colDump(col)
		if derr != nil || !(strings.HasPrefix(ty, "(fix") || ty == "bool") {
			return
		}
		if ty == "bool" {
			raw = []byte{0, 1, 1, 0}
			n = 4
		}
		obs, col2, ok := decObs(s, n, raw)
		oracle := "ok"
		if !ok {
			oracle = "FAIL:decode of all element values failed"
		} else if _, b2, e2 := encodeCol(col2, []byte{9, 9, 9}); e2 != nil || !bytes.Equal(b2, raw) {
			oracle = "FAIL:re-encoding of all element values differs"
		}
		h.Emit(fmt.Sprintf("dec %s %s %d %s", buildName, ty, n, hx(raw)), obs, oracle)
		// reset-after-use target: decode something else first, Reset, decode again
		if ok {
			col2.Reset()
			r := proto.NewReader(bytes.NewReader(raw))
			var obs2 string
			if err := col2.DecodeColumn(r, n); err != nil {
				obs2 = "err"
			} else {
				_, d2, _ := colDump(col2)
				obs2 = fmt.Sprintf("ok %s %d %s %d", d2, col2.Rows(), bsym(rowsReadable(col2)), 0)
			}
			o2 := "ok"
			if obs2 != obs {
				o2 = "FAIL:decode into a reset column differs from decode into a fresh one"
			}
			h.Emit(fmt.Sprintf("dec %s %s %d %s", buildName, ty, n, hx(raw)), obs2, o2)
		}
		h.Stat("c15.sweep")
	}
	for _, t := range narrow {
		sweep(t, 8)
	}
	if h.Tier == "thorough" {
		for _, t := range wide {
			sweep(t, 16)
		}
	}
	// reset-after-use for every catalogue kind: fill, encode, reset, decode own bytes, compare with fresh decode
	cat := c01Catalogue()
	n := 0
	for n < h.N {
		for _, s := range cat {
			if c01Skip(s) {
				continue
			}
			rows := []int{0, 1, 3, 9, 130}[h.R.Intn(5)]
			c := c01One(h, s, rows, true)
			n++
			if c == nil {
				continue
			}
			w := c.wire()
			obsFresh, _, okF := decObs(s, rows, w)
			// used target: the encoded column itself, Reset, then decode
			used := c.col
			used.Reset()
			obsUsed := "err"
			func() {
				defer func() {
					if p := recover(); p != nil {
						obsUsed = "crash"
					}
				}()
				r := proto.NewReader(bytes.NewReader(w))
				if rows > 0 {
					if sd, ok := used.(proto.StateDecoder); ok {
						if err := sd.DecodeState(r); err != nil {
							return
						}
					}
					if err := used.DecodeColumn(r, rows); err != nil {
						return
					}
				}
				_, d2, derr := colDump(used)
				if derr != nil {
					obsUsed = "-"
					return
				}
				obsUsed = fmt.Sprintf("ok %s %d %s %d", d2, used.Rows(), bsym(rowsReadable(used)), 0)
			}()
			oracle := "ok"
			if !okF || obsUsed != obsFresh {
				oracle = "FAIL:decode into a reset column differs from decode into a fresh one"
			}
			h.Emit(fmt.Sprintf("dec %s %s %d %s", buildName, c.ty, rows, hx(w)), obsUsed, oracle)
			if n >= h.N {
				break
			}
		}
	}
}

// C06 for protocol messages: mutated encodings must give a value or an error, never a panic
func init() { runners["c06msg"] = runC06Msg }

func runC06Msg(h *H) {
	revs := revisions(h)
	n := 0
	for n < h.N {
		for _, m := range messages {
			rev := revs[h.R.Intn(len(revs))]
			if !m.aware {
				rev = 0
			}
			v, fs := m.fresh()
			for _, f := range fs {
				f.gen(h.R)
			}
			var b proto.Buffer
			m.enc(v, &b, rev)
			body := b.Buf
			if m.hasCod {
				body = body[1:]
			}
			if len(body) == 0 {
				continue
			}
			for k := 0; k < 6; k++ {
				mut := append([]byte{}, body...)
				switch h.R.Intn(3) {
				case 0:
					mut[h.R.Intn(len(mut))] ^= 1 << uint(h.R.Intn(8))
				case 1:
					off := h.R.Intn(len(mut))
					ins := [][]byte{{0xff, 0xff, 0xff, 0xff, 0xff, 0xff, 0xff, 0xff, 0xff, 0x01}, {0x80, 0x80, 0x80, 0x80, 0x80, 0x80, 0x20}, {0xff, 0xff, 0xff, 0xff, 0x0f}}[h.R.Intn(3)]
					mut = append(append(append([]byte{}, mut[:off]...), ins...), mut[off+1:]...)
				default:
					mut[h.R.Intn(len(mut))] = []byte{0, 1, 2, 0x7f, 0x80, 0xff}[h.R.Intn(6)]
				}
				v2, fs2 := m.fresh()
				obs, _ := decodeObs(mut, func(r *proto.Reader) (string, error) {
					err := m.dec(v2, r, rev)
					return fieldsSx(fs2), err
				})
				oracle := "ok"
				if strings.HasPrefix(obs, "crash") {
					oracle = "FAIL:panic while decoding a " + m.name
				}
				h.Emit(fmt.Sprintf("dec %s %d %s", m.name, rev, hx(mut)), obs, oracle)
				n++
			}
			h.Stat("msgmut." + m.name)
		}
	}
}

// C01, documented type equivalences at block level: a column encoded under an equivalent spelling of its type
// (proto.Alias) must decode - into the typed column and through Results.Auto - to the same rows.  The width of
// Decimal(P, S) by precision class (1-9: 32, 10-18: 64, 19-38: 128, 39-76: 256 bits) is ClickHouse's documented
// storage rule, not something read from the library.
func init() { runners["c01alias"] = runC01Alias }

func runC01Alias(h *H) {
	type mk func() proto.Column
	classes := []struct {
		lo, hi int
		mk     mk
	}{
		{1, 9, func() proto.Column { return new(proto.ColDecimal32) }},
		{10, 18, func() proto.Column { return new(proto.ColDecimal64) }},
		{19, 38, func() proto.Column { return new(proto.ColDecimal128) }},
		{39, 76, func() proto.Column { return new(proto.ColDecimal256) }},
	}
	type alias struct {
		typ string
		mk  mk
	}
	var pool []alias
	for _, c := range classes {
		for _, p := range []int{c.lo, c.lo + 1, (c.lo + c.hi) / 2, c.hi - 1, c.hi} {
			for _, sp := range []string{"Decimal(%d, %d)", "Decimal(%d,%d)", "Decimal(%d ,  %d)"} {
				pool = append(pool, alias{fmt.Sprintf(sp, p, h.R.Intn(p+1)), c.mk})
			}
			pool = append(pool, alias{fmt.Sprintf("Decimal(%d)", p), c.mk})
		}
	}
	pool = append(pool,
		alias{"Decimal32(4)", classes[0].mk}, alias{"Decimal64(10)", classes[1].mk}, alias{"Decimal128(20)", classes[2].mk}, alias{"Decimal256(40)", classes[3].mk},
		alias{"Enum8('a' = 1, 'b' = 2)", func() proto.Column { return new(proto.ColInt8) }},
		alias{"Enum16('x' = 1000, 'y' = -5)", func() proto.Column { return new(proto.ColInt16) }},
		alias{"DateTime('UTC')", func() proto.Column { return new(proto.ColDateTime) }},
		alias{"DateTime('Europe/Berlin')", func() proto.Column { return new(proto.ColDateTime) }},
		alias{"DateTime64(3, 'UTC')", func() proto.Column { return new(proto.ColDateTime64).WithPrecision(proto.PrecisionMilli) }},
	)
	revs := []int{proto.Version, int(proto.FeatureCustomSerialization) - 1, int(proto.FeatureBlockInfo) - 1}
	for i := 0; i < h.N; i++ {
		a := pool[i%len(pool)]
		rev := revs[h.R.Intn(len(revs))]
		rows := []int{1, 2, 5}[h.R.Intn(3)]
		src := a.mk()
		spec := c14ColSpec{strPool: []string{"a", "b"}}
		switch c := src.(type) {
		case *proto.ColInt8: // Enum8 spelling: only values that are members
			for j := 0; j < rows; j++ {
				c.Append([]int8{1, 2}[h.R.Intn(2)])
			}
		case *proto.ColInt16:
			for j := 0; j < rows; j++ {
				c.Append([]int16{1000, -5}[h.R.Intn(2)])
			}
		default:
			if err := c14Fill(src, rows, rand.New(rand.NewSource(h.R.Int63())), spec); err != nil {
				h.Stat("alias.skipped")
				continue
			}
		}
		tail := new(proto.ColStr)
		for j := 0; j < rows; j++ {
			tail.Append(strconv.Itoa(j))
		}
		var buf proto.Buffer
		blk := proto.Block{Columns: 2, Rows: rows}
		name := fmt.Sprintf("alias %q rev=%d rows=%d", a.typ, rev, rows)
		if err := blk.EncodeBlock(&buf, rev, []proto.InputColumn{{Name: "v", Data: proto.Alias(src, proto.ColumnType(a.typ))}, {Name: "s", Data: tail}}); err != nil {
			h.Emit(name, "-", "FAIL:encode of an aliased column failed: "+sanitize(err.Error()))
			continue
		}
		oracle := "ok"
		check := func(kind string, target proto.Result, got func() (proto.Column, proto.Column)) {
			defer func() {
				if p := recover(); p != nil {
					oracle = fmt.Sprintf("FAIL:%s decode of %s panicked: %v", kind, a.typ, p)
				}
			}()
			r := proto.NewReader(bytes.NewReader(buf.Buf))
			var b2 proto.Block
			if err := b2.DecodeBlock(r, rev, target); err != nil {
				oracle = fmt.Sprintf("FAIL:%s decode of a block whose column is spelled %s was rejected: %s", kind, a.typ, sanitize(err.Error()))
				return
			}
			rest, _ := io.ReadAll(r)
			v, s := got()
			switch {
			case len(rest) != 0:
				oracle = fmt.Sprintf("FAIL:%s decode of %s left %d bytes of the block unread", kind, a.typ, len(rest))
			case b2.Rows != rows || v.Rows() != rows || s.Rows() != rows:
				oracle = fmt.Sprintf("FAIL:%s decode of %s: row counts differ", kind, a.typ)
			case !sameRows(tail, s):
				oracle = fmt.Sprintf("FAIL:%s decode of %s: the following column's rows differ", kind, a.typ)
			default:
				if _, b1, e1 := encodeCol(src, nil); e1 == nil {
					if _, b2b, e2 := encodeCol(v, nil); e2 != nil || !bytes.Equal(b1, b2b) {
						oracle = fmt.Sprintf("FAIL:%s decode of %s: decoded values differ from the encoded ones", kind, a.typ)
					}
				}
			}
		}
		typedV, typedS := a.mk(), new(proto.ColStr)
		check("typed", proto.Results{{Name: "v", Data: typedV}, {Name: "s", Data: typedS}}, func() (proto.Column, proto.Column) { return typedV, typedS })
		if oracle == "ok" {
			var auto proto.Results
			check("auto", auto.Auto(), func() (proto.Column, proto.Column) {
				if len(auto) != 2 {
					return new(proto.ColNothing), new(proto.ColNothing)
				}
				return auto[0].Data.(proto.Column), auto[1].Data.(proto.Column)
			})
		}
		h.Emit(name, "-", oracle)
		h.Stat("alias.block")
	}
}

// C18, type classes at their boundaries: a block column spelled Decimal(P, S) / DecimalN(S) must bind to a decimal
// target of the same storage class only (ClickHouse's documented classes 1-9 / 10-18 / 19-38 / 39-76 digits);
// any other class must be an error and must leave the target without data.
func init() { runners["c18cross"] = runC18Cross }

func runC18Cross(h *H) {
	mks := []func() proto.Column{
		func() proto.Column { return new(proto.ColDecimal32) }, func() proto.Column { return new(proto.ColDecimal64) },
		func() proto.Column { return new(proto.ColDecimal128) }, func() proto.Column { return new(proto.ColDecimal256) },
	}
	classOf := func(p int) int {
		switch {
		case p <= 9:
			return 0
		case p <= 18:
			return 1
		case p <= 38:
			return 2
		default:
			return 3
		}
	}
	precs := []int{1, 9, 10, 18, 19, 38, 39, 76}
	wrappers := []string{"%s", "Nullable(%s)", "Array(%s)"}
	for i := 0; i < h.N; i++ {
		p := precs[i%len(precs)]
		cls := classOf(p)
		typ := fmt.Sprintf([]string{"Decimal(%d, %d)", "Decimal(%d,%d)"}[h.R.Intn(2)], p, h.R.Intn(p+1))
		tcls := (i / len(precs)) % 4
		rows := 1 + h.R.Intn(3)
		src := mks[cls]()
		_ = c14Fill(src, rows, rand.New(rand.NewSource(h.R.Int63())), c14ColSpec{})
		wrap := wrappers[h.R.Intn(len(wrappers))]
		var in, target proto.Column
		switch wrap {
		case "%s":
			in, target = proto.Alias(src, proto.ColumnType(typ)), mks[tcls]()
		default:
			// Nullable / Array of the decimal, built through inference of the class's own canonical name
			names := []string{"Decimal32", "Decimal64", "Decimal128", "Decimal256"}
			a, b := new(proto.ColAuto), new(proto.ColAuto)
			if a.Infer(proto.ColumnType(fmt.Sprintf(wrap, names[cls]))) != nil || b.Infer(proto.ColumnType(fmt.Sprintf(wrap, names[tcls]))) != nil {
				continue
			}
			_ = c14Fill(a.Data, rows, rand.New(rand.NewSource(h.R.Int63())), c14ColSpec{})
			in, target = proto.Alias(a.Data, proto.ColumnType(fmt.Sprintf(wrap, typ))), b.Data
		}
		name := fmt.Sprintf("cross %q into class %d rows=%d", fmt.Sprintf(wrap, typ), tcls, rows)
		var buf proto.Buffer
		blk := proto.Block{Columns: 1, Rows: rows}
		if err := blk.EncodeBlock(&buf, proto.Version, []proto.InputColumn{{Name: "v", Data: in}}); err != nil {
			h.Emit(name, "-", "FAIL:encode failed: "+sanitize(err.Error()))
			continue
		}
		oracle := "ok"
		func() {
			defer func() {
				if r := recover(); r != nil {
					oracle = fmt.Sprintf("FAIL:binding %s panicked: %v", typ, r)
				}
			}()
			r := proto.NewReader(bytes.NewReader(buf.Buf))
			var b2 proto.Block
			err := b2.DecodeBlock(r, proto.Version, proto.Results{{Name: "v", Data: target}})
			switch {
			case cls == tcls && err != nil:
				oracle = fmt.Sprintf("FAIL:type: %s rejected by a target of its own class: %s", fmt.Sprintf(wrap, typ), sanitize(err.Error()))
			case cls != tcls && err == nil:
				oracle = fmt.Sprintf("FAIL:type: %s (class %d) bound to a decimal target of class %d without an error; the target holds %d rows of foreign data", fmt.Sprintf(wrap, typ), cls, tcls, target.Rows())
			}
		}()
		h.Emit(name, "-", oracle)
		h.Stat("cross.decimal")
	}
}

// C01 / C06: values beyond the reader's 1 MiB growth step, and sequences of blocks decoded into the same targets
func init() {
	runners["c01long"] = runC01Long
	runners["c06seq"] = runC06Seq
}

func runC01Long(h *H) {
	mk := []func() (proto.Column, func(string)){
		func() (proto.Column, func(string)) { c := new(proto.ColStr); return c, func(s string) { c.Append(s) } },
		func() (proto.Column, func(string)) {
			c := new(proto.ColStr).Array()
			return c, func(s string) { c.Append([]string{"x", s, "y"}) }
		},
		func() (proto.Column, func(string)) {
			c := new(proto.ColStr).Nullable()
			return c, func(s string) { c.Append(proto.NewNullable(s)) }
		},
	}
	lens := []int{1<<20 - 1, 1 << 20, 1<<20 + 1, 1<<20 + 1<<19, 3<<20 + 7}
	for i := 0; i < h.N && i < len(lens)*len(mk); i++ {
		n := lens[i%len(lens)]
		long := make([]byte, n)
		for j := range long {
			long[j] = byte('a' + j%23)
		}
		src, app := mk[(i/len(lens))%len(mk)]()
		pos := h.R.Intn(3)
		for r := 0; r < 3; r++ {
			if r == pos {
				app(string(long))
			} else {
				app("short" + strconv.Itoa(r))
			}
		}
		tailCol := new(proto.ColUInt64)
		for r := 0; r < 3; r++ {
			tailCol.Append(uint64(1000 + r))
		}
		name := fmt.Sprintf("long %s len=%d at row %d", src.Type(), n, pos)
		var buf proto.Buffer
		blk := proto.Block{Columns: 2, Rows: 3}
		if err := blk.EncodeBlock(&buf, proto.Version, []proto.InputColumn{{Name: "s", Data: src}, {Name: "n", Data: tailCol}}); err != nil {
			h.Emit(name, "-", "FAIL:encode failed: "+sanitize(err.Error()))
			continue
		}
		oracle := "ok"
		for _, auto := range []bool{false, true} {
			func() {
				defer func() {
					if p := recover(); p != nil {
						oracle = fmt.Sprintf("FAIL:decode of a %d-byte string value panicked: %v", n, p)
					}
				}()
				var res proto.Results
				var target proto.Result
				dst, _ := mk[(i/len(lens))%len(mk)]()
				dn := new(proto.ColUInt64)
				if auto {
					target = res.Auto()
				} else {
					res = proto.Results{{Name: "s", Data: dst}, {Name: "n", Data: dn}}
					target = res
				}
				r := proto.NewReader(bytes.NewReader(buf.Buf))
				var b2 proto.Block
				if err := b2.DecodeBlock(r, proto.Version, target); err != nil {
					oracle = fmt.Sprintf("FAIL:a block encoded by the library with a %d-byte string value does not decode (auto=%v): %s", n, auto, sanitize(err.Error()))
					return
				}
				rest, _ := io.ReadAll(r)
				if len(rest) != 0 || len(res) != 2 {
					oracle = fmt.Sprintf("FAIL:block with a %d-byte string value: %d bytes left unread (auto=%v)", n, len(rest), auto)
					return
				}
				if !sameRows(src, res[0].Data.(proto.Column)) || !sameRows(tailCol, res[1].Data.(proto.Column)) {
					oracle = fmt.Sprintf("FAIL:block with a %d-byte string value decodes to other values (auto=%v)", n, auto)
				}
			}()
		}
		h.Emit(name, "-", oracle)
		h.Stat("long.block")
	}
}

// sequences of blocks into one set of targets: after EVERY block each target must report that block's row count
// and every Row(i) below it must be readable (C06's consistency clause on reused targets)
func runC06Seq(h *H) {
	cat := c01Catalogue()
	for i := 0; i < h.N; i++ {
		ncols := 1 + h.R.Intn(3)
		var specs []c14ColSpec
		for len(specs) < ncols {
			s := cat[h.R.Intn(len(cat))]
			if c01Skip(s) {
				continue
			}
			if c, err := s.build(); err != nil || c == nil {
				continue
			} else if tup, ok := c.(proto.ColTuple); ok && len(tup) == 0 {
				continue
			}
			specs = append(specs, s)
		}
		auto := h.R.Intn(3) == 0
		var res proto.Results
		var target proto.Result
		if auto {
			target = res.Auto()
		} else {
			for j, s := range specs {
				c, _ := s.build()
				res = append(res, proto.ResultColumn{Name: "c" + strconv.Itoa(j), Data: c})
			}
			target = res
		}
		rowSeq := [][]int{{3, 0}, {2, 0, 1}, {0, 2, 0}, {4, 1}, {1, 0, 0, 2}}[h.R.Intn(5)]
		oracle := "ok"
		desc := fmt.Sprintf("seq auto=%v rows=%v cols=", auto, rowSeq)
		for _, s := range specs {
			desc += s.name() + ";"
		}
		desc = sanitize(strings.ReplaceAll(desc, "\"", "'"))
	blocks:
		for bi, rows := range rowSeq {
			var in []proto.InputColumn
			for j, s := range specs {
				c, err := c14Make(s, rows, h.R.Int63(), false)
				if err != nil {
					oracle = "-"
					break blocks
				}
				in = append(in, proto.InputColumn{Name: "c" + strconv.Itoa(j), Data: c})
			}
			var buf proto.Buffer
			blk := proto.Block{Columns: len(in), Rows: rows}
			if err := blk.EncodeBlock(&buf, proto.Version, in); err != nil {
				oracle = "-"
				break
			}
			failed := func() (msg string) {
				defer func() {
					if p := recover(); p != nil {
						msg = fmt.Sprintf("FAIL:block %d of the sequence: panic %v", bi, p)
					}
				}()
				r := proto.NewReader(bytes.NewReader(buf.Buf))
				var b2 proto.Block
				if err := b2.DecodeBlock(r, proto.Version, target); err != nil {
					if auto && bi == 0 {
						return "-" // a type the inference does not know: not this family's subject
					}
					return fmt.Sprintf("FAIL:block %d of the sequence (own encoding, same schema) rejected: %s", bi, sanitize(err.Error()))
				}
				if auto && len(res) != len(specs) {
					return fmt.Sprintf("FAIL:block %d: %d targets inferred for %d columns", bi, len(res), len(specs))
				}
				for j := range res {
					c := res[j].Data.(proto.Column)
					if c.Rows() != rows {
						return fmt.Sprintf("FAIL:rows: after block %d with %d rows target %d (%s) reports Rows() = %d", bi, rows, j, sanitize(string(c.Type())), c.Rows())
					}
					if !rowsReadable(c) {
						return fmt.Sprintf("FAIL:Row: after block %d a Row(i) accessor of target %d panics", bi, j)
					}
					// the values are those of the block, whatever the target went through before
					if a, ok := c.(*proto.ColAuto); ok {
						c = a.Data
					}
					want, got := c16ReadAll(in[j].Data.(proto.Column)), c16ReadAll(c)
					if len(want) == len(got) {
						for k := range want {
							if reflect.TypeOf(want[k]) != reflect.TypeOf(got[k]) {
								break // another Go representation of the same type (ColBytes read into ColStr): not compared
							}
							if !c16Same(want[k], got[k]) {
								return sanitize(fmt.Sprintf("FAIL:values: after block %d row %d of target %d (%s) is %.60q, the block holds %.60q", bi, k, j, string(c.Type()), fmt.Sprint(got[k]), fmt.Sprint(want[k])))
							}
						}
					}
				}
				// another path re-infers the bound columns between two blocks (what sendInput does to a column that is
				// then used as INSERT input for a table declaring it differently): the next block must still be read
				// with ITS type's parameters
				if !auto && h.R.Intn(2) == 0 {
					for j, s := range specs {
						c := res[j].Data.(proto.Column)
						if pool := c16InferPool(s, c); len(pool) > 0 {
							_ = c.(proto.Inferable).Infer(proto.ColumnType(pool[h.R.Intn(len(pool))].typ))
						}
					}
				}
				return ""
			}()
			if failed == "-" {
				oracle = "-"
				break
			}
			if failed != "" {
				oracle = failed
				break
			}
		}
		if oracle == "-" {
			h.Stat("seq.skipped")
			continue
		}
		h.Emit(desc, "-", oracle)
		h.Stat("seq.blocks")
	}
}

// C07 with values beyond the reader's 1 MiB growth step: cuts inside a long String value at the end of a block
func init() { runners["c07long"] = runC07Long }

func runC07Long(h *H) {
	for _, n := range []int{1<<20 + 1<<16, 2<<20 + 5} {
		long := make([]byte, n)
		for j := range long {
			long[j] = byte('a' + j%23)
		}
		id := new(proto.ColUInt32)
		pay := new(proto.ColStr)
		id.Append(1)
		id.Append(2)
		pay.Append("first")
		pay.AppendBytes(long)
		var buf proto.Buffer
		blk := proto.Block{Columns: 2, Rows: 2}
		if err := blk.EncodeBlock(&buf, proto.Version, []proto.InputColumn{{Name: "id", Data: id}, {Name: "payload", Data: pay}}); err != nil {
			h.Emit(fmt.Sprintf("longcut %d", n), "-", "FAIL:encode failed")
			continue
		}
		w := buf.Buf
		var cuts []int
		for c := 0; c < 80 && c < len(w); c++ {
			cuts = append(cuts, c)
		}
		for c := 80; c < len(w); c += 65521 {
			cuts = append(cuts, c)
		}
		for c := len(w) - 200; c < len(w); c++ {
			cuts = append(cuts, c)
		}
		for _, auto := range []bool{false, true} {
			accepted, panicked, first := 0, 0, -1
			for _, c := range cuts {
				func() {
					defer func() {
						if p := recover(); p != nil {
							panicked++
							if first < 0 {
								first = c
							}
						}
					}()
					var res proto.Results
					var target proto.Result
					if auto {
						target = res.Auto()
					} else {
						res = proto.Results{{Name: "id", Data: new(proto.ColUInt32)}, {Name: "payload", Data: new(proto.ColStr)}}
						target = res
					}
					var b2 proto.Block
					if err := b2.DecodeBlock(proto.NewReader(bytes.NewReader(w[:c])), proto.Version, target); err == nil {
						accepted++
						if first < 0 {
							first = c
						}
					}
				}()
			}
			oracle := "ok"
			if accepted+panicked > 0 {
				oracle = fmt.Sprintf("FAIL:block ending in a %d-byte String value: of %d proper prefixes %d were accepted as a complete block and %d panicked (first at %d of %d bytes, auto=%v)",
					n, len(cuts), accepted, panicked, first, len(w), auto)
			}
			h.Emit(fmt.Sprintf("longcut %d auto=%v cuts=%d", n, auto, len(cuts)), "-", oracle)
			h.Stat("cut.longvalue")
		}
	}
}
