package main

// C01 through automatic inference - family c01auto.
//
// Real proto.ColAuto.Infer, Block.EncodeBlock and Block.DecodeBlock with Results.Auto().
//
//	infcls (zones) ty                        -> ok t xTYPE xCREATED | ok r xTYPE xCREATED | ok f xTYPE
//	      does ColAuto.Infer accept the type a column of type tree ty prints, and what does the column it
//	      creates print (r: the source is a ColFixedStr{Size} of a generated size, created as ColFixedStrN)
//	encblock / decblock t                    as in c18.go (model/GlueRes.v): the first block into an empty
//	      Results.Auto(), the second block of the same schema into the columns the first one left
//
// Type trees: every catalogue kind (the real column's dump), and type strings generated from the class of
// model/AutoClass.v and around it: every leaf kind, DateTime / DateTime64 zones and precisions 0..10, Decimal
// at the class boundaries and beyond, FixedString of generated and other sizes, enum definitions with awkward
// names, and Array / Nullable / LowCardinality nestings to depth 4.
// Direct oracle: ColAuto.Infer(T) = nil  =>  the created column prints T (a Decimal spelling: its DecimalN) and
// does not conflict with T; a block of inferable columns decodes through Results.Auto() to the same names,
// types, rows and contents, exactly consumed - first block and second block.

import (
	"bytes"
	"fmt"
	"math/rand"
	"strconv"
	"strings"

	"github.com/ClickHouse/ch-go/proto"
)

func init() { runners["c01auto"] = runC01Auto }

type c01aType struct {
	str   string   // the printed type
	sx    string   // the model's type tree (as harness/cols.go dumps it)
	pool  []string // enum names
	width int      // bytes per row of a fixed-width leaf (0: not applicable)
	odd   bool     // a spelling the class deliberately leaves out although the code accepts it: not compared
	defs  []c01aDef // enum definitions, as generated
}

func c01aFix(name string, w int) c01aType {
	return c01aType{str: name, sx: sx("fix", hx([]byte(name)), strconv.Itoa(w)), width: w}
}

func c01aDecimalWidth(p int) int {
	switch {
	case p < 10:
		return 4
	case p < 19:
		return 8
	case p < 39:
		return 16
	}
	return 32
}

type c01aDef struct {
	name string
	val  int
}

// c01aEnum prints the definitions as the server does (sp = 1) or compactly (sp = 0)
func c01aEnum(w int, sp int, defs []c01aDef) c01aType {
	base := "Enum8"
	if w == 2 {
		base = "Enum16"
	}
	pad := strings.Repeat(" ", sp)
	var parts, sxs, pool []string
	for _, d := range defs {
		parts = append(parts, "'"+d.name+"'"+pad+"="+pad+strconv.Itoa(d.val))
		sxs = append(sxs, sx(hx([]byte(d.name)), strconv.Itoa(d.val)))
		pool = append(pool, d.name)
	}
	str := base + "(" + strings.Join(parts, ","+pad) + ")"
	return c01aType{str: str, sx: sx("enum", hx([]byte(str)), strconv.Itoa(w), sx(sxs...)), pool: pool, width: w, defs: defs}
}

var c01aZones = []string{"UTC", "Europe/Moscow", "Asia/Kolkata", "America/New_York", "Etc/GMT+5", "Nowhere/Land", "", "Local", "utc"}

var c01aEnumNames = []string{"a", "b", "hello world", " lead", "trail ", "it\\'s", "", "ünï cødé", "a)b", "(x", "x(y)z", "日本", "tab\there", "q\"uote", "-", "1"}

// names ColEnum.parse cannot read back (the definition list is split at every comma, a definition at its first '=')
var c01aEnumBad = []string{"p,q", "x=y", ",", "="}

// names the code accepts but reads as another name (strings.Trim(.., "'") eats the quotes at the ends)
var c01aEnumOdd = []string{"'q", "q'", "'"}

func c01aLeaves(h *H) []c01aType {
	var out []c01aType
	for _, f := range []struct {
		n string
		w int
	}{{"Int8", 1}, {"Int16", 2}, {"Int32", 4}, {"Int64", 8}, {"Int128", 16}, {"Int256", 32},
		{"UInt8", 1}, {"UInt16", 2}, {"UInt32", 4}, {"UInt64", 8}, {"UInt128", 16}, {"UInt256", 32},
		{"Float32", 4}, {"Float64", 8}, {"IPv4", 4}, {"IPv6", 16}, {"Date", 2}, {"Date32", 4}, {"DateTime", 4},
		{"Decimal32", 4}, {"Decimal64", 8}, {"Decimal128", 16}, {"Decimal256", 32},
		{"IntervalSecond", 8}, {"IntervalMinute", 8}, {"IntervalHour", 8}, {"IntervalDay", 8}, {"IntervalWeek", 8},
		{"IntervalMonth", 8}, {"IntervalQuarter", 8}, {"IntervalYear", 8},
		// not types ColAuto knows
		{"IntervalFortnight", 8}, {"intervalsecond", 8}, {"Enum8", 1}, {"DateTime64", 8}, {"Int7", 1},
	} {
		out = append(out, c01aFix(f.n, f.w))
	}
	// accepted as Decimal(10, 0), which nothing prints: outside the class, not compared
	bare := c01aFix("Decimal", 8)
	bare.odd = true
	out = append(out, bare)
	out = append(out,
		c01aType{str: "String", sx: "str"}, c01aType{str: "Bool", sx: "bool", width: 1}, c01aType{str: "UUID", sx: "uuid", width: 16},
		c01aType{str: "Nothing", sx: "nothing", width: 1}, c01aType{str: "Point", sx: "point"}, c01aType{str: "JSON", sx: "json"},
		c01aType{str: "Map(String, String)", sx: "(map str str)"}, c01aType{str: "Map(String, Int8)", sx: sx("map", "str", c01aFix("Int8", 1).sx)},
		c01aType{str: "Tuple(String, Int8)", sx: sx("tuple", "str", c01aFix("Int8", 1).sx)},
	)
	for _, n := range []int{8, 16, 32, 64, 128, 256, 512, 1, 3, 7, 9, 24, 1024} {
		out = append(out, c01aFix("FixedString("+strconv.Itoa(n)+")", n))
		out = append(out, c01aType{str: "FixedString(" + strconv.Itoa(n) + ")", sx: sx("fstr", strconv.Itoa(n))})
	}
	for _, z := range c01aZones {
		t := c01aFix("DateTime('"+z+"')", 4)
		t.odd = z == "" // time.LoadLocation("") is UTC: the created column prints DateTime('UTC'); no column prints DateTime('')
		out = append(out, t)
	}
	for p := 0; p <= 10; p++ {
		out = append(out, c01aFix("DateTime64("+strconv.Itoa(p)+")", 8))
		z := c01aZones[h.R.Intn(len(c01aZones))]
		t := c01aFix("DateTime64("+strconv.Itoa(p)+", '"+z+"')", 8)
		t.odd = z == ""
		out = append(out, t)
	}
	for _, p := range []int{0, 1, 2, 9, 10, 11, 18, 19, 20, 38, 39, 40, 76, 77, 100} {
		s := 0
		if p > 0 {
			s = h.R.Intn(p + 1)
		}
		out = append(out, c01aFix(fmt.Sprintf("Decimal(%d, %d)", p, s), c01aDecimalWidth(p)))
	}
	for _, d := range []struct {
		n string
		w int
	}{{"Decimal32", 4}, {"Decimal64", 8}, {"Decimal128", 16}, {"Decimal256", 32}} {
		out = append(out, c01aFix(fmt.Sprintf("%s(%d)", d.n, h.R.Intn(d.w*2)), d.w))
	}
	out = append(out, c01aEnums(h)...)
	return out
}

func c01aEnums(h *H) []c01aType {
	var out []c01aType
	pick := func(pool []string, k int) []c01aDef {
		perm := h.R.Perm(len(pool))
		var defs []c01aDef
		for i := 0; i < k && i < len(perm); i++ {
			defs = append(defs, c01aDef{pool[perm[i]], 0})
		}
		return defs
	}
	number := func(defs []c01aDef, w int) {
		used := map[int]bool{}
		for i := range defs {
			for {
				v := h.R.Intn(256) - 128
				if w == 2 && h.R.Intn(2) == 0 {
					v = h.R.Intn(65536) - 32768
				}
				if h.R.Intn(4) == 0 {
					v = []int{-128, 127, 0, 1, -1}[h.R.Intn(5)]
				}
				if !used[v] {
					used[v] = true
					defs[i].val = v
					break
				}
			}
		}
	}
	for i := 0; i < 14; i++ {
		w := 1 + h.R.Intn(2)
		defs := pick(c01aEnumNames, 1+h.R.Intn(4))
		number(defs, w)
		out = append(out, c01aEnum(w, h.R.Intn(2), defs))
	}
	// every awkward name once, alone
	for _, n := range c01aEnumNames {
		out = append(out, c01aEnum(1, 1, []c01aDef{{n, 1 + h.R.Intn(100)}}))
	}
	for _, n := range c01aEnumBad {
		defs := append(pick(c01aEnumNames, h.R.Intn(2)), c01aDef{n, 0})
		number(defs, 1)
		out = append(out, c01aEnum(1, h.R.Intn(2), defs))
	}
	for _, n := range c01aEnumOdd {
		t := c01aEnum(1, 1, []c01aDef{{n, 5}})
		t.odd = true
		out = append(out, t)
	}
	// Enum16 whose values all fit in a byte, and an Enum8 at its limits
	out = append(out, c01aEnum(2, 1, []c01aDef{{"lo", -128}, {"hi", 127}, {"zero", 0}}), c01aEnum(1, 1, []c01aDef{{"lo", -128}, {"hi", 127}}),
		c01aEnum(2, 0, []c01aDef{{"min", -32768}, {"max", 32767}}))
	// no definitions
	out = append(out, c01aType{str: "Enum8()", sx: sx("enum", hx([]byte("Enum8()")), "1", "()"), width: 1})
	return out
}

func c01aWrap(w string, t c01aType) c01aType {
	tag := map[string]string{"Array": "arr", "Nullable": "nullable", "LowCardinality": "lc"}[w]
	return c01aType{str: w + "(" + t.str + ")", sx: sx(tag, t.sx), pool: t.pool, odd: t.odd}
}

var c01aWrappers = []string{"Array", "Nullable", "LowCardinality"}

// c01aNorm: the type the created column prints - the bare DecimalN for every decimal spelling
func c01aNorm(t string) string {
	for _, w := range c01aWrappers {
		if strings.HasPrefix(t, w+"(") && strings.HasSuffix(t, ")") {
			return w + "(" + c01aNorm(t[len(w)+1:len(t)-1]) + ")"
		}
	}
	if strings.HasPrefix(t, "Decimal") {
		return c18Family(t)
	}
	return t
}

func c01aInfer(t string) (col proto.Column, dt string, err error) {
	defer func() {
		if p := recover(); p != nil {
			err = fmt.Errorf("panic: %v", p)
			col = nil
		}
	}()
	var a proto.ColAuto
	if err := a.Infer(proto.ColumnType(t)); err != nil {
		return nil, "", err
	}
	return a.Data, string(a.DataType), nil
}

func c01aConflicts(a, b string) (c bool) {
	defer func() {
		if recover() != nil {
			c = true
		}
	}()
	return proto.ColumnType(a).Conflicts(proto.ColumnType(b))
}

// c01aClass emits one infcls case; returns whether ColAuto.Infer accepted the type
func c01aClass(h *H, t c01aType) bool {
	fstrSource := strings.Contains(t.sx, "(fstr ")
	col, dt, err := c01aInfer(t.str)
	obs, oracle := "ok f "+hx([]byte(t.str)), "ok"
	if err != nil && strings.HasPrefix(err.Error(), "panic") {
		obs, oracle = "crash", "FAIL:ColAuto.Infer panicked on "+c18Clean(strconv.Quote(t.str))+": "+c18Clean(err.Error())
	}
	if err == nil {
		got := string(col.Type())
		letter := "t"
		if fstrSource {
			letter = "r"
		}
		obs = "ok " + letter + " " + hx([]byte(t.str)) + " " + hx([]byte(got))
		switch {
		case dt != t.str:
			oracle = fmt.Sprintf("FAIL:infer-type: ColAuto reports %s after Infer(%s)", c18Clean(strconv.Quote(dt)), c18Clean(strconv.Quote(t.str)))
		case got != c01aNorm(t.str) && !t.odd:
			oracle = fmt.Sprintf("FAIL:infer-type: Infer(%s) created a column of type %s", c18Clean(strconv.Quote(t.str)), c18Clean(strconv.Quote(got)))
		case c01aConflicts(t.str, got) || c01aConflicts(got, t.str):
			oracle = fmt.Sprintf("FAIL:infer-type: %s conflicts with the column created for it (%s)", c18Clean(strconv.Quote(t.str)), c18Clean(strconv.Quote(got)))
		}
		h.Stat("c01auto.class.inferable")
	} else {
		h.Stat("c01auto.class.refused")
	}
	if t.odd {
		obs = "-"
	}
	h.Emit("infcls "+c19ZoneTable(t.str)+" "+t.sx, obs, oracle)
	return err == nil
}

func c01aSpec(t c01aType) c18Spec {
	return c18Spec{c14ColSpec: c14ColSpec{typ: t.str, strPool: t.pool}}
}

// c01aJudge: the property, on the implementation alone
func c01aJudge(res proto.Results, o c18Out, srcs []c18Src, rows int, trail int) string {
	if o.crashed {
		return "FAIL:DecodeBlock panicked: " + c18Clean(o.err.Error())
	}
	if o.err != nil {
		return "FAIL:auto-roundtrip: a block of inferable column types was rejected by Results.Auto(): " + c18Clean(o.err.Error())
	}
	if o.left != trail {
		return fmt.Sprintf("FAIL:auto-roundtrip: the block was not consumed exactly: %d bytes left, %d follow it", o.left, trail)
	}
	if o.blk.Columns != len(srcs) || o.blk.Rows != rows {
		return fmt.Sprintf("FAIL:auto-roundtrip: decoded %d columns, %d rows of a block of %d columns, %d rows", o.blk.Columns, o.blk.Rows, len(srcs), rows)
	}
	if len(srcs) == 0 && rows == 0 {
		return "ok"
	}
	if len(res) != len(srcs) {
		return fmt.Sprintf("FAIL:auto-roundtrip: %d result columns for a block of %d", len(res), len(srcs))
	}
	for i, s := range srcs {
		if res[i].Name != s.name {
			return fmt.Sprintf("FAIL:auto-roundtrip: name: column %d %s came back as %s", i, c18Clean(strconv.Quote(s.name)), c18Clean(strconv.Quote(res[i].Name)))
		}
		if got := string(res[i].Data.Type()); got != c01aNorm(s.typ) {
			return fmt.Sprintf("FAIL:auto-roundtrip: type: column %d of type %s came back as %s", i, c18Clean(strconv.Quote(s.typ)), c18Clean(strconv.Quote(got)))
		}
		if n := c18Rows(res[i].Data); n != rows {
			return fmt.Sprintf("FAIL:auto-roundtrip: rows: column %d reports %d rows after a block of %d", i, n, rows)
		}
		if !c18Holds(res[i].Data, s) {
			return fmt.Sprintf("FAIL:auto-roundtrip: data: column %d (%s) does not encode to the bytes it was decoded from", i, c18Clean(s.typ))
		}
		_, want, e1 := colDump(s.col)
		_, got, e2 := colDump(res[i].Data)
		if e1 == nil && e2 == nil && c18Norm(want) != c18Norm(got) {
			return fmt.Sprintf("FAIL:auto-roundtrip: data: column %d (%s) holds other contents than the encoded column", i, c18Clean(s.typ))
		}
		if col, ok := res[i].Data.(proto.Column); ok && !sameRows(s.col, col) {
			return fmt.Sprintf("FAIL:auto-roundtrip: values: column %d (%s) reports other row values", i, c18Clean(s.typ))
		}
	}
	return "ok"
}

// c01aBlocks: two blocks of one schema through the same Results.Auto()
func c01aBlocks(h *H, ts []c01aType) {
	var specs []c18Spec
	var names []string
	for j, t := range ts {
		specs = append(specs, c01aSpec(t))
		names = append(names, c18Name(h, j))
	}
	rev := c18Rev(h)
	var res proto.Results
	for blk := 0; blk < 2; blk++ {
		rows := c18RowsPick(h)
		srcs, err := c18Sources(h, specs, names, rows)
		if err != nil {
			h.Stat("c01auto.skipped.source")
			return
		}
		encLine, wire, err := c18Encode(rev, c18Info(h), rows, srcs)
		if err != nil {
			h.Stat("c01auto.skipped.encode")
			return
		}
		// a fixed-width leaf takes its width on the wire, whatever the inference made of it
		for i, t := range ts {
			if t.width > 0 && len(srcs[i].body) != rows*t.width {
				h.Emit(fmt.Sprintf("width %s %d", hx([]byte(t.str)), rows), "-",
					fmt.Sprintf("FAIL:auto-roundtrip: width: %d rows of %s are %d bytes on the wire, %d per row expected", rows, c18Clean(t.str), len(srcs[i].body), t.width))
			}
		}
		if encLine != "" {
			h.Emit(encLine, "ok "+hx(wire), "ok")
			h.Stat("c01auto.encblock")
		}
		trailing := genShortBytes(h.R)
		wire = append(wire, trailing...)
		before, okb := c18TargetsSx(res)
		var types []string
		for _, s := range srcs {
			types = append(types, s.typ)
		}
		o := c18Decode(true, &res, rev, wire)
		obs := c18Obs(o, res)
		if !okb {
			obs = "-"
		}
		oracle := c01aJudge(res, o, srcs, rows, len(trailing))
		h.Emit(fmt.Sprintf("decblock t %s %d %s %s %s", buildName, rev, c18Zones(types...), before, hx(wire)), obs, oracle)
		h.Stat(fmt.Sprintf("c01auto.block%d", blk+1))
		if o.err != nil || o.crashed {
			return
		}
	}
}

// modelled nestings only (see c01Skip); rows of Nothing under LowCardinality etc. are refused by Infer anyway
func c01aBlockable(t c01aType) bool {
	if c01Skip(c14ColSpec{typ: t.str}) || strings.Contains(t.sx, "(fstr ") {
		return false
	}
	// harness/cols.go dumps the generated FixedString columns wider than 32 bytes as raw buffers, the model holds
	// them as scalars (and 2048/4096-bit scalars are slow in the evaluator): their blocks are C01's typed family
	for _, n := range []string{"64", "128", "256", "512"} {
		if strings.Contains(t.str, "FixedString("+n+")") {
			return false
		}
	}
	return true
}

// c01aEnumJudge: the names of an enum definition, as generated, against the inferring enum column: every name can be
// appended and encodes to its number, and the numbers decode to exactly the names (spaces inside the quotes belong to the name)
func c01aEnumJudge(t c01aType) (o string) {
	defer func() {
		if p := recover(); p != nil {
			o = fmt.Sprintf("FAIL:enum names: panic: %v", p)
		}
	}()
	var e proto.ColEnum
	if err := e.Infer(proto.ColumnType(t.str)); err != nil {
		return "FAIL:enum names: the definition is not accepted: " + c18Clean(err.Error())
	}
	var want []byte
	for _, d := range t.defs {
		e.Append(d.name)
		want = append(want, byte(d.val))
		if t.width == 2 {
			want = append(want, byte(d.val>>8))
		}
	}
	if err := e.Prepare(); err != nil {
		return "FAIL:enum names: a column holding the names of its own definition cannot be prepared: " + c18Clean(err.Error())
	}
	var b proto.Buffer
	e.EncodeColumn(&b)
	if !bytes.Equal(b.Buf, want) {
		return fmt.Sprintf("FAIL:enum names: the names encode to %x, their numbers are %x", b.Buf, want)
	}
	var d proto.ColEnum
	if err := d.Infer(proto.ColumnType(t.str)); err != nil {
		return "FAIL:enum names: infer: " + c18Clean(err.Error())
	}
	if err := d.DecodeColumn(proto.NewReader(bytes.NewReader(want)), len(t.defs)); err != nil {
		return "FAIL:enum names: decode: " + c18Clean(err.Error())
	}
	if d.Rows() != len(t.defs) {
		return fmt.Sprintf("FAIL:enum names: %d rows decoded of %d", d.Rows(), len(t.defs))
	}
	for i, def := range t.defs {
		if got := d.Row(i); got != def.name {
			return fmt.Sprintf("FAIL:enum names: number %d decodes to the name %s, the definition says %s", def.val, c18Clean(strconv.Quote(got)), c18Clean(strconv.Quote(def.name)))
		}
	}
	return "ok"
}

func runC01Auto(h *H) {
	leaves := c01aLeaves(h)
	var inferable []c01aType
	for _, t := range leaves {
		if len(t.defs) > 0 && !t.odd {
			good := true
			for _, d := range t.defs {
				for _, bad := range c01aEnumBad {
					good = good && d.name != bad
				}
			}
			if good {
				h.Emit("enumnames "+hx([]byte(t.str)), "-", c01aEnumJudge(t))
				h.Stat("c01auto.enumnames")
			}
		}
	}

	// 1. the class against the code: leaves, then nestings to depth 4
	all := append([]c01aType{}, leaves...)
	level := leaves
	for depth := 1; depth <= 4; depth++ {
		var next []c01aType
		for _, w := range c01aWrappers {
			for _, t := range level {
				next = append(next, c01aWrap(w, t))
			}
		}
		// the full product at depth 1 and 2 of a sample, a sample beyond
		keep := len(next)
		if depth == 2 {
			keep = 400
		} else if depth > 2 {
			keep = 150
		}
		h.R.Shuffle(len(next), func(i, j int) { next[i], next[j] = next[j], next[i] })
		if keep < len(next) {
			// prefer what the code accepts one level below: the interesting boundary
			var acc, rest []c01aType
			for _, t := range next {
				if _, _, err := c01aInfer(t.str); err == nil {
					acc = append(acc, t)
				} else {
					rest = append(rest, t)
				}
			}
			next = append(acc, rest...)
			if len(acc) > keep*2/3 {
				next = append(append([]c01aType{}, acc[:keep*2/3]...), rest...)
			}
			if len(next) > keep {
				next = next[:keep]
			}
		}
		all = append(all, next...)
		level = next
	}
	budget := h.N
	if budget < 200 {
		budget = 200
	}
	for i, t := range all {
		if i >= len(leaves)+3*len(leaves) && h.Tier != "thorough" && i%2 == 1 && h.N < 2000 {
			continue // quick tier: every leaf, every depth-1 nesting, half of the deeper sample
		}
		if c01aClass(h, t) && !t.odd && c01aBlockable(t) {
			inferable = append(inferable, t)
		}
	}

	// 2. every catalogue kind: the real column's own dump and printed type
	for _, s := range c01Catalogue() {
		col, err := s.build()
		if err != nil {
			continue
		}
		ty, _, derr := colDump(col)
		if derr != nil {
			h.Stat("c01auto.catalogue.nodump")
			continue
		}
		c01aClass(h, c01aType{str: string(col.Type()), sx: ty})
		h.Stat("c01auto.catalogue")
	}

	// 3. blocks through Results.Auto(): one to four inferable columns, first and second block
	if len(inferable) == 0 {
		h.Emit("pool", "-", "FAIL:auto-roundtrip: ColAuto.Infer accepted none of the generated types")
		return
	}
	n := budget / 4
	for i := 0; i < n; i++ {
		k := 1 + h.R.Intn(4)
		if h.R.Intn(15) == 0 {
			k = 0
		}
		var ts []c01aType
		for j := 0; j < k; j++ {
			ts = append(ts, inferable[h.R.Intn(len(inferable))])
		}
		if i < len(inferable) && k > 0 {
			ts[0] = inferable[i] // every inferable type at least once while the budget lasts
		}
		c01aBlocks(h, ts)
	}
	_ = bytes.Equal
	_ = rand.Int
}
