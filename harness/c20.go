package main

// C20 — scalar conversions.  Runs the real proto helpers and temporal columns on batches of instants /
// values, prints what they return (compared with the Coq model by checks/c20.py) and evaluates the
// property itself directly on those return values (third transcript column), with Go's time, math/big
// and net/netip packages as the independent reference.

import (
	"encoding/hex"
	"fmt"
	"math"
	"math/big"
	"net/netip"
	"os"
	"runtime"
	"strconv"
	"strings"
	"sync"
	"time"
	_ "time/tzdata" // the zone database, whatever the host has installed

	"github.com/ClickHouse/ch-go/proto"
)

func init() { runners["c20"] = runC20 }

type c20Out struct {
	b    strings.Builder
	fail string
	low  string // a failure reported only when the line has no other one (the known quarter finding must not mask anything)
}

func (o *c20Out) num(vs ...int64) {
	for _, v := range vs {
		o.b.WriteByte(' ')
		o.b.WriteString(strconv.FormatInt(v, 10))
	}
}
func (o *c20Out) unum(vs ...uint64) {
	for _, v := range vs {
		o.b.WriteByte(' ')
		o.b.WriteString(strconv.FormatUint(v, 10))
	}
}
func (o *c20Out) failf(format string, a ...any) {
	if o.fail == "" {
		o.fail = "FAIL:" + fmt.Sprintf(format, a...)
	}
}
func (o *c20Out) lowf(format string, a ...any) {
	if o.low == "" {
		o.low = "FAIL:" + fmt.Sprintf(format, a...)
	}
}
func (o *c20Out) oracle(checked int) string {
	if o.fail != "" {
		return o.fail
	}
	if o.low != "" {
		return o.low
	}
	if checked == 0 {
		return "-"
	}
	return "ok"
}

// c20Emit runs f (which fills o) and emits one transcript line; a panic of the implementation is `crash`.
func c20Emit(h *H, line string, f func(o *c20Out) int) {
	o := &c20Out{}
	checked := 0
	crashed := func() (c bool) {
		defer func() {
			if p := recover(); p != nil {
				c = true
			}
		}()
		checked = f(o)
		return false
	}()
	if crashed {
		h.Emit(line, "crash", o.oracle(0))
		return
	}
	h.Emit(line, "ok"+o.b.String(), o.oracle(checked))
}

func c20Line(op string, a ...int64) string {
	var b strings.Builder
	b.WriteString(op)
	for _, v := range a {
		b.WriteByte(' ')
		b.WriteString(strconv.FormatInt(v, 10))
	}
	return b.String()
}

func c20Zone(off int64) *time.Location {
	if off == 0 {
		return time.UTC
	}
	return time.FixedZone("z"+strconv.FormatInt(off, 10), int(off))
}

func c20Off(t time.Time) int64 { _, o := t.Zone(); return int64(o) }

// the 27 whole-hour zones -12h .. +14h, then real-world odd ones and extremes
var c20HourZones = func() []int64 {
	var z []int64
	for hh := int64(-12); hh <= 14; hh++ {
		z = append(z, hh*3600)
	}
	return z
}()
var c20OddZones = []int64{19800, 20700, -12600, 45900, -34200, 1, -1, 86399, -86399, 3599, -3601}

func (h *H) c20AnyZone() int64 {
	switch h.R.Intn(4) {
	case 0:
		return 0
	case 1:
		return c20OddZones[h.R.Intn(len(c20OddZones))]
	default:
		return c20HourZones[h.R.Intn(len(c20HourZones))]
	}
}

var c20Sods = []int64{0, 1, 43199, 43200, 43201, 86399}
var c20Nsecs = []int64{0, 1, 999, 1000, 999999, 1000000, 123456789, 500000000, 999999999}

func (h *H) c20Sod() int64 {
	if h.R.Intn(2) == 0 {
		return c20Sods[h.R.Intn(len(c20Sods))]
	}
	return h.R.Int63n(86400)
}
func (h *H) c20Nsec() int64 {
	if h.R.Intn(2) == 0 {
		return c20Nsecs[h.R.Intn(len(c20Nsecs))]
	}
	return h.R.Int63n(1000000000)
}

const (
	c20Date32Min = -25567 // 1900-01-01
	c20Date32Max = 120529 // 2299-12-31
	c20ZeroUnix  = -62135596800
)

// ---- calendar: the model's civil_from_days / days_from_civil against Go's time package ------------
func c20Civil(h *H, d0, n int64) {
	c20Emit(h, c20Line("civil", d0, n), func(o *c20Out) int {
		for i := int64(0); i < n; i++ {
			day := d0 + i
			t := time.Unix(day*86400, 0).UTC()
			y, m, d := t.Date()
			back := time.Date(y, m, d, 0, 0, 0, 0, time.UTC).Unix()
			if back%86400 != 0 {
				o.failf("time.Date not at midnight for day %d", day)
			}
			o.num(int64(y), int64(m), int64(d), back/86400)
		}
		h.Stats["instants.civil"] += int(n)
		return 0 // Go against itself is not a property of ch-go: correspondence only
	})
}

func c20GoDate(h *H, y, m, d, hh, mi, s, ns, off int64) {
	c20Emit(h, c20Line("godate", y, m, d, hh, mi, s, ns, off), func(o *c20Out) int {
		t := time.Date(int(y), time.Month(m), int(d), int(hh), int(mi), int(s), int(ns), c20Zone(off))
		o.num(t.Unix(), int64(t.Nanosecond()))
		h.Stats["instants.godate"]++
		return 0
	})
}

func c20Add(h *H, off, ns, u, d int64) {
	c20Emit(h, c20Line("add", off, ns, u, d), func(o *c20Out) int {
		t := time.Unix(u, ns).In(c20Zone(off)).Add(time.Duration(d))
		o.num(t.Unix(), int64(t.Nanosecond()))
		h.Stats["instants.add"]++
		return 0
	})
}

// ---- Date / Date32 ------------------------------------------------------------------------------------
func c20SameDay(a, b time.Time) bool {
	ay, am, ad := a.Date()
	by, bm, bd := b.Date()
	return ay == by && am == bm && ad == bd
}

func c20Date(h *H, off, ns, sod, d0, stride, n int64) {
	c20Emit(h, c20Line("date", off, ns, sod, d0, stride, n), func(o *c20Out) int {
		loc := c20Zone(off)
		var col proto.ColDate
		checked := 0
		for i := int64(0); i < n; i++ {
			day := d0 + i*stride
			t := time.Unix(day*86400+sod-off, ns).In(loc)
			col.Append(t)
			v := col[len(col)-1]
			back := col.Row(len(col) - 1)
			o.num(int64(v), back.Unix())
			if day < 0 || day > 65535 || t.IsZero() {
				continue
			}
			checked++
			switch {
			case int64(v) != day:
				o.failf("ToDate(%s)=%d, local day number is %d", t.Format(time.RFC3339Nano), v, day)
			case !c20SameDay(back, t) || c20Off(back) != 0:
				o.failf("Date round trip changes the calendar day: %s -> %d -> %s", t.Format(time.RFC3339Nano), v, back.Format(time.RFC3339Nano))
			case t.Unix()+off-back.Unix() < 0 || t.Unix()+off-back.Unix() >= 86400 || back.Nanosecond() != 0:
				o.failf("Date round trip is off by more than a day: %s -> %s", t.Format(time.RFC3339Nano), back.Format(time.RFC3339Nano))
			case proto.ToDate(back) != v:
				o.failf("ToDate(Date(%d).Time())=%d", v, proto.ToDate(back))
			case off == 0 && sod == 0 && ns == 0 && !back.Equal(t):
				o.failf("representable Date instant not exact: %s -> %s", t.Format(time.RFC3339Nano), back.Format(time.RFC3339Nano))
			}
			ty, tm, td := t.Date()
			if proto.NewDate(ty, tm, td) != v {
				o.failf("NewDate(%d,%d,%d)=%d, ToDate=%d", ty, tm, td, proto.NewDate(ty, tm, td), v)
			}
		}
		h.Stats["instants.date"] += int(n)
		return checked
	})
}

func c20Date32(h *H, off, ns, sod, d0, stride, n int64) {
	c20Emit(h, c20Line("date32", off, ns, sod, d0, stride, n), func(o *c20Out) int {
		loc := c20Zone(off)
		var col proto.ColDate32
		checked := 0
		for i := int64(0); i < n; i++ {
			day := d0 + i*stride
			t := time.Unix(day*86400+sod-off, ns).In(loc)
			col.Append(t)
			v := col[len(col)-1]
			back := col.Row(len(col) - 1)
			o.num(int64(v), back.Unix())
			if day < math.MinInt32 || day > math.MaxInt32 || t.IsZero() {
				continue
			}
			checked++
			switch {
			case int64(v) != day:
				o.failf("ToDate32(%s)=%d, local day number is %d", t.Format(time.RFC3339Nano), v, day)
			case !c20SameDay(back, t) || c20Off(back) != 0:
				o.failf("Date32 round trip changes the calendar day: %s -> %d -> %s", t.Format(time.RFC3339Nano), v, back.Format(time.RFC3339Nano))
			case t.Unix()+off-back.Unix() < 0 || t.Unix()+off-back.Unix() >= 86400 || back.Nanosecond() != 0:
				o.failf("Date32 round trip is off by more than a day: %s -> %s", t.Format(time.RFC3339Nano), back.Format(time.RFC3339Nano))
			case !back.IsZero() && proto.ToDate32(back) != v:
				o.failf("ToDate32(Date32(%d).Time())=%d", v, proto.ToDate32(back))
			case off == 0 && sod == 0 && ns == 0 && !back.Equal(t):
				o.failf("representable Date32 instant not exact: %s -> %s", t.Format(time.RFC3339Nano), back.Format(time.RFC3339Nano))
			}
			if day >= c20Date32Min && day <= c20Date32Max {
				ty, tm, td := t.Date()
				if proto.NewDate32(ty, tm, td) != v {
					o.failf("NewDate32(%d,%d,%d)=%d, ToDate32=%d", ty, tm, td, proto.NewDate32(ty, tm, td), v)
				}
				h.Stats["instants.date32.documented"]++
			}
		}
		h.Stats["instants.date32"] += int(n)
		return checked
	})
}

// ---- batches in a real location -----------------------------------------------------------------------
// Values of ONE *time.Location whose UTC offset differs between them (daylight saving, a historical change), appended
// as a batch (AppendArr; Array(Date).Append): every value must land on its own calendar day in its own zone.  One
// transcript line per value, in the format of the single-value ops (offset = the offset in force at that instant), so
// the model is compared on every element of the batch.
var c20RealZones = []string{"Europe/Berlin", "America/New_York", "Australia/Lord_Howe", "Asia/Kathmandu", "America/St_Johns", "Pacific/Apia", "Europe/Moscow", "Africa/Casablanca"}

func c20Batch(h *H, n int) {
	name := c20RealZones[h.R.Intn(len(c20RealZones))]
	loc, err := time.LoadLocation(name)
	if err != nil {
		h.Stat("batch.zone-unavailable")
		return
	}
	var ts []time.Time
	for len(ts) < n {
		// a day between 1970 and 2100, and the instants around both midnights of the year's offset changes
		y := 1970 + h.R.Intn(130)
		base := time.Date(y, time.Month(1+h.R.Intn(12)), 1+h.R.Intn(28), 0, 0, 0, 0, loc)
		shift := []time.Duration{0, time.Second, -time.Second, 29 * time.Minute, 59 * time.Minute, 61 * time.Minute, -30 * time.Minute, 2 * time.Hour, 23*time.Hour + 59*time.Minute, time.Duration(h.R.Intn(86400)) * time.Second}[h.R.Intn(10)]
		t := base.Add(shift)
		if t.Unix() < 0 || t.Unix() >= 65535*86400 {
			continue
		}
		ts = append(ts, t)
		if h.R.Intn(2) == 0 {
			ts = append(ts, t.AddDate(0, 6, 0)) // the other side of the year: usually the other offset
		}
	}
	var d16 proto.ColDate
	var d32 proto.ColDate32
	a16, a32 := new(proto.ColDate).Array(), new(proto.ColDate32).Array()
	crashed := func() (c bool) {
		defer func() {
			if p := recover(); p != nil {
				c = true
			}
		}()
		d16.AppendArr(ts)
		d32.AppendArr(ts)
		a16.Append(ts)
		a32.Append(ts)
		return false
	}()
	offs := map[int64]bool{}
	for i, t := range ts {
		off := c20Off(t)
		offs[off] = true
		local := t.Unix() + off
		day, sod := c20FloorDiv(local, 86400), local-c20FloorDiv(local, 86400)*86400
		ns := int64(t.Nanosecond())
		for k, op := range []string{"date", "date32"} {
			i, k := i, k
			c20Emit(h, c20Line(op, off, ns, sod, day, 1, 1), func(o *c20Out) int {
				if crashed {
					panic("batch append panicked")
				}
				var v int64
				var back, backArr time.Time
				if k == 0 {
					v, back, backArr = int64(d16[i]), d16.Row(i), a16.Row(0)[i]
				} else {
					v, back, backArr = int64(d32[i]), d32.Row(i), a32.Row(0)[i]
				}
				o.num(v, back.Unix())
				switch {
				case v != day:
					o.failf("%s appended in a batch of values of location %s (offset %d at that instant) is stored as day %d, its calendar day in its own zone is day %d", t.Format(time.RFC3339), name, off, v, day)
				case !c20SameDay(back, t):
					o.failf("batch round trip changes the calendar day: %s -> %d -> %s", t.Format(time.RFC3339), v, back.Format(time.RFC3339))
				case !c20SameDay(backArr, t):
					o.failf("Array(%s) round trip changes the calendar day: %s -> %s", op, t.Format(time.RFC3339), backArr.Format(time.RFC3339))
				}
				return 1
			})
		}
	}
	h.Stats["instants.batch"] += len(ts)
	if len(offs) > 1 {
		h.Stat("batch.with-two-offsets")
	}
}

// ---- DateTime / DateTime64 ----------------------------------------------------------------------------
func c20Cloc(has, cloc int64) *time.Location {
	if has == 0 {
		return nil
	}
	return c20Zone(cloc)
}

func c20DT(h *H, loc, has, cloc, off, ns, u0, stride, n int64) {
	c20Emit(h, c20Line("dt", loc, has, cloc, off, ns, u0, stride, n), func(o *c20Out) int {
		time.Local = c20Zone(loc)
		col := proto.ColDateTime{Location: c20Cloc(has, cloc)}
		want := loc
		if has != 0 {
			want = cloc
		}
		zone := c20Zone(off)
		checked := 0
		for i := int64(0); i < n; i++ {
			u := u0 + i*stride
			t := time.Unix(u, ns).In(zone)
			col.Append(t)
			v := col.Data[len(col.Data)-1]
			back := col.Row(len(col.Data) - 1)
			o.num(int64(v), back.Unix(), c20Off(back))
			if u < 0 || u > math.MaxUint32 {
				continue
			}
			checked++
			switch {
			case back.Unix() != u || back.Nanosecond() != 0:
				o.failf("DateTime round trip: %s -> %d -> %s", t.Format(time.RFC3339Nano), v, back.Format(time.RFC3339Nano))
			case c20Off(back) != want:
				o.failf("DateTime Row zone offset %d, want %d", c20Off(back), want)
			case proto.ToDateTime(back) != v || int64(v) != u:
				o.failf("ToDateTime(DateTime(%d).Time())=%d", v, proto.ToDateTime(back))
			case !c20SameDay(back.In(zone), t):
				o.failf("DateTime round trip changes the calendar day of %s", t.Format(time.RFC3339Nano))
			}
		}
		h.Stats["instants.datetime"] += int(n)
		return checked
	})
}

var c20DT64Runs int

var c20Pow10 = [...]int64{1, 10, 100, 1000, 10000, 100000, 1000000, 10000000, 100000000, 1000000000}

// c20Ticks = floor((unix*1e9+nsec) / 10^(9-p)) computed with big integers; ok = fits int64
func c20Ticks(u, ns, p int64) (int64, bool) {
	total := new(big.Int).Mul(big.NewInt(u), big.NewInt(1000000000))
	total.Add(total, big.NewInt(ns))
	q := new(big.Int).Div(total, big.NewInt(c20Pow10[9-p])) // Euclidean = floor for a positive divisor
	return q.Int64(), q.IsInt64()
}

func c20DT64(h *H, p, loc, has, cloc, off, ns, u0, stride, n int64) {
	c20Emit(h, c20Line("dt64", p, loc, has, cloc, off, ns, u0, stride, n), func(o *c20Out) int {
		time.Local = c20Zone(loc)
		col := (&proto.ColDateTime64{Location: c20Cloc(has, cloc)}).WithPrecision(proto.Precision(p))
		if c20DT64Runs++; c20DT64Runs%2 == 0 && has == 0 && p >= 0 && p <= 9 {
			// the same column object with a history: it was a DateTime64 of another precision, holds a row from then,
			// and was re-inferred to this one (what sendInput and Results do to a column with the server's type)
			col = new(proto.ColDateTime64).WithPrecision(proto.Precision((p + 3) % 10))
			col.Append(time.Unix(12345, 678000000))
			if err := col.Infer(proto.ColumnType(fmt.Sprintf("DateTime64(%d)", p))); err != nil {
				panic(err)
			}
			h.Stats["dt64.reinferred"]++
		}
		want := loc
		if has != 0 {
			want = cloc
		}
		zone := c20Zone(off)
		checked := 0
		for i := int64(0); i < n; i++ {
			u := u0 + i*stride
			t := time.Unix(u, ns).In(zone)
			col.Append(t)
			v := col.Data[len(col.Data)-1]
			back := col.Row(len(col.Data) - 1)
			o.num(int64(v), back.Unix(), int64(back.Nanosecond()), c20Off(back))
			if p < 0 || p > 9 || t.IsZero() {
				continue
			}
			ticks, fits := c20Ticks(u, ns, p)
			if !fits {
				continue
			}
			checked++
			scale := c20Pow10[9-p]
			switch {
			case int64(v) != ticks:
				o.failf("ToDateTime64(%s, %d)=%d, want %d ticks", t.Format(time.RFC3339Nano), p, v, ticks)
			case back.Unix() != u || int64(back.Nanosecond()) != ns-ns%scale:
				o.failf("DateTime64(%d) round trip: %s -> %d -> %s", p, t.Format(time.RFC3339Nano), v, back.UTC().Format(time.RFC3339Nano))
			case c20Off(back) != want:
				o.failf("DateTime64 Row zone offset %d, want %d", c20Off(back), want)
			case !back.IsZero() && proto.ToDateTime64(back, proto.Precision(p)) != v:
				o.failf("ToDateTime64(DateTime64(%d).Time(%d))=%d", v, p, proto.ToDateTime64(back, proto.Precision(p)))
			case !c20SameDay(back.In(zone), t):
				o.failf("DateTime64 round trip changes the calendar day of %s", t.Format(time.RFC3339Nano))
			case ns%scale == 0 && !back.Equal(t):
				o.failf("representable DateTime64(%d) instant not exact: %s", p, t.Format(time.RFC3339Nano))
			}
			if u >= -2208988800 && u < 10413792000 {
				h.Stats["instants.datetime64.documented"]++
			}
		}
		h.Stats["instants.datetime64"] += int(n)
		return checked
	})
}

func c20DT64Raw(h *H, p, loc int64, vs []int64) {
	c20Emit(h, c20Line("dt64raw", append([]int64{p, loc}, vs...)...), func(o *c20Out) int {
		time.Local = c20Zone(loc)
		checked := 0
		for _, v := range vs {
			back := proto.DateTime64(v).Time(proto.Precision(p))
			again := proto.ToDateTime64(back, proto.Precision(p))
			o.num(back.Unix(), int64(back.Nanosecond()), c20Off(back), int64(again))
			if p < 0 || p > 9 {
				continue
			}
			checked++
			total := new(big.Int).Mul(big.NewInt(back.Unix()), big.NewInt(1000000000))
			total.Add(total, big.NewInt(int64(back.Nanosecond())))
			want := new(big.Int).Mul(big.NewInt(v), big.NewInt(c20Pow10[9-p]))
			switch {
			case total.Cmp(want) != 0:
				o.failf("DateTime64(%d).Time(%d) = %s ns, want %s", v, p, total, want)
			case !back.IsZero() && int64(again) != v:
				o.failf("ToDateTime64(DateTime64(%d).Time(%d)) = %d", v, p, again)
			}
		}
		h.Stats["instants.datetime64raw"] += len(vs)
		return checked
	})
}

func c20Scale(h *H, ps []int64) {
	c20Emit(h, c20Line("scale", ps...), func(o *c20Out) int {
		for _, p := range ps {
			s := proto.Precision(p).Scale()
			valid := int64(0)
			if proto.Precision(p).Valid() {
				valid = 1
			}
			o.num(s, valid)
			if p <= 9 {
				if s != c20Pow10[9-p] || valid != 1 || proto.Precision(p).Duration() != time.Duration(s) {
					o.failf("Precision(%d).Scale()=%d", p, s)
				}
			} else if valid != 0 {
				o.failf("Precision(%d).Valid()", p)
			}
		}
		h.Stats["values.scale"] += len(ps)
		return len(ps)
	})
}

// ---- 128 / 256-bit helpers -------------------------------------------------------------------------------
func c20Big128(lo, hi uint64, signed bool) *big.Int {
	x := new(big.Int).SetUint64(hi)
	x.Lsh(x, 64)
	x.Or(x, new(big.Int).SetUint64(lo))
	if signed && hi>>63 == 1 {
		x.Sub(x, new(big.Int).Lsh(big.NewInt(1), 128))
	}
	return x
}
func c20Big256(v proto.UInt256, signed bool) *big.Int {
	x := c20Big128(v.High.Low, v.High.High, false)
	x.Lsh(x, 128)
	x.Or(x, c20Big128(v.Low.Low, v.Low.High, false))
	if signed && v.High.High>>63 == 1 {
		x.Sub(x, new(big.Int).Lsh(big.NewInt(1), 256))
	}
	return x
}

func c20Ints(h *H, op string, vs []int64) {
	c20Emit(h, c20Line(op, vs...), func(o *c20Out) int {
		for _, v := range vs {
			switch op {
			case "i128":
				x := proto.Int128FromInt(int(v))
				o.unum(x.Low, x.High)
				o.num(int64(x.Int()))
				o.unum(x.UInt64())
				if int64(x.Int()) != v || c20Big128(x.Low, x.High, true).Cmp(big.NewInt(v)) != 0 {
					o.failf("Int128FromInt(%d) = {%d,%d}, Int()=%d", v, x.Low, x.High, x.Int())
				}
			case "u128i":
				x := proto.UInt128FromInt(int(v))
				o.unum(x.Low, x.High, x.UInt64())
				o.num(int64(x.Int()))
				want := new(big.Int).Mod(big.NewInt(v), new(big.Int).Lsh(big.NewInt(1), 128))
				if c20Big128(x.Low, x.High, false).Cmp(want) != 0 || (v >= 0 && int64(x.Int()) != v) {
					o.failf("UInt128FromInt(%d) = {%d,%d}, Int()=%d", v, x.Low, x.High, x.Int())
				}
			case "i256":
				x := proto.Int256FromInt(int(v))
				o.unum(x.Low.Low, x.Low.High, x.High.Low, x.High.High)
				if c20Big256(proto.UInt256(x), true).Cmp(big.NewInt(v)) != 0 {
					o.failf("Int256FromInt(%d) is not %d sign-extended", v, v)
				}
			case "u256i":
				x := proto.UInt256FromInt(int(v))
				o.unum(x.Low.Low, x.Low.High, x.High.Low, x.High.High)
				want := new(big.Int).Mod(big.NewInt(v), new(big.Int).Lsh(big.NewInt(1), 256))
				if c20Big256(x, false).Cmp(want) != 0 {
					o.failf("UInt256FromInt(%d) is not %d mod 2^256", v, v)
				}
			}
		}
		h.Stats["values.wideint"] += len(vs)
		return len(vs)
	})
}

func c20UInts(h *H, op string, vs []uint64) {
	var b strings.Builder
	b.WriteString(op)
	for _, v := range vs {
		b.WriteByte(' ')
		b.WriteString(strconv.FormatUint(v, 10))
	}
	c20Emit(h, b.String(), func(o *c20Out) int {
		for _, v := range vs {
			want := new(big.Int).SetUint64(v)
			switch op {
			case "u128":
				x := proto.UInt128FromUInt64(v)
				o.unum(x.Low, x.High, x.UInt64())
				o.num(int64(x.Int()))
				if x.UInt64() != v || c20Big128(x.Low, x.High, false).Cmp(want) != 0 || x.Int() != int(v) {
					o.failf("UInt128FromUInt64(%d) = {%d,%d}, UInt64()=%d", v, x.Low, x.High, x.UInt64())
				}
			case "i128u":
				x := proto.Int128FromUInt64(v)
				o.unum(x.Low, x.High)
				o.num(int64(x.Int()))
				o.unum(x.UInt64())
				if x.UInt64() != v || c20Big128(x.Low, x.High, true).Cmp(want) != 0 {
					o.failf("Int128FromUInt64(%d) = {%d,%d}, UInt64()=%d", v, x.Low, x.High, x.UInt64())
				}
			case "u256":
				x := proto.UInt256FromUInt64(v)
				o.unum(x.Low.Low, x.Low.High, x.High.Low, x.High.High)
				if c20Big256(x, false).Cmp(want) != 0 {
					o.failf("UInt256FromUInt64(%d) is not %d", v, v)
				}
			}
		}
		h.Stats["values.wideint"] += len(vs)
		return len(vs)
	})
}

func c20Raw128(h *H, op string, lo, hi uint64) {
	line := op + " " + strconv.FormatUint(lo, 10) + " " + strconv.FormatUint(hi, 10)
	c20Emit(h, line, func(o *c20Out) int {
		if op == "i128raw" {
			x := proto.Int128{Low: lo, High: hi}
			o.num(int64(x.Int()))
			o.unum(x.UInt64())
			// documented saturation: anything that is not a sign-extended 64-bit value reads as the maximum
			if hi != 0 && hi != math.MaxUint64 && (x.Int() != math.MaxInt || x.UInt64() != math.MaxUint64) {
				o.failf("Int128{%d,%d} accessors do not saturate", lo, hi)
			}
		} else {
			x := proto.UInt128{Low: lo, High: hi}
			o.unum(x.UInt64())
			o.num(int64(x.Int()))
			if hi != 0 && x.UInt64() != math.MaxUint64 || hi == 0 && x.UInt64() != lo {
				o.failf("UInt128{%d,%d}.UInt64()=%d", lo, hi, x.UInt64())
			}
		}
		h.Stats["values.wideint"]++
		return 1
	})
}

// ---- IPv4 / IPv6 -------------------------------------------------------------------------------------------
func c20IPv4(h *H, vs []int64) {
	c20Emit(h, c20Line("ipv4", vs...), func(o *c20Out) int {
		for _, v := range vs {
			ip := proto.IPv4(uint32(v)).ToIP()
			b := ip.As4()
			back := proto.ToIPv4(ip)
			o.num(int64(b[0]), int64(b[1]), int64(b[2]), int64(b[3]), int64(back))
			want := fmt.Sprintf("%d.%d.%d.%d", byte(v>>24), byte(v>>16), byte(v>>8), byte(v))
			if int64(back) != v || !ip.Is4() || ip.String() != want || proto.IPv4(uint32(v)).String() != want {
				o.failf("IPv4(%d).ToIP()=%s, back %d, want %s", v, ip, back, want)
			}
		}
		h.Stats["values.ipv4"] += len(vs)
		return len(vs)
	})
}

func c20Addr(b []byte) netip.Addr {
	switch len(b) {
	case 4:
		return netip.AddrFrom4([4]byte(b))
	case 16:
		return netip.AddrFrom16([16]byte(b))
	}
	return netip.Addr{}
}

func c20ToIPv4(h *H, b []byte) {
	c20Emit(h, "toipv4 x"+hex.EncodeToString(b), func(o *c20Out) int {
		a := c20Addr(b)
		v := proto.ToIPv4(a)
		o.num(int64(v))
		if v.ToIP() != a.Unmap() {
			o.failf("ToIPv4(%s).ToIP()=%s", a, v.ToIP())
		}
		h.Stats["values.ip"]++
		return 1
	})
}

func c20ToIPv6(h *H, b []byte) {
	c20Emit(h, "toipv6 x"+hex.EncodeToString(b), func(o *c20Out) int {
		a := c20Addr(b)
		v := proto.ToIPv6(a)
		o.b.WriteString(" x" + hex.EncodeToString(v[:]))
		if a.IsValid() && v.ToIP().Unmap() != a.Unmap() {
			o.failf("ToIPv6(%s).ToIP()=%s", a, v.ToIP())
		}
		if a.Is6() && v.ToIP() != a {
			o.failf("ToIPv6(%s).ToIP()=%s", a, v.ToIP())
		}
		h.Stats["values.ip"]++
		return 1
	})
}

func c20IPv6(h *H, b []byte) {
	c20Emit(h, "ipv6 x"+hex.EncodeToString(b), func(o *c20Out) int {
		v := proto.IPv6(b)
		a := v.ToIP()
		kind := "v6"
		if a.Is4() {
			kind = "v4"
		} else if !a.IsValid() {
			kind = "zero"
		}
		b16 := a.As16()
		o.b.WriteString(" " + kind + " " + bsym(a.Is4In6()) + " x" + hex.EncodeToString(b16[:]))
		if proto.ToIPv6(a) != v || a.String() != v.String() {
			o.failf("ToIPv6(IPv6(%x).ToIP())=%x", b, proto.ToIPv6(a))
		}
		h.Stats["values.ip"]++
		return 1
	})
}

// ---- Interval.Add --------------------------------------------------------------------------------------------
func c20FloorDiv(a, b int64) int64 {
	q := a / b
	if a%b != 0 && (a < 0) != (b < 0) {
		q--
	}
	return q
}

// c20AddMonths is the reference for month arithmetic: t moved by `months` calendar months, same day of month and
// time of day; a day the target month does not have is carried into the next month (time.Date's rule).
// kept = false iff the target month has that day and r does not show it with t's time of day.
func c20AddMonths(t time.Time, months int64, zone *time.Location, r time.Time) (want time.Time, kept bool) {
	y, m, d := t.Date()
	hh, mi, s := t.Clock()
	idx := int64(y)*12 + int64(m) - 1 + months
	y2, m2 := c20FloorDiv(idx, 12), idx-12*c20FloorDiv(idx, 12)+1
	want = time.Date(int(y2), time.Month(m2), d, hh, mi, s, t.Nanosecond(), zone)
	first := time.Date(int(y2), time.Month(m2), 1, 0, 0, 0, 0, zone)
	dim := first.AddDate(0, 1, 0).Add(-time.Hour).Day()
	if d <= dim {
		ry, rm, rd := r.Date()
		rh, rmi, rs := r.Clock()
		if int64(ry) != y2 || int64(rm) != m2 || rd != d || rh != hh || rmi != mi || rs != s {
			return want, false
		}
	}
	return want, true
}

func c20Ivl(h *H, scale, off, ns, u int64, vs []int64) {
	c20Emit(h, c20Line("ivl", append([]int64{scale, off, ns, u}, vs...)...), func(o *c20Out) int {
		zone := c20Zone(off)
		t := time.Unix(u, ns).In(zone)
		checked := 0
		sane := u > -(1<<43) && u < 1<<43
		for _, v := range vs {
			r := proto.Interval{Scale: proto.IntervalScale(scale), Value: v}.Add(t)
			o.num(r.Unix(), int64(r.Nanosecond()), c20Off(r))
			if !sane || v < -(1<<31) || v > 1<<31 {
				continue
			}
			checked++
			if c20Off(r) != off {
				o.failf("Interval.Add changed the zone of %s", t.Format(time.RFC3339Nano))
			}
			var want time.Time
			switch proto.IntervalScale(scale) {
			case proto.IntervalSecond, proto.IntervalMinute, proto.IntervalHour:
				unit := []int64{1, 60, 3600}[scale]
				if lim := math.MaxInt64 / (unit * 1000000000); v > lim || v < -lim {
					// beyond Go's time.Duration (about 292 years): the stated guard of the theorem
					checked--
					h.Stats["interval.beyond_duration"]++
					continue
				}
				want = time.Unix(u+v*unit, ns)
			case proto.IntervalDay:
				want = time.Unix(u+v*86400, ns)
			case proto.IntervalWeek:
				want = time.Unix(u+v*7*86400, ns)
			default:
				months := v
				if proto.IntervalScale(scale) == proto.IntervalQuarter {
					months = 3 * v
				} else if proto.IntervalScale(scale) == proto.IntervalYear {
					months = 12 * v
				}
				var kept bool
				want, kept = c20AddMonths(t, months, zone, r)
				if proto.IntervalScale(scale) == proto.IntervalQuarter && (!kept || !r.Equal(want)) {
					// which whole number of months per quarter does the implementation add, if any?
					for k := int64(1); k <= 12; k++ {
						if wk, ok := c20AddMonths(t, k*v, zone, r); k != 3 && ok && r.Equal(wk) {
							o.lowf("IntervalQuarter adds %d months per quarter (expected 3): %s + %d quarters = %s, want %s",
								k, t.Format(time.RFC3339Nano), v, r.Format(time.RFC3339Nano), want.Format(time.RFC3339Nano))
							want, kept = wk, true
							break
						}
					}
				}
				if !kept {
					o.failf("%s + %d x %s = %s: day of month or time of day not kept (want %s)",
						t.Format(time.RFC3339Nano), v, proto.IntervalScale(scale), r.Format(time.RFC3339Nano), want.Format(time.RFC3339Nano))
				}
			}
			if !r.Equal(want) {
				o.failf("%s + %d x %s = %s, want %s", t.Format(time.RFC3339Nano), v, proto.IntervalScale(scale),
					r.Format(time.RFC3339Nano), want.In(zone).Format(time.RFC3339Nano))
			}
		}
		h.Stats["instants.interval"] += len(vs)
		return checked
	})
}

// c20FullSweep checks the round trip of every stride-th of the 2^32 DateTime seconds / IPv4 values on the
// implementation only, in parallel.
func c20FullSweep(h *H, op string, stride int64) {
	const total = int64(1) << 32
	time.Local = time.UTC
	workers := runtime.NumCPU()
	fails := make([]string, workers)
	var wg sync.WaitGroup
	per := (total/stride + int64(workers)) / int64(workers)
	for w := 0; w < workers; w++ {
		wg.Add(1)
		go func(w int) {
			defer wg.Done()
			defer func() {
				if p := recover(); p != nil && fails[w] == "" {
					fails[w] = fmt.Sprintf("%s: panic %v", op, p)
				}
			}()
			zone := c20Zone(c20HourZones[w%len(c20HourZones)])
			for i := int64(w) * per; i < int64(w+1)*per; i++ {
				v := i * stride
				if v >= total {
					break
				}
				if op == "sweepdt" {
					t := time.Unix(v, int64(v%1000)*1000003%1000000000).In(zone)
					d := proto.ToDateTime(t)
					back := d.Time()
					if int64(d) != v || back.Unix() != v || back.Nanosecond() != 0 || proto.ToDateTime(back) != d {
						fails[w] = fmt.Sprintf("DateTime round trip of second %d: value %d, back %d", v, d, back.Unix())
						return
					}
				} else {
					ip := proto.IPv4(uint32(v)).ToIP()
					b := ip.As4()
					if int64(proto.ToIPv4(ip)) != v || int64(b[0])<<24|int64(b[1])<<16|int64(b[2])<<8|int64(b[3]) != v {
						fails[w] = fmt.Sprintf("IPv4(%d).ToIP()=%s, back %d", v, ip, proto.ToIPv4(ip))
						return
					}
				}
			}
		}(w)
	}
	wg.Wait()
	oracle := "ok"
	for _, f := range fails {
		if f != "" {
			oracle = "FAIL:" + f
			break
		}
	}
	n := (total + stride - 1) / stride
	h.Stats["values."+op] += int(n)
	h.Emit(c20Line(op, 0, stride, n), "-", oracle)
}

// ---- generators ---------------------------------------------------------------------------------------------
var c20I64Bounds = []int64{0, 1, -1, 2, -2, 127, 128, 255, 256, -128, -129, 32767, 32768, -32768, 65535, 65536,
	math.MaxInt32, math.MaxInt32 + 1, math.MinInt32, math.MinInt32 - 1, math.MaxUint32, math.MaxUint32 + 1,
	math.MaxInt64, math.MaxInt64 - 1, math.MinInt64, math.MinInt64 + 1, 1 << 62, -(1 << 62)}

func (h *H) c20I64() int64 {
	switch h.R.Intn(3) {
	case 0:
		return c20I64Bounds[h.R.Intn(len(c20I64Bounds))]
	case 1:
		return int64(h.R.Intn(2001)) - 1000
	default:
		return int64(h.R.Uint64()) >> uint(h.R.Intn(64))
	}
}

// instants (unix seconds) around which DateTime / DateTime64 / Interval behaviour changes
var c20UnixBounds = []int64{
	0, 1, -1, 86399, 86400, -86400, -86401,
	math.MaxInt32, math.MaxInt32 + 1, math.MaxUint32 - 1, math.MaxUint32, math.MaxUint32 + 1, math.MaxUint32 + 2,
	-2208988800, -2208988801, -2208988799, // 1900-01-01
	10413791999, 10413792000, 10413791998, // 2299-12-31 23:59:59
	-9223372037, -9223372036, 9223372036, 9223372037, // int64 nanoseconds: 1677-09-21 / 2262-04-11
	-92233720369, 92233720368, -922337203686, 922337203685, // int64 at precision 8, 7
	5662310400, 5662224000, // 2149-06-06, last Date
	951782400, 951868799, 4107542400, // 2000-02-29, 2100-03-01
	1583020800, 1582934400, 1580428800, // 2020-03-01, 2020-02-29, 2020-01-31
	c20ZeroUnix, c20ZeroUnix + 1, c20ZeroUnix - 1,
	253402300799, 253402300800, // year 9999 / 10000
}

func (h *H) c20Unix() int64 {
	switch h.R.Intn(6) {
	case 0:
		return c20UnixBounds[h.R.Intn(len(c20UnixBounds))]
	case 1:
		return c20UnixBounds[h.R.Intn(len(c20UnixBounds))] + int64(h.R.Intn(7)) - 3
	case 2: // documented DateTime64 / Date32 range
		return -2208988800 + h.R.Int63n(10413792000+2208988800)
	case 3: // DateTime range
		return h.R.Int63n(1 << 32)
	case 4: // years 1 .. 9999
		return c20ZeroUnix + h.R.Int63n(253402300800-c20ZeroUnix)
	default:
		return int64(h.R.Intn(200000)) - 100000
	}
}

func (h *H) c20Loc() (loc, has, cloc int64) {
	loc = h.c20AnyZone()
	if h.R.Intn(2) == 0 {
		return loc, 1, h.c20AnyZone()
	}
	return loc, 0, 0
}

func (h *H) c20IntervalValue() int64 {
	switch h.R.Intn(5) {
	case 0:
		return []int64{0, 1, -1, 2, 3, 4, 11, 12, 13, -12, -13, 24, 48, 365, 366, -365, 1000, 4800, -4800, 1 << 31, -(1 << 31)}[h.R.Intn(21)]
	case 1:
		return int64(h.R.Intn(49)) - 24
	case 2:
		return int64(h.R.Intn(20001)) - 10000
	case 3:
		return int64(h.R.Intn(1<<31)) - 1<<30
	default:
		return int64(h.R.Intn(401)) - 200
	}
}

func runC20(h *H) {
	saved := time.Local
	defer func() { time.Local = saved }()
	thorough := h.Tier == "thorough"
	budget := h.N // number of randomly generated batch lines; the sweeps below are fixed by the tier

	// 1. the calendar on every Date32 day (exactly one 400-year era), and some days far outside
	for d := int64(c20Date32Min); d <= c20Date32Max; d += 128 {
		n := int64(128)
		if d+n-1 > c20Date32Max {
			n = c20Date32Max - d + 1
		}
		c20Civil(h, d, n)
	}
	for _, d := range []int64{-719162, -719163, -719528, -719529, -1000000, 2932896, 2932897, 5000000, -141427, 11016, 47540} {
		c20Civil(h, d-2, 5)
	}

	// 2. all 65 536 Dates: UTC midnight (exact), then zones / times of day
	zonesPerSweep := 2
	if thorough {
		zonesPerSweep = len(c20HourZones)
	}
	for d := int64(0); d < 65536; d += 256 {
		c20Date(h, 0, 0, 0, d, 1, 256)
	}
	for k := 0; k < zonesPerSweep; k++ {
		off := c20HourZones[(k*7+int(h.Seed))%len(c20HourZones)]
		if thorough {
			off = c20HourZones[k]
		}
		for d := int64(0); d < 65536; d += 256 {
			c20Date(h, off, h.c20Nsec(), h.c20Sod(), d, 1, 256)
			if thorough {
				c20Date(h, off, 0, 0, d, 1, 256)
				c20Date(h, off, 999999999, 86399, d, 1, 256)
			}
		}
	}

	// 2b. batches of values of one real location on both sides of its offset changes
	for i, nb := 0, 40; i < nb; i++ {
		c20Batch(h, 6+h.R.Intn(10))
	}

	// 3. Date32: every day of the documented range; quick: rotating zone per block + a stride in every zone
	for d := int64(c20Date32Min); d <= c20Date32Max; d += 256 {
		n := int64(256)
		if d+n-1 > c20Date32Max {
			n = c20Date32Max - d + 1
		}
		c20Date32(h, 0, 0, 0, d, 1, n)
		if thorough {
			for _, off := range c20HourZones {
				c20Date32(h, off, h.c20Nsec(), h.c20Sod(), d, 1, n)
				c20Date32(h, off, 0, 0, d, 1, n)
				c20Date32(h, off, 999999999, 86399, d, 1, n)
			}
		} else {
			c20Date32(h, c20HourZones[h.R.Intn(len(c20HourZones))], h.c20Nsec(), h.c20Sod(), d, 1, n)
		}
	}
	if !thorough {
		for _, off := range c20HourZones {
			start := int64(c20Date32Min) + int64(h.R.Intn(29))
			cnt := (int64(c20Date32Max) - start) / 29
			for i := int64(0); i < cnt; i += 256 {
				n := int64(256)
				if i+n > cnt {
					n = cnt - i
				}
				c20Date32(h, off, h.c20Nsec(), h.c20Sod(), start+i*29, 29, n)
			}
		}
	}
	// ends of the range, both sides, every zone, first and last second of the day
	for _, off := range append(append([]int64{}, c20HourZones...), c20OddZones...) {
		for _, sod := range []int64{0, 1, 43200, 86399} {
			c20Date32(h, off, 0, sod, c20Date32Min-2, 1, 5)
			c20Date32(h, off, 999999999, sod, c20Date32Max-2, 1, 5)
			c20Date32(h, off, 0, sod, -3, 1, 6)
			c20Date(h, off, 0, sod, -2, 1, 5)
			c20Date(h, off, 999999999, sod, 65533, 1, 5)
		}
	}

	// Go's zero Time (0001-01-01 00:00:00 UTC, in any zone) is mapped to 0 by ToDate / ToDate32: hit it exactly
	for _, off := range []int64{0, 3600, -43200, 50400} {
		sod := off
		day := int64(-719162)
		if sod < 0 {
			sod += 86400
			day--
		}
		c20Date(h, off, 0, sod, day-1, 1, 3)
		c20Date32(h, off, 0, sod, day-1, 1, 3)
		c20Date32(h, off, 1, sod, day-1, 1, 3)
	}

	// 4. fixed boundary sets for DateTime / DateTime64 / Interval / helpers
	for _, u := range c20UnixBounds {
		for _, ns := range []int64{0, 1, 999999999} {
			loc, has, cloc := h.c20Loc()
			c20DT(h, loc, has, cloc, h.c20AnyZone(), ns, u-2, 1, 5)
		}
		for p := int64(0); p <= 9; p++ {
			loc, has, cloc := h.c20Loc()
			c20DT64(h, p, loc, has, cloc, h.c20AnyZone(), h.c20Nsec(), u-2, 1, 5)
			c20DT64(h, p, loc, has, cloc, 0, 0, u-1, 1, 3)
		}
	}
	for p := int64(0); p <= 9; p++ {
		var vs []int64
		for _, b := range c20I64Bounds {
			vs = append(vs, b)
		}
		tps := c20Pow10[p]
		vs = append(vs, c20ZeroUnix*1, -tps, tps, -tps-1, -tps+1, tps-1, -2208988800*c20MinI64(tps, 100000000), 10413791999*c20MinI64(tps, 100000000))
		if p <= 7 {
			vs = append(vs, c20ZeroUnix*tps, c20ZeroUnix*tps+1)
		}
		c20DT64Raw(h, p, h.c20AnyZone(), vs)
	}
	{
		var ps []int64
		for p := int64(0); p < 256; p++ {
			ps = append(ps, p)
		}
		c20Scale(h, ps)
	}
	c20Ints(h, "i128", c20I64Bounds)
	c20Ints(h, "u128i", c20I64Bounds)
	c20Ints(h, "i256", c20I64Bounds)
	c20Ints(h, "u256i", c20I64Bounds)
	{
		var us []uint64
		for _, b := range c20I64Bounds {
			us = append(us, uint64(b))
		}
		c20UInts(h, "u128", us)
		c20UInts(h, "i128u", us)
		c20UInts(h, "u256", us)
		for _, lo := range []uint64{0, 1, math.MaxInt64, 1 << 63, math.MaxUint64} {
			for _, hi := range []uint64{0, 1, math.MaxUint64 - 1, math.MaxUint64, 1 << 63, math.MaxInt64} {
				c20Raw128(h, "i128raw", lo, hi)
				c20Raw128(h, "u128raw", lo, hi)
			}
		}
	}
	c20IPv4(h, []int64{0, 1, 255, 256, 65535, 65536, 16777215, 16777216, 2130706433, 2147483647, 2147483648, 3232235777, 4294967294, 4294967295})
	// every value of each byte position
	for pos := uint(0); pos < 4; pos++ {
		var vs []int64
		base := int64(h.R.Uint32())
		for b := int64(0); b < 256; b++ {
			vs = append(vs, base&^(255<<(8*pos))|b<<(8*pos))
		}
		c20IPv4(h, vs)
	}
	mapped := []byte{0, 0, 0, 0, 0, 0, 0, 0, 0, 0, 255, 255, 1, 2, 3, 4}
	c20ToIPv4(h, mapped[12:])
	c20ToIPv4(h, mapped)
	c20ToIPv4(h, nil)              // zero Addr: As4 panics
	c20ToIPv4(h, make([]byte, 16)) // ::  is not IPv4-mapped: As4 panics
	c20ToIPv6(h, mapped[12:])
	c20ToIPv6(h, mapped)
	c20ToIPv6(h, nil)
	c20IPv6(h, mapped)
	c20IPv6(h, make([]byte, 16))
	for sc := int64(0); sc <= 9; sc++ { // 8, 9: no such unit -> panic
		for _, u := range []int64{1580428800 + 36000, 1582934400 + 86399, 951782400, -2208988800 + 1, 4107456000 + 43200, 10413791999, -86400*365 - 1} {
			off := h.c20AnyZone()
			c20Ivl(h, sc, off, h.c20Nsec(), u-off, []int64{0, 1, -1, 2, 3, 4, -4, 11, 12, 13, -12, -13, 48, -48, 400, -400, 1200, 4800})
		}
	}
	for _, g := range [][8]int64{{2020, 1, 31, 0, 0, 0, 0, 0}, {2020, 13, 1, 0, 0, 0, 0, 0}, {2020, 0, 0, 0, 0, 0, 0, 0}, {2019, -11, 31, 23, 59, 59, 999999999, 3600},
		{1900, 2, 29, 0, 0, 0, 0, -3600}, {2000, 2, 29, 12, 0, 0, 0, 0}, {1, 1, 1, 0, 0, 0, 0, 0}, {-1, 12, 31, 0, 0, 0, 0, 0}, {2021, 2, 31, 25, 61, 61, 1000000000, 0}, {2021, 3, -400, -25, -61, -61, -1, 45900}} {
		c20GoDate(h, g[0], g[1], g[2], g[3], g[4], g[5], g[6], g[7])
	}

	// 4b. direct oracle only (the model evaluator is too slow for 2^32 values; observation `-` is not compared):
	// every DateTime second and every IPv4 value in the thorough tier, a stride over them in the quick tier
	{
		stride := int64(4099)
		if thorough {
			stride = 1
		}
		c20FullSweep(h, "sweepdt", stride)
		c20FullSweep(h, "sweepipv4", stride)
	}

	// 5. the random stream (budget lines), structured and boundary-biased; about one line in eight is
	// outside every documented range (the malformed stream)
	for i := 0; i < budget; i++ {
		switch k := h.R.Intn(20); {
		case k < 2:
			day := int64(h.R.Intn(65536+400)) - 200
			c20Date(h, h.c20AnyZone(), h.c20Nsec(), h.c20Sod(), day, int64(h.R.Intn(3)+1), int64(h.R.Intn(16)+1))
		case k < 5:
			var day int64
			switch h.R.Intn(4) {
			case 0:
				day = int64(h.R.Intn(c20Date32Max-c20Date32Min+400)) + c20Date32Min - 200
			case 1:
				day = int64(h.R.Intn(50000)) - 49000 // before and around 1970
			case 2:
				day = int64(int32(h.R.Uint32())) // anywhere in int32
			default:
				day = h.c20Unix() / 86400
			}
			c20Date32(h, h.c20AnyZone(), h.c20Nsec(), h.c20Sod(), day, int64(h.R.Intn(400)+1), int64(h.R.Intn(16)+1))
		case k < 7:
			loc, has, cloc := h.c20Loc()
			c20DT(h, loc, has, cloc, h.c20AnyZone(), h.c20Nsec(), h.c20Unix(), int64(h.R.Intn(100000)+1), int64(h.R.Intn(16)+1))
		case k < 12:
			loc, has, cloc := h.c20Loc()
			p := int64(h.R.Intn(10))
			if h.R.Intn(40) == 0 {
				p = int64(h.R.Intn(256)) // invalid precisions behave like 9
			}
			c20DT64(h, p, loc, has, cloc, h.c20AnyZone(), h.c20Nsec(), h.c20Unix(), int64(h.R.Intn(100000)+1), int64(h.R.Intn(16)+1))
		case k < 13:
			p := int64(h.R.Intn(10))
			var vs []int64
			for j := 0; j < 8; j++ {
				vs = append(vs, h.c20I64())
			}
			c20DT64Raw(h, p, h.c20AnyZone(), vs)
		case k < 14:
			var vs []int64
			var us []uint64
			for j := 0; j < 8; j++ {
				vs = append(vs, h.c20I64())
				us = append(us, genU64(h.R))
			}
			switch h.R.Intn(8) {
			case 0:
				c20Ints(h, "i128", vs)
			case 1:
				c20Ints(h, "u128i", vs)
			case 2:
				c20Ints(h, "i256", vs)
			case 3:
				c20Ints(h, "u256i", vs)
			case 4:
				c20UInts(h, "u128", us)
			case 5:
				c20UInts(h, "i128u", us)
			case 6:
				c20UInts(h, "u256", us)
			default:
				c20Raw128(h, []string{"i128raw", "u128raw"}[h.R.Intn(2)], genU64(h.R), []uint64{0, math.MaxUint64, genU64(h.R)}[h.R.Intn(3)])
			}
		case k < 15:
			var vs []int64
			for j := 0; j < 16; j++ {
				vs = append(vs, int64(h.R.Uint32())>>uint(h.R.Intn(32)))
			}
			c20IPv4(h, vs)
			b := make([]byte, 16)
			h.R.Read(b)
			if h.R.Intn(2) == 0 {
				copy(b, mapped[:12])
			}
			switch h.R.Intn(4) {
			case 0:
				c20IPv6(h, b)
			case 1:
				c20ToIPv6(h, b[h.R.Intn(2)*12:])
			case 2:
				c20ToIPv4(h, b[12:])
			default:
				c20ToIPv4(h, b) // panics unless IPv4-mapped
			}
		case k < 19:
			sc := int64(h.R.Intn(8))
			if h.R.Intn(60) == 0 {
				sc = 8 + int64(h.R.Intn(3))
			}
			var vs []int64
			for j := 0; j < 6; j++ {
				vs = append(vs, h.c20IntervalValue())
			}
			u := h.c20Unix()
			if h.R.Intn(3) == 0 { // the last days of a month, where month arithmetic overflows
				y, m := 1900+h.R.Intn(400), time.Month(1+h.R.Intn(12))
				u = time.Date(y, m+1, 1, 0, 0, 0, 0, time.UTC).Unix() - int64(h.R.Intn(4*86400))
			}
			c20Ivl(h, sc, h.c20AnyZone(), h.c20Nsec(), u, vs)
		default:
			if h.R.Intn(2) == 0 {
				c20GoDate(h, int64(h.R.Intn(600))+1800, int64(h.R.Intn(60))-24, int64(h.R.Intn(100))-30, int64(h.R.Intn(60))-20,
					int64(h.R.Intn(200))-70, int64(h.R.Intn(200))-70, int64(h.R.Intn(2000000001))-1000000000, h.c20AnyZone())
			} else {
				c20Add(h, h.c20AnyZone(), h.c20Nsec(), h.c20Unix(), h.c20I64())
			}
		}
	}
}

func c20MinI64(a, b int64) int64 {
	if a < b {
		return a
	}
	return b
}

// ---- replay: re-run given case lines (file named by -arg file=...) ---------------------------------------
func init() { runners["c20replay"] = runC20Replay }

func runC20Replay(h *H) {
	saved := time.Local
	defer func() { time.Local = saved }()
	data, err := os.ReadFile(h.Args["file"])
	if err != nil {
		panic(err)
	}
	for _, line := range strings.Split(string(data), "\n") {
		line = strings.TrimSpace(line)
		if line != "" {
			c20RunLine(h, line)
		}
	}
}

func c20RunLine(h *H, line string) {
	f := strings.Fields(line)
	op := f[0]
	if len(f) == 2 && strings.HasPrefix(f[1], "x") {
		b, err := hex.DecodeString(f[1][1:])
		if err != nil {
			panic(err)
		}
		switch op {
		case "toipv4":
			c20ToIPv4(h, b)
		case "toipv6":
			c20ToIPv6(h, b)
		case "ipv6":
			c20IPv6(h, b)
		}
		return
	}
	var a []int64
	var u []uint64
	for _, s := range f[1:] {
		if v, err := strconv.ParseInt(s, 10, 64); err == nil {
			a = append(a, v)
			u = append(u, uint64(v))
		} else if w, err := strconv.ParseUint(s, 10, 64); err == nil {
			a = append(a, int64(w))
			u = append(u, w)
		} else {
			panic("bad number in case line: " + s)
		}
	}
	switch op {
	case "civil":
		c20Civil(h, a[0], a[1])
	case "godate":
		c20GoDate(h, a[0], a[1], a[2], a[3], a[4], a[5], a[6], a[7])
	case "add":
		c20Add(h, a[0], a[1], a[2], a[3])
	case "date":
		c20Date(h, a[0], a[1], a[2], a[3], a[4], a[5])
	case "date32":
		c20Date32(h, a[0], a[1], a[2], a[3], a[4], a[5])
	case "dt":
		c20DT(h, a[0], a[1], a[2], a[3], a[4], a[5], a[6], a[7])
	case "dt64":
		c20DT64(h, a[0], a[1], a[2], a[3], a[4], a[5], a[6], a[7], a[8])
	case "dt64raw":
		c20DT64Raw(h, a[0], a[1], a[2:])
	case "scale":
		c20Scale(h, a)
	case "i128", "u128i", "i256", "u256i":
		c20Ints(h, op, a)
	case "u128", "i128u", "u256":
		c20UInts(h, op, u)
	case "i128raw", "u128raw":
		c20Raw128(h, op, u[0], u[1])
	case "ipv4":
		c20IPv4(h, a)
	case "ivl":
		c20Ivl(h, a[0], a[1], a[2], a[3], a[4:])
	case "sweepdt", "sweepipv4":
		c20FullSweep(h, op, a[1])
	default:
		panic("unknown case line: " + line)
	}
}
