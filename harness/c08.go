package main

// C08 - decoding is independent of how the transport segments the byte stream.
//
// Two families in one transcript:
//
//   do ...   the real ch.Connect + Client.Do (+ a follow-up Ping) over c08Conn, which answers the handshake
//            and then serves a generated response stream (Data blocks of several column types, Progress, Profile,
//            TableColumns, Exception, EndOfStream; compression off / LZ4 / ZSTD / None, one or several frames per
//            block; truncated and corrupted streams).  Every stream is delivered at once (the reference), byte
//            by byte, in two pieces at every offset, in all 2^(n-1) ways when it is at most 12 bytes long, in
//            random pieces with random short reads, and with silences longer than ReadTimeout in front of
//            packets - in front of some of them and in front of every one of them at once (real deadlines, the real
//            receive loop of Client.Do retrying timeout after timeout).  Direct oracle: callback trace, decoded values, error and the outcome of the follow-up
//            Ping (= how many bytes Do consumed) equal the reference run's.
//
//   rd ...   proto.Reader driven directly over c08Conn (virtual time) by a list of Reader calls; the observation
//            (what every call returned, what is left unread) is compared with the layered model
//            (coq/model/Stream.v via GlueStream.v), and the direct oracle re-runs the same calls over the
//            unsegmented stream.

import (
	"bytes"
	"context"
	"crypto/sha1"
	"encoding/binary"
	"encoding/hex"
	"errors"
	"fmt"
	"io"
	"math/rand"
	"strconv"
	"strings"
	"time"

	ch "github.com/ClickHouse/ch-go"
	"github.com/ClickHouse/ch-go/compress"
	"github.com/ClickHouse/ch-go/proto"
	"github.com/go-faster/city"
)

func init() { runners["c08"] = runC08 }

// ---------------------------------------------------------------- response streams

type c08Stream struct {
	desc    string
	comp    ch.Compression
	hello   []byte
	packets [][]byte // the response, packet by packet (a truncated stream ends in a partial packet)
	pong    []byte
	tail    error
}

func (s *c08Stream) body() []byte {
	var b []byte
	for _, p := range s.packets {
		b = append(b, p...)
	}
	return append(b, s.pong...)
}

func c08Hello() []byte {
	var b proto.Buffer
	hello := proto.ServerHello{Name: "scripted", Major: 23, Minor: 8, Revision: proto.Version, Timezone: "UTC", DisplayName: "c08"}
	hello.EncodeAware(&b, proto.Version)
	return b.Buf
}

func c08Str(r *rand.Rand, max int) string {
	n := r.Intn(max + 1)
	b := make([]byte, n)
	for i := range b {
		if r.Intn(6) == 0 {
			b[i] = byte(r.Intn(256))
		} else {
			b[i] = byte('a' + r.Intn(26))
		}
	}
	return string(b)
}

// c08Columns builds a few columns of different kinds with `rows` rows.
func c08Columns(r *rand.Rand, rows int, kinds int, big int) []proto.InputColumn {
	var in []proto.InputColumn
	all := r.Perm(7)
	for _, k := range all[:kinds] {
		switch k {
		case 0:
			var c proto.ColUInt8
			for i := 0; i < rows; i++ {
				c.Append(uint8(r.Intn(256)))
			}
			in = append(in, proto.InputColumn{Name: "u8", Data: &c})
		case 1:
			var c proto.ColUInt64
			for i := 0; i < rows; i++ {
				c.Append(genU64(r))
			}
			in = append(in, proto.InputColumn{Name: "u64", Data: &c})
		case 2:
			var c proto.ColInt32
			for i := 0; i < rows; i++ {
				c.Append(genI32(r))
			}
			in = append(in, proto.InputColumn{Name: "i32", Data: &c})
		case 3:
			c := new(proto.ColStr)
			for i := 0; i < rows; i++ {
				if big > 0 && i == 0 {
					unit := c08Str(r, 40) + "x"
					c.Append(strings.Repeat(unit, big/len(unit)+1)[:big])
				} else {
					c.AppendBytes(genBytes(r))
				}
			}
			in = append(in, proto.InputColumn{Name: "s", Data: c})
		case 4:
			c := proto.NewArray[string](new(proto.ColStr))
			for i := 0; i < rows; i++ {
				var row []string
				for j := r.Intn(4); j > 0; j-- {
					row = append(row, c08Str(r, 9))
				}
				c.Append(row)
			}
			in = append(in, proto.InputColumn{Name: "as", Data: c})
		case 5:
			c := proto.NewColNullable[uint32](new(proto.ColUInt32))
			for i := 0; i < rows; i++ {
				if r.Intn(3) == 0 {
					c.Append(proto.Null[uint32]())
				} else {
					c.Append(proto.NewNullable(r.Uint32()))
				}
			}
			in = append(in, proto.InputColumn{Name: "n32", Data: c})
		case 6:
			c := new(proto.ColStr).LowCardinality()
			words := []string{"a", "bb", "", "ccc", c08Str(r, 5)}
			for i := 0; i < rows; i++ {
				c.Append(words[r.Intn(len(words))])
			}
			in = append(in, proto.InputColumn{Name: "lc", Data: c})
		}
	}
	return in
}

func c08Frames(r *rand.Rand, payload []byte, m compress.Method, pieces int) ([]byte, error) {
	var out []byte
	w := compress.NewWriter(0, m)
	cuts := []int{0}
	for i := 1; i < pieces && len(payload) > 1; i++ {
		cuts = append(cuts, 1+r.Intn(len(payload)-1))
	}
	cuts = append(cuts, len(payload))
	sortInts(cuts)
	for i := 0; i+1 < len(cuts); i++ {
		if err := w.Compress(payload[cuts[i]:cuts[i+1]]); err != nil {
			return nil, err
		}
		out = append(out, w.Data...)
	}
	return out, nil
}

func sortInts(a []int) {
	for i := 1; i < len(a); i++ {
		for j := i; j > 0 && a[j-1] > a[j]; j-- {
			a[j-1], a[j] = a[j], a[j-1]
		}
	}
}

func c08Method(c ch.Compression) compress.Method {
	switch c {
	case ch.CompressionLZ4:
		return compress.LZ4
	case ch.CompressionLZ4HC:
		return compress.LZ4HC
	case ch.CompressionZSTD:
		return compress.ZSTD
	default:
		return compress.None
	}
}

// c08DataPacket: code, temp table name, block (compressed into `pieces` frames when the client asked for compression)
func c08DataPacket(r *rand.Rand, code proto.ServerCode, comp ch.Compression, in []proto.InputColumn, rows, pieces int) ([]byte, error) {
	var b proto.Buffer
	code.Encode(&b)
	b.PutString("")
	var blk proto.Buffer
	if err := (proto.Block{Columns: len(in), Rows: rows}).EncodeBlock(&blk, proto.Version, in); err != nil {
		return nil, err
	}
	if comp == ch.CompressionDisabled {
		b.Buf = append(b.Buf, blk.Buf...)
		return b.Buf, nil
	}
	fr, err := c08Frames(r, blk.Buf, c08Method(comp), pieces)
	if err != nil {
		return nil, err
	}
	b.Buf = append(b.Buf, fr...)
	return b.Buf, nil
}

func c08Progress(r *rand.Rand, small bool) []byte {
	var b proto.Buffer
	proto.ServerCodeProgress.Encode(&b)
	p := proto.Progress{Rows: genU64(r), Bytes: genU64(r), TotalRows: genU64(r), WroteRows: genU64(r), WroteBytes: genU64(r), ElapsedNs: genU64(r)}
	if small {
		p = proto.Progress{Rows: uint64(r.Intn(100)), Bytes: uint64(r.Intn(300)), TotalRows: uint64(r.Intn(100))}
	}
	p.EncodeAware(&b, proto.Version)
	return b.Buf
}

func c08Profile(r *rand.Rand, small bool) []byte {
	var b proto.Buffer
	p := proto.Profile{Rows: genU64(r), Blocks: genU64(r), Bytes: genU64(r), AppliedLimit: r.Intn(2) == 0, RowsBeforeLimit: genU64(r), CalculatedRowsBeforeLimit: r.Intn(2) == 0}
	if small {
		p = proto.Profile{Rows: uint64(r.Intn(100)), Blocks: 1, Bytes: uint64(r.Intn(100))}
	}
	p.EncodeAware(&b, proto.Version)
	return b.Buf
}

func c08Exception(r *rand.Rand, depth int, msgLen int) []byte {
	var b proto.Buffer
	proto.ServerCodeException.Encode(&b)
	for i := 0; i < depth; i++ {
		msg := c08Str(r, 12)
		if msgLen > 0 && i == 0 {
			msg = strings.Repeat("m", msgLen)
		}
		e := proto.Exception{Code: proto.Error(r.Intn(1000)), Name: "DB::E" + strconv.Itoa(i), Message: msg, Stack: c08Str(r, 6), Nested: i+1 < depth}
		e.EncodeAware(&b, proto.Version)
	}
	return b.Buf
}

func c08TableColumns(r *rand.Rand) []byte {
	var b proto.Buffer
	proto.TableColumns{First: c08Str(r, 5), Second: "columns format version: 1\n" + c08Str(r, 8)}.EncodeAware(&b, proto.Version)
	return b.Buf
}

var c08Comps = []ch.Compression{ch.CompressionDisabled, ch.CompressionLZ4, ch.CompressionZSTD, ch.CompressionNone, ch.CompressionLZ4HC}

// c08GenStream: kind selects the shape
func c08GenStream(r *rand.Rand, kind int) (*c08Stream, error) {
	s := &c08Stream{hello: c08Hello(), pong: []byte{byte(proto.ServerCodePong)}, comp: ch.CompressionDisabled}
	eos := []byte{byte(proto.ServerCodeEndOfStream)}
	add := func(p []byte) { s.packets = append(s.packets, p) }
	switch kind {
	case 0: // tiny: EndOfStream only
		s.desc = "eos"
		add(eos)
	case 1: // tiny: small Progress, EndOfStream
		s.desc = "progress-eos"
		add(c08Progress(r, true))
		add(eos)
	case 2: // tiny: small Profile
		s.desc = "profile-eos"
		add(c08Profile(r, true))
		add(eos)
	case 3: // tiny exception
		s.desc = "tiny-exception"
		var b proto.Buffer
		proto.ServerCodeException.Encode(&b)
		(&proto.Exception{Code: 60, Name: "E", Message: "m", Stack: ""}).EncodeAware(&b, proto.Version)
		add(b.Buf)
	case 4, 5, 6, 7, 8: // a result: header block, data blocks, progress/profile in between, end of stream
		s.comp = c08Comps[kind-4]
		s.desc = "result-" + strings.ToLower(fmt.Sprint(s.comp))
		kinds := 1 + r.Intn(4)
		seed := r.Int63()
		// one fixed column set: generate all blocks from one generator with a fixed permutation
		perm := rand.New(rand.NewSource(seed))
		first := c08Columns(perm, 0, kinds, 0)
		names := map[string]bool{}
		for _, c := range first {
			names[c.Name] = true
		}
		block := func(rows int) error {
			in := c08Columns(r, rows, 7, 0)
			var sel []proto.InputColumn
			for _, f := range first {
				for _, c := range in {
					if c.Name == f.Name {
						sel = append(sel, c)
					}
				}
			}
			p, err := c08DataPacket(r, proto.ServerCodeData, s.comp, sel, rows, 1+r.Intn(3))
			if err != nil {
				return err
			}
			add(p)
			return nil
		}
		if err := block(0); err != nil {
			return nil, err
		}
		if r.Intn(2) == 0 {
			add(c08TableColumns(r))
		}
		for i := 1 + r.Intn(3); i > 0; i-- {
			if r.Intn(2) == 0 {
				add(c08Progress(r, false))
			}
			if err := block(1 + r.Intn(6)); err != nil {
				return nil, err
			}
		}
		if r.Intn(2) == 0 {
			add(c08Profile(r, false))
		}
		add(c08Progress(r, false))
		switch r.Intn(4) {
		case 0:
			s.desc += "-exception"
			add(c08Exception(r, 1+r.Intn(3), 0))
		default:
			add(eos)
		}
	case 9: // big: a string column beyond the 128 KiB of bufio, compressed or not
		s.comp = c08Comps[r.Intn(3)]
		s.desc = "big-" + strings.ToLower(fmt.Sprint(s.comp))
		rows := 2
		c := new(proto.ColStr)
		want := 140000 + r.Intn(5000)
		unit := c08Str(r, 30) + "y"
		c.Append(strings.Repeat(unit, want/len(unit)+1)[:want])
		c.Append("tail")
		var u proto.ColUInt8
		u.Append(1)
		u.Append(2)
		p, err := c08DataPacket(r, proto.ServerCodeData, s.comp, []proto.InputColumn{{Name: "s", Data: c}, {Name: "u8", Data: &u}}, rows, 1+r.Intn(2))
		if err != nil {
			return nil, err
		}
		add(p)
		add(c08Progress(r, false))
		add(eos)
	case 14: // many short strings: more than 1 MiB of String data in one column (the column buffer grows in bounded steps)
		s.desc = "manystrings"
		rows := 12000 + r.Intn(500)
		c := new(proto.ColStr)
		for i := 0; i < rows; i++ {
			c.Append(fmt.Sprintf("%06d:", i) + strings.Repeat(string(rune('a'+r.Intn(26)))+"pad", 30)[:90+r.Intn(8)])
		}
		var u proto.ColUInt32
		for i := 0; i < rows; i++ {
			u.Append(uint32(i))
		}
		p, err := c08DataPacket(r, proto.ServerCodeData, ch.CompressionDisabled, []proto.InputColumn{{Name: "s", Data: c}, {Name: "n", Data: &u}}, rows, 1)
		if err != nil {
			return nil, err
		}
		add(p)
		add(c08Progress(r, false))
		add(eos)
	case 10: // an exception whose message is longer than maxStrPrealloc (StrRaw reads it in rounds)
		s.desc = "long-exception"
		add(c08Progress(r, true))
		add(c08Exception(r, 2, (1<<20)+17+r.Intn(100)))
	case 11: // malformed: a result cut short
		base, err := c08GenStream(r, 4+r.Intn(5))
		if err != nil {
			return nil, err
		}
		s = base
		s.desc += "-truncated"
		all := []byte{}
		for _, p := range s.packets {
			all = append(all, p...)
		}
		cut := r.Intn(len(all))
		var pk [][]byte
		left := cut
		for _, p := range s.packets {
			if left <= 0 {
				break
			}
			if len(p) <= left {
				pk = append(pk, p)
				left -= len(p)
			} else {
				pk = append(pk, p[:left])
				left = 0
			}
		}
		s.packets = pk
		s.pong = nil
		if r.Intn(3) == 0 {
			s.tail = errors.New("connection reset by peer")
		}
	case 12: // malformed: one byte of a result altered (frame checksum, lengths, codes, values)
		base, err := c08GenStream(r, 4+r.Intn(5))
		if err != nil {
			return nil, err
		}
		s = base
		s.desc += "-altered"
		pi := r.Intn(len(s.packets))
		p := append([]byte(nil), s.packets[pi]...)
		if len(p) > 0 {
			p[r.Intn(len(p))] ^= byte(1 << uint(r.Intn(8)))
		}
		s.packets[pi] = p
	case 13: // malformed: unknown packet code / garbage after a valid prefix
		s.desc = "garbage"
		add(c08Progress(r, true))
		g := make([]byte, 1+r.Intn(40))
		r.Read(g)
		if r.Intn(2) == 0 {
			g[0] = byte(15 + r.Intn(100))
		}
		add(g)
	}
	return s, nil
}

// ---------------------------------------------------------------- one run of the client

func c08Fingerprint(b []byte) string {
	if len(b) <= 48 {
		return hex.EncodeToString(b)
	}
	h := sha1.Sum(b)
	return fmt.Sprintf("sha1:%s/%d", hex.EncodeToString(h[:8]), len(b))
}

func c08ColValue(c proto.ColResult) (s string) {
	defer func() {
		if p := recover(); p != nil {
			s = fmt.Sprintf("panic:%v", p)
		}
	}()
	var b proto.Buffer
	if p, ok := c.(proto.Preparable); ok {
		_ = p.Prepare()
	}
	if e, ok := c.(proto.Column); ok {
		if st, ok := c.(proto.StateEncoder); ok {
			st.EncodeState(&b)
		}
		e.EncodeColumn(&b)
		return fmt.Sprintf("%s/%d/%s", e.Type(), e.Rows(), c08Fingerprint(b.Buf))
	}
	return fmt.Sprintf("rows=%d", c.Rows())
}

type c08Out struct {
	trace    []string
	err      string
	closed   bool
	ping     string
	timeouts int
	reads    int
	rem      int // bytes of the script the client never read (after Do and the follow-up Ping)
	onWrites int // read timeouts whose deadline also covered writes
	armed    bool // a read deadline was still armed on the connection when Connect returned
}

func (o c08Out) String() string {
	return fmt.Sprintf("trace=[%s] err=%s closed=%v ping=%s", strings.Join(o.trace, ";"), o.err, o.closed, o.ping)
}

func c08ErrString(err error) string {
	if err == nil {
		return "nil"
	}
	var exc *ch.Exception
	if errors.As(err, &exc) {
		return fmt.Sprintf("exception(%d,%s,%s,%s,next=%d)", exc.Code, exc.Name, c08Fingerprint([]byte(exc.Message)), exc.Stack, len(exc.Next))
	}
	s := err.Error()
	if len(s) > 300 {
		s = s[:300]
	}
	return sanitize(s)
}

const c08ReadTimeout = 30 * time.Millisecond

// the deadline-near-the-gap run: ReadTimeout c08TightRT, the caller's context ends c08TightDeadline after Do begins
// (between one and two read timeouts): one silence in front of a packet is retried and the packet, which comes right
// after it, is read long before the context ends
const c08TightRT = 400 * time.Millisecond
const c08TightDeadline = 700 * time.Millisecond

var c08Tight bool

// c08RunDo connects over the scripted connection, runs one query and a follow-up Ping.
func c08RunDo(st *c08Stream, evs []c08Ev, pattern []int, realtime bool) (out c08Out) {
	defer func() {
		if p := recover(); p != nil {
			out.err = fmt.Sprintf("panic:%v", p)
		}
	}()
	ctx, cancel := context.WithTimeout(context.Background(), 20*time.Second)
	defer cancel()
	conn := c08NewConn(evs, pattern, st.tail, realtime)
	rt := 5 * time.Second
	if realtime {
		rt = c08ReadTimeout
	}
	if c08Tight {
		rt = c08TightRT
	}
	client, err := ch.Connect(ctx, conn, ch.Options{Compression: st.comp, ReadTimeout: rt})
	if err != nil {
		out.err = "connect:" + c08ErrString(err)
		return out
	}
	conn.mu.Lock()
	out.armed = !conn.deadline.IsZero()
	conn.mu.Unlock()
	var res proto.Results
	q := ch.Query{
		Body:    "SELECT 1",
		QueryID: "c08",
		Result:  res.Auto(),
		OnResult: func(ctx context.Context, b proto.Block) error {
			var cols []string
			for _, c := range res {
				cols = append(cols, c.Name+":"+c08ColValue(c.Data))
			}
			out.trace = append(out.trace, fmt.Sprintf("block(%d,%d,%s)", b.Columns, b.Rows, strings.Join(cols, ",")))
			return nil
		},
		OnProgress: func(ctx context.Context, p proto.Progress) error {
			out.trace = append(out.trace, fmt.Sprintf("progress(%d,%d,%d,%d,%d,%d)", p.Rows, p.Bytes, p.TotalRows, p.WroteRows, p.WroteBytes, p.ElapsedNs))
			return nil
		},
		OnProfile: func(ctx context.Context, p proto.Profile) error {
			out.trace = append(out.trace, fmt.Sprintf("profile(%d,%d,%d,%v,%d,%v)", p.Rows, p.Blocks, p.Bytes, p.AppliedLimit, p.RowsBeforeLimit, p.CalculatedRowsBeforeLimit))
			return nil
		},
	}
	dctx := ctx
	if c08Tight {
		var dcancel context.CancelFunc
		dctx, dcancel = context.WithTimeout(ctx, c08TightDeadline)
		defer dcancel()
	}
	err = client.Do(dctx, q)
	out.err = c08ErrString(err)
	out.closed = client.IsClosed()
	if perr := client.Ping(ctx); perr != nil {
		out.ping = "err:" + c08ErrString(perr)
	} else {
		out.ping = "ok"
	}
	conn.mu.Lock()
	out.timeouts, out.reads = conn.timeouts, conn.reads
	out.onWrites = conn.timeoutsOnWrites
	conn.mu.Unlock()
	out.rem = conn.remaining()
	_ = client.Close()
	return out
}

// c08Cut splits b at the given sorted offsets into chunk events.
func c08Cut(b []byte, cuts []int) []c08Ev {
	var evs []c08Ev
	prev := 0
	for _, c := range cuts {
		if c <= prev || c >= len(b) {
			continue
		}
		evs = append(evs, c08Ev{data: b[prev:c]})
		prev = c
	}
	if prev < len(b) {
		evs = append(evs, c08Ev{data: b[prev:]})
	}
	return evs
}

func c08CutsSx(cuts []int) string {
	if len(cuts) > 24 {
		return fmt.Sprintf("(%d-cuts)", len(cuts))
	}
	s := make([]string, len(cuts))
	for i, c := range cuts {
		s[i] = strconv.Itoa(c)
	}
	return sx(s...)
}

var c08TightRuns int // per process: three of these runs are enough (0.4 s each)

var c08GapsEveryRuns int // rotates the delivery of the gaps-every runs: at once, byte by byte, random pieces

type c08Seg struct {
	kind    string
	cuts    []int
	pattern []int
	gaps    map[int]int // packet index -> number of silences in front of it
	inside  []int       // offsets inside packets at which the stream pauses (no deadline is armed there)
	hello   []int       // cuts inside the hello
}

func c08Events(st *c08Stream, sg c08Seg) []c08Ev {
	evs := c08Cut(st.hello, sg.hello)
	body := st.body()
	if len(sg.gaps) == 0 && len(sg.inside) == 0 {
		return append(evs, c08Cut(body, sg.cuts)...)
	}
	// silences sit at packet boundaries: cut the body there as well
	bounds := map[int]int{}
	off := 0
	for i, p := range st.packets {
		bounds[off] = i
		off += len(p)
	}
	if len(st.pong) > 0 {
		bounds[off] = len(st.packets) // in front of the pong
	}
	points := map[int]bool{}
	for _, c := range sg.cuts {
		if c > 0 && c < len(body) {
			points[c] = true
		}
	}
	for o := range bounds {
		points[o] = true
	}
	pause := map[int]bool{}
	for _, o := range sg.inside {
		if o > 0 && o < len(body) {
			points[o] = true
			pause[o] = true
		}
	}
	var all []int
	for c := range points {
		all = append(all, c)
	}
	sortInts(all)
	prev := 0
	for _, c := range all {
		if c > prev {
			evs = append(evs, c08Ev{data: body[prev:c]})
			prev = c
		}
		if pi, ok := bounds[c]; ok {
			for k := sg.gaps[pi]; k > 0; k-- {
				evs = append(evs, c08Ev{gap: true})
			}
		} else if pause[c] {
			evs = append(evs, c08Ev{gap: true})
		}
	}
	if prev < len(body) {
		evs = append(evs, c08Ev{data: body[prev:]})
	}
	return evs
}

func c08Case(st *c08Stream, sg c08Seg) string {
	body := st.body()
	hexs := hex.EncodeToString(body)
	if len(hexs) > 600 {
		hexs = hexs[:600] + "..."
	}
	gaps := ""
	if len(sg.gaps) > 0 {
		var g []string
		for i := 0; i <= len(st.packets); i++ {
			if sg.gaps[i] > 0 {
				g = append(g, fmt.Sprintf("%d:%d", i, sg.gaps[i]))
			}
		}
		gaps = " gaps=" + strings.Join(g, ",")
	}
	if len(sg.inside) > 0 {
		gaps += fmt.Sprintf(" pauses=%v", sg.inside)
	}
	return fmt.Sprintf("do %s comp=%v len=%d seg=%s cuts=%s pattern=%v hello=%v%s stream=x%s", st.desc, st.comp, len(body), sg.kind, c08CutsSx(sg.cuts), sg.pattern, sg.hello, gaps, hexs)
}

func c08Compare(ref, got c08Out) string {
	if ref.String() == got.String() {
		return "ok"
	}
	a, b := ref.String(), got.String()
	i := 0
	for i < len(a) && i < len(b) && a[i] == b[i] {
		i++
	}
	lo := i - 60
	if lo < 0 {
		lo = 0
	}
	cut := func(s string) string {
		hi := i + 120
		if hi > len(s) {
			hi = len(s)
		}
		if lo > len(s) {
			return ""
		}
		return s[lo:hi]
	}
	return sanitize(fmt.Sprintf("FAIL:segmentation changed the outcome of Do: delivered at once ...%s... segmented ...%s...", cut(a), cut(b)))
}

func c08DoStream(h *H, st *c08Stream, budget int, gapBudget *int) {
	ref := c08RunDo(st, c08Events(st, c08Seg{kind: "one"}), nil, false)
	h.Emit(c08Case(st, c08Seg{kind: "one"}), "-", "ok")
	h.Stat("do.stream." + strings.SplitN(st.desc, "-", 2)[0])
	if strings.HasPrefix(ref.err, "connect:") || strings.HasPrefix(ref.err, "panic:") {
		h.Emit(c08Case(st, c08Seg{kind: "one"}), "-", "FAIL:the reference run did not get through the handshake: "+sanitize(ref.err))
		return
	}
	h.Stat("do.outcome." + c08OutcomeClass(ref))
	body := st.body()
	n := len(body)
	if n < 2 {
		return // nothing to segment
	}
	run := func(sg c08Seg, realtime bool) {
		got := c08RunDo(st, c08Events(st, sg), sg.pattern, realtime)
		oracle := c08Compare(ref, got)
		if oracle == "ok" && got.armed {
			oracle = "FAIL:the handshake left a read deadline armed on the connection: whatever arrives after it has passed - the rest of a packet, or the next packet of a query without a read timeout - fails or spins on a stale timeout"
		}
		if oracle == "ok" && got.onWrites > 0 {
			oracle = fmt.Sprintf("FAIL:%d read timeouts between packets expired a deadline that was armed for writes too (SetDeadline): a write in progress while the client waits for a packet fails with the read timeout", got.onWrites)
		}
		if oracle == "ok" && len(sg.gaps) > 0 {
			want := 0
			for _, k := range sg.gaps {
				want += k
			}
			if got.timeouts == 0 && want > 0 && ref.err != "" && !strings.HasPrefix(st.desc, "garbage") && st.tail == nil && len(st.pong) > 0 && got.ping == "ok" {
				oracle = "FAIL:silences were scripted but no read timed out (the deadline is not armed)"
			}
			// a well-formed stream read to its last byte: every silence in front of a packet was met by the
			// packet-code read, under its deadline, and retried (a slow machine can only add timeouts)
			wellFormed := !strings.Contains(st.desc, "altered") && !strings.Contains(st.desc, "truncated") && !strings.HasPrefix(st.desc, "garbage")
			if oracle == "ok" && wellFormed && st.tail == nil && len(sg.inside) == 0 && got.rem == 0 && got.ping == "ok" && got.timeouts < want {
				oracle = fmt.Sprintf("FAIL:%d silences in front of packets were scripted and the whole stream was read, but only %d reads timed out (a deadline is not armed for every packet-code read)", want, got.timeouts)
			}
			np := 0
			for _, k := range sg.gaps {
				if k > 0 {
					np++
				}
			}
			switch {
			case np >= 3:
				h.Stat("do.gaps.before>=3packets")
			case np == 2:
				h.Stat("do.gaps.before-2packets")
			default:
				h.Stat("do.gaps.before-1packet")
			}
			if np == len(st.packets) && np > 1 {
				h.Stat("do.gaps.before-every-packet")
			}
		}
		h.Emit(c08Case(st, sg), "-", oracle)
		h.Stat("do.seg." + sg.kind)
	}
	used := 0
	// byte by byte
	if n <= 6000 {
		cuts := make([]int, 0, n)
		for i := 1; i < n; i++ {
			cuts = append(cuts, i)
		}
		run(c08Seg{kind: "bytes", cuts: cuts}, false)
		run(c08Seg{kind: "bytes1", pattern: []int{1}}, false)
		used += 2
	} else {
		run(c08Seg{kind: "bytes1", pattern: []int{1}}, false)
		used++
	}
	// all 2^(n-1) splits of short streams
	if n <= 12 {
		for mask := 0; mask < 1<<uint(n-1); mask++ {
			var cuts []int
			for i := 1; i < n; i++ {
				if mask&(1<<uint(i-1)) != 0 {
					cuts = append(cuts, i)
				}
			}
			run(c08Seg{kind: "all", cuts: cuts}, false)
			used++
		}
	}
	// two pieces at every offset (every offset when it fits the budget, else boundary-biased + random)
	if n > 12 {
		offs := []int{}
		if n-1 <= budget/2 {
			for i := 1; i < n; i++ {
				offs = append(offs, i)
			}
		} else {
			seen := map[int]bool{}
			addo := func(o int) {
				if o >= 1 && o < n && !seen[o] {
					seen[o] = true
					offs = append(offs, o)
				}
			}
			off := 0
			for _, p := range st.packets {
				for d := -2; d <= 30; d++ {
					addo(off + d)
				}
				off += len(p)
			}
			for d := -3; d <= 1; d++ {
				addo(off + d)
			}
			for _, o := range []int{131071, 131072, 131073, 65536, 131072 + 25, 1 << 20, (1 << 20) + 1} {
				addo(o)
			}
			for len(offs) < budget/2 {
				addo(1 + h.R.Intn(n-1))
			}
		}
		for _, o := range offs {
			run(c08Seg{kind: "two", cuts: []int{o}}, false)
			used++
		}
	}
	// random pieces, random short reads, hello split as well
	nr := budget / 4
	if nr < 6 {
		nr = 6
	}
	if n > 100000 {
		nr = 6
	}
	for i := 0; i < nr; i++ {
		var cuts []int
		k := 1 + h.R.Intn(12)
		if h.R.Intn(3) == 0 {
			k = 1 + h.R.Intn(c05Min(n, 200))
		}
		for j := 0; j < k && n > 1; j++ {
			cuts = append(cuts, 1+h.R.Intn(n-1))
		}
		sortInts(cuts)
		var pat []int
		switch h.R.Intn(4) {
		case 0:
			pat = []int{1 + h.R.Intn(5)}
		case 1:
			pat = []int{0, 1, 1 + h.R.Intn(40)}
		case 2:
			pat = []int{h.R.Intn(3), h.R.Intn(9), h.R.Intn(200), h.R.Intn(70000)}
		}
		var hc []int
		for j := h.R.Intn(4); j > 0; j-- {
			hc = append(hc, 1+h.R.Intn(len(st.hello)-1))
		}
		sortInts(hc)
		run(c08Seg{kind: "rand", cuts: cuts, pattern: pat, hello: hc}, false)
		used++
	}
	// silences longer than ReadTimeout in front of packets (real deadlines, real sleeping)
	for tries := 0; tries < 3 && *gapBudget > 0 && len(st.packets) > 0; tries++ {
		gaps := map[int]int{}
		total := 0
		for pi := 0; pi < len(st.packets); pi++ { // not in front of the pong: Ping does not retry a timeout
			if h.R.Intn(3) == 0 || (tries == 0 && pi == 1) || (tries == 0 && pi == 0) {
				k := 1
				if h.R.Intn(4) == 0 {
					k = 2
				}
				gaps[pi] = k
				total += k
			}
		}
		if total == 0 || total > *gapBudget {
			continue
		}
		*gapBudget -= total
		sg := c08Seg{kind: "gaps", gaps: gaps}
		if tries == 1 && n <= 3000 {
			sg.kind = "gaps+bytes"
			for i := 1; i < n; i++ {
				sg.cuts = append(sg.cuts, i)
			}
		} else if tries == 2 {
			sg.kind = "gaps+rand"
			for j := 0; j < 5 && n > 1; j++ {
				sg.cuts = append(sg.cuts, 1+h.R.Intn(n-1))
			}
			sortInts(sg.cuts)
			sg.pattern = []int{1 + h.R.Intn(7)}
		}
		run(sg, true)
	}
	// one silence in front of one packet, under a caller deadline between one and two read timeouts away: retried, and
	// the outcome is that of the stream without the silence
	if c08TightRuns < 3 && len(st.packets) >= 2 && ref.err == "nil" && *gapBudget > 0 {
		c08TightRuns++
		*gapBudget--
		c08Tight = true
		run(c08Seg{kind: "gap-near-deadline", gaps: map[int]int{len(st.packets) - 1: 1}}, true)
		c08Tight = false
	}
	// silences in front of EVERY packet of the stream at once (one, sometimes two or three), delivered at once, byte by
	// byte or in random pieces with short reads: the whole receive loop, timeout after timeout
	if np := len(st.packets); np >= 2 && np <= 14 && *gapBudget >= 2*np {
		gaps := map[int]int{}
		total := 0
		for pi := 0; pi < np; pi++ {
			k := 1
			switch h.R.Intn(6) {
			case 0:
				k = 2
			case 1:
				k = 3
			}
			gaps[pi] = k
			total += k
		}
		if total <= *gapBudget {
			*gapBudget -= total
			sg := c08Seg{kind: "gaps-every", gaps: gaps}
			c08GapsEveryRuns++
			switch c08GapsEveryRuns % 3 {
			case 0:
				if n <= 3000 {
					sg.kind = "gaps-every+bytes"
					for i := 1; i < n; i++ {
						sg.cuts = append(sg.cuts, i)
					}
				}
			case 1:
				sg.kind = "gaps-every+rand"
				for j := 0; j < 8 && n > 1; j++ {
					sg.cuts = append(sg.cuts, 1+h.R.Intn(n-1))
				}
				sortInts(sg.cuts)
				sg.pattern = []int{1 + h.R.Intn(7), 0, 1}
			}
			run(sg, true)
		}
	}
	// a pause of the stream inside a packet (after its code, in the middle of its body): no deadline is armed there,
	// so it must be waited out
	if *gapBudget > 0 && len(st.packets) > 0 && n > 3 {
		var inside []int
		off := 0
		for _, p := range st.packets {
			if len(p) > 2 && len(inside) < 2 && h.R.Intn(2) == 0 {
				inside = append(inside, off+1+h.R.Intn(len(p)-1))
			}
			off += len(p)
		}
		if len(inside) == 0 && len(st.packets[0]) > 1 {
			inside = append(inside, 1)
		}
		if len(inside) > 0 {
			*gapBudget -= len(inside)
			run(c08Seg{kind: "pause-inside", inside: inside, gaps: map[int]int{0: 1}}, true)
		}
	}
	_ = used
}

func c08OutcomeClass(o c08Out) string {
	switch {
	case o.err == "nil":
		return "ok"
	case strings.HasPrefix(o.err, "exception("):
		return "exception"
	default:
		return "error"
	}
}

// ---------------------------------------------------------------- proto.Reader driven directly (correspondence)

type c08Op struct {
	k string
	n int
}

func (o c08Op) sx() string {
	switch o.k {
	case "f", "w", "p":
		return sx(o.k, strconv.Itoa(o.n))
	case "c":
		return sx("c", bsym(o.n == 1))
	}
	return sx(o.k)
}

// c08Exec runs the ops on a proto.Reader over the scripted connection and prints what every call returned.
// the kind of every error of the last c08Exec, in order (oracle only: the model knows error classes, not Go's sentinel values)
var c08Kinds []string
var c08LastKinds string

func c08E(err error) string {
	k := "other"
	var to interface{ Timeout() bool }
	switch {
	case errors.Is(err, io.ErrUnexpectedEOF):
		k = "unexpected-EOF"
	case errors.Is(err, io.EOF):
		k = "EOF"
	case errors.As(err, &to) && to.Timeout():
		k = "timeout"
	}
	c08Kinds = append(c08Kinds, k)
	return "(e)"
}

func c08Exec(evs []c08Ev, pattern []int, tail error, ops []c08Op) (obs string) {
	conn := c08NewConn(evs, pattern, tail, false)
	r := proto.NewReader(conn)
	var out []string
	stopped := false
	c08Kinds = c08Kinds[:0]
	defer func() { c08LastKinds = strings.Join(c08Kinds, ",") }()
	func() {
		defer func() {
			if p := recover(); p != nil {
				out = append(out, "(crash)")
				stopped = true
			}
		}()
		for _, o := range ops {
			switch o.k {
			case "f":
				buf := make([]byte, o.n)
				if err := r.ReadFull(buf); err != nil {
					out = append(out, "(e)")
				} else {
					out = append(out, sx("d", hx(buf)))
				}
			case "w":
				b, err := r.ReadRaw(o.n)
				if err != nil {
					out = append(out, c08E(err))
				} else {
					out = append(out, sx("d", hx(b)))
				}
			case "u":
				v, err := r.UVarInt()
				if err != nil {
					out = append(out, c08E(err))
				} else {
					out = append(out, sx("n", strconv.FormatUint(v, 10)))
				}
			case "s":
				b, err := r.StrRaw()
				if err != nil {
					out = append(out, c08E(err))
				} else {
					out = append(out, sx("d", hx(b)))
				}
			case "b":
				v, err := r.UInt8()
				if err != nil {
					out = append(out, c08E(err))
				} else {
					out = append(out, sx("n", strconv.Itoa(int(v))))
				}
			case "k":
				v, err := r.Bool()
				if err != nil {
					out = append(out, c08E(err))
				} else if v {
					out = append(out, "(n 1)")
				} else {
					out = append(out, "(n 0)")
				}
			case "i":
				v, err := r.Int32()
				if err != nil {
					out = append(out, c08E(err))
				} else {
					out = append(out, sx("n", strconv.FormatInt(int64(v), 10)))
				}
			case "q":
				v, err := r.UInt64()
				if err != nil {
					out = append(out, c08E(err))
				} else {
					out = append(out, sx("n", strconv.FormatUint(v, 10)))
				}
			case "c":
				if o.n == 1 {
					r.EnableCompression()
				} else {
					r.DisableCompression()
				}
				out = append(out, "(c)")
			case "p":
				// what Client.packet and the receive loop do around reader.UVarInt (client.go, query.go); the real
				// functions are exercised by the `do` family, this op ties the model of the deadline to the connection
				res := "(fuel)"
				for round := 0; round < o.n; round++ {
					_ = conn.SetReadDeadline(time.Now().Add(time.Hour))
					v, err := r.UVarInt()
					_ = conn.SetReadDeadline(time.Time{})
					if err != nil {
						var op interface{ Timeout() bool }
						if errors.As(err, &op) && op.Timeout() {
							continue
						}
						res = c08E(err)
						break
					}
					if code := proto.ServerCode(v); !code.IsAServerCode() {
						res = "(e)"
					} else {
						res = sx("n", strconv.Itoa(int(code)))
					}
					break
				}
				out = append(out, res)
				if res == "(fuel)" {
					stopped = true
					return
				}
			}
		}
	}()
	if !stopped {
		r.DisableCompression()
		_ = conn.SetReadDeadline(time.Time{})
		rest, _ := io.ReadAll(r)
		head := rest
		if len(head) > 16 {
			head = head[:16]
		}
		out = append(out, sx("rest", strconv.Itoa(len(rest)), hx(head)))
	}
	return "ok " + strings.Join(out, " ")
}

func c08EvsSx(evs []c08Ev) string {
	s := make([]string, len(evs))
	for i, e := range evs {
		if e.gap {
			s[i] = "t"
		} else {
			s[i] = hx(e.data)
		}
	}
	return sx(s...)
}

func c08Flat(evs []c08Ev) []byte {
	var b []byte
	for _, e := range evs {
		b = append(b, e.data...)
	}
	return b
}

func c08OpsSx(ops []c08Op) string {
	s := make([]string, len(ops))
	for i, o := range ops {
		s[i] = o.sx()
	}
	return sx(s...)
}

func c08Pattern(r *rand.Rand) []int {
	switch r.Intn(6) {
	case 0:
		return nil
	case 1:
		return []int{1}
	case 2:
		return []int{1 + r.Intn(4)}
	case 3:
		return []int{0, 1, 2 + r.Intn(30)}
	case 4:
		return []int{r.Intn(3), r.Intn(9), r.Intn(300), r.Intn(3)}
	default:
		return []int{r.Intn(3000)}
	}
}

func c08PatSx(p []int) string {
	s := make([]string, len(p))
	for i, v := range p {
		s[i] = strconv.Itoa(v)
	}
	return sx(s...)
}

// c08Field appends one encoded field and the op that reads it.
func c08Field(r *rand.Rand, b *proto.Buffer, ops *[]c08Op, allowBig bool) {
	switch r.Intn(10) {
	case 0, 1:
		b.PutUVarInt(genU64(r))
		*ops = append(*ops, c08Op{k: "u"})
	case 2, 3:
		s := genBytes(r)
		if allowBig && r.Intn(12) == 0 {
			s = bytes.Repeat([]byte("0123456789abcdef"), (131072+r.Intn(9000))/16)
		}
		b.PutString(string(s))
		*ops = append(*ops, c08Op{k: "s"})
	case 4:
		n := r.Intn(40)
		if r.Intn(4) == 0 {
			n = []int{0, 1, 16, 25, 255, 256, 4096}[r.Intn(7)]
		}
		raw := make([]byte, n)
		r.Read(raw)
		b.Buf = append(b.Buf, raw...)
		if r.Intn(2) == 0 {
			*ops = append(*ops, c08Op{k: "f", n: n})
		} else {
			*ops = append(*ops, c08Op{k: "w", n: n})
		}
	case 5:
		b.PutByte(byte(r.Intn(256)))
		*ops = append(*ops, c08Op{k: "b"})
	case 6:
		v := byte(r.Intn(2))
		if r.Intn(8) == 0 {
			v = byte(2 + r.Intn(250))
		}
		b.PutByte(v)
		*ops = append(*ops, c08Op{k: "k"})
	case 7:
		b.PutInt32(genI32(r))
		*ops = append(*ops, c08Op{k: "i"})
	case 8:
		b.PutUInt64(genU64(r))
		*ops = append(*ops, c08Op{k: "q"})
	case 9:
		// an over-long or overflowing varint
		n := 9 + r.Intn(3)
		for i := 0; i < n; i++ {
			b.PutByte(0x80 | byte(r.Intn(128)))
		}
		b.PutByte(byte(r.Intn(4)))
		*ops = append(*ops, c08Op{k: "u"})
	}
}

type c08Part struct {
	data  []byte
	gaps  int  // silences in front of this part
	frame bool // the part is a run of compressed frames
}

// c08Tables: the hash / codec oracle tables of the model (as harness/c05.go c05Tables), for frames that start at
// the given offsets of the stream and follow one another from there.
func c08Tables(stream []byte, starts []int) (hs, zs string) {
	var hl, zl []string
	seen := map[int]bool{}
	for _, start := range starts {
		off := start
		for steps := 0; steps < 64; steps++ {
			if off < 0 || len(stream)-off < c05Header || seen[off] {
				break
			}
			seen[off] = true
			rsField := int(binary.LittleEndian.Uint32(stream[off+17:]))
			ds := int(binary.LittleEndian.Uint32(stream[off+21:]))
			rs := rsField - 9
			if ds > c05MaxData || rs < 0 || rs > c05MaxBlock {
				off += c05Header
				continue
			}
			if len(stream)-off-c05Header < rs {
				break
			}
			body := stream[off+16 : off+c05Header+rs]
			hv := cityHash(body)
			hl = append(hl, sx(strconv.Itoa(off+16), strconv.Itoa(len(body)),
				strconv.FormatUint(hv[0], 10), strconv.FormatUint(hv[1], 10)))
			if hv[0] == binary.LittleEndian.Uint64(stream[off:]) && hv[1] == binary.LittleEndian.Uint64(stream[off+8:]) {
				mb := stream[off+16]
				if mb == c05EncLZ4 || mb == c05EncZSTD {
					res := "e"
					if ds <= 1<<24 {
						if out, ok := c05Codec(mb, stream[off+c05Header:off+c05Header+rs], ds); ok && len(out) <= 1<<24 {
							res = hx(out)
						}
					}
					zl = append(zl, sx(strconv.Itoa(off+c05Header), strconv.Itoa(rs), strconv.Itoa(int(mb)), strconv.Itoa(ds), res))
				}
			}
			off += c05Header + rs
		}
	}
	return sx(hl...), sx(zl...)
}

func cityHash(b []byte) [2]uint64 {
	h := city.CH128(b)
	return [2]uint64{h.Low, h.High}
}

func c08RdCase(h *H, i int) {
	r := h.R
	var parts []c08Part
	var ops []c08Op
	kind := i % 8
	nparts := 1 + r.Intn(5)
	big := i%97 == 0
	for p := 0; p < nparts; p++ {
		var b proto.Buffer
		gaps := 0
		switch r.Intn(6) {
		case 0, 1: // a packet code, possibly after silences, then a few fields
			if r.Intn(2) == 0 {
				gaps = 1 + r.Intn(3)
			}
			code := uint64(r.Intn(15))
			if r.Intn(10) == 0 {
				code = uint64(r.Intn(300))
			}
			if r.Intn(12) == 0 {
				// a non-canonical two-byte encoding of the code
				b.PutByte(0x80 | byte(code&0x7f))
				b.PutByte(0)
			} else {
				b.PutUVarInt(code)
			}
			fuel := gaps + 1 + r.Intn(2)
			if r.Intn(15) == 0 && gaps > 0 {
				fuel = gaps // the retries run out
			}
			ops = append(ops, c08Op{k: "p", n: fuel})
			for f := r.Intn(3); f > 0; f-- {
				c08Field(r, &b, &ops, false)
			}
		case 2, 3: // plain fields
			for f := 1 + r.Intn(4); f > 0; f-- {
				c08Field(r, &b, &ops, big)
			}
		default: // a compressed region: fields inside one or several frames
			var inner proto.Buffer
			var iops []c08Op
			for f := 1 + r.Intn(5); f > 0; f-- {
				c08Field(r, &inner, &iops, big)
			}
			m := []compress.Method{compress.None, compress.LZ4, compress.ZSTD, compress.LZ4HC}[r.Intn(4)]
			fr, err := c08Frames(r, inner.Buf, m, 1+r.Intn(3))
			if err != nil {
				continue
			}
			if r.Intn(10) == 0 && len(fr) > 0 {
				fr[r.Intn(len(fr))] ^= byte(1 << uint(r.Intn(8))) // a corrupted frame
			}
			b.Buf = append(b.Buf, fr...)
			ops = append(ops, c08Op{k: "c", n: 1})
			ops = append(ops, iops...)
			ops = append(ops, c08Op{k: "c", n: 0})
			parts = append(parts, c08Part{data: b.Buf, frame: true})
			continue
		}
		parts = append(parts, c08Part{data: b.Buf, gaps: gaps})
	}
	var flat []byte
	for _, p := range parts {
		flat = append(flat, p.data...)
	}
	// malformed variants
	var tail error
	tl := "eof"
	switch r.Intn(10) {
	case 0:
		if len(flat) > 0 {
			cut := r.Intn(len(flat))
			flat = flat[:cut]
			// re-cut the parts
			left := cut
			for pi := range parts {
				if len(parts[pi].data) > left {
					parts[pi].data = parts[pi].data[:left]
				}
				left -= len(parts[pi].data)
			}
		}
	case 1:
		tail = errors.New("connection reset")
		tl = "net"
	case 2:
		// ops out of step with the data
		if len(ops) > 1 {
			j := r.Intn(len(ops))
			ops = append(ops[:j], ops[j+1:]...)
		}
	}
	// segmentation
	var evs []c08Ev
	n := len(flat)
	cutset := map[int]bool{}
	switch kind {
	case 0: // at once
	case 1: // byte by byte
		for c := 1; c < n && n <= 5000; c++ {
			cutset[c] = true
		}
	case 2: // two pieces
		if n > 1 {
			cutset[1+r.Intn(n-1)] = true
		}
	default:
		for k := r.Intn(10); k > 0 && n > 1; k-- {
			cutset[1+r.Intn(n-1)] = true
		}
	}
	off := 0
	for _, p := range parts {
		for g := 0; g < p.gaps; g++ {
			evs = append(evs, c08Ev{gap: true})
		}
		prev := 0
		for c := 1; c < len(p.data); c++ {
			if cutset[off+c] {
				evs = append(evs, c08Ev{data: p.data[prev:c]})
				prev = c
				if r.Intn(25) == 0 {
					evs = append(evs, c08Ev{gap: true}) // a silence in the middle of a field
				}
				if r.Intn(25) == 0 {
					evs = append(evs, c08Ev{data: []byte{}}) // a Read that returns (0, nil)
				}
			}
		}
		if prev < len(p.data) {
			evs = append(evs, c08Ev{data: p.data[prev:]})
		}
		off += len(p.data)
	}
	// merge neighbouring chunks across part boundaries unless a cut was drawn there (so that chunks do not
	// always end at field boundaries)
	var merged []c08Ev
	pos := 0
	for _, e := range evs {
		if !e.gap && len(e.data) > 0 && len(merged) > 0 {
			last := &merged[len(merged)-1]
			if !last.gap && len(last.data) > 0 && !cutset[pos] && kind != 1 {
				last.data = append(append([]byte(nil), last.data...), e.data...)
				pos += len(e.data)
				continue
			}
		}
		merged = append(merged, e)
		pos += len(e.data)
	}
	evs = merged
	pattern := c08Pattern(r)
	if kind == 1 && r.Intn(2) == 0 {
		pattern = nil
	}
	if n > 3000 {
		// tiny reads of a long field cost the unary-number model quadratic time: keep them for short streams
		for pi := range pattern {
			if pattern[pi] > 0 && pattern[pi] < 64 {
				pattern[pi] = 64 + pattern[pi]*37
			}
		}
	}
	var starts []int
	so := 0
	for _, p := range parts {
		if p.frame {
			starts = append(starts, so)
		}
		so += len(p.data)
	}
	hs, zs := c08Tables(c08Flat(evs), starts)
	cs := fmt.Sprintf("rd %s %s %s %s %s %s", c08EvsSx(evs), tl, c08PatSx(pattern), c08OpsSx(ops), hs, zs)
	obs := c08Exec(evs, pattern, tail, ops)
	obsKinds := c08LastKinds
	// direct oracle: the same calls over the same bytes and silences delivered in the coarsest possible way
	var coarse []c08Ev
	for _, e := range evs {
		if e.gap {
			coarse = append(coarse, e)
		} else if len(e.data) > 0 {
			if len(coarse) > 0 && !coarse[len(coarse)-1].gap {
				coarse[len(coarse)-1].data = append(append([]byte(nil), coarse[len(coarse)-1].data...), e.data...)
			} else {
				coarse = append(coarse, c08Ev{data: e.data})
			}
		}
	}
	ref := c08Exec(coarse, nil, tail, ops)
	oracle := "ok"
	if ref != obs {
		oracle = sanitize("FAIL:the calls returned something else when the same stream came in other pieces: at once " + c08Short(ref) + " / segmented " + c08Short(obs))
	} else if c08LastKinds != obsKinds {
		oracle = sanitize("FAIL:the calls failed with another error when the same stream came in other pieces: at once [" + c08LastKinds + "] / segmented [" + obsKinds + "]")
	}
	if len(cs) > 700000 {
		h.Emit(fmt.Sprintf("rd-big len=%d ops=%s", len(flat), c08OpsSx(ops)), "-", oracle)
		h.Stat("rd.big-not-on-model")
		return
	}
	h.Emit(cs, obs, oracle)
	h.Stat("rd.seg." + []string{"once", "bytes", "two", "rand", "rand", "rand", "rand", "rand"}[kind])
	if strings.Contains(obs, "(e)") {
		h.Stat("rd.with-error")
	}
	if strings.Contains(cs, " t ") || strings.Contains(cs, "(t ") || strings.Contains(cs, " t)") {
		h.Stat("rd.with-silence")
	}
}

func c08Short(s string) string {
	if len(s) > 400 {
		return s[:400] + "..."
	}
	return s
}

func runC08(h *H) {
	// correspondence family
	nrd := h.N / 6
	if v, ok := h.Args["only"]; ok && v == "do" {
		nrd = 0
	}
	for i := 0; i < nrd; i++ {
		c08RdCase(h, i)
	}
	if v, ok := h.Args["only"]; ok && v == "rd" {
		return
	}
	// client family: the four tiny streams with all their splits first (about 2800 runs), then results,
	// malformed streams, one big stream and one long exception, then more of the same while the budget lasts
	left := h.N - nrd
	gapBudget := 60 + h.N/90
	if h.Tier == "thorough" {
		gapBudget = 600
	}
	kinds := []int{0, 1, 2, 3, 4, 5, 6, 7, 8, 11, 12, 13, 9, 10, 14, 12, 11, 5, 6, 4, 12, 13, 7, 8, 11}
	round := 0
	for left > 0 {
		for _, k := range kinds {
			if left <= 0 {
				break
			}
			if (k == 9 || k == 10 || k == 14) && round > 0 && h.Tier != "thorough" {
				continue
			}
			if k <= 3 && round > 0 && round%4 != 0 {
				continue
			}
			st, err := c08GenStream(h.R, k)
			if err != nil {
				h.Emit(fmt.Sprintf("do gen kind=%d", k), "-", "FAIL:the harness could not build a response stream: "+sanitize(err.Error()))
				continue
			}
			budget := 240
			if k == 9 || k == 10 {
				budget = 80
			}
			if k == 14 {
				budget = 60
			}
			before := h.Count
			c08DoStream(h, st, budget, &gapBudget)
			left -= h.Count - before
		}
		round++
	}
	_ = binary.LittleEndian
}
