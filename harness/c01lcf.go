package main

// C01 / C16: LowCardinality over floating point.  Go map keys compare floats by ==: a NaN never equals itself (every
// NaN row is its own dictionary entry, and `delete` cannot remove a NaN key), +0 and -0 are one key.  The Coq column
// model has no floats (DESIGN section 5, C01), so this family is judged by its direct oracle only: whatever the
// dictionary does, a column encoded by the library decodes to the same values (== on floats, NaN matching NaN), on the
// first use of the column object and on every later one (Reset + refill, re-encoding without Reset).

import (
	"bytes"
	"fmt"
	"math"

	"github.com/ClickHouse/ch-go/proto"
)

func init() { runners["c01lcf"] = runC01LCF }

func c01FloatPool(h *H) []float64 {
	nan2 := math.Float64frombits(0x7ff8000000000abc)
	pool := []float64{math.NaN(), nan2, 0, math.Copysign(0, -1), 1.5, -1.5, math.Inf(1), math.Inf(-1), math.MaxFloat64, math.SmallestNonzeroFloat64}
	for i := 0; i < 4; i++ {
		pool = append(pool, float64(float32(h.R.NormFloat64()*1000)))
	}
	return pool
}

func c01SameFloat(a, b float64) bool { return a == b || (math.IsNaN(a) && math.IsNaN(b)) }

// one encode of the column as Block.EncodeRawBlock does it, decoded into a fresh column of the same kind
func c01LCFRound(wide bool, c64 *proto.ColLowCardinality[float64], c32 *proto.ColLowCardinality[float32], want []float64) string {
	var col proto.Column = c64
	if !wide {
		col = c32
	}
	state, body, err := encodeCol(col, []byte{1, 2, 3})
	if err != nil {
		return "encoding failed: " + err.Error()
	}
	if len(want) == 0 {
		return ""
	}
	in := append(append([]byte{}, state...), body...)
	r := proto.NewReader(bytes.NewReader(in))
	var got []float64
	if wide {
		f := new(proto.ColFloat64).LowCardinality()
		if err := f.DecodeState(r); err != nil {
			return "own encoding rejected (state): " + err.Error()
		}
		if err := f.DecodeColumn(r, len(want)); err != nil {
			return "own encoding rejected: " + err.Error()
		}
		for i := 0; i < f.Rows(); i++ {
			got = append(got, f.Row(i))
		}
	} else {
		f := new(proto.ColFloat32).LowCardinality()
		if err := f.DecodeState(r); err != nil {
			return "own encoding rejected (state): " + err.Error()
		}
		if err := f.DecodeColumn(r, len(want)); err != nil {
			return "own encoding rejected: " + err.Error()
		}
		for i := 0; i < f.Rows(); i++ {
			got = append(got, float64(f.Row(i)))
		}
	}
	if len(got) != len(want) {
		return fmt.Sprintf("decoded %d rows, the column holds %d", len(got), len(want))
	}
	for i := range want {
		if !c01SameFloat(got[i], want[i]) {
			return fmt.Sprintf("row %d decodes to %v, the column holds %v", i, got[i], want[i])
		}
	}
	return ""
}

func runC01LCF(h *H) {
	for i := 0; i < h.N; i++ {
		wide := i%2 == 0
		pool := c01FloatPool(h)
		c64 := new(proto.ColFloat64).LowCardinality()
		c32 := new(proto.ColFloat32).LowCardinality()
		var want []float64
		var hist []string
		bad := ""
		func() {
			defer func() {
				if p := recover(); p != nil && bad == "" {
					bad = fmt.Sprintf("panic: %v", p)
				}
			}()
			for step, steps := 0, 2+h.R.Intn(5); step < steps && bad == ""; step++ {
				switch op := h.R.Intn(4); {
				case op == 0 && step > 0:
					hist = append(hist, "reset")
					c64.Reset()
					c32.Reset()
					want = want[:0]
				case op == 1 && step > 0:
					hist = append(hist, "encode-again")
				default:
					n := []int{1, 2, 3, 7, 40, 300}[h.R.Intn(6)]
					hist = append(hist, fmt.Sprintf("append%d", n))
					for k := 0; k < n; k++ {
						v := pool[h.R.Intn(len(pool))]
						if !wide {
							v = float64(float32(v))
						}
						if wide {
							c64.Append(v)
						} else {
							c32.Append(float32(v))
						}
						want = append(want, v)
					}
				}
				if d := c01LCFRound(wide, c64, c32, want); d != "" {
					bad = fmt.Sprintf("after %v: %s", hist, d)
				}
			}
		}()
		kind := "LowCardinality(Float32)"
		if wide {
			kind = "LowCardinality(Float64)"
		}
		oracle := "ok"
		if bad != "" {
			oracle = "FAIL:" + kind + " does not read back what it holds " + bad
		}
		h.Emit(fmt.Sprintf("lcf %s %d %v", kind, i, hist), "-", oracle)
		h.Stat("lcf." + kind)
	}
}
