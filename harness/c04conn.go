package main

// C04 / C10: the scripted in-memory connection and the gates.
//
// c04Conn implements net.Conn in memory and deliberately does NOT implement vectored writes, so
// net.Buffers.WriteTo calls Write once per buffer and every buffer boundary is observable.
//
// Two modes:
//   gated   every Read / Write that reaches the connection while it is open is an ARRIVAL at a gate:
//           the calling goroutine waits until the controller (which follows a plan computed by the Coq
//           model) tells it what the call returns.  User callbacks, the gate column and the vhook
//           points of query.go are arrivals of the same kind.
//   auto    the server side is a script with real time: packets become readable once the client has
//           written enough chunks, reads honour the armed deadline and fail with a timeout error,
//           a cut / write fault is applied at its position.
// Everything the client writes is recorded per Write call.

import (
	"errors"
	"io"
	"net"
	"os"
	"sync"
	"time"
)

type c04Addr struct{}

func (c04Addr) Network() string { return "mem" }
func (c04Addr) String() string  { return "mem:9000" }

// one recorded Write call
type c04Write struct {
	data    []byte // bytes accepted
	partial bool   // the call failed after accepting a proper prefix (or nothing)
	failed  bool
	phase   int  // 0 handshake, 1 query, 2 follow-up
	afterC  bool // issued after the caller's context was cancelled (C10)
	cancelW bool // the call tried to write the one-byte Cancel packet
}

// what a gate arrival is told
type c04Reply struct {
	data     []byte // read: bytes delivered
	eofNext  bool   // read: after these bytes every further Read fails with EOF, ungated
	err      error
	n        int  // write: bytes accepted before err (-1 = all)
	auto     bool // the run left gated mode: carry on as in auto mode
	afterC   bool // gated write: released after the caller's context ended
	onClosed bool // the connection was closed while the call was held: it fails without reaching the connection
}

type c04Arrival struct {
	kind  string // read write wcancel col cbin cb hret hwake hcancel hskip
	data  []byte
	reply chan c04Reply
}

// roles: s sender, r receiver, w watcher, m the goroutine that called Do
func c04RoleOf(kind string) string {
	switch kind {
	case "write", "col", "cbin":
		return "s"
	case "read", "cb", "hret":
		return "r"
	case "hwake", "hcancel", "hskip":
		return "w"
	case "wcancel":
		return "wm"
	}
	return "?"
}

// c04Ctl is the gate controller of one run.
type c04Ctl struct {
	mu      sync.Mutex
	cond    *sync.Cond
	gated   bool
	pending []*c04Arrival // arrivals not yet released, in order of arrival
	arrived int           // total arrivals so far
}

func newC04Ctl() *c04Ctl {
	c := &c04Ctl{}
	c.cond = sync.NewCond(&c.mu)
	return c
}

// gate is called by library goroutines. In auto mode it returns ok=false at once.
func (c *c04Ctl) gate(kind string, data []byte) (c04Reply, bool) {
	c.mu.Lock()
	if !c.gated {
		c.mu.Unlock()
		return c04Reply{}, false
	}
	a := &c04Arrival{kind: kind, data: data, reply: make(chan c04Reply, 1)}
	c.pending = append(c.pending, a)
	c.arrived++
	c.cond.Broadcast()
	c.mu.Unlock()
	rep := <-a.reply
	return rep, !rep.auto
}

// await waits until an arrival of one of the kinds is pending and removes it.
func (c *c04Ctl) await(kinds []string, d time.Duration) *c04Arrival {
	deadline := time.Now().Add(d)
	c.mu.Lock()
	defer c.mu.Unlock()
	for {
		for i, a := range c.pending {
			for _, k := range kinds {
				if a.kind == k {
					c.pending = append(c.pending[:i:i], c.pending[i+1:]...)
					return a
				}
			}
		}
		if !c04CondWaitUntil(c.cond, deadline) {
			return nil
		}
	}
}

// has reports whether an arrival of a role is pending (without removing it).
func (c *c04Ctl) waitRole(role string, d time.Duration) bool {
	deadline := time.Now().Add(d)
	c.mu.Lock()
	defer c.mu.Unlock()
	for {
		for _, a := range c.pending {
			r := c04RoleOf(a.kind)
			if r == role || (r == "wm" && (role == "w" || role == "m")) {
				return true
			}
		}
		if !c04CondWaitUntil(c.cond, deadline) {
			return false
		}
	}
}

func (c *c04Ctl) pendingKinds() []string {
	c.mu.Lock()
	defer c.mu.Unlock()
	var ks []string
	for _, a := range c.pending {
		ks = append(ks, a.kind)
	}
	return ks
}

// ungate switches to auto mode and releases everything still held (with a closed error for I/O).
func (c *c04Ctl) ungate() {
	c.mu.Lock()
	c.gated = false
	p := c.pending
	c.pending = nil
	c.mu.Unlock()
	for _, a := range p {
		a.reply <- c04Reply{auto: true}
	}
}

// roleDiverged: the role has an arrival pending whose kind is not the expected one ("" = none expected)
func (c *c04Ctl) roleDiverged(role, kind string) bool {
	c.mu.Lock()
	defer c.mu.Unlock()
	for _, a := range c.pending {
		r := c04RoleOf(a.kind)
		if (r == role || (r == "wm" && (role == "w" || role == "m"))) && a.kind != kind {
			return true
		}
	}
	return false
}

// sync.Cond has no timed wait: a timer broadcasts at the deadline. false = the deadline has passed.
func c04CondWaitUntil(cond *sync.Cond, deadline time.Time) bool {
	left := time.Until(deadline)
	if left <= 0 {
		return false
	}
	t := time.AfterFunc(left, func() {
		cond.L.Lock()
		cond.Broadcast()
		cond.L.Unlock()
	})
	cond.Wait()
	t.Stop()
	return true
}

// ---------------------------------------------------------------- the connection

type c04SrvPkt struct {
	bytes []byte
	avail int // readable once this many client data chunks have been written in the query phase
}

type c04Conn struct {
	ctl *c04Ctl

	mu   sync.Mutex
	cond *sync.Cond

	closed      bool
	closeErr    bool // Close closes and reports an error (tls-like)
	cancelFails bool // free runs: the write of the one-byte Cancel packet fails
	closeCalls  int
	phase       int

	// inbound
	rbuf    []byte // delivered and not yet read (Read with a small p)
	eof     bool   // every further Read fails with EOF
	rdl     time.Time
	wdl     time.Time
	dlCalls int

	// auto mode script
	script   []c04SrvPkt
	spos     int
	cutAt    int    // -1: none; else: EOF once spos == cutAt ...
	cutIn    bool   // ... after delivering the first half of that packet
	wfaultAt int    // -1: none; else the k-th (0-based) data Write of the query phase fails
	wfaultN  int    // bytes accepted by the failing Write
	pong     bool   // follow-up phase: answer every read with Pong once the script is exhausted
	busy     []byte // free runs: once the script is exhausted the server keeps sending this packet, one per millisecond
	touched  int    // Read+Write+SetDeadline calls in the follow-up phase

	// outbound
	writes    []c04Write
	dataW     int // data chunks written in the query phase
	cancelled bool
	reads     int
	events    int         // Read + Write calls of the query phase
	onEvent   func(n int) // called (without locks) at the start of every such call
}

var c04ConnCount int

func newC04Conn(ctl *c04Ctl) *c04Conn {
	c := &c04Conn{ctl: ctl, cutAt: -1, wfaultAt: -1}
	c.cond = sync.NewCond(&c.mu)
	c04ConnCount++
	c.closeErr = c04ConnCount%3 == 0
	return c
}

var errC04Cut = io.EOF

func c04Timeout(op string) error {
	return &net.OpError{Op: op, Net: "mem", Err: os.ErrDeadlineExceeded}
}

func c04IsCancel(p []byte) bool { return len(p) == 1 && p[0] == 3 }

func (c *c04Conn) event() {
	c.mu.Lock()
	f, n := c.onEvent, c.events
	if c.phase == 1 {
		c.events++
	} else {
		f = nil
	}
	c.mu.Unlock()
	if f != nil {
		f(n)
	}
}

func (c *c04Conn) Read(p []byte) (int, error) {
	c.event()
	c.mu.Lock()
	c.reads++
	if c.phase == 2 {
		c.touched++
	}
	if len(c.rbuf) > 0 {
		n := copy(p, c.rbuf)
		c.rbuf = c.rbuf[n:]
		c.mu.Unlock()
		return n, nil
	}
	if c.closed {
		c.mu.Unlock()
		return 0, &net.OpError{Op: "read", Net: "mem", Err: net.ErrClosed}
	}
	if c.eof {
		c.mu.Unlock()
		return 0, errC04Cut
	}
	c.mu.Unlock()
	if rep, ok := c.ctl.gate("read", nil); ok {
		c.mu.Lock()
		defer c.mu.Unlock()
		if rep.eofNext {
			c.eof = true
		}
		if rep.err != nil && len(rep.data) == 0 {
			return 0, rep.err
		}
		n := copy(p, rep.data)
		c.rbuf = append(c.rbuf, rep.data[n:]...)
		return n, nil
	}
	// auto mode
	c.mu.Lock()
	defer c.mu.Unlock()
	for {
		if c.closed {
			return 0, &net.OpError{Op: "read", Net: "mem", Err: net.ErrClosed}
		}
		if c.eof {
			return 0, errC04Cut
		}
		if c.spos == c.cutAt {
			c.eof = true
			if c.cutIn && c.spos < len(c.script) {
				b := c.script[c.spos].bytes
				half := b[:len(b)/2]
				if len(half) == 0 {
					return 0, errC04Cut
				}
				n := copy(p, half)
				c.rbuf = append(c.rbuf, half[n:]...)
				return n, nil
			}
			return 0, errC04Cut
		}
		if c.spos < len(c.script) && c.script[c.spos].avail <= c.dataW {
			b := c.script[c.spos].bytes
			c.spos++
			n := copy(p, b)
			c.rbuf = append(c.rbuf, b[n:]...)
			return n, nil
		}
		if c.spos >= len(c.script) && c.pong {
			n := copy(p, []byte{4})
			return n, nil
		}
		if c.spos >= len(c.script) && c.busy != nil && c.phase == 1 {
			b := c.busy
			c.mu.Unlock()
			time.Sleep(time.Millisecond)
			c.mu.Lock()
			if c.closed {
				continue
			}
			n := copy(p, b)
			c.rbuf = append(c.rbuf, b[n:]...)
			return n, nil
		}
		if !c.rdl.IsZero() {
			if !c04CondWaitUntil(c.cond, c.rdl) {
				return 0, c04Timeout("read")
			}
		} else {
			c.cond.Wait()
		}
	}
}

func (c *c04Conn) Write(p []byte) (int, error) {
	c.event()
	c.mu.Lock()
	if c.phase == 2 {
		c.touched++
	}
	if c.closed {
		c.mu.Unlock()
		return 0, &net.OpError{Op: "write", Net: "mem", Err: net.ErrClosed}
	}
	phase := c.phase
	c.mu.Unlock()
	kind := "write"
	if c04IsCancel(p) {
		kind = "wcancel"
	}
	cp := append([]byte(nil), p...)
	if rep, ok := c.ctl.gate(kind, cp); ok {
		if rep.onClosed {
			return 0, &net.OpError{Op: "write", Net: "mem", Err: net.ErrClosed}
		}
		c.mu.Lock()
		defer c.mu.Unlock()
		return c.record(cp, rep.n, rep.err, phase, rep.afterC)
	}
	c.mu.Lock()
	defer c.mu.Unlock()
	if c.closed {
		return 0, &net.OpError{Op: "write", Net: "mem", Err: net.ErrClosed}
	}
	if phase == 1 && kind == "wcancel" && c.cancelFails {
		// the outbound path is already broken when the caller gives up: the Cancel byte cannot be written
		return c.record(cp, 0, errors.New("c04: injected failure of the Cancel write"), phase, c.cancelled)
	}
	if phase == 1 && kind == "write" && c.wfaultAt == c.dataW+c.failedW() {
		return c.record(cp, c.wfaultN, errors.New("c04: injected write failure"), phase, c.cancelled)
	}
	return c.record(cp, -1, nil, phase, c.cancelled)
}

func (c *c04Conn) failedW() int {
	n := 0
	for _, w := range c.writes {
		if w.phase == 1 && w.failed && !c04IsCancel(w.data) {
			n++
		}
	}
	return n
}

// record is called with c.mu held.
func (c *c04Conn) record(p []byte, n int, err error, phase int, afterC bool) (int, error) {
	if err == nil || n < 0 || n > len(p) {
		if err == nil {
			n = len(p)
		} else if n < 0 || n > len(p) {
			n = 0
		}
	}
	w := c04Write{data: p[:n], phase: phase, afterC: afterC, cancelW: c04IsCancel(p)}
	if err != nil {
		w.failed = true
		w.partial = true
	}
	c.writes = append(c.writes, w)
	if err == nil && phase == 1 && !c04IsCancel(p) {
		c.dataW++
	}
	c.cond.Broadcast()
	return n, err
}

func (c *c04Conn) Close() error {
	c.mu.Lock()
	defer c.mu.Unlock()
	c.closeCalls++
	if c.closed {
		return &net.OpError{Op: "close", Net: "mem", Err: net.ErrClosed}
	}
	c.closed = true
	c.cond.Broadcast()
	if c.closeErr {
		// what crypto/tls does when close_notify cannot be sent to a peer that is gone: the connection IS closed
		return errors.New("c04: failed to send closeNotify alert (but connection was closed anyway)")
	}
	return nil
}

func (c *c04Conn) LocalAddr() net.Addr  { return c04Addr{} }
func (c *c04Conn) RemoteAddr() net.Addr { return c04Addr{} }
func (c *c04Conn) SetDeadline(t time.Time) error {
	_ = c.SetReadDeadline(t)
	return c.SetWriteDeadline(t)
}
func (c *c04Conn) SetReadDeadline(t time.Time) error {
	c.mu.Lock()
	defer c.mu.Unlock()
	if c.phase == 2 {
		c.touched++
	}
	c.dlCalls++
	c.rdl = t
	c.cond.Broadcast()
	return nil
}
func (c *c04Conn) SetWriteDeadline(t time.Time) error {
	c.mu.Lock()
	defer c.mu.Unlock()
	if c.phase == 2 {
		c.touched++
	}
	c.dlCalls++
	c.wdl = t
	return nil
}

func (c *c04Conn) setPhase(p int) {
	c.mu.Lock()
	c.phase = p
	c.mu.Unlock()
}

func (c *c04Conn) markCancelled() {
	c.mu.Lock()
	c.cancelled = true
	c.mu.Unlock()
}

func (c *c04Conn) isClosed() bool {
	c.mu.Lock()
	defer c.mu.Unlock()
	return c.closed
}

// snapshot of the query-phase writes
func (c *c04Conn) phaseWrites(phase int) []c04Write {
	c.mu.Lock()
	defer c.mu.Unlock()
	var out []c04Write
	for _, w := range c.writes {
		if w.phase == phase {
			out = append(out, w)
		}
	}
	return out
}
