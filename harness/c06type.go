package main

// C06: hostile column TYPE strings in a block header.  A block is decoded through automatic inference and through
// typed targets that adopt the type from the wire (every Inferable column kind, plain and nested); the type strings
// are the malformed ones of the C19 generator (truncations, junk, empty/odd parameters, enum definitions gone wrong,
// deep nesting) followed by plausible data.  Oracle: error or a consistent result, never a panic.

import (
	"bytes"
	"fmt"
	"os"
	"strings"

	"github.com/ClickHouse/ch-go/proto"
)

func init() { runners["c06type"] = runC06Type }

var c06TypeTargets = []struct {
	name string
	mk   func() proto.Column
}{
	{"auto", nil},
	{"ColAuto", func() proto.Column { return new(proto.ColAuto) }},
	{"ColEnum", func() proto.Column { return new(proto.ColEnum) }},
	{"ColDateTime", func() proto.Column { return new(proto.ColDateTime) }},
	{"ColDateTime64", func() proto.Column { return new(proto.ColDateTime64) }},
	{"ColInterval", func() proto.Column { return new(proto.ColInterval) }},
	{"Array(ColEnum)", func() proto.Column { return proto.NewArray[string](new(proto.ColEnum)) }},
	{"Array(ColDateTime64)", func() proto.Column { return new(proto.ColDateTime64).Array() }},
	{"Map(ColStr,ColEnum)", func() proto.Column { return proto.NewMap[string, string](new(proto.ColStr), new(proto.ColEnum)) }},
	{"Tuple(ColEnum,ColDateTime)", func() proto.Column { return proto.ColTuple{new(proto.ColEnum), new(proto.ColDateTime)} }},
	{"Named(ColEnum)", func() proto.Column { return proto.Named[string](new(proto.ColEnum), "e") }},
}

func c06TypeString(h *H) (string, string) {
	r := h.R
	switch r.Intn(10) {
	case 0, 1:
		// enum definitions: short, empty, unquoted and half-quoted names, odd separators
		w := []string{"8", "16"}[r.Intn(2)]
		names := []string{"", "'", "''", "a", "'a", "a'", "'a'", "\"\"", "\"", "'\\''", " ", "' '", "=", "'='", "','"}
		vals := []string{"1", "", " ", "x", "-1", "+1", "128", "-129", "32768", "99999999999999999999", "1 ", "'1'", "0x1"}
		var ds []string
		for k := 1 + r.Intn(3); k > 0; k-- {
			ds = append(ds, names[r.Intn(len(names))]+[]string{"=", " = ", "", "==", " =", "= "}[r.Intn(6)]+vals[r.Intn(len(vals))])
		}
		return "Enum" + w + "(" + strings.Join(ds, []string{",", ", ", ",,", " , "}[r.Intn(4)]) + ")", "enumdef"
	case 2:
		return c19Deep(r, []int{50, 200, 1000, 5000}[r.Intn(4)]), "deep"
	case 3:
		// a valid type with a wrapper the target does not have, or valid but foreign
		return c19Type(r, r.Intn(3)), "valid"
	default:
		return c19Malformed(r), "malformed"
	}
}

func runC06Type(h *H) {
	const rev = 54460
	pend, _ := os.Create(h.Args["pending"])
	if pend != nil {
		defer pend.Close()
	}
	for i := 0; i < h.N; i++ {
		ty, kind := c06TypeString(h)
		tg := c06TypeTargets[h.R.Intn(len(c06TypeTargets))]
		rows := []int{0, 1, 1, 2, 7}[h.R.Intn(5)]
		var b proto.Buffer
		b.PutString("c")
		b.PutString(ty)
		b.PutBool(false) // no custom serialization
		// data that many decoders will accept: small numbers, then zero padding
		for k := 0; k < rows; k++ {
			b.PutUInt8(uint8(1 + h.R.Intn(2)))
		}
		b.Buf = append(b.Buf, make([]byte, 64+h.R.Intn(64))...)
		caseLine := fmt.Sprintf("type %s rows=%d target=%s %s", hx([]byte(ty)), rows, tg.name, kind)
		if len(ty) > 300 {
			caseLine = fmt.Sprintf("type (len %d) %s... rows=%d target=%s %s", len(ty), hx([]byte(ty[:120])), rows, tg.name, kind)
		}
		if pend != nil {
			// deep nesting can overflow the stack, which no recover catches: name the input first
			pend.Truncate(0)
			pend.Seek(0, 0)
			pend.WriteString(caseLine)
			pend.Sync()
		}
		oracle := c06TypeOne(b.Buf, rev, rows, tg.mk)
		h.Emit(caseLine, "-", oracle)
		h.Stat("c06type." + kind)
	}
}

func c06TypeOne(block []byte, rev, rows int, mk func() proto.Column) (oracle string) {
	defer func() {
		if p := recover(); p != nil {
			oracle = "FAIL:panic while decoding a block whose column type string is hostile: " + strings.ReplaceAll(fmt.Sprint(p), "\n", " ")
		}
	}()
	var res proto.Results
	r := proto.NewReader(bytes.NewReader(block))
	var err error
	if mk == nil {
		err = res.Auto().DecodeResult(r, rev, proto.Block{Columns: 1, Rows: rows})
	} else {
		res = proto.Results{{Data: mk()}}
		err = res.DecodeResult(r, rev, proto.Block{Columns: 1, Rows: rows})
	}
	if err != nil {
		return "ok"
	}
	for _, c := range res {
		if c.Data == nil {
			return "FAIL:accepted block with a nil column"
		}
		if tup, ok := c.Data.(proto.ColTuple); ok && len(tup) == 0 {
			continue
		}
		if c.Data.Rows() != rows {
			return fmt.Sprintf("FAIL:accepted block of %d rows, column %s reports Rows() = %d", rows, c.Data.Type(), c.Data.Rows())
		}
		if col, isCol := c.Data.(proto.Column); isCol && !rowsReadable(col) {
			return "FAIL:accepted block, a row accessor of " + string(c.Data.Type()) + " panics"
		}
	}
	return "ok"
}
