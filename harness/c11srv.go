package main

// C11: a minimal scripted ClickHouse server over net.Pipe and the ch.Dialer that hands out
// connections to it.  Every connection carries an id; the server side keeps, per connection,
// an in-flight request counter (a second request seen while one is being served = two holders
// on one connection) and notices a malformed client stream (two writers interleaving).
// The client side is wrapped so that Close calls are observed.
//
// What a request gets back is selected by the request itself (the query body):
//
//	c11 ok            EndOfStream
//	c11 exc           Exception (the client stays usable)
//	c11 cut           the server drops the connection after reading the request
//	c11 stall <tok>   the server calls the cancel function registered under <tok>, sends a
//	                  Progress packet (so that the receive loop looks at its context) and waits
//	                  for Cancel / end of stream
//
// Ping is always answered with Pong.
//
// Dials.  A dial made on behalf of the harness (New, Acquire, Pool.Do: the context carries c11FgKey) follows the
// script at once: the next entry of plan (New's createIdleResources), else failNext.  Every other dial comes
// from a goroutine the pool started itself (checkMinConns -> puddle CreateResource); when the environment is
// gated such a dial waits at the gate until the harness lets it return with a verdict, so that other operations
// (Close included) can run while a creation is in flight.  A connection gets its id when its dial returns.

import (
	"context"
	"errors"
	"fmt"
	"io"
	"net"
	"runtime"
	"strings"
	"sync"
	"sync/atomic"
	"time"

	"github.com/ClickHouse/ch-go/proto"
)

type c11FgKey struct{}

// c11Fg marks a context as belonging to an operation of the harness.
func c11Fg(ctx context.Context) context.Context { return context.WithValue(ctx, c11FgKey{}, true) }

type c11Pending struct {
	arrived time.Time
	verdict chan bool
	done    chan struct{} // closed when the dial has returned
}

type c11Env struct {
	mu       sync.Mutex
	conns    []*c11Conn // by id, in the order the dials returned
	failNext int        // number of coming dials that fail
	plan     []bool     // outcomes of the coming foreground dials (New), consumed first
	planUsed []bool     // the part of plan that was consumed
	gated    bool       // background dials wait at the gate
	pending  []*c11Pending
	bgDials  atomic.Int64 // background dials seen (gated or not)
	maxOpen  int          // configured MaxConns (0 = not judged at dial time)
	viol     []string     // property violations noticed on the server / dialer side
	cancels  sync.Map     // token -> context.CancelFunc
	delay    time.Duration
	requests atomic.Int64
}

type c11Conn struct {
	net.Conn // client side of the pipe
	id       int
	env      *c11Env
	dialedAt time.Time
	bg       bool // dialed by a goroutine of checkMinConns
	closed   atomic.Bool
	byPool   atomic.Bool // the first Close came from puddle's destructor
	everHeld atomic.Bool // a holder had it before (concurrent family)
	closes   atomic.Int32
	inflight atomic.Int32
	served   atomic.Int32
	srvDone  chan struct{}
}

func (c *c11Conn) Close() error {
	if c.closes.Add(1) == 1 {
		// who closes first: the client itself (cancelQuery, handshake watchdog) or puddle's destructor
		var pcs [48]uintptr
		n := runtime.Callers(2, pcs[:])
		frames := runtime.CallersFrames(pcs[:n])
		for {
			f, more := frames.Next()
			if strings.Contains(f.Function, "jackc/puddle") {
				c.byPool.Store(true)
			}
			if !more {
				break
			}
		}
	}
	c.closed.Store(true)
	err := c.Conn.Close()
	if err == nil && c.id%3 == 2 {
		// tls-like: the connection is closed, but Close reports that the peer could not be told
		return errors.New("c11: failed to send closeNotify alert (but connection was closed anyway)")
	}
	return err
}

func (e *c11Env) violation(format string, a ...any) {
	e.mu.Lock()
	if len(e.viol) < 20 {
		e.viol = append(e.viol, fmt.Sprintf(format, a...))
	}
	e.mu.Unlock()
}

func (e *c11Env) violations() []string {
	e.mu.Lock()
	defer e.mu.Unlock()
	return append([]string(nil), e.viol...)
}

// DialContext implements ch.Dialer.
func (e *c11Env) DialContext(ctx context.Context, network, address string) (net.Conn, error) {
	fg := ctx.Value(c11FgKey{}) != nil
	at := time.Now()
	if !fg {
		e.bgDials.Add(1)
		e.mu.Lock()
		if e.gated {
			w := &c11Pending{arrived: at, verdict: make(chan bool, 1), done: make(chan struct{})}
			e.pending = append(e.pending, w)
			e.mu.Unlock()
			defer close(w.done)
			select {
			case ok := <-w.verdict:
				if !ok {
					return nil, errors.New("c11: scripted dial failure (background)")
				}
			case <-ctx.Done():
				return nil, ctx.Err()
			}
		} else {
			e.mu.Unlock()
		}
	}
	e.mu.Lock()
	if fg && len(e.plan) > 0 {
		ok := e.plan[0]
		e.plan = e.plan[1:]
		e.planUsed = append(e.planUsed, ok)
		if !ok {
			e.mu.Unlock()
			return nil, errors.New("c11: scripted dial failure (New)")
		}
	} else if fg && e.failNext > 0 {
		e.failNext--
		e.mu.Unlock()
		return nil, errors.New("c11: scripted dial failure")
	}
	cli, srv := net.Pipe()
	c := &c11Conn{Conn: cli, id: len(e.conns), env: e, dialedAt: at, bg: !fg, srvDone: make(chan struct{})}
	e.conns = append(e.conns, c)
	open := 0
	for _, x := range e.conns {
		if !x.closed.Load() {
			open++
		}
	}
	e.mu.Unlock()
	if e.maxOpen > 0 && open > e.maxOpen {
		e.violation("more-open-connections-than-max: %d connections open after dialing #%d, MaxConns=%d", open, c.id, e.maxOpen)
	}
	go e.serve(c, srv)
	return c, nil
}

// pendingCount: background dials waiting at the gate.
func (e *c11Env) pendingCount() int {
	e.mu.Lock()
	defer e.mu.Unlock()
	return len(e.pending)
}

// letGo lets the oldest dial at the gate return and waits until it has; false when none waits.
func (e *c11Env) letGo(ok bool) (*c11Pending, bool) {
	e.mu.Lock()
	if len(e.pending) == 0 {
		e.mu.Unlock()
		return nil, false
	}
	w := e.pending[0]
	e.pending = e.pending[1:]
	e.mu.Unlock()
	w.verdict <- ok
	<-w.done
	return w, true
}

func (e *c11Env) snapshot() []*c11Conn {
	e.mu.Lock()
	defer e.mu.Unlock()
	return append([]*c11Conn(nil), e.conns...)
}

func (e *c11Env) dialed() int {
	e.mu.Lock()
	defer e.mu.Unlock()
	return len(e.conns)
}

func (e *c11Env) openCount() int {
	n := 0
	for _, c := range e.snapshot() {
		if !c.closed.Load() {
			n++
		}
	}
	return n
}

func c11IsEnd(err error) bool {
	return errors.Is(err, io.EOF) || errors.Is(err, io.ErrClosedPipe) || errors.Is(err, io.ErrUnexpectedEOF) ||
		errors.Is(err, net.ErrClosed)
}

func (e *c11Env) serve(c *c11Conn, srv net.Conn) {
	defer close(c.srvDone)
	defer srv.Close()
	r := proto.NewReader(srv)
	var wmu sync.Mutex
	write := func(b *proto.Buffer) error {
		wmu.Lock()
		defer wmu.Unlock()
		_, err := srv.Write(b.Buf)
		return err
	}
	bad := func(what string, err error) {
		if err == nil || !c11IsEnd(err) {
			e.violation("malformed-client-stream on connection #%d (%s: %v): two writers on one connection?", c.id, what, err)
		}
	}
	// handshake
	code, err := r.UVarInt()
	if err != nil {
		return
	}
	if proto.ClientCode(code) != proto.ClientCodeHello {
		bad("first packet is not Hello", nil)
		return
	}
	var hello proto.ClientHello
	if err := hello.Decode(r); err != nil {
		bad("client hello", err)
		return
	}
	rev := proto.Version
	if hello.ProtocolVersion < rev {
		rev = hello.ProtocolVersion
	}
	{
		var b proto.Buffer
		sh := proto.ServerHello{Name: "c11", Major: 23, Minor: 8, Revision: proto.Version, Timezone: "UTC", DisplayName: "c11", Patch: 1}
		sh.EncodeAware(&b, rev)
		if write(&b) != nil {
			return
		}
	}
	if proto.FeatureAddendum.In(rev) && proto.FeatureQuotaKey.In(rev) {
		if _, err := r.Str(); err != nil {
			bad("addendum", err)
			return
		}
	}
	// The reader below parses requests as they arrive (so that a second request written while one is
	// being served is seen at once); the responder answers them in order.
	type c11Req struct {
		ping bool
		mode string
		tok  string
	}
	var stalled atomic.Bool // a stalled query is waiting for Cancel
	reqs := make(chan c11Req, 64)
	defer close(reqs)
	go func() {
		for q := range reqs {
			if e.delay > 0 {
				time.Sleep(e.delay)
			}
			var b proto.Buffer
			switch {
			case q.ping:
				proto.ServerCodePong.Encode(&b)
			case q.mode == "exc":
				proto.ServerCodeException.Encode(&b)
				ex := proto.Exception{Code: proto.ErrUnknownTable, Name: "DB::Exception", Message: "c11 scripted exception", Stack: "-", Nested: false}
				ex.EncodeAware(&b, rev)
			case q.mode == "cut":
				c.inflight.Add(-1)
				_ = srv.Close()
				continue
			case q.mode == "stall":
				if v, ok := e.cancels.LoadAndDelete(q.tok); ok {
					v.(context.CancelFunc)()
				}
				proto.ServerCodeProgress.Encode(&b)
				proto.Progress{}.EncodeAware(&b, rev)
				_ = write(&b)
				continue
			default:
				proto.ServerCodeEndOfStream.Encode(&b)
			}
			c.inflight.Add(-1)
			_ = write(&b)
		}
	}()
	enter := func(what string) {
		e.requests.Add(1)
		c.served.Add(1)
		if n := c.inflight.Add(1); n > 1 {
			e.violation("two-requests-in-flight on connection #%d (%s arrived while %d in flight)", c.id, what, n-1)
		}
	}
	for {
		code, err := r.UVarInt()
		if err != nil {
			if stalled.Swap(false) {
				c.inflight.Add(-1)
			}
			return
		}
		switch proto.ClientCode(code) {
		case proto.ClientCodePing:
			enter("Ping")
			reqs <- c11Req{ping: true}
		case proto.ClientCodeCancel:
			if stalled.Swap(false) {
				c.inflight.Add(-1)
			}
		case proto.ClientCodeQuery:
			enter("Query")
			var q proto.Query
			if err := q.DecodeAware(r, rev); err != nil {
				bad("query", err)
				return
			}
			// the blank Data block that ends external data
			dc, err := r.UVarInt()
			if err != nil || proto.ClientCode(dc) != proto.ClientCodeData {
				bad("data packet after query", err)
				return
			}
			var cd proto.ClientData
			if err := cd.DecodeAware(r, rev); err != nil {
				bad("client data", err)
				return
			}
			var blk proto.Block
			if err := blk.DecodeBlock(r, rev, nil); err != nil {
				bad("blank block", err)
				return
			}
			f := strings.Fields(q.Body)
			rq := c11Req{mode: "ok"}
			if len(f) >= 2 && f[0] == "c11" {
				rq.mode = f[1]
			}
			if len(f) >= 3 {
				rq.tok = f[2]
			}
			if rq.mode == "stall" {
				stalled.Store(true)
			}
			reqs <- rq
		default:
			bad(fmt.Sprintf("unexpected client packet %d", code), nil)
			return
		}
	}
}
