package main

// C13: a scripted in-memory net.Conn.  The "server" is a script, not a peer with its own
// logic: chunks of bytes that become readable after given delays, then either a cut (EOF)
// or silence.  Everything the client writes is recorded; Close calls are counted; read
// deadlines are honoured the way a TCP connection honours them (a *net.OpError whose
// Timeout() is true), because that is what the library tests for.

import (
	"context"
	"io"
	"net"
	"os"
	"sync"
	"time"
)

type c13Addr string

func (a c13Addr) Network() string { return "mem" }
func (a c13Addr) String() string  { return string(a) }

type c13Conn struct {
	mu         sync.Mutex
	wake       chan struct{} // closed and replaced whenever the state changes
	inbox      []byte
	eof        bool // the server side ended the stream
	closed     bool
	closeCalls int
	rdl        time.Time
	rdlTimer   *time.Timer
	written    []byte
	writes     int
	local      string
	stop       chan struct{} // ends the script goroutine
	stopOnce   sync.Once
}

func c13NewConn(local string) *c13Conn {
	return &c13Conn{wake: make(chan struct{}), local: local, stop: make(chan struct{})}
}

// must hold mu
func (c *c13Conn) signal() {
	close(c.wake)
	c.wake = make(chan struct{})
}

// c13Step is one step of the server script: after Gap, Data becomes readable.
type c13Step struct {
	Gap  time.Duration
	Data []byte
}

// Play runs the script in the background: the chunks, then a cut after cutGap (cut=true)
// or silence.
func (c *c13Conn) Play(steps []c13Step, cut bool, cutGap time.Duration) {
	go func() {
		for _, s := range steps {
			if !c.sleep(s.Gap) {
				return
			}
			c.Feed(s.Data)
		}
		if cut {
			if !c.sleep(cutGap) {
				return
			}
			c.mu.Lock()
			c.eof = true
			c.signal()
			c.mu.Unlock()
		}
	}()
}

func (c *c13Conn) sleep(d time.Duration) bool {
	if d <= 0 {
		select {
		case <-c.stop:
			return false
		default:
			return true
		}
	}
	t := time.NewTimer(d)
	defer t.Stop()
	select {
	case <-t.C:
		return true
	case <-c.stop:
		return false
	}
}

// Stop ends the script goroutine (the harness is done with the connection).
func (c *c13Conn) Stop() { c.stopOnce.Do(func() { close(c.stop) }) }

func (c *c13Conn) Feed(b []byte) {
	c.mu.Lock()
	c.inbox = append(c.inbox, b...)
	c.signal()
	c.mu.Unlock()
}

func (c *c13Conn) Read(p []byte) (int, error) {
	for {
		c.mu.Lock()
		switch {
		case c.closed:
			c.mu.Unlock()
			return 0, &net.OpError{Op: "read", Net: "mem", Err: net.ErrClosed}
		case len(p) == 0:
			c.mu.Unlock()
			return 0, nil
		case len(c.inbox) > 0:
			n := copy(p, c.inbox)
			c.inbox = c.inbox[n:]
			c.mu.Unlock()
			return n, nil
		case c.eof:
			c.mu.Unlock()
			return 0, io.EOF
		case !c.rdl.IsZero() && !time.Now().Before(c.rdl):
			c.mu.Unlock()
			return 0, &net.OpError{Op: "read", Net: "mem", Err: os.ErrDeadlineExceeded}
		}
		w := c.wake
		c.mu.Unlock()
		<-w
	}
}

func (c *c13Conn) Write(p []byte) (int, error) {
	c.mu.Lock()
	defer c.mu.Unlock()
	if c.closed {
		return 0, &net.OpError{Op: "write", Net: "mem", Err: net.ErrClosed}
	}
	c.written = append(c.written, p...)
	c.writes++
	return len(p), nil
}

func (c *c13Conn) Close() error {
	c.mu.Lock()
	defer c.mu.Unlock()
	c.closeCalls++
	if c.closed {
		return &net.OpError{Op: "close", Net: "mem", Err: net.ErrClosed}
	}
	c.closed = true
	c.signal()
	return nil
}

func (c *c13Conn) LocalAddr() net.Addr  { return c13Addr(c.local) }
func (c *c13Conn) RemoteAddr() net.Addr { return c13Addr("server") }

func (c *c13Conn) SetDeadline(t time.Time) error {
	_ = c.SetReadDeadline(t)
	return nil
}

func (c *c13Conn) SetReadDeadline(t time.Time) error {
	c.mu.Lock()
	defer c.mu.Unlock()
	c.rdl = t
	if c.rdlTimer != nil {
		c.rdlTimer.Stop()
		c.rdlTimer = nil
	}
	if !t.IsZero() {
		d := time.Until(t)
		if d < 0 {
			d = 0
		}
		c.rdlTimer = time.AfterFunc(d, func() {
			c.mu.Lock()
			c.signal()
			c.mu.Unlock()
		})
	}
	c.signal()
	return nil
}

func (c *c13Conn) SetWriteDeadline(t time.Time) error { return nil }

// Snapshot of what the harness observes.
func (c *c13Conn) Written() []byte {
	c.mu.Lock()
	defer c.mu.Unlock()
	return append([]byte{}, c.written...)
}

func (c *c13Conn) CloseCalls() int {
	c.mu.Lock()
	defer c.mu.Unlock()
	return c.closeCalls
}

// c13Dialer hands the scripted connection to ch.Dial.
type c13Dialer struct {
	conn  *c13Conn
	dials int
}

func (d *c13Dialer) DialContext(ctx context.Context, network, address string) (net.Conn, error) {
	d.dials++
	return d.conn, nil
}
