package main

// Reflection-based dump of a real proto column into the transcript form of the Coq column
// model (coq/model/Columns.v): a type tree [ty] and the contents of the Go struct [cdata].
// Nothing here encodes or decodes: it only reads the fields of the column objects.

import (
	"encoding/binary"
	"fmt"
	"math"
	"math/big"
	"reflect"
	"sort"
	"strconv"
	"strings"
	"time"

	"github.com/ClickHouse/ch-go/proto"
)

type colDumpErr struct{ msg string }

func (e colDumpErr) Error() string { return e.msg }

func colFail(format string, a ...any) { panic(colDumpErr{fmt.Sprintf(format, a...)}) }

func deref(v reflect.Value) reflect.Value {
	for v.Kind() == reflect.Pointer || v.Kind() == reflect.Interface {
		if v.IsNil() {
			colFail("nil column")
		}
		v = v.Elem()
	}
	return v
}

func typeBase(t reflect.Type) string {
	n := t.Name()
	if i := strings.IndexByte(n, '['); i >= 0 {
		n = n[:i]
	}
	return n
}

// scalarN renders a fixed-width Go scalar as the unsigned little-endian value of its wire bytes.
func scalarN(v reflect.Value) *big.Int {
	switch v.Kind() {
	case reflect.Uint8, reflect.Uint16, reflect.Uint32, reflect.Uint64, reflect.Uint:
		return new(big.Int).SetUint64(v.Uint())
	case reflect.Int8:
		return new(big.Int).SetUint64(uint64(uint8(v.Int())))
	case reflect.Int16:
		return new(big.Int).SetUint64(uint64(uint16(v.Int())))
	case reflect.Int32:
		return new(big.Int).SetUint64(uint64(uint32(v.Int())))
	case reflect.Int64, reflect.Int:
		return new(big.Int).SetUint64(uint64(v.Int()))
	case reflect.Float32:
		// not through v.Float(): widening to float64 and back turns a signalling NaN into a quiet one, which
		// would misreport the stored bits
		if f, ok := v.Interface().(float32); ok {
			return new(big.Int).SetUint64(uint64(math.Float32bits(f)))
		}
		return new(big.Int).SetUint64(uint64(math.Float32bits(float32(v.Float()))))
	case reflect.Float64:
		return new(big.Int).SetUint64(math.Float64bits(v.Float()))
	case reflect.Array: // [N]byte: the bytes are the wire bytes
		n := v.Len()
		b := make([]byte, n)
		for i := 0; i < n; i++ {
			b[i] = byte(v.Index(i).Uint())
		}
		for i, j := 0, n-1; i < j; i, j = i+1, j-1 {
			b[i], b[j] = b[j], b[i]
		}
		return new(big.Int).SetBytes(b)
	case reflect.Struct: // UInt128{Low, High uint64}, UInt256{Low, High UInt128} and the types defined over them
		if v.NumField() == 2 && v.Type().Field(0).Name == "Low" && v.Type().Field(1).Name == "High" {
			lo, hi := scalarN(v.Field(0)), scalarN(v.Field(1))
			bits := uint(v.Field(0).Type().Size() * 8)
			return lo.Add(lo, hi.Lsh(hi, bits))
		}
	}
	colFail("unsupported scalar kind %s (%s)", v.Kind(), v.Type())
	return nil
}

// fmtN: decimal up to 64 bits, otherwise x + little-endian bytes without trailing zero bytes
func fmtN(n *big.Int) string {
	if n.BitLen() <= 64 {
		return n.String()
	}
	b := n.Bytes() // big-endian, no leading zeros
	for i, j := 0, len(b)-1; i < j; i, j = i+1, j-1 {
		b[i], b[j] = b[j], b[i]
	}
	return hx(b)
}

func nList(v reflect.Value) string {
	xs := make([]string, v.Len())
	for i := range xs {
		xs[i] = fmtN(scalarN(v.Index(i)))
	}
	return sx(xs...)
}

func strColData(v reflect.Value) string { // ColStr{Buf, Pos}
	buf := v.FieldByName("Buf").Bytes()
	pos := v.FieldByName("Pos")
	xs := make([]string, pos.Len())
	for i := range xs {
		p := pos.Index(i)
		s, e := int(p.FieldByName("Start").Int()), int(p.FieldByName("End").Int())
		if s < 0 || e < s || e > len(buf) {
			colFail("ColStr position %d..%d outside buffer of %d", s, e, len(buf))
		}
		xs[i] = hx(buf[s:e])
	}
	return sx(append([]string{"bytes"}, xs...)...)
}

// colTy returns the model type tree of a column object.
func colTy(c any) string {
	if n, ok := c.(interface{ ColumnName() string }); ok { // ColNamed[T]
		v := deref(reflect.ValueOf(c))
		return sx("named", hx([]byte(n.ColumnName())), colTy(v.Field(0).Interface()))
	}
	if a, ok := c.(*proto.ColAuto); ok {
		return colTy(a.Data)
	}
	if tup, ok := c.(proto.ColTuple); ok {
		xs := []string{"tuple"}
		for _, e := range tup {
			xs = append(xs, colTy(e))
		}
		return sx(xs...)
	}
	v := deref(reflect.ValueOf(c))
	t := v.Type()
	name := hx([]byte(c.(interface{ Type() proto.ColumnType }).Type()))
	switch typeBase(t) {
	case "ColStr", "ColBytes":
		return "str"
	case "ColJSONStr", "ColJSONBytes":
		return "json"
	case "ColBool":
		return "bool"
	case "ColUUID":
		return "uuid"
	case "ColNothing":
		return "nothing"
	case "ColPoint":
		return "point"
	case "ColFixedStr":
		return sx("fstr", strconv.Itoa(int(v.FieldByName("Size").Int())))
	case "ColInterval":
		return sx("fix", name, "8")
	case "ColDateTime", "ColDateTime64", "ColDateTime64Raw":
		return sx("fix", name, strconv.Itoa(int(v.FieldByName("Data").Type().Elem().Size())))
	case "ColEnum":
		w := 2
		if proto.ColumnType(v.FieldByName("t").String()).Base() == proto.ColumnTypeEnum8 {
			w = 1
		}
		m := v.FieldByName("strToRaw")
		type def struct {
			k string
			z int64
		}
		var defs []def
		if m.Kind() == reflect.Map && !m.IsNil() {
			it := m.MapRange()
			for it.Next() {
				defs = append(defs, def{it.Key().String(), it.Value().Int()})
			}
		}
		sort.Slice(defs, func(i, j int) bool { return defs[i].k < defs[j].k })
		xs := make([]string, len(defs))
		for i, d := range defs {
			xs[i] = sx(hx([]byte(d.k)), strconv.FormatInt(d.z, 10))
		}
		return sx("enum", name, strconv.Itoa(w), sx(xs...))
	case "ColArr":
		return sx("arr", colTy(v.FieldByName("Data").Interface()))
	case "ColNullable":
		return sx("nullable", colTy(v.FieldByName("Values").Interface()))
	case "ColLowCardinality":
		return sx("lc", colTy(reflectIface(v.FieldByName("index"))))
	case "ColMap":
		return sx("map", colTy(v.FieldByName("Keys").Interface()), colTy(v.FieldByName("Values").Interface()))
	}
	if t.Kind() == reflect.Slice {
		if wideBytes(t.Elem()) {
			// generated ColFixedStrN, N > 32: same wire form as FixedString(N) held in one buffer
			return sx("fstr", strconv.Itoa(t.Elem().Len()))
		}
		return sx("fix", name, strconv.Itoa(int(t.Elem().Size())))
	}
	colFail("unsupported column type %s", t)
	return ""
}

func wideBytes(e reflect.Type) bool {
	return e.Kind() == reflect.Array && e.Elem().Kind() == reflect.Uint8 && e.Len() > 32
}

// reflectIface reads an interface-typed unexported field (ColLowCardinality.index).
func reflectIface(f reflect.Value) any {
	if f.CanInterface() {
		return f.Interface()
	}
	// read-only field: rebuild an addressable view of the same memory
	return reflect.NewAt(f.Type(), f.Addr().UnsafePointer()).Elem().Interface()
}

// goValSx renders a Go row value of element column `elem` (the dictionary column of a
// LowCardinality) in the model's value syntax.
func goValSx(elem any, x reflect.Value) string {
	ev := deref(reflect.ValueOf(elem))
	switch typeBase(ev.Type()) {
	case "ColStr", "ColJSONStr":
		return sx("b", hx([]byte(x.String())))
	case "ColBytes", "ColJSONBytes", "ColFixedStr":
		return sx("b", hx(x.Bytes()))
	case "ColBool":
		return sx("bool", bsym(x.Bool()))
	case "ColNothing":
		return "unit"
	case "ColUUID":
		b := make([]byte, 16)
		for i := range b {
			b[i] = byte(x.Index(i).Uint())
		}
		return sx("b", hx(b))
	case "ColPoint":
		return sx("pt", fmtN(scalarN(x.Field(0))), fmtN(scalarN(x.Field(1))))
	case "ColDateTime":
		return sx("n", strconv.FormatUint(uint64(proto.ToDateTime(x.Interface().(time.Time))), 10))
	case "ColDate":
		return sx("n", strconv.FormatUint(uint64(proto.ToDate(x.Interface().(time.Time))), 10))
	case "ColNullable":
		inner := ev.FieldByName("Values").Interface()
		return sx("opt", bsym(x.FieldByName("Set").Bool()), goValSx(inner, x.FieldByName("Value")))
	}
	if ev.Kind() == reflect.Slice {
		if x.Type() == reflect.TypeOf(time.Time{}) {
			colFail("time-valued dictionary over %s", ev.Type())
		}
		return sx("n", fmtN(scalarN(x)))
	}
	colFail("unsupported dictionary element column %s", ev.Type())
	return ""
}

// colData returns the model rendering of the column's current contents.
func colData(c any) string {
	if _, ok := c.(interface{ ColumnName() string }); ok {
		v := deref(reflect.ValueOf(c))
		return colData(v.Field(0).Interface())
	}
	if a, ok := c.(*proto.ColAuto); ok {
		return colData(a.Data)
	}
	if tup, ok := c.(proto.ColTuple); ok {
		xs := []string{"tuple"}
		for _, e := range tup {
			xs = append(xs, colData(e))
		}
		return sx(xs...)
	}
	v := deref(reflect.ValueOf(c))
	t := v.Type()
	switch typeBase(t) {
	case "ColStr":
		return strColData(v)
	case "ColBytes":
		return strColData(v.FieldByName("ColStr"))
	case "ColJSONStr":
		return strColData(v.FieldByName("Str"))
	case "ColJSONBytes":
		return strColData(v.FieldByName("ColJSONStr").FieldByName("Str"))
	case "ColBool":
		xs := []string{"bool"}
		for i := 0; i < v.Len(); i++ {
			if v.Index(i).Bool() {
				xs = append(xs, "1")
			} else {
				xs = append(xs, "0")
			}
		}
		return sx(xs...)
	case "ColUUID":
		xs := []string{"bytes"}
		for i := 0; i < v.Len(); i++ {
			b := make([]byte, 16)
			for j := range b {
				b[j] = byte(v.Index(i).Index(j).Uint())
			}
			xs = append(xs, hx(b))
		}
		return sx(xs...)
	case "ColNothing":
		return sx("nothing", strconv.FormatInt(v.Int(), 10))
	case "ColPoint":
		return sx("point", nList(v.FieldByName("X")), nList(v.FieldByName("Y")))
	case "ColFixedStr":
		return sx("fstr", hx(v.FieldByName("Buf").Bytes()))
	case "ColInterval":
		return sx("fix", nList(v.FieldByName("Values")))
	case "ColDateTime", "ColDateTime64", "ColDateTime64Raw":
		return sx("fix", nList(v.FieldByName("Data")))
	case "ColEnum":
		vals := v.FieldByName("Values")
		xs := make([]string, vals.Len())
		for i := range xs {
			xs[i] = hx([]byte(vals.Index(i).String()))
		}
		raw := v.FieldByName("raw16")
		if proto.ColumnType(v.FieldByName("t").String()).Base() == proto.ColumnTypeEnum8 {
			raw = v.FieldByName("raw8")
		}
		return sx("enum", sx(xs...), nList(raw))
	case "ColArr":
		return sx("arr", nList(v.FieldByName("Offsets")), colData(v.FieldByName("Data").Interface()))
	case "ColNullable":
		return sx("nullable", nList(v.FieldByName("Nulls")), colData(v.FieldByName("Values").Interface()))
	case "ColMap":
		return sx("map", nList(v.FieldByName("Offsets")), colData(v.FieldByName("Keys").Interface()), colData(v.FieldByName("Values").Interface()))
	case "ColLowCardinality":
		idx := reflectIface(v.FieldByName("index"))
		vals := v.FieldByName("Values")
		xs := make([]string, vals.Len())
		for i := range xs {
			xs[i] = goValSx(idx, vals.Index(i))
		}
		key := v.FieldByName("key").Uint()
		keys := v.FieldByName([]string{"keys8", "keys16", "keys32", "keys64"}[key&3])
		return sx("lc", sx(xs...), colData(idx), strconv.FormatUint(key, 10), nList(keys))
	}
	if t.Kind() == reflect.Slice {
		if wideBytes(t.Elem()) {
			n := t.Elem().Len()
			buf := make([]byte, 0, v.Len()*n)
			for i := 0; i < v.Len(); i++ {
				e := v.Index(i)
				for j := 0; j < n; j++ {
					buf = append(buf, byte(e.Index(j).Uint()))
				}
			}
			return sx("fstr", hx(buf))
		}
		return sx("fix", nList(v))
	}
	colFail("unsupported column type %s", t)
	return ""
}

// colDump returns (ty, data) or an error text when the column is outside the modelled set.
func colDump(c any) (ty, data string, err error) {
	defer func() {
		if p := recover(); p != nil {
			if e, ok := p.(colDumpErr); ok {
				err = e
				return
			}
			panic(p)
		}
	}()
	return colTy(c), colData(c), nil
}

var _ = binary.LittleEndian
