package main

// C04 / C10: free-running runs (no gates, real timers, ReadTimeout 30 ms): direct oracle only.

import (
	"fmt"
	"os"
	"strconv"
	"strings"
	"time"
)

const c04ReadTimeout = 30 * time.Millisecond
const c04Grace = 1500 * time.Millisecond
const c04CallerDeadline = 150 * time.Millisecond

var c04FreeCount int

// c04FreeRun executes sc without gates. cancelAfter < 0: no cancellation; else the caller's context is
// cancelled once cancelAfter connection events (reads + writes) have happened.
func c04FreeRun(sc *c04Scen, cancelAfter int, fam string) (c04Obs, string) {
	return c04FreeRunB(sc, cancelAfter, fam, false)
}

// busy: after its script the server keeps streaming Progress packets (one per millisecond) until the connection
// is closed: a query that is not cancelled by the caller never runs out of packets to read
func c04FreeRunB(sc *c04Scen, cancelAfter int, fam string, busy bool) (c04Obs, string) {
	var o c04Obs
	r, err := c04NewRun(sc, c04ReadTimeout)
	if err != nil {
		return o, "FAIL:handshake with the scripted server failed: " + err.Error()
	}
	if busy {
		r.conn.busy = c04PacketBytes("prog", false)
	}
	// cancellation is injected synchronously inside the cancelAfter-th connection call of the query, so the
	// query is certainly still running at that instant
	strict := false
	if cancelAfter >= 0 {
		r.conn.onEvent = func(n int) {
			if n == cancelAfter {
				strict = true
				r.conn.markCancelled()
				r.cancel()
			}
		}
	}
	r.strict = &strict
	c04FreeCount++
	r.conn.cancelFails = sc.cwf || c04FreeCount%4 == 3
	r.distantDeadline = c04FreeCount%2 == 0
	r.startDo(false)
	// the caller always has a deadline: a server that goes silent must not hang the run
	go func() {
		select {
		case <-r.doDone:
		case <-time.After(c04CallerDeadline):
			r.conn.markCancelled()
			r.cancel()
		}
	}()
	return c04FreeFinish(r, sc, fam)
}

func c04FreeFinish(r *c04Run, sc *c04Scen, fam string) (c04Obs, string) {
	var o c04Obs
	select {
	case <-r.doDone:
	case <-time.After(c04CallerDeadline + c04ReadTimeout + c04Grace):
		r.cancel()
		_ = r.conn.Close()
		return o, fmt.Sprintf("FAIL:Do did not return within the caller's deadline plus the read timeout plus %v", c04Grace)
	}
	o = r.observe()
	o.leaked = c04Leaked()
	r.conn.mu.Lock()
	r.delivered = r.conn.spos
	r.conn.mu.Unlock()
	r.followUp(&o)
	r.cancel()
	r.conn.mu.Lock()
	wasCancelled := r.conn.cancelled
	r.conn.mu.Unlock()
	oracle := "ok"
	if fam == "c10" {
		// the safety-net deadline may fire while Do is already returning: then C10 is judged only if Do reports the context's error
		if wasCancelled && (*r.strict || o.isCtx) {
			oracle = o.oracleC10()
		}
	} else {
		oracle = o.oracleC04(sc)
	}
	return o, oracle
}

// c04FreeReplay re-runs the free cases listed in -arg free=<file> (lines "free <sc> cancel=<k>"), 5 times each
func c04FreeReplay(h *H, fam string) bool {
	path := h.Args["free"]
	if path == "" {
		return false
	}
	raw, err := os.ReadFile(path)
	if err != nil {
		panic(err)
	}
	for _, line := range strings.Split(string(raw), "\n") {
		busy := strings.HasPrefix(line, "busyfree ")
		if busy {
			line = line[4:]
		}
		if !strings.HasPrefix(line, "free ") {
			continue
		}
		i := strings.LastIndex(line, " cancel=")
		if i < 0 {
			continue
		}
		cx, err := c04ParseSx(line[5:i])
		if err != nil || len(cx) != 1 {
			panic("bad free case: " + line)
		}
		sc, err := c04ScenOfSx(cx[0])
		if err != nil {
			panic(err)
		}
		ca, _ := strconv.Atoi(line[i+8:])
		for k := 0; k < 5; k++ {
			_, oracle := c04FreeRunB(sc, ca, fam, busy)
			h.Emit(line, "-", oracle)
		}
	}
	return true
}

func c04Free(h *H, fam string) {
	if c04FreeReplay(h, fam) {
		return
	}
	n := h.N
	for i := 0; i < n; i++ {
		sc := c04GenScen(h)
		ca := -1
		if fam == "c10" || h.R.Intn(4) == 0 {
			ca = h.R.Intn(8)
		}
		// every fifth run: a SELECT whose server never stops streaming Progress packets, cancelled at a later event
		busy := i%5 == 4
		pre := "free"
		if busy {
			pre = "busyfree"
			sc = &c04Scen{kind: "sel", cut: -1, wf: -1, comp: h.R.Intn(3) == 0}
			for k := h.R.Intn(4); k > 0; k-- {
				sc.script = append(sc.script, c04SP{kind: []string{"data", "prog", "prof", "tot"}[h.R.Intn(4)], cb: "ok"})
			}
			if ca >= 0 {
				ca = 2 + h.R.Intn(40)
			}
			h.Stat(fam + ".free.busy")
		}
		o, oracle := c04FreeRunB(sc, ca, fam, busy)
		h.Emit(fmt.Sprintf("%s %s cancel=%d", pre, sc.String(), ca), "-", oracle)
		h.Stat(fam + ".free." + sc.kind)
		if o.closed {
			h.Stat(fam + ".free.closed")
		}
	}
}

func init() {
	runners["c04dbg"] = func(h *H) {
		cx, err := c04ParseSx(h.Args["case"])
		if err != nil {
			panic(err)
		}
		if h.Args["plan"] == "" {
			sc, err := c04ScenOfSx(cx[0])
			if err != nil {
				panic(err)
			}
			for i := 0; i < h.N; i++ {
				o, oracle := c04FreeRun(sc, -1, "c04")
				fmt.Println(o.String(), "|", oracle)
			}
			return
		}
		plan, err := c04ParseSx(h.Args["plan"])
		if err != nil {
			panic(err)
		}
		for i := 0; i < h.N; i++ {
			obs, oracle, o := c04Gated(cx[0], plan)
			if oracle == "" {
				oracle = o.oracleC04(nil) + " | " + o.oracleC10()
			}
			fmt.Println(obs, "|", oracle, "| afterCancel="+o.afterCancel)
		}
	}
}
