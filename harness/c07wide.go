package main

// C07: blocks whose last column is a LowCardinality column with WIDE keys (more than 255 / 65535 distinct values:
// UInt16 / UInt32 keys), plain and as an Array element: every proper prefix near the end (inside the keys) and a
// stride of earlier ones must be rejected, typed and inferred.

import (
	"bytes"
	"fmt"

	"github.com/ClickHouse/ch-go/proto"
)

func init() { runners["c07wide"] = runC07Wide }

func c07CutAll(h *H, label string, w []byte, rows int, typed func() proto.Results, cuts []int) {
	for _, auto := range []bool{false, true} {
		accepted, panicked, first := 0, 0, -1
		for _, c := range cuts {
			func() {
				defer func() {
					if p := recover(); p != nil {
						panicked++
						if first < 0 {
							first = c
						}
					}
				}()
				var res proto.Results
				var target proto.Result
				if auto {
					target = res.Auto()
				} else {
					res = typed()
					target = res
				}
				var b2 proto.Block
				if err := b2.DecodeBlock(proto.NewReader(bytes.NewReader(w[:c])), proto.Version, target); err == nil {
					accepted++
					if first < 0 {
						first = c
					}
				}
			}()
		}
		oracle := "ok"
		if accepted+panicked > 0 {
			oracle = fmt.Sprintf("FAIL:%s: of %d proper prefixes %d were accepted as a complete block and %d panicked (first at %d of %d bytes, auto=%v)",
				label, len(cuts), accepted, panicked, first, len(w), auto)
		}
		h.Emit(fmt.Sprintf("widecut %s rows=%d auto=%v cuts=%d", label, rows, auto, len(cuts)), "-", oracle)
		h.Stat("cut.widekeys")
	}
}

func runC07Wide(h *H) {
	type spec struct {
		label    string
		distinct int
		rows     int
		arr      bool
	}
	for _, s := range []spec{
		{"LowCardinality(String) UInt16 keys", 300 + h.R.Intn(400), 900, false},
		{"LowCardinality(String) UInt16 keys at 65535 values", 65535, 65600, false},
		{"LowCardinality(String) UInt32 keys", 65537 + h.R.Intn(300), 66000, false},
		{"Array(LowCardinality(String)) UInt16 keys", 256 + h.R.Intn(100), 500, true},
	} {
		mk := func() (proto.Column, *proto.ColLowCardinality[string], *proto.ColArr[string]) {
			lc := new(proto.ColStr).LowCardinality()
			if s.arr {
				a := proto.NewArray[string](lc)
				return a, lc, a
			}
			return lc, lc, nil
		}
		col, lc, arr := mk()
		val := func(i int) string { return fmt.Sprintf("v%05d", i%s.distinct) }
		if arr != nil {
			for i := 0; i < s.rows; i++ {
				arr.Append([]string{val(2 * i), val(2*i + 1)})
			}
		} else {
			for i := 0; i < s.rows; i++ {
				lc.Append(val(i))
			}
		}
		id := new(proto.ColUInt32)
		for i := 0; i < s.rows; i++ {
			id.Append(uint32(i))
		}
		var buf proto.Buffer
		blk := proto.Block{Columns: 2, Rows: s.rows}
		if err := blk.EncodeBlock(&buf, proto.Version, []proto.InputColumn{{Name: "id", Data: id}, {Name: "v", Data: col}}); err != nil {
			h.Emit("widecut "+s.label, "-", "FAIL:encode failed: "+err.Error())
			continue
		}
		w := buf.Buf
		var cuts []int
		win, strides := 1500, 150
		if s.rows > 10000 {
			win, strides = 260, 30
		}
		for c := 0; c < len(w)-win; c += 1 + len(w)/strides {
			cuts = append(cuts, c)
		}
		start := len(w) - win
		if start < 0 {
			start = 0
		}
		for c := start; c < len(w); c++ {
			cuts = append(cuts, c)
		}
		typed := func() proto.Results {
			c, _, _ := mk()
			return proto.Results{{Name: "id", Data: new(proto.ColUInt32)}, {Name: "v", Data: c}}
		}
		// the whole block must decode (otherwise the prefixes say nothing)
		full := typed()
		var b0 proto.Block
		if err := b0.DecodeBlock(proto.NewReader(bytes.NewReader(w)), proto.Version, full); err != nil {
			h.Emit("widecut "+s.label, "-", "FAIL:the complete block does not decode: "+err.Error())
			continue
		}
		c07CutAll(h, s.label, w, s.rows, typed, cuts)
	}
}
