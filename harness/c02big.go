package main

// C02 / C05 / C09: input and external-data blocks LARGER than 1 MiB through the real Client.Do, in every compression
// mode: what the client wrote is read back with the library's own server-side decoders (checksums, decompression),
// must be one frame per block when compressed, and must hold the rows that were handed in.  Direct oracle only
// (the blocks are too large for the model's parser to be worth running on them).

import (
	"context"
	"fmt"
	"time"

	"github.com/ClickHouse/ch-go/proto"
)

func init() { runners["c02big"] = runC02Big }

func c02BigCol(h *H, name string, kind int, rows int) *c02Col {
	switch kind {
	case 0: // incompressible
		c := make(proto.ColUInt64, rows)
		for i := range c {
			c[i] = h.R.Uint64()
		}
		return &c02Col{name: name, spec: c14ColSpec{typ: "UInt64"}, rows: rows, col: &c}
	case 1: // compressible
		c := make(proto.ColUInt64, rows)
		for i := range c {
			c[i] = uint64(i / 7)
		}
		return &c02Col{name: name, spec: c14ColSpec{typ: "UInt64"}, rows: rows, col: &c}
	default: // strings of mixed lengths
		c := new(proto.ColStr)
		for i := 0; i < rows; i++ {
			b := make([]byte, h.R.Intn(24))
			h.R.Read(b)
			c.AppendBytes(b)
		}
		return &c02Col{name: name, spec: c14ColSpec{typ: "String"}, rows: rows, col: c}
	}
}

func runC02Big(h *H) {
	for i := 0; i < h.N; i++ {
		k := c02GenCfg(h.R)
		k.comp = c02Modes[i%len(c02Modes)]
		if !proto.FeatureSettingsSerializedAsStrings.In(k.rev) {
			k.rev = proto.Version
			if k.clientPV < k.rev {
				k.clientPV = k.rev
			}
			k.srvRev = 0
		}
		kind := (i / len(c02Modes)) % 3
		// 1.05 .. 3.5 MiB of column data
		bytesWanted := (1 << 20) + (1 << 15) + h.R.Intn(5<<19)
		rows := bytesWanted / 8
		if kind == 2 {
			rows = bytesWanted / 13
		}
		q := &c02Query{id: "big", body: "INSERT INTO t VALUES"}
		q.input = []*c02Col{c02BigCol(h, "v", kind, rows)}
		if i%2 == 1 {
			q.input = append(q.input, c02BigCol(h, "w", 1, rows))
		}
		if i%7 == 3 {
			q.ext = []*c02Col{c02BigCol(h, "e", 0, rows/2+70000)}
			q.extTable = "ext"
		}
		desc := fmt.Sprintf("big rev=%d mode=%s kind=%d rows=%d cols=%d ext=%d", k.rev, c02ModeSym(k.comp), kind, rows, len(q.input), len(q.ext))
		run := c02Connect(k)
		if run.err != nil {
			h.Emit(desc, "-", "FAIL:handshake with the scripted server failed: "+c02Sanitize(run.err.Error()))
			continue
		}
		withInfo := i%3 == 0
		var info []*c02Col
		if withInfo {
			info = q.input
		}
		resp, err := c02Response(k, info)
		if err != nil {
			run.client.Close()
			h.Emit(desc, "-", "-")
			continue
		}
		run.conn.Serve(resp)
		cq := q.chQuery()
		if !withInfo {
			cq.Result = (&proto.Results{}).Auto()
		}
		ctx, cancel := context.WithTimeout(context.Background(), 60*time.Second)
		doErr := run.client.Do(ctx, cq)
		cancel()
		rec := run.conn.Recorded()[run.hsLen:]
		run.client.Close()
		oracle := "ok"
		if doErr != nil {
			oracle = "FAIL:Do failed on a valid INSERT with a large block: " + c02Sanitize(doErr.Error())
		} else if d := c02Judge(rec, k, q, "big", run, false); d != "" {
			oracle = "FAIL:" + c02Sanitize(d)
		}
		h.Emit(desc, "-", oracle)
		h.Stat("c02big.mode." + c02ModeSym(k.comp))
	}
}
