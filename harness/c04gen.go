package main

// scenario generator for the free-running part (structured, boundary-biased, with a malformed stream)
func c04GenScen(h *H) *c04Scen {
	r := h.R
	sc := &c04Scen{cut: -1, wf: -1}
	sc.kind = []string{"sel", "ins", "str"}[r.Intn(3)]
	sc.comp = r.Intn(3) == 0
	sc.rows0 = []int{0, 2, 2}[r.Intn(3)]
	if sc.kind == "ins" && r.Intn(3) > 0 {
		sc.rows0 = 2
	}
	nw := 1 // data chunks written by a complete run (approximate; used only to place packets)
	if sc.kind == "str" {
		k := r.Intn(3)
		for i := 0; i < k; i++ {
			sc.rounds = append(sc.rounds, "ok")
		}
		sc.rounds = append(sc.rounds, []string{"eof", "eoft", "err", "eof"}[r.Intn(4)])
		nw = 2 + 2*len(sc.rounds)
	} else if sc.kind == "ins" {
		nw = 4
	}
	add := func(kind, cb string) {
		sc.script = append(sc.script, c04SP{avail: []int{0, 1, 1, r.Intn(nw + 1)}[r.Intn(4)], kind: kind, cb: cb})
	}
	cbres := func() string {
		switch r.Intn(16) {
		case 0, 1:
			return "err"
		case 2:
			return "errx" // fails with an error that wraps a *ch.Exception of another query
		}
		return "ok"
	}
	if sc.kind != "sel" {
		add("info", "")
		if r.Intn(6) == 0 {
			// a server that repeats the header block: the handler Do installs for the column info hands over
			// one value, the third block finds the channel full - it must still notice the caller's context
			for k := 1 + r.Intn(3); k > 0; k-- {
				add("info", "")
			}
		}
	}
	for k := r.Intn(4); k > 0; k-- {
		switch r.Intn(6) {
		case 0:
			add("prog", cbres())
		case 1:
			add("prof", cbres())
		case 2:
			add("tc", "")
		default:
			if sc.kind == "sel" {
				add([]string{"data", "tot"}[r.Intn(2)], cbres())
			} else {
				add("prog", cbres())
			}
		}
	}
	switch r.Intn(10) {
	case 0, 1:
		add("exc", "")
	case 2:
		add([]string{"unk", "unx", "mal"}[r.Intn(3)], "")
	case 3:
		// the server goes silent
	default:
		add("end", "")
	}
	if len(sc.script) > 0 {
		sc.script[len(sc.script)-1].avail = []int{0, 1, nw, r.Intn(nw + 1)}[r.Intn(4)]
	}
	if sc.kind == "sel" && r.Intn(10) == 0 {
		sc.kind = "selx" // the query cannot even be encoded (bad external data)
	}
	switch r.Intn(6) {
	case 0:
		sc.cut, sc.cutIn = r.Intn(len(sc.script)+1), r.Intn(2) == 0
	case 1:
		sc.wf, sc.wfPart = r.Intn(nw+1), r.Intn(2) == 0
	}
	return sc
}
