package main

// C16: column reuse.  Histories of operations on ONE real column object; after every step the
// column is dumped (colDump, normalised) together with the bytes of encode steps, and a direct
// oracle compares the column with a plain list of row values.
//
//	hist <build> <ty> <cdata0> (<op> ...)   ->   ok <item> ...   |   oracle ok / FAIL:step<i> <op>: <text>
//
// ops: (app <cdata1>) (apparr <cdataK>) (reset) (prep) (enc) (write) (encblock) (infer <ty'>)
// (dec <rows> xHEX <after>); items: (ok <cdata>) (err <cdata>) (ok <cdata> xBYTES) (ok <cdata> <left>) (err) (crash)

import (
	"bytes"
	"fmt"
	"io"
	"math/rand"
	"os"
	"reflect"
	"sort"
	"strconv"
	"strings"
	"time"

	"github.com/ClickHouse/ch-go/proto"
)

func init() { runners["c16"] = runC16 }

// ---------------------------------------------------------------- dump normalisation

type c16Node struct {
	atom string
	list []*c16Node
	isL  bool
}

func c16Parse(s string) (*c16Node, bool) {
	var stack []*c16Node
	var root *c16Node
	add := func(n *c16Node) bool {
		if len(stack) == 0 {
			if root != nil {
				return false
			}
			root = n
			return true
		}
		top := stack[len(stack)-1]
		top.list = append(top.list, n)
		return true
	}
	i := 0
	for i < len(s) {
		switch c := s[i]; {
		case c == ' ':
			i++
		case c == '(':
			n := &c16Node{isL: true}
			if !add(n) {
				return nil, false
			}
			stack = append(stack, n)
			i++
		case c == ')':
			if len(stack) == 0 {
				return nil, false
			}
			stack = stack[:len(stack)-1]
			i++
		default:
			j := i
			for j < len(s) && s[j] != ' ' && s[j] != '(' && s[j] != ')' {
				j++
			}
			if !add(&c16Node{atom: s[i:j]}) {
				return nil, false
			}
			i = j
		}
	}
	if len(stack) != 0 || root == nil {
		return nil, false
	}
	return root, true
}

func (n *c16Node) fix() {
	if !n.isL {
		return
	}
	if len(n.list) == 5 && !n.list[0].isL && n.list[0].atom == "lc" && n.list[4].isL && len(n.list[4].list) == 0 && !n.list[3].isL {
		n.list[3].atom = "0"
	}
	for _, k := range n.list {
		k.fix()
	}
}

func (n *c16Node) print(b *strings.Builder) {
	if !n.isL {
		b.WriteString(n.atom)
		return
	}
	b.WriteByte('(')
	for i, k := range n.list {
		if i > 0 {
			b.WriteByte(' ')
		}
		k.print(b)
	}
	b.WriteByte(')')
}

// c16Norm: in every node (lc (<vals>) <idx> <key> ()) print <key> as 0 (Reset keeps the unexported key field).
func c16Norm(s string) string {
	if !strings.Contains(s, "(lc ") {
		return s
	}
	n, ok := c16Parse(s)
	if !ok {
		return s
	}
	n.fix()
	var b strings.Builder
	b.Grow(len(s))
	n.print(&b)
	return b.String()
}

const c16MaxLine = 180000 // bytes of one transcript line (case + observation)

// c16Weight: number of slice elements held by a column object (a failed decode of malformed bytes can
// leave millions of zero elements behind: such states are not dumped)
func c16Weight(v reflect.Value, depth int) int {
	if depth > 12 {
		return 0
	}
	switch v.Kind() {
	case reflect.Pointer, reflect.Interface:
		if v.IsNil() {
			return 0
		}
		return c16Weight(v.Elem(), depth+1)
	case reflect.Slice:
		n := v.Len()
		if k := v.Type().Elem().Kind(); k == reflect.Interface || k == reflect.Pointer {
			for i := 0; i < v.Len(); i++ {
				n += c16Weight(v.Index(i), depth+1)
			}
		}
		return n
	case reflect.Map:
		return v.Len()
	case reflect.Struct:
		n := 0
		for i := 0; i < v.NumField(); i++ {
			n += c16Weight(v.Field(i), depth+1)
		}
		return n
	}
	return 0
}

func c16Dump(col proto.Column) (ty, data string, err error) {
	defer func() {
		if p := recover(); p != nil {
			err = fmt.Errorf("dump panic: %v", p)
		}
	}()
	if c16Weight(reflect.ValueOf(col), 0) > c16MaxLine/2 {
		return "", "", fmt.Errorf("too large for the transcript")
	}
	ty, data, err = colDump(col)
	if err != nil {
		return "", "", err
	}
	return ty, c16Norm(data), nil
}

// ---------------------------------------------------------------- small helpers

func c16Guard(f func()) (p string) {
	defer func() {
		if x := recover(); x != nil {
			p = sanitize(fmt.Sprint(x))
			if p == "" {
				p = "panic"
			}
		}
	}()
	f()
	return ""
}

type c16Bad struct{}

func c16ReadRow(col proto.Column, i int) any {
	if tup, ok := col.(proto.ColTuple); ok {
		out := make([]any, len(tup))
		for j, c := range tup {
			out[j] = c16ReadRow(c, i)
		}
		return out
	}
	v := reflect.ValueOf(col)
	m := v.MethodByName("RowKV")
	if !m.IsValid() {
		m = v.MethodByName("Row")
	}
	if !m.IsValid() {
		return nil
	}
	return m.Call([]reflect.Value{reflect.ValueOf(i)})[0].Interface()
}

func c16ReadRowSafe(col proto.Column, i int) (x any) {
	defer func() {
		if p := recover(); p != nil {
			x = c16Bad{}
		}
	}()
	return c16ReadRow(col, i)
}

func c16ReadAll(col proto.Column) (out []any) {
	defer func() {
		if p := recover(); p != nil {
			out = append(out, c16Bad{})
		}
	}()
	n := col.Rows()
	out = make([]any, 0, n)
	for i := 0; i < n; i++ {
		out = append(out, c16CloneAny(c16ReadRowSafe(col, i)))
	}
	return out
}

func c16Same(x, y any) bool {
	if _, bad := x.(c16Bad); bad {
		return false
	}
	if _, bad := y.(c16Bad); bad {
		return false
	}
	if reflect.DeepEqual(x, y) || fmt.Sprintf("%#v", x) == fmt.Sprintf("%#v", y) {
		return true
	}
	if x == nil || y == nil {
		return false
	}
	return c16Eq(reflect.ValueOf(x), reflect.ValueOf(y))
}

// structural equality of row values; a nil slice and an empty slice are the same row value
// (ColBytes.Row of an empty string is nil or empty depending on whether the buffer was ever allocated)
func c16Eq(a, b reflect.Value) bool {
	if a.Type() != b.Type() {
		return false
	}
	if a.CanInterface() && b.CanInterface() {
		x, y := a.Interface(), b.Interface()
		if reflect.DeepEqual(x, y) || fmt.Sprintf("%#v", x) == fmt.Sprintf("%#v", y) {
			return true
		}
	}
	switch a.Kind() {
	case reflect.Slice, reflect.Array:
		if a.Len() != b.Len() {
			return false
		}
		for i := 0; i < a.Len(); i++ {
			if !c16Eq(a.Index(i), b.Index(i)) {
				return false
			}
		}
		return true
	case reflect.Map:
		if a.Len() != b.Len() {
			return false
		}
		it := a.MapRange()
		for it.Next() {
			v := b.MapIndex(it.Key())
			if !v.IsValid() || !c16Eq(it.Value(), v) {
				return false
			}
		}
		return true
	case reflect.Struct:
		for i := 0; i < a.NumField(); i++ {
			if !a.Type().Field(i).IsExported() {
				return false
			}
			if !c16Eq(a.Field(i), b.Field(i)) {
				return false
			}
		}
		return a.NumField() > 0
	case reflect.Interface, reflect.Pointer:
		if a.IsNil() || b.IsNil() {
			return a.IsNil() == b.IsNil()
		}
		return c16Eq(a.Elem(), b.Elem())
	}
	return false
}

// c16SameCols compares two columns row by row through their accessors (as sameRows of c01.go, with c16Same)
func c16SameCols(a, b proto.Column) (same bool) {
	defer func() {
		if p := recover(); p != nil {
			same = false
		}
	}()
	if a.Rows() != b.Rows() {
		return false
	}
	for i := 0; i < a.Rows(); i++ {
		if !c16Same(c16ReadRow(a, i), c16ReadRow(b, i)) {
			return false
		}
	}
	return true
}

// deep copy of a row value (Row of ColFixedStr / ColBytes aliases the column's buffer)
func c16CloneAny(x any) any {
	if x == nil {
		return nil
	}
	return c16Clone(reflect.ValueOf(x)).Interface()
}

func c16Clone(v reflect.Value) reflect.Value {
	switch v.Kind() {
	case reflect.Slice:
		if v.IsNil() {
			return v
		}
		out := reflect.MakeSlice(v.Type(), v.Len(), v.Len())
		for i := 0; i < v.Len(); i++ {
			out.Index(i).Set(c16Clone(v.Index(i)))
		}
		return out
	case reflect.Map:
		if v.IsNil() {
			return v
		}
		out := reflect.MakeMapWithSize(v.Type(), v.Len())
		it := v.MapRange()
		for it.Next() {
			out.SetMapIndex(c16Clone(it.Key()), c16Clone(it.Value()))
		}
		return out
	case reflect.Struct:
		out := reflect.New(v.Type()).Elem()
		out.Set(v)
		for i := 0; i < v.NumField(); i++ {
			if out.Field(i).CanSet() {
				out.Field(i).Set(c16Clone(v.Field(i)))
			}
		}
		return out
	case reflect.Array:
		out := reflect.New(v.Type()).Elem()
		for i := 0; i < v.Len(); i++ {
			out.Index(i).Set(c16Clone(v.Index(i)))
		}
		return out
	case reflect.Interface:
		if v.IsNil() {
			return v
		}
		out := reflect.New(v.Type()).Elem()
		out.Set(c16Clone(v.Elem()))
		return out
	}
	return v
}

// Go maps with several entries are appended in iteration order (ColMap.Append ranges over the map):
// two columns fed the same value would differ.  Keep at most one entry.
func c16TrimMaps(v reflect.Value) reflect.Value {
	switch v.Kind() {
	case reflect.Map:
		if v.Len() <= 1 {
			return v
		}
		keys := v.MapKeys()
		sort.Slice(keys, func(i, j int) bool {
			return fmt.Sprintf("%#v", keys[i].Interface()) < fmt.Sprintf("%#v", keys[j].Interface())
		})
		out := reflect.MakeMap(v.Type())
		out.SetMapIndex(keys[0], v.MapIndex(keys[0]))
		return out
	case reflect.Slice:
		if v.Type().Elem().Kind() == reflect.Uint8 {
			return v
		}
		for i := 0; i < v.Len(); i++ {
			if e := v.Index(i); e.CanSet() {
				e.Set(c16TrimMaps(e))
			}
		}
	case reflect.Struct:
		for i := 0; i < v.NumField(); i++ {
			if f := v.Field(i); f.CanSet() {
				f.Set(c16TrimMaps(f))
			}
		}
	}
	return v
}

// c16Distinct: the i-th of a family of pairwise different values of type t (dictionary growth).
func c16Distinct(t reflect.Type, i int, s c14ColSpec) (reflect.Value, bool) {
	v := reflect.New(t).Elem()
	if t == c14TimeType {
		v.Set(reflect.ValueOf(time.Unix(int64(i)*86400, 0).UTC()))
		return v, true
	}
	switch t.Kind() {
	case reflect.String:
		if len(s.strPool) > 0 {
			return v, false
		}
		v.SetString("k" + strconv.Itoa(i))
		return v, true
	case reflect.Int16, reflect.Int32, reflect.Int64, reflect.Int:
		v.SetInt(int64(i))
		return v, true
	case reflect.Uint16, reflect.Uint32, reflect.Uint64, reflect.Uint:
		v.SetUint(uint64(i))
		return v, true
	case reflect.Slice:
		if t.Elem().Kind() == reflect.Uint8 {
			n := s.bytesLen
			if n == 0 {
				n = 4
			}
			if n < 3 {
				return v, false
			}
			b := make([]byte, n)
			b[0], b[1], b[2] = byte(i), byte(i>>8), byte(i>>16)
			v.SetBytes(b)
			return v, true
		}
		e, ok := c16Distinct(t.Elem(), i, s)
		if !ok {
			return v, false
		}
		v.Set(reflect.Append(reflect.MakeSlice(t, 0, 1), e))
		return v, true
	case reflect.Array:
		if t.Elem().Kind() == reflect.Uint8 && t.Len() >= 3 {
			v.Index(0).SetUint(uint64(byte(i)))
			v.Index(1).SetUint(uint64(byte(i >> 8)))
			v.Index(2).SetUint(uint64(byte(i >> 16)))
			return v, true
		}
	case reflect.Struct:
		some := false
		for k := 0; k < t.NumField(); k++ {
			if !t.Field(k).IsExported() {
				return v, false
			}
			e, ok := c16Distinct(t.Field(k).Type, i, s)
			if !ok {
				return v, false
			}
			v.Field(k).Set(e)
			some = true
		}
		return v, some
	}
	return v, false
}

// ---------------------------------------------------------------- row values and appending

type c16Row struct {
	tup  bool
	kids []c16Row
	v    reflect.Value
}

func c16AppendMethod(col proto.Column) (reflect.Value, bool) {
	v := reflect.ValueOf(col)
	m := v.MethodByName("AppendKV")
	if !m.IsValid() {
		m = v.MethodByName("Append")
	}
	if !m.IsValid() || m.Type().NumIn() != 1 {
		return m, false
	}
	return m, true
}

// one-argument AppendArr taking a slice of the append argument type
func c16ArrMethod(col proto.Column) (reflect.Value, bool) {
	if _, isT := col.(proto.ColTuple); isT {
		return reflect.Value{}, false
	}
	m, ok := c16AppendMethod(col)
	if !ok {
		return m, false
	}
	am := reflect.ValueOf(col).MethodByName("AppendArr")
	if !am.IsValid() || am.Type().NumIn() != 1 || am.Type().IsVariadic() || am.Type().In(0) != reflect.SliceOf(m.Type().In(0)) {
		return am, false
	}
	return am, true
}

func c16GenRow(col proto.Column, rr *rand.Rand, s c14ColSpec, distinct int) (row c16Row, ok bool) {
	defer func() {
		if p := recover(); p != nil {
			ok = false
		}
	}()
	if tup, isT := col.(proto.ColTuple); isT {
		row.tup = true
		for _, c := range tup {
			k, ok := c16GenRow(c, rr, s, distinct)
			if !ok {
				return row, false
			}
			row.kids = append(row.kids, k)
		}
		return row, true
	}
	if iv, isI := col.(*proto.ColInterval); isI {
		x := int64(genInt(rr))
		if distinct >= 0 {
			x = int64(distinct)
		}
		row.v = reflect.ValueOf(proto.Interval{Scale: iv.Scale, Value: x})
		return row, true
	}
	m, ok := c16AppendMethod(col)
	if !ok {
		return row, false
	}
	t := m.Type().In(0)
	if distinct >= 0 {
		if v, ok := c16Distinct(t, distinct, s); ok {
			row.v = v
			return row, true
		}
	}
	row.v = c16TrimMaps(c14Value(t, rr, s, 0))
	return row, true
}

func c16Apply(col proto.Column, row c16Row) {
	if tup, isT := col.(proto.ColTuple); isT {
		if !row.tup || len(row.kids) != len(tup) {
			panic("c16: row shape")
		}
		for i, c := range tup {
			c16Apply(c, row.kids[i])
		}
		return
	}
	m, ok := c16AppendMethod(col)
	if !ok {
		panic("c16: no append method")
	}
	m.Call([]reflect.Value{row.v})
}

// ---------------------------------------------------------------- infer pools

type c16Infer struct {
	typ  string
	pool []string
}

func c16EnumNames(typ string) []string {
	var out []string
	for {
		i := strings.IndexByte(typ, '\'')
		if i < 0 {
			return out
		}
		j := strings.IndexByte(typ[i+1:], '\'')
		if j < 0 {
			return out
		}
		out = append(out, typ[i+1:i+1+j])
		typ = typ[i+j+2:]
	}
}

var c16Enum8Pool = []string{"Enum8('a' = 1, 'b' = 2)", "Enum8('c' = 1)", "Enum8('a' = 2, 'b' = 1, 'c' = 3)", "Enum8('b' = 2, 'd' = -3)"}
var c16Enum16Pool = []string{"Enum16('x' = 1000, 'y' = -5, 'z' = 7)", "Enum16('w' = 1000)", "Enum16('x' = -5, 'y' = 1000, 'q' = 32767)", "Enum16('z' = -32768, 'v' = 300)"}
var c16DT64Pool = []string{"DateTime64(3)", "DateTime64(6)", "DateTime64(9, 'UTC')"}

// the Infer pool of a spec (nil: no infer op for this kind)
func c16InferPool(s c14ColSpec, col proto.Column) []c16Infer {
	if _, ok := col.(proto.Inferable); !ok {
		return nil
	}
	name := s.name()
	wrap := func(pool []string, pre, post string, enum bool) []c16Infer {
		var out []c16Infer
		for _, t := range pool {
			x := c16Infer{typ: pre + t + post}
			if enum {
				x.pool = c16EnumNames(t)
			}
			out = append(out, x)
		}
		return out
	}
	pre, post, inner := "", "", name
	if strings.HasPrefix(name, "Array(") && strings.HasSuffix(name, ")") {
		pre, post, inner = "Array(", ")", name[6:len(name)-1]
	}
	switch {
	case strings.HasPrefix(inner, "Enum8("):
		return wrap(c16Enum8Pool, pre, post, true)
	case strings.HasPrefix(inner, "Enum16("):
		return wrap(c16Enum16Pool, pre, post, true)
	case strings.HasPrefix(name, "DateTime64"):
		return wrap(c16DT64Pool, "", "", false)
	}
	return nil
}

// values of the ColEnum nodes of a column (top level or under one Array)
func c16EnumValues(col proto.Column) ([]string, bool) {
	switch c := col.(type) {
	case *proto.ColEnum:
		return c.Values, true
	case *proto.ColArr[string]:
		if e, ok := c.Data.(*proto.ColEnum); ok {
			return e.Values, true
		}
	}
	return nil, false
}

// ---------------------------------------------------------------- one history

type c16Kind struct {
	spec   c14ColSpec
	name   string
	stat   string
	canArr bool
	lcTop  bool
	isEnum bool
	infer  []c16Infer
}

type c16Hist struct {
	h        *H
	rr       *rand.Rand
	k        *c16Kind
	spec     c14ColSpec // current spec: strPool follows the last Infer
	oldPool  []string
	inferTyp string
	inferred bool
	col      proto.Column
	shadow   []any
	unknown  bool
	ty0, d0  string
	ops, obs []string
	oracle   string
	size     int
	prev     []byte
	prevOK   bool
	done     bool
}

func (k *c16Kind) freshWith(inferTyp string) proto.Column {
	col, err := k.spec.build()
	if err != nil {
		panic("c16: build " + k.name + ": " + err.Error())
	}
	if inferTyp != "" {
		if err := col.(proto.Inferable).Infer(proto.ColumnType(inferTyp)); err != nil {
			panic("c16: infer " + inferTyp + ": " + err.Error())
		}
	}
	return col
}

func (r *c16Hist) fresh() proto.Column { return r.k.freshWith(r.inferTyp) }

func c16NewHist(h *H, k *c16Kind, col proto.Column, shadow []any) *c16Hist {
	r := &c16Hist{h: h, rr: h.R, k: k, spec: k.spec, col: col, shadow: shadow, oracle: "ok"}
	ty, d, err := c16Dump(col)
	if err != nil {
		return nil
	}
	r.ty0, r.d0 = ty, d
	r.size = len(ty) + len(d)
	return r
}

func (r *c16Hist) fail(op, text string) {
	if r.oracle == "ok" {
		if r.k.isEnum && r.inferred && !strings.HasPrefix(text, "enum infer:") && !strings.HasPrefix(text, "panic in") {
			text = "enum infer: " + text
		}
		r.oracle = fmt.Sprintf("FAIL:step%d %s: %s", len(r.ops), op, sanitize(text))
	}
}

// record appends one step; false (and the history ends before this step) when the transcript line would get too long
func (r *c16Hist) record(stat, op, item string) bool {
	if r.size+len(op)+len(item)+2 > c16MaxLine {
		r.done = true
		r.h.Stat("c16.cut.line-length")
		return false
	}
	r.ops = append(r.ops, op)
	r.obs = append(r.obs, item)
	r.size += len(op) + len(item) + 2
	r.h.Stat("c16.op." + stat)
	return true
}

func (r *c16Hist) crash(stat, name, op, p string) {
	r.done = true
	if len(op) > c16MaxLine/2 {
		op = sx(name) // keep the finding even when the operand does not fit
	}
	r.ops = append(r.ops, op)
	r.obs = append(r.obs, "(crash)")
	r.h.Stat("c16.op." + stat + ".crash")
	r.fail(name, "panic in "+name+": "+p)
}

// after every step: Rows() and every Row(i) against the list
func (r *c16Hist) check(name string) {
	if r.unknown {
		return
	}
	ok := func() (ok bool) {
		defer func() {
			if p := recover(); p != nil {
				ok = false
			}
		}()
		if r.col.Rows() != len(r.shadow) {
			return false
		}
		for i := range r.shadow {
			if !c16Same(c16ReadRow(r.col, i), r.shadow[i]) {
				return false
			}
		}
		return true
	}()
	if !ok {
		r.fail(name, "rows differ from the list model")
	}
}

func (r *c16Hist) emit() {
	if len(r.ops) == 0 {
		return
	}
	c := "hist " + buildName + " " + r.ty0 + " " + r.d0 + " " + sx(r.ops...)
	r.h.Emit(c, "ok "+strings.Join(r.obs, " "), r.oracle)
	if strings.HasPrefix(r.oracle, "FAIL") {
		r.h.Stat("c16.oracle.fail")
	}
}

func (r *c16Hist) opApp(row c16Row) {
	scr := r.fresh()
	if p := c16Guard(func() { c16Apply(scr, row) }); p != "" {
		return // not an admissible value for this column
	}
	_, d1, err := c16Dump(scr)
	if err != nil {
		r.done = true
		return
	}
	op := sx("app", d1)
	if p := c16Guard(func() { c16Apply(r.col, row) }); p != "" {
		r.crash("app", "app", op, p)
		return
	}
	_, d, err := c16Dump(r.col)
	if err != nil {
		r.done = true
		return
	}
	if !r.unknown {
		r.shadow = append(r.shadow, c16CloneAny(c16ReadRowSafe(scr, 0)))
	}
	r.prevOK = false
	if r.record("app", op, sx("ok", d)) {
		r.check("app")
	}
}

func (r *c16Hist) opAppArr(rows []c16Row) {
	am, ok := c16ArrMethod(r.col)
	if !ok {
		return
	}
	scr := r.fresh()
	if p := c16Guard(func() {
		for _, row := range rows {
			c16Apply(scr, row)
		}
	}); p != "" {
		return
	}
	_, dk, err := c16Dump(scr)
	if err != nil {
		r.done = true
		return
	}
	op := sx("apparr", dk)
	sl := reflect.MakeSlice(am.Type().In(0), 0, len(rows))
	for _, row := range rows {
		sl = reflect.Append(sl, row.v)
	}
	if p := c16Guard(func() { am.Call([]reflect.Value{sl}) }); p != "" {
		r.crash("apparr", "apparr", op, p)
		return
	}
	_, d, err := c16Dump(r.col)
	if err != nil {
		r.done = true
		return
	}
	if !r.unknown {
		r.shadow = append(r.shadow, c16ReadAll(scr)...)
	}
	r.prevOK = false
	if r.record("apparr", op, sx("ok", d)) {
		r.check("apparr")
	}
}

func (r *c16Hist) opReset() {
	if p := c16Guard(func() { r.col.Reset() }); p != "" {
		r.crash("reset", "reset", "(reset)", p)
		return
	}
	_, d, err := c16Dump(r.col)
	if err != nil {
		r.done = true
		return
	}
	r.shadow, r.unknown, r.prevOK = nil, false, false
	if r.record("reset", "(reset)", sx("ok", d)) {
		r.check("reset")
	}
}

// a Prepare error is legitimate only for an Enum column holding a value outside the current definitions
func (r *c16Hist) prepareLegit() bool {
	vals, ok := c16EnumValues(r.col)
	if !ok {
		return false
	}
	for _, v := range vals {
		in := false
		for _, p := range r.spec.strPool {
			if p == v {
				in = true
			}
		}
		if !in {
			return true
		}
	}
	return false
}

func (r *c16Hist) opPrep() {
	var perr error
	if p := c16Guard(func() {
		if pp, ok := r.col.(proto.Preparable); ok {
			perr = pp.Prepare()
		}
	}); p != "" {
		r.crash("prep", "prep", "(prep)", p)
		return
	}
	_, d, err := c16Dump(r.col)
	if err != nil {
		r.done = true
		return
	}
	r.prevOK = false
	if perr != nil {
		if !r.record("prep.err", "(prep)", sx("err", d)) {
			return
		}
		if !r.prepareLegit() {
			r.fail("prep", "prepare failed: "+perr.Error())
		}
	} else if !r.record("prep", "(prep)", sx("ok", d)) {
		return
	}
	r.check("prep")
}

func c16Decode(col proto.Column, rows int, in []byte, reset bool) (left int, err error, crash string) {
	crash = c16Guard(func() {
		if reset {
			col.Reset()
		}
		rd := proto.NewReader(bytes.NewReader(in))
		if rows > 0 {
			if sd, ok := col.(proto.StateDecoder); ok {
				if err = sd.DecodeState(rd); err != nil {
					return
				}
			}
			if err = col.DecodeColumn(rd, rows); err != nil {
				return
			}
		}
		rest, _ := io.ReadAll(rd)
		left = len(rest)
	})
	return
}

func (r *c16Hist) opEnc(kind string) {
	op := sx(kind)
	prefix := genShortBytes(r.rr)
	if r.rr.Intn(2) == 0 {
		prefix = append(prefix, make([]byte, 1+r.rr.Intn(7))...)
	}
	var out []byte
	var perr, eerr error
	bad := ""
	rows := -1
	p := c16Guard(func() {
		if kind != "encblock" {
			if pp, ok := r.col.(proto.Preparable); ok {
				if perr = pp.Prepare(); perr != nil {
					return
				}
			}
		}
		switch kind {
		case "enc":
			b := &proto.Buffer{Buf: append([]byte{}, prefix...)}
			r.col.EncodeColumn(b)
			if len(b.Buf) < len(prefix) || !bytes.Equal(b.Buf[:len(prefix)], prefix) {
				bad = "the bytes already in the buffer were changed"
				return
			}
			out = append([]byte{}, b.Buf[len(prefix):]...)
		case "write":
			var sink bytes.Buffer
			w := proto.NewWriter(&sink, new(proto.Buffer))
			r.col.WriteColumn(w)
			n, ferr := w.Flush()
			if ferr != nil {
				bad = "flush failed: " + ferr.Error()
				return
			}
			out = append([]byte{}, sink.Bytes()...)
			if int(n) != len(out) {
				bad = "Flush returned a wrong byte count"
			}
		case "encblock":
			rows = r.col.Rows()
			b := &proto.Buffer{Buf: append([]byte{}, prefix...)}
			in := proto.InputColumn{Name: "c", Data: r.col}
			eerr = proto.Block{Columns: 1, Rows: rows}.EncodeRawBlock(b, proto.Version, []proto.InputColumn{in})
			if eerr != nil {
				return
			}
			var hb proto.Buffer
			hb.PutInt(1)
			hb.PutInt(rows)
			in.EncodeStart(&hb, proto.Version)
			if len(b.Buf) < len(prefix) || !bytes.Equal(b.Buf[:len(prefix)], prefix) {
				bad = "the bytes already in the buffer were changed"
				return
			}
			rest := b.Buf[len(prefix):]
			if !bytes.HasPrefix(rest, hb.Buf) {
				bad = "encblock header"
				return
			}
			out = append([]byte{}, rest[len(hb.Buf):]...)
		}
	})
	if p != "" {
		r.crash(kind, kind, op, p)
		return
	}
	_, d, err := c16Dump(r.col)
	if err != nil {
		r.done = true
		return
	}
	if perr != nil || eerr != nil {
		r.prevOK = false
		if !r.record(kind+".err", op, sx("err", d)) {
			return
		}
		e := perr
		if e == nil {
			e = eerr
		}
		if !r.prepareLegit() {
			r.fail(kind, "prepare failed: "+e.Error())
		}
		r.check(kind)
		return
	}
	if !r.record(kind, op, sx("ok", d, hx(out))) {
		return
	}
	if bad != "" {
		r.fail(kind, bad)
	}
	r.check(kind)
	// the column part of the produced bytes
	colPart, haveCol := out, true
	n := 0
	if q := c16Guard(func() { n = r.col.Rows() }); q != "" {
		n = -1
	}
	if kind == "encblock" {
		if rows == 0 {
			if len(out) != 0 && !r.unknown {
				r.fail(kind, "encoding does not reflect the current rows")
			}
		} else {
			var sb proto.Buffer
			if q := c16Guard(func() {
				if se, ok := r.col.(proto.StateEncoder); ok {
					se.EncodeState(&sb)
				}
			}); q != "" || !bytes.HasPrefix(out, sb.Buf) {
				haveCol = false
			} else {
				colPart = out[len(sb.Buf):]
			}
		}
	}
	if !r.unknown && n > 0 && bad == "" {
		fr := r.fresh()
		var left int
		var derr error
		var dcrash string
		if kind == "encblock" {
			left, derr, dcrash = c16Decode(fr, n, out, false)
		} else {
			dcrash = c16Guard(func() {
				rd := proto.NewReader(bytes.NewReader(out))
				if derr = fr.DecodeColumn(rd, n); derr != nil {
					return
				}
				rest, _ := io.ReadAll(rd)
				left = len(rest)
			})
		}
		if derr != nil || dcrash != "" || left != 0 || !c16SameCols(r.col, fr) {
			r.fail(kind, "encoding does not reflect the current rows")
		}
	}
	if haveCol {
		if r.prevOK && !bytes.Equal(r.prev, colPart) {
			r.fail(kind, "re-encoding without change produced different bytes")
		}
		r.prev, r.prevOK = colPart, true
	} else {
		r.prevOK = false
	}
}

func (r *c16Hist) opInfer(x c16Infer) {
	oldTyp := r.inferTyp
	r.inferTyp = x.typ
	var ty2 string
	if p := c16Guard(func() { ty2, _, _ = c16Dump(r.fresh()) }); p != "" || ty2 == "" {
		r.inferTyp = oldTyp
		return
	}
	op := sx("infer", ty2)
	var ierr error
	if p := c16Guard(func() { ierr = r.col.(proto.Inferable).Infer(proto.ColumnType(x.typ)) }); p != "" {
		r.crash("infer", "infer", op, p)
		return
	}
	ty, d, err := c16Dump(r.col)
	if err != nil {
		r.done = true
		return
	}
	r.prevOK = false
	if r.k.isEnum {
		r.oldPool, r.spec.strPool = r.spec.strPool, x.pool
	} else if !r.unknown {
		// DateTime64: the stored raw values are read through the new precision / location
		r.shadow = c16ReadAll(r.col)
	}
	r.inferred = true
	if ierr != nil {
		if r.record("infer", op, sx("err", d)) {
			r.fail("infer", "infer failed: "+ierr.Error())
		}
		r.done = true
		return
	}
	if !r.record("infer", op, sx("ok", d)) {
		return
	}
	if ty != ty2 {
		if r.k.isEnum {
			r.fail("infer", "enum infer: definitions of an earlier type carried over")
		} else {
			r.fail("infer", "infer: settings of an earlier type carried over")
		}
	}
	r.check("infer")
}

func (r *c16Hist) opDec(stat string, rows int, in []byte) {
	fr := r.fresh()
	fleft, ferr, fcrash := c16Decode(fr, rows, in, false)
	left, derr, crash := c16Decode(r.col, rows, in, true)
	r.prevOK = false
	if crash != "" {
		r.crash(stat, "dec", sx("dec", strconv.Itoa(rows), hx(in), "-"), crash)
		return
	}
	_, d, err := c16Dump(r.col)
	if err != nil {
		r.done = true // the failed state is outside the dump: the history ends before this op
		return
	}
	const differs = "reset+decode differs from decode into a fresh column"
	if derr != nil {
		r.unknown, r.shadow = true, nil
		if !r.record(stat+".err", sx("dec", strconv.Itoa(rows), hx(in), d), "(err)") {
			return
		}
		if ferr == nil && fcrash == "" {
			r.fail("dec", differs)
		}
		return
	}
	if !r.record(stat, sx("dec", strconv.Itoa(rows), hx(in), "-"), sx("ok", d, strconv.Itoa(left))) {
		return
	}
	switch {
	case ferr != nil || fcrash != "" || left != fleft || !c16SameCols(r.col, fr):
		r.fail("dec", differs)
	default:
		if _, fd, e := c16Dump(fr); e != nil || fd != d {
			r.fail("dec", differs)
		}
	}
	r.unknown, r.shadow = false, c16ReadAll(fr)
	r.check("dec")
}

// ---------------------------------------------------------------- byte generators for dec

// state ++ column encoding of a randomly filled fresh column with `rows` rows
func (r *c16Hist) validBytes(rows int, distinct bool) (out []byte, ok bool) {
	p := c16Guard(func() {
		src := r.fresh()
		for i := 0; i < rows; i++ {
			d := -1
			if distinct {
				d = i
			}
			row, gok := c16GenRow(src, r.rr, r.spec, d)
			if !gok {
				return
			}
			c16Apply(src, row)
		}
		if pp, isP := src.(proto.Preparable); isP {
			if err := pp.Prepare(); err != nil {
				return
			}
		}
		var b proto.Buffer
		if rows > 0 {
			if se, isS := src.(proto.StateEncoder); isS {
				se.EncodeState(&b)
			}
			src.EncodeColumn(&b)
		}
		out, ok = b.Buf, true
	})
	if p != "" {
		return nil, false
	}
	return out, ok
}

// hand-built valid but non-canonical encoding of a top-level LowCardinality column
func (r *c16Hist) nonCanonical(rows int) (out []byte, ok bool) {
	p := c16Guard(func() {
		src := r.fresh()
		for i := 0; i < rows; i++ {
			row, gok := c16GenRow(src, r.rr, r.spec, -1)
			if !gok {
				return
			}
			c16Apply(src, row)
		}
		vals := deref(reflect.ValueOf(src)).FieldByName("Values")
		if !vals.IsValid() || vals.Len() != rows || rows == 0 {
			return
		}
		aux := r.fresh()
		idx := reflectIface(deref(reflect.ValueOf(aux)).FieldByName("index"))
		idxCol, isCol := idx.(proto.Column)
		app := reflect.ValueOf(idx).MethodByName("Append")
		if !isCol || !app.IsValid() {
			return
		}
		// dictionary in first-occurrence order, then disturbed
		var dict []reflect.Value
		pos := map[any]int{}
		keys := make([]int, rows)
		for i := 0; i < rows; i++ {
			v := vals.Index(i)
			k, seen := pos[v.Interface()]
			if !seen {
				k = len(dict)
				pos[v.Interface()] = k
				dict = append(dict, v)
			}
			keys[i] = k
		}
		key := 0
		switch r.rr.Intn(5) {
		case 0: // unused first entry
			extra, gok := c16GenRow(src, r.rr, r.spec, -1)
			if !gok {
				return
			}
			dict = append([]reflect.Value{extra.v}, dict...)
			for i := range keys {
				keys[i]++
			}
		case 1: // another order
			n := len(dict)
			for i, j := 0, n-1; i < j; i, j = i+1, j-1 {
				dict[i], dict[j] = dict[j], dict[i]
			}
			for i := range keys {
				keys[i] = n - 1 - keys[i]
			}
		case 2: // every entry twice, odd rows use the second copy
			n := len(dict)
			dict = append(dict, dict...)
			for i := range keys {
				if i%2 == 1 {
					keys[i] += n
				}
			}
		case 3: // wider keys than needed
			key = 1 + r.rr.Intn(3)
		default: // unused last entry and wider keys
			dict = append(dict, dict[0])
			key = r.rr.Intn(4)
		}
		for _, v := range dict {
			app.Call([]reflect.Value{v})
		}
		var b proto.Buffer
		b.PutInt64(1) // sharedDictionariesWithAdditionalKeys
		if se, isS := idx.(proto.StateEncoder); isS {
			se.EncodeState(&b)
		}
		b.PutInt64(int64(0x600) | int64(key)) // cardinalityUpdateAll | key
		b.PutInt64(int64(len(dict)))
		idxCol.EncodeColumn(&b)
		b.PutInt64(int64(rows))
		for _, k := range keys {
			switch key {
			case 0:
				b.PutUInt8(uint8(k))
			case 1:
				b.PutUInt16(uint16(k))
			case 2:
				b.PutUInt32(uint32(k))
			default:
				b.PutUInt64(uint64(k))
			}
		}
		out, ok = b.Buf, true
	})
	if p != "" {
		return nil, false
	}
	return out, ok
}

func (r *c16Hist) malformed() (rows int, out []byte, ok bool) {
	rr := r.rr
	rows = 1 + rr.Intn(5)
	w, ok := r.validBytes(rows, false)
	if !ok {
		return 0, nil, false
	}
	switch rr.Intn(6) {
	case 0: // truncated at a random point
		if len(w) > 0 {
			w = w[:rr.Intn(len(w))]
		}
	case 1: // truncated at a boundary
		cuts := []int{0, 1, 7, 8, 9, 15, 16, 17, 24, len(w) - 1, len(w) - 2, len(w) - 8}
		c := cuts[rr.Intn(len(cuts))]
		if c < 0 {
			c = 0
		}
		if c < len(w) {
			w = w[:c]
		}
	case 2: // one byte changed
		if len(w) > 0 {
			w = append([]byte{}, w...)
			i := rr.Intn(len(w))
			if rr.Intn(2) == 0 {
				w[i] ^= 1 << uint(rr.Intn(8))
			} else {
				w[i] = []byte{0, 1, 2, 0x7f, 0x80, 0xff, 0xfe, 3}[rr.Intn(8)]
			}
		}
	case 3: // more rows than the bytes hold
		rows += 1 + rr.Intn(3)
	case 4: // fewer rows than the bytes hold
		rows -= 1 + rr.Intn(rows)
	default: // empty input
		w = nil
	}
	return rows, w, true
}

// ---------------------------------------------------------------- kinds

func c16Kinds(h *H) []*c16Kind {
	var out []*c16Kind
	cat := c01Catalogue()
	for _, s := range cat {
		if c01Skip(s) {
			continue
		}
		skip := func(why string) {
			h.Stat("c16.skipped." + why)
			if h.Args["debug"] != "" {
				fmt.Fprintln(os.Stderr, "c16 skip", s.name(), why)
			}
		}
		col, err := s.build()
		if err != nil {
			skip("build")
			continue
		}
		if tup, ok := col.(proto.ColTuple); ok && len(tup) == 0 {
			skip("empty-tuple")
			continue
		}
		if _, _, err := c16Dump(col); err != nil {
			skip("dump")
			continue
		}
		if _, ok := c16GenRow(col, rand.New(rand.NewSource(1)), s, -1); !ok {
			skip("append")
			continue
		}
		k := &c16Kind{spec: s, name: s.name()}
		k.stat = strings.NewReplacer(" ", "", "\t", "").Replace(k.name)
		_, k.canArr = c16ArrMethod(col)
		k.lcTop = strings.HasPrefix(typeBase(deref(reflect.ValueOf(col)).Type()), "ColLowCardinality")
		k.infer = c16InferPool(s, col)
		k.isEnum = strings.Contains(k.name, "Enum")
		out = append(out, k)
	}
	return out
}

var c16Stateful = []string{
	"LowCardinality(String)", "LowCardinality(UInt16)", "LowCardinality(FixedString(8))", "Array(LowCardinality(String))",
	"Map(LowCardinality(String), String)", "Enum8('a' = 1, 'b' = 2)", "Enum16('x' = 1000, 'y' = -5, 'z' = 7)", "String",
	"Array(String)", "Map(String,String)", "Nullable(String)", "Tuple(LowCardinality(String), Nullable(UInt8), Array(UInt32))",
	"FixedString(8)",
}

// ---------------------------------------------------------------- exhaustive part

func c16Exhaustive(h *H, k *c16Kind, L int) {
	sub := rand.New(rand.NewSource(h.R.Int63()))
	probe := k.freshWith("")
	rowA, okA := c16GenRow(probe, sub, k.spec, -1)
	rowB, okB := c16GenRow(probe, sub, k.spec, -1)
	if !okA || !okB {
		return
	}
	show := func(row c16Row) string {
		c := k.freshWith("")
		c16Apply(c, row)
		_, d, _ := c16Dump(c)
		return d
	}
	for i := 0; i < 20 && show(rowA) == show(rowB); i++ {
		rowB, _ = c16GenRow(probe, sub, k.spec, -1)
	}
	tmp := &c16Hist{h: h, rr: sub, k: k, spec: k.spec}
	decBytes, ok := tmp.validBytes(2, false)
	if !ok {
		return
	}
	const A = 6
	for n := 1; n <= L; n++ {
		total := 1
		for i := 0; i < n; i++ {
			total *= A
		}
		for code := 0; code < total; code++ {
			r := c16NewHist(h, k, k.freshWith(""), nil)
			if r == nil {
				return
			}
			c := code
			for i := 0; i < n && !r.done; i++ {
				switch c % A {
				case 0:
					r.opApp(rowA)
				case 1:
					r.opApp(rowB)
				case 2:
					r.opReset()
				case 3:
					r.opPrep()
				case 4:
					r.opEnc("enc")
				default:
					r.opDec("dec.valid", 2, decBytes)
				}
				c /= A
			}
			r.emit()
			h.Stat(fmt.Sprintf("c16.exhaustive.len%d", L))
			h.Stat("c16.kind." + k.stat)
		}
	}
}

// ---------------------------------------------------------------- random part

// c16Make is c14Make (a filled column / a column that decoded its own encoding) with the values of
// c16GenRow: Go maps of several entries would be appended in iteration order, which differs from run to run
func c16Make(k *c16Kind, rows int, rr *rand.Rand, decoded bool) (col proto.Column) {
	if p := c16Guard(func() {
		c := k.freshWith("")
		for i := 0; i < rows; i++ {
			row, ok := c16GenRow(c, rr, k.spec, -1)
			if !ok {
				return
			}
			c16Apply(c, row)
		}
		if !decoded {
			col = c
			return
		}
		if pp, ok := c.(proto.Preparable); ok {
			if err := pp.Prepare(); err != nil {
				return
			}
		}
		var b proto.Buffer
		if rows > 0 {
			c.EncodeColumn(&b)
		}
		c2 := k.freshWith("")
		if rows > 0 {
			if err := c2.DecodeColumn(proto.NewReader(bytes.NewReader(b.Buf)), rows); err != nil {
				return
			}
		}
		col = c2
	}); p != "" {
		return nil
	}
	return col
}

var c16Lens = []int{1, 1, 2, 2, 3, 3, 4, 5, 6, 8, 12, 20, 29, 30, 30}

func c16Random(h *H, k *c16Kind) {
	rr := h.R
	var col proto.Column
	var start string
	n0 := rr.Intn(6)
	switch x := rr.Intn(10); {
	case x < 6:
		start = "fresh"
	case x < 8:
		start = "filled"
		col = c16Make(k, n0, rr, false)
	default:
		start = "decoded"
		col = c16Make(k, n0, rr, true)
	}
	if col == nil {
		start = "fresh"
		col = k.freshWith("")
	}
	r := c16NewHist(h, k, col, c16ReadAll(col))
	if r == nil {
		return
	}
	h.Stat("c16.start." + start)
	h.Stat("c16.kind." + k.stat)
	n := c16Lens[rr.Intn(len(c16Lens))]
	if rr.Intn(4) == 0 {
		n = 1 + rr.Intn(30)
	}
	if h.Tier != "thorough" && strings.Contains(k.name, "FixedString(512)") && n > 6 {
		// a 512-byte scalar is dumped as one 1233-digit decimal: the extracted model parses those slowly
		n = 1 + rr.Intn(6)
	}
	bigAt := -1
	if strings.Contains(k.name, "LowCardinality") && rr.Intn(8) == 0 {
		if n > 5 {
			n = 2 + rr.Intn(4)
		}
		bigAt = rr.Intn(n)
		h.Stat("c16.big")
	}
	small := func() int {
		if rr.Intn(3) == 0 {
			return rr.Intn(2)
		}
		return rr.Intn(6)
	}
	genRow := func(distinct int) (c16Row, bool) {
		s := r.spec
		if r.k.isEnum && r.inferred && len(r.oldPool) > 0 && rr.Intn(7) == 0 {
			s.strPool = r.oldPool // a value of the previous type: Prepare must reject it when it is not defined any more
		}
		return c16GenRow(r.col, rr, s, distinct)
	}
	for i := 0; i < n && !r.done; i++ {
		if i == bigAt {
			rows := 254 + rr.Intn(5)
			if k.canArr && rr.Intn(2) == 0 {
				var vs []c16Row
				for j := 0; j < rows; j++ {
					if row, ok := genRow(j); ok {
						vs = append(vs, row)
					}
				}
				r.opAppArr(vs)
			} else if w, ok := r.validBytes(rows, true); ok {
				r.opDec("dec.valid", rows, w)
			}
			continue
		}
		// app 30, apparr 8, reset 8, prep 8, enc 10, write 6, encblock 6, dec-valid 10, dec-noncanonical 3, dec-malformed 6, infer 3
		for {
			x := rr.Intn(98)
			switch {
			case x < 30:
				if row, ok := genRow(-1); ok {
					r.opApp(row)
				}
			case x < 38:
				if !k.canArr {
					continue
				}
				var vs []c16Row
				for j, m := 0, small(); j < m; j++ {
					if row, ok := genRow(-1); ok {
						vs = append(vs, row)
					}
				}
				r.opAppArr(vs)
			case x < 46:
				r.opReset()
			case x < 54:
				r.opPrep()
			case x < 64:
				r.opEnc("enc")
			case x < 70:
				r.opEnc("write")
			case x < 76:
				r.opEnc("encblock")
			case x < 86:
				rows := small()
				if w, ok := r.validBytes(rows, false); ok {
					if rr.Intn(3) == 0 {
						w = append(w, genShortBytes(rr)...)
					}
					r.opDec("dec.valid", rows, w)
				}
			case x < 89:
				if !k.lcTop {
					continue
				}
				rows := 1 + rr.Intn(5)
				if w, ok := r.nonCanonical(rows); ok {
					r.opDec("dec.noncanonical", rows, w)
				}
			case x < 95:
				if rows, w, ok := r.malformed(); ok {
					r.opDec("dec.malformed", rows, w)
				}
			default:
				if len(k.infer) == 0 {
					continue
				}
				r.opInfer(k.infer[rr.Intn(len(k.infer))])
			}
			break
		}
	}
	r.emit()
}

// once per run: a dictionary beyond 65536 entries (too long for the model transcript: direct oracle only)
func c16Huge(h *H, name string, mk func() proto.Column, gen func(i int) reflect.Value) {
	const n = 65536 + 3
	oracle := "ok"
	fail := func(s string) {
		if oracle == "ok" {
			oracle = "FAIL:" + sanitize(s)
		}
	}
	p := c16Guard(func() {
		col := mk()
		am := reflect.ValueOf(col).MethodByName("Append")
		// earlier contents, then reuse
		for i := 0; i < 300; i++ {
			am.Call([]reflect.Value{gen(i % 7)})
		}
		if err := col.(proto.Preparable).Prepare(); err != nil {
			fail("prepare failed")
		}
		col.Reset()
		for i := 0; i < n; i++ {
			am.Call([]reflect.Value{gen(i)})
		}
		am.Call([]reflect.Value{gen(0)})
		enc := func() []byte {
			if err := col.(proto.Preparable).Prepare(); err != nil {
				fail("prepare failed")
			}
			var b proto.Buffer
			col.EncodeColumn(&b)
			return b.Buf
		}
		b1 := enc()
		var sink bytes.Buffer
		w := proto.NewWriter(&sink, new(proto.Buffer))
		col.WriteColumn(w)
		if _, err := w.Flush(); err != nil || !bytes.Equal(sink.Bytes(), b1) {
			fail("re-encoding without change produced different bytes")
		}
		fr := mk()
		if err := fr.DecodeColumn(proto.NewReader(bytes.NewReader(b1)), n+1); err != nil || !c16SameCols(col, fr) {
			fail("encoding does not reflect the current rows")
		}
		// reuse for a small block, then the big one again
		small := mk()
		for i := 0; i < 3; i++ {
			reflect.ValueOf(small).MethodByName("Append").Call([]reflect.Value{gen(i + 5)})
		}
		_ = small.(proto.Preparable).Prepare()
		var sb proto.Buffer
		small.EncodeColumn(&sb)
		col.Reset()
		if err := col.DecodeColumn(proto.NewReader(bytes.NewReader(sb.Buf)), 3); err != nil || !c16SameCols(col, small) {
			fail("reset+decode differs from decode into a fresh column")
		}
		if !bytes.Equal(enc(), sb.Buf) {
			fail("encoding does not reflect the current rows")
		}
		col.Reset()
		if err := col.DecodeColumn(proto.NewReader(bytes.NewReader(b1)), n+1); err != nil || !c16SameCols(col, fr) {
			fail("reset+decode differs from decode into a fresh column")
		}
		if !bytes.Equal(enc(), b1) {
			fail("re-encoding without change produced different bytes")
		}
	})
	if p != "" {
		fail("panic in huge: " + p)
	}
	h.Emit(fmt.Sprintf("huge %s %s %d", buildName, name, n), "-", oracle)
	h.Stat("c16.huge")
}

func runC16(h *H) {
	kinds := c16Kinds(h)
	byName := map[string]*c16Kind{}
	for _, k := range kinds {
		if _, dup := byName[k.name]; !dup {
			byName[k.name] = k
		}
	}
	L := 3
	if h.N >= 20000 {
		L = 4
	}
	for _, name := range c16Stateful {
		k := byName[name]
		if k == nil {
			h.Stat("c16.exhaustive.missing")
			if h.Args["debug"] != "" {
				fmt.Fprintln(os.Stderr, "c16 exhaustive kind missing:", name)
			}
			continue
		}
		c16Exhaustive(h, k, L)
	}
	// the rest of the budget (at least a fifth of it) goes to random histories over all kinds
	rest := h.N - h.Count
	if rest < h.N/5 {
		rest = h.N / 5
	}
	target := h.Count + rest
	// half of them on the kinds with state beyond the rows (dictionaries, enum definitions, inferred settings)
	var stateful []*c16Kind
	for _, k := range kinds {
		if k.lcTop || len(k.infer) > 0 || strings.Contains(k.name, "LowCardinality") {
			stateful = append(stateful, k)
		}
	}
	for guard := 0; h.Count < target && guard < 20*h.N+1000; guard++ {
		if len(stateful) > 0 && h.R.Intn(2) == 0 {
			c16Random(h, stateful[h.R.Intn(len(stateful))])
		} else {
			c16Random(h, kinds[h.R.Intn(len(kinds))])
		}
	}
	c16Huge(h, "LowCardinality(String)", func() proto.Column { return new(proto.ColStr).LowCardinality() },
		func(i int) reflect.Value { return reflect.ValueOf("k" + strconv.Itoa(i)) })
	c16Huge(h, "LowCardinality(UInt32)", func() proto.Column { return new(proto.ColUInt32).LowCardinality() },
		func(i int) reflect.Value { return reflect.ValueOf(uint32(i) * 3) })
}
