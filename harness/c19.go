package main

// C19 — type inference is total and sound; type compatibility is symmetric.
//
// Cases (first transcript column, consumed by coq/model/GlueTy.v):
//
//	infer x<type> (zones)      ColAuto.Infer on a fresh ColAuto                  -> ok <struct of Data> x<Data.Type()> | err | crash
//	two   x<type> (zones)      two zero-row blocks through Results.Auto           -> ok x<Type() afterwards> | err | crash
//	data  x<type> (zones)      two data blocks through Results.Auto (oracle only) -> -
//	confm (x<t1> ... x<tk>)    Conflicts on every ordered pair                    -> ok <k*k letters t|f|c>
//	base  x<type>              Base and Elem                                      -> ok x<base> x<elem> | crash
//	with  x<type> (x<p>...)    With                                               -> ok x<result>
//	isarr x<type>              IsArray                                            -> ok t|f
//
// zones = time.LoadLocation tabulated on every substring of the type that ColDateTime(64).Infer could pass to it.
// Direct oracle (third column): no panic; an inferred column's Type() does not conflict with the request in either
// order; the second block of the same type is accepted; a data block decodes to the rows that were encoded;
// Conflicts is reflexive and symmetric; pairs built to be equivalent / different report so.

import (
	"bytes"
	"fmt"
	"math/rand"
	"reflect"
	"regexp"
	"sort"
	"strconv"
	"strings"
	"time"

	"github.com/ClickHouse/ch-go/proto"
)

func init() { runners["c19"] = runC19 }

const c19Version = 54451 // below FeatureCustomSerialization: no per-column flag in the block

// ---------------------------------------------------------------- generators

var c19Scalars = []string{
	"Int8", "Int16", "Int32", "Int64", "Int128", "Int256", "UInt8", "UInt16", "UInt32", "UInt64", "UInt128", "UInt256",
	"Float32", "Float64", "String", "IPv4", "IPv6", "Date", "Date32", "DateTime", "UUID", "Bool", "Nothing",
	"Decimal", "Decimal32", "Decimal64", "Decimal128", "Decimal256", "Point", "JSON", "Map(String,String)",
}
var c19Zones = []string{"UTC", "Europe/Moscow", "Europe/Berlin", "America/New_York", "Asia/Tokyo", "Local", "GMT", "Etc/GMT+3", "", "Mars/Olympus", "utc", "Europe"}
var c19Intervals = []string{"Second", "Minute", "Hour", "Day", "Week", "Month", "Quarter", "Year"}
var c19FixedSizes = []int{8, 16, 32, 64, 128, 256, 512, 0, 1, 7, 9, 10, 1024}
var c19Precs = []int{0, 1, 2, 9, 10, 11, 18, 19, 20, 38, 39, 40, 76, 77, 78, 100, -1}

func c19Spaces(r *rand.Rand) string {
	switch r.Intn(8) {
	case 0:
		return " "
	case 1:
		return "  "
	case 2:
		return "\t"
	case 3:
		return "\u00a0" // unicode.IsSpace, two bytes
	case 4:
		return "\u2003 "
	default:
		return ""
	}
}

func c19Comma(r *rand.Rand) string {
	switch r.Intn(4) {
	case 0:
		return ","
	case 1:
		return ", "
	case 2:
		return c19Spaces(r) + "," + c19Spaces(r)
	default:
		return ", "
	}
}

func c19EnumDefs(r *rand.Rand) string {
	n := 1 + r.Intn(4)
	var parts []string
	for i := 0; i < n; i++ {
		name := string(rune('a'+r.Intn(26))) + strconv.Itoa(i)
		if r.Intn(6) == 0 {
			name = "he llo" + strconv.Itoa(i)
		}
		val := i + 1
		if r.Intn(4) == 0 {
			val = -i - 1
		}
		if i == 0 && r.Intn(3) == 0 {
			val = 0 // the zero value of the raw code is a defined member
		}
		eq := "="
		if r.Intn(2) == 0 {
			eq = " = "
		}
		parts = append(parts, "'"+name+"'"+eq+strconv.Itoa(val))
	}
	return strings.Join(parts, c19Comma(r))
}

func c19Decimal(r *rand.Rand) string {
	switch r.Intn(6) {
	case 0:
		n := []string{"32", "64", "128", "256"}[r.Intn(4)]
		return "Decimal" + n + "(" + strconv.Itoa(r.Intn(10)) + ")"
	case 1:
		return "Decimal(" + strconv.Itoa(c19Precs[r.Intn(len(c19Precs))]) + ")"
	default:
		p := c19Precs[r.Intn(len(c19Precs))]
		if r.Intn(3) == 0 {
			p = 1 + r.Intn(76)
		}
		return "Decimal(" + c19Spaces(r) + strconv.Itoa(p) + c19Comma(r) + strconv.Itoa(r.Intn(10)) + ")"
	}
}

func c19Zone(r *rand.Rand) string { return c19Zones[r.Intn(len(c19Zones))] }

func c19DateTime(r *rand.Rand) string {
	switch r.Intn(6) {
	case 0:
		return "DateTime"
	case 1:
		return "DateTime(" + c19Zone(r) + ")"
	case 2:
		p := r.Intn(11)
		return "DateTime64(" + strconv.Itoa(p) + ")"
	case 3:
		p := r.Intn(10)
		return "DateTime64(" + strconv.Itoa(p) + c19Comma(r) + "'" + c19Zone(r) + "'" + ")"
	case 4:
		return "DateTime64('" + strconv.Itoa(r.Intn(10)) + "'" + c19Comma(r) + c19Zone(r) + ")"
	default:
		return "DateTime('" + c19Zone(r) + "')"
	}
}

// c19Type generates a type string of the ClickHouse grammar: every base ch-go knows, every legal parameterisation,
// compositions to the given depth.
func c19Type(r *rand.Rand, depth int) string {
	if depth > 0 && r.Intn(3) != 0 {
		switch r.Intn(9) {
		case 0, 1, 2:
			return "Array(" + c19Type(r, depth-1) + ")"
		case 3, 4:
			return "Nullable(" + c19Type(r, depth-1) + ")"
		case 5, 6:
			return "LowCardinality(" + c19Type(r, depth-1) + ")"
		case 7:
			return "Map(" + c19Type(r, depth-1) + c19Comma(r) + c19Type(r, depth-1) + ")"
		default:
			n := 1 + r.Intn(3)
			var parts []string
			for i := 0; i < n; i++ {
				p := c19Type(r, depth-1)
				if r.Intn(3) == 0 {
					p = "f" + strconv.Itoa(i) + " " + p
				}
				parts = append(parts, p)
			}
			base := "Tuple"
			if r.Intn(5) == 0 {
				base = "Nested"
			}
			return base + "(" + strings.Join(parts, c19Comma(r)) + ")"
		}
	}
	switch r.Intn(12) {
	case 0:
		return "FixedString(" + strconv.Itoa(c19FixedSizes[r.Intn(len(c19FixedSizes))]) + ")"
	case 1:
		return c19Decimal(r)
	case 2, 3:
		return c19DateTime(r)
	case 4:
		w := "8"
		if r.Intn(2) == 0 {
			w = "16"
		}
		return "Enum" + w + "(" + c19EnumDefs(r) + ")"
	case 5:
		return "Interval" + c19Intervals[r.Intn(len(c19Intervals))]
	default:
		return c19Scalars[r.Intn(len(c19Scalars))]
	}
}

var c19Junk = []string{"(", ")", ",", "'", " ", "=", "0", "9", "-", "+", "()", "((", "))", ")(", ", ", "\x00", "\xff", "\u00a0", "\u2003", "\xe2\x80", "A", "a"}

// c19Malformed: unbalanced or empty parentheses, missing or non-numeric parameters, unknown bases, case changes,
// arbitrary bytes.
func c19Malformed(r *rand.Rand) string {
	t := c19Type(r, r.Intn(3))
	switch r.Intn(15) {
	case 14:
		return c19Tiny(r)
	case 0: // arbitrary bytes
		return string(genBytes(r))
	case 1: // truncate
		if len(t) > 0 {
			return t[:r.Intn(len(t))]
		}
	case 2: // drop one byte
		if len(t) > 0 {
			i := r.Intn(len(t))
			return t[:i] + t[i+1:]
		}
	case 3: // insert junk
		i := r.Intn(len(t) + 1)
		return t[:i] + c19Junk[r.Intn(len(c19Junk))] + t[i:]
	case 4: // replace one byte
		if len(t) > 0 {
			i := r.Intn(len(t))
			return t[:i] + c19Junk[r.Intn(len(c19Junk))] + t[i+1:]
		}
	case 5: // empty / missing parameters
		bases := []string{"Array", "Nullable", "LowCardinality", "Decimal", "Decimal32", "DateTime", "DateTime64", "Enum8", "Enum16", "FixedString", "Map", "Tuple", "Interval"}
		b := bases[r.Intn(len(bases))]
		return b + []string{"()", "(", ")", "(,)", "( )", "((", "(())", "", "(,", "('')", "(')"}[r.Intn(11)]
	case 6: // non-numeric parameters
		bases := []string{"Decimal", "Decimal64", "DateTime64", "FixedString"}
		ps := []string{"x", "1x", "0x10", "1e3", "+5", "-5", " 5 ", "\u0663", "9223372036854775807", "9223372036854775808", "-9223372036854775808", "-9223372036854775809", "00000000000000000000009", "1_0", "", "255", "256", "007"}
		return bases[r.Intn(len(bases))] + "(" + ps[r.Intn(len(ps))] + []string{"", ", 2", ",'UTC'", ","}[r.Intn(4)] + ")"
	case 7: // unknown base / case changes
		switch r.Intn(4) {
		case 0:
			return strings.ToLower(t)
		case 1:
			return strings.ToUpper(t)
		case 2:
			return "Foo(" + t + ")"
		default:
			return "Interval" + []string{"WEEK", "week", "Wee\u212a", "M\u0130nute", "second", "SECOND", "Fortnight", "", "Week "}[r.Intn(9)]
		}
	case 8: // trailing / leading garbage
		if r.Intn(2) == 0 {
			return t + c19Junk[r.Intn(len(c19Junk))]
		}
		return c19Junk[r.Intn(len(c19Junk))] + t
	case 9: // enum definitions gone wrong
		w := []string{"8", "16", "32", ""}[r.Intn(4)]
		ds := []string{"'a'", "'a'=", "'a'=x", "=1", "'a'=1,", ",'a'=1", "'a'=1,,'b'=2", "'a'==1", "'a,b'=1", "'a'=1='b'", "a=1", "'a' = +1", "'a'=99999999999999999999"}
		if r.Intn(2) == 0 {
			// generated: every combination of oddly quoted names (a lone quote, an empty name, a half-quoted or doubly
			// quoted one), separators and values, one to three definitions
			names := []string{"'", "''", "'a", "a'", "'a'", "\"a\"", "", " ", "'\\''", "'a\\'", "''a''", "' '", "'''", "' a '", "'='", "','"}
			eqs := []string{"=", " = ", "= ", " =", "==", ""}
			vals := []string{"1", "-1", "x", "", "+1", " 1 ", "127", "128", "-129", "32768", "0"}
			var parts []string
			for k := 1 + r.Intn(3); k > 0; k-- {
				parts = append(parts, names[r.Intn(len(names))]+eqs[r.Intn(len(eqs))]+vals[r.Intn(len(vals))])
			}
			return "Enum" + w + "(" + strings.Join(parts, c19Comma(r)) + ")"
		}
		return "Enum" + w + "(" + ds[r.Intn(len(ds))] + ")"
	case 10: // parentheses swapped
		return strings.NewReplacer("(", ")", ")", "(").Replace(t)
	case 11: // wrapper around something unsupported or malformed
		return []string{"Array", "Nullable", "LowCardinality"}[r.Intn(3)] + "(" + c19Malformed(r) + ")"
	case 12: // zone arguments with odd quoting
		return "DateTime" + []string{"", "64"}[r.Intn(2)] + "(" + []string{"'", "''", "'UTC", "UTC'", "'UTC''", " 'UTC' ", "3,", "3,'", "3, ''", "3,'UTC',1", "'3','UTC'", "3 , UTC"}[r.Intn(12)] + ")"
	}
	return t + ")"
}

// c19Tiny: short strings over the alphabet the slicing in Base/Elem looks at (positions 0 and 1 of each
// parenthesis, empty contents, reversed order).
func c19Tiny(r *rand.Rand) string {
	alpha := []string{"(", ")", "(", ")", "a", "Int8", "Array", ",", " ", "Decimal", "1"}
	n := r.Intn(7)
	var sb strings.Builder
	for i := 0; i < n; i++ {
		sb.WriteString(alpha[r.Intn(len(alpha))])
	}
	return sb.String()
}

func c19Deep(r *rand.Rand, depth int) string {
	ws := []string{"Array(", "Nullable(", "LowCardinality("}
	var sb strings.Builder
	closers := 0
	for i := 0; i < depth; i++ {
		sb.WriteString(ws[r.Intn(3)])
		closers++
	}
	sb.WriteString(c19Scalars[r.Intn(len(c19Scalars))])
	switch r.Intn(4) {
	case 0:
		closers -= r.Intn(closers + 1) // unbalanced
	case 1:
		closers += r.Intn(3)
	}
	sb.WriteString(strings.Repeat(")", closers))
	return sb.String()
}

// ---------------------------------------------------------------- zone oracle table

func c19ZoneTable(t string) string {
	seen := map[string]bool{}
	var rows []string
	add := func(q string) {
		if seen[q] {
			return
		}
		seen[q] = true
		if loc, err := time.LoadLocation(q); err == nil {
			rows = append(rows, sx(hx([]byte(q)), hx([]byte(loc.String()))))
		}
	}
	limit := len(t)
	if len(t) > 200 {
		limit = 64
	}
	for i := 0; i < len(t); i++ {
		if t[i] != '(' && t[i] != ',' {
			continue
		}
		for j := i + 1; j < len(t) && j-i <= limit+1; j++ {
			if t[j] != ')' {
				continue
			}
			sub := t[i+1 : j]
			add(strings.Trim(sub, "'"))
			add(strings.Trim(sub, "' "))
		}
	}
	return "(" + strings.Join(rows, " ") + ")"
}

// ---------------------------------------------------------------- observations

func c19StructName(c proto.Column) string {
	s := fmt.Sprintf("%T", c)
	s = strings.TrimPrefix(s, "*")
	s = strings.TrimPrefix(s, "proto.")
	if i := strings.IndexByte(s, '['); i >= 0 {
		s = s[:i]
	}
	return s
}

// c19Infer runs ColAuto.Infer on a fresh ColAuto under recover.
func c19Infer(t string) (col proto.Column, obs string) {
	defer func() {
		if p := recover(); p != nil {
			col, obs = nil, "crash "+strings.ReplaceAll(fmt.Sprint(p), "\n", " ")
			if len(obs) > 200 {
				obs = obs[:200]
			}
			obs = strings.Map(func(r rune) rune {
				if r == '\t' || r == '\n' {
					return ' '
				}
				return r
			}, obs)
		}
	}()
	var a proto.ColAuto
	if err := a.Infer(proto.ColumnType(t)); err != nil {
		return nil, "err"
	}
	if a.Data == nil {
		return nil, "crash nil Data after a successful Infer"
	}
	return a.Data, "ok " + c19StructName(a.Data) + " " + hx([]byte(a.Data.Type()))
}

// c19Idents: a dictionary of identifiers a type string could be mistaken for when a name from the wire selects code:
// the exported method and field names of every column ColAuto builds (collected by reflection from the code under
// test), Go keywords and predeclared names, and the library's own type-name constants in other cases.
func c19Idents() []string {
	seen := map[string]bool{}
	var out []string
	add := func(n string) {
		if n != "" && !seen[n] {
			seen[n] = true
			out = append(out, n)
		}
	}
	var ts []string
	ts = append(ts, c19Scalars...)
	ts = append(ts, "DateTime64(3)", "DateTime('UTC')", "Enum8('a' = 1)", "Enum16('a' = 1)", "FixedString(4)", "Decimal(10, 2)", "IntervalDay")
	for _, t := range ts {
		for _, w := range []string{"", "Array", "Nullable", "LowCardinality"} {
			tt := t
			if w != "" {
				tt = w + "(" + t + ")"
			}
			col, _ := c19Infer(tt)
			if col == nil {
				continue
			}
			rt := reflect.TypeOf(col)
			for i := 0; i < rt.NumMethod(); i++ {
				add(rt.Method(i).Name)
			}
			if rt.Kind() == reflect.Ptr && rt.Elem().Kind() == reflect.Struct {
				for i := 0; i < rt.Elem().NumField(); i++ {
					add(rt.Elem().Field(i).Name)
				}
			}
		}
	}
	for _, n := range []string{"String", "Error", "GoString", "Len", "Cap", "nil", "len", "func", "type", "interface", "struct", "map", "array", "nullable",
		"lowcardinality", "ARRAY", "tuple", "Nested", "Variant", "Dynamic", "Object", "SimpleAggregateFunction", "AggregateFunction", "Ring", "Polygon", "MultiPolygon"} {
		add(n)
	}
	sort.Strings(out)
	return out
}

func c19Header(t string) []byte {
	var b proto.Buffer
	b.PutString("c")
	b.PutString(t)
	return b.Buf
}

// c19Blocks decodes the same block twice through Results.Auto.
func c19Blocks(block []byte, rows int) (res proto.Results, errs [2]error, crash string) {
	defer func() {
		if p := recover(); p != nil {
			crash = strings.ReplaceAll(fmt.Sprint(p), "\n", " ")
		}
	}()
	for i := 0; i < 2; i++ {
		r := proto.NewReader(bytes.NewReader(block))
		errs[i] = res.Auto().DecodeResult(r, c19Version, proto.Block{Columns: 1, Rows: rows})
		if errs[i] != nil {
			return
		}
	}
	return
}

func c19Clean(s string) string {
	s = strings.Map(func(r rune) rune {
		if r == '\t' || r == '\n' || r == '\r' {
			return ' '
		}
		return r
	}, s)
	if len(s) > 300 {
		s = s[:300]
	}
	return s
}

// ---------------------------------------------------------------- values for data blocks

var c19TimeType = reflect.TypeOf(time.Time{})

func c19Value(r *rand.Rand, t reflect.Type) reflect.Value {
	v := reflect.New(t).Elem()
	if t == c19TimeType {
		// whole days, so that Date, Date32, DateTime and DateTime64 all hold the value exactly
		v.Set(reflect.ValueOf(time.Unix(86400*int64(r.Intn(20000)), 0).UTC()))
		return v
	}
	switch t.Kind() {
	case reflect.Bool:
		v.SetBool(r.Intn(2) == 0)
	case reflect.Int, reflect.Int8, reflect.Int16, reflect.Int32, reflect.Int64:
		x := int64(r.Uint64())
		if r.Intn(3) == 0 {
			x = int64(r.Intn(3)) - 1
		}
		v.SetInt(x) // truncated to the kind's width by reflect? no: SetInt panics on overflow only for OverflowInt check by caller
		if v.OverflowInt(x) {
			bits := uint(t.Bits())
			x = x << (64 - bits) >> (64 - bits)
			v.SetInt(x)
		}
	case reflect.Uint, reflect.Uint8, reflect.Uint16, reflect.Uint32, reflect.Uint64:
		x := r.Uint64()
		if r.Intn(3) == 0 {
			x = uint64(r.Intn(3))
		}
		bits := uint(t.Bits())
		if bits < 64 {
			x &= (1 << bits) - 1
		}
		v.SetUint(x)
	case reflect.Float32, reflect.Float64:
		v.SetFloat(float64(r.Intn(2000)-1000) / 8)
	case reflect.String:
		v.SetString(string(genShortBytes(r)))
	case reflect.Slice:
		n := r.Intn(4)
		s := reflect.MakeSlice(t, n, n)
		for i := 0; i < n; i++ {
			s.Index(i).Set(c19Value(r, t.Elem()))
		}
		v.Set(s)
	case reflect.Array:
		for i := 0; i < t.Len(); i++ {
			v.Index(i).Set(c19Value(r, t.Elem()))
		}
	case reflect.Map:
		n := r.Intn(3)
		m := reflect.MakeMapWithSize(t, n)
		for i := 0; i < n; i++ {
			m.SetMapIndex(c19Value(r, t.Key()), c19Value(r, t.Elem()))
		}
		v.Set(m)
	case reflect.Struct:
		for i := 0; i < t.NumField(); i++ {
			if t.Field(i).IsExported() {
				v.Field(i).Set(c19Value(r, t.Field(i).Type))
			}
		}
	}
	return v
}

// c19Fmt prints a row value; instants are printed as Unix seconds (the zone of a time.Time is presentation only).
func c19Fmt(v reflect.Value) string {
	if v.Type() == c19TimeType {
		return "@" + strconv.FormatInt(v.Interface().(time.Time).Unix(), 10)
	}
	switch v.Kind() {
	case reflect.Slice, reflect.Array:
		if v.Type().Elem().Kind() == reflect.Uint8 {
			return fmt.Sprintf("%x", v.Interface())
		}
		var parts []string
		for i := 0; i < v.Len(); i++ {
			parts = append(parts, c19Fmt(v.Index(i)))
		}
		return "[" + strings.Join(parts, " ") + "]"
	case reflect.Struct:
		var parts []string
		for i := 0; i < v.NumField(); i++ {
			if v.Type().Field(i).IsExported() {
				parts = append(parts, c19Fmt(v.Field(i)))
			}
		}
		return "{" + strings.Join(parts, " ") + "}"
	case reflect.Map:
		return fmt.Sprintf("%v", v.Interface()) // fmt sorts map keys
	}
	return fmt.Sprintf("%v", v.Interface())
}

var c19Quoted = regexp.MustCompile(`'([^']*)'`)

// c19Fill appends n generated rows to a column created by ColAuto.Infer.
func c19Fill(r *rand.Rand, col proto.Column, t string, n int) (ok bool) {
	defer func() {
		if p := recover(); p != nil {
			ok = false
		}
	}()
	switch c := col.(type) {
	case *proto.ColEnum:
		names := c19Quoted.FindAllStringSubmatch(t, -1)
		if len(names) == 0 {
			return false
		}
		for i := 0; i < n; i++ {
			c.Append(names[r.Intn(len(names))][1])
		}
		return true
	case *proto.ColInterval:
		for i := 0; i < n; i++ {
			c.Append(proto.Interval{Scale: c.Scale, Value: int64(r.Intn(1000)) - 500})
		}
		return true
	}
	m := reflect.ValueOf(col).MethodByName("Append")
	if !m.IsValid() || m.Type().NumIn() != 1 {
		return false
	}
	pt := m.Type().In(0)
	for i := 0; i < n; i++ {
		m.Call([]reflect.Value{c19Value(r, pt)})
	}
	return true
}

func c19Encode(col proto.Column) (data []byte, err error) {
	defer func() {
		if p := recover(); p != nil {
			err = fmt.Errorf("panic: %v", p)
		}
	}()
	if p, ok := col.(proto.Preparable); ok {
		if err := p.Prepare(); err != nil {
			return nil, err
		}
	}
	var b proto.Buffer
	if col.Rows() > 0 {
		if s, ok := col.(proto.StateEncoder); ok {
			s.EncodeState(&b)
		}
	}
	col.EncodeColumn(&b)
	return b.Buf, nil
}

func c19Rows(col any, n int) (out []string, err error) {
	defer func() {
		if p := recover(); p != nil {
			err = fmt.Errorf("panic in Row: %v", p)
		}
	}()
	m := reflect.ValueOf(col).MethodByName("Row")
	if !m.IsValid() {
		return nil, fmt.Errorf("no Row method")
	}
	for i := 0; i < n; i++ {
		out = append(out, c19Fmt(m.Call([]reflect.Value{reflect.ValueOf(i)})[0]))
	}
	return out, nil
}

// ---------------------------------------------------------------- cases

func c19CaseInfer(h *H, t string, compare bool, kind string) {
	col, obs := c19Infer(t)
	oracle := "ok"
	switch {
	case strings.HasPrefix(obs, "crash"):
		oracle = "FAIL:infer-panic " + c19Clean(obs)
		obs = "crash"
	case col != nil:
		has := col.Type()
		if proto.ColumnType(t).Conflicts(has) || has.Conflicts(proto.ColumnType(t)) {
			oracle = "FAIL:infer-conflict created " + c19StructName(col) + " whose Type() " + c19Clean(strconv.Quote(string(has))) + " conflicts with the request " + c19Clean(strconv.Quote(t))
		}
		h.Stat("infer-ok-" + kind)
		h.Stat("struct-" + c19StructName(col))
	default:
		h.Stat("infer-err-" + kind)
	}
	if !compare {
		obs = "-"
	}
	h.Emit("infer "+hx([]byte(t))+" "+c19ZoneTable(t), obs, oracle)
}

func c19CaseTwo(h *H, t string) {
	col, iobs := c19Infer(t)
	res, errs, crash := c19Blocks(c19Header(t), 0)
	obs, oracle := "err", "ok"
	switch {
	case crash != "":
		obs, oracle = "crash", "FAIL:auto-panic "+c19Clean(crash)
	case errs[0] == nil && errs[1] == nil:
		if len(res) != 1 {
			oracle = "FAIL:auto-result-count " + strconv.Itoa(len(res))
		} else {
			obs = "ok " + hx([]byte(res[0].Data.Type()))
		}
		h.Stat("two-ok")
	case errs[0] == nil && errs[1] != nil:
		oracle = "FAIL:second-block-rejected " + c19Clean(strconv.Quote(t)) + ": " + c19Clean(errs[1].Error())
	default:
		h.Stat("two-err")
	}
	if (col != nil) != (errs[0] == nil) && crash == "" && !strings.HasPrefix(iobs, "crash") {
		oracle = "FAIL:auto-disagrees-with-infer " + c19Clean(strconv.Quote(t))
	}
	h.Emit("two "+hx([]byte(t))+" "+c19ZoneTable(t), obs, oracle)
}

func c19CaseData(h *H, t string) {
	src, _ := c19Infer(t)
	if src == nil {
		h.Stat("data-not-inferable")
		return
	}
	n := 1 + h.R.Intn(5)
	if !c19Fill(h.R, src, t, n) || src.Rows() != n {
		h.Stat("data-skip-fill-" + c19StructName(src))
		return
	}
	want, err := c19Rows(src, n)
	if err != nil {
		h.Stat("data-skip-rows")
		return
	}
	data, err := c19Encode(src)
	if err != nil {
		h.Stat("data-skip-encode")
		return
	}
	block := append(c19Header(t), data...)
	res, errs, crash := c19Blocks(block, n)
	oracle := "ok"
	switch {
	case crash != "":
		oracle = "FAIL:data-panic " + c19Clean(crash)
	case errs[0] != nil:
		oracle = "FAIL:data-first-block " + c19Clean(strconv.Quote(t)) + ": " + c19Clean(errs[0].Error())
	case errs[1] != nil:
		oracle = "FAIL:data-second-block " + c19Clean(strconv.Quote(t)) + ": " + c19Clean(errs[1].Error())
	case len(res) != 1 || res[0].Data.Rows() != n:
		oracle = "FAIL:data-rows " + c19Clean(strconv.Quote(t))
	default:
		got, err := c19Rows(res[0].Data, n)
		if err != nil {
			oracle = "FAIL:data-row-access " + c19Clean(err.Error())
		} else if strings.Join(got, "\x00") != strings.Join(want, "\x00") {
			oracle = "FAIL:data-values-differ " + c19Clean(strconv.Quote(t)) + " want " + c19Clean(strings.Join(want, "|")) + " got " + c19Clean(strings.Join(got, "|"))
		}
	}
	h.Stat("data-" + c19StructName(src))
	h.Emit("data "+hx([]byte(t))+" "+c19ZoneTable(t), "-", oracle)
}

// c19CaseReinfer: inference does not depend on what the column was inferred as before.  A column ColAuto built for t1
// is told t2 through its own Infer (what ColAuto and Results do when a block of a non-conflicting type arrives); where
// that succeeds and a fresh inference of t2 builds the same kind of column, the used column must report the type the
// fresh one reports and decode data of t2 to the rows the fresh one decodes.
func c19CaseReinfer(h *H, t1, t2 string) {
	caseLine := "reinfer " + hx([]byte(t1)) + " " + hx([]byte(t2))
	used, _ := c19Infer(t1)
	fresh, _ := c19Infer(t2)
	src, _ := c19Infer(t2)
	if used == nil || fresh == nil || src == nil || reflect.TypeOf(used) != reflect.TypeOf(fresh) {
		h.Stat("reinfer-skip-kind")
		return
	}
	inf, ok := used.(proto.Inferable)
	if !ok {
		h.Stat("reinfer-skip-not-inferable")
		return
	}
	oracle := "ok"
	crash := c19Safe(func() {
		if h.R.Intn(2) == 0 {
			// the column has held data of its first type
			if c19Fill(h.R, used, t1, 3) {
				if _, err := c19Encode(used); err != nil {
					used.Reset()
				}
			}
			used.Reset()
		}
		if err := inf.Infer(proto.ColumnType(t2)); err != nil {
			h.Stat("reinfer-refused")
			oracle = "-"
			return
		}
		if got, want := used.Type(), fresh.Type(); got != want {
			oracle = "FAIL:reinfer-type: inferred as " + c19Clean(strconv.Quote(t1)) + " and then as " + c19Clean(strconv.Quote(t2)) + " the column reports " + c19Clean(strconv.Quote(string(got))) + ", a fresh one " + c19Clean(strconv.Quote(string(want)))
			return
		}
		n := 1 + h.R.Intn(4)
		if !c19Fill(h.R, src, t2, n) || src.Rows() != n {
			h.Stat("reinfer-skip-fill")
			return
		}
		data, err := c19Encode(src)
		if err != nil {
			h.Stat("reinfer-skip-encode")
			return
		}
		dec := func(c proto.Column) ([]string, error) {
			c.Reset()
			r := proto.NewReader(bytes.NewReader(data))
			if n > 0 {
				if st, ok := c.(proto.StateDecoder); ok {
					if err := st.DecodeState(r); err != nil {
						return nil, err
					}
				}
			}
			if err := c.DecodeColumn(r, n); err != nil {
				return nil, err
			}
			if c.Rows() != n {
				return nil, fmt.Errorf("%d rows after decoding %d", c.Rows(), n)
			}
			return c19Rows(c, n)
		}
		want, err := dec(fresh)
		if err != nil {
			h.Stat("reinfer-skip-fresh-decode")
			return
		}
		got, err := dec(used)
		switch {
		case err != nil:
			oracle = "FAIL:reinfer-decode: inferred as " + c19Clean(strconv.Quote(t1)) + " and then as " + c19Clean(strconv.Quote(t2)) + " the column does not decode what a fresh one decodes: " + c19Clean(err.Error())
		case strings.Join(got, "\x00") != strings.Join(want, "\x00"):
			oracle = "FAIL:reinfer-values: inferred as " + c19Clean(strconv.Quote(t1)) + " and then as " + c19Clean(strconv.Quote(t2)) + " the column decodes " + c19Clean(strings.Join(got, "|")) + ", a fresh one " + c19Clean(strings.Join(want, "|"))
		}
		h.Stat("reinfer-compared")
	})
	if crash != "" {
		oracle = "FAIL:reinfer-panic " + c19Clean(crash)
	}
	if oracle != "-" {
		h.Emit(caseLine, "-", oracle)
	}
}

// c19ReinferPairs: types that differ in parameters only (what Conflicts lets through to a column's Infer)
func c19ReinferPairs(r *rand.Rand) (string, string) {
	defs := []string{"'a' = 1, 'b' = 2", "'a' = 1, 'b' = 2", "'c' = 1, 'd' = 2", "'a'=1,'b'=2", "'x' = -5, 'y' = 100, 'z' = 7", "'b' = 1, 'a' = 2"}
	leaf := func() (string, string) {
		switch r.Intn(5) {
		case 0, 1:
			w := func() string { return []string{"Enum8", "Enum16"}[r.Intn(2)] }
			return w() + "(" + defs[r.Intn(len(defs))] + ")", w() + "(" + defs[r.Intn(len(defs))] + ")"
		case 2:
			return c19DateTime(r), c19DateTime(r)
		case 3:
			z := func() string { return []string{"", ", 'UTC'", ", 'Europe/Moscow'", ",'Asia/Tokyo'"}[r.Intn(4)] }
			return "DateTime64(" + strconv.Itoa(r.Intn(10)) + z() + ")", "DateTime64(" + strconv.Itoa(r.Intn(10)) + z() + ")"
		}
		return "FixedString(" + strconv.Itoa(1+r.Intn(9)) + ")", "FixedString(" + strconv.Itoa(1+r.Intn(9)) + ")"
	}
	a, b := leaf()
	if r.Intn(3) == 0 {
		w := []string{"Array", "Nullable", "Array(Array"}[r.Intn(3)]
		cl := strings.Repeat(")", strings.Count(w, "(")+1)
		return w + "(" + a + cl, w + "(" + b + cl
	}
	return a, b
}

func c19Conf(a, b string) (letter byte) {
	defer func() {
		if p := recover(); p != nil {
			letter = 'c'
		}
	}()
	if proto.ColumnType(a).Conflicts(proto.ColumnType(b)) {
		return 't'
	}
	return 'f'
}

// c19CaseMatrix: Conflicts on all ordered pairs of the pool; expect[i][j] (0 = unknown) is what the pair was built to give.
func c19CaseMatrix(h *H, pool []string, expect map[[2]int]byte) {
	k := len(pool)
	m := make([]byte, 0, k*k)
	for i := 0; i < k; i++ {
		for j := 0; j < k; j++ {
			m = append(m, c19Conf(pool[i], pool[j]))
		}
	}
	oracle := "ok"
	for i := 0; i < k && oracle == "ok"; i++ {
		for j := 0; j < k; j++ {
			x, y := m[i*k+j], m[j*k+i]
			q := c19Clean(strconv.Quote(pool[i])) + " vs " + c19Clean(strconv.Quote(pool[j]))
			switch {
			case x == 'c':
				oracle = "FAIL:conflicts-panic " + q
			case i == j && x != 'f':
				oracle = "FAIL:conflicts-not-reflexive " + q
			case x != y:
				oracle = "FAIL:conflicts-not-symmetric " + q
			}
			if e, ok := expect[[2]int{i, j}]; ok && oracle == "ok" && x != e {
				if e == 'f' {
					oracle = "FAIL:documented-equivalence-reported-as-conflict " + q
				} else {
					oracle = "FAIL:different-types-reported-as-compatible " + q
				}
			}
			if oracle != "ok" {
				break
			}
		}
	}
	var items []string
	for _, p := range pool {
		items = append(items, hx([]byte(p)))
	}
	h.Stat("pairs-" + strconv.Itoa(k*k))
	h.Emit("confm ("+strings.Join(items, " ")+")", "ok "+string(m), oracle)
}

// c19Respace rewrites the spacing after commas (and only there).
func c19Respace(r *rand.Rand, t string) string {
	parts := strings.Split(t, ",")
	for i := range parts {
		parts[i] = strings.TrimLeft(parts[i], " ")
	}
	var sb strings.Builder
	for i, p := range parts {
		if i > 0 {
			sb.WriteString("," + strings.Repeat(" ", r.Intn(3)))
		}
		sb.WriteString(p)
	}
	return sb.String()
}

var c19DecRe = regexp.MustCompile(`Decimal\(\s*(-?[0-9]+)`)

// c19LegalDecimals: every Decimal(P, ...) inside t has a legal precision (1..76).
func c19LegalDecimals(t string) bool {
	for _, m := range c19DecRe.FindAllStringSubmatch(t, -1) {
		p, err := strconv.Atoi(m[1])
		if err != nil || p < 1 || p > 76 {
			return false
		}
	}
	return true
}

func c19DecClass(p int) string {
	switch {
	case p >= 1 && p < 10:
		return "Decimal32"
	case p < 19:
		return "Decimal64"
	case p < 39:
		return "Decimal128"
	default:
		return "Decimal256"
	}
}

// c19EquivPair builds a pair with a known answer: 'f' = documented equivalence, 't' = must conflict.
func c19EquivPair(r *rand.Rand) (a, b string, e byte, kind string) {
	switch r.Intn(9) {
	case 0: // enum and its underlying integer
		w := []string{"8", "16"}[r.Intn(2)]
		a = "Enum" + w + "(" + c19EnumDefs(r) + ")"
		switch r.Intn(4) {
		case 0:
			return a, "Int" + map[string]string{"8": "16", "16": "8"}[w], 't', "enum-other-int"
		case 1:
			return a, "Enum" + w + "(" + c19EnumDefs(r) + ")", 'f', "enum-enum"
		case 2:
			return a, "UInt" + w, 't', "enum-uint"
		}
		return a, "Int" + w, 'f', "enum-int"
	case 1: // decimal aliases by precision
		p := 1 + r.Intn(76)
		if r.Intn(2) == 0 {
			p = []int{1, 9, 10, 18, 19, 38, 39, 76}[r.Intn(8)]
		}
		a = "Decimal(" + strconv.Itoa(p) + c19Comma(r) + strconv.Itoa(r.Intn(p+1)) + ")"
		cls := c19DecClass(p)
		switch r.Intn(4) {
		case 0:
			others := []string{"Decimal32", "Decimal64", "Decimal128", "Decimal256"}
			o := others[r.Intn(4)]
			if o == cls {
				return a, o, 'f', "decimal-alias"
			}
			return a, o, 't', "decimal-other-class"
		case 1:
			return a, cls + "(" + strconv.Itoa(r.Intn(9)) + ")", 'f', "decimal-alias-scale"
		case 2:
			q := 1 + r.Intn(76)
			b = "Decimal(" + strconv.Itoa(q) + ", " + strconv.Itoa(r.Intn(q+1)) + ")"
			if c19DecClass(q) == cls {
				return a, b, 'f', "decimal-same-class"
			}
			return a, b, 't', "decimal-other-class"
		}
		return a, cls, 'f', "decimal-alias"
	case 2: // spacing after commas
		for i := 0; i < 20; i++ {
			a = c19Type(r, 1+r.Intn(3))
			if strings.Contains(a, ",") && !strings.ContainsAny(a, "\t\u00a0\u2003") && c19LegalDecimals(a) {
				break
			}
			a = "Map(String,String)"
		}
		a = c19Respace(r, a)
		return a, c19Respace(r, a), 'f', "comma-spacing"
	case 3: // time zones
		z1, z2 := c19Zone(r), c19Zone(r)
		if r.Intn(2) == 0 {
			a = "DateTime('" + z1 + "')"
			b = []string{"DateTime('" + z2 + "')", "DateTime"}[r.Intn(2)]
		} else {
			a = "DateTime64(" + strconv.Itoa(r.Intn(10)) + ", '" + z1 + "')"
			b = []string{"DateTime64(" + strconv.Itoa(r.Intn(10)) + ", '" + z2 + "')", "DateTime64(" + strconv.Itoa(r.Intn(10)) + ")"}[r.Intn(2)]
		}
		return a, b, 'f', "timezone"
	case 4, 5: // element-wise
		a, b, e, kind = c19EquivPair(r)
		w := []string{"Array", "Nullable", "LowCardinality"}[r.Intn(3)]
		return w + "(" + a + ")", w + "(" + b + ")", e, "wrapped-" + kind
	case 6: // different wrappers
		ws := []string{"Array", "Nullable", "LowCardinality"}
		i := r.Intn(3)
		t := c19Type(r, 1)
		return ws[i] + "(" + t + ")", ws[(i+1+r.Intn(2))%3] + "(" + t + ")", 't', "different-wrapper"
	default: // different bases
		plain := []string{"Int8", "Int16", "Int32", "Int64", "UInt8", "UInt16", "UInt32", "UInt64", "Float32", "Float64", "String", "IPv4", "IPv6", "Date", "Date32", "DateTime", "UUID", "Bool", "Nothing", "Point", "FixedString(8)", "DateTime64(3)", "Map(String,String)", "IntervalDay", "Int128", "UInt256"}
		i := r.Intn(len(plain))
		j := (i + 1 + r.Intn(len(plain)-1)) % len(plain)
		return plain[i], plain[j], 't', "different-base"
	}
}

func c19Pool(r *rand.Rand, k int) []string {
	var pool []string
	for len(pool) < k {
		switch r.Intn(7) {
		case 6:
			t := c19Tiny(r)
			pool = append(pool, t, c19Respace(r, t))
		case 0:
			pool = append(pool, c19Malformed(r))
		case 1:
			a, b, _, _ := c19EquivPair(r)
			pool = append(pool, a, b)
		case 2:
			if len(pool) > 0 { // a variant of something already there
				t := pool[r.Intn(len(pool))]
				switch r.Intn(3) {
				case 0:
					t = c19Respace(r, t)
				case 1:
					t = []string{"Array", "Nullable", "LowCardinality"}[r.Intn(3)] + "(" + t + ")"
				default:
					if len(t) > 0 {
						i := r.Intn(len(t))
						t = t[:i] + c19Junk[r.Intn(len(c19Junk))] + t[i:]
					}
				}
				pool = append(pool, t)
			}
		default:
			pool = append(pool, c19Type(r, r.Intn(4)))
		}
	}
	return pool[:k]
}

func c19Safe(f func()) (crash string) {
	defer func() {
		if p := recover(); p != nil {
			crash = c19Clean(fmt.Sprint(p))
		}
	}()
	f()
	return ""
}

func c19CaseMisc(h *H, t string) {
	ct := proto.ColumnType(t)
	switch h.R.Intn(3) {
	case 0:
		var b, e proto.ColumnType
		crash := c19Safe(func() { b, e = ct.Base(), ct.Elem() })
		if crash != "" {
			h.Emit("base "+hx([]byte(t)), "crash", "FAIL:base-elem-panic "+c19Clean(strconv.Quote(t))+" "+crash)
			return
		}
		oracle := "ok"
		if !strings.HasPrefix(t, string(b)) || !strings.Contains(t, string(e)) {
			oracle = "FAIL:base-elem-not-substrings " + c19Clean(strconv.Quote(t))
		}
		h.Emit("base "+hx([]byte(t)), "ok "+hx([]byte(b))+" "+hx([]byte(e)), oracle)
	case 1:
		n := h.R.Intn(4)
		var ps, items []string
		for i := 0; i < n; i++ {
			p := c19Type(h.R, 1)
			ps = append(ps, p)
			items = append(items, hx([]byte(p)))
		}
		got := ct.With(ps...)
		oracle := "ok"
		if n > 0 && t != "" && !strings.ContainsAny(t, "()") {
			// With then Base/Elem gives the pieces back
			if got.Base() != ct || string(got.Elem()) != strings.Join(ps, ", ") {
				oracle = "FAIL:with-base-elem " + c19Clean(strconv.Quote(string(got)))
			}
		}
		h.Emit("with "+hx([]byte(t))+" ("+strings.Join(items, " ")+")", "ok "+hx([]byte(got)), oracle)
	default:
		oracle := "ok"
		if ct.Array().Elem() != ct || !ct.Array().IsArray() {
			oracle = "FAIL:array-elem " + c19Clean(strconv.Quote(t))
		}
		h.Emit("isarr "+hx([]byte(t)), "ok "+bsym(ct.IsArray()), oracle)
	}
}

func runC19(h *H) {
	n := h.N
	r := h.R
	// regression corpus: the inputs of the defects found while building this check
	for _, t := range []string{"Decimal32(4)", "Decimal64(2)", "Decimal128(3)", "Decimal256(4)", "Decimal", "Decimal()", "Decimal(,2)",
		"Array(Decimal32(4))", "Nullable(Decimal)", "IntervalWEEK", "Intervalweek", "IntervalWee\u212a", "Map(String,String)", "Map(String, String)",
		"DateTime('')", "DateTime64(3,'')", "DateTime()", "Array(Int8)xyz", "", "(", ")", ")(", "()", "a(", "a)", "a()", "Array()", "Array(())"} {
		c19CaseInfer(h, t, true, "corpus")
		c19CaseTwo(h, t)
		c19CaseData(h, t)
	}
	// every scalar and every wrapper of it, systematically
	for _, s := range c19Scalars {
		for _, w := range []string{"", "Array", "Nullable", "LowCardinality"} {
			t := s
			if w != "" {
				t = w + "(" + s + ")"
			}
			c19CaseInfer(h, t, true, "systematic")
			c19CaseTwo(h, t)
			c19CaseData(h, t)
			for _, w2 := range []string{"Array", "Nullable", "LowCardinality"} {
				if w != "" {
					c19CaseTwo(h, w2+"("+t+")")
					c19CaseData(h, w2+"("+t+")")
				}
			}
		}
	}
	// names as bases: every identifier of the dictionary around an element a column can be inferred for
	for _, id := range c19Idents() {
		for _, el := range []string{"Int8", "String", "DateTime64(3)", "DateTime", "Enum8('a' = 1)", "Array(Int8)", ""} {
			t := id + "(" + el + ")"
			c19CaseInfer(h, t, true, "ident-base")
		}
		c19CaseInfer(h, id, true, "ident-base")
	}
	for i := 0; i < 300+n/20; i++ {
		a, b := c19ReinferPairs(r)
		c19CaseReinfer(h, a, b)
	}
	for _, iv := range c19Intervals {
		c19CaseTwo(h, "Interval"+iv)
		c19CaseData(h, "Interval"+iv)
	}
	for _, p := range c19Precs {
		for _, t := range []string{"Decimal(" + strconv.Itoa(p) + ")", "Decimal(" + strconv.Itoa(p) + ", 0)", "Array(Decimal(" + strconv.Itoa(p) + ",1))"} {
			c19CaseInfer(h, t, true, "systematic")
			c19CaseTwo(h, t)
			c19CaseData(h, t)
		}
	}
	for p := 0; p <= 10; p++ {
		for _, z := range []string{"", ", 'UTC'", ",'Europe/Moscow'", ", 'Nowhere'"} {
			t := "DateTime64(" + strconv.Itoa(p) + z + ")"
			c19CaseInfer(h, t, true, "systematic")
			c19CaseTwo(h, t)
			c19CaseData(h, t)
		}
	}
	for _, sz := range c19FixedSizes {
		t := "FixedString(" + strconv.Itoa(sz) + ")"
		c19CaseInfer(h, t, true, "systematic")
		c19CaseData(h, t)
	}
	// every string over { ( ) a , } of length <= 4: Base/Elem, and Conflicts on all pairs of the length <= 2 ones
	{
		alpha := []string{"(", ")", "a", ","}
		level := []string{""}
		var small []string
		for l := 0; l <= 4; l++ {
			for _, t := range level {
				ct := proto.ColumnType(t)
				var b, e proto.ColumnType
				if crash := c19Safe(func() { b, e = ct.Base(), ct.Elem() }); crash != "" {
					h.Emit("base "+hx([]byte(t)), "crash", "FAIL:base-elem-panic "+c19Clean(strconv.Quote(t)))
				} else {
					h.Emit("base "+hx([]byte(t)), "ok "+hx([]byte(b))+" "+hx([]byte(e)), "ok")
				}
				if l <= 2 {
					small = append(small, t)
				}
			}
			var next []string
			for _, t := range level {
				for _, a := range alpha {
					next = append(next, t+a)
				}
			}
			level = next
		}
		c19CaseMatrix(h, small, nil)
		h.Stat("paren-exhaustive")
	}
	// very deep nesting: under recover; compared with the model up to a depth the evaluator handles quickly
	deep := []int{10, 100, 1000, 10000}
	for _, d := range deep {
		reps := 2
		if h.Tier == "thorough" {
			reps = 6
		}
		for i := 0; i < reps; i++ {
			c19CaseInfer(h, c19Deep(r, d), d <= 1000, "deep")
		}
		h.Stat("deep-" + strconv.Itoa(d))
	}
	{
		a, b := c19Deep(r, 2000), c19Deep(r, 2000)
		if c19Conf(a, b) == 'c' || c19Conf(b, a) == 'c' || c19Conf(a, a) != 'f' {
			h.Emit("confm ()", "-", "FAIL:conflicts-deep-nesting")
		}
	}
	// random part
	for h.Count < n {
		switch x := r.Intn(100); {
		case x < 22:
			c19CaseInfer(h, c19Type(r, r.Intn(5)), true, "valid")
		case x < 40:
			c19CaseInfer(h, c19Malformed(r), true, "malformed")
		case x < 50:
			if r.Intn(3) == 0 {
				c19CaseTwo(h, c19Malformed(r))
			} else {
				c19CaseTwo(h, c19Type(r, r.Intn(4)))
			}
		case x < 62:
			c19CaseData(h, c19Type(r, r.Intn(4)))
		case x < 80:
			c19CaseMatrix(h, c19Pool(r, 6+r.Intn(10)), nil)
		case x < 94:
			a, b, e, kind := c19EquivPair(r)
			h.Stat("equiv-" + kind)
			c19CaseMatrix(h, []string{a, b}, map[[2]int]byte{{0, 1}: e, {1, 0}: e})
		default:
			if r.Intn(3) == 0 {
				c19CaseMisc(h, c19Tiny(r))
			} else if r.Intn(2) == 0 {
				c19CaseMisc(h, c19Malformed(r))
			} else {
				c19CaseMisc(h, c19Type(r, r.Intn(3)))
			}
		}
	}
}
