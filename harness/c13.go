package main

// C13 — handshake: the client negotiates min(client, server) revision and fails cleanly.
//
// Every case runs the real ch.Connect / ch.Dial over a scripted in-memory connection
// (c13conn.go).  The case line describes the options and the script; the model (coq/model/
// Handshake.v through GlueHs.v) predicts the observation.  The direct oracle states the property
// on what the implementation did, using only the library's own message encoders at the expected
// revision and the feature constants: nothing of the protocol is re-implemented here.

import (
	"bytes"
	"context"
	"errors"
	"fmt"
	"sort"
	"strconv"
	"strings"
	"sync"
	"time"

	ch "github.com/ClickHouse/ch-go"
	"github.com/ClickHouse/ch-go/proto"
	"go.opentelemetry.io/otel/trace"
)

func init() { runners["c13"] = runC13 }

// what internal/version.Get() yields in this build (the module is replaced, version v0.0.0):
// no pre-release name, version 0.0.0.  An input of the model.
const (
	c13PkgName  = ""
	c13PkgMajor = 0
	c13PkgMinor = 0
	c13PkgPatch = 0
)

type c13Follow struct {
	kind     string // none | ping | do
	fed      []byte // fed to the connection after the handshake returned
	query    ch.Query
	progress []proto.Progress // what the script sends, in order, interleaved as recorded in kinds
	profile  []proto.Profile
	order    []byte // 'g' progress, 'f' profile
	pingWant string // ok | exception | fail
	pingExc  []proto.Exception
	span     *trace.SpanContext // the caller's context of the follow-up Do carries this (valid) span
}

type c13Case struct {
	mode     string // connect | dial
	kind     string // behaviour label
	rev      int
	db, user string
	pw       string
	quota    string
	cname    string
	rt, ht   time.Duration
	addr     string
	steps    []c13Step
	cut      bool
	cutGap   time.Duration
	expectOK bool
	noOracle bool // correspondence only (the accepted-garbage quirk)
	hello    proto.ServerHello
	exc      []proto.Exception
	follow   c13Follow
	minWait  time.Duration // the handshake cannot have finished earlier than this
}

// c13Short abbreviates a byte string for a message: length and the last bytes (where the
// revision-dependent fields are).
func c13Short(b []byte) string {
	if len(b) <= 24 {
		return fmt.Sprintf("%x", b)
	}
	return fmt.Sprintf("[%d bytes ..%x]", len(b), b[len(b)-16:])
}

func c13Dur(d time.Duration) string { return strconv.FormatInt(int64(d), 10) }

func (cs *c13Case) line() string {
	var chunks []string
	for _, s := range cs.steps {
		chunks = append(chunks, sx(c13Dur(s.Gap), hx(s.Data)))
	}
	tail := "stall"
	if cs.cut {
		tail = sx("cut", c13Dur(cs.cutGap))
	}
	fu := "none"
	switch cs.follow.kind {
	case "ping":
		fu = sx("ping", hx(cs.follow.fed))
	case "do":
		q := cs.follow.query
		var sets, ps []string
		for _, s := range q.Settings {
			sets = append(sets, sx(hx([]byte(s.Key)), hx([]byte(s.Value)), bsym(s.Important)))
		}
		for _, p := range q.Parameters {
			ps = append(ps, sx(hx([]byte(p.Key)), hx([]byte(p.Value))))
		}
		span := "nil"
		if p := cs.follow.span; p != nil {
			t, s := p.TraceID(), p.SpanID()
			span = sx("span", hx(t[:]), hx(s[:]), hx([]byte(p.TraceState().String())), strconv.Itoa(int(p.TraceFlags())))
		}
		fu = sx("do", sx(hx([]byte(q.QueryID)), hx([]byte(q.Body)), hx([]byte(q.QuotaKey)), hx([]byte(q.InitialUser)),
			sx(sets...), sx(ps...), span), hx(cs.follow.fed))
	}
	return fmt.Sprintf("hs %s %s %s %s %s %s %s",
		cs.mode,
		sx(hx([]byte(c13PkgName)), strconv.Itoa(c13PkgMajor), strconv.Itoa(c13PkgMinor), strconv.Itoa(c13PkgPatch)),
		sx(strconv.Itoa(cs.rev), hx([]byte(cs.db)), hx([]byte(cs.user)), hx([]byte(cs.pw)), hx([]byte(cs.quota)),
			hx([]byte(cs.cname)), c13Dur(cs.rt), c13Dur(cs.ht)),
		hx([]byte(cs.addr)), sx(chunks...), tail, fu)
}

// the values Options.setDefaults documents
func (cs *c13Case) effRev() int {
	if cs.rev == 0 {
		return proto.Version
	}
	return cs.rev
}
func c13OrDefault(s, d string) string {
	if s == "" {
		return d
	}
	return s
}
func (cs *c13Case) clientName() string {
	if cs.cname == "" {
		if c13PkgName != "" {
			return fmt.Sprintf("%s (%s)", proto.Name, c13PkgName)
		}
		return proto.Name
	}
	return fmt.Sprintf("%s %s", proto.Name, cs.cname)
}

func c13ExcSx(list []proto.Exception) string {
	var items []string
	for _, e := range list {
		items = append(items, sx(strconv.Itoa(int(e.Code)), hx([]byte(e.Name)), hx([]byte(e.Message)), hx([]byte(e.Stack))))
	}
	return sx(items...)
}

func c13ChainOf(e *ch.Exception) []proto.Exception {
	out := []proto.Exception{{Code: e.Code, Name: e.Name, Message: e.Message, Stack: e.Stack}}
	for _, n := range e.Next {
		out = append(out, proto.Exception{Code: n.Code, Name: n.Name, Message: n.Message, Stack: n.Stack})
	}
	return out
}

func c13SameChain(a, b []proto.Exception) bool {
	if len(a) != len(b) {
		return false
	}
	for i := range a {
		if a[i].Code != b[i].Code || a[i].Name != b[i].Name || a[i].Message != b[i].Message || a[i].Stack != b[i].Stack {
			return false
		}
	}
	return true
}

func c13HelloSx(s proto.ServerHello) string {
	return sx(hx([]byte(s.Name)), strconv.Itoa(s.Major), strconv.Itoa(s.Minor), strconv.Itoa(s.Revision),
		hx([]byte(s.Timezone)), hx([]byte(s.DisplayName)), strconv.Itoa(s.Patch))
}

func c13ProgressSx(p proto.Progress) string {
	u := func(v uint64) string { return strconv.FormatUint(v, 10) }
	return sx("progress", u(p.Rows), u(p.Bytes), u(p.TotalRows), u(p.WroteRows), u(p.WroteBytes), u(p.ElapsedNs))
}
func c13ProfileSx(p proto.Profile) string {
	u := func(v uint64) string { return strconv.FormatUint(v, 10) }
	return sx("profile", u(p.Rows), u(p.Blocks), u(p.Bytes), bsym(p.AppliedLimit), u(p.RowsBeforeLimit), bsym(p.CalculatedRowsBeforeLimit))
}

// run executes one case on the implementation.
func (cs *c13Case) run() (obs, oracle string) {
	defer func() {
		if p := recover(); p != nil {
			obs, oracle = "crash", fmt.Sprintf("FAIL:%s: panic in the handshake: %v", cs.kind, p)
		}
	}()
	conn := c13NewConn(cs.addr)
	defer conn.Stop()
	conn.Play(cs.steps, cs.cut, cs.cutGap)
	opt := ch.Options{
		ProtocolVersion: cs.rev, Database: cs.db, User: cs.user, Password: cs.pw, QuotaKey: cs.quota, ClientName: cs.cname,
		ReadTimeout: cs.rt, HandshakeTimeout: cs.ht,
	}
	var (
		client *ch.Client
		err    error
	)
	t0 := time.Now()
	type hsRet struct {
		client *ch.Client
		err    error
		panic  any
	}
	ret := make(chan hsRet, 1)
	go func() {
		var r hsRet
		defer func() {
			r.panic = recover()
			ret <- r
		}()
		if cs.mode == "dial" {
			// the dial itself is instantaneous here: a dial timeout far below every hello delay bounds the
			// dialing only, the handshake that follows is bounded by HandshakeTimeout
			opt.DialTimeout = 10 * time.Millisecond
			opt.Dialer = &c13Dialer{conn: conn}
			r.client, r.err = ch.Dial(context.Background(), opt)
		} else {
			r.client, r.err = ch.Connect(context.Background(), conn, opt)
		}
	}()
	select {
	case r := <-ret:
		if r.panic != nil {
			panic(r.panic)
		}
		client, err = r.client, r.err
	case <-time.After(cs.ht + 4*time.Second):
		// neither a client nor an error: the handshake is stuck although its timeout is long over
		_ = conn.Close()
		return "hang", fmt.Sprintf("FAIL:%s: the handshake did not return within %v of its timeout %v", cs.kind, 4*time.Second, cs.ht)
	}
	took := time.Since(t0)
	written := conn.Written()
	closes := conn.CloseCalls()
	var fails []string
	fail := func(f string, a ...any) { fails = append(fails, fmt.Sprintf(f, a...)) }

	// the hello every handshake starts with, by the library's own encoder
	var want proto.Buffer
	proto.ClientHello{Name: cs.clientName(), Major: c13PkgMajor, Minor: c13PkgMinor, ProtocolVersion: cs.effRev(),
		Database: c13OrDefault(cs.db, ch.DefaultDatabase), User: c13OrDefault(cs.user, ch.DefaultUser), Password: cs.pw}.Encode(&want)

	if err != nil {
		if client != nil {
			fail("an error together with a usable client")
		}
		chain := "()"
		class := "other"
		var e *ch.Exception
		if errors.As(err, &e) {
			class = "exception"
			chain = c13ExcSx(c13ChainOf(e))
		}
		obs = fmt.Sprintf("failed %s %s %s %s", class, chain, hx(written), bsym(closes > 0))
		if cs.expectOK {
			fail("a hello that arrived %v into a handshake timeout of %v (read timeout %v) was rejected: %v", cs.minWait, cs.ht, cs.rt, err)
		}
		if cs.kind == "exception" {
			if e == nil {
				fail("the error does not carry the server's exception: %v", err)
			} else if !c13SameChain(c13ChainOf(e), cs.exc) {
				fail("the carried exception differs from the one sent: got %s want %s", chain, c13ExcSx(cs.exc))
			}
		} else if e != nil && !cs.noOracle {
			fail("an exception is reported although none was sent")
		}
		if cs.mode == "dial" && closes == 0 {
			fail("Dial left the connection it dialed open after a failed handshake")
		}
		if took > cs.ht+1500*time.Millisecond {
			fail("the failure took %v with a handshake timeout of %v", took, cs.ht)
		}
		if !bytes.Equal(written, want.Buf) && len(written) != 0 {
			fail("a failed handshake wrote something other than the client hello")
		}
	} else {
		defer client.Close()
		info := client.ServerInfo()
		expVer := cs.effRev()
		if info.Revision < expVer {
			expVer = info.Revision
		}
		var fobs string
		fobs, ffails := cs.runFollowGuarded(conn, client, expVer, len(written))
		fails = append(fails, ffails...)
		if cs.expectOK && len(ffails) == 0 && !client.IsClosed() && (cs.follow.kind == "none" || strings.Contains(fobs, " ok ")) {
			// a second request on the same client: an INSERT whose table header (a zero-row Data block) the server
			// sends at the negotiated revision - block info, temp-table name and the per-column custom-serialization flag
			// each exist from their own revision on.  Not modelled here (blocks are C01/C03's subject): direct oracle
			if msg := c13Insert(conn, client, expVer); msg != "" {
				fail("%s", msg)
			}
		}
		obs = fmt.Sprintf("connected %s %s %s %s", c13HelloSx(info), hx(written), bsym(closes > 0), fobs)
		if !cs.expectOK && !cs.noOracle {
			fail("a handshake answered by %s yielded a usable client", cs.kind)
		}
		if cs.expectOK {
			// the server identity as sent: the last three fields exist from their revisions on
			exp := cs.hello
			if !proto.FeatureTimezone.In(cs.effRev()) {
				exp.Timezone = ""
			}
			if !proto.FeatureDisplayName.In(cs.effRev()) {
				exp.DisplayName = ""
			}
			if !proto.FeatureVersionPatch.In(cs.effRev()) {
				exp.Patch = 0
			}
			if info != exp {
				fail("ServerInfo() = %+v, the server sent %+v", info, exp)
			}
			wantVer := cs.effRev()
			if cs.hello.Revision < wantVer {
				wantVer = cs.hello.Revision
			}
			if expVer != wantVer {
				fail("internal: expected revision")
			}
			if proto.FeatureAddendum.In(wantVer) {
				want.PutString(cs.quota)
			}
			if !bytes.Equal(written, want.Buf) {
				fail("handshake wrote %s, want client hello followed by the addendum exactly when the revision %d has it: %s", c13Short(written), wantVer, c13Short(want.Buf))
			}
			if closes != 0 {
				fail("the connection of a successful handshake was closed")
			}
			if took < cs.minWait {
				fail("internal: handshake finished before the hello was sent")
			}
		}
	}
	oracle = "ok"
	if cs.noOracle && len(fails) == 0 {
		oracle = "-"
	}
	if len(fails) > 0 {
		oracle = "FAIL:" + cs.kind + ": " + c13Clean(strings.Join(fails, "; "))
	}
	return obs, oracle
}

// c13Clean keeps arbitrary bytes (names and messages are generated byte strings) out of the
// transcript's tab-separated columns.
func c13Clean(s string) string {
	var b strings.Builder
	for _, r := range s {
		if r < 0x20 || r == 0x7f || r == 0xfffd {
			b.WriteByte('?')
		} else {
			b.WriteRune(r)
		}
	}
	if b.Len() > 900 {
		return b.String()[:900] + "..."
	}
	return b.String()
}

// c13Insert: INSERT with one input column; the scripted server answers with the table header and, after the data, with
// EndOfStream, everything encoded for revision ver by the library's own encoders.
func c13Insert(conn *c13Conn, client *ch.Client, ver int) (msg string) {
	defer func() {
		if p := recover(); p != nil {
			msg = fmt.Sprintf("INSERT after the handshake at revision %d panicked: %v", ver, p)
		}
	}()
	var fed proto.Buffer
	proto.ServerCodeData.Encode(&fed)
	if proto.FeatureTempTables.In(ver) {
		fed.PutString("")
	}
	hdr := proto.Block{Info: proto.BlockInfo{BucketNum: -1}, Columns: 1, Rows: 0}
	if err := hdr.EncodeBlock(&fed, ver, []proto.InputColumn{{Name: "v", Data: new(proto.ColUInt8)}}); err != nil {
		return ""
	}
	proto.ServerCodeEndOfStream.Encode(&fed)
	conn.Feed(fed.Buf)
	var v proto.ColUInt8
	v.Append(7)
	v.Append(9)
	ctx, cancel := context.WithTimeout(context.Background(), 3*time.Second)
	defer cancel()
	done := make(chan error, 1)
	go func() { done <- client.Do(ctx, ch.Query{Body: "INSERT INTO t VALUES", Input: proto.Input{{Name: "v", Data: &v}}}) }()
	select {
	case err := <-done:
		if err != nil {
			return fmt.Sprintf("an INSERT after the handshake, answered at the negotiated revision %d, failed: %v", ver, err)
		}
	case <-time.After(5 * time.Second):
		_ = conn.Close()
		return fmt.Sprintf("an INSERT after the handshake at revision %d did not return", ver)
	}
	return ""
}

// runFollowGuarded: an operation after the handshake that neither succeeds nor fails (a client
// decoding at a revision the server does not speak waits for bytes that never come) is a failure
// of the property, not of the harness.
func (cs *c13Case) runFollowGuarded(conn *c13Conn, client *ch.Client, ver int, base int) (string, []string) {
	type ret struct {
		obs   string
		fails []string
	}
	done := make(chan ret, 1)
	go func() {
		defer func() {
			if p := recover(); p != nil {
				done <- ret{"crash", []string{fmt.Sprintf("panic in the operation after the handshake: %v", p)}}
			}
		}()
		o, f := cs.runFollow(conn, client, ver, base)
		done <- ret{o, f}
	}()
	select {
	case r := <-done:
		return r.obs, r.fails
	case <-time.After(6 * time.Second):
		_ = conn.Close()
		return "hang", []string{fmt.Sprintf("the %s after the handshake neither finished nor failed within 6s (expected revision %d)", cs.follow.kind, ver)}
	}
}

// runFollow performs the operation after the handshake and states the "speaks the negotiated
// revision" half of the property: what the client writes is what the library's encoders produce
// at min(client, server), and what it decodes is what was encoded at that revision.
func (cs *c13Case) runFollow(conn *c13Conn, client *ch.Client, ver int, base int) (obs string, fails []string) {
	fail := func(f string, a ...any) { fails = append(fails, fmt.Sprintf(f, a...)) }
	f := &cs.follow
	ctx, cancel := context.WithTimeout(context.Background(), 3*time.Second)
	defer cancel()
	switch f.kind {
	case "ping":
		conn.Feed(f.fed)
		err := client.Ping(ctx)
		wrote := conn.Written()[base:]
		end, chain := "ok", "()"
		var e *ch.Exception
		switch {
		case err == nil:
		case errors.As(err, &e):
			end, chain = "exception", c13ExcSx(c13ChainOf(e))
		default:
			end = "fail"
		}
		if end != f.pingWant {
			fail("ping after the handshake ended %s, want %s (%v)", end, f.pingWant, err)
		}
		if e != nil && !c13SameChain(c13ChainOf(e), f.pingExc) {
			fail("ping: carried exception differs from the one sent")
		}
		if !bytes.Equal(wrote, []byte{byte(proto.ClientCodePing)}) {
			fail("ping wrote %x", wrote)
		}
		return sx("ping", end, chain, hx(wrote)), fails
	case "do":
		conn.Feed(f.fed)
		q := f.query
		var events []string
		var gotProgress []proto.Progress
		var gotProfile []proto.Profile
		q.OnProgress = func(ctx context.Context, p proto.Progress) error {
			events = append(events, c13ProgressSx(p))
			gotProgress = append(gotProgress, p)
			return nil
		}
		q.OnProfile = func(ctx context.Context, p proto.Profile) error {
			events = append(events, c13ProfileSx(p))
			gotProfile = append(gotProfile, p)
			return nil
		}
		dctx := ctx
		if f.span != nil {
			dctx = trace.ContextWithSpanContext(ctx, *f.span)
		}
		err := client.Do(dctx, q)
		wrote := conn.Written()[base:]
		end := "ok"
		if err != nil {
			end = "fail"
		}
		if len(q.Parameters) > 0 && !proto.FeatureParameters.In(ver) {
			// Do must refuse parameters on a revision without them, before writing anything
			if err == nil {
				fail("Do accepted query parameters at revision %d (parameters exist from %d)", ver, int(proto.FeatureParameters))
			} else {
				end = "noparams"
			}
			if len(wrote) != 0 {
				fail("Do wrote %d bytes for a query it must refuse", len(wrote))
			}
			if client.IsClosed() {
				fail("refusing parameters closed the client")
			}
			return sx("do", end, "()", hx(wrote), sx(events...)), fails
		}
		if err != nil {
			fail("Do after the handshake failed at revision %d: %v", ver, err)
		}
		// the packets a client speaking revision ver writes, by the library's own encoders
		var want proto.Buffer
		pq := proto.Query{ID: q.QueryID, Body: q.Body, Stage: proto.StageComplete, Compression: proto.CompressionDisabled,
			Parameters: q.Parameters,
			Info: proto.ClientInfo{ProtocolVersion: ver, Major: c13PkgMajor, Minor: c13PkgMinor, Patch: c13PkgPatch,
				Interface: proto.InterfaceTCP, Query: proto.ClientQueryInitial, InitialUser: q.InitialUser, InitialQueryID: q.QueryID,
				InitialAddress: cs.addr, ClientName: cs.clientName(), QuotaKey: q.QuotaKey}}
		for _, s := range q.Settings {
			pq.Settings = append(pq.Settings, proto.Setting{Key: s.Key, Value: s.Value, Important: s.Important})
		}
		if f.span != nil && proto.FeatureOpenTelemetry.In(ver) {
			// below that revision the field does not exist: the expected bytes are those of the untraced query
			pq.Info.Span = *f.span
		}
		pq.EncodeAware(&want, ver)
		proto.ClientCodeData.Encode(&want)
		proto.ClientData{}.EncodeAware(&want, ver)
		proto.Block{}.EncodeAware(&want, ver)
		if !bytes.Equal(wrote, want.Buf) {
			fail("the query after the handshake is not encoded at the negotiated revision %d: wrote %s want %s", ver, c13Short(wrote), c13Short(want.Buf))
		}
		// and by a reader that owes nothing to the library's coders: what a peer at revision ver reads
		if got, why := c13ParseQueryAndBlank(wrote, ver); why != "" {
			fail("a peer reading at the negotiated revision %d cannot read the query: %s (wrote %s)", ver, why, c13Short(wrote))
		} else {
			switch {
			case got.id != q.QueryID || got.body != q.Body:
				fail("a peer at revision %d reads query id %q body %q, the caller gave %q %q", ver, got.id, got.body, q.QueryID, q.Body)
			case got.stage != 2 || got.comp != 0:
				fail("a peer at revision %d reads stage %d compression %d", ver, got.stage, got.comp)
			case ver >= 54429 && len(got.settings) != len(q.Settings):
				fail("a peer at revision %d reads %d settings, the caller gave %d", ver, len(got.settings), len(q.Settings))
			case len(got.params) != len(q.Parameters):
				fail("a peer at revision %d reads %d parameters, the caller gave %d", ver, len(got.params), len(q.Parameters))
			case ver >= 54420 && got.hasTrace != (f.span != nil && ver >= 54442):
				fail("a peer at revision %d reads trace context present=%v", ver, got.hasTrace)
			}
		}
		// what was decoded: the fields revision ver defines, the others blank
		var wantP []proto.Progress
		for _, p := range f.progress {
			if !proto.FeatureClientWriteInfo.In(ver) {
				p.WroteRows, p.WroteBytes = 0, 0
			}
			if !proto.FeatureServerQueryTimeInProgress.In(ver) {
				p.ElapsedNs = 0
			}
			wantP = append(wantP, p)
		}
		if err == nil {
			if fmt.Sprint(gotProgress) != fmt.Sprint(wantP) {
				fail("progress decoded at a revision other than %d: got %v want %v", ver, gotProgress, wantP)
			}
			if fmt.Sprint(gotProfile) != fmt.Sprint(f.profile) {
				fail("profile: got %v want %v", gotProfile, f.profile)
			}
		}
		return sx("do", end, "()", hx(wrote), sx(events...)), fails
	}
	return "none", nil
}

// ---------------------------------------------------------------- generators

func c13Str(h *H) string {
	switch h.R.Intn(6) {
	case 0:
		return ""
	case 1:
		return string(genBytes(h.R))
	default:
		return string(genShortBytes(h.R))
	}
}

func c13GenHello(h *H, rev int) proto.ServerHello {
	s := proto.ServerHello{Name: c13Str(h), Major: h.R.Intn(40), Minor: h.R.Intn(20), Revision: rev,
		Timezone: c13Str(h), DisplayName: c13Str(h), Patch: h.R.Intn(100)}
	if h.R.Intn(8) == 0 {
		s.Major, s.Minor, s.Patch = genInt(h.R), genInt(h.R), genInt(h.R)
	}
	return s
}

func c13GenExc(h *H) []proto.Exception {
	n := 1 + h.R.Intn(3)
	var out []proto.Exception
	for i := 0; i < n; i++ {
		out = append(out, proto.Exception{Code: proto.Error(genI32(h.R)), Name: c13Str(h), Message: c13Str(h), Stack: c13Str(h), Nested: i+1 < n})
	}
	if h.R.Intn(3) == 0 {
		out[0].Code = proto.ErrAuthenticationFailed
		out[0].Name = "DB::Exception"
	}
	return out
}

func c13EncExc(list []proto.Exception) []byte {
	var b proto.Buffer
	proto.ServerCodeException.Encode(&b)
	for i := range list {
		list[i].EncodeAware(&b, 0)
	}
	return b.Buf
}

// split b into 1..3 chunks with small gaps, the first after `first`
func c13Split(h *H, b []byte, first time.Duration) []c13Step {
	cuts := []int{}
	for i, n := 0, h.R.Intn(3); i < n && len(b) > 1; i++ {
		cuts = append(cuts, 1+h.R.Intn(len(b)-1))
	}
	sort.Ints(cuts)
	var steps []c13Step
	prev := 0
	gap := first
	for _, c := range cuts {
		if c == prev {
			continue
		}
		steps = append(steps, c13Step{gap, append([]byte{}, b[prev:c]...)})
		prev = c
		gap = time.Duration(h.R.Intn(3)) * time.Millisecond
	}
	steps = append(steps, c13Step{gap, append([]byte{}, b[prev:]...)})
	return steps
}

func c13GenFollow(h *H, ver int, force string) c13Follow {
	var f c13Follow
	kind := force
	if kind == "" {
		kind = []string{"none", "ping", "ping", "do", "do", "do"}[h.R.Intn(6)]
	}
	f.kind = kind
	switch kind {
	case "ping":
		switch h.R.Intn(5) {
		case 0:
			f.pingWant = "exception"
			f.pingExc = c13GenExc(h)
			f.fed = c13EncExc(f.pingExc)
		case 1:
			f.pingWant = "fail"
			f.fed = []byte{byte([]proto.ServerCode{proto.ServerCodeHello, proto.ServerCodeEndOfStream, proto.ServerCodeProgress, proto.ServerCodeData}[h.R.Intn(4)]), 0, 0, 0}
		default:
			f.pingWant = "ok"
			f.fed = []byte{byte(proto.ServerCodePong)}
		}
	case "do":
		q := ch.Query{QueryID: "q" + string(genShortBytes(h.R)), Body: string(genBytes(h.R)), QuotaKey: c13Str(h), InitialUser: c13Str(h)}
		for i, n := 0, h.R.Intn(3); i < n; i++ {
			q.Settings = append(q.Settings, ch.Setting{Key: "s" + string(genShortBytes(h.R)), Value: c13Str(h), Important: h.R.Intn(2) == 0})
		}
		for i, n := 0, h.R.Intn(3); i < n; i++ {
			q.Parameters = append(q.Parameters, proto.Parameter{Key: "p" + string(genShortBytes(h.R)), Value: c13Str(h)})
		}
		f.query = q
		if h.R.Intn(2) == 0 {
			// a traced caller: a valid span, any flags byte, sometimes a trace state
			var cfg trace.SpanContextConfig
			h.R.Read(cfg.TraceID[:])
			h.R.Read(cfg.SpanID[:])
			cfg.TraceID[h.R.Intn(16)] |= 1
			cfg.SpanID[h.R.Intn(8)] |= 1
			cfg.TraceFlags = trace.TraceFlags([]int{0, 1, 1, 2, 3, 255, h.R.Intn(256)}[h.R.Intn(7)])
			if h.R.Intn(3) == 0 {
				if ts, err := trace.ParseTraceState("k=v"); err == nil {
					cfg.TraceState = ts
				}
			}
			sc := trace.NewSpanContext(cfg)
			f.span = &sc
		}
		var b proto.Buffer
		for i, n := 0, h.R.Intn(4); i < n; i++ {
			if h.R.Intn(4) == 0 {
				p := proto.Profile{Rows: genU64(h.R), Blocks: genU64(h.R), Bytes: genU64(h.R), AppliedLimit: h.R.Intn(2) == 0,
					RowsBeforeLimit: genU64(h.R), CalculatedRowsBeforeLimit: h.R.Intn(2) == 0}
				f.profile = append(f.profile, p)
				p.EncodeAware(&b, ver) // writes its own packet code
			} else {
				p := proto.Progress{Rows: genU64(h.R), Bytes: genU64(h.R), TotalRows: genU64(h.R), WroteRows: genU64(h.R),
					WroteBytes: genU64(h.R), ElapsedNs: genU64(h.R)}
				f.progress = append(f.progress, p)
				proto.ServerCodeProgress.Encode(&b)
				p.EncodeAware(&b, ver)
			}
		}
		proto.ServerCodeEndOfStream.Encode(&b)
		f.fed = b.Buf
	}
	return f
}

var c13Kinds = []string{"hello", "hello", "hello", "hello-delayed", "exception", "other", "garbage", "truncated", "cut", "stall", "late", "quirk"}

func c13Gen(h *H, kind string, cv, sv int, forceFollow string) *c13Case {
	cs := &c13Case{kind: kind, rev: cv, mode: []string{"connect", "dial"}[h.R.Intn(2)],
		db: c13Str(h), user: c13Str(h), pw: c13Str(h), quota: c13Str(h), addr: "10.0.0." + strconv.Itoa(1+h.R.Intn(250)) + ":" + strconv.Itoa(1024+h.R.Intn(60000))}
	if h.R.Intn(4) == 0 {
		cs.cname = string(genShortBytes(h.R))
	}
	// read timeout: default (3 s), short, or none; never what bounds the hello
	cs.rt = []time.Duration{0, 50 * time.Millisecond, ch.NoTimeout, 20 * time.Millisecond}[h.R.Intn(4)]
	cs.ht = 5 * time.Second
	eff := cs.effRev()
	cs.hello = c13GenHello(h, sv)
	var hb proto.Buffer
	cs.hello.EncodeAware(&hb, eff) // the server writes the fields the client's revision has
	helloBytes := append([]byte{}, hb.Buf...)
	ver := eff
	if sv < ver {
		ver = sv
	}
	short := time.Duration(60+h.R.Intn(40)) * time.Millisecond
	switch kind {
	case "hello":
		cs.expectOK = true
		cs.follow = c13GenFollow(h, ver, forceFollow)
		cs.steps = c13Split(h, helloBytes, time.Duration(h.R.Intn(3))*time.Millisecond)
		if cs.follow.kind != "none" && h.R.Intn(4) == 0 {
			// the answer to the follow-up is already behind the hello, in its last segment (a later
			// segment would race with the read timeout of the follow-up: real time, not the property)
			last := &cs.steps[len(cs.steps)-1]
			last.Data = append(last.Data, cs.follow.fed...)
			cs.follow.fed = nil
		}
	case "hello-delayed":
		// the brief's instance: 150 ms into a 400 ms handshake timeout with a 50 ms read timeout
		cs.expectOK = true
		cs.rt, cs.ht = 50*time.Millisecond, 400*time.Millisecond
		delay := 150 * time.Millisecond
		if h.R.Intn(3) == 0 {
			cs.rt, cs.ht = 20*time.Millisecond, 600*time.Millisecond
			delay = time.Duration(60+h.R.Intn(180)) * time.Millisecond
		}
		cs.minWait = delay
		cs.follow = c13GenFollow(h, ver, forceFollow)
		if h.R.Intn(3) == 0 && len(helloBytes) > 1 {
			// the packet code first, the body later still
			cs.steps = []c13Step{{delay, helloBytes[:1]}, {60 * time.Millisecond, helloBytes[1:]}}
			cs.minWait = delay + 60*time.Millisecond
		} else {
			cs.steps = []c13Step{{delay, helloBytes}}
		}
	case "exception":
		cs.exc = c13GenExc(h)
		gap := time.Duration(h.R.Intn(3)) * time.Millisecond
		if h.R.Intn(4) == 0 {
			cs.rt, cs.ht, gap = 30*time.Millisecond, 500*time.Millisecond, 120*time.Millisecond
		}
		cs.steps = c13Split(h, c13EncExc(cs.exc), gap)
		if h.R.Intn(2) == 0 {
			cs.cut, cs.cutGap = true, time.Millisecond
		}
	case "other":
		codes := []proto.ServerCode{proto.ServerCodeData, proto.ServerCodeProgress, proto.ServerCodePong, proto.ServerCodeEndOfStream,
			proto.ServerCodeProfile, proto.ServerCodeTotals, proto.ServerCodeExtremes, proto.ServerCodeTablesStatus, proto.ServerCodeLog,
			proto.ServerCodeTableColumns, proto.ServerPartUUIDs, proto.ServerReadTaskRequest, proto.ServerProfileEvents}
		data := []byte{byte(codes[h.R.Intn(len(codes))])}
		if h.R.Intn(2) == 0 {
			data = append(data, helloBytes[1:]...) // a hello body behind the wrong code
		} else {
			data = append(data, genShortBytes(h.R)...)
		}
		cs.steps = []c13Step{{time.Duration(h.R.Intn(3)) * time.Millisecond, data}}
	case "garbage":
		var data []byte
		switch h.R.Intn(4) {
		case 0:
			data = []byte{byte(15 + h.R.Intn(113))} // one byte that is no packet code
		case 1:
			var b proto.Buffer
			b.PutUVarInt(uint64(128 + h.R.Intn(1<<20)))
			data = b.Buf
			// value mod 256 must not be a code (that is the quirk case)
			var n uint64
			for i, x := range data {
				n |= uint64(x&0x7f) << (7 * uint(i))
			}
			if n%256 < 15 {
				data = []byte{0xff, 0x7f} // 16383: 255 mod 256
			}
		case 2:
			data = bytes.Repeat([]byte{0xff}, 11) // varint longer than 64 bits
		default:
			data = append([]byte{byte(15 + h.R.Intn(113))}, genBytes(h.R)...)
		}
		if h.R.Intn(2) == 0 {
			data = append(data, helloBytes[1:]...)
		}
		cs.steps = []c13Step{{time.Duration(h.R.Intn(3)) * time.Millisecond, data}}
	case "quirk":
		// a multi-byte varint whose low byte is the Hello code is taken for a hello (ServerCode is a byte)
		cs.noOracle = true
		var b proto.Buffer
		b.PutUVarInt(uint64(256 * (1 + h.R.Intn(1000))))
		cs.steps = []c13Step{{0, append(b.Buf, helloBytes[1:]...)}}
		cs.follow = c13GenFollow(h, ver, "ping")
	case "truncated":
		k := 1
		if len(helloBytes) > 2 {
			k = 1 + h.R.Intn(len(helloBytes)-1)
		}
		cs.steps = c13Split(h, helloBytes[:k], time.Duration(h.R.Intn(3))*time.Millisecond)
		if h.R.Intn(2) == 0 {
			cs.cut, cs.cutGap = true, time.Duration(h.R.Intn(3))*time.Millisecond
		} else {
			cs.ht = short
		}
	case "cut":
		cs.cut, cs.cutGap = true, time.Duration(h.R.Intn(4))*time.Millisecond
	case "stall":
		cs.ht = short
	case "late":
		// the hello comes, but only after the handshake timeout
		cs.ht = short
		cs.steps = []c13Step{{cs.ht + 150*time.Millisecond, helloBytes}}
	}
	return cs
}

func runC13(h *H) {
	revs := revisions(h)
	// server revisions also include values no release has
	srvRevs := append(append([]int{}, revs...), -1, 1<<31, 54460, 54461)
	var cases []*c13Case
	add := func(kind string, cv, sv int, ff string) {
		cases = append(cases, c13Gen(h, kind, cv, sv, ff))
		h.Stat("kind." + kind)
	}
	// around the addendum / parameters thresholds: every pair, with a parametrised query behind
	near := []int{int(proto.FeatureAddendum) - 1, int(proto.FeatureAddendum), int(proto.FeatureParameters), int(proto.FeatureParameters) + 1}
	for _, cv := range near {
		for _, sv := range near {
			add("hello", cv, sv, "do")
		}
	}
	if h.Tier == "thorough" {
		for _, cv := range revs {
			for _, sv := range revs {
				add("hello", cv, sv, "")
			}
		}
		// every pair of the dense region of thresholds
		for cv := 54440; cv <= 54480; cv++ {
			for sv := 54440; sv <= 54480; sv++ {
				add("hello", cv, sv, "")
			}
		}
	}
	for i := 0; len(cases) < h.N; i++ {
		kind := c13Kinds[i%len(c13Kinds)]
		cv := revs[h.R.Intn(len(revs))]
		sv := srvRevs[h.R.Intn(len(srvRevs))]
		// every representative once as the client's and once as the server's revision
		if j := i / len(c13Kinds); j < len(revs) {
			if i%2 == 0 {
				cv = revs[j]
			} else {
				sv = revs[j]
			}
		}
		add(kind, cv, sv, "")
	}
	type result struct{ obs, oracle string }
	out := make([]result, len(cases))
	workers := 24
	var wg sync.WaitGroup
	next := make(chan int)
	for w := 0; w < workers; w++ {
		wg.Add(1)
		go func() {
			defer wg.Done()
			for i := range next {
				o, r := cases[i].run()
				out[i] = result{o, r}
			}
		}()
	}
	for i := range cases {
		next <- i
	}
	close(next)
	wg.Wait()
	for i, cs := range cases {
		h.Emit(cs.line(), out[i].obs, out[i].oracle)
		h.Stat("mode." + cs.mode)
		if strings.HasPrefix(out[i].obs, "connected") {
			h.Stat("outcome.connected")
			h.Stat("follow." + cs.follow.kind)
		} else {
			h.Stat("outcome.failed")
		}
	}
}
