module vharness

go 1.23.0

require (
	github.com/ClickHouse/ch-go v0.0.0
	go.opentelemetry.io/otel/trace v1.35.0
)

require (
	github.com/go-faster/city v1.0.1 // indirect
	github.com/go-faster/errors v0.7.1 // indirect
	github.com/google/uuid v1.6.0 // indirect
	github.com/klauspost/compress v1.18.0 // indirect
	github.com/pierrec/lz4/v4 v4.1.22 // indirect
	github.com/segmentio/asm v1.2.0 // indirect
	go.opentelemetry.io/otel v1.35.0 // indirect
	golang.org/x/sys v0.30.0 // indirect
)

replace github.com/ClickHouse/ch-go => /repo
