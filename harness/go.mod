module vharness

go 1.23.0

require (
	github.com/ClickHouse/ch-go v0.0.0
	github.com/go-faster/city v1.0.1
	github.com/klauspost/compress v1.18.0
	github.com/pierrec/lz4/v4 v4.1.22
	go.opentelemetry.io/otel v1.35.0
	go.opentelemetry.io/otel/trace v1.35.0
	go.uber.org/zap v1.27.0
)

require (
	github.com/go-faster/errors v0.7.1 // indirect
	github.com/go-logr/logr v1.4.2 // indirect
	github.com/go-logr/stdr v1.2.2 // indirect
	github.com/google/uuid v1.6.0 // indirect
	github.com/hashicorp/go-version v1.7.0 // indirect
	github.com/jackc/puddle/v2 v2.2.2 // indirect
	github.com/segmentio/asm v1.2.0 // indirect
	go.opentelemetry.io/auto/sdk v1.1.0 // indirect
	go.opentelemetry.io/otel/metric v1.35.0 // indirect
	go.uber.org/multierr v1.11.0 // indirect
	golang.org/x/sync v0.13.0 // indirect
	golang.org/x/sys v0.30.0 // indirect
)

replace github.com/ClickHouse/ch-go => /repo
