package main

// C01 (types through automatic inference) / C18 (adoption): ONE proto.AutoResult target reused for a sequence of blocks
// whose column types differ only in parameters that do not conflict (Decimal scale, Decimal spelling, an integer and the
// enum over it, DateTime zones, DateTime64 precision).  After every block the target must report the type of THAT block
// (ColAuto.Type() is the type it was last told to be) and hold that block's rows.  Direct oracle.

import (
	"bytes"
	"fmt"

	"github.com/ClickHouse/ch-go/proto"
)

func init() { runners["c01reuse"] = runC01Reuse }

// groups of mutually non-conflicting spellings with the same wire layout
var c01ReuseGroups = [][]string{
	{"Decimal(12, 2)", "Decimal(12, 4)", "Decimal(18, 0)", "Decimal64(7)", "Decimal(10, 9)"},
	{"Decimal(9, 2)", "Decimal(5, 1)", "Decimal32(3)", "Decimal(1, 0)"},
	{"Decimal(38, 10)", "Decimal(19, 3)", "Decimal128(30)"},
	{"Decimal(76, 0)", "Decimal(39, 38)", "Decimal256(5)"},
	{"Int8", "Enum8('a' = 1, 'b' = 2)", "Enum8('x' = 1, 'y' = 2, 'z' = 3)"},
	{"Int16", "Enum16('a' = 1, 'b' = 2)", "Enum16('q' = 1, 'r' = 2, 's' = 300)"},
	{"DateTime", "DateTime('UTC')", "DateTime('Europe/Berlin')"},
	{"DateTime64(3)", "DateTime64(6)", "DateTime64(3, 'UTC')", "DateTime64(9, 'Asia/Tokyo')", "DateTime64(0)"},
}

func c01ReuseWidth(t string) int {
	switch {
	case len(t) >= 10 && t[:10] == "DateTime64":
		return 8
	case len(t) >= 8 && t[:8] == "DateTime":
		return 4
	case t == "Int8" || t[:5] == "Enum8":
		return 1
	case t == "Int16" || (len(t) >= 6 && t[:6] == "Enum16"):
		return 2
	}
	a := new(proto.ColAuto)
	if err := a.Infer(proto.ColumnType(t)); err != nil {
		return 0
	}
	var b proto.Buffer
	probe := a.Data
	if err := probe.DecodeColumn(proto.NewReader(bytes.NewReader(make([]byte, 64))), 1); err != nil {
		return 0
	}
	probe.EncodeColumn(&b)
	return len(b.Buf)
}

func runC01Reuse(h *H) {
	for i := 0; i < h.N; i++ {
		g := c01ReuseGroups[i%len(c01ReuseGroups)]
		n := 2 + h.R.Intn(3)
		var seq []string
		for k := 0; k < n; k++ {
			seq = append(seq, g[h.R.Intn(len(g))])
		}
		wrap := []string{"", "", "Array", "Nullable"}[h.R.Intn(4)]
		target := &proto.ColAuto{}
		res := proto.Results{{Name: "v", Data: target}}
		oracle := "ok"
		func() {
			defer func() {
				if p := recover(); p != nil {
					oracle = fmt.Sprintf("FAIL:panic while binding a block to a reused AutoResult target: %v", p)
				}
			}()
			for k, leaf := range seq {
				w := c01ReuseWidth(leaf)
				if w == 0 {
					oracle = "-"
					return
				}
				typ := leaf
				rows := 1 + h.R.Intn(3)
				var body []byte
				val := func() []byte {
					v := make([]byte, w)
					v[0] = byte(1 + h.R.Intn(2)) // a member of every enum above, a small number, an early instant
					return v
				}
				switch wrap {
				case "Array":
					typ = "Array(" + leaf + ")"
					var offs proto.Buffer
					for r := 1; r <= rows; r++ {
						offs.PutUInt64(uint64(r))
					}
					body = offs.Buf
					for r := 0; r < rows; r++ {
						body = append(body, val()...)
					}
				case "Nullable":
					typ = "Nullable(" + leaf + ")"
					body = make([]byte, rows)
					for r := 0; r < rows; r++ {
						body = append(body, val()...)
					}
				default:
					for r := 0; r < rows; r++ {
						body = append(body, val()...)
					}
				}
				var b proto.Buffer
				b.PutString("v")
				b.PutString(typ)
				b.PutBool(false) // custom serialization
				b.Buf = append(b.Buf, body...)
				rd := proto.NewReader(bytes.NewReader(b.Buf))
				if err := res.DecodeResult(rd, proto.Version, proto.Block{Columns: 1, Rows: rows}); err != nil {
					if k == 0 {
						oracle = "-" // not a type ColAuto builds (an enum below a wrapper): no sequence to judge
						return
					}
					oracle = fmt.Sprintf("FAIL:block %d of type %s was refused by a target that held %v before: %v", k, typ, seq[:k], err)
					return
				}
				if got := string(target.Type()); got != typ {
					oracle = fmt.Sprintf("FAIL:after block %d of type %q the reused AutoResult target reports type %q (it was bound to %v before)", k, typ, got, seq[:k])
					return
				}
				if target.Rows() != rows {
					oracle = fmt.Sprintf("FAIL:after block %d with %d rows the reused target reports %d rows", k, rows, target.Rows())
					return
				}
				if proto.ColumnType(typ).Conflicts(target.Data.Type()) {
					oracle = fmt.Sprintf("FAIL:after block %d of type %q the column inside the target reports the conflicting type %q", k, typ, target.Data.Type())
					return
				}
			}
		}()
		h.Emit(fmt.Sprintf("reuse wrap=%q types=%q", wrap, seq), "-", oracle)
		h.Stat("c01reuse.group" + fmt.Sprint(i%len(c01ReuseGroups)))
	}
}
