package main

// C10 — cancellation ends the query promptly, sends Cancel and closes the connection.
//
//   do ...   gated runs of Client.Do in which the caller's context ends at some point of the plan
//            (the plans come from the Coq model through checks/c10.py; machinery in c04.go)
//   hs ...   ch.Connect against a gated connection, the caller's context ending at every gate of the
//            handshake, the watchdog winning or losing the race
//   free ... free-running runs with real timers in which the context is cancelled from inside the k-th
//            connection call of the query (direct oracle only)
//
// Case line of a handshake run:  hs <addendum t|f> <reply hello|exc|bad|eof> <cancel instant 0..3 | n> <watchdog first t|f>

import (
	"context"
	"errors"
	"fmt"
	"io"
	"time"

	ch "github.com/ClickHouse/ch-go"
	"github.com/ClickHouse/ch-go/proto"
)

func init() {
	runners["c10"] = runC10
	runners["c10dbg"] = func(h *H) {
		for i := 0; i < h.N; i++ {
			obs, oracle := c10Handshake(h.Args["add"] == "t", h.Args["reply"], h.Args["at"], h.Args["wd"] == "t")
			fmt.Println(obs, "|", oracle)
		}
	}
}

func runC10(h *H) {
	c04RunPlans(h, "C10")
	// handshake: every combination
	for _, add := range []bool{true, false} {
		for _, reply := range []string{"hello", "exc", "bad", "eof"} {
			for _, at := range []string{"n", "0", "1", "2", "3"} {
				for _, wd := range []bool{false, true} {
					if at == "n" && wd {
						continue
					}
					if at == "3" && (!add || reply != "hello") {
						continue // no second flush
					}
					obs, oracle := c10Handshake(add, reply, at, wd)
					h.Emit(fmt.Sprintf("hs %s %s %s %s", bsym(add), reply, at, bsym(wd)), obs, oracle)
					h.Stat("C10.handshake")
				}
			}
		}
	}
	c04Free(h, "c10")
}

// revision with / without the addendum
func c10Rev(add bool) int {
	if add {
		return proto.Version
	}
	return int(proto.FeatureAddendum) - 1
}

func c10Reply(reply string, rev int) []byte {
	var b proto.Buffer
	switch reply {
	case "hello":
		hello := proto.ServerHello{Name: "scripted", Major: 23, Minor: 8, Revision: rev, Timezone: "UTC", DisplayName: "c10"}
		hello.EncodeAware(&b, rev)
	case "exc":
		proto.ServerCodeException.Encode(&b)
		(&proto.Exception{Code: proto.ErrAuthenticationFailed, Name: "DB::Exception", Message: "DB::Exception: scripted", Stack: "s"}).EncodeAware(&b, rev)
	case "bad":
		proto.ServerCodePong.Encode(&b)
	}
	return b.Buf
}

// c10Handshake drives ch.Connect: the hello goroutine's gates are write (hello), read, write (addendum).
// at = "0": the context is already cancelled when Connect is called; "1".."3": cancelled while the hello
// goroutine is held inside that connection call; wdFirst: the held call is released only after the
// watchdog has closed the connection (it then fails with a closed-connection error).
func c10Handshake(add bool, reply string, at string, wdFirst bool) (string, string) {
	ctl := newC04Ctl()
	conn := newC04Conn(ctl)
	ctl.gated = true
	c04CurCtl.Store(nil)
	rev := c10Rev(add)
	ctx, cancel := context.WithCancel(context.Background())
	defer cancel()
	cancelled := false
	if at == "0" {
		cancel()
		cancelled = true
	}
	type res struct {
		cl  *ch.Client
		err error
	}
	done := make(chan res, 1)
	go func() {
		cl, err := ch.Connect(ctx, conn, ch.Options{ProtocolVersion: rev, ReadTimeout: 30 * time.Second, HandshakeTimeout: 30 * time.Second})
		done <- res{cl, err}
	}()
	step := 0
	var out res
	finished := false
	for !finished {
		// next arrival of the hello goroutine, or the end of Connect
		arr := make(chan *c04Arrival, 1)
		stop := make(chan struct{})
		go func() {
			for {
				if a := ctl.await([]string{"write", "read", "wcancel"}, 20*time.Millisecond); a != nil {
					arr <- a
					return
				}
				select {
				case <-stop:
					return
				default:
				}
			}
		}()
		select {
		case out = <-done:
			close(stop)
			finished = true
			continue
		case a := <-arr:
			step++
			if at == fmt.Sprint(step) {
				cancel()
				cancelled = true
				if wdFirst {
					dl := time.Now().Add(c04Infeasible)
					for !conn.isClosed() && time.Now().Before(dl) {
						time.Sleep(50 * time.Microsecond)
					}
					if !conn.isClosed() {
						// the held call is a Write that stalls (or a Read with nothing to read): the context ended 2 s ago
						// and nothing closed the connection - exactly what the watchdog is for (model: H1Write / H2Write
						// with st1 / st2 are left only through h_closed; handshake_returns_when_context_ends)
						a.reply <- c04Reply{err: io.ErrClosedPipe}
						select {
						case <-done:
						case <-time.After(c04Infeasible):
						}
						ctl.ungate()
						_ = conn.Close()
						return "infeasible watchdog did not close the connection", fmt.Sprintf(
							"FAIL:C10 handshake: the context ended while the hello goroutine was held in connection call %d (%s) "+
								"and the connection was not closed within %v: a stalled %s keeps Connect from returning",
							step, a.kind, c04Infeasible, a.kind)
					}
				}
			}
			rep := c04Reply{n: -1}
			switch {
			case conn.isClosed():
				rep = c04Reply{err: errors.New("use of closed network connection"), n: 0}
			case a.kind == "read":
				if reply == "eof" {
					rep.err = io.EOF
					rep.eofNext = true
				} else {
					rep.data = c10Reply(reply, rev)
				}
			}
			a.reply <- rep
		case <-time.After(c04Infeasible):
			close(stop)
			ctl.ungate()
			_ = conn.Close()
			return "infeasible Connect neither returned nor reached the connection", "-"
		}
	}
	ctl.ungate()
	closed := conn.isClosed()
	isCtx := out.err != nil && errors.Is(out.err, context.Canceled)
	obs := fmt.Sprintf("ok res=%s ctx=%s closed=%s", map[bool]string{true: "nil", false: "err"}[out.err == nil], bsym(isCtx), bsym(closed))
	oracle := "ok"
	switch {
	case cancelled && out.err == nil:
		oracle = "FAIL:C10 handshake: the context ended during the handshake but Connect returned a client"
		if closed {
			oracle += " (whose connection is closed)"
		}
	case cancelled && !isCtx:
		oracle = "FAIL:C10 handshake: Connect's error does not match the context's error"
	case cancelled && !closed:
		oracle = "FAIL:C10 handshake: the context ended during the handshake and the connection was left open"
	case !cancelled && out.err == nil && closed:
		oracle = "FAIL:C10 handshake: Connect returned a client whose connection is closed"
	}
	if n := c04Leaked(); n > 0 {
		if oracle == "ok" {
			oracle = "FAIL:C10 handshake:"
		}
		oracle += fmt.Sprintf(" %d goroutine(s) of the library outlive Connect", n)
	}
	if out.cl != nil {
		_ = out.cl.Close()
	}
	return obs, oracle
}
