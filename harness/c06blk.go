package main

// C06 at block level: whole hostile BLOCKS through the real proto.Block.DecodeBlock into
//
//	(a) Results.Auto()           (b) typed Results of the catalogue kinds, AutoResult targets mixed in
//	(c) the same targets reused across a sequence of hostile blocks
//
// A block is built from parts (block info, column count, row count, per column: name, type STRING, custom-serialization
// flag, state prefix + body) taken from a block the real encoder produced, then one or two parts are mutated: counts at
// and beyond the caps, names, grammar-aware mutants of the type string (unbalanced parentheses, huge numbers, empty
// parameters, nesting up to 5 000 levels, NUL bytes, valid-but-unsupported types), the flag, state prefixes and bodies,
// the block info loop.  Case lines and observations are those of the C18 glue (model/GlueRes.v: decblock / decseq),
// so the model (Results.decode_block_st / run_blocks) runs the same bytes against the same targets:
// observation = ok <columns> <rows> (targets with contents) <bytes left> | fail (targets) | crash.
// Direct oracle (c06BlkJudge): never a panic; an accepted block has counts within the caps, as many targets as columns,
// every target reports the block's row count and every Row(i) below it is readable; a set custom-serialization flag,
// a column count beyond the cap and a row count beyond the cap are never accepted.
//
// c06deep: type strings nested 100 000 to 4 000 000 levels deep (up to 28 MB) through ColAuto.Infer, Results.Auto(),
// typed Inferable targets and ColumnType.Conflicts.  The case is named in the `pending` file first: a stack overflow is
// fatal (no recover), the check reports the pending case.  Time must stay linear in the length.

import (
	"bytes"
	"encoding/binary"
	"fmt"
	"os"
	"strings"
	"time"

	"github.com/ClickHouse/ch-go/proto"
)

func init() {
	runners["c06blk"] = runC06Blk
	runners["c06deep"] = runC06Deep
}

type c06Col struct {
	name string
	typ  string
	flag []byte // the custom-serialization byte(s); nil when the revision has no such field
	body []byte // state prefix + column
}

type c06Block struct {
	info []byte
	cols []byte
	rows []byte
	col  []c06Col
	tail []byte
	cut  int // >= 0: keep only that many bytes
}

func c06UV(v uint64) []byte {
	var b [binary.MaxVarintLen64]byte
	return append([]byte{}, b[:binary.PutUvarint(b[:], v)]...)
}

func (b c06Block) bytes() []byte {
	var out []byte
	out = append(out, b.info...)
	out = append(out, b.cols...)
	out = append(out, b.rows...)
	for _, c := range b.col {
		out = append(out, c06UV(uint64(len(c.name)))...)
		out = append(out, c.name...)
		out = append(out, c06UV(uint64(len(c.typ)))...)
		out = append(out, c.typ...)
		out = append(out, c.flag...)
		out = append(out, c.body...)
	}
	out = append(out, b.tail...)
	if b.cut >= 0 && b.cut < len(out) {
		out = out[:b.cut]
	}
	return out
}

// c06Base: a block as the real encoder lays it out, in parts
func c06Base(h *H, rev int, rows int, srcs []c18Src) c06Block {
	var blk c06Block
	blk.cut = -1
	if proto.FeatureBlockInfo.In(rev) {
		var b proto.Buffer
		c18Info(h).Encode(&b)
		blk.info = b.Buf
	}
	blk.cols = c06UV(uint64(len(srcs)))
	blk.rows = c06UV(uint64(rows))
	for _, s := range srcs {
		c := c06Col{name: s.name, typ: s.typ}
		if proto.FeatureCustomSerialization.In(rev) {
			c.flag = []byte{0}
		}
		if rows > 0 {
			c.body = append([]byte{}, s.body...)
		}
		blk.col = append(blk.col, c)
	}
	return blk
}

var c06Unsupported = []string{
	"Tuple()", "Tuple(UInt8)", "Tuple(UInt8, String)", "Tuple(a UInt8, b String)", "Nested(a UInt8)", "Variant(UInt8, String)", "Dynamic", "JSON",
	"Object('json')", "AggregateFunction(sum, UInt64)", "SimpleAggregateFunction(sum, UInt64)", "Array(Array(UInt8))",
	"Nullable(Nullable(UInt8))", "LowCardinality(Nullable(String))", "LowCardinality(Array(String))", "Array(Nothing)", "Nullable(Nothing)",
	"Map(String, UInt8)", "Map(String,String)", "Map(LowCardinality(String), Array(UInt8))", "Point", "Ring", "Polygon", "MultiPolygon",
	"FixedString(0)", "FixedString(1)", "FixedString(7)", "FixedString(513)", "FixedString(1024)", "FixedString(99999999999999999999)", "FixedString(-8)",
	"FixedString()", "FixedString", "DateTime64(9999999999)", "DateTime64(10)", "DateTime64(-1)", "DateTime64()", "DateTime64", "DateTime64(3, 'Mars/Olympus')",
	"DateTime('')", "DateTime()", "Decimal(77, 3)", "Decimal(0, 0)", "Decimal(99999999999999999999, 1)", "Decimal()", "Decimal", "Decimal32", "Decimal256(80)",
	"Enum8('a'=1", "Enum8('a'=1,", "Enum8(", "Enum8()", "Enum8", "Enum16('a'=99999999999999999999)", "Enum8('a'=1,'a'=2)", "Enum8('a'=1,'b'=1)", "Enum8('a'=300)", "Enum32('a'=1)",
	"IntervalSecond", "Intervalsecond", "Interval", "IntervalFortnight", "UInt7", "uint8", "UINT8", " UInt8", "UInt8 ", "", "(", ")", "()", ")(", "Nothing", "Bool", "UUID", "IPv4", "IPv6",
}

// c06TypeMutant: a grammar-aware mutant of a type string
func c06TypeMutant(h *H, t string) (string, string) {
	r := h.R
	nums := []string{"0", "1", "-1", "255", "256", "65536", "99999999999999999999", "", " ", "9999999999", "1e3", "0x10", "08"}
	wrappers := []string{"Array(", "Nullable(", "LowCardinality("}
	switch r.Intn(12) {
	case 0: // unbalanced parentheses
		switch r.Intn(5) {
		case 0:
			if i := strings.LastIndexByte(t, ')'); i >= 0 {
				return t[:i] + t[i+1:], "paren"
			}
			return t + "(", "paren"
		case 1:
			if i := strings.IndexByte(t, '('); i >= 0 {
				return t[:i] + t[i+1:], "paren"
			}
			return t + ")", "paren"
		case 2:
			return t + strings.Repeat(")", 1+r.Intn(3)), "paren"
		case 3:
			return strings.Repeat("(", 1+r.Intn(3)) + t, "paren"
		default:
			return strings.NewReplacer("(", ")", ")", "(").Replace(t), "paren"
		}
	case 1: // numbers
		out, done := []byte{}, false
		for i := 0; i < len(t); i++ {
			if !done && t[i] >= '0' && t[i] <= '9' && (i == 0 || t[i-1] == '(' || t[i-1] == ' ' || t[i-1] == ',' || t[i-1] == '=') && r.Intn(2) == 0 {
				j := i
				for j < len(t) && t[j] >= '0' && t[j] <= '9' {
					j++
				}
				out = append(out, nums[r.Intn(len(nums))]...)
				i = j - 1
				done = true
				continue
			}
			out = append(out, t[i])
		}
		if !done {
			return t + "(" + nums[r.Intn(len(nums))] + ")", "number"
		}
		return string(out), "number"
	case 2: // empty or odd parameters
		base := t
		if i := strings.IndexByte(t, '('); i > 0 {
			base = t[:i]
		}
		return base + []string{"()", "( )", "(,)", "(,,)", "(')", "('')", "(()", "(0)", "(UInt8)", "(UInt8,)", "(,UInt8)"}[r.Intn(11)], "params"
	case 3, 4: // nesting
		k := []int{1, 2, 3, 10, 63, 64, 65, 66, 100, 300, 1000, 5000}[r.Intn(12)]
		var sb strings.Builder
		w := wrappers[r.Intn(3)]
		mixed := r.Intn(2) == 0
		for i := 0; i < k; i++ {
			if mixed {
				w = wrappers[r.Intn(3)]
			}
			sb.WriteString(w)
		}
		sb.WriteString(t)
		closers := k
		switch r.Intn(5) {
		case 0:
			closers = r.Intn(k + 1)
		case 1:
			closers = k + 1 + r.Intn(2)
		}
		sb.WriteString(strings.Repeat(")", closers))
		return sb.String(), fmt.Sprintf("nest-%d", k)
	case 5: // bytes that do not belong
		junk := []string{"\x00", "\xff", " ", "\t", "\xc2\xa0", "\xe2\x80\x83", "'", ",", "\\"}
		at := r.Intn(len(t) + 1)
		return t[:at] + junk[r.Intn(len(junk))] + t[at:], "junk"
	case 6, 7:
		return c06Unsupported[r.Intn(len(c06Unsupported))], "unsupported"
	case 8:
		s, k := c06TypeString(h)
		return s, "c06type-" + k
	case 9:
		return c19Malformed(r), "c19malformed"
	case 10: // truncated
		if len(t) > 1 {
			return t[:1+r.Intn(len(t)-1)], "truncated"
		}
		return "", "truncated"
	default: // another valid type
		return c19Type(r, r.Intn(3)), "othertype"
	}
}

var c06Counts = []uint64{0, 1, 2, 3, 999_999, 1_000_000, 1_000_001, 1 << 31, 1 << 32, 1 << 40, 1<<63 - 1, 1 << 63, 1<<64 - 1}

// row counts at the cap itself are not used: rows x element width is allocated by design before the bytes are read
// (up to 3.2 GB for Int256), which is outside the property (see the assumptions of checks/c06.py); counts of a million
// rows are left out too: the model of a half-decoded column (model/DecPart.v) is a list of that many elements
var c06RowVals = []uint64{0, 1, 2, 3, 1000, 100_000_001, 100_000_002, 1 << 31, 1 << 32, 1 << 40, 1<<63 - 1, 1 << 63, 1<<64 - 1}

func c06Window(r interface{ Intn(int) int }, b []byte) {
	if len(b) < 8 {
		if len(b) > 0 {
			b[r.Intn(len(b))] = byte(r.Intn(256))
		}
		return
	}
	vals := []uint64{0, 1, 0xff, 5000, 1 << 31, 1 << 32, 100_000_001, 1 << 40, 1<<63 - 1, 1 << 63, 1<<64 - 1, 0x0600, 0x0601, 0x0603, 0x0604, 0x0200}
	at := r.Intn(len(b) - 7)
	if r.Intn(2) == 0 {
		at = at &^ 7
		if at+8 > len(b) {
			at = len(b) - 8
		}
	}
	binary.LittleEndian.PutUint64(b[at:], vals[r.Intn(len(vals))])
}

// c06Mutate changes one part of the block; mustFail is set when the mutant must be rejected whatever the targets are
// c06InfoQueue: block-info fields that every run tries once (id, count-like varint, position, payload bytes), before the
// random mutations: field ids just beyond the ones the decoder knows, each followed by a varint at the boundaries a
// length or a count has (within / beyond a cap, sign bit of int64 set, all ones)
type c06InfoF struct {
	id, cnt uint64
	pos, pay int
}

var c06InfoQueue []c06InfoF

func c06FillInfoQueue() {
	c06InfoQueue = nil
	for _, id := range []uint64{3, 4, 127} {
		for _, cnt := range []uint64{0, 1, 256, 257, 1 << 31, 1 << 62, 1 << 63, 1<<63 + 1, 1<<64 - 4, 1<<64 - 1} {
			for pos := 0; pos < 2; pos++ {
				c06InfoQueue = append(c06InfoQueue, c06InfoF{id, cnt, pos, 16})
			}
		}
	}
}

func c06InfoField(blk *c06Block, f c06InfoF) {
	b := append(c06UV(f.id), c06UV(f.cnt)...)
	b = append(b, make([]byte, f.pay)...)
	switch f.pos {
	case 0:
		blk.info = append(b, blk.info...)
	case 1: // after the valid fields, before the end marker
		if n := len(blk.info); n > 0 {
			blk.info = append(append(append([]byte{}, blk.info[:n-1]...), b...), blk.info[n-1])
		}
	default: // between them
		if len(blk.info) > 2 {
			blk.info = append(append(append([]byte{}, blk.info[:2]...), b...), blk.info[2:]...)
		}
	}
}

func c06Mutate(h *H, blk *c06Block, rev int) (kind, mustFail string) {
	r := h.R
	if len(c06InfoQueue) > 0 && blk.info != nil {
		f := c06InfoQueue[0]
		c06InfoQueue = c06InfoQueue[1:]
		c06InfoField(blk, f)
		return "info.field", ""
	}
	pick := func() *c06Col {
		if len(blk.col) == 0 {
			return nil
		}
		return &blk.col[r.Intn(len(blk.col))]
	}
	switch r.Intn(16) {
	case 0:
		v := c06Counts[r.Intn(len(c06Counts))]
		if r.Intn(3) == 0 {
			v = uint64(len(blk.col) + []int{-1, 1}[r.Intn(2)])
		}
		blk.cols = c06UV(v)
		if int64(v) > 1_000_000 || int64(v) < 0 {
			mustFail = "a column count beyond the cap of 1 000 000 (or negative) was accepted"
		}
		return "columns", mustFail
	case 1:
		v := c06RowVals[r.Intn(len(c06RowVals))]
		blk.rows = c06UV(v)
		if int64(v) > 100_000_000 || int64(v) < 0 {
			mustFail = "a row count beyond the cap of 100 000 000 (or negative) was accepted"
		}
		return "rows", mustFail
	case 2:
		if c := pick(); c != nil {
			c.name = []string{"", "other", "\x00", "a\x00b", strings.Repeat("n", 70_000), c.name + " ", strings.ToUpper(c.name)}[r.Intn(7)]
		}
		return "name", ""
	case 3, 4, 5, 6:
		if c := pick(); c != nil {
			var k string
			c.typ, k = c06TypeMutant(h, c.typ)
			return "type." + k, ""
		}
		return "type.none", ""
	case 7:
		if c := pick(); c != nil && c.flag != nil {
			c.flag = []byte{[]byte{1, 1, 2, 0xff}[r.Intn(4)]}
			if c.flag[0] == 1 {
				mustFail = "a block with the custom-serialization flag of a column set was accepted"
			}
			if r.Intn(4) == 0 { // after a valid type it must be rejected too when nothing follows
				blk.cut = -1
			}
		}
		return "flag", mustFail
	case 8, 9:
		if c := pick(); c != nil && len(c.body) > 0 {
			switch r.Intn(4) {
			case 0:
				c06Window(r, c.body)
			case 1:
				c.body[r.Intn(len(c.body))] ^= 1 << uint(r.Intn(8))
			case 2:
				c.body = c.body[:r.Intn(len(c.body))]
			default:
				at := r.Intn(len(c.body) + 1)
				c.body = append(append(append([]byte{}, c.body[:at]...), genShortBytes(r)...), c.body[at:]...)
			}
		}
		return "body", ""
	case 10:
		if blk.info != nil {
			switch r.Intn(7) {
			case 5, 6:
				// a field id the decoder may or may not know, followed by a count-like varint at a boundary (as a length,
				// a row count or a size would be: zero, small, at and beyond the caps, with the sign bit of int / int64
				// set, all ones) and a few payload bytes; before, between or after the valid fields
				id := []uint64{3, 4, 5, 6, 7, 8, 16, 127, 128, 255, 1 << 31}[r.Intn(11)]
				cnt := []uint64{0, 1, 4, 255, 256, 257, 65536, 1 << 31, 1<<31 - 1, 1 << 32, 1 << 62, 1<<63 - 1, 1 << 63, 1<<63 + 1,
					1<<64 - 8, 1<<64 - 4, 1<<64 - 2, 1<<64 - 1}[r.Intn(18)]
				c06InfoField(blk, c06InfoF{id, cnt, r.Intn(3), []int{0, 4, 16, 64}[r.Intn(4)]})
			case 0:
				blk.info = append(c06UV([]uint64{3, 4, 127, 128, 1 << 40, 1<<64 - 1}[r.Intn(6)]), blk.info...)
			case 1: // the loop: the same fields over and over
				one := append(append(c06UV(1), byte(r.Intn(2))), append(c06UV(2), 1, 2, 3, 4)...)
				blk.info = append(bytes.Repeat(one, 1+r.Intn(2000)), blk.info...)
			case 2:
				blk.info = append([]byte{0x81, 0x80, 0x80, 0x80, 0x80, 0x80, 0x80, 0x80, 0x80, byte(r.Intn(4))}, blk.info...)
			case 3:
				blk.info = blk.info[:r.Intn(len(blk.info))]
			default:
				blk.info[r.Intn(len(blk.info))] = byte(r.Intn(256))
			}
		}
		return "info", ""
	case 11:
		if len(blk.col) > 0 {
			i := r.Intn(len(blk.col))
			switch r.Intn(3) {
			case 0:
				blk.col = append(append([]c06Col{}, blk.col[:i]...), blk.col[i+1:]...)
			case 1:
				blk.col = append(append(append([]c06Col{}, blk.col[:i+1]...), blk.col[i]), blk.col[i+1:]...)
			default:
				j := r.Intn(len(blk.col))
				blk.col[i], blk.col[j] = blk.col[j], blk.col[i]
			}
		}
		return "shape", ""
	case 12:
		total := len(blk.bytes())
		if total > 0 {
			blk.cut = r.Intn(total)
		}
		return "cut", ""
	case 13:
		blk.tail = genShortBytes(r)
		return "tail", ""
	case 14: // zero rows declared, bodies present / rows declared, no bodies
		if r.Intn(2) == 0 {
			blk.rows = c06UV(0)
		} else {
			for i := range blk.col {
				blk.col[i].body = nil
			}
		}
		return "rows-vs-body", ""
	default:
		return "valid", ""
	}
}

func c06BlkTypes(blk c06Block) []string {
	var ts []string
	for _, c := range blk.col {
		t := c.typ
		if len(t) > 400 { // zones are looked up in quoted parameters only; deep nests carry none worth tabulating
			t = t[len(t)-400:]
		}
		ts = append(ts, t)
	}
	return ts
}

func c06MaxTypeLen(blk c06Block) int {
	m := 0
	for _, c := range blk.col {
		if len(c.typ) > m {
			m = len(c.typ)
		}
	}
	return m
}

// the property on the implementation, for one call
func c06BlkJudge(h *H, auto bool, hadTargets bool, res proto.Results, o c18Out, mustFail string) string {
	if o.crashed {
		return "FAIL:panic while decoding a hostile block: " + c18Clean(o.err.Error())
	}
	if o.err != nil {
		// What a failed call leaves in the target whose DecodeColumn failed is not part of the property, and is not
		// probed: a half-decoded Map or Array has offsets without elements, its Row(i) panics or asks for a map of 2^36
		// entries (fatal).  DecodeResult resets every target before it decodes the next block into it (sequences).
		return "ok"
	}
	if mustFail != "" {
		return "FAIL:" + mustFail
	}
	if o.blk.Columns < 0 || o.blk.Columns > 1_000_000 || o.blk.Rows < 0 || o.blk.Rows > 100_000_000 {
		return fmt.Sprintf("FAIL:accepted block with %d columns and %d rows (caps 1 000 000 / 100 000 000)", o.blk.Columns, o.blk.Rows)
	}
	if o.blk.End() {
		return "ok"
	}
	if (auto || hadTargets) && len(res) != o.blk.Columns {
		return fmt.Sprintf("FAIL:accepted block of %d columns, %d targets afterwards", o.blk.Columns, len(res))
	}
	for i, c := range res {
		if c.Data == nil {
			return fmt.Sprintf("FAIL:accepted block, target %d has no column", i)
		}
		if a, isA := c.Data.(*proto.ColAuto); isA && a.Data == nil {
			return fmt.Sprintf("FAIL:accepted block, AutoResult target %d was never inferred", i)
		}
		if tup, ok := c.Data.(proto.ColTuple); ok && len(tup) == 0 {
			continue
		}
		if n := c18Rows(c.Data); n != o.blk.Rows {
			return fmt.Sprintf("FAIL:accepted block of %d rows, target %d (%s) reports Rows() = %d", o.blk.Rows, i, c18Clean(string(c.Data.Type())), n)
		}
		col, isCol := c.Data.(proto.Column)
		if a, isA := c.Data.(*proto.ColAuto); isA {
			col, isCol = a.Data, true
		}
		if isCol && !rowsReadable(col) {
			return fmt.Sprintf("FAIL:accepted block, a row accessor of target %d (%s) panics", i, c18Clean(string(c.Data.Type())))
		}
	}
	return "ok"
}

func c06Pending(pend *os.File, line string) {
	if pend == nil {
		return
	}
	if len(line) > 3000 {
		line = line[:3000] + "..."
	}
	pend.Truncate(0)
	pend.Seek(0, 0)
	pend.WriteString(line)
	pend.Sync()
}

func runC06Blk(h *H) {
	_, sources := c18Pool()
	var autoable []c18Spec
	for _, s := range sources {
		if s.autoable() {
			autoable = append(autoable, s)
		}
	}
	pend, _ := os.Create(h.Args["pending"])
	if pend != nil {
		defer pend.Close()
	}
	c06FillInfoQueue()
	for i := 0; i < h.N; {
		// a valid block of 1..3 catalogue columns
		k := 1 + h.R.Intn(3)
		mode := []string{"auto", "typed", "typed", "seq", "seq-auto"}[h.R.Intn(5)]
		pool := sources
		if mode == "auto" || mode == "seq-auto" {
			pool = autoable
		}
		var specs []c18Spec
		var names []string
		for j := 0; j < k; j++ {
			specs = append(specs, pool[h.R.Intn(len(pool))])
			names = append(names, c18Name(h, j))
		}
		rows := []int{0, 1, 2, 3, 5}[h.R.Intn(5)]
		rev := c18Rev(h)
		srcs, err := c18Sources(h, specs, names, rows)
		if err != nil {
			h.Stat("c06blk.skipped.source")
			i++
			continue
		}
		if _, _, err := c18Encode(rev, c18Info(h), rows, srcs); err != nil {
			h.Stat("c06blk.skipped.encode")
			i++
			continue
		}
		// targets
		auto := mode == "auto" || mode == "seq-auto"
		var tgts []c18Tgt
		if !auto {
			for j, s := range specs {
				t := c18Tgt{spec: s, name: []string{names[j], ""}[h.R.Intn(2)], prefill: h.R.Intn(2) * 2}
				switch h.R.Intn(8) {
				case 0:
					t = c18Tgt{name: t.name, auto: true}
				case 1:
					t.spec = sources[h.R.Intn(len(sources))] // another kind
				}
				tgts = append(tgts, t)
			}
			if h.R.Intn(12) == 0 {
				tgts = nil // headers only
			}
		}
		res, err := c18Targets(h, tgts)
		if err != nil {
			h.Stat("c06blk.skipped.target")
			i++
			continue
		}
		hadTargets := len(res) > 0
		before, dumpable := c18TargetsSx(res)
		nblocks := 1
		if strings.HasPrefix(mode, "seq") {
			nblocks = 2 + h.R.Intn(3)
		}
		var wires, obss, kinds, types []string
		oracle := "ok"
		deep := false
		for b := 0; b < nblocks; b++ {
			blk := c06Base(h, rev, rows, srcs)
			kind, mustFail := "valid", ""
			if !(nblocks > 1 && h.R.Intn(3) == 0) {
				kind, mustFail = c06Mutate(h, &blk, rev)
				if h.R.Intn(5) == 0 {
					// two changes: the second can move or remove what made the first one fatal, so nothing is demanded
					k2, _ := c06Mutate(h, &blk, rev)
					kind += "+" + k2
					mustFail = ""
				}
			}
			if c06MaxTypeLen(blk) > 2000 {
				deep = true
			}
			for _, c := range blk.col {
				// harness/cols.go dumps the generated columns wider than 32 bytes (ColFixedStr64 .. 512) in the layout of
				// ColFixedStr, the model has them as N-byte scalars (C18 leaves them out of its pool for the same reason): not
				// compared (the direct oracle still judges the case)
				for _, wide := range []string{"FixedString(64)", "FixedString(128)", "FixedString(256)", "FixedString(512)"} {
					if strings.Contains(c.typ, wide) {
						deep = true
					}
				}
			}
			wire := blk.bytes()
			types = append(types, c06BlkTypes(blk)...)
			kinds = append(kinds, kind)
			c06Pending(pend, fmt.Sprintf("c06blk %s rev=%d kind=%s block %d: %s", mode, rev, kind, b, hx(wire)))
			t0 := time.Now()
			o := c18Decode(auto, &res, rev, wire)
			if d := time.Since(t0); d > 20*time.Second && oracle == "ok" {
				oracle = fmt.Sprintf("FAIL:decoding a hostile block of %d bytes took %v", len(wire), d)
			}
			wires = append(wires, hx(wire))
			obss = append(obss, c18Obs(o, res))
			if c18Huge(res) {
				// a corrupted count within the cap made a decoder build a huge column (by design): the list-based model of
				// it (and of a half-decoded one, model/DecPart.v) is too slow to run
				deep = true
			}
			if v := c06BlkJudge(h, auto, hadTargets, res, o, mustFail); v != "ok" && oracle == "ok" {
				oracle = fmt.Sprintf("%s (block %d of %d, kind %s)", v, b, nblocks, kind)
			}
			switch {
			case o.crashed:
				h.Stat("c06blk.out.crash")
			case o.err != nil:
				h.Stat("c06blk.out.fail")
			default:
				h.Stat("c06blk.out.ok")
			}
			for _, kk := range strings.Split(kind, "+") {
				if j := strings.IndexByte(kk, '-'); j > 0 && strings.HasPrefix(kk, "type.nest") {
					kk = kk[:j]
				}
				h.Stat("c06blk.kind." + kk)
			}
			if o.crashed {
				break
			}
		}
		c06Pending(pend, "")
		h.Stat("c06blk.mode." + mode)
		var line, obs string
		if len(wires) == 1 {
			line = fmt.Sprintf("decblock %s %s %d %s %s %s", bsym(auto), buildName, rev, c18Zones(types...), before, wires[0])
			obs = obss[0]
		} else {
			line = fmt.Sprintf("decseq %s %s %d %s %s %s", bsym(auto), buildName, rev, c18Zones(types...), before, sx(wires...))
			for j := range obss {
				obss[j] = "(" + obss[j] + ")"
			}
			obs = "seq " + strings.Join(obss, " ")
			if strings.Contains(obs, "(-)") {
				obs = "-"
			}
		}
		if !dumpable {
			obs = "-"
		}
		if deep {
			// the list-based model is quadratic in the nesting depth: these run on the implementation only
			line = "deep-" + line
			obs = "-"
			h.Stat("c06blk.impl-only")
		}
		h.Emit(line, obs, oracle)
		i++
	}
}

// ---------------------------------------------------------------- very deep nesting: stack and time

// c06DeepType: n times the opener, the innermost type, n times the closer ("" = unbalanced)
func c06DeepType(open string, n int, inner string, closer string) string {
	var sb strings.Builder
	sb.Grow(n*(len(open)+len(closer)) + len(inner))
	for i := 0; i < n; i++ {
		sb.WriteString(open)
	}
	sb.WriteString(inner)
	if closer != "" {
		for i := 0; i < n; i++ {
			sb.WriteString(closer)
		}
	}
	return sb.String()
}

type c06DeepShape struct{ open, inner, closer string }

// tight nestings, and the same padded with blanks, tabs and newlines after "(", before ")" and before the type name
// (a decoder that trims white space before recursing must still bound the depth), for every composite type
var c06DeepShapes = []c06DeepShape{
	{"Array(", "UInt8", ")"}, {"Array(", "", ""}, {"Nullable(", "UInt8", ")"}, {"LowCardinality(", "String", ")"},
	{"Array(", "Enum8('a'=1)", ")"}, {"Array(", "DateTime64(3)", ")"},
	{"Array( ", "UInt8", ")"}, {"Array( ", "UInt8", " )"}, {" Array(", "UInt8", ")"}, {"Array(\t", "UInt8", "\t)"}, {"Array(\n", "UInt8", "\n)"},
	{"Array( ", "", ""}, {" Array( ", "String", " ) "}, {"Nullable( ", "UInt8", " )"}, {" Nullable(", "String", ")"}, {"LowCardinality( ", "String", " )"},
	{"LowCardinality(\n ", "String", ")"}, {"Map(String, ", "UInt8", ")"}, {"Map(String,", "UInt8", ")"}, {"Map( String , ", "UInt8", " )"},
	{"Tuple(", "UInt8", ")"}, {"Tuple( ", "UInt8", " )"}, {"Tuple(a ", "UInt8", ")"}, {"Array(Nullable( ", "UInt8", " ))"}, {"Array( LowCardinality(", "String", ") )"},
}

func c06DeepRun(what string, ty string) (d time.Duration, crashed string) {
	defer func() {
		if p := recover(); p != nil {
			crashed = strings.ReplaceAll(fmt.Sprint(p), "\n", " ")
			if len(crashed) > 200 {
				crashed = crashed[:200]
			}
		}
	}()
	var b proto.Buffer
	b.PutString("c")
	b.PutString(ty)
	b.PutBool(false)
	b.Buf = append(b.Buf, make([]byte, 64)...)
	t0 := time.Now()
	switch what {
	case "infer":
		_ = new(proto.ColAuto).Infer(proto.ColumnType(ty))
	case "auto":
		var res proto.Results
		_ = res.Auto().DecodeResult(proto.NewReader(bytes.NewReader(b.Buf)), 54460, proto.Block{Columns: 1, Rows: 1})
	case "autoresult":
		res := proto.Results{proto.AutoResult("c")}
		_ = res.DecodeResult(proto.NewReader(bytes.NewReader(b.Buf)), 54460, proto.Block{Columns: 1, Rows: 1})
	case "typed-array":
		res := proto.Results{{Name: "c", Data: new(proto.ColDateTime64).Array()}}
		_ = res.DecodeResult(proto.NewReader(bytes.NewReader(b.Buf)), 54460, proto.Block{Columns: 1, Rows: 1})
	case "typed-enum":
		res := proto.Results{{Name: "c", Data: proto.NewArray[string](new(proto.ColEnum))}}
		_ = res.DecodeResult(proto.NewReader(bytes.NewReader(b.Buf)), 54460, proto.Block{Columns: 1, Rows: 1})
	case "typed-plain":
		res := proto.Results{{Name: "c", Data: new(proto.ColUInt8).Array()}}
		_ = res.DecodeResult(proto.NewReader(bytes.NewReader(b.Buf)), 54460, proto.Block{Columns: 1, Rows: 1})
	case "conflicts-shallow":
		_ = proto.ColumnType(ty).Conflicts("Array(UInt8)")
		_ = proto.ColumnType("Array(Nullable(UInt16))").Conflicts(proto.ColumnType(ty))
	case "base-elem":
		t := proto.ColumnType(ty)
		_ = t.Base()
		_ = t.Elem()
		_ = t.IsArray()
	}
	return time.Since(t0), ""
}

func runC06Deep(h *H) {
	pend, _ := os.Create(h.Args["pending"])
	if pend != nil {
		defer pend.Close()
	}
	whats := []string{"infer", "auto", "autoresult", "typed-array", "typed-enum", "typed-plain", "conflicts-shallow", "base-elem"}
	base := 100_000
	big := 4_000_000 // beyond what a 1 GB goroutine stack holds if every level costs a frame
	type job struct {
		what  string
		sh    c06DeepShape
		depth int
	}
	var jobs []job
	// first: every shape through the two entry points of automatic inference at the depth that exhausts a stack
	// (quick tier: six padded and four tight shapes picked by the seed; otherwise all of them)
	perm := h.R.Perm(len(c06DeepShapes))
	padded, tight := 0, 0
	for _, k := range perm {
		sh := c06DeepShapes[k]
		isPadded := strings.ContainsAny(sh.open+sh.closer, " \t\n")
		if h.Tier == "quick" && h.N < 150 {
			if isPadded && padded >= 6 || !isPadded && tight >= 4 {
				continue
			}
		}
		if isPadded {
			padded++
		} else {
			tight++
		}
		jobs = append(jobs, job{[]string{"infer", "auto"}[k%2], sh, big})
	}
	for k, sh := range c06DeepShapes {
		jobs = append(jobs, job{[]string{"auto", "infer"}[k%2], sh, base})
	}
	// then everything else, both depths
	for k := 0; len(jobs) < h.N || k < len(whats)*len(c06DeepShapes); k++ {
		depth := base
		if (h.Tier != "quick" && (k%3 == 2 || h.R.Intn(6) == 0)) || k%8 == 7 {
			depth = big
		}
		jobs = append(jobs, job{whats[k%len(whats)], c06DeepShapes[(k/len(whats)+k)%len(c06DeepShapes)], depth})
		if k > 100000 {
			break
		}
	}
	if len(jobs) > h.N {
		jobs = jobs[:h.N]
	}
	for _, j := range jobs {
		what, sh, depth := j.what, j.sh, j.depth
		caseLine := fmt.Sprintf("c06deep %s %d x %q inner=%q closer=%q", what, depth, sh.open, sh.inner, sh.closer)
		c06Pending(pend, caseLine+" (a type string nested this deep; the process died while handling it: stack overflow is not recoverable)")
		ty := c06DeepType(sh.open, depth, sh.inner, sh.closer)
		d1, crashed := c06DeepRun(what, ty)
		oracle := "ok"
		if crashed != "" {
			oracle = "FAIL:panic on a deeply nested type string: " + crashed
		}
		// linear time: four times the depth may not cost much more than four times the time (measured only when it matters)
		if oracle == "ok" && depth == base && d1 > 300*time.Millisecond {
			ty4 := c06DeepType(sh.open, depth*4, sh.inner, sh.closer)
			c06Pending(pend, caseLine+" x4 (timing run)")
			d4, _ := c06DeepRun(what, ty4)
			if d4 > 12*d1 && d4 > 3*time.Second {
				oracle = fmt.Sprintf("FAIL:super-linear time on nested types: depth %d takes %v, depth %d takes %v", depth, d1, depth*4, d4)
			}
		}
		if oracle == "ok" && d1 > 20*time.Second {
			oracle = fmt.Sprintf("FAIL:a type string of %d bytes takes %v", len(ty), d1)
		}
		c06Pending(pend, "")
		h.Emit(caseLine, "-", oracle)
		h.Stat("c06deep." + what)
		if strings.ContainsAny(sh.open+sh.closer, " \t\n") {
			h.Stat("c06deep.padded")
		}
	}
}
