package main

// c08Conn: an in-memory net.Conn whose read side is a script - the counterpart of the model's
// connection (coq/model/Stream.v): a list of events (a chunk of bytes | a silence longer than the
// read timeout) and a short-read pattern choosing how many of the available bytes each Read hands
// out.  Writes are accepted and counted.  Once the events are exhausted Read returns the tail error.
//
// A silence with a read deadline armed makes Read fail with a *net.OpError whose Timeout() is true
// (after really sleeping until the deadline when realtime is set), and is then over; without a
// deadline the Read just waits it out (for 40 ms when realtime is set, else at once).

import (
	"io"
	"net"
	"os"
	"sync"
	"time"
)

type c08Ev struct {
	data []byte // nil with gap=true
	gap  bool
}

type c08Conn struct {
	wdeadline        time.Time // write deadline as last set (SetWriteDeadline / SetDeadline)
	timeoutsOnWrites int       // read timeouts whose deadline was armed on the write side too
	mu       sync.Mutex
	evs      []c08Ev
	tail     error
	pattern  []int // applied cyclically to Read calls; 0 = everything available
	calls    int
	deadline time.Time
	realtime bool
	idle     time.Duration // how long a silence lasts when nobody times it out (realtime)
	closed   bool

	delivered int // bytes handed to the reader
	timeouts  int // timeouts returned
	written   int
	reads     int
}

type c08Addr struct{}

func (c08Addr) Network() string { return "c08" }
func (c08Addr) String() string  { return "c08" }

type c08TimeoutErr struct{}

func (c08TimeoutErr) Error() string   { return "i/o timeout" }
func (c08TimeoutErr) Timeout() bool   { return true }
func (c08TimeoutErr) Temporary() bool { return true }

func c08NewConn(evs []c08Ev, pattern []int, tail error, realtime bool) *c08Conn {
	cp := make([]c08Ev, len(evs))
	for i, e := range evs {
		cp[i] = c08Ev{data: append([]byte(nil), e.data...), gap: e.gap}
	}
	if tail == nil {
		tail = io.EOF
	}
	return &c08Conn{evs: cp, tail: tail, pattern: pattern, realtime: realtime, idle: 40 * time.Millisecond}
}

func (c *c08Conn) Read(p []byte) (int, error) {
	c.mu.Lock()
	defer c.mu.Unlock()
	c.reads++
	if c.closed {
		return 0, net.ErrClosed
	}
	if len(p) == 0 {
		return 0, nil
	}
	if c.realtime && !c.deadline.IsZero() && time.Now().After(c.deadline) {
		// as a real connection: a deadline that has passed fails the Read even when data is there
		c.timeouts++
		return 0, &net.OpError{Op: "read", Net: "c08", Addr: c08Addr{}, Err: c08TimeoutErr{}}
	}
	k := 0
	if len(c.pattern) > 0 {
		k = c.pattern[c.calls%len(c.pattern)]
	}
	c.calls++
	for {
		if len(c.evs) == 0 {
			return 0, c.tail
		}
		ev := c.evs[0]
		if ev.gap {
			c.evs = c.evs[1:]
			if c.deadline.IsZero() {
				// no deadline: the silence is waited out
				if c.realtime {
					c.mu.Unlock()
					time.Sleep(c.idle)
					c.mu.Lock()
				}
				continue
			}
			if c.realtime {
				d := time.Until(c.deadline)
				c.mu.Unlock()
				if d > 0 {
					time.Sleep(d)
				}
				c.mu.Lock()
			}
			c.timeouts++
			if !c.wdeadline.IsZero() && c.wdeadline.Equal(c.deadline) {
				// the deadline that just expired for this read was armed for writes as well: a write in progress at this
				// instant (the sending goroutine of the same query) fails with it
				c.timeoutsOnWrites++
			}
			return 0, &net.OpError{Op: "read", Net: "c08", Addr: c08Addr{}, Err: c08TimeoutErr{}}
		}
		if len(ev.data) == 0 {
			c.evs = c.evs[1:]
			return 0, nil
		}
		j := len(ev.data)
		if k > 0 && k < j {
			j = k
		}
		if len(p) < j {
			j = len(p)
		}
		copy(p, ev.data[:j])
		if j < len(ev.data) {
			c.evs[0].data = ev.data[j:]
		} else {
			c.evs = c.evs[1:]
		}
		c.delivered += j
		return j, nil
	}
}

func (c *c08Conn) Write(p []byte) (int, error) {
	c.mu.Lock()
	defer c.mu.Unlock()
	if c.closed {
		return 0, net.ErrClosed
	}
	c.written += len(p)
	return len(p), nil
}

func (c *c08Conn) Close() error {
	c.mu.Lock()
	defer c.mu.Unlock()
	c.closed = true
	return nil
}

func (c *c08Conn) LocalAddr() net.Addr  { return c08Addr{} }
func (c *c08Conn) RemoteAddr() net.Addr { return c08Addr{} }
func (c *c08Conn) SetDeadline(t time.Time) error {
	c.mu.Lock()
	c.wdeadline = t
	c.mu.Unlock()
	return c.SetReadDeadline(t)
}
func (c *c08Conn) SetReadDeadline(t time.Time) error {
	c.mu.Lock()
	defer c.mu.Unlock()
	c.deadline = t
	return nil
}
func (c *c08Conn) SetWriteDeadline(t time.Time) error {
	c.mu.Lock()
	c.wdeadline = t
	c.mu.Unlock()
	return nil
}

// remaining: bytes not yet handed to the reader
func (c *c08Conn) remaining() int {
	c.mu.Lock()
	defer c.mu.Unlock()
	n := 0
	for _, e := range c.evs {
		n += len(e.data)
	}
	return n
}

var _ net.Conn = (*c08Conn)(nil)
var _ = os.ErrDeadlineExceeded
