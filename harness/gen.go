package main

import (
	"math"
	"math/rand"
)

// boundary-biased generators; every choice comes from the one PRNG

func genBytes(r *rand.Rand) []byte {
	var n int
	switch r.Intn(12) {
	case 0:
		n = 0
	case 1:
		n = 1
	case 2:
		n = 127
	case 3:
		n = 128
	case 4:
		n = 129
	case 5:
		if r.Intn(4) == 0 {
			n = 16383 + r.Intn(3)
		} else {
			n = r.Intn(300)
		}
	default:
		n = r.Intn(24)
	}
	b := make([]byte, n)
	switch r.Intn(4) {
	case 0: // arbitrary bytes, non-UTF-8 included
		r.Read(b)
	case 1:
		for i := range b {
			b[i] = 0
		}
	default:
		for i := range b {
			b[i] = byte('a' + r.Intn(26))
		}
	}
	return b
}

func genShortBytes(r *rand.Rand) []byte {
	n := r.Intn(6)
	b := make([]byte, n)
	for i := range b {
		if r.Intn(5) == 0 {
			b[i] = byte(r.Intn(256))
		} else {
			b[i] = byte('a' + r.Intn(26))
		}
	}
	return b
}

var u64Boundaries = []uint64{0, 1, 2, 127, 128, 129, 255, 256, 16383, 16384, 1<<21 - 1, 1 << 21, 1<<28 - 1, 1 << 28,
	1<<31 - 1, 1 << 31, 1<<32 - 1, 1 << 32, 1<<35 - 1, 1 << 35, 1<<42 - 1, 1 << 42, 1<<49 - 1, 1 << 49, 1<<56 - 1, 1 << 56,
	1<<63 - 1, 1 << 63, math.MaxUint64 - 1, math.MaxUint64}

func genU64(r *rand.Rand) uint64 {
	switch r.Intn(3) {
	case 0:
		return u64Boundaries[r.Intn(len(u64Boundaries))]
	case 1:
		return uint64(r.Intn(1000))
	default:
		return r.Uint64() >> uint(r.Intn(64))
	}
}

func genInt(r *rand.Rand) int {
	switch r.Intn(4) {
	case 0:
		return int(int64(u64Boundaries[r.Intn(len(u64Boundaries))]))
	case 1:
		return -int(r.Intn(1000))
	case 2:
		return r.Intn(100000)
	default:
		return int(int64(r.Uint64()))
	}
}

func genI32(r *rand.Rand) int32 {
	switch r.Intn(4) {
	case 0:
		return []int32{0, 1, -1, math.MaxInt32, math.MinInt32, 127, 128, 255, 256}[r.Intn(9)]
	default:
		return int32(r.Uint32())
	}
}
