package main

// C04 (a failed query leaves the client closed or at a packet boundary) and the machinery shared
// with C10: scenario descriptions, the real Client.Do driven through a plan computed by the Coq
// model (gated runs), free-running runs with real timers, observations and the direct oracle.
//
// A scenario is a DESCRIPTION both sides interpret (the model: coq/model/DoLTS.v [compile]; here:
// a real ch.Query against a scripted server):
//
//   (sc <kind sel|ins|str|selx> <compressed t|f> <gate column t|f> <rows0> (<OnInput results ok|eof|eoft|err>...)
//       ((<avail> <packet kind> [ok|err])...) <cut: n | (k t|f)> <write fault: n | (k t|f)> [(<cwf|cle>...)])
//
// selx: a SELECT whose external data cannot be encoded (sendQuery itself fails).  The optional tenth element lists
// environment faults: cwf = the Write of the one-byte Cancel packet fails, cle = conn.Close reports an error
// although it closed (crypto/tls).
//
// Case line of a gated run:   do <sc> (<coarse schedule: s r rt w m env>...)
// Plan line (from the model): (go e..) (rel <role> <kind> <action> e..) (env e..) ...   e = <role>g | <role>x

import (
	"bytes"
	"context"
	"errors"
	"fmt"
	"io"
	"net"
	"os"
	"runtime"
	"strconv"
	"strings"
	"time"

	ch "github.com/ClickHouse/ch-go"
	"github.com/ClickHouse/ch-go/compress"
	"github.com/ClickHouse/ch-go/proto"
)

// ---------------------------------------------------------------- s-expressions (reader)

type c04Sx struct {
	atom string
	list []*c04Sx
	isL  bool
}

func c04ParseSx(s string) ([]*c04Sx, error) {
	var stack [][]*c04Sx
	cur := []*c04Sx{}
	i := 0
	for i < len(s) {
		c := s[i]
		switch {
		case c == '(':
			stack = append(stack, cur)
			cur = []*c04Sx{}
			i++
		case c == ')':
			if len(stack) == 0 {
				return nil, errors.New("unbalanced )")
			}
			l := &c04Sx{list: cur, isL: true}
			cur = append(stack[len(stack)-1], l)
			stack = stack[:len(stack)-1]
			i++
		case c == ' ' || c == '\t':
			i++
		default:
			j := i
			for j < len(s) && s[j] != '(' && s[j] != ')' && s[j] != ' ' && s[j] != '\t' {
				j++
			}
			cur = append(cur, &c04Sx{atom: s[i:j]})
			i = j
		}
	}
	if len(stack) != 0 {
		return nil, errors.New("unbalanced (")
	}
	return cur, nil
}

func (x *c04Sx) String() string {
	if !x.isL {
		return x.atom
	}
	var p []string
	for _, y := range x.list {
		p = append(p, y.String())
	}
	return "(" + strings.Join(p, " ") + ")"
}

// ---------------------------------------------------------------- scenarios

type c04SP struct {
	avail int
	kind  string // data tot prog prof tc info end exc unk unx mal
	cb    string // ok | err | "" (no callback)
}

type c04Scen struct {
	kind   string
	comp   bool
	gate   bool
	rows0  int
	rounds []string
	script []c04SP
	cut    int
	cutIn  bool
	wf     int
	wfPart bool
	cwf    bool // the Write of the Cancel packet fails
	cle    bool // conn.Close closes and reports an error
}

func c04HasCb(kind string) bool {
	return kind == "data" || kind == "tot" || kind == "prog" || kind == "prof"
}

func (s *c04Scen) String() string {
	var sp []string
	for _, p := range s.script {
		if p.cb != "" {
			sp = append(sp, fmt.Sprintf("(%d %s %s)", p.avail, p.kind, p.cb))
		} else {
			sp = append(sp, fmt.Sprintf("(%d %s)", p.avail, p.kind))
		}
	}
	cut := "n"
	if s.cut >= 0 {
		cut = fmt.Sprintf("(%d %s)", s.cut, bsym(s.cutIn))
	}
	wf := "n"
	if s.wf >= 0 {
		wf = fmt.Sprintf("(%d %s)", s.wf, bsym(s.wfPart))
	}
	flags := ""
	if s.cwf || s.cle {
		var fl []string
		if s.cwf {
			fl = append(fl, "cwf")
		}
		if s.cle {
			fl = append(fl, "cle")
		}
		flags = " (" + strings.Join(fl, " ") + ")"
	}
	return fmt.Sprintf("(sc %s %s %s %d (%s) (%s) %s %s%s)", s.kind, bsym(s.comp), bsym(s.gate), s.rows0,
		strings.Join(s.rounds, " "), strings.Join(sp, " "), cut, wf, flags)
}

func c04ScenOfSx(x *c04Sx) (*c04Scen, error) {
	if !x.isL || (len(x.list) != 9 && len(x.list) != 10) || x.list[0].atom != "sc" {
		return nil, errors.New("bad scenario")
	}
	l := x.list
	s := &c04Scen{kind: l[1].atom, comp: l[2].atom == "t", gate: l[3].atom == "t", cut: -1, wf: -1}
	s.rows0, _ = strconv.Atoi(l[4].atom)
	for _, r := range l[5].list {
		s.rounds = append(s.rounds, r.atom)
	}
	for _, p := range l[6].list {
		if len(p.list) < 2 {
			return nil, errors.New("bad packet")
		}
		sp := c04SP{kind: p.list[1].atom}
		sp.avail, _ = strconv.Atoi(p.list[0].atom)
		if len(p.list) > 2 {
			sp.cb = p.list[2].atom
		}
		s.script = append(s.script, sp)
	}
	if l[7].isL {
		s.cut, _ = strconv.Atoi(l[7].list[0].atom)
		s.cutIn = l[7].list[1].atom == "t"
	}
	if l[8].isL {
		s.wf, _ = strconv.Atoi(l[8].list[0].atom)
		s.wfPart = l[8].list[1].atom == "t"
	}
	if len(l) == 10 {
		if !l[9].isL {
			return nil, errors.New("bad scenario flags")
		}
		for _, f := range l[9].list {
			switch f.atom {
			case "cwf":
				s.cwf = true
			case "cle":
				s.cle = true
			default:
				return nil, errors.New("unknown scenario flag " + f.atom)
			}
		}
	}
	return s, nil
}

const c04Rev = proto.Version

func c04Compression(comp bool) ch.Compression {
	if comp {
		return ch.CompressionLZ4
	}
	return ch.CompressionDisabled
}

// bytes of one server packet
func c04PacketBytes(kind string, comp bool) []byte {
	var b proto.Buffer
	block := func(code proto.ServerCode, rows int) {
		code.Encode(&b)
		b.PutString("")
		var blk proto.Buffer
		col := make(proto.ColUInt8, rows)
		for i := range col {
			col[i] = uint8(10 + i)
		}
		if err := (proto.Block{Columns: 1, Rows: rows, Info: proto.BlockInfo{BucketNum: -1}}).EncodeBlock(&blk, c04Rev,
			[]proto.InputColumn{{Name: "v", Data: &col}}); err != nil {
			panic(err)
		}
		if comp {
			w := compress.NewWriter(0, compress.LZ4)
			if err := w.Compress(blk.Buf); err != nil {
				panic(err)
			}
			b.Buf = append(b.Buf, w.Data...)
		} else {
			b.Buf = append(b.Buf, blk.Buf...)
		}
	}
	switch kind {
	case "data":
		block(proto.ServerCodeData, 2)
	case "tot":
		block(proto.ServerCodeTotals, 1)
	case "info":
		block(proto.ServerCodeData, 0)
	case "prog":
		proto.ServerCodeProgress.Encode(&b)
		proto.Progress{Rows: 5, Bytes: 7, TotalRows: 9}.EncodeAware(&b, c04Rev)
	case "prof":
		proto.Profile{Rows: 5, Blocks: 1, Bytes: 7}.EncodeAware(&b, c04Rev)
	case "tc":
		proto.TableColumns{First: "", Second: "columns format version: 1\n1 columns:\n`v` UInt8\n"}.EncodeAware(&b, c04Rev)
	case "end":
		proto.ServerCodeEndOfStream.Encode(&b)
	case "exc":
		proto.ServerCodeException.Encode(&b)
		// a chain of two: a short first element and a longer nested cause, so that a cut "inside the packet"
		// (after its first half) falls inside the nested element, after one complete exception was decoded
		(&proto.Exception{Code: proto.ErrUnknownTable, Name: "DB::Exception", Message: "DB::Exception: scripted", Stack: "s", Nested: true}).EncodeAware(&b, c04Rev)
		(&proto.Exception{Code: proto.ErrBadArguments, Name: "DB::Exception", Message: "DB::Exception: the nested cause of the scripted exception, long enough to hold the middle of the packet", Stack: "s2"}).EncodeAware(&b, c04Rev)
	case "unk":
		b.PutUVarInt(99)
	case "unx":
		proto.ServerCodePong.Encode(&b)
	case "mal":
		proto.ServerCodeProgress.Encode(&b)
		b.Buf = append(b.Buf, bytes.Repeat([]byte{0xff}, 12)...)
	default:
		panic("c04: unknown packet kind " + kind)
	}
	return b.Buf
}

func c04HelloBytes() []byte {
	var b proto.Buffer
	hello := proto.ServerHello{Name: "scripted", Major: 23, Minor: 8, Revision: c04Rev, Timezone: "UTC", DisplayName: "c04"}
	hello.EncodeAware(&b, c04Rev)
	return b.Buf
}

// the gate column: a user-defined input column whose encoding methods are gates
type c04GateCol struct {
	d    proto.ColUInt8
	ctl  *c04Ctl
	gate bool
}

func (g *c04GateCol) Type() proto.ColumnType { return g.d.Type() }
func (g *c04GateCol) Rows() int              { return g.d.Rows() }
func (g *c04GateCol) EncodeColumn(b *proto.Buffer) {
	if g.gate {
		g.ctl.gate("col", nil)
	}
	g.d.EncodeColumn(b)
}
func (g *c04GateCol) WriteColumn(w *proto.Writer) {
	if g.gate {
		g.ctl.gate("col", nil)
	}
	g.d.WriteColumn(w)
}

// the external-data column of a selx scenario with a gate: its Prepare is a gate, then fails like ColEnum's own
type c04PrepCol struct {
	*proto.ColEnum
	ctl *c04Ctl
}

func (p *c04PrepCol) Prepare() error {
	p.ctl.gate("col", nil)
	return p.ColEnum.Prepare()
}

func (g *c04GateCol) set(rows int) {
	g.d = g.d[:0]
	for i := 0; i < rows; i++ {
		g.d = append(g.d, uint8(20+i))
	}
}

// ---------------------------------------------------------------- one run

type c04Run struct {
	sc     *c04Scen
	ctl    *c04Ctl
	conn   *c04Conn
	client *ch.Client
	col    *c04GateCol
	pkts   [][]byte

	rcb, scb  int // callbacks invoked on the receiver / sender side
	delivered int // server packets handed to Read (gated mode)
	cbOf      []int
	lastPkt   int
	hookSeen  []string

	cancel           context.CancelFunc
	ctx              context.Context
	distantDeadline  bool // the caller's context also carries a deadline far in the future
	doErr            error
	doDone           chan struct{}
	doWall           time.Duration
	strict           *bool
	wakeAfterCancel  bool // steered runs: the cancel watch was let past its wake point after the caller's context had ended
	cancelBranchOpen bool // steered runs: the cancel watch entered its cancel branch (hook do.watch.cancel) while the connection was open
}

var errC04Callback = errors.New("c04: callback failed")

func c04NewRun(sc *c04Scen, readTimeout time.Duration) (*c04Run, error) {
	r := &c04Run{sc: sc, ctl: newC04Ctl(), lastPkt: -1}
	r.conn = newC04Conn(r.ctl)
	if sc.cle {
		r.conn.closeErr = true
	}
	if sc.cwf {
		r.conn.cancelFails = true // gated runs: the plan says so at the gate; this is for a run that left its plan
	}
	for _, p := range sc.script {
		r.pkts = append(r.pkts, c04PacketBytes(p.kind, sc.comp))
	}
	r.conn.script = []c04SrvPkt{{bytes: c04HelloBytes()}}
	ctx, cancel := context.WithTimeout(context.Background(), 5*time.Second)
	defer cancel()
	cl, err := ch.Connect(ctx, r.conn, ch.Options{Compression: c04Compression(sc.comp), ReadTimeout: readTimeout})
	if err != nil {
		return nil, err
	}
	r.client = cl
	r.col = &c04GateCol{ctl: r.ctl, gate: sc.gate}
	r.col.set(sc.rows0)
	return r, nil
}

func (r *c04Run) rcallback() error {
	i := r.lastPkt
	r.rcb++
	r.ctl.gate("cb", nil)
	if i >= 0 && i < len(r.sc.script) && r.sc.script[i].cb == "err" {
		return errC04Callback
	}
	if i >= 0 && i < len(r.sc.script) && r.sc.script[i].cb == "errx" {
		// the callback's own failure is a server exception met elsewhere (say, a nested query on another
		// connection): still a failing user callback, not an exception packet of THIS query
		return fmt.Errorf("c04: nested query failed: %w", &ch.Exception{Code: proto.ErrUnknownTable, Name: "DB::Exception", Message: "nested"})
	}
	return nil
}

func (r *c04Run) query() ch.Query {
	sc := r.sc
	q := ch.Query{Body: "SELECT v FROM t", QueryID: "c04"}
	q.OnProgress = func(ctx context.Context, p proto.Progress) error { return r.rcallback() }
	q.OnProfile = func(ctx context.Context, p proto.Profile) error { return r.rcallback() }
	if sc.kind == "sel" || sc.kind == "selx" {
		var got proto.ColUInt8
		q.Result = proto.Results{{Name: "v", Data: &got}}
		q.OnResult = func(ctx context.Context, b proto.Block) error { return r.rcallback() }
		if sc.kind == "selx" {
			// external data that cannot be encoded (a value that is not a member of the enum): sendQuery itself fails,
			// after the Query packet has been encoded into the writer
			e := new(proto.ColEnum)
			_ = e.Infer("Enum8('a' = 1, 'b' = 2)")
			e.Append("a")
			e.Append("no-such-member")
			q.ExternalTable = "ext"
			q.ExternalData = proto.Input{{Name: "e", Data: e}}
			if sc.gate {
				// steered runs: the failing Prepare is a gate of the sender (the model's AGate before AEncFail), so that
				// the instant of the failure relative to the other goroutines is the plan's choice
				q.ExternalData = proto.Input{{Name: "e", Data: &c04PrepCol{ColEnum: e, ctl: r.ctl}}}
			}
		}
		return q
	}
	q.Body = "INSERT INTO t VALUES"
	q.Input = proto.Input{{Name: "v", Data: r.col}}
	if sc.kind == "str" {
		q.OnInput = func(ctx context.Context) error {
			j := r.scb
			r.scb++
			r.ctl.gate("cbin", nil)
			res := "eof"
			if j < len(sc.rounds) {
				res = sc.rounds[j]
			}
			switch res {
			case "ok":
				r.col.set(2)
				return nil
			case "eoft":
				r.col.set(2)
				return io.EOF
			case "err":
				return errC04Callback
			default:
				r.col.set(0)
				return io.EOF
			}
		}
	}
	return q
}

// startDo switches the connection to the query phase and calls Do on its own goroutine.
func (r *c04Run) startDo(gated bool) {
	r.conn.mu.Lock()
	r.conn.phase = 1
	r.conn.script = nil
	r.conn.spos = 0
	for i, p := range r.sc.script {
		r.conn.script = append(r.conn.script, c04SrvPkt{bytes: r.pkts[i], avail: p.avail})
	}
	r.conn.cutAt, r.conn.cutIn = r.sc.cut, r.sc.cutIn
	r.conn.wfaultAt = r.sc.wf
	r.conn.wfaultN = 0
	if r.sc.wfPart {
		r.conn.wfaultN = 1
	}
	r.conn.mu.Unlock()
	r.ctl.mu.Lock()
	r.ctl.gated = gated
	r.ctl.mu.Unlock()
	c04CurCtl.Store(r.ctl)
	if r.distantDeadline {
		// a request budget far beyond the read timeout, cancelled explicitly long before it: the receive loop must
		// still wake up every ReadTimeout to notice the cancellation (packet(): deadline = min(read timeout, ctx deadline))
		dctx, dcancel := context.WithTimeout(context.Background(), 30*time.Second)
		cctx, ccancel := context.WithCancel(dctx)
		r.ctx, r.cancel = cctx, func() { ccancel(); dcancel() }
	} else {
		r.ctx, r.cancel = context.WithCancel(context.Background())
	}
	r.doDone = make(chan struct{})
	q := r.query()
	go func() {
		t0 := time.Now()
		r.doErr = r.client.Do(r.ctx, q)
		r.doWall = time.Since(t0)
		close(r.doDone)
	}()
}

// number of goroutines started by errgroup.Group.Go that are still alive
func c04GroupAlive() int {
	buf := make([]byte, 1<<16)
	for {
		n := runtime.Stack(buf, true)
		if n < len(buf) {
			buf = buf[:n]
			break
		}
		buf = make([]byte, 2*len(buf))
	}
	return strings.Count(string(buf), "created by golang.org/x/sync/errgroup.(*Group).Go")
}

// goroutines of package ch still alive (frames of the library on some stack)
func c04LibAlive() int {
	buf := make([]byte, 1<<18)
	n := runtime.Stack(buf, true)
	k := 0
	for _, g := range strings.Split(string(buf[:n]), "\n\n") {
		if strings.Contains(g, "github.com/ClickHouse/ch-go.") || strings.Contains(g, "github.com/ClickHouse/ch-go/chpool.") {
			k++
		}
	}
	return k
}

const c04Infeasible = 2 * time.Second
const c04MaxInfeasible = 40

// runPlan follows the model's plan. It returns "" or the reason the plan is infeasible on the implementation.
func (r *c04Run) runPlan(plan []*c04Sx) string {
	alive := 3
	expect := func(items []*c04Sx) string {
		for _, e := range items {
			a := e.atom
			if len(a) != 2 {
				return "bad expectation " + a
			}
			role, what := a[:1], a[1:]
			switch what {
			case "g":
				if !r.ctl.waitRole(role, c04Infeasible) {
					return fmt.Sprintf("role %s did not arrive at a gate (pending: %v)", role, r.ctl.pendingKinds())
				}
			case "x":
				if role == "m" {
					select {
					case <-r.doDone:
					case <-time.After(c04Infeasible):
						return "Do did not return"
					}
				} else {
					alive--
					dl := time.Now().Add(c04Infeasible)
					for c04GroupAlive() > alive {
						if time.Now().After(dl) || r.ctl.roleDiverged(role, "") {
							return fmt.Sprintf("goroutine %s did not exit (pending: %v)", role, r.ctl.pendingKinds())
						}
						time.Sleep(20 * time.Microsecond)
					}
				}
			}
		}
		return ""
	}
	for _, it := range plan {
		if !it.isL || len(it.list) == 0 {
			return "bad plan item"
		}
		switch it.list[0].atom {
		case "go":
			r.startDo(true)
			if why := expect(it.list[1:]); why != "" {
				return "start: " + why
			}
		case "env":
			r.conn.markCancelled()
			r.cancel()
			if why := expect(it.list[1:]); why != "" {
				return "env: " + why
			}
		case "rel":
			kind, act := it.list[2].atom, it.list[3]
			if r.ctl.roleDiverged(it.list[1].atom, kind) {
				return fmt.Sprintf("role %s is at another gate than %s (pending: %v)", it.list[1].atom, kind, r.ctl.pendingKinds())
			}
			a := r.ctl.await([]string{kind}, c04Infeasible)
			if a == nil {
				return fmt.Sprintf("no arrival of kind %s (pending: %v)", kind, r.ctl.pendingKinds())
			}
			if kind == "hwake" {
				r.conn.mu.Lock()
				r.wakeAfterCancel = r.conn.cancelled
				r.conn.mu.Unlock()
			}
			if kind == "hcancel" {
				r.conn.mu.Lock()
				r.cancelBranchOpen = !r.conn.closed
				r.conn.mu.Unlock()
			}
			rep := c04Reply{n: -1}
			switch {
			case act.atom == "cl":
				rep = c04Reply{err: &net.OpError{Op: "read", Net: "mem", Err: net.ErrClosed}, n: 0, onClosed: true}
			case act.atom == "to":
				rep.err = c04Timeout("read")
			case act.atom == "eof":
				rep.err = io.EOF
				rep.eofNext = true
			case act.isL && act.list[0].atom == "d":
				i, _ := strconv.Atoi(act.list[1].atom)
				rep.data = r.pkts[i]
				r.lastPkt = i
				r.delivered = i + 1
			case act.isL && act.list[0].atom == "h":
				i, _ := strconv.Atoi(act.list[1].atom)
				b := r.pkts[i]
				rep.data = b[:len(b)/2]
				rep.eofNext = true
				if len(rep.data) == 0 {
					rep.err = io.EOF
				}
				r.lastPkt = i
				r.delivered = i + 1
			case act.isL && act.list[0].atom == "f":
				rep.err = errors.New("c04: injected write failure")
				rep.n = 0
				if act.list[1].atom == "t" {
					rep.n = 1
				}
			}
			r.conn.mu.Lock()
			rep.afterC = r.conn.cancelled
			r.conn.mu.Unlock()
			a.reply <- rep
			if why := expect(it.list[4:]); why != "" {
				return fmt.Sprintf("after %s: %s", it.String(), why)
			}
		default:
			return "bad plan item " + it.String()
		}
	}
	select {
	case <-r.doDone:
	case <-time.After(c04Infeasible):
		return fmt.Sprintf("plan exhausted but Do has not returned (pending: %v)", r.ctl.pendingKinds())
	}
	return ""
}

// ---------------------------------------------------------------- observations

type c04Obs struct {
	failed, isCtx, isExc bool
	closed               bool
	pingPanic            string // the follow-up request panicked inside the library
	closeCalls           int
	toks                 string // per Write call of the query phase: d data, p failed write, c Cancel, z anything else <= 2 bytes holding a Cancel code
	boundary             bool   // the data written (Cancel apart) ends at a packet boundary
	cbs                  int
	ping                 string // rej | clean | stale
	pong                 bool
	pingTouched          int
	emptyFailAfterC      int
	doTouched            int  // connection calls made by a Do on the closed client
	doRejected           bool // that Do returned ErrClosed
	leaked               int
	afterCancel          string // tokens written after the caller's cancellation
	mustCancel           bool   // the cancel watch woke after the caller's context had ended and the server sent no exception
	cancelNotAttempted   bool   // the watch took its cancel branch on an open connection and no Write of the Cancel packet was attempted
}

// c04ParseOut decodes the client's byte stream with the library's own decoders; true iff it is a
// sequence of complete packets (a truncated packet fails to decode).
func c04ParseOut(data []byte, comp bool) bool {
	r := proto.NewReader(bytes.NewReader(data))
	for {
		code, err := r.UVarInt()
		if err != nil {
			return errors.Is(err, io.EOF) // nothing left: a packet boundary
		}
		switch proto.ClientCode(code) {
		case proto.ClientCodeQuery:
			var q proto.Query
			if err := q.DecodeAware(r, c04Rev); err != nil {
				return false
			}
		case proto.ClientCodeData:
			var d proto.ClientData
			if err := d.DecodeAware(r, c04Rev); err != nil {
				return false
			}
			var blk proto.Block
			if comp {
				r.EnableCompression()
			}
			err := blk.DecodeBlock(r, c04Rev, (&proto.Results{}).Auto())
			if comp {
				r.DisableCompression()
			}
			if err != nil {
				return false
			}
		case proto.ClientCodePing, proto.ClientCodeCancel:
		default:
			return false
		}
	}
}

func c04Boundary(ws []c04Write, comp bool) bool {
	var data []byte
	for _, w := range ws {
		if c04IsCancel(w.data) && !w.failed {
			continue
		}
		data = append(data, w.data...)
	}
	return c04ParseOut(data, comp)
}

func (r *c04Run) observe() c04Obs {
	var o c04Obs
	err := r.doErr
	o.mustCancel = r.wakeAfterCancel
	for _, p := range r.sc.script {
		if p.kind == "exc" || p.cb == "errx" {
			o.mustCancel = false
		}
	}
	o.failed = err != nil
	o.isCtx = err != nil && (errors.Is(err, context.Canceled) || errors.Is(err, context.DeadlineExceeded))
	o.isExc = err != nil && ch.IsException(err)
	if o.isExc {
		// "the query was ended by the server's exception packet": an Exception a user callback returned (cb errx,
		// recognisable by its message) is the callback's failure, not the server's verdict on this query
		var ex *ch.Exception
		if errors.As(err, &ex) && ex.Message == "nested" {
			o.isExc = false
		}
	}
	o.closed = r.client.IsClosed()
	ws := r.conn.phaseWrites(1)
	// only where nothing but the caller's cancellation ends the query: no write fault, cut, failing callback, exception or
	// bad packet in the scenario - then nobody closes the client before cancelQuery has written (a sender whose write
	// failed closes it, and the Cancel write then fails before it reaches the connection)
	onlyCancel := r.sc.wf < 0 && r.sc.cut < 0 && !r.sc.cwf && !r.sc.cle && (r.sc.kind == "sel" || r.sc.kind == "ins" || r.sc.kind == "str")
	for _, p := range r.sc.script {
		switch p.kind {
		case "info", "prog", "prof", "tc", "data", "tot", "end":
			if p.cb != "" && p.cb != "ok" {
				onlyCancel = false
			}
		default:
			onlyCancel = false
		}
	}
	for _, rd := range r.sc.rounds {
		if rd != "ok" && rd != "eof" && rd != "eoft" {
			onlyCancel = false
		}
	}
	if r.cancelBranchOpen && onlyCancel {
		o.cancelNotAttempted = true
		for _, w := range ws {
			if w.cancelW {
				o.cancelNotAttempted = false // written, or tried and failed: best effort was made
			}
		}
	}
	var tk, ac strings.Builder
	for _, w := range ws {
		t := "d"
		switch {
		case c04IsCancel(w.data) && !w.failed:
			t = "c"
		case w.failed && len(w.data) == 0:
			if w.afterC && !w.cancelW {
				o.emptyFailAfterC++
			}
			continue // a failed write that accepted nothing leaves no bytes
		case w.failed:
			t = "p"
		case len(w.data) <= 2 && bytes.IndexByte(w.data, 3) >= 0:
			t = "z"
		}
		tk.WriteString(t)
		if w.afterC {
			ac.WriteString(t)
		}
	}
	o.toks, o.afterCancel = tk.String(), ac.String()
	o.boundary = c04Boundary(ws, r.sc.comp)
	o.cbs = r.rcb + r.scb
	r.conn.mu.Lock()
	o.closeCalls = r.conn.closeCalls
	r.conn.mu.Unlock()
	return o
}

// followUp: a Ping on the same client; the server keeps streaming what it had not delivered, then answers Pong.
func (r *c04Run) followUp(o *c04Obs) {
	r.ctl.ungate()
	r.conn.mu.Lock()
	r.conn.phase = 2
	r.conn.script = nil
	r.conn.spos = 0
	// the server does not know the client gave up: it keeps sending what is left of the failed query
	for i := r.delivered; i < len(r.pkts); i++ {
		r.conn.script = append(r.conn.script, c04SrvPkt{bytes: r.pkts[i]})
	}
	r.conn.cutAt, r.conn.wfaultAt = -1, -1
	r.conn.pong = true
	r.conn.rbuf = nil
	r.conn.cond.Broadcast()
	r.conn.mu.Unlock()
	ctx, cancel := context.WithTimeout(context.Background(), time.Second)
	defer cancel()
	var err error
	func() {
		defer func() {
			if p := recover(); p != nil {
				o.pingPanic = fmt.Sprintf("%v", p)
				err = fmt.Errorf("panic: %v", p)
			}
		}()
		err = r.client.Ping(ctx)
	}()
	r.conn.mu.Lock()
	o.pingTouched = r.conn.touched
	r.conn.mu.Unlock()
	pw := r.conn.phaseWrites(2)
	var sent []byte
	for _, w := range pw {
		sent = append(sent, w.data...)
	}
	switch {
	case errors.Is(err, ch.ErrClosed) && len(pw) == 0:
		o.ping = "rej"
	case bytes.Equal(sent, []byte{byte(proto.ClientCodePing)}):
		o.ping = "clean"
	default:
		o.ping = "stale"
	}
	o.pong = err == nil
	if o.closed {
		// Do itself on the closed client
		derr := r.client.Do(ctx, ch.Query{Body: "SELECT 1"})
		r.conn.mu.Lock()
		o.doTouched = r.conn.touched - o.pingTouched
		r.conn.mu.Unlock()
		o.doRejected = errors.Is(derr, ch.ErrClosed)
	}
}

func (o c04Obs) String() string {
	// dac: data Write calls that reached the connection after the caller's context ended
	dac := strings.Count(o.afterCancel, "d") + strings.Count(o.afterCancel, "p") + o.emptyFailAfterC
	return fmt.Sprintf("ok e=%s ctx=%s exc=%s closed=%s ncl=%d w=%s ob=%s cbs=%d dac=%d ping=%s pong=%s",
		bsym(o.failed), bsym(o.isCtx), bsym(o.isExc), bsym(o.closed), o.closeCalls, "-"+o.toks, bsym(o.boundary), o.cbs, dac, o.ping, bsym(o.pong))
}

// the direct oracle: C04 on the implementation alone
func (o c04Obs) oracleC04(sc *c04Scen) string {
	var bad []string
	if o.pingPanic != "" {
		bad = append(bad, "the next request on the client after the query panicked inside the library (leftover writer state): "+o.pingPanic)
	}
	if o.failed && !o.closed {
		if o.ping != "clean" {
			bad = append(bad, "open client after a failed query sends leftovers of the failed query ahead of the next request")
		}
		if !o.boundary {
			bad = append(bad, "open client after a failed query: outbound stream is not at a packet boundary")
		}
		if !o.pong {
			bad = append(bad, "open client after a failed query is not at an inbound packet boundary (the following Ping does not get its Pong)")
		}
	}
	if o.closed && (o.ping != "rej" || o.pingTouched != 0) {
		bad = append(bad, fmt.Sprintf("closed client does not reject the next call without touching the connection (ping=%s, connection calls=%d)", o.ping, o.pingTouched))
	}
	if o.closed && (!o.doRejected || o.doTouched != 0) {
		bad = append(bad, fmt.Sprintf("closed client: Do does not reject without touching the connection (ErrClosed=%v, connection calls=%d)", o.doRejected, o.doTouched))
	}
	if o.closeCalls > 1 {
		bad = append(bad, "connection closed more than once")
	}
	if o.leaked > 0 {
		bad = append(bad, fmt.Sprintf("%d goroutine(s) of the library outlive Do", o.leaked))
	}
	if len(bad) == 0 {
		return "ok"
	}
	return "FAIL:" + strings.Join(bad, "; ")
}

// C10 on the implementation alone (only for runs in which the caller's context ended before Do returned)
func (o c04Obs) oracleC10() string {
	var bad []string
	if !o.failed {
		if o.mustCancel {
			// the receiver had returned and the watch looked at the context AFTER the caller had ended it (the plan's
			// order), no server exception in the scenario: the cancellation was seen, it has to be acted on
			return "FAIL:C10 the caller's context ended before the cancel watch looked at it and the server sent no exception, yet Do returned nil"
		}
		return "ok" // the query had already completed when the context ended
	}
	if !o.isCtx {
		bad = append(bad, "Do's error does not match the context's error after cancellation")
	}
	if !o.closed {
		bad = append(bad, "client left open after cancellation")
	}
	if o.cancelNotAttempted {
		bad = append(bad, "the cancel watch took its cancel branch while the connection was open, but no Write of the Cancel packet was even attempted")
	}
	nc := strings.Count(o.toks, "c")
	if strings.Contains(o.toks, "z") {
		bad = append(bad, "Cancel is not a well-formed one-byte packet (stray bytes written with it)")
	}
	if nc > 1 {
		bad = append(bad, "more than one Cancel packet")
	}
	if o.leaked > 0 {
		bad = append(bad, fmt.Sprintf("%d goroutine(s) of the library outlive Do", o.leaked))
	}
	if len(bad) == 0 {
		return "ok"
	}
	return "FAIL:C10 " + strings.Join(bad, "; ")
}

func c04Leaked() int {
	dl := time.Now().Add(200 * time.Millisecond)
	for {
		n := c04LibAlive()
		if n == 0 || time.Now().After(dl) {
			return n
		}
		time.Sleep(200 * time.Microsecond)
	}
}

// c04Gated runs one (scenario, coarse schedule) case through its plan.
func c04Gated(scx *c04Sx, plan []*c04Sx) (obs string, oracle string, o c04Obs) {
	sc, err := c04ScenOfSx(scx)
	if err != nil {
		return "-", "FAIL:harness: " + err.Error(), o
	}
	r, err := c04NewRun(sc, c04ReadTimeout)
	if err != nil {
		return "-", "FAIL:handshake with the scripted server failed: " + err.Error(), o
	}
	why := r.runPlan(plan)
	if why != "" {
		// the implementation left the plan: let it run on without gates (the scripted server carries on from
		// where the plan stopped, the caller gives up after a while) and judge the outcome by the direct oracle
		r.conn.mu.Lock()
		if r.conn.phase == 1 {
			r.conn.spos = r.delivered
		}
		r.conn.mu.Unlock()
		r.ctl.ungate()
		if r.doDone == nil {
			return "infeasible " + why, "-", o
		}
		// a plan without a cancellation step is a complete schedule of a query that ENDS (the model's Do returns under it,
		// whatever the interleaving: script and faults are the scenario's): the call has to return by itself, the read
		// timeout being finite.  It is given a hundred read timeouts before the caller gives up.
		selfReturn := c04CallerDeadline
		planCancels := false
		for _, it := range plan {
			if it.isL && len(it.list) > 0 && it.list[0].atom == "env" {
				planCancels = true
			}
		}
		if !planCancels {
			selfReturn = 100 * c04ReadTimeout
		}
		gaveUp := false
		select {
		case <-r.doDone:
		case <-time.After(selfReturn):
			gaveUp = true
			r.cancel()
			select {
			case <-r.doDone:
			case <-time.After(c04ReadTimeout + c04Grace):
				_ = r.conn.Close()
				return "infeasible " + strings.ReplaceAll(why, "\t", " "), "FAIL:Do did not return after the caller cancelled (run continued without gates)", o
			}
		}
		if gaveUp && !planCancels {
			o = r.observe()
			r.cancel()
			return "infeasible " + strings.ReplaceAll(why, "\t", " "),
				fmt.Sprintf("FAIL:the query ends (the scenario's fault or final packet is reached on every interleaving) but Do did not return by itself within %v (read timeout %v): it returned only after the caller gave up", selfReturn, c04ReadTimeout), o
		}
		o = r.observe()
		o.leaked = c04Leaked()
		r.conn.mu.Lock()
		if r.conn.spos > r.delivered {
			r.delivered = r.conn.spos
		}
		r.conn.mu.Unlock()
		r.followUp(&o)
		r.cancel()
		return "infeasible " + strings.ReplaceAll(why, "\t", " "), "", o
	}
	o = r.observe()
	o.leaked = c04Leaked()
	r.followUp(&o)
	r.cancel()
	return o.String(), "", o
}

func init() {
	runners["c04"] = runC04
}

// runC04: -arg plans=<file>: lines "<case>\t<plan>\t<c10 t|f>" produced by checks/c04.py from the model;
// then a free-running part with real timers (direct oracle only).
func runC04(h *H) {
	c04RunPlans(h, "C04")
	c04Free(h, "c04")
}

func c04RunPlans(h *H, prop string) {
	path := h.Args["plans"]
	if path == "" {
		return
	}
	raw, err := os.ReadFile(path)
	if err != nil {
		panic(err)
	}
	infeasible := 0
	for _, line := range strings.Split(string(raw), "\n") {
		if line == "" {
			continue
		}
		parts := strings.Split(line, "\t")
		if len(parts) < 2 {
			panic("bad plan line")
		}
		cx, err := c04ParseSx(parts[0])
		if err != nil || len(cx) != 3 {
			panic("bad case: " + parts[0])
		}
		plan, err := c04ParseSx(parts[1])
		if err != nil {
			panic("bad plan: " + parts[1])
		}
		if infeasible >= c04MaxInfeasible {
			// the implementation does not follow the model any more: the rest is not steered
			h.Emit(parts[0], "-", "-")
			h.Stat(prop + ".not-steered")
			continue
		}
		obs, oracle, o := c04Gated(cx[1], plan)
		if strings.HasPrefix(obs, "infeasible") {
			infeasible++
		}
		if oracle == "" {
			// each family judges its own property: C04 runs have no cancellation, C10 runs all have one
			if prop == "C10" {
				oracle = o.oracleC10()
			} else {
				oracle = o.oracleC04(nil)
			}
		}
		h.Emit(parts[0], obs, oracle)
		h.Stat(prop + ".gated." + cx[1].list[1].atom)
		if strings.HasPrefix(obs, "infeasible") {
			h.Stat(prop + ".infeasible")
		}
	}
}
