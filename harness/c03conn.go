package main

// A scripted in-memory net.Conn for C03: everything the "server" will ever say is known up front
// (the hello answer followed by the packet script), everything the client writes is counted and
// dropped.  Read hands the bytes out in pieces of at most `chunk` bytes and reports io.EOF once
// the script is exhausted (the server closed the connection).  No goroutine, no timing.

import (
	"io"
	"net"
	"sync"
	"time"
)

type c03Conn struct {
	mu     sync.Mutex
	in     []byte
	pos    int
	chunk  int // 0 = as much as fits
	wrote  int
	writes int
	closed bool
}

func (c *c03Conn) Read(p []byte) (int, error) {
	c.mu.Lock()
	defer c.mu.Unlock()
	if c.closed {
		return 0, net.ErrClosed
	}
	if c.pos >= len(c.in) {
		return 0, io.EOF
	}
	n := len(p)
	if c.chunk > 0 && n > c.chunk {
		n = c.chunk
	}
	n = copy(p[:n], c.in[c.pos:])
	c.pos += n
	return n, nil
}

func (c *c03Conn) Write(p []byte) (int, error) {
	c.mu.Lock()
	defer c.mu.Unlock()
	if c.closed {
		return 0, net.ErrClosed
	}
	c.wrote += len(p)
	c.writes++
	return len(p), nil
}

func (c *c03Conn) Close() error {
	c.mu.Lock()
	defer c.mu.Unlock()
	c.closed = true
	return nil
}

func (c *c03Conn) consumed() int {
	c.mu.Lock()
	defer c.mu.Unlock()
	return c.pos
}

type c03Addr struct{}

func (c03Addr) Network() string { return "mem" }
func (c03Addr) String() string  { return "scripted:9000" }

func (c *c03Conn) LocalAddr() net.Addr                { return c03Addr{} }
func (c *c03Conn) RemoteAddr() net.Addr               { return c03Addr{} }
func (c *c03Conn) SetDeadline(t time.Time) error      { return nil }
func (c *c03Conn) SetReadDeadline(t time.Time) error  { return nil }
func (c *c03Conn) SetWriteDeadline(t time.Time) error { return nil }
