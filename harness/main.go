// Command vharness runs the real ch-go implementation on generated cases and
// writes transcripts for the correspondence check.  One sub-command per
// property family; see /verif/DESIGN.md.
//
// Transcript: one case per line, three tab-separated columns
//
//	<case, consumed by the model evaluator> \t <observation on the implementation> \t <direct oracle: ok | FAIL:... | ->
package main

import (
	"bufio"
	"encoding/hex"
	"flag"
	"fmt"
	"math/rand"
	"os"
	"sort"
	"strings"
)

type runner func(h *H)

var runners = map[string]runner{}

// H is the harness context handed to every sub-command.
type H struct {
	R     *rand.Rand
	Seed  int64
	N     int    // case budget
	Tier  string // quick | thorough
	out   *bufio.Writer
	Count int
	Stats map[string]int
	Args  map[string]string
}

func (h *H) Emit(c, obs, oracle string) {
	if strings.ContainsAny(c, "\t\n") || strings.ContainsAny(obs, "\t\n") || strings.ContainsAny(oracle, "\t\n") {
		panic("tab/newline in transcript field: " + c)
	}
	fmt.Fprintf(h.out, "%s\t%s\t%s\n", c, obs, oracle)
	h.Count++
}

func (h *H) Stat(k string) { h.Stats[k]++ }

func hx(b []byte) string { return "x" + hex.EncodeToString(b) }

func sx(items ...string) string { return "(" + strings.Join(items, " ") + ")" }

func bsym(b bool) string {
	if b {
		return "t"
	}
	return "f"
}

func main() {
	if len(os.Args) < 2 {
		fmt.Fprintln(os.Stderr, "usage: vharness <family> [-seed N] [-n N] [-tier quick|thorough] -out FILE [-arg k=v ...]")
		os.Exit(2)
	}
	fam := os.Args[1]
	fs := flag.NewFlagSet(fam, flag.ExitOnError)
	seed := fs.Int64("seed", 1, "PRNG seed")
	n := fs.Int("n", 1000, "case budget")
	tier := fs.String("tier", "quick", "tier")
	out := fs.String("out", "", "transcript file")
	var extra multi
	fs.Var(&extra, "arg", "k=v")
	_ = fs.Parse(os.Args[2:])
	run, ok := runners[fam]
	if !ok {
		var ks []string
		for k := range runners {
			ks = append(ks, k)
		}
		sort.Strings(ks)
		fmt.Fprintf(os.Stderr, "unknown family %q (have %v)\n", fam, ks)
		os.Exit(2)
	}
	f, err := os.Create(*out)
	if err != nil {
		fmt.Fprintln(os.Stderr, err)
		os.Exit(2)
	}
	h := &H{R: rand.New(rand.NewSource(*seed)), Seed: *seed, N: *n, Tier: *tier, out: bufio.NewWriterSize(f, 1<<20), Stats: map[string]int{}, Args: map[string]string{}}
	for _, kv := range extra {
		k, v, _ := strings.Cut(kv, "=")
		h.Args[k] = v
	}
	run(h)
	_ = h.out.Flush()
	_ = f.Close()
	// distribution of what was exercised, for the evidence file
	var ks []string
	for k := range h.Stats {
		ks = append(ks, k)
	}
	sort.Strings(ks)
	for _, k := range ks {
		fmt.Printf("STAT %s %d\n", k, h.Stats[k])
	}
	fmt.Printf("CASES %d\n", h.Count)
}

type multi []string

func (m *multi) String() string     { return strings.Join(*m, ",") }
func (m *multi) Set(s string) error { *m = append(*m, s); return nil }
