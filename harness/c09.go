package main

// C09 - streamed INSERT sends one faithful block per input round, then a terminator.
//
// The real Client.Do with OnInput over the scripted connection of c02conn.go.  The callback follows a
// script (append / reset + append into the same backing arrays / overwrite in place / reset / nothing;
// nil, io.EOF, wrapped io.EOF or another error; initial rows zero or not).  Inside the callback the
// harness records how many bytes are already on the wire, mutates the columns, dumps them (colDump) for
// the model and encodes them privately with Block.EncodeBlock: that private copy is what the next
// round's block has to be, whatever later rounds do to the column memory.
//
//	c09 <cfg> <query> t (<step> ...) x<recorded> <h> <z>
//	   ->  sent <ok|fail> (<bytes on the wire at each call> ...) <t|-> x<recorded>
//
// Direct oracle (no model involved): the input phase of the recorded bytes must be, in order, one Data
// packet per round whose block is byte-for-byte the private copy taken when that round began (compressed:
// exactly one verified frame holding it), then exactly one empty block iff Do ended normally; every block
// must already be on the wire when the next call begins; a callback error means no terminator.

import (
	"bytes"
	"context"
	"errors"
	"fmt"
	"io"
	"math/rand"
	"reflect"
	"strconv"
	"strings"
	"time"

	"github.com/ClickHouse/ch-go/proto"
)

func init() { runners["c09"] = runC09 }

type c09Step struct {
	op  string // append | reappend | overwrite | reset | inplace | swap | none
	n   int    // rows to append
	ret string // nil | eof | weof | err
}

var c09ErrBoom = errors.New("boom")

func c09EncodeBlock(k *c02Cfg, cs []*c02Col) ([]byte, error) {
	var in []proto.InputColumn
	for _, c := range cs {
		in = append(in, proto.InputColumn{Name: c.name, Data: c.col})
	}
	blk := proto.Block{Columns: len(in)}
	if len(in) > 0 {
		blk.Rows = in[0].Data.Rows()
		blk.Info = proto.BlockInfo{BucketNum: -1}
	}
	var b proto.Buffer
	if err := blk.EncodeBlock(&b, k.rev, in); err != nil {
		return nil, err
	}
	return append([]byte(nil), b.Buf...), nil
}

func c09Apply(r *rand.Rand, cs []*c02Col, st c09Step) error {
	for _, c := range cs {
		rs, ok := c.col.(proto.Resettable)
		rows := c.col.Rows()
		switch st.op {
		case "append":
			if err := c14Fill(c.col, st.n, rand.New(rand.NewSource(r.Int63())), c.spec); err != nil {
				return err
			}
		case "reappend":
			if !ok {
				return fmt.Errorf("column cannot be reset")
			}
			rs.Reset()
			if err := c14Fill(c.col, st.n, rand.New(rand.NewSource(r.Int63())), c.spec); err != nil {
				return err
			}
		case "overwrite":
			if !ok {
				return fmt.Errorf("column cannot be reset")
			}
			rs.Reset() // keeps the backing arrays: the refill below lands in the memory of the previous block
			if err := c14Fill(c.col, rows, rand.New(rand.NewSource(r.Int63())), c.spec); err != nil {
				return err
			}
		case "reset":
			if !ok {
				return fmt.Errorf("column cannot be reset")
			}
			rs.Reset()
		case "inplace":
			// the rows are rewritten where they are, without Reset and with the row count unchanged (reversed order):
			// nothing tells the column that its contents changed
			if !c09Reverse(c.col) {
				if !ok {
					return fmt.Errorf("column cannot be reset")
				}
				rs.Reset()
				if err := c14Fill(c.col, rows, rand.New(rand.NewSource(r.Int63())), c.spec); err != nil {
					return err
				}
			}
		}
	}
	return nil
}

// c09Reverse reverses the rows of the column kinds whose rows are the elements of one exported slice
func c09Reverse(col proto.Column) bool {
	v := reflect.ValueOf(col)
	if v.Kind() != reflect.Ptr {
		return false
	}
	e := v.Elem()
	var sl reflect.Value
	switch {
	case e.Kind() == reflect.Slice:
		sl = e
	case e.Kind() == reflect.Struct && e.Type().Name() == "ColEnum":
		sl = e.FieldByName("Values")
	default:
		return false
	}
	if !sl.IsValid() || sl.Kind() != reflect.Slice || !sl.CanSet() && sl.Len() > 0 && !sl.Index(0).CanSet() {
		return false
	}
	sw := reflect.Swapper(sl.Interface())
	for i, j := 0, sl.Len()-1; i < j; i, j = i+1, j-1 {
		sw(i, j)
	}
	return true
}

func c09GenScript(r *rand.Rand, rows0 int) []c09Step {
	n := 1 + r.Intn(5)
	if r.Intn(6) == 0 {
		n = 1
	}
	if rows0 == 0 && r.Intn(3) == 0 {
		// the only call fills the empty columns and ends the input at once
		return []c09Step{{op: "append", n: []int{1, 2, 17}[r.Intn(3)], ret: []string{"eof", "weof"}[r.Intn(2)]}}
	}
	var out []c09Step
	for i := 0; i < n; i++ {
		st := c09Step{ret: "nil"}
		switch r.Intn(11) {
		case 0, 1:
			st.op = "append"
		case 2, 3:
			st.op = "reappend"
		case 4, 5:
			st.op = "overwrite"
		case 6:
			st.op = "reset"
		case 7, 8:
			st.op = "inplace"
		case 9:
			st.op = "swap" // the callback puts other column objects into the Input (double buffering)
		default:
			st.op = "none"
		}
		st.n = []int{1, 1, 2, 3, 5, 17, 64}[r.Intn(7)]
		if i == n-1 {
			st.ret = []string{"eof", "eof", "weof", "weof", "err"}[r.Intn(5)]
			if st.ret != "err" && r.Intn(2) == 0 {
				st.op = "reset" // end of input with nothing left
			}
		} else if st.op == "reset" && r.Intn(3) > 0 {
			st.op = "reappend" // a round with no rows is legal but rare
		}
		out = append(out, st)
	}
	return out
}

func c09One(h *H, i int) {
	r := h.R
	k := c02GenCfg(r)
	k.comp = c02Modes[i%len(c02Modes)]
	if r.Intn(6) > 0 {
		for !proto.FeatureSettingsSerializedAsStrings.In(k.rev) {
			k.rev = c02Revs()[r.Intn(len(c02Revs()))]
		}
		if k.clientPV < k.rev {
			k.clientPV = k.rev
		}
	}
	q := &c02Query{id: "q" + strconv.Itoa(i), body: "INSERT INTO t VALUES", quota: string(genShortBytes(r))}
	if r.Intn(5) == 0 {
		q.ext = c02GenCols(r, 1, 2, "e", c02Specs())
	}
	pool := c02ZeroCopySpecs()
	switch r.Intn(8) {
	case 0, 1:
		pool = c02Specs()
	case 2:
		// columns with derived state that Prepare recomputes for every block (enum codes, dictionaries)
		pool = nil
		for _, sp := range c02Specs() {
			if n := sp.name(); strings.HasPrefix(n, "Enum") || strings.HasPrefix(n, "LowCardinality") || strings.HasPrefix(n, "Array(LowCardinality") {
				pool = append(pool, sp)
			}
		}
		if len(pool) == 0 {
			pool = c02Specs()
		}
	}
	rows0 := []int{0, 1, 2, 3, 17, 64}[r.Intn(6)]
	q.input = c02GenCols(r, 1+r.Intn(3), rows0, "c", pool)
	if len(q.input) == 0 {
		h.Stat("c09.skipped")
		return
	}
	// columns of one block agree on the row count, and can be reset
	for _, c := range q.input {
		if t, isTuple := c.col.(proto.ColTuple); isTuple && len(t) == 0 {
			h.Stat("c09.skipped") // the empty tuple never has rows
			return
		}
		if _, ok := c.col.(proto.Resettable); !ok || c.col.Rows() != rows0 {
			h.Stat("c09.skipped")
			return
		}
	}
	script := c09GenScript(r, rows0)
	run := c02Connect(k)
	if run.err != nil {
		h.Emit(fmt.Sprintf("c09-connect rev=%d", k.rev), "-", "FAIL:handshake with the scripted server failed: "+c02Sanitize(run.err.Error()))
		return
	}
	defer run.client.Close()
	withInfo := r.Intn(2) == 0
	var info []*c02Col
	if withInfo {
		info = q.input
	}
	resp, err := c02Response(k, info)
	if err != nil {
		h.Stat("c09.skipped")
		return
	}
	run.conn.Serve(resp)

	// bookkeeping of the property itself
	var (
		want       [][]byte // the private copy of every block that has to be sent, in order
		terminator bool
		calls      int
		marks      []int
		steps      []string
		problem    string
		done       bool
		errMark    = -1
	)
	snapshot := func() {
		b, err := c09EncodeBlock(k, q.input)
		if err != nil {
			problem = "cannot encode a private copy: " + err.Error()
			return
		}
		want = append(want, b)
		// the private copy itself has to say what the columns hold now (it is made by the same Prepare/Encode code as
		// the block on the wire): read it back into fresh columns with the library's decoder and compare row by row
		if problem == "" {
			if d := c09ReadBack(k, q.input, b); d != "" {
				problem = d
			}
		}
	}
	if rows0 > 0 {
		snapshot()
	}
	cq := q.chQuery()
	if !withInfo {
		cq.Result = (&proto.Results{}).Auto()
	}
	cq.OnInput = func(ctx context.Context) error {
		marks = append(marks, run.conn.Written()-run.hsLen)
		if calls >= len(script) || done {
			problem = "OnInput called again after it ended the input"
			return c09ErrBoom
		}
		st := script[calls]
		calls++
		if st.op == "swap" {
			st.op = "reappend"
			inferable := false
			for _, c := range q.input {
				if _, ok := c.col.(proto.Inferable); ok {
					inferable = true // a fresh object would miss the type the server announced
				}
			}
			if !inferable {
				st.op = "none"
				for i, c := range q.input {
					nc, err := c14Make(c.spec, st.n, r.Int63(), false)
					if err != nil {
						problem = "cannot build a second column object: " + err.Error()
						return c09ErrBoom
					}
					c.col = nc
					cq.Input[i].Data = nc
				}
			}
		}
		if err := c09Apply(r, q.input, st); err != nil {
			problem = "cannot mutate the columns: " + err.Error()
			return c09ErrBoom
		}
		var ds []string
		for _, c := range q.input {
			_, d, err := colDump(c.col)
			if err != nil {
				problem = "cannot dump: " + err.Error()
				return c09ErrBoom
			}
			ds = append(ds, d)
		}
		steps = append(steps, sx(st.ret, sx(ds...)))
		switch st.ret {
		case "nil":
			snapshot()
			return nil
		case "eof", "weof":
			done = true
			terminator = true
			if q.input[0].col.Rows() > 0 {
				snapshot()
			}
			if st.ret == "weof" {
				return fmt.Errorf("no more rows: %w", io.EOF)
			}
			return io.EOF
		default:
			done = true
			// let the receiver finish first, so that the failure is the sender's alone
			for t := 0; t < 400 && !run.conn.Drained(); t++ {
				time.Sleep(time.Millisecond)
			}
			time.Sleep(3 * time.Millisecond)
			errMark = run.conn.Written() - run.hsLen
			return c09ErrBoom
		}
	}
	ctx, cancel := context.WithTimeout(context.Background(), 20*time.Second)
	doErr := run.client.Do(ctx, cq)
	cancel()
	rec := run.conn.Recorded()[run.hsLen:]
	expectErr := len(script) > 0 && calls == len(script) && script[len(script)-1].ret == "err"
	if doErr != nil && errMark >= 0 && errMark <= len(rec) {
		// the sender writes nothing after the callback's error; a Cancel packet written by the
		// cancellation watcher afterwards is not this property's subject
		rec = rec[:errMark]
	}

	hs, zs := c02Tables(rec)
	line := fmt.Sprintf("c09 %s %s t %s %s %s %s", k.sx(run.helloName, run.helloMaj, run.helloMin), q.sx(q.id), sx(steps...), hx(rec), hs, zs)
	var ms []string
	for _, m := range marks {
		ms = append(ms, strconv.Itoa(m))
	}
	supported := proto.FeatureSettingsSerializedAsStrings.In(k.rev)
	status, flag := "ok", "t"
	if doErr != nil {
		status, flag = "fail", "-"
	}
	if !supported {
		flag = "-"
	}
	obs := fmt.Sprintf("sent %s %s %s %s", status, sx(ms...), flag, hx(rec))
	desc := fmt.Sprintf("rev=%d mode=%s cols=%s rows0=%d script=%s", k.rev, c02ModeSym(k.comp), c09Names(q.input), rows0, c09ScriptStr(script))
	h.Stat("c09.mode." + c02ModeSym(k.comp))
	h.Stat("c09.end." + script[len(script)-1].ret)
	oracle := "ok"
	fail := func(s string) {
		if oracle == "ok" {
			oracle = "FAIL:" + c02Sanitize(s) + " (" + desc + ")"
		}
	}
	switch {
	case problem != "":
		fail(problem)
	case doErr != nil && !expectErr:
		fail("Do failed: " + doErr.Error())
	case doErr == nil && expectErr:
		fail("the callback's error did not fail the query")
	case calls != len(script):
		fail(fmt.Sprintf("OnInput was called %d times, the script has %d calls", calls, len(script)))
	}
	if oracle == "ok" && supported {
		if d := c09Judge(rec, k, q, want, terminator && doErr == nil, marks, rows0); d != "" {
			fail(d)
		}
	}
	h.Emit(line, obs, oracle)
}

// c09ReadBack decodes an encoded block into fresh columns and compares every row with the live columns' accessors
func c09ReadBack(k *c02Cfg, cs []*c02Col, enc []byte) (bad string) {
	defer func() {
		if p := recover(); p != nil {
			bad = ""
		}
	}()
	var target proto.Results
	var fresh []proto.Column
	for _, c := range cs {
		f, err := c.spec.build()
		if err != nil {
			return ""
		}
		fresh = append(fresh, f)
		target = append(target, proto.ResultColumn{Name: c.name, Data: f})
	}
	var blk proto.Block
	if err := blk.DecodeBlock(proto.NewReader(bytes.NewReader(enc)), k.rev, target); err != nil {
		return "the block encoded for a round does not decode again: " + err.Error()
	}
	for i, c := range cs {
		live, got := c16ReadAll(c.col), c16ReadAll(fresh[i])
		if len(live) != len(got) {
			return fmt.Sprintf("the block encoded for a round holds %d rows of column %s, the column holds %d", len(got), c.spec.name(), len(live))
		}
		for j := range live {
			if !c16Same(live[j], got[j]) {
				return fmt.Sprintf("the block encoded for a round holds %v in row %d of column %s, the column holds %v when the round begins", got[j], j, c.spec.name(), live[j])
			}
		}
	}
	return ""
}

func c09Names(cs []*c02Col) string {
	var xs []string
	for _, c := range cs {
		xs = append(xs, c.spec.name())
	}
	return strings.Join(xs, ";")
}

func c09ScriptStr(s []c09Step) string {
	var xs []string
	for _, st := range s {
		xs = append(xs, fmt.Sprintf("%s%d/%s", st.op, st.n, st.ret))
	}
	return strings.Join(xs, ",")
}

// c09Judge: the input phase of the recorded bytes against the private copies.
func c09Judge(rec []byte, k *c02Cfg, q *c02Query, want [][]byte, terminator bool, marks []int, rows0 int) string {
	// where the input phase begins: after the Query packet and the external-data phase
	src := &c02Src{b: rec}
	rd := proto.NewReader(src)
	var pq proto.Query
	if code, err := rd.UVarInt(); err != nil || proto.ClientCode(code) != proto.ClientCodeQuery {
		return "the stream does not begin with a Query packet"
	}
	if err := pq.DecodeAware(rd, k.rev); err != nil {
		return "query packet: " + err.Error()
	}
	if _, err := c02WalkPhase(src, rd, k, q.ext, 2); err != nil {
		return "external data phase: " + err.Error()
	}
	pos := src.pos
	var hdr proto.Buffer
	proto.ClientCodeData.Encode(&hdr)
	proto.ClientData{}.EncodeAware(&hdr, k.rev)
	blank, err := c09EncodeBlock(k, nil)
	if err != nil {
		return err.Error()
	}
	blocks := want
	if terminator {
		blocks = append(append([][]byte{}, want...), blank)
	}
	var ends []int
	for i, w := range blocks {
		what := fmt.Sprintf("input block %d of %d", i+1, len(want))
		if terminator && i == len(blocks)-1 {
			what = "terminator"
		}
		if !bytes.HasPrefix(rec[pos:], hdr.Buf) {
			return what + ": no Data packet header where one is expected (too few blocks on the wire)"
		}
		pos += len(hdr.Buf)
		if c02Compressed(k) {
			if len(rec)-pos < c05Header {
				return what + ": frame cut short"
			}
			n := c05Header + int(uint32(rec[pos+17])|uint32(rec[pos+18])<<8|uint32(rec[pos+19])<<16|uint32(rec[pos+20])<<24) - 9
			if n < c05Header || pos+n > len(rec) {
				return what + ": frame size field out of range"
			}
			pl, err := c02OneFrame(rec[pos : pos+n])
			if err != nil {
				return what + ": " + err.Error()
			}
			if !bytes.Equal(pl, w) {
				return what + " on the wire is not the column contents as they were when its round began"
			}
			pos += n
		} else {
			if !bytes.HasPrefix(rec[pos:], w) {
				return what + " on the wire is not the column contents as they were when its round began"
			}
			pos += len(w)
		}
		ends = append(ends, pos)
	}
	if pos != len(rec) {
		if terminator {
			return fmt.Sprintf("%d bytes written after the terminator", len(rec)-pos)
		}
		return fmt.Sprintf("%d bytes written after the last block of a failed input (a terminator?)", len(rec)-pos)
	}
	// every block is on the wire before the next call begins
	start := src.pos
	for j, m := range marks {
		sent := j + 1 // blocks that have to be out when call j begins
		if rows0 == 0 {
			sent = j
		}
		wantMark := start
		if sent >= 1 {
			if sent-1 >= len(ends) {
				break
			}
			wantMark = ends[sent-1]
		}
		if m != wantMark {
			return fmt.Sprintf("when OnInput call %d began %d bytes were on the wire, blocks 1..%d end at %d: the block of a round is not sent before the next call", j+1, m, sent, wantMark)
		}
	}
	return ""
}

func runC09(h *H) {
	for i := 0; i < h.N; i++ {
		c09One(h, i)
	}
}
