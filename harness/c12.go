package main

// C12: no data race inside the library under any permitted concurrent use.
//
// Family `c12` drives the REAL client (ch.Connect / Client.Do / Ping / Close, chpool.Pool) against the
// scripted server of c12conn.go.  It is meant to be built with `go build -race`: the race detector is
// the runtime half of the oracle (its reports go to stderr; checks/c12.py attributes them to cases by
// the `C12CASE` markers printed here and to the access table by file:line).  The oracle column of the
// transcript carries what can be judged without the detector: the per-query counters of the
// instrumentation must equal the true counts (a lost update shows there), callbacks are delivered the
// scripted number of times, Do ends the way the scenario says, nothing panics.
//
// Scenario kinds (all choices from h.R, made before any goroutine is started):
//   select   server sends a random sequence of data / totals / progress / profile / log / profile-event /
//            table-columns packets, then EndOfStream | Exception | cut
//   insert   streamed INSERT with OnInput while the server sends Progress on its own clock; with and
//            without the column-info round (q.Result nil => colInfo channel), one or two header blocks
//   cancel   select or insert that the caller cancels (from another goroutine / from a callback)
//   close    Close from a foreign goroutine during Do or Ping
//   ping     Ping sequences
//   hs       handshake whose context is cancelled while it runs (watchdog closes the connection)
//   pool     a shared chpool.Pool used from many goroutines with a fast health check
// each with OpenTelemetry instrumentation on and off, compression off / LZ4 / ZSTD / None.

import (
	"net"
	"context"
	"errors"
	"fmt"
	"io"
	"os"
	"strings"
	"sync"
	"sync/atomic"
	"time"

	ch "github.com/ClickHouse/ch-go"
	"github.com/ClickHouse/ch-go/chpool"
	"github.com/ClickHouse/ch-go/compress"
	"github.com/ClickHouse/ch-go/otelch"
	"github.com/ClickHouse/ch-go/proto"
	"go.opentelemetry.io/otel/attribute"
	"go.opentelemetry.io/otel/codes"
	"go.opentelemetry.io/otel/trace"
	"go.opentelemetry.io/otel/trace/embedded"
	"go.opentelemetry.io/otel/trace/noop"
	"go.uber.org/zap"
	"go.uber.org/zap/zapcore"
)

func init() { runners["c12"] = runC12 }

// ---- a recording tracer (the SDK is not needed: only the attributes set by Do matter) ----

type c12TP struct {
	embedded.TracerProvider
	mu    sync.Mutex
	spans []*c12Span
}

type c12Tracer struct {
	embedded.Tracer
	p *c12TP
}

type c12Span struct {
	noop.Span
	mu     sync.Mutex
	name   string
	attrs  map[attribute.Key]attribute.Value
	ended  int
	status codes.Code
	errs   int
}

func (p *c12TP) Tracer(string, ...trace.TracerOption) trace.Tracer { return &c12Tracer{p: p} }

func (t *c12Tracer) Start(ctx context.Context, name string, opts ...trace.SpanStartOption) (context.Context, trace.Span) {
	s := &c12Span{name: name, attrs: map[attribute.Key]attribute.Value{}}
	cfg := trace.NewSpanStartConfig(opts...)
	for _, kv := range cfg.Attributes() {
		s.attrs[kv.Key] = kv.Value
	}
	t.p.mu.Lock()
	t.p.spans = append(t.p.spans, s)
	t.p.mu.Unlock()
	return trace.ContextWithSpan(ctx, s), s
}

func (s *c12Span) SetAttributes(kv ...attribute.KeyValue) {
	s.mu.Lock()
	for _, a := range kv {
		s.attrs[a.Key] = a.Value
	}
	s.mu.Unlock()
}
func (s *c12Span) End(...trace.SpanEndOption) { s.mu.Lock(); s.ended++; s.mu.Unlock() }
func (s *c12Span) SetStatus(c codes.Code, _ string) {
	s.mu.Lock()
	s.status = c
	s.mu.Unlock()
}
func (s *c12Span) RecordError(error, ...trace.EventOption) { s.mu.Lock(); s.errs++; s.mu.Unlock() }
func (s *c12Span) IsRecording() bool                       { return true }

func (p *c12TP) last(name string) *c12Span {
	p.mu.Lock()
	defer p.mu.Unlock()
	for i := len(p.spans) - 1; i >= 0; i-- {
		if p.spans[i].name == name {
			return p.spans[i]
		}
	}
	return nil
}

func (s *c12Span) intAttr(k attribute.Key) (int64, bool) {
	s.mu.Lock()
	defer s.mu.Unlock()
	v, ok := s.attrs[k]
	if !ok {
		return 0, false
	}
	return v.AsInt64(), true
}

// ---- scenario parameters ----

type c12Case struct {
	kind    string // select insert cancel close ping hs pool
	otel    bool
	comp    ch.Compression
	logger  int    // 0 nop client logger, 1 query-scoped Logger, 2 debug-enabled client logger
	seq     string // server script
	rows    int
	gapUS   int
	blocks  int  // insert: OnInput rounds
	rowsPer int  // insert: rows per block
	colInfo bool // insert: q.Result == nil (column info round, Infer)
	hdr     int  // insert: header blocks the server sends
	tail    bool // insert: last OnInput returns rows together with io.EOF
	// disturbance
	cancelAfterUS int // cancel from another goroutine after this delay (0 = none)
	cancelInCB    int // cancel from inside the k-th callback (0 = none)
	closeAfterUS  int // foreign Close after this delay (0 = none)
	closers       int // number of foreign goroutines calling Close / IsClosed
	pings         int
	// pool
	users, iters       int
	maxConns, minConns int
	healthUS, idleUS   int
	lifeUS             int
	closeWhileRunning  bool
	ops                [][]int // per user, per iteration: operation code
	tcp                bool    // the pool dials through a *net.Dialer to a loopback listener
}

func c12CompSym(c ch.Compression) string {
	switch c {
	case ch.CompressionLZ4:
		return "lz4"
	case ch.CompressionZSTD:
		return "zstd"
	case ch.CompressionNone:
		return "none"
	case ch.CompressionLZ4HC:
		return "lz4hc"
	}
	return "off"
}

func c12Method(c ch.Compression) (bool, compress.Method) {
	switch c {
	case ch.CompressionLZ4:
		return true, compress.LZ4
	case ch.CompressionZSTD:
		return true, compress.ZSTD
	case ch.CompressionNone:
		return true, compress.None
	case ch.CompressionLZ4HC:
		return true, compress.LZ4HC
	}
	return false, compress.None
}

func (c c12Case) String() string {
	base := fmt.Sprintf("(c12 %s otel=%s comp=%s lg=%d", c.kind, bsym(c.otel), c12CompSym(c.comp), c.logger)
	switch c.kind {
	case "select", "cancel-select", "close-select":
		base += fmt.Sprintf(" seq=%s rows=%d gap=%d", c.seq, c.rows, c.gapUS)
	case "insert", "cancel-insert", "close-insert":
		base += fmt.Sprintf(" seq=%s blocks=%d rowsper=%d gap=%d colinfo=%s hdr=%d tail=%s", c.seq, c.blocks, c.rowsPer, c.gapUS, bsym(c.colInfo), c.hdr, bsym(c.tail))
	case "ping", "close-ping":
		base += fmt.Sprintf(" pings=%d", c.pings)
	case "pool":
		base += fmt.Sprintf(" users=%d iters=%d max=%d min=%d health=%d idle=%d life=%d closewhile=%s", c.users, c.iters, c.maxConns, c.minConns, c.healthUS, c.idleUS, c.lifeUS, bsym(c.closeWhileRunning))
		if c.tcp {
			base += " tcp=t"
		}
	}
	if c.cancelAfterUS > 0 {
		base += fmt.Sprintf(" cancelafter=%d", c.cancelAfterUS)
	}
	if c.cancelInCB > 0 {
		base += fmt.Sprintf(" cancelincb=%d", c.cancelInCB)
	}
	if c.closeAfterUS > 0 || c.closers > 0 {
		base += fmt.Sprintf(" closeafter=%d closers=%d", c.closeAfterUS, c.closers)
	}
	return base + ")"
}

// ---- running one client scenario ----

type c12Env struct {
	cli    *ch.Client
	srv    *c12Srv
	tp     *c12TP
	ctx    context.Context
	cancel context.CancelFunc
}

func c12Options(c c12Case, tp *c12TP) ch.Options {
	opt := ch.Options{
		Compression:                  c.comp,
		ReadTimeout:                  2 * time.Second,
		OpenTelemetryInstrumentation: c.otel,
		TracerProvider:               tp,
		// built with append, as applications do: spare capacity behind the connection-level settings, one backing array
		// shared by every connection a pool creates from these options
		Settings: append(make([]ch.Setting, 0, 8), ch.SettingInt("max_block_size", 10)),
		QuotaKey: "qk",
	}
	if c.logger == 2 {
		// a logger whose Debug level is enabled: every `c.lg.Check(...)` branch of the library runs
		opt.Logger = zap.New(c12Core{})
	}
	return opt
}

func c12Connect(c c12Case) (*c12Env, error) {
	comp, method := c12Method(c.comp)
	conn, srv := c12NewPipe(comp, method, proto.Version)
	tp := &c12TP{}
	ctx, cancel := context.WithTimeout(context.Background(), 20*time.Second)
	cli, err := ch.Connect(ctx, conn, c12Options(c, tp))
	if err != nil {
		cancel()
		_ = conn.Close()
		srv.Wait()
		return nil, err
	}
	return &c12Env{cli: cli, srv: srv, tp: tp, ctx: ctx, cancel: cancel}, nil
}

func (e *c12Env) finish() {
	_ = e.cli.Close()
	e.srv.Wait()
	e.cancel()
}

// disturbances: goroutines foreign to the query
func c12Disturb(c c12Case, e *c12Env, cancelQ context.CancelFunc, wg *sync.WaitGroup) {
	if c.cancelAfterUS > 0 {
		wg.Add(1)
		go func() {
			defer wg.Done()
			time.Sleep(time.Duration(c.cancelAfterUS) * time.Microsecond)
			cancelQ()
		}()
	}
	for i := 0; i < c.closers; i++ {
		wg.Add(1)
		i := i
		go func() {
			defer wg.Done()
			d := time.Duration(c.closeAfterUS) * time.Microsecond
			if i%2 == 1 {
				// an observer: polls IsClosed while the query runs
				dl := time.Now().Add(d + 200*time.Microsecond)
				for time.Now().Before(dl) {
					_ = e.cli.IsClosed()
					time.Sleep(20 * time.Microsecond)
				}
				return
			}
			time.Sleep(d)
			_ = e.cli.Close()
		}()
	}
}

func c12SpanCheck(e *c12Env, c c12Case, want map[attribute.Key]int64, doErr error) string {
	if !c.otel {
		if e.tp.last("Do") != nil {
			return "FAIL:a Do span was started with instrumentation off"
		}
		return ""
	}
	sp := e.tp.last("Do")
	if sp == nil && errors.Is(doErr, ch.ErrClosed) {
		// a foreign Close that won the race to Do's entry check: the call was refused before anything was started
		return ""
	}
	if sp == nil {
		return "FAIL:no Do span with instrumentation on"
	}
	sp.mu.Lock()
	ended, status := sp.ended, sp.status
	sp.mu.Unlock()
	if ended != 1 {
		return fmt.Sprintf("FAIL:Do span ended %d times", ended)
	}
	if (doErr == nil) != (status == codes.Ok) {
		return fmt.Sprintf("FAIL:Do span status %v for error %v", status, doErr)
	}
	for k, w := range want {
		got, ok := sp.intAttr(k)
		if !ok {
			return "FAIL:span attribute " + string(k) + " missing"
		}
		if got != w {
			return fmt.Sprintf("FAIL:query counter %s = %d, true count %d (lost or misplaced update)", k, got, w)
		}
	}
	return ""
}

// c12Select runs one SELECT-shaped scenario.
func c12Select(c c12Case) (oracle string) {
	e, err := c12Connect(c)
	if err != nil {
		return "FAIL:handshake with the scripted server failed: " + err.Error()
	}
	defer e.finish()
	qctx, cancelQ := context.WithCancel(e.ctx)
	defer cancelQ()
	var (
		v        proto.ColUInt64
		s        proto.ColStr
		nResult  int
		rowsSeen int
		nProg    int
		nProf    int
		nLogs    int
		nLog     int
		nEvs     int
		nEv      int
		cbs      atomic.Int32
	)
	cb := func() {
		if c.cancelInCB > 0 && int(cbs.Add(1)) == c.cancelInCB {
			cancelQ()
		}
	}
	q := ch.Query{
		Body:   fmt.Sprintf("c12 seq=%s rows=%d gap=%d", c.seq, c.rows, c.gapUS),
		Result: proto.Results{{Name: "v", Data: &v}, {Name: "s", Data: &s}},
		OnResult: func(ctx context.Context, b proto.Block) error {
			nResult++
			rowsSeen += v.Rows()
			if v.Rows() != s.Rows() || v.Rows() != b.Rows {
				return errors.New("c12: ragged block")
			}
			cb()
			return nil
		},
		OnProgress:      func(ctx context.Context, p proto.Progress) error { nProg++; cb(); return nil },
		OnProfile:       func(ctx context.Context, p proto.Profile) error { nProf++; cb(); return nil },
		OnLogs:          func(ctx context.Context, l []ch.Log) error { nLogs += len(l); cb(); return nil },
		OnProfileEvents: func(ctx context.Context, ev []ch.ProfileEvent) error { nEvs += len(ev); cb(); return nil },
		Settings:        []ch.Setting{{Key: "k", Value: "v"}},
	}
	if c.logger == 1 {
		q.Logger = zap.NewNop()
	}
	if c.rows%2 == 1 {
		// the deprecated per-item callbacks as well
		q.OnLog = func(ctx context.Context, l ch.Log) error { nLog++; return nil }
		q.OnProfileEvent = func(ctx context.Context, ev ch.ProfileEvent) error { nEv++; return nil }
	}
	var wg sync.WaitGroup
	c12Disturb(c, e, cancelQ, &wg)
	doErr := e.cli.Do(qctx, q)
	wg.Wait()

	disturbed := c.cancelAfterUS > 0 || c.cancelInCB > 0 || c.closers > 0
	nD, nT, nP, nF, nL, nE := strings.Count(c.seq, "D"), strings.Count(c.seq, "T"), strings.Count(c.seq, "P"), strings.Count(c.seq, "F"), strings.Count(c.seq, "L"), strings.Count(c.seq, "E")
	end := c.seq[len(c.seq)-1]
	if !disturbed {
		switch end {
		case 'Z':
			if doErr != nil {
				return "FAIL:Do failed on a clean stream: " + doErr.Error()
			}
		case 'X':
			if !ch.IsException(doErr) {
				return fmt.Sprintf("FAIL:Do returned %v for a server exception", doErr)
			}
			if e.cli.IsClosed() {
				return "FAIL:client closed after a server exception"
			}
			if err := e.cli.Ping(e.ctx); err != nil {
				return "FAIL:Ping after a server exception failed: " + err.Error()
			}
		case 'K':
			if doErr == nil {
				return "FAIL:Do succeeded on a cut stream"
			}
			if !e.cli.IsClosed() {
				return "FAIL:client left open after a cut stream"
			}
		}
		// every packet before the terminator was delivered exactly once
		wantRows := nD*c.rows + nT
		if nResult != nD+nT || rowsSeen != wantRows || nProg != nP || nProf != nF || nLogs != nL*c12LogRows || nEvs != nE*c12EventRows {
			return fmt.Sprintf("FAIL:callbacks: results %d/%d rows %d/%d progress %d/%d profile %d/%d logs %d/%d events %d/%d",
				nResult, nD+nT, rowsSeen, wantRows, nProg, nP, nProf, nF, nLogs, nL*c12LogRows, nEvs, nE*c12EventRows)
		}
		if q.OnLog != nil && (nLog != nL*c12LogRows || nEv != nE*c12EventRows) {
			return fmt.Sprintf("FAIL:per-item callbacks: logs %d/%d events %d/%d", nLog, nL*c12LogRows, nEv, nE*c12EventRows)
		}
		recvBlocks := int64(nD + nT + nL + nE)
		// (a Data block with columns but no rows is not the end marker: it counts)
		want := map[attribute.Key]int64{
			otelch.BlocksSentKey:     0,
			otelch.BlocksReceivedKey: recvBlocks,
			otelch.RowsReceivedKey:   int64(nD*c.rows + nT + nL*c12LogRows + nE*c12EventRows),
			otelch.RowsKey:           int64(nP * c12ProgressRows),
			otelch.BytesKey:          int64(nP * c12ProgressBytes),
		}
		if r := c12SpanCheck(e, c, want, doErr); r != "" {
			return r
		}
		return "ok"
	}
	// disturbed: the query may end either way; what must hold is that Do came back and the client is in a defined state
	if doErr == nil && end != 'Z' {
		return "FAIL:Do succeeded on a stream that does not end cleanly"
	}
	if doErr != nil && !ch.IsException(doErr) && !e.cli.IsClosed() && qctx.Err() == nil && c.closers == 0 {
		return "FAIL:client left open after a failed query: " + doErr.Error()
	}
	if r := c12SpanCheck(e, c, nil, doErr); r != "" {
		return r
	}
	return "ok"
}

// c12Insert runs one streamed INSERT scenario.
func c12Insert(c c12Case) (oracle string) {
	e, err := c12Connect(c)
	if err != nil {
		return "FAIL:handshake with the scripted server failed: " + err.Error()
	}
	defer e.finish()
	qctx, cancelQ := context.WithCancel(e.ctx)
	defer cancelQ()
	var (
		v     proto.ColUInt64
		s     proto.ColStr
		en    proto.ColEnum
		round int
		sent  int // blocks with rows handed to the client
		rows  int
		nProg int
		cbs   atomic.Int32
	)
	fill := func() {
		for i := 0; i < c.rowsPer; i++ {
			v.Append(uint64(round*1000 + i))
			s.Append(fmt.Sprintf("r%d-%d", round, i))
			en.Append([]string{"a", "b"}[i%2])
		}
		if c.rowsPer > 0 {
			sent++
			rows += c.rowsPer
		}
	}
	input := proto.Input{{Name: "v", Data: &v}, {Name: "s", Data: &s}, {Name: "e", Data: &en}}
	q := ch.Query{
		Body:  fmt.Sprintf("c12 seq=%s rows=%d gap=%d", c.seq, c.rows, c.gapUS),
		Input: input,
		OnInput: func(ctx context.Context) error {
			input.Reset()
			if c.cancelInCB > 0 && int(cbs.Add(1)) == c.cancelInCB {
				cancelQ()
			}
			round++
			if round > c.blocks {
				return io.EOF
			}
			fill()
			if round == c.blocks && c.tail {
				return io.EOF
			}
			return nil
		},
		OnProgress: func(ctx context.Context, p proto.Progress) error { nProg++; return nil },
	}
	if !c.colInfo {
		// no column-info round: the caller takes the header block itself and has to give the enum its type
		var hv proto.ColInfoInput
		q.Result = &hv
		q.OnResult = func(ctx context.Context, b proto.Block) error { return nil }
		if err := en.Infer("Enum8('a'=1,'b'=2)"); err != nil {
			return "FAIL:harness: enum infer: " + err.Error()
		}
	}
	if c.logger == 1 {
		q.Logger = zap.NewNop()
	}
	var wg sync.WaitGroup
	c12Disturb(c, e, cancelQ, &wg)
	doErr := e.cli.Do(qctx, q)
	wg.Wait()
	closedAfter := e.cli.IsClosed()
	_ = e.cli.Close()
	e.srv.Wait() // the server's counters are now stable

	disturbed := c.cancelAfterUS > 0 || c.cancelInCB > 0 || c.closers > 0
	end := c.seq[len(c.seq)-1]
	if e.srv.malformed != "" {
		return "FAIL:server saw a malformed client stream (two writers on the connection?): " + e.srv.malformed
	}
	if !disturbed && end == 'Z' && strings.Contains(c.seq, "W") {
		if doErr != nil {
			return "FAIL:Do failed on a clean INSERT: " + doErr.Error()
		}
		if closedAfter {
			return "FAIL:client closed after a clean INSERT"
		}
		if e.srv.inBlocks != sent || e.srv.inRows != rows {
			return fmt.Sprintf("FAIL:server received %d blocks / %d rows, caller provided %d / %d", e.srv.inBlocks, e.srv.inRows, sent, rows)
		}
		if nProg != e.srv.progressSent {
			return fmt.Sprintf("FAIL:OnProgress called %d times, server sent %d", nProg, e.srv.progressSent)
		}
		want := map[attribute.Key]int64{
			otelch.BlocksSentKey:      int64(sent),
			otelch.BlocksReceivedKey:  int64(e.srv.blocksSent),
			otelch.RowsReceivedKey:    0,
			otelch.ColumnsReceivedKey: int64(e.srv.lastCols),
			otelch.RowsKey:            int64(e.srv.progressSent * c12ProgressRows),
			otelch.BytesKey:           int64(e.srv.progressSent * c12ProgressBytes),
		}
		if r := c12SpanCheck(e, c, want, doErr); r != "" {
			return r
		}
		return "ok"
	}
	if !disturbed && end == 'X' && !ch.IsException(doErr) {
		// the exception may race with the sender's own failure only when the stream was cut; here it was not
		return fmt.Sprintf("FAIL:Do returned %v for a server exception during INSERT", doErr)
	}
	if doErr == nil && end != 'Z' {
		return "FAIL:Do succeeded on an INSERT the server did not acknowledge"
	}
	if r := c12SpanCheck(e, c, nil, doErr); r != "" {
		return r
	}
	return "ok"
}

func c12Ping(c c12Case) string {
	e, err := c12Connect(c)
	if err != nil {
		return "FAIL:handshake with the scripted server failed: " + err.Error()
	}
	defer e.finish()
	var wg sync.WaitGroup
	c12Disturb(c, e, func() {}, &wg)
	fails, entered := 0, 0
	for i := 0; i < c.pings; i++ {
		err := e.cli.Ping(e.ctx)
		if !errors.Is(err, ch.ErrClosed) {
			entered++ // not refused at the entry check (a foreign Close may win the race to it)
		}
		if err != nil {
			fails++
			if c.closers == 0 {
				wg.Wait()
				return "FAIL:Ping failed: " + err.Error()
			}
		} else if fails > 0 {
			wg.Wait()
			return "FAIL:Ping succeeded after a failed Ping"
		}
	}
	wg.Wait()
	if c.closers > 0 && !e.cli.IsClosed() {
		return "FAIL:client open after Close"
	}
	if c.otel && e.tp.last("Ping") == nil && entered > 0 {
		return "FAIL:no Ping span with instrumentation on"
	}
	return "ok"
}

// c12Handshake: Connect whose context is cancelled while the handshake runs: the watchdog goroutine of
// handshake closes the connection while the other goroutine is writing / reading.
func c12Handshake(c c12Case) string {
	comp, method := c12Method(c.comp)
	conn, srv := c12NewPipe(comp, method, proto.Version)
	defer srv.Wait()
	defer conn.Close()
	tp := &c12TP{}
	ctx, cancel := context.WithCancel(context.Background())
	var wg sync.WaitGroup
	wg.Add(1)
	go func() {
		defer wg.Done()
		time.Sleep(time.Duration(c.cancelAfterUS) * time.Microsecond)
		cancel()
	}()
	cli, err := ch.Connect(ctx, conn, c12Options(c, tp))
	wg.Wait()
	if err == nil {
		if ctx.Err() != nil && false {
			return "FAIL:unreachable"
		}
		if perr := cli.Ping(context.Background()); perr != nil {
			return "FAIL:Ping after a successful Connect failed: " + perr.Error()
		}
		_ = cli.Close()
		return "ok"
	}
	if !errors.Is(err, context.Canceled) {
		return "FAIL:Connect failed with something other than the context error: " + err.Error()
	}
	return "ok"
}

// pool operations
const (
	c12OpDo = iota
	c12OpPing
	c12OpAcquireDo
	c12OpInsert
	c12OpExc
	c12OpCut
	c12OpDoubleRelease
	c12OpStat
	c12NOps
)

func c12Pool(c c12Case) string {
	comp, method := c12Method(c.comp)
	var d interface {
		WaitAll() (int, string)
	}
	tp := &c12TP{}
	co := c12Options(c, tp)
	if c.tcp {
		// the standard library's dialer with nothing set, as applications pass it: one object behind every connection
		l, err := c12Listen(comp, method)
		if err != nil {
			return "-" // no loopback in this sandbox
		}
		d = l
		co.Dialer = &net.Dialer{}
		co.Address = l.ln.Addr().String()
	} else {
		pd := &c12Dialer{comp: comp, method: method}
		d = pd
		co.Dialer = pd
	}
	ctx, cancel := context.WithTimeout(context.Background(), 30*time.Second)
	defer cancel()
	p, err := chpool.New(ctx, chpool.Options{
		ClientOptions:     co,
		MaxConns:          int32(c.maxConns),
		MinConns:          int32(c.minConns),
		HealthCheckPeriod: time.Duration(c.healthUS) * time.Microsecond,
		MaxConnIdleTime:   time.Duration(c.idleUS) * time.Microsecond,
		MaxConnLifetime:   time.Duration(c.lifeUS) * time.Microsecond,
	})
	if err != nil {
		d.WaitAll()
		return "FAIL:chpool.New failed: " + err.Error()
	}
	var (
		wg       sync.WaitGroup
		mu       sync.Mutex
		failures []string
		okOps    atomic.Int64
	)
	bad := func(format string, a ...any) {
		mu.Lock()
		if len(failures) < 5 {
			failures = append(failures, fmt.Sprintf(format, a...))
		}
		mu.Unlock()
	}
	var closing atomic.Bool
	tolerable := func(err error) bool {
		// after Close the pool refuses; a destroyed connection may fail a query that was using it only if the pool is closing
		return closing.Load()
	}
	for u := 0; u < c.users; u++ {
		wg.Add(1)
		u := u
		go func() {
			defer wg.Done()
			defer func() {
				if r := recover(); r != nil {
					bad("user %d panicked: %v", u, r)
				}
			}()
			for it, op := range c.ops[u] {
				switch op {
				case c12OpDo:
					var v proto.ColUInt64
					var s proto.ColStr
					n := 0
					err := p.Do(ctx, ch.Query{Body: "c12 seq=PDPDZ rows=3", Result: proto.Results{{Name: "v", Data: &v}, {Name: "s", Data: &s}},
						Settings: []ch.Setting{ch.SettingInt("max_threads", u+1), ch.SettingInt("max_execution_time", it)},
						OnResult: func(ctx context.Context, b proto.Block) error { n += v.Rows(); return nil }})
					if err != nil {
						if !tolerable(err) {
							bad("user %d it %d: pool.Do: %v", u, it, err)
						}
					} else if n != 6 {
						bad("user %d it %d: pool.Do delivered %d rows, want 6", u, it, n)
					} else {
						okOps.Add(1)
					}
				case c12OpPing:
					if err := p.Ping(ctx); err != nil {
						if !tolerable(err) {
							bad("user %d it %d: pool.Ping: %v", u, it, err)
						}
					} else {
						okOps.Add(1)
					}
				case c12OpAcquireDo, c12OpInsert, c12OpExc, c12OpCut, c12OpDoubleRelease:
					cl, err := p.Acquire(ctx)
					if err != nil {
						if !tolerable(err) {
							bad("user %d it %d: Acquire: %v", u, it, err)
						}
						continue
					}
					switch op {
					case c12OpAcquireDo, c12OpDoubleRelease:
						if err := cl.Ping(ctx); err != nil && !tolerable(err) {
							bad("user %d it %d: Ping on an acquired client: %v", u, it, err)
						}
						if err := cl.Do(ctx, ch.Query{Body: "c12 seq=PZ"}); err != nil && !tolerable(err) {
							bad("user %d it %d: Do on an acquired client: %v", u, it, err)
						}
					case c12OpInsert:
						var v proto.ColUInt64
						var s proto.ColStr
						var en proto.ColEnum
						in := proto.Input{{Name: "v", Data: &v}, {Name: "s", Data: &s}, {Name: "e", Data: &en}}
						k := 0
						err := cl.Do(ctx, ch.Query{Body: "c12 seq=HWZ gap=30", Input: in, OnInput: func(ctx context.Context) error {
							in.Reset()
							k++
							if k > 4 {
								return io.EOF
							}
							v.Append(uint64(k))
							s.Append("x")
							en.Append("a")
							return nil
						}})
						if err != nil && !tolerable(err) {
							bad("user %d it %d: INSERT on an acquired client: %v", u, it, err)
						}
					case c12OpExc:
						if err := cl.Do(ctx, ch.Query{Body: "c12 seq=PX"}); !ch.IsException(err) && !tolerable(err) {
							bad("user %d it %d: exception query returned %v", u, it, err)
						}
					case c12OpCut:
						if err := cl.Do(ctx, ch.Query{Body: "c12 seq=PK"}); err == nil {
							bad("user %d it %d: query on a cut connection succeeded", u, it)
						}
					}
					cl.Release()
					if op == c12OpDoubleRelease {
						cl.Release()
					}
					okOps.Add(1)
				case c12OpStat:
					st := p.Stat()
					if st.TotalResources() > int32(c.maxConns) {
						bad("user %d it %d: %d resources, MaxConns %d", u, it, st.TotalResources(), c.maxConns)
					}
					time.Sleep(time.Duration(c.healthUS) * time.Microsecond)
				}
			}
		}()
	}
	if c.closeWhileRunning {
		time.Sleep(time.Duration(c.lifeUS) * time.Microsecond)
		closing.Store(true)
		p.Close()
		wg.Wait()
	} else {
		wg.Wait()
		closing.Store(true)
		p.Close()
	}
	p.Close() // idempotent
	_, malformed := d.WaitAll()
	if malformed != "" {
		return "FAIL:a pooled connection carried a malformed client stream (two holders writing?): " + malformed
	}
	if len(failures) > 0 {
		return "FAIL:" + strings.Join(failures, "; ")
	}
	return "ok"
}

// c12Core: a zap core with every level enabled that discards entries (so that Check(...) != nil
// and the library's debug branches - which read more client fields - run).
type c12Core struct{}

func (c12Core) Enabled(zapcore.Level) bool          { return true }
func (c c12Core) With([]zapcore.Field) zapcore.Core { return c }
func (c c12Core) Check(e zapcore.Entry, ce *zapcore.CheckedEntry) *zapcore.CheckedEntry {
	return ce.AddCore(e, c)
}
func (c12Core) Write(zapcore.Entry, []zapcore.Field) error { return nil }
func (c12Core) Sync() error                                { return nil }

// ---- generator ----

func c12GenSeq(h *H, end byte) string {
	letters := "DDPPFLECTPD"
	n := 1 + h.R.Intn(9)
	var sb strings.Builder
	for i := 0; i < n; i++ {
		sb.WriteByte(letters[h.R.Intn(len(letters))])
	}
	sb.WriteByte(end)
	return sb.String()
}

func c12Gen(h *H, i int) c12Case {
	comps := []ch.Compression{ch.CompressionDisabled, ch.CompressionLZ4, ch.CompressionDisabled, ch.CompressionZSTD, ch.CompressionNone}
	c := c12Case{otel: i%2 == 0, comp: comps[h.R.Intn(len(comps))], logger: h.R.Intn(3)}
	ends := []byte{'Z', 'Z', 'Z', 'X', 'K'}
	switch k := i % 12; k {
	case 0, 1: // plain select
		c.kind = "select"
		c.seq = c12GenSeq(h, ends[h.R.Intn(len(ends))])
		c.rows = []int{0, 1, 2, 7, 50}[h.R.Intn(5)]
	case 2, 3, 4: // plain streamed insert, progress on the server's clock
		c.kind = "insert"
		c.blocks = []int{0, 1, 2, 5, 12, 30}[h.R.Intn(6)]
		c.rowsPer = []int{1, 1, 3, 40}[h.R.Intn(4)]
		c.gapUS = []int{0, 5, 20, 60}[h.R.Intn(4)]
		c.colInfo = h.R.Intn(4) != 0
		c.tail = h.R.Intn(3) == 0
		c.hdr = 1
		c.seq = "HWPZ"
		if c.colInfo && h.R.Intn(4) == 0 {
			// a server that repeats the header block while the sender is already using the first one
			c.hdr = 2
			c.seq = "HHWPZ"
		}
		if h.R.Intn(6) == 0 {
			c.seq = "HPPGX" // exception while the client streams
			c.gapUS = 50 + h.R.Intn(200)
		}
		if c.blocks == 0 {
			c.tail = false
		}
	case 5: // cancellation during a select that stalls
		c.kind = "cancel-select"
		c.seq = c12GenSeq(h, 'S')
		c.rows = 1 + h.R.Intn(5)
		if h.R.Intn(2) == 0 {
			c.cancelAfterUS = 1 + h.R.Intn(400)
		} else {
			c.cancelInCB = 1 + h.R.Intn(3)
			c.seq = "DPD" + c.seq
			c.cancelAfterUS = 3000 // safety net
		}
	case 6: // cancellation during a streamed insert
		c.kind = "cancel-insert"
		c.blocks = 200
		c.rowsPer = 2
		c.gapUS = 10
		c.colInfo = h.R.Intn(3) != 0
		c.hdr = 1
		c.seq = "HWZ"
		if h.R.Intn(2) == 0 {
			c.cancelAfterUS = 1 + h.R.Intn(600)
		} else {
			c.cancelInCB = 1 + h.R.Intn(8)
		}
	case 7: // foreign Close during a select
		c.kind = "close-select"
		c.seq = c12GenSeq(h, 'S')
		c.rows = 1 + h.R.Intn(5)
		c.closers = 1 + h.R.Intn(3)
		c.closeAfterUS = 1 + h.R.Intn(400)
	case 8: // foreign Close during a streamed insert
		c.kind = "close-insert"
		c.blocks = 200
		c.rowsPer = 2
		c.gapUS = 10
		c.colInfo = h.R.Intn(3) != 0
		c.hdr = 1
		c.seq = "HWZ"
		c.closers = 1 + h.R.Intn(3)
		c.closeAfterUS = 1 + h.R.Intn(600)
	case 9:
		if h.R.Intn(2) == 0 {
			c.kind = "ping"
			c.pings = 1 + h.R.Intn(5)
		} else {
			c.kind = "close-ping"
			c.pings = 30
			c.closers = 1 + h.R.Intn(3)
			c.closeAfterUS = 1 + h.R.Intn(300)
		}
	case 10:
		c.kind = "hs"
		c.cancelAfterUS = h.R.Intn(150)
	case 11:
		c.kind = "pool"
		c.users = 2 + h.R.Intn(7)
		c.iters = 4 + h.R.Intn(8)
		c.maxConns = 1 + h.R.Intn(4)
		c.minConns = h.R.Intn(c.maxConns + 1)
		c.healthUS = []int{100, 300, 1000}[h.R.Intn(3)]
		c.idleUS = []int{50, 500, 100000}[h.R.Intn(3)]
		c.lifeUS = []int{1000, 5000, 1000000}[h.R.Intn(3)]
		c.closeWhileRunning = h.R.Intn(4) == 0
		c.ops = make([][]int, c.users)
		for u := range c.ops {
			for k := 0; k < c.iters; k++ {
				c.ops[u] = append(c.ops[u], h.R.Intn(c12NOps))
			}
		}
	}
	return c
}

func c12Run(c c12Case) (oracle string) {
	defer func() {
		if r := recover(); r != nil {
			oracle = fmt.Sprintf("FAIL:panic in the calling goroutine: %v", r)
		}
	}()
	switch c.kind {
	case "select", "cancel-select", "close-select":
		return c12Select(c)
	case "insert", "cancel-insert", "close-insert":
		return c12Insert(c)
	case "ping", "close-ping":
		return c12Ping(c)
	case "hs":
		return c12Handshake(c)
	case "pool":
		return c12Pool(c)
	}
	return "FAIL:harness: unknown kind " + c.kind
}

func runC12(h *H) {
	only := h.Args["kind"]
	if only == "" || only == "pool" {
		// cold start: the first use of every compression method in this process is made by several pooled connections
		// at once (state that is set up lazily on first use and shared between clients shows only then)
		for _, comp := range []ch.Compression{ch.CompressionZSTD, ch.CompressionLZ4, ch.CompressionNone, ch.CompressionLZ4HC} {
			c := c12Case{kind: "pool", comp: comp, users: 6, iters: 3, maxConns: 6, healthUS: 1000, idleUS: 100000, lifeUS: 1000000}
			c.ops = make([][]int, c.users)
			for u := range c.ops {
				c.ops[u] = []int{c12OpDo, c12OpDo, c12OpDo}
			}
			name := c.String()
			fmt.Fprintf(os.Stderr, "C12CASE %d %s\n", h.Count, name)
			oracle := c12Run(c)
			fmt.Fprintf(os.Stderr, "C12END %d\n", h.Count)
			h.Emit(name, "-", oracle)
			h.Stat("kind:pool-cold-start")
			h.Stat("comp:" + c12CompSym(c.comp))
		}
		// the same through the standard library's *net.Dialer (caller-owned, shared by every connection of the pool):
		// several fresh pools, the first users of each arriving together so that the connections are dialled concurrently
		for k := 0; k < 4; k++ {
			c := c12Case{kind: "pool", comp: ch.CompressionNone, users: 5, iters: 2, maxConns: 5, healthUS: 1000, idleUS: 100000, lifeUS: 1000000, tcp: true}
			c.ops = make([][]int, c.users)
			for u := range c.ops {
				c.ops[u] = []int{c12OpDo, c12OpPing}
			}
			name := c.String()
			fmt.Fprintf(os.Stderr, "C12CASE %d %s\n", h.Count, name)
			oracle := c12Run(c)
			fmt.Fprintf(os.Stderr, "C12END %d\n", h.Count)
			h.Emit(name, "-", oracle)
			h.Stat("kind:pool-cold-start-tcp")
			if oracle == "-" {
				h.Stat("tcp-unavailable")
			}
		}
	}
	for i := 0; h.Count < h.N; i++ {
		c := c12Gen(h, i)
		if only != "" && !strings.HasPrefix(c.kind, only) && !strings.HasSuffix(c.kind, only) {
			if i > 100*h.N+1000 {
				break
			}
			continue
		}
		name := c.String()
		fmt.Fprintf(os.Stderr, "C12CASE %d %s\n", h.Count, name)
		oracle := c12Run(c)
		fmt.Fprintf(os.Stderr, "C12END %d\n", h.Count)
		h.Emit(name, "-", oracle)
		h.Stat("kind:" + c.kind)
		if c.otel {
			h.Stat("otel:on")
		} else {
			h.Stat("otel:off")
		}
		h.Stat("comp:" + c12CompSym(c.comp))
	}
}
