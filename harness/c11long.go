package main

// C11: long histories on one pooled connection.  chpool hands out its handles from a per-connection slab
// (64 at construction, refilled with 128): these scripts cross both slab boundaries, with repeated releases
// of old handles placed around them.

func init() { runners["c11long"] = runC11Long }

func runC11Long(h *H) {
	a := c11Op{kind: "acq", dial: true}
	rel := func(hd int) c11Op { return c11Op{kind: "rel", h: hd} }
	ping := func(hd int) c11Op { return c11Op{kind: "ping", h: hd} }
	for variant := 0; variant < 3; variant++ {
		var ops []c11Op
		n := 200
		for i := 0; i < n; i++ {
			ops = append(ops, a)
			// a repeated release by the holder of 64 / 128 / 192 acquisitions ago (the distances at which a handle
			// slab could come round again) and of a random earlier one, WHILE handle i holds the connection
			if i >= 64 && (i%64 <= 2 || h.R.Intn(12) == 0) {
				ops = append(ops, rel(i-64*(1+h.R.Intn(i/64))), ping(i))
			} else if i > 0 && h.R.Intn(10) == 0 {
				ops = append(ops, rel(h.R.Intn(i)), ping(i))
			}
			if i%7 == variant {
				ops = append(ops, ping(i))
			}
			ops = append(ops, rel(i))
			// a stale release by an old holder, around the slab boundaries and at random places
			if i == 63 || i == 64 || i == 65 || i == 127 || i == 128 || i == 191 || i == 192 || h.R.Intn(25) == 0 {
				old := i
				if i > 0 && h.R.Intn(2) == 0 {
					old = h.R.Intn(i)
				}
				ops = append(ops, rel(old))
			}
		}
		ops = append(ops, a, ping(n), a) // the second Acquire must wait/fail: MaxConns = 1 and handle n is held
		s := c11Script{id: 900000 + variant, max: 1, ops: ops[:len(ops)-1], category: "longcycle"}
		c, obs, oracle, _ := c11RunScript(s, 40)
		h.Emit(c, obs, oracle)
		h.Stat("c11.longcycle")
	}
}
