package main

// C05, third observation point: the client (ch.Connect / Client.Do) reading a compressed Data
// block from a scripted server over net.Pipe.  A good block must be decoded to its rows; a
// block altered in one byte must make Do fail with the exported *ch.CorruptedDataErr
// (query.go) carrying both checksums.  Direct oracle only (not run through the model).

import (
	"context"
	"encoding/binary"
	"errors"
	"fmt"
	"io"
	"net"
	"time"

	ch "github.com/ClickHouse/ch-go"
	"github.com/ClickHouse/ch-go/compress"
	"github.com/ClickHouse/ch-go/proto"
	"github.com/go-faster/city"
)

func c05ClientCase(h *H, method ch.Compression, wm compress.Method, alter int, vals []uint8) (oracle string, desc string) {
	ctx, cancel := context.WithTimeout(context.Background(), 10*time.Second)
	defer cancel()
	cli, srv := net.Pipe()
	defer cli.Close()
	defer srv.Close()

	// the block as the server would encode it
	var blk proto.Buffer
	col := proto.ColUInt8(vals)
	if err := (proto.Block{Columns: 1, Rows: len(vals)}).EncodeBlock(&blk, proto.Version, []proto.InputColumn{{Name: "v", Data: &col}}); err != nil {
		return "FAIL:client: cannot encode block: " + err.Error(), ""
	}
	w := compress.NewWriter(0, wm)
	if err := w.Compress(blk.Buf); err != nil {
		return "FAIL:client: Compress failed: " + err.Error(), ""
	}
	frame := append([]byte{}, w.Data...)
	if alter >= 0 {
		alter %= len(frame)
		if alter >= 17 && alter < 25 {
			alter = 25 + alter%(c05Max(len(frame)-25, 1))
			if alter >= len(frame) {
				alter = 16
			}
		}
		frame[alter] ^= 0x04
	}
	desc = fmt.Sprintf("client %s rows=%d alter=%d", c05MethodSym(wm), len(vals), alter)

	go func() {
		go func() { _, _ = io.Copy(io.Discard, srv) }() // whatever the client sends
		var b proto.Buffer
		hello := proto.ServerHello{Name: "scripted", Major: 23, Minor: 8, Revision: proto.Version, Timezone: "UTC", DisplayName: "c05"}
		hello.EncodeAware(&b, proto.Version)
		_, _ = srv.Write(b.Buf)
		b.Reset()
		b.PutUVarInt(uint64(proto.ServerCodeData))
		b.PutString("")
		b.Buf = append(b.Buf, frame...)
		b.PutUVarInt(uint64(proto.ServerCodeEndOfStream))
		_, _ = srv.Write(b.Buf)
	}()

	client, err := ch.Connect(ctx, cli, ch.Options{Compression: method, ReadTimeout: 5 * time.Second})
	if err != nil {
		return "FAIL:client: handshake with the scripted server failed: " + err.Error(), desc
	}
	var got proto.ColUInt8
	var all []uint8
	err = client.Do(ctx, ch.Query{
		Body:   "SELECT v",
		Result: proto.Results{{Name: "v", Data: &got}},
		OnResult: func(ctx context.Context, block proto.Block) error {
			all = append(all, got...)
			return nil
		},
	})
	if alter < 0 {
		if err != nil {
			return "FAIL:" + desc + ": Do failed on a good compressed block: " + err.Error(), desc
		}
		if len(all) != len(vals) || string(all) != string(vals) {
			return fmt.Sprintf("FAIL:%s: decoded %v, sent %v", desc, all, vals), desc
		}
		return "ok", desc
	}
	if err == nil {
		return "FAIL:" + desc + ": Do accepted an altered compressed block", desc
	}
	if len(all) != 0 {
		return fmt.Sprintf("FAIL:%s: %d rows delivered from an altered block", desc, len(all)), desc
	}
	var bad *ch.CorruptedDataErr
	if !errors.As(err, &bad) {
		return "FAIL:" + desc + ": error is not the exported CorruptedDataErr: " + err.Error(), desc
	}
	hh := city.CH128(frame[16:])
	if bad.Actual != hh || bad.Reference.Low != binary.LittleEndian.Uint64(frame) || bad.Reference.High != binary.LittleEndian.Uint64(frame[8:]) {
		return "FAIL:" + desc + ": CorruptedDataErr does not carry the actual and the reference checksum", desc
	}
	return "ok", desc
}

func c05Client(h *H) {
	ms := []struct {
		c ch.Compression
		m compress.Method
	}{{ch.CompressionLZ4, compress.LZ4}, {ch.CompressionZSTD, compress.ZSTD}, {ch.CompressionNone, compress.None}, {ch.CompressionLZ4HC, compress.LZ4HC}}
	n := 3
	if h.Tier == "thorough" {
		n = 12
	}
	for _, m := range ms {
		for i := 0; i < n; i++ {
			vals := make([]uint8, 1+h.R.Intn(40))
			for k := range vals {
				vals[k] = uint8(h.R.Intn(256))
			}
			alter := -1
			if i > 0 {
				alter = h.R.Intn(200)
				if i == 1 {
					alter = h.R.Intn(16) // inside the checksum
				}
			}
			oracle, desc := c05ClientCase(h, m.c, m.m, alter, vals)
			h.Emit(desc, "-", oracle)
			h.Stat("client")
		}
	}
}
