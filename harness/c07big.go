package main

// C07, blocks whose LAST column is a fixed-size column with a body beyond 1 MiB (the size class at which readers
// that bound their allocations read in steps): cuts right before, inside and at the end of that body.
// Direct oracle: Block.DecodeBlock must fail; if it ever succeeds, every target must report the block's row count.
//
//	c07big   one block per fixed-size kind (every integer / float / decimal / date / time / UUID / IP / Bool / enum
//	         kind of the catalogue, FixedString(N) inferred and user-sized ColFixedStr): [UInt8 id; the big column],
//	         rows chosen so that the body is ~1.1-1.3 MiB, built from raw bytes by the column's own DecodeColumn and
//	         encoded by the real Block.EncodeBlock; typed targets and Results.Auto.

import (
	"bytes"
	"fmt"
	"math/rand"
	"strings"

	"github.com/ClickHouse/ch-go/proto"
)

func init() { runners["c07big"] = runC07Big }

var c07BigKinds = []c14ColSpec{
	{mk: func() proto.Column { return &proto.ColFixedStr{Size: 24} }, bytesLen: 24},
	{typ: "FixedString(32)", bytesLen: 32},
	{mk: func() proto.Column { return &proto.ColFixedStr{Size: 1} }, bytesLen: 1},
	{typ: "FixedString(512)", bytesLen: 512},
	{typ: "UInt8"}, {typ: "Int8"}, {typ: "UInt16"}, {typ: "Int16"}, {typ: "UInt32"}, {typ: "Int32"}, {typ: "UInt64"}, {typ: "Int64"},
	{typ: "UInt128"}, {typ: "Int128"}, {typ: "UInt256"}, {typ: "Int256"}, {typ: "Float32"}, {typ: "Float64"},
	{typ: "Bool"}, {typ: "UUID"}, {typ: "IPv4"}, {typ: "IPv6"},
	{typ: "Date"}, {typ: "Date32"}, {typ: "DateTime"}, {typ: "DateTime('UTC')"}, {typ: "DateTime64(3)"}, {typ: "DateTime64(9, 'UTC')"},
	{typ: "Decimal32(4)"}, {typ: "Decimal64(6)"}, {typ: "Decimal128(10)"}, {typ: "Decimal256(20)"},
	{typ: "Enum8('a' = 1, 'b' = 2)", strPool: []string{"a", "b"}}, {typ: "Enum16('a' = 1, 'b' = 2)", strPool: []string{"a", "b"}},
	{typ: "IntervalSecond"}, {typ: "Nothing"},
	{mk: func() proto.Column { return new(proto.ColPoint) }},
}

// width of one row on the wire, measured on the real encoder
func c07BigWidth(s c14ColSpec) int {
	col, err := c14Make(s, 2, 1, false)
	if err != nil {
		return 0
	}
	_, body, err := encodeCol(col, nil)
	if err != nil || len(body)%2 != 0 {
		return 0
	}
	return len(body) / 2
}

func c07BigCol(s c14ColSpec, rows, width int, r *rand.Rand) (proto.Column, error) {
	col, err := s.build()
	if err != nil {
		return nil, err
	}
	raw := make([]byte, rows*width)
	r.Read(raw)
	name := s.name()
	switch {
	case name == "Bool":
		for i := range raw {
			raw[i] &= 1
		}
	case strings.HasPrefix(name, "Enum8"):
		for i := range raw {
			raw[i] = 1 + raw[i]&1
		}
	case strings.HasPrefix(name, "Enum16"):
		for i := range raw {
			if i%2 == 0 {
				raw[i] = 1 + raw[i]&1
			} else {
				raw[i] = 0
			}
		}
	}
	err = c14Guard(func() error { return col.DecodeColumn(proto.NewReader(bytes.NewReader(raw)), rows) })
	return col, err
}

func runC07Big(h *H) {
	// the FixedString forms first, then the others in an order that rotates with the seed; -n bounds the number of kinds
	kinds := append([]c14ColSpec{}, c07BigKinds...)
	rest := kinds[3:]
	h.R.Shuffle(len(rest), func(i, j int) { rest[i], rest[j] = rest[j], rest[i] })
	if h.N >= 3 && h.N < len(kinds) {
		kinds = kinds[:h.N]
	}
	type job struct {
		s    c14ColSpec
		rows int // 0: a body just beyond 1 MiB
	}
	var jobs []job
	for _, s := range kinds {
		jobs = append(jobs, job{s, 0})
	}
	// columns without values (Nothing: one placeholder byte per row, skipped by the decoder) at row counts that are
	// whole multiples of the sizes readers work in: what is skipped must still have been there
	nothing := []c14ColSpec{{typ: "Nothing"}, {typ: "Nullable(Nothing)"}, {typ: "Array(Nothing)"}}
	for i, rows := range []int{1 << 16, 1 << 17, 3 << 16, 1 << 20} {
		jobs = append(jobs, job{nothing[(i+int(h.Seed))%len(nothing)], rows})
	}
	for _, j := range jobs {
		s := j.s
		width := c07BigWidth(s)
		if width == 0 {
			h.Stat("c07big.skipped.width")
			continue
		}
		rows := (1<<20)/width + 1 + (1<<16+h.R.Intn(1<<17))/width
		if j.rows > 0 {
			rows = j.rows
		}
		big, err := c07BigCol(s, rows, width, h.R)
		if err != nil {
			h.Stat("c07big.skipped.build")
			continue
		}
		id := new(proto.ColUInt8)
		for i := 0; i < rows; i++ {
			id.Append(uint8(i))
		}
		var buf proto.Buffer
		blk := proto.Block{Info: proto.BlockInfo{BucketNum: -1}, Columns: 2, Rows: rows}
		err = c14Guard(func() error {
			return blk.EncodeBlock(&buf, proto.Version, []proto.InputColumn{{Name: "id", Data: id}, {Name: "big", Data: big}})
		})
		if err != nil {
			h.Stat("c07big.skipped.encode")
			continue
		}
		w := buf.Buf
		bodyLen := rows * width
		start := len(w) - bodyLen
		cuts := []int{start - 1, start, start + 1, start + width, start + width + 1, start + bodyLen/2, start + 1<<20 - 1, start + 1<<20, start + 1<<20 + 1,
			len(w) - width - 1, len(w) - width, len(w) - 2, len(w) - 1}
		for i := 0; i < 3; i++ {
			cuts = append(cuts, start+h.R.Intn(bodyLen))
		}
		for k := 1; k <= 3; k++ { // around every 64 KiB step counted from the end of the body
			cuts = append(cuts, len(w)-k<<16-1, len(w)-k<<16, len(w)-k<<16+1)
		}
		auto := c14Guard(func() error { return new(proto.ColAuto).Infer(big.Type()) }) == nil
		for _, useAuto := range []bool{false, true} {
			if useAuto && !auto {
				continue
			}
			fail := ""
			// the whole block is accepted
			decode := func(in []byte) (res proto.Results, err error, crashed bool) {
				defer func() {
					if p := recover(); p != nil {
						crashed, err = true, fmt.Errorf("panic: %v", p)
					}
				}()
				var target proto.Result
				if useAuto {
					target = res.Auto()
					var b2 proto.Block
					err = b2.DecodeBlock(proto.NewReader(bytes.NewReader(in)), proto.Version, target)
					return res, err, false
				}
				tcol, berr := s.build()
				if berr != nil {
					return nil, berr, false
				}
				res = proto.Results{{Name: "id", Data: new(proto.ColUInt8)}, {Name: "big", Data: tcol}}
				var b2 proto.Block
				err = b2.DecodeBlock(proto.NewReader(bytes.NewReader(in)), proto.Version, res)
				return res, err, false
			}
			if _, err, crashed := decode(w); err != nil || crashed {
				fail = "whole block: a complete block was rejected: " + c18Clean(fmt.Sprint(err))
			}
			for _, c := range cuts {
				if fail != "" || c < 0 || c >= len(w) {
					continue
				}
				res, err, crashed := decode(w[:c])
				switch {
				case crashed:
					fail = fmt.Sprintf("prefix: DecodeBlock panicked on the first %d of %d bytes (body of the last column starts at %d): %s", c, len(w), start, c18Clean(err.Error()))
				case err == nil:
					var got []string
					for _, rc := range res {
						got = append(got, fmt.Sprint(c18Rows(rc.Data)))
					}
					fail = fmt.Sprintf("prefix: the first %d of %d bytes of a block of %d rows were accepted as a complete block (the %d-byte body of its last column starts at %d); the targets report [%s] rows",
						c, len(w), rows, bodyLen, start, strings.Join(got, " "))
				}
			}
			oracle := "ok"
			if fail != "" {
				oracle = "FAIL:" + fail
			}
			h.Emit(fmt.Sprintf("c07big %s last=%s width=%d rows=%d auto=%v cuts=%d", buildName, strings.ReplaceAll(s.name(), " ", ""), width, rows, useAuto, len(cuts)), "-", oracle)
			h.Stat("c07big.blocks")
		}
	}
}
