//go:build !verif

package main

import "sync/atomic"

var c04CurCtl atomic.Pointer[c04Ctl]

// without the verif tag the library has no hook points: gated runs are not possible
const c04HooksOn = false
