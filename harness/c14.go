package main

// C14 - the vectored writer (proto.Writer) emits exactly what was chained, once, in order.
//
// Two families of cases:
//
//	wr ...   operation histories on a real proto.Writer over a programmable io.Writer.  The case
//	         line is what the Coq model (coq/model/Writer.v through GlueWr.v) replays; the
//	         observation is what the sink received.  The direct oracle is an independent, memory-free
//	         bookkeeping of "everything appended or chained since the previous flush".
//	col/blk  a catalogue of real columns and blocks written through the vectored path
//	         (WriteColumn/WriteBlock + Flush) and through the buffer path (EncodeColumn/EncodeBlock):
//	         direct oracle only (the column model is not part of this layer).

import (
	"bytes"
	"fmt"
	"math/rand"
	"reflect"
	"strconv"
	"strings"
	"time"

	"github.com/ClickHouse/ch-go/proto"
)

func init() { runners["c14"] = runC14 }

// ---------------------------------------------------------------- the sink

type c14SinkSpec struct {
	mode    int // 0 accepts everything, 1 fails after `n` bytes, 2 takes at most n bytes per Write
	n       int
	withErr bool
}

func (s c14SinkSpec) sx() string {
	switch s.mode {
	case 1:
		return sx("fail", strconv.Itoa(s.n))
	case 2:
		return sx("short", strconv.Itoa(s.n), bsym(s.withErr))
	}
	return "ok"
}

func (s c14SinkSpec) conforming() bool { return s.mode != 2 || s.withErr }

type c14Err struct{}

func (c14Err) Error() string { return "sink failure" }

type c14Sink struct {
	spec  c14SinkSpec
	left  int
	scr   []byte
	calls [][]byte // copies of the slices presented to Write
	taken []byte   // bytes the sink took
	errs  int
}

var c14Scratch []byte

func (s *c14Sink) arm(spec c14SinkSpec, scr []byte) {
	s.spec, s.left, s.scr = spec, spec.n, scr
	s.calls, s.taken, s.errs = nil, nil, 0
}

func (s *c14Sink) Write(p []byte) (int, error) {
	s.calls = append(s.calls, append([]byte(nil), p...))
	n, fail := len(p), false
	switch s.spec.mode {
	case 1:
		if len(p) <= s.left {
			s.left -= len(p)
		} else {
			n, fail = s.left, true
			s.left = 0
		}
	case 2:
		if len(p) > s.spec.n {
			n, fail = s.spec.n, s.spec.withErr
		}
	}
	s.taken = append(s.taken, p[:n]...)
	if len(s.scr) > 0 {
		// a consumer that appends to the slice it was handed: harmless iff the slice is capacity-limited
		c14Scratch = append(p, s.scr...)
	}
	if fail {
		s.errs++
		return n, c14Err{}
	}
	return n, nil
}

// ---------------------------------------------------------------- operations

type c14Bop struct {
	kind  byte // 'a' append, 's' set, 't' truncate
	d     []byte
	pos   int
	extra int // observed: spare capacity after a reallocating append
}

type c14Op struct {
	kind string // cb cw mx fl
	cb   []c14Bop
	id   int
	d    []byte
	sink c14SinkSpec
	scr  []byte
}

func (o *c14Op) sx() string {
	switch o.kind {
	case "cb":
		xs := []string{"cb"}
		for _, b := range o.cb {
			switch b.kind {
			case 'a':
				xs = append(xs, sx("a", hx(b.d), "f", strconv.Itoa(b.extra)))
			case 's':
				xs = append(xs, sx("s", strconv.Itoa(b.pos), hx(b.d)))
			case 't':
				xs = append(xs, sx("t", strconv.Itoa(b.pos)))
			}
		}
		return sx(xs...)
	case "cw":
		return sx("cw", strconv.Itoa(o.id))
	case "mx":
		return sx("mx", strconv.Itoa(o.id), hx(o.d))
	}
	return sx("fl", o.sink.sx(), hx(o.scr))
}

// bookkeeping of the property itself: no memory, no writer
type c14Item struct {
	b     []byte // bytes appended through the buffer, or the chain-time contents of a chained slice
	ext   int    // >= 0: a chained caller-owned slice
	muted bool   // the caller overwrote it after chaining (zero-copy: either contents are acceptable)
}

type c14Run struct {
	h        *H
	cap0     int
	init     []byte
	exts0    [][]byte
	exts     [][]byte
	buf      *proto.Buffer
	sink     *c14Sink
	w        *proto.Writer
	done     []c14Item
	base     int
	tail     []byte
	contract bool
	ops      []string
	obs      []string
	oracle   string
	crashed  bool
	flushes  int
}

func c14New(h *H, cap0 int, init []byte, exts [][]byte) *c14Run {
	r := &c14Run{h: h, cap0: cap0, init: init, contract: true, oracle: "ok"}
	if cap0 < len(init) {
		r.cap0 = len(init)
	}
	b := make([]byte, len(init), r.cap0)
	copy(b, init)
	r.buf = &proto.Buffer{Buf: b}
	r.tail = append([]byte(nil), init...)
	for _, e := range exts {
		r.exts0 = append(r.exts0, append([]byte(nil), e...))
		c := make([]byte, len(e))
		copy(c, e)
		r.exts = append(r.exts, c[:len(c):len(c)])
	}
	r.sink = &c14Sink{}
	r.w = proto.NewWriter(r.sink, r.buf)
	return r
}

func (r *c14Run) fail(msg string) {
	if r.oracle == "ok" {
		r.oracle = "FAIL:" + msg
	}
}

// where the staging buffer stands according to the bookkeeping
func (r *c14Run) bufLen() int { return r.base + len(r.tail) }

func (r *c14Run) closeTail() {
	if len(r.tail) > 0 {
		r.done = append(r.done, c14Item{b: r.tail, ext: -1})
		r.base += len(r.tail)
		r.tail = nil
	}
}

func (r *c14Run) do(o *c14Op) {
	if r.crashed {
		return
	}
	defer func() {
		r.ops = append(r.ops, o.sx())
		if p := recover(); p != nil {
			r.crashed = true
			if r.contract {
				r.fail(fmt.Sprintf("panic inside the contract at op %d (%s): %v", len(r.ops), o.kind, p))
			}
		}
	}()
	switch o.kind {
	case "cb":
		// bookkeeping first (it must not depend on the implementation)
		for i := range o.cb {
			b := &o.cb[i]
			switch b.kind {
			case 'a':
				r.tail = append(r.tail, b.d...)
			case 's':
				if b.pos < r.base || b.pos > r.bufLen() {
					r.contract = false
				} else {
					copy(r.tail[b.pos-r.base:], b.d)
				}
			case 't':
				if b.pos < r.base || b.pos > r.bufLen() {
					r.contract = false
				} else {
					r.tail = r.tail[:b.pos-r.base]
				}
			}
		}
		r.w.ChainBuffer(func(buf *proto.Buffer) {
			for i := range o.cb {
				b := &o.cb[i]
				switch b.kind {
				case 'a':
					fits := len(buf.Buf)+len(b.d) <= cap(buf.Buf)
					buf.PutRaw(b.d)
					if !fits {
						b.extra = cap(buf.Buf) - len(buf.Buf)
						r.h.Stat("c14.realloc")
					}
				case 's':
					copy(buf.Buf[b.pos:], b.d)
				case 't':
					buf.Buf = buf.Buf[:b.pos]
				}
			}
		})
	case "cw":
		r.closeTail()
		r.done = append(r.done, c14Item{b: append([]byte(nil), r.exts[o.id]...), ext: o.id})
		r.w.ChainWrite(r.exts[o.id])
	case "mx":
		copy(r.exts[o.id], o.d)
		for i := range r.done {
			if r.done[i].ext == o.id {
				r.done[i].muted = true
			}
		}
	case "fl":
		r.flushes++
		r.closeTail()
		items := r.done
		r.done, r.base, r.tail = nil, 0, nil
		r.sink.arm(o.sink, o.scr)
		n, err := r.w.Flush()
		r.obs = append(r.obs, sx("f", strconv.FormatInt(n, 10), bsym(err != nil), hx(r.sink.taken)))
		if r.contract {
			r.judge(items, n, err, o.sink)
		}
	}
}

// judge evaluates the property on one flush: what reached the sink against the bookkeeping.
func (r *c14Run) judge(items []c14Item, n int64, err error, spec c14SinkSpec) {
	var presented []byte
	for _, c := range r.sink.calls {
		presented = append(presented, c...)
	}
	var want, alt []byte // chain-time contents / contents at flush time for overwritten chained slices
	for _, it := range items {
		want = append(want, it.b...)
		if it.ext >= 0 && it.muted {
			alt = append(alt, r.exts[it.ext]...)
		} else {
			alt = append(alt, it.b...)
		}
	}
	tag := fmt.Sprintf("flush %d", r.flushes)
	if len(presented) > len(want) {
		r.fail(fmt.Sprintf("%s: %d bytes written, only %d were appended or chained since the previous flush", tag, len(presented), len(want)))
		return
	}
	// item by item: a region must match one of its two acceptable contents
	pos := 0
	for _, it := range items {
		end := pos + len(it.b)
		if end > len(presented) {
			end = len(presented)
		}
		if pos >= end {
			break
		}
		if !bytes.Equal(presented[pos:end], want[pos:end]) && !bytes.Equal(presented[pos:end], alt[pos:end]) {
			r.fail(fmt.Sprintf("%s: bytes written differ from what was appended or chained (in call order) within [%d,%d)", tag, pos, end))
			return
		}
		pos += len(it.b)
	}
	if err == nil && len(presented) != len(want) {
		r.fail(fmt.Sprintf("%s: reported success but wrote %d of %d bytes", tag, len(presented), len(want)))
	}
	if int(n) != len(r.sink.taken) {
		r.fail(fmt.Sprintf("%s: returned n=%d but the sink took %d bytes", tag, n, len(r.sink.taken)))
	}
	if (err != nil) != (r.sink.errs > 0) {
		r.fail(fmt.Sprintf("%s: error reporting does not follow the sink (err=%v, sink errors=%d)", tag, err != nil, r.sink.errs))
	}
	if r.sink.errs > 1 {
		r.fail(tag + ": kept writing after the sink failed")
	}
	if spec.conforming() {
		if !bytes.HasPrefix(presented, r.sink.taken) {
			r.fail(tag + ": bytes taken by the sink are not a prefix of what was chained")
		}
		if err != nil && len(r.sink.taken) >= len(want) {
			r.fail(tag + ": failure reported although everything was taken")
		}
	}
	if len(r.buf.Buf) != 0 {
		r.fail(fmt.Sprintf("%s: staging buffer holds %d bytes after the flush", tag, len(r.buf.Buf)))
	}
}

func (r *c14Run) emit() {
	if !r.crashed {
		// whatever is left must be exactly what came after the last flush
		r.do(&c14Op{kind: "fl"})
	}
	var exts []string
	for _, e := range r.exts0 {
		exts = append(exts, hx(e))
	}
	c := fmt.Sprintf("wr %d %s %s %s", r.cap0, hx(r.init), sx(exts...), sx(r.ops...))
	obs := "ok " + strings.Join(r.obs, " ")
	if len(r.obs) == 0 {
		obs = "ok"
	}
	if r.crashed {
		obs += " (crash)"
		r.h.Stat("c14.crash")
	} else {
		obs += " " + sx("end", strconv.Itoa(len(r.buf.Buf)))
	}
	oracle := r.oracle
	if !r.contract && !strings.HasPrefix(oracle, "FAIL") {
		oracle = "-"
		r.h.Stat("c14.outside-contract")
	}
	r.h.Emit(c, obs, oracle)
}

// ---------------------------------------------------------------- generators

// distinct bytes for every operation instance, so that order and duplication are visible
type c14Ctr struct{ c byte }

func (c *c14Ctr) bytes(n int) []byte {
	b := make([]byte, n)
	for i := range b {
		c.c++
		if c.c == 0 {
			c.c = 1
		}
		b[i] = c.c
	}
	return b
}

const c14Alphabet = 12

// symbol k of the small alphabet, resolved against the current position of the staging buffer
func c14Symbol(k int, r *c14Run, ctr *c14Ctr) *c14Op {
	switch k {
	case 0:
		return &c14Op{kind: "cb", cb: []c14Bop{{kind: 'a', d: ctr.bytes(1)}}}
	case 1: // grows across the initial capacity
		return &c14Op{kind: "cb", cb: []c14Bop{{kind: 'a', d: ctr.bytes(9)}}}
	case 2: // append, then rewrite the last byte of the uncut tail
		d := ctr.bytes(2)
		return &c14Op{kind: "cb", cb: []c14Bop{{kind: 'a', d: d}, {kind: 's', pos: r.bufLen() + 1, d: ctr.bytes(1)}}}
	case 3: // drop the uncut tail and replace it (what the compressed path does)
		return &c14Op{kind: "cb", cb: []c14Bop{{kind: 't', pos: r.base}, {kind: 'a', d: ctr.bytes(2)}}}
	case 4:
		return &c14Op{kind: "cw", id: 0}
	case 5:
		return &c14Op{kind: "cw", id: 1} // empty slice
	case 6:
		return &c14Op{kind: "cw", id: 2}
	case 7:
		return &c14Op{kind: "mx", id: 0, d: ctr.bytes(2)}
	case 8:
		return &c14Op{kind: "fl"}
	case 9:
		return &c14Op{kind: "fl", sink: c14SinkSpec{mode: 1, n: 2}}
	case 10:
		return &c14Op{kind: "fl", sink: c14SinkSpec{mode: 2, n: 1, withErr: true}, scr: []byte{0xEE, 0xEF}}
	default:
		return &c14Op{kind: "fl", sink: c14SinkSpec{mode: 2, n: 1, withErr: false}, scr: []byte{0xEE}}
	}
}

func c14Exhaustive(h *H, maxLen int, budget int) int {
	n := 0
	for l := 1; l <= maxLen; l++ {
		total := 1
		for i := 0; i < l; i++ {
			total *= c14Alphabet
		}
		for code := 0; code < total; code++ {
			if n >= budget {
				return n
			}
			ctr := &c14Ctr{}
			r := c14New(h, 4, nil, [][]byte{{0xA1, 0xA2, 0xA3}, {}, {0xB1}})
			c := code
			for i := 0; i < l; i++ {
				r.do(c14Symbol(c%c14Alphabet, r, ctr))
				c /= c14Alphabet
			}
			r.emit()
			n++
		}
		h.Stat(fmt.Sprintf("c14.exhaustive.len%d", l))
	}
	return n
}

var c14Sizes = []int{0, 1, 1, 2, 3, 7, 8, 9, 15, 16, 17, 31, 32, 33, 63, 64, 65, 127, 128, 129, 255, 256, 257, 511, 512, 513, 600, 1023, 1025}

func c14Size(r *rand.Rand) int {
	if r.Intn(5) == 0 {
		return r.Intn(40)
	}
	return c14Sizes[r.Intn(len(c14Sizes))]
}

func c14RandBytes(r *rand.Rand, n int) []byte {
	b := make([]byte, n)
	r.Read(b)
	return b
}

func c14RandSink(rr *rand.Rand, pending int) (c14SinkSpec, []byte) {
	var scr []byte
	if rr.Intn(3) == 0 {
		scr = c14RandBytes(rr, 1+rr.Intn(4))
	}
	switch rr.Intn(6) {
	case 0, 1:
		n := 0
		switch rr.Intn(4) {
		case 0:
			n = rr.Intn(4)
		case 1:
			n = pending - rr.Intn(3)
		default:
			n = rr.Intn(pending + 2)
		}
		if n < 0 {
			n = 0
		}
		return c14SinkSpec{mode: 1, n: n}, scr
	case 2:
		return c14SinkSpec{mode: 2, n: []int{0, 1, 2, 8, 64, 300}[rr.Intn(6)], withErr: rr.Intn(3) != 0}, scr
	}
	return c14SinkSpec{}, scr
}

// one random history; outside = also take steps the documented contract of ChainBuffer forbids
func c14Random(h *H, outside bool) {
	rr := h.R
	cap0 := []int{0, 0, 1, 4, 8, 64, 512, 4096}[rr.Intn(8)]
	var init []byte
	if rr.Intn(6) == 0 {
		init = c14RandBytes(rr, rr.Intn(12))
	}
	var exts [][]byte
	for i, n := 0, 1+rr.Intn(4); i < n; i++ {
		exts = append(exts, c14RandBytes(rr, c14Size(rr)/(1+rr.Intn(3))))
	}
	r := c14New(h, cap0, init, exts)
	nops := 3 + rr.Intn(14)
	if rr.Intn(4) == 0 {
		nops = 20 + rr.Intn(40)
	}
	pending := func() int {
		t := r.bufLen()
		for _, it := range r.done {
			if it.ext >= 0 {
				t += len(it.b)
			}
		}
		return t
	}
	budget := 6000 // bytes per case: keeps the unary arithmetic of the extracted model fast
	for i := 0; i < nops && !r.crashed; i++ {
		switch k := rr.Intn(20); {
		case k < 9:
			var cb []c14Bop
			ln := r.bufLen()
			for j, m := 0, 1+rr.Intn(3); j < m; j++ {
				switch q := rr.Intn(10); {
				case q < 6:
					n := c14Size(rr)
					if n > budget {
						n = budget
					}
					budget -= n
					cb = append(cb, c14Bop{kind: 'a', d: c14RandBytes(rr, n)})
					ln += n
				case q < 8: // rewrite inside the uncut tail
					if ln > r.base {
						p := r.base + rr.Intn(ln-r.base+1)
						cb = append(cb, c14Bop{kind: 's', pos: p, d: c14RandBytes(rr, rr.Intn(ln-p+2))})
					}
				case q < 9: // shrink the uncut tail
					if ln >= r.base {
						p := r.base + rr.Intn(ln-r.base+1)
						cb = append(cb, c14Bop{kind: 't', pos: p})
						ln = p
					}
				default:
					if outside {
						switch rr.Intn(4) {
						case 0: // rewrite bytes that are already cut
							if r.base > 0 {
								cb = append(cb, c14Bop{kind: 's', pos: rr.Intn(r.base), d: c14RandBytes(rr, 1+rr.Intn(4))})
							}
						case 1: // shrink below the cut point: the next cut panics
							if r.base > 0 {
								p := rr.Intn(r.base)
								cb = append(cb, c14Bop{kind: 't', pos: p})
								ln = p
							}
						case 2: // re-slice beyond len: exposes stale bytes, or panics beyond cap
							p := ln + 1 + rr.Intn(6)
							cb = append(cb, c14Bop{kind: 't', pos: p})
							ln = p
						default: // copy at a position beyond len
							cb = append(cb, c14Bop{kind: 's', pos: ln + 1 + rr.Intn(3), d: []byte{1}})
						}
					}
				}
			}
			r.do(&c14Op{kind: "cb", cb: cb})
			h.Stat("c14.op.cb")
		case k < 14:
			r.do(&c14Op{kind: "cw", id: rr.Intn(len(exts))})
			h.Stat("c14.op.cw")
		case k < 16:
			id := rr.Intn(len(exts))
			r.do(&c14Op{kind: "mx", id: id, d: c14RandBytes(rr, rr.Intn(len(exts[id])+2))})
			h.Stat("c14.op.mx")
		default:
			s, scr := c14RandSink(rr, pending())
			r.do(&c14Op{kind: "fl", sink: s, scr: scr})
			h.Stat("c14.op.fl." + []string{"ok", "fail", "short"}[s.mode])
		}
	}
	r.emit()
}

// ---------------------------------------------------------------- columns and blocks through both paths

type c14ColSpec struct {
	typ      string // type string for proto.ColAuto.Infer; empty when mk is given
	mk       func() proto.Column
	bytesLen int      // length of []byte values (FixedString)
	strPool  []string // admissible string values (Enum)
}

var c14Catalogue = []c14ColSpec{
	{typ: "Int8"}, {typ: "Int16"}, {typ: "Int32"}, {typ: "Int64"}, {typ: "Int128"}, {typ: "Int256"},
	{typ: "UInt8"}, {typ: "UInt16"}, {typ: "UInt32"}, {typ: "UInt64"}, {typ: "UInt128"}, {typ: "UInt256"},
	{typ: "Float32"}, {typ: "Float64"}, {typ: "String"}, {typ: "Bool"}, {typ: "UUID"}, {typ: "Nothing"},
	{typ: "Date"}, {typ: "Date32"}, {typ: "DateTime"}, {typ: "DateTime('UTC')"}, {typ: "DateTime64(3)"}, {typ: "DateTime64(9, 'UTC')"},
	{typ: "IPv4"}, {typ: "IPv6"},
	{typ: "FixedString(8)", bytesLen: 8}, {typ: "FixedString(16)", bytesLen: 16}, {typ: "FixedString(512)", bytesLen: 512},
	{typ: "Decimal32(4)"}, {typ: "Decimal64(6)"}, {typ: "Decimal128(10)"}, {typ: "Decimal256(20)"}, {typ: "Decimal(12, 3)"},
	{typ: "Enum8('a' = 1, 'b' = 2)", strPool: []string{"a", "b"}}, {typ: "Enum8('unknown' = 0, 'ok' = 1, 'failed' = -1)", strPool: []string{"unknown", "unknown", "ok", "failed"}}, {typ: "Enum16('x' = 1000, 'y' = -5, 'z' = 7)", strPool: []string{"x", "y", "z"}},
	{typ: "IntervalSecond"}, {typ: "IntervalYear"},
	{typ: "Array(String)"}, {typ: "Array(UInt32)"}, {typ: "Array(Int8)"},
	{typ: "Array(FixedString(8))", bytesLen: 8}, {typ: "Array(UUID)"}, {typ: "Array(DateTime)"}, {typ: "Array(Bool)"},
	{typ: "Nullable(String)"}, {typ: "Nullable(UInt64)"}, {typ: "Nullable(Int8)"}, {typ: "Nullable(DateTime)"}, {typ: "Nullable(IPv6)"},
	{typ: "Nullable(FixedString(16))", bytesLen: 16}, {typ: "Nullable(UUID)"}, {typ: "Nullable(Float64)"},
	{typ: "Array(Nullable(Int32))"}, {typ: "Array(Nullable(String))"},
	{typ: "LowCardinality(String)"}, {typ: "LowCardinality(UInt16)"}, {typ: "LowCardinality(FixedString(8))", bytesLen: 8},
	{typ: "Array(LowCardinality(String))"}, {typ: "LowCardinality(Date)"},
	{typ: "Map(String,String)"},
	// typed columns that ColAuto does not build
	{mk: func() proto.Column { return proto.NewMap[string, uint64](new(proto.ColStr), new(proto.ColUInt64)) }},
	{mk: func() proto.Column {
		return proto.NewMap[int32, []string](new(proto.ColInt32), new(proto.ColStr).Array())
	}},
	{mk: func() proto.Column {
		return proto.NewMap[string, string](new(proto.ColStr).LowCardinality(), new(proto.ColStr))
	}},
	{mk: func() proto.Column {
		return proto.NewLowCardinality[proto.Nullable[string]](proto.NewColNullable[string](new(proto.ColStr)))
	}},
	// Nullable over a column that needs Prepare (ColNullable forwards it since fix 620e790); the value kept under a
	// null row has to be one of the names as well
	{mk: func() proto.Column {
		e := new(proto.ColEnum)
		_ = e.Infer("Enum8('a' = 1, 'b' = 2)")
		return proto.NewColNullable[string](e)
	}, strPool: []string{"a", "b"}},
	{mk: func() proto.Column {
		e := new(proto.ColEnum)
		_ = e.Infer("Enum16('x' = 1000, 'y' = -5, 'z' = 7)")
		return proto.NewArray[proto.Nullable[string]](proto.NewColNullable[string](e))
	}, strPool: []string{"x", "y", "z"}},
	{mk: func() proto.Column { return new(proto.ColPoint) }},
	{mk: func() proto.Column { return new(proto.ColBytes) }},
	{mk: func() proto.Column { return new(proto.ColJSONStr) }},
	{mk: func() proto.Column { return proto.ColTuple{new(proto.ColStr), new(proto.ColInt64)} }},
	{mk: func() proto.Column {
		return proto.ColTuple{new(proto.ColStr).LowCardinality(), new(proto.ColUInt8).Nullable(), new(proto.ColUInt32).Array()}
	}},
	{mk: func() proto.Column { return proto.NewArray[proto.Point](new(proto.ColPoint)) }},
	{mk: func() proto.Column { return new(proto.ColDateTime64).WithPrecision(proto.PrecisionMicro) }},
	{mk: func() proto.Column { return &proto.ColFixedStr{Size: 3} }, bytesLen: 3},
	{mk: func() proto.Column { return proto.NewArray[[]byte](&proto.ColFixedStr{Size: 5}) }, bytesLen: 5},
	{mk: func() proto.Column { return proto.NewArray[[]string](new(proto.ColStr).Array()) }},
	{mk: func() proto.Column {
		return proto.NewArray[[][]uint64](proto.NewArray[[]uint64](new(proto.ColUInt64).Array()))
	}},
	{mk: func() proto.Column { return proto.NewArray[[]string](new(proto.ColStr).LowCardinality().Array()) }},
	// tuples with adopting elements: as typed targets they take their own type since the C18y repair (ColTuple.Infer
	// hands element i the i-th argument of Tuple(...), ColNamed.Infer strips its name); before it they rejected it
	{mk: func() proto.Column {
		return proto.ColTuple{new(proto.ColStr), new(proto.ColDateTime64).WithPrecision(proto.PrecisionMilli)}
	}},
	{mk: func() proto.Column {
		e := new(proto.ColEnum)
		_ = e.Infer("Enum8('a' = 1, 'b' = 2)")
		return proto.ColTuple{e, (&proto.ColDateTime{Location: time.UTC}).Nullable()}
	}, strPool: []string{"a", "b"}},
	{mk: func() proto.Column {
		e := new(proto.ColEnum)
		_ = e.Infer("Enum16('x' = 1000, 'y' = -5, 'z' = 7)")
		return proto.ColTuple{
			proto.Named[string](new(proto.ColStr), "s"),
			proto.Named[string](e, "e"),
			proto.Named[time.Time](new(proto.ColDateTime64).WithPrecision(proto.PrecisionMicro).WithLocation(time.UTC), "t"),
		}
	}, strPool: []string{"x", "y", "z"}},
	{mk: func() proto.Column {
		e := new(proto.ColEnum)
		_ = e.Infer("Enum8('a' = 1, 'b' = 2)")
		return proto.ColTuple{
			new(proto.ColStr),
			proto.ColTuple{e, new(proto.ColDateTime64).WithPrecision(proto.PrecisionNano).WithLocation(time.UTC).Array()},
			new(proto.ColUInt8),
		}
	}, strPool: []string{"a", "b"}},
}

func (s c14ColSpec) name() string {
	if s.typ != "" {
		return s.typ
	}
	return string(s.mk().Type())
}

func (s c14ColSpec) build() (col proto.Column, err error) {
	defer func() {
		if p := recover(); p != nil {
			err = fmt.Errorf("panic: %v", p)
		}
	}()
	if s.mk != nil {
		return s.mk(), nil
	}
	a := new(proto.ColAuto)
	if err := a.Infer(proto.ColumnType(s.typ)); err != nil {
		return nil, err
	}
	return a.Data, nil
}

var c14Words = []string{"", "a", "b", "ab", "hello", "ClickHouse", strings.Repeat("x", 127), strings.Repeat("y", 128), strings.Repeat("z", 300)}

var c14TimeType = reflect.TypeOf(time.Time{})

func c14Value(t reflect.Type, rr *rand.Rand, s c14ColSpec, depth int) reflect.Value {
	v := reflect.New(t).Elem()
	if t == c14TimeType {
		v.Set(reflect.ValueOf(time.Unix(int64(rr.Intn(1<<31)), 0).UTC()))
		return v
	}
	switch t.Kind() {
	case reflect.Bool:
		v.SetBool(rr.Intn(2) == 0)
	case reflect.Int8, reflect.Int16, reflect.Int32, reflect.Int64, reflect.Int:
		x := int64(genInt(rr))
		if rr.Intn(2) == 0 {
			x = int64(rr.Intn(5)) // few distinct values: dictionaries repeat
		}
		v.SetInt(x)
		if v.Int() != x {
			v.SetInt(x % 100)
		}
	case reflect.Uint8, reflect.Uint16, reflect.Uint32, reflect.Uint64, reflect.Uint:
		x := genU64(rr)
		if rr.Intn(2) == 0 {
			x = uint64(rr.Intn(5))
		}
		v.SetUint(x)
	case reflect.Float32, reflect.Float64:
		v.SetFloat(rr.NormFloat64() * 1000)
	case reflect.String:
		if len(s.strPool) > 0 {
			v.SetString(s.strPool[rr.Intn(len(s.strPool))])
		} else {
			v.SetString(c14Words[rr.Intn(len(c14Words))])
		}
	case reflect.Slice:
		if t.Elem().Kind() == reflect.Uint8 {
			n := s.bytesLen
			if n == 0 {
				n = len(c14Words[rr.Intn(len(c14Words))])
			}
			v.SetBytes(c14RandBytes(rr, n))
			break
		}
		n := rr.Intn(4)
		if depth > 2 {
			n = rr.Intn(2)
		}
		sl := reflect.MakeSlice(t, 0, n)
		for i := 0; i < n; i++ {
			sl = reflect.Append(sl, c14Value(t.Elem(), rr, s, depth+1))
		}
		v.Set(sl)
	case reflect.Array:
		for i := 0; i < t.Len(); i++ {
			v.Index(i).Set(c14Value(t.Elem(), rr, s, depth+1))
		}
	case reflect.Map:
		m := reflect.MakeMap(t)
		for i, n := 0, rr.Intn(3); i < n; i++ {
			m.SetMapIndex(c14Value(t.Key(), rr, s, depth+1), c14Value(t.Elem(), rr, s, depth+1))
		}
		v.Set(m)
	case reflect.Struct:
		for i := 0; i < t.NumField(); i++ {
			if t.Field(i).IsExported() {
				v.Field(i).Set(c14Value(t.Field(i).Type, rr, s, depth+1))
			}
		}
	case reflect.Pointer:
		// nil
	}
	return v
}

func c14Fill(col proto.Column, rows int, rr *rand.Rand, s c14ColSpec) (err error) {
	defer func() {
		if p := recover(); p != nil {
			err = fmt.Errorf("panic while filling: %v", p)
		}
	}()
	if tup, ok := col.(proto.ColTuple); ok {
		for _, c := range tup {
			if err := c14Fill(c, rows, rr, s); err != nil {
				return err
			}
		}
		return nil
	}
	if iv, ok := col.(*proto.ColInterval); ok {
		for i := 0; i < rows; i++ {
			iv.Append(proto.Interval{Scale: iv.Scale, Value: int64(genInt(rr))})
		}
		return nil
	}
	// AppendKV keeps the order of map entries (ranging over a Go map does not)
	m := reflect.ValueOf(col).MethodByName("AppendKV")
	if !m.IsValid() {
		m = reflect.ValueOf(col).MethodByName("Append")
	}
	if !m.IsValid() || m.Type().NumIn() != 1 {
		return fmt.Errorf("no Append method on %T", col)
	}
	for i := 0; i < rows; i++ {
		m.Call([]reflect.Value{c14Value(m.Type().In(0), rr, s, 0)})
	}
	return nil
}

var c14RowCounts = []int{0, 1, 2, 3, 7, 50, 255, 256, 257, 1000}

// c14Make builds the column of spec s with `rows` rows from sub-seed `seed`; decoded = re-create it by
// decoding its own encoding into a freshly inferred column (the state a received column is in)
func c14Make(s c14ColSpec, rows int, seed int64, decoded bool) (proto.Column, error) {
	col, err := s.build()
	if err != nil {
		return nil, fmt.Errorf("infer: %w", err)
	}
	if err := c14Fill(col, rows, rand.New(rand.NewSource(seed)), s); err != nil {
		return nil, err
	}
	if !decoded {
		return col, nil
	}
	if p, ok := col.(proto.Preparable); ok {
		if err := p.Prepare(); err != nil {
			return nil, fmt.Errorf("prepare: %w", err)
		}
	}
	var b proto.Buffer
	if rows > 0 {
		col.EncodeColumn(&b)
	}
	col2, err := s.build()
	if err != nil {
		return nil, err
	}
	if rows > 0 {
		if err := col2.DecodeColumn(proto.NewReader(bytes.NewReader(b.Buf)), rows); err != nil {
			return nil, fmt.Errorf("decode of own encoding: %w", err)
		}
	}
	return col2, nil
}

func c14Guard(f func() error) (err error) {
	defer func() {
		if p := recover(); p != nil {
			err = fmt.Errorf("panic: %v", p)
		}
	}()
	return f()
}

func c14Diff(a, b []byte) string {
	i := 0
	for i < len(a) && i < len(b) && a[i] == b[i] {
		i++
	}
	return fmt.Sprintf("first difference at byte %d (buffer path %d bytes, vectored path %d bytes)", i, len(a), len(b))
}

// one column through both paths
func c14Column(h *H, s c14ColSpec, rows int, decoded bool) {
	seed := h.R.Int63()
	prefix := genShortBytes(h.R)
	cname := fmt.Sprintf("col %s rows=%d decoded=%s prefix=%s seed=%d", strconv.Quote(s.name()), rows, bsym(decoded), hx(prefix), seed)
	cname = strings.ReplaceAll(cname, "\t", " ")
	c1, err := c14Make(s, rows, seed, decoded)
	if err != nil {
		h.Stat("c14.col.skipped")
		h.Emit(cname, "-", "-")
		return
	}
	c2, _ := c14Make(s, rows, seed, decoded)
	var viaBuf, viaVec []byte
	var sinkN int64
	e1 := c14Guard(func() error {
		if p, ok := c1.(proto.Preparable); ok {
			if err := p.Prepare(); err != nil {
				return err
			}
		}
		b := &proto.Buffer{Buf: append([]byte(nil), prefix...)}
		if se, ok := c1.(proto.StateEncoder); ok {
			se.EncodeState(b)
		}
		c1.EncodeColumn(b)
		viaBuf = b.Buf
		return nil
	})
	e2 := c14Guard(func() error {
		if p, ok := c2.(proto.Preparable); ok {
			if err := p.Prepare(); err != nil {
				return err
			}
		}
		var out bytes.Buffer
		var w *proto.Writer
		if c14PrefixMode++; c14PrefixMode%3 == 2 {
			// a Writer with a history: an earlier, longer packet of non-zero bytes went through its staging buffer and
			// was flushed; nothing of it may show in what is written now
			w = proto.NewWriter(&out, new(proto.Buffer))
			w.ChainBuffer(func(b *proto.Buffer) { b.PutRaw(bytes.Repeat([]byte{0xA5}, 70000)) })
			if _, err := w.Flush(); err != nil {
				return err
			}
			out.Reset()
			w.ChainBuffer(func(b *proto.Buffer) { b.PutRaw(prefix) })
		} else if c14PrefixMode%3 == 0 {
			// the bytes that precede are already in the buffer the Writer is given (every starting state of the
			// output buffer): they have to go out first all the same
			w = proto.NewWriter(&out, &proto.Buffer{Buf: append([]byte(nil), prefix...)})
		} else {
			w = proto.NewWriter(&out, new(proto.Buffer))
			w.ChainBuffer(func(b *proto.Buffer) { b.PutRaw(prefix) })
		}
		if se, ok := c2.(proto.StateEncoder); ok {
			w.ChainBuffer(se.EncodeState)
		}
		c2.WriteColumn(w)
		n, err := w.Flush()
		sinkN = n
		viaVec = out.Bytes()
		return err
	})
	oracle := "ok"
	switch {
	case (e1 == nil) != (e2 == nil):
		oracle = fmt.Sprintf("FAIL:column paths disagree on failure: buffer path %v, vectored path %v", e1, e2)
	case e1 != nil:
		h.Stat("c14.col.both-fail")
		oracle = "-"
	case !bytes.Equal(viaBuf, viaVec):
		oracle = "FAIL:WriteColumn+Flush differs from EncodeColumn: " + c14Diff(viaBuf, viaVec)
	case int(sinkN) != len(viaVec):
		oracle = "FAIL:Flush returned a wrong byte count for a column"
	}
	h.Stat("c14.col")
	h.Emit(cname, fmt.Sprintf("ok %d bytes", len(viaBuf)), oracle)
}

var c14PrefixMode int

// one block through both paths
func c14Block(h *H, version int) {
	rr := h.R
	ncols := rr.Intn(5)
	rows := c14RowCounts[rr.Intn(len(c14RowCounts)-1)]
	seed := rr.Int63()
	var specs []c14ColSpec
	var rowsOf []int
	for i := 0; i < ncols; i++ {
		specs = append(specs, c14Catalogue[rr.Intn(len(c14Catalogue))])
		n := rows
		if rr.Intn(25) == 0 {
			n = rows + 1 // row-count mismatch: both paths must refuse
		}
		rowsOf = append(rowsOf, n)
	}
	decoded := rr.Intn(3) == 0
	mk := func() ([]proto.InputColumn, error) {
		var in []proto.InputColumn
		for i, s := range specs {
			c, err := c14Make(s, rowsOf[i], seed+int64(i), decoded)
			if err != nil {
				return nil, err
			}
			in = append(in, proto.InputColumn{Name: fmt.Sprintf("c%d", i), Data: c})
		}
		return in, nil
	}
	var names []string
	for i, s := range specs {
		names = append(names, fmt.Sprintf("%s:%d", s.name(), rowsOf[i]))
	}
	cname := fmt.Sprintf("blk rev=%d rows=%d decoded=%s cols=%s seed=%d", version, rows, bsym(decoded), strconv.Quote(strings.Join(names, ";")), seed)
	in1, err := mk()
	if err != nil {
		h.Stat("c14.blk.skipped")
		h.Emit(cname, "-", "-")
		return
	}
	in2, _ := mk()
	blk := proto.Block{Info: proto.BlockInfo{BucketNum: -1, Overflows: rr.Intn(2) == 0}, Columns: ncols, Rows: rows}
	prefix := genShortBytes(rr)
	var viaBuf, viaVec []byte
	e1 := c14Guard(func() error {
		b := &proto.Buffer{Buf: append([]byte(nil), prefix...)}
		err := blk.EncodeBlock(b, version, in1)
		viaBuf = b.Buf
		return err
	})
	e2 := c14Guard(func() error {
		var out bytes.Buffer
		w := proto.NewWriter(&out, new(proto.Buffer))
		w.ChainBuffer(func(b *proto.Buffer) { b.PutRaw(prefix) })
		err := blk.WriteBlock(w, version, in2)
		_, ferr := w.Flush()
		viaVec = out.Bytes()
		if err == nil {
			err = ferr
		}
		return err
	})
	oracle := "ok"
	switch {
	case (e1 == nil) != (e2 == nil):
		oracle = fmt.Sprintf("FAIL:block paths disagree on failure: EncodeBlock %v, WriteBlock %v", e1, e2)
	case !bytes.Equal(viaBuf, viaVec):
		oracle = "FAIL:WriteBlock+Flush differs from EncodeBlock: " + c14Diff(viaBuf, viaVec)
	}
	if e1 != nil {
		h.Stat("c14.blk.refused")
	}
	h.Stat("c14.blk")
	h.Emit(cname, fmt.Sprintf("ok %d bytes", len(viaBuf)), oracle)
}

// the column part alone (every catalogue kind x row count, appended and decoded state): the vectored path against the
// buffer path, with the preceding bytes handed over in the Writer's buffer or chained; run in both builds by C15
func init() { runners["c14col"] = runC14Col }

// c14Multi: several columns of one kind through ONE Writer, flushed once (what WriteBlock does for a block with several
// columns of a type): what arrives is the concatenation of their buffer encodings - a column's bytes must not depend on
// the columns written after it before the Flush
func c14Multi(h *H, s c14ColSpec, rows, k int) {
	seed := h.R.Int63()
	cname := fmt.Sprintf("multi %s rows=%d columns=%d seed=%d", strconv.Quote(s.name()), rows, k, seed)
	cname = strings.ReplaceAll(cname, "\t", " ")
	var want []byte
	var out bytes.Buffer
	w := proto.NewWriter(&out, new(proto.Buffer))
	err := c14Guard(func() error {
		for i := 0; i < k; i++ {
			n := rows // a later column as large as the earlier ones (the same size class in every path)
			if i == 2 {
				n = rows - 1
			}
			c1, err := c14Make(s, n, seed+int64(i), false)
			if err != nil {
				return err
			}
			c2, _ := c14Make(s, n, seed+int64(i), false)
			for _, c := range []proto.Column{c1, c2} {
				if p, ok := c.(proto.Preparable); ok {
					if err := p.Prepare(); err != nil {
						return err
					}
				}
			}
			b := &proto.Buffer{}
			if se, ok := c1.(proto.StateEncoder); ok {
				se.EncodeState(b)
			}
			c1.EncodeColumn(b)
			want = append(want, b.Buf...)
			if se, ok := c2.(proto.StateEncoder); ok {
				w.ChainBuffer(se.EncodeState)
			}
			c2.WriteColumn(w)
		}
		_, err := w.Flush()
		return err
	})
	oracle := "ok"
	switch {
	case err != nil:
		h.Stat("c14.multi.skipped")
		oracle = "-"
	case !bytes.Equal(out.Bytes(), want):
		d := 0
		got := out.Bytes()
		for d < len(got) && d < len(want) && got[d] == want[d] {
			d++
		}
		oracle = fmt.Sprintf("FAIL:%d columns written through one Writer and flushed once differ from their buffer encodings at byte %d of %d (%d bytes arrived)", k, d, len(want), len(got))
	}
	h.Emit(cname, "-", oracle)
	h.Stat("c14.multi")
}

func c14MultiAll(h *H) {
	for _, s := range c14Catalogue {
		c14Multi(h, s, 50, 2+h.R.Intn(2))
		n := s.name()
		if !strings.Contains(n, "Array(") && !strings.Contains(n, "Map(") && !strings.Contains(n, "Tuple(") && !strings.Contains(n, "FixedString(512)") {
			c14Multi(h, s, []int{4096, 5000, 8192}[h.R.Intn(3)], 2)
		}
	}
}

func runC14Col(h *H) {
	for _, s := range c14Catalogue {
		for _, rows := range c14RowCounts {
			c14Column(h, s, rows, false)
			if rows > 0 && rows < 300 {
				c14Column(h, s, rows, true)
			}
		}
	}
	c14MultiAll(h)
}

func runC14(h *H) {
	// h.N is the budget of writer histories; columns and blocks get a share on top
	maxLen := 3
	if h.N >= 25000 {
		maxLen = 4
	}
	if h.N >= 300000 {
		maxLen = 5
	}
	ex := c14Exhaustive(h, maxLen, h.N*8/10)
	rest := h.N - ex
	if rest < h.N/5 {
		rest = h.N / 5
	}
	if rest > 150000 { // transcript size: a random history is a few KB
		rest = 150000
	}
	for i := 0; i < rest; i++ {
		c14Random(h, i%5 == 4)
	}
	// catalogue: every type x every row count, appended and decoded state
	rounds := 1 + h.N/20000
	if rounds > 12 {
		rounds = 12
	}
	for k := 0; k < rounds; k++ {
		for _, s := range c14Catalogue {
			for _, rows := range c14RowCounts {
				c14Column(h, s, rows, false)
				if rows > 0 && (k > 0 || rows < 300) {
					c14Column(h, s, rows, true)
				}
			}
		}
	}
	c14MultiAll(h)
	revs := revisions(h)
	for i := 0; i < 200*rounds; i++ {
		c14Block(h, revs[h.R.Intn(len(revs))])
	}
}
