package main

// C07 at block and stream level - every proper prefix of a BLOCK is rejected.
//
//	c07blk  whole blocks (0-4 columns of the catalogue incl. nested and stateful kinds, 0..300 rows, zero-row and
//	        zero-column blocks) encoded by the real Block.EncodeBlock; EVERY cut (all cuts around field boundaries
//	        plus a stride for encodings beyond a few KB) is decoded by the real Block.DecodeBlock into fresh typed
//	        targets, into Results.Auto and into REUSED targets holding the rows of an earlier complete block.
//	        Direct oracle on every cut and mode: DecodeBlock must return an error (no success, no panic).
//	        Case lines (`decblock ...`, evaluator Res = model/GlueRes.v) are emitted for all cuts of small blocks
//	        and for the cuts around field boundaries plus a sample of the others: the model must fail on the same
//	        column and leave the same targets.  A failing cut is always emitted.  The whole block is a case line of
//	        its own in front of its cuts (the check compares cuts with the model only where the model binds the
//	        whole block like the implementation: compatibility is C18's subject).  Zero-row header blocks of 1-3
//	        columns at revisions 54453 / 54454 / current come first in every run; header-only blocks are also decoded
//	        with an empty proto.Results and with a nil target.  (Bodies beyond 1 MiB: family c07big, c07big.go.)
//	c07cmp  the same blocks through compress.Writer (None, LZ4, LZ4HC, ZSTD) as one frame and re-framed by the
//	        harness into 2-3 frames (cuts aimed at the block header, a column header, the column data); EVERY cut of
//	        the frame stream (stride beyond 1200 bytes, all cuts around frame boundaries and frame headers) is read
//	        through proto.Reader.EnableCompression (compress.Reader) + Block.DecodeBlock.  Direct oracle only:
//	        error on every cut, success with exact consumption on the whole stream.
//	c07do   the real client: ch.Connect + Client.Do over the scripted in-memory connection of C03; the server
//	        stream is a few complete packets followed by a LAST Data / Totals / Log / ProfileEvents packet that is
//	        cut at every position (compressed blocks in 1-3 frames).  Direct oracle on every cut: Do returns an
//	        error that is neither the callback's nor an exception, and the callbacks that ran are exactly those
//	        of the complete packets - none for the cut packet.  `recv` case lines (evaluator Recv = model/GlueRecv.v)
//	        for the cuts around the boundaries of the packet's fields / frames and a sample of the others.

import (
	"bytes"
	"fmt"
	"io"
	"math/rand"
	"strconv"
	"strings"
	"time"

	"github.com/ClickHouse/ch-go"
	"github.com/ClickHouse/ch-go/compress"
	"github.com/ClickHouse/ch-go/proto"
)

func init() {
	runners["c07blk"] = runC07Blk
	runners["c07cmp"] = runC07Cmp
	runners["c07do"] = runC07Do
}

// c07Within runs f and reports whether it returned within d.  A decoder that does not come back on a cut
// stream (it keeps getting bytes from somewhere) is a finding, not a reason to hang the harness: the caller
// records it and stops generating; the abandoned goroutine dies with the process.
func c07Within(d time.Duration, f func()) bool {
	done := make(chan struct{})
	go func() {
		defer close(done)
		f()
	}()
	select {
	case <-done:
		return true
	case <-time.After(d):
		return false
	}
}

const c07Patience = 20 * time.Second

var c07blkRows = []int{0, 0, 1, 1, 2, 3, 5, 17, 64, 255, 256, 257, 300}

// ---------------------------------------------------------------- a block and its field boundaries

type c07Block struct {
	rev    int
	info   proto.BlockInfo
	rows   int
	specs  []c18Spec
	names  []string
	srcs   []c18Src
	wire   []byte
	bounds []int // offsets at which a field of the encoding starts (block info, counts, every header part, state, data)
	auto   bool  // every type string can be inferred by ColAuto
	seeds  []int64
}

func c07uvarintLen(n int) int {
	k := 1
	for n >= 0x80 {
		n >>= 7
		k++
	}
	return k
}

func c07blkPick(h *H, sources []c18Spec) c18Spec {
	for {
		s := sources[h.R.Intn(len(sources))]
		if !s.noBind {
			return s
		}
	}
}

// stateful / nested kinds the brief names explicitly: drawn more often than uniform
var c07blkFavour = []string{"Array(String)", "LowCardinality(String)", "Array(LowCardinality(String))", "Map(String,String)",
	"Nullable(String)", "Array(Nullable(String))", "String", "UInt8"}

func c07blkGen(h *H, sources []c18Spec, byName map[string]c18Spec) *c07Block {
	b := &c07Block{auto: true}
	k := 1 + h.R.Intn(4)
	if h.R.Intn(14) == 0 {
		k = 0
	}
	b.rows = c07blkRows[h.R.Intn(len(c07blkRows))]
	if h.Tier != "thorough" && b.rows >= 64 && h.R.Intn(3) != 0 {
		b.rows = 1 + h.R.Intn(20)
	}
	for j := 0; j < k; j++ {
		s := c07blkPick(h, sources)
		if h.R.Intn(3) == 0 {
			if f, ok := byName[c07blkFavour[h.R.Intn(len(c07blkFavour))]]; ok {
				s = f
			}
		}
		b.specs = append(b.specs, s)
		b.names = append(b.names, c18Name(h, j))
		if !s.autoable() {
			b.auto = false
		}
	}
	b.rev = c18Rev(h)
	b.info = c18Info(h)
	for range b.specs {
		b.seeds = append(b.seeds, h.R.Int63())
	}
	if !b.fill(0) {
		return nil
	}
	return b
}

// fill (re)builds the source columns (salt 0: the block under test; other salts: an earlier block of the same schema)
func (b *c07Block) fill(salt int64) bool {
	b.srcs = nil
	for i, s := range b.specs {
		col, err := s.filled(b.rows, b.seeds[i]+salt)
		if err != nil {
			return false
		}
		b.srcs = append(b.srcs, c18Src{name: b.names[i], col: col})
	}
	_, wire, err := c18Encode(b.rev, b.info, b.rows, b.srcs)
	if err != nil {
		return false
	}
	b.wire = wire
	// field boundaries
	var ib proto.Buffer
	if proto.FeatureBlockInfo.In(b.rev) {
		b.info.Encode(&ib)
	}
	pos := len(ib.Buf)
	bs := []int{0, 1, pos}
	pos += c07uvarintLen(len(b.srcs))
	bs = append(bs, pos)
	pos += c07uvarintLen(b.rows)
	bs = append(bs, pos)
	for _, s := range b.srcs {
		pos += c07uvarintLen(len(s.name))
		bs = append(bs, pos)
		pos += len(s.name)
		bs = append(bs, pos)
		pos += c07uvarintLen(len(s.typ))
		bs = append(bs, pos)
		pos += len(s.typ)
		bs = append(bs, pos)
		if proto.FeatureCustomSerialization.In(b.rev) {
			pos++
			bs = append(bs, pos)
		}
		if b.rows > 0 {
			st, _, err := encodeCol(s.col, nil)
			if err == nil && len(st) > 0 {
				bs = append(bs, pos+len(st))
			}
			// inside the data: the first bytes (an offsets array, a length prefix, a LowCardinality meta word)
			for _, d := range []int{1, 8, 9, 16} {
				if d < len(s.body) {
					bs = append(bs, pos+d)
				}
			}
			pos += len(s.body)
			bs = append(bs, pos)
		}
	}
	if pos != len(wire) {
		// the layout computed here must be the encoder's (a tie of the harness with Block.EncodeBlock)
		return false
	}
	b.bounds = bs
	return true
}

// the cuts that get a model case line: everything for small encodings, else boundaries +-1 and a sample
func c07Cuts(r *rand.Rand, n int, bounds []int, all int, sample int) map[int]bool {
	m := map[int]bool{}
	if n <= all {
		for k := 0; k < n; k++ {
			m[k] = true
		}
		return m
	}
	for _, b := range bounds {
		for _, k := range []int{b - 1, b} {
			if k >= 0 && k < n && (sample == 0 || r.Intn(2) == 0) {
				m[k] = true
			}
		}
	}
	m[n-1] = true
	for i := 0; i < sample; i++ {
		m[r.Intn(n)] = true
	}
	return m
}

func (b *c07Block) types() []string {
	var ts []string
	for _, s := range b.srcs {
		ts = append(ts, s.typ)
	}
	return ts
}

func (b *c07Block) label() string {
	return fmt.Sprintf("rev=%d rows=%d cols=[%s]", b.rev, b.rows, strings.Join(b.types(), "; "))
}

// targets for one decode: mode 0 = fresh typed, 1 = Results.Auto, 2 = typed, reused: they hold an earlier complete block
func (b *c07Block) targets(h *H, mode int, earlier []byte) (proto.Results, bool, bool) {
	if mode == 1 {
		return nil, true, true
	}
	if mode == 3 {
		return proto.Results{}, false, true
	}
	var tg []c18Tgt
	for j, s := range b.specs {
		tg = append(tg, c18Tgt{spec: s, name: b.names[j]})
	}
	res, err := c18Targets(h, tg)
	if err != nil {
		return nil, false, false
	}
	if mode == 2 {
		o := c18Decode(false, &res, b.rev, earlier)
		if o.err != nil || o.crashed {
			return nil, false, false
		}
	}
	return res, false, true
}

func c07DecodeNil(rev int, in []byte) (err error, crashed bool) {
	defer func() {
		if p := recover(); p != nil {
			crashed = true
			err = fmt.Errorf("panic: %v", p)
		}
	}()
	var blk proto.Block
	return blk.DecodeBlock(proto.NewReader(bytes.NewReader(in)), rev, nil), false
}

func runC07Blk(h *H) {
	_, sources := c18Pool()
	byName := map[string]c18Spec{}
	for _, s := range sources {
		byName[s.label()] = s
	}
	allSmall, sample := 72, 6
	if h.Tier == "thorough" {
		allSmall, sample = 400, 40
	}
	// always: zero-row HEADER blocks of 1-3 columns at revisions on both sides of the custom-serialization flag
	// (the last byte of such a block) and at the current revision
	var fixed []*c07Block
	for _, rev := range []int{proto.Version, 54454, 54453} {
		for k := 1; k <= 3; k++ {
			b := &c07Block{auto: true, rev: rev, info: c18Info(h)}
			for j := 0; j < k; j++ {
				sp := c07blkPick(h, sources)
				for !sp.autoable() {
					sp = c07blkPick(h, sources)
				}
				b.specs = append(b.specs, sp)
				b.names = append(b.names, c18Name(h, j))
				b.seeds = append(b.seeds, h.R.Int63())
			}
			if b.fill(0) {
				fixed = append(fixed, b)
			}
		}
	}
	for h.Count < h.N {
		var b *c07Block
		if len(fixed) > 0 {
			b, fixed = fixed[0], fixed[1:]
			h.Stat("c07blk.header-blocks")
		} else {
			b = c07blkGen(h, sources, byName)
		}
		if b == nil {
			h.Stat("c07blk.skipped.gen")
			continue
		}
		// an earlier complete block of the same schema and row count, other values (the reused targets hold it)
		wire := b.wire
		var earlier []byte
		if b.fill(1) {
			earlier = b.wire
		}
		if !b.fill(0) || !bytes.Equal(b.wire, wire) {
			h.Stat("c07blk.skipped.nondeterministic")
			continue
		}
		n := len(wire)
		zones := c18Zones(b.types()...)
		emit := c07Cuts(h.R, n, b.bounds, allSmall, sample)
		// decoding every prefix is quadratic in the length: beyond the work budget only every stride-th cut (and
		// all cuts around field boundaries) are decoded
		work := 3000000
		maxLine := 20000
		if h.Tier == "thorough" {
			work, maxLine = 40000000, 60000
		}
		stride := 1 + n*n/(2*work)
		modes := []int{0}
		if b.auto {
			modes = append(modes, 1)
		}
		if earlier != nil && len(b.specs) > 0 {
			modes = append(modes, 2)
		}
		headerOnly := b.rows == 0 || len(b.specs) == 0
		if headerOnly {
			modes = append(modes, 3) // an empty proto.Results: the headers are skipped
		}
		// the whole block must be accepted and consumed exactly (otherwise the cuts prove nothing)
		// (the whole-block line also tells the check whether the model binds this block to these targets at all:
		// compatibility of block and targets is C18's subject and a premise here)
		for _, mode := range modes {
			res, auto, ok := b.targets(h, mode, earlier)
			if !ok {
				continue
			}
			before, dumpOK := c18TargetsSx(res)
			o := c18Decode(auto, &res, b.rev, wire)
			oracle := "ok"
			if o.err != nil || o.crashed || o.left != 0 {
				oracle = "FAIL:whole block: a complete block was not decoded by targets of its own types: " + c18Clean(fmt.Sprint(o.err))
			}
			line := fmt.Sprintf("decblock %s %s %d %s %s %s", bsym(auto), buildName, b.rev, zones, before, hx(wire))
			if dumpOK && (len(line) <= maxLine || oracle != "ok") {
				h.Emit(line, c18Obs(o, res), oracle)
				h.Stat("c07blk.whole")
			}
		}
		cuts := 0
		for k := 0; k < n; k++ {
			if !emit[k] && k%stride != 0 {
				continue
			}
			for mi, mode := range modes {
				if mode == 2 && !emit[k] && k%(3*stride) != 0 {
					continue // reused targets cost a whole decode of the earlier block per cut
				}
				res, auto, ok := b.targets(h, mode, earlier)
				if !ok {
					continue
				}
				before, dumpOK := c18TargetsSx(res)
				var earlierRows []int
				for _, rc := range res {
					earlierRows = append(earlierRows, c18Rows(rc.Data))
				}
				var o c18Out
				if !c07Within(c07Patience, func() { o = c18Decode(auto, &res, b.rev, wire[:k]) }) {
					h.Emit(fmt.Sprintf("decblock %s %s %d %s %s %s", bsym(auto), buildName, b.rev, zones, before, hx(wire[:k])), "-",
						fmt.Sprintf("FAIL:prefix: DecodeBlock did not return within %v on the first %d of %d bytes of a block (%s)", c07Patience, k, n, b.label()))
					return
				}
				cuts++
				oracle := "ok"
				switch {
				case o.crashed:
					oracle = fmt.Sprintf("FAIL:prefix: DecodeBlock panicked on the first %d of %d bytes of a block (%s): %s", k, n, b.label(), c18Clean(o.err.Error()))
				case o.err == nil && mode == 2:
					oracle = fmt.Sprintf("FAIL:prefix: the first %d of %d bytes of a block were accepted as a complete block by reused targets, which report %v rows (the earlier block had %d, the cut block has %d) (%s)",
						k, n, earlierRows, b.rows, b.rows, b.label())
				case o.err == nil:
					oracle = fmt.Sprintf("FAIL:prefix: the first %d of %d bytes of a block were accepted as a complete block of %d columns and %d rows (mode %d, %s)",
						k, n, o.blk.Columns, o.blk.Rows, mode, b.label())
				}
				// one model line per sampled cut, the mode rotating with the cut; failures always
				if oracle != "ok" || (emit[k] && mi == k%len(modes)) {
					obs := c18Obs(o, res)
					if !dumpOK {
						obs = "-"
					}
					line := fmt.Sprintf("decblock %s %s %d %s %s %s", bsym(auto), buildName, b.rev, zones, before, hx(wire[:k]))
					if len(line) > maxLine && oracle == "ok" {
						h.Stat("c07blk.line-too-long")
						continue
					}
					h.Emit(line, obs, oracle)
					h.Stat(fmt.Sprintf("c07blk.mode%d", mode))
				}
			}
		}
		if b.rows == 0 {
			// DecodeBlock with target == nil (q.Result == nil): the headers are skipped by Block.DecodeRawBlock itself
			if err, crashed := c07DecodeNil(b.rev, wire); err != nil || crashed {
				h.Emit(fmt.Sprintf("c07blk-nil whole %s %s", b.label(), hx(wire)), "-",
					"FAIL:whole block: a complete header-only block was not accepted with a nil target: "+c18Clean(fmt.Sprint(err)))
			}
			for k := 0; k < n; k++ {
				err, crashed := c07DecodeNil(b.rev, wire[:k])
				cuts++
				if err == nil || crashed {
					h.Emit(fmt.Sprintf("c07blk-nil cut=%d %s %s", k, b.label(), hx(wire[:k])), "-",
						fmt.Sprintf("FAIL:prefix: the first %d of %d bytes of a header-only block were accepted (or panicked: %v) with a nil target (%s)", k, n, crashed, b.label()))
					break
				}
			}
			h.Stat("c07blk.nil-target")
		}
		h.Stats["c07blk.cuts-decoded"] += cuts
		h.Stat("c07blk.blocks")
		if b.rows == 0 {
			h.Stat("c07blk.zero-rows")
		}
		if len(b.specs) == 0 {
			h.Stat("c07blk.zero-columns")
		}
	}
}

// ---------------------------------------------------------------- compressed, any framing (direct oracle)

var c07Methods = []compress.Method{compress.None, compress.LZ4, compress.LZ4HC, compress.ZSTD}

func c07Frame(m compress.Method, part []byte) ([]byte, error) {
	w := compress.NewWriter(0, m)
	if err := w.Compress(part); err != nil {
		return nil, err
	}
	return append([]byte{}, w.Data...), nil
}

// decode through the decompressing reader, as decodeBlock does
func c07DecodeCompressed(auto bool, res *proto.Results, rev int, in []byte) (o c18Out) {
	defer func() {
		if p := recover(); p != nil {
			o.crashed = true
			o.err = fmt.Errorf("panic: %v", p)
		}
	}()
	r := proto.NewReader(bytes.NewReader(in))
	r.EnableCompression()
	var target proto.Result = *res
	if auto {
		target = res.Auto()
	}
	o.err = o.blk.DecodeBlock(r, rev, target)
	if o.err == nil {
		r.DisableCompression()
		rest, _ := io.ReadAll(r)
		o.left = len(rest)
	}
	return o
}

func runC07Cmp(h *H) {
	_, sources := c18Pool()
	byName := map[string]c18Spec{}
	for _, s := range sources {
		byName[s.label()] = s
	}
	for h.Count < h.N {
		b := c07blkGen(h, sources, byName)
		if b == nil || len(b.wire) < 2 {
			continue
		}
		body := b.wire
		// framings: one frame (what compress.Writer makes of the block), then 2 and 3 frames
		type framing struct {
			cuts []int
		}
		aim := func() int {
			if h.R.Intn(2) == 0 && len(b.bounds) > 0 {
				k := b.bounds[h.R.Intn(len(b.bounds))] + h.R.Intn(3) - 1
				if k > 0 && k < len(body) {
					return k
				}
			}
			return 1 + h.R.Intn(len(body)-1)
		}
		frs := []framing{{}, {cuts: []int{aim()}}}
		c1, c2 := aim(), aim()
		if c1 > c2 {
			c1, c2 = c2, c1
		}
		frs = append(frs, framing{cuts: []int{c1, c2}}) // c1 == c2: a frame without payload in the middle
		method := c07Methods[h.R.Intn(len(c07Methods))]
		for _, fr := range frs {
			var stream []byte
			var starts []int
			prev := 0
			var parts []string
			ok := true
			for i := 0; i <= len(fr.cuts); i++ {
				end := len(body)
				if i < len(fr.cuts) {
					end = fr.cuts[i]
				}
				m := method
				if h.R.Intn(6) == 0 {
					m = c07Methods[h.R.Intn(len(c07Methods))]
				}
				f, err := c07Frame(m, body[prev:end])
				if err != nil {
					ok = false
					break
				}
				starts = append(starts, len(stream))
				stream = append(stream, f...)
				parts = append(parts, fmt.Sprintf("%s:%d", c03MethodSym(m), end-prev))
				prev = end
			}
			if !ok {
				h.Stat("c07cmp.skipped.compress")
				continue
			}
			n := len(stream)
			var bounds []int
			for _, s := range starts {
				bounds = append(bounds, s, s+8, s+16, s+17, s+21, s+25)
			}
			near := c07Cuts(h.R, n, bounds, 1200, 0)
			stride := 1
			if n > 1200 {
				stride = 1 + n/600
			}
			label := fmt.Sprintf("c07cmp %s frames=[%s] %s", buildName, strings.Join(parts, " "), b.label())
			fail := ""
			modes := []int{0}
			if b.auto {
				modes = append(modes, 1)
			}
			cuts := 0
			for _, mode := range modes {
				res, auto, tok := b.targets(h, mode, nil)
				if !tok {
					continue
				}
				o := c07DecodeCompressed(auto, &res, b.rev, stream)
				if o.err != nil || o.crashed || o.left != 0 {
					fail = fmt.Sprintf("whole stream: a complete framed block was not decoded (mode %d, left %d): %s", mode, o.left, c18Clean(fmt.Sprint(o.err)))
					break
				}
				for k := 0; k < n && fail == ""; k++ {
					if !near[k] && k%stride != 0 {
						continue
					}
					res, auto, tok := b.targets(h, mode, nil)
					if !tok {
						break
					}
					var o c18Out
					if !c07Within(c07Patience, func() { o = c07DecodeCompressed(auto, &res, b.rev, stream[:k]) }) {
						h.Emit(label+" stream="+hx(stream[:k]), "-",
							fmt.Sprintf("FAIL:compressed prefix: DecodeBlock did not return within %v on the first %d of %d bytes of the frame stream (it is being fed bytes that are not in the stream)", c07Patience, k, n))
						return
					}
					cuts++
					what := "inside a frame"
					for i, s := range starts {
						if k == s && i > 0 {
							what = fmt.Sprintf("exactly at the boundary in front of frame %d of %d", i+1, len(starts))
						}
					}
					switch {
					case o.crashed:
						fail = fmt.Sprintf("compressed prefix: DecodeBlock panicked on the first %d of %d bytes of the frame stream (%s): %s", k, n, what, c18Clean(o.err.Error()))
					case o.err == nil:
						fail = fmt.Sprintf("compressed prefix: the first %d of %d bytes of the frame stream (%s) were accepted as a complete block of %d columns and %d rows (mode %d)",
							k, n, what, o.blk.Columns, o.blk.Rows, mode)
					}
				}
			}
			oracle := "ok"
			if fail != "" {
				oracle = "FAIL:" + fail
				if n < 4000 {
					label += " stream=" + hx(stream)
				}
			}
			h.Emit(label, fmt.Sprintf("cuts %d", cuts), oracle)
			h.Stats["c07cmp.cuts-decoded"] += cuts
			h.Stat(fmt.Sprintf("c07cmp.frames%d", len(starts)))
			h.Stat("c07cmp.method." + c03MethodSym(method))
		}
	}
}

// ---------------------------------------------------------------- the real client

type c07Tgt struct {
	name string
	spec c14ColSpec
	rows int
	seed int64
}

func c07MakeCol(name string, s c14ColSpec, rows int, seed int64) *c03Col {
	col, err := c14Make(s, rows, seed, false)
	if err != nil {
		return nil
	}
	ty, data, derr := colDump(col)
	if derr != nil {
		return nil
	}
	return &c03Col{name: name, spec: s, col: col, ty: ty, before: data}
}

func c07DoGen(h *H, specs []c14ColSpec) (*c03Case, []c07Tgt) {
	cs := &c03Case{wf: true}
	cs.rev = c03Revs[h.R.Intn(len(c03Revs))]
	switch h.R.Intn(6) {
	case 0, 1:
		cs.comp, cs.method = ch.CompressionLZ4, compress.LZ4
	case 2:
		cs.comp, cs.method = ch.CompressionZSTD, compress.ZSTD
	case 3:
		cs.comp, cs.method = ch.CompressionNone, compress.None
	default:
		cs.comp = ch.CompressionDisabled
	}
	cs.chunk = []int{0, 0, 1, 7, 4096}[h.R.Intn(5)]
	for i := range cs.hs {
		cs.hs[i] = c03HSpec{set: true, fail: -1}
	}
	if h.R.Intn(5) == 0 {
		cs.hs[3].set = false // only the deprecated per-event callbacks
		cs.hs[5].set = false
	}
	ncols := 1 + h.R.Intn(3)
	var schema []c14ColSpec
	var names []string
	for i := 0; i < ncols; i++ {
		s := specs[h.R.Intn(len(specs))]
		if h.R.Intn(3) == 0 {
			want := c03FrameTypes[h.R.Intn(len(c03FrameTypes))]
			for _, sp := range specs {
				if sp.typ == want {
					s = sp
					break
				}
			}
		}
		schema = append(schema, s)
		names = append(names, "c"+strconv.Itoa(i)+c03Names[h.R.Intn(len(c03Names))])
	}
	var tgts []c07Tgt
	headerOnly := false
	if k := h.R.Intn(8); k == 0 {
		cs.tkind, headerOnly = "nil", true
	} else if k == 1 {
		cs.tkind, headerOnly = "empty", true
	} else if h.R.Intn(2) == 0 {
		cs.tkind = "auto"
		for i, s := range schema {
			ok := false
			if col, err := s.build(); err == nil {
				a := new(proto.ColAuto)
				ok = c14Guard(func() error { return a.Infer(col.Type()) }) == nil
			}
			if !ok {
				schema[i] = c14ColSpec{typ: "UInt64"}
			}
		}
	} else {
		cs.tkind = "typed"
		for i, s := range schema {
			stale := 0
			if h.R.Intn(2) == 0 {
				stale = 1 + h.R.Intn(4)
			}
			tgts = append(tgts, c07Tgt{name: names[i], spec: s, rows: stale, seed: h.R.Int63()})
			tn := names[i]
			if h.R.Intn(4) == 0 {
				tn = ""
			}
			cs.tnames = append(cs.tnames, tn)
		}
	}
	rowsOf := func() int {
		if headerOnly {
			return 0
		}
		r := []int{1, 1, 2, 3, 5, 17}[h.R.Intn(6)]
		if h.Tier == "thorough" && h.R.Intn(4) == 0 {
			r = []int{64, 255, 256, 257}[h.R.Intn(4)]
		}
		return r
	}
	framed := func(p *c03Pkt) *c03Pkt {
		if p != nil && cs.comp != ch.CompressionDisabled && (p.kind == "data" || p.kind == "totals") {
			p.cutSeed = h.R.Int63()
			p.split = 1 + h.R.Intn(3)
		}
		return p
	}
	if h.R.Intn(3) != 0 {
		cs.packets = append(cs.packets, framed(c03Block(h, "data", schema, names, 0)))
	}
	for i, k := 0, h.R.Intn(3); i < k; i++ {
		if h.R.Intn(3) == 0 {
			cs.packets = append(cs.packets, c03Telemetry(h))
		} else {
			cs.packets = append(cs.packets, framed(c03Block(h, "data", schema, names, rowsOf())))
		}
	}
	// the LAST packet: the one that is cut
	switch k := h.R.Intn(12); {
	case k >= 10:
		// a server exception with nested causes: cut anywhere - also between two complete links - it is not the server's
		// exception but a stream that ended too early
		p := &c03Pkt{kind: "exception"}
		depth := 2 + h.R.Intn(3)
		for i := 0; i < depth; i++ {
			e := c03Exc(h)
			e.Nested = i+1 < depth
			p.chain = append(p.chain, e)
		}
		cs.packets = append(cs.packets, p)
	case k < 6:
		cs.packets = append(cs.packets, framed(c03Block(h, "data", schema, names, rowsOf())))
	case k == 6:
		cs.packets = append(cs.packets, framed(c03Block(h, "totals", schema, names, rowsOf())))
	case k == 7:
		cs.packets = append(cs.packets, framed(c03Block(h, "data", schema, names, 0)))
	case k == 8:
		cs.packets = append(cs.packets, c03LogBlock(h, 1+h.R.Intn(3)))
	default:
		cs.packets = append(cs.packets, c03PEBlock(h, 1+h.R.Intn(3), false))
	}
	for _, p := range cs.packets {
		if p == nil {
			return nil, nil
		}
	}
	return cs, tgts
}

func c07Retarget(cs *c03Case, tgts []c07Tgt) bool {
	cs.targets = nil
	for _, t := range tgts {
		c := c07MakeCol(t.name, t.spec, t.rows, t.seed)
		if c == nil {
			return false
		}
		cs.targets = append(cs.targets, c)
	}
	return true
}

func runC07Do(h *H) {
	specs := c03Specs()
	sample := 14
	if h.Tier == "thorough" {
		sample = 40
	}
	for h.Count < h.N {
		cs, tgts := c07DoGen(h, specs)
		if cs == nil || !c07Retarget(cs, tgts) {
			h.Stat("c07do.skipped.gen")
			continue
		}
		if err := c03Encode(cs); err != nil {
			h.Stat("c07do.skipped.encode")
			continue
		}
		full := cs.stream
		last := cs.packets[len(cs.packets)-1]
		// what the callbacks must have seen when the last packet never arrived whole: the script without it
		before := *cs
		before.packets = cs.packets[:len(cs.packets)-1]
		wantEv, _, _ := c03Expect(&before)
		// the whole stream, for reference: the last packet IS delivered when it arrives whole
		if !c07Retarget(cs, tgts) {
			continue
		}
		whole := c03Do(cs)
		wholeEv, _, _ := c03Expect(cs)
		if whole.crash != "" || c03Diff("callbacks", wholeEv, whole.events) != "" {
			h.Emit(c03Line(cs, c03Oracles(cs)), "-", "FAIL:whole stream: the complete script was not delivered as scripted: "+sanitize(whole.crash+" "+whole.errTxt))
			continue
		}
		// the whole stream as a case of its own: the check compares the cuts with the model only when the model
		// delivers the whole script like the implementation (compatibility of blocks and targets is a premise)
		if wl := c03Line(cs, c03Oracles(cs)); len(wl) <= 60000 {
			h.Emit(wl, fmt.Sprintf("ok %s %s %s", sx(whole.events...), whole.ret, whole.final), "ok")
			h.Stat("c07do.whole")
		}
		// boundaries inside the last packet: code, temp-table name, frame starts and frame header fields
		bounds := []int{last.off, last.off + 1, last.off + 2}
		for _, f := range last.frames {
			bounds = append(bounds, f[0], f[0]+16, f[0]+17, f[0]+21, f[0]+25, f[0]+f[1])
		}
		if len(last.frames) == 0 {
			for _, d := range []int{2, 3, 9, 10, 11, 12} {
				bounds = append(bounds, last.off+d)
			}
		}
		n := last.end - last.off
		rel := c07Cuts(h.R, n, func() []int {
			var out []int
			for _, b := range bounds {
				out = append(out, b-last.off)
			}
			return out
		}(), 40, sample)
		stride := 1
		if n > 1500 {
			stride = 1 + n/750
		}
		cuts := 0
		for k := 0; k < n; k++ {
			if !rel[k] && k%stride != 0 {
				continue
			}
			cut := *cs
			cut.stream = full[:last.off+k]
			if !c07Retarget(&cut, tgts) {
				break
			}
			var run *c03Run
			if !c07Within(3*c07Patience, func() { run = c03Do(&cut) }) {
				h.Emit(c03Line(&cut, c03Oracles(&cut)), "-",
					fmt.Sprintf("FAIL:cut stream: Do did not return within %v: the %s packet cut after %d of its %d bytes [rev=%d comp=%d target=%s]",
						3*c07Patience, last.kind, k, n, cs.rev, int(cs.comp), cs.tkind))
				return
			}
			cuts++
			oracle := "ok"
			where := fmt.Sprintf("the %s packet (last of %d, %d frames) cut after %d of its %d bytes [rev=%d comp=%d target=%s]",
				last.kind, len(cs.packets), len(last.frames), k, n, cs.rev, int(cs.comp), cs.tkind)
			switch {
			case run.crash != "":
				oracle = "FAIL:cut stream: panic in Client.Do: " + sanitize(run.crash) + ": " + where
			case run.ret != "err":
				oracle = fmt.Sprintf("FAIL:cut stream: Do returned %s instead of a read error: %s", c03RetClass(run.ret), where)
			default:
				if d := c03Diff("callbacks", wantEv, run.events); d != "" {
					oracle = "FAIL:cut stream: a callback ran for the cut packet (or one of an earlier packet did not): " + d + ": " + where
				}
			}
			if rel[k] || oracle != "ok" {
				line := c03Line(&cut, c03Oracles(&cut))
				if len(line) > 60000 && oracle == "ok" {
					h.Stat("c07do.line-too-long")
					continue
				}
				h.Emit(line, fmt.Sprintf("ok %s %s %s", sx(run.events...), run.ret, run.final), oracle)
				h.Stat("c07do.last." + last.kind)
			}
		}
		h.Stats["c07do.cuts-run"] += cuts
		h.Stat("c07do.scripts")
		h.Stat(fmt.Sprintf("c07do.frames%d", len(last.frames)))
		h.Stat("c07do.target." + cs.tkind)
	}
}
