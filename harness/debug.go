package main

import (
	"bytes"
	"encoding/hex"
	"fmt"
	"os"
	"strconv"

	"github.com/ClickHouse/ch-go/proto"
)

// vharness decmsg <name> <rev> <hex> : print the implementation's error text (debugging aid)
func init() {
	if len(os.Args) >= 5 && os.Args[1] == "decmsg" {
		rev, _ := strconv.Atoi(os.Args[3])
		b, _ := hex.DecodeString(os.Args[4])
		for _, m := range messages {
			if m.name == os.Args[2] {
				v, fs := m.fresh()
				r := proto.NewReader(bytes.NewReader(b))
				err := m.dec(v, r, rev)
				fmt.Println(fieldsSx(fs), err)
			}
		}
		os.Exit(0)
	}
}
