//go:build verif

package main

import (
	"sync/atomic"

	ch "github.com/ClickHouse/ch-go"
)

// the vhook points of query.go (build tag verif) are gates of the current run
var c04CurCtl atomic.Pointer[c04Ctl]

const c04HooksOn = true

func init() {
	ch.SetVerifHook(func(name string) {
		ctl := c04CurCtl.Load()
		if ctl == nil {
			return
		}
		switch name {
		case "do.recv.return":
			ctl.gate("hret", nil)
		case "do.watch.wake":
			ctl.gate("hwake", nil)
		case "do.watch.cancel":
			ctl.gate("hcancel", nil)
		case "do.watch.skip":
			ctl.gate("hskip", nil)
		}
	})
}
