"""C05 — compressed frames round-trip and any corrupted frame is rejected.

Harness family `c05` (harness/c05.go) runs compress.Writer / compress.Reader and proto.Reader with
compression enabled; the model is coq/model/Compress.v through coq/model/GlueCmp.v (evaluator Cmp).
"""
import os
from lib import common as C

BUDGET = {"quick": 16000, "thorough": 150000}


def explore(res, scale=1, seed=None):
    seed = res.seed if seed is None else seed
    # frames produced by the client's own block path (query.go encodeBlock) for blocks larger than 1 MiB, every method:
    # read back through compress.Reader + block decoder, must hold the rows handed in (direct oracle)
    from lib import colfam
    colfam.run_direct(res, "c02big", 10 * scale, seed, builds=("default",))
    wd = C.workdir(res.pid)
    binp = C.build_harness()
    out = os.path.join(wd, "c05_%d.tsv" % seed)
    rc, log, stats, dt = C.run_harness(binp, "c05", seed, BUDGET[res.tier] * scale, res.tier, out)
    if rc != 0:
        # the implementation under test may have aborted the process (e.g. an unbounded allocation
        # for an oversized header): whatever the direct oracle had found before is still a finding
        rows = []
        if os.path.exists(out):
            with open(out, encoding="latin-1") as f:
                for line in f:
                    parts = line.rstrip("\n").split("\t")
                    if line.endswith("\n") and len(parts) == 3:
                        rows.append(parts)
        fails = [r for r in rows if r[2].startswith("FAIL")]
        if fails:
            for c, g, o in fails:
                res.oracle_fail(c, o[5:])
            res.notes.append("harness aborted (rc=%s) after %d cases; failures found before the abort are reported" % (rc, len(rows)))
            res.account(rows)
            return
        raise C.Infra("harness c05 failed:\n" + log[-2000:])
    rows = C.read_transcript(out)
    # cases marked "-" are run on the implementation and the direct oracle only (multi-MiB payloads)
    idx = [i for i, r in enumerate(rows) if r[1] != "-"]
    model_part = C.run_eval("Cmp", [rows[i][0] for i in idx])
    model = ["-"] * len(rows)
    for i, m in zip(idx, model_part):
        model[i] = m
    C.compare_rows(res, rows, model, "correspondence(compressed frames)")
    res.account(rows)
    for k, v in stats.items():
        res.distribution[k] = res.distribution.get(k, 0) + v
    res.distribution["not_run_on_model"] = res.distribution.get("not_run_on_model", 0) + (len(rows) - len(idx))
    if not res.samples:
        small = [(r, m) for r, m in zip(rows, model) if len(r[0]) < 600]
        pick = small[:2] + small[len(small) // 2:len(small) // 2 + 2] + small[-2:]
        res.samples = [{"case": r[0][:600], "implementation": r[1][:400], "model": m[:400], "oracle": r[2]} for r, m in pick]
    cmp_rows = [rows[i] for i in idx]
    ok, n, slog = C.coq_sample("GlueCmp", C.sample_pairs(cmp_rows, model_part, seed, k=20), wd, "c05")
    res.extra["in_coq_sample"] = res.extra.get("in_coq_sample", 0) + n
    if not ok:
        res.tie_broken("extraction", "vm_compute inside Coq disagrees with the extracted evaluator:\n" + slog)
    os.remove(out)
    res.extra["rule"] = (
        "cases come from the seeded generators of harness/c05.go: wr = one Writer.Compress per payload length "
        "(quick: 0..72, stride 7 to 4096, boundaries; thorough: every length 0..4096) x method/level x content kind; "
        "rd = a stream (written frames, every single-byte alteration at every offset of small frames, every proper prefix, "
        "size fields at/beyond the limits, field-targeted malformed frames with recomputed checksums, splices, noise) x a read "
        "schedule (Read sizes 0..n, io.ReadFull) x {compress.Reader, proto.Reader with compression} x underlying chunking, "
        "continued until 3-4 errors were seen. A case is non-trivial when the implementation produced an event trace for it "
        "(counted per distinct case line); crashes and not-compared big-payload cases are counted once per kind")
    res.extra["trusted_base"] = [
        "CityHash128 (go-faster/city), lz4 (pierrec/lz4/v4) and zstd (klauspost/compress) are oracles: the harness calls the "
        "real libraries and puts the hash values / codec results of each case into the case line; the executable instance of "
        "the model looks them up (coq/model/GlueCmp.v). The theorems hold for every hash function and every codec pair "
        "satisfying codec_rt",
    ]
    res.assumptions = [
        "codec_rt: for LZ4 / LZ4HC(level) / ZSTD, decompressing what the compressor produced, into a buffer of the payload's "
        "length, gives back the payload (premise of frames_roundtrip and written_frame_verifies only; checked per wr case by "
        "the harness against the real codecs)",
        "rejection of an altered frame is modulo a CityHash128 collision (stated in the theorems, not assumed away)",
        "allocation inside the zstd/lz4 libraries is not modelled (limits_before_alloc speaks about the reader's own two buffers)",
        "64-bit host (uint32 -> int conversions do not wrap); the underlying io.Reader is a flat byte stream read with io.ReadFull",
        "the client path (ch.Connect / Client.Do against a scripted server over net.Pipe, query.go re-export of CorruptedDataErr) "
        "is checked by the direct oracle only, on a dozen blocks per run; it is not modelled",
    ]


def replay(res, path):
    print(open(path).read())
    return 0
