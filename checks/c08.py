"""C08 — decoding is independent of how the transport segments the byte stream.

Harness family `c08` (harness/c08.go over the scripted connection harness/c08conn.go):
  do ...  the real ch.Connect / Client.Do / Ping over a segmenting in-memory net.Conn; direct oracle only
          (every segmentation of a response stream must give the outcome of the single-segment run)
  rd ...  proto.Reader driven directly over the same connection; compared with the layered model
          (coq/model/Stream.v through coq/model/GlueStream.v, evaluator Stream) and, as a direct oracle, with
          the same calls over the unsegmented stream
"""
import os
import resource
import subprocess

from lib import common as C

BUDGET = {"quick": 9000, "thorough": 120000}


def _stack():
    try:
        resource.setrlimit(resource.RLIMIT_STACK, (resource.RLIM_INFINITY, resource.RLIM_INFINITY))
    except (ValueError, OSError):
        pass


def run_eval_deep(fam, case_lines, timeout=3000):
    """common.run_eval with an unlimited stack: the extracted list functions are not tail recursive and the
    streams that straddle bufio's 128 KiB are a few hundred thousand bytes long."""
    binp = C.build_eval(fam)
    data = ("\n".join(case_lines) + "\n").encode("latin-1")
    p = subprocess.run([binp], input=data, stdout=subprocess.PIPE, stderr=subprocess.PIPE, timeout=timeout,
                       preexec_fn=_stack)
    if p.returncode != 0:
        raise C.Infra("model evaluator %s failed: %s" % (fam, p.stderr.decode()[-2000:]))
    out = p.stdout.decode("latin-1").split("\n")
    if out and out[-1] == "":
        out.pop()
    if len(out) != len(case_lines):
        raise C.Infra("model evaluator %s: %d outputs for %d cases" % (fam, len(out), len(case_lines)))
    return out


def explore(res, scale=1, seed=None):
    seed = res.seed if seed is None else seed
    wd = C.workdir(res.pid)
    binp = C.build_harness()
    out = os.path.join(wd, "c08_%d.tsv" % seed)
    rc, log, stats, dt = C.run_harness(binp, "c08", seed, BUDGET[res.tier] * scale, res.tier, out, timeout=6000)
    if rc != 0:
        rows = []
        if os.path.exists(out):
            with open(out, encoding="latin-1") as f:
                for line in f:
                    parts = line.rstrip("\n").split("\t")
                    if line.endswith("\n") and len(parts) == 3:
                        rows.append(parts)
        fails = [r for r in rows if r[2].startswith("FAIL")]
        if fails:
            for c, g, o in fails:
                res.oracle_fail(c, o[5:])
            res.notes.append("harness aborted (rc=%s) after %d cases; failures found before the abort are reported" % (rc, len(rows)))
            res.account(rows)
            return
        raise C.Infra("harness c08 failed:\n" + log[-2000:])
    rows = C.read_transcript(out)
    idx = [i for i, r in enumerate(rows) if r[1] != "-"]
    model_part = run_eval_deep("Stream", [rows[i][0] for i in idx])
    model = ["-"] * len(rows)
    for i, m in zip(idx, model_part):
        model[i] = m
    C.compare_rows(res, rows, model, "correspondence(proto.Reader over the chunked connection)", loose_err=False)
    res.account(rows)
    for k, v in stats.items():
        res.distribution[k] = res.distribution.get(k, 0) + v
    res.distribution["do_runs_direct_oracle_only"] = res.distribution.get("do_runs_direct_oracle_only", 0) + (len(rows) - len(idx))
    if not res.samples:
        small = [(r, m) for r, m in zip(rows, model) if len(r[0]) < 500 and r[1] != "-"]
        dos = [(r, m) for r, m in zip(rows, model) if r[1] == "-" and len(r[0]) < 700]
        pick = small[:2] + small[len(small) // 2:len(small) // 2 + 1] + dos[:1] + dos[len(dos) // 2:len(dos) // 2 + 1] + dos[-1:]
        res.samples = [{"case": r[0][:700], "implementation": r[1][:400], "model": m[:400], "oracle": r[2][:300]} for r, m in pick]
    cmp_rows = [rows[i] for i in idx]
    ok, n, slog = C.coq_sample("GlueStream", C.sample_pairs(cmp_rows, model_part, seed, k=25), wd, "c08")
    res.extra["in_coq_sample"] = res.extra.get("in_coq_sample", 0) + n
    if not ok:
        res.tie_broken("extraction", "vm_compute inside Coq disagrees with the extracted evaluator:\n" + slog)
    os.remove(out)
    res.extra["rule"] = (
        "cases come from the seeded generators of harness/c08.go. do = one run of the real ch.Connect + Client.Do + Ping over the "
        "scripted connection: response streams (EndOfStream / Progress / Profile / Exception alone: every one of the 2^(n-1) splits; "
        "results with 1-4 column kinds out of UInt8, UInt64, Int32, String, Array(String), Nullable(UInt32), LowCardinality(String) in "
        "several blocks with Progress / Profile / TableColumns between them, ended by EndOfStream or a nested Exception, compression "
        "off / LZ4 / ZSTD / None / LZ4HC with 1-3 frames per block; a 140 KiB string column; an exception message longer than 1 MiB; "
        "truncated, one-byte-altered and garbage streams) x segmentations (at once = reference, byte by byte, one byte per Read, two "
        "pieces at every offset (all offsets of streams up to ~120 bytes, else packet/frame-boundary-biased plus random), random "
        "pieces with random short-read patterns and a split handshake, silences longer than ReadTimeout (30 ms, real deadlines) in "
        "front of packets: in front of the first two and a random subset of the others, and in front of EVERY packet of the stream at "
        "once (1-3 silences each; at once, byte by byte, or random pieces with short reads), with the oracle that a well-formed stream "
        "read to its last byte saw at least as many read timeouts as silences were scripted; a pause inside a packet body). rd = a stream of encoded fields (uvarints at boundaries, over-long varints, strings, raw blocks, bools, "
        "ints, packet codes incl. non-canonical two-byte codes, compressed regions of 1-3 frames of any method, corrupted frames; "
        "truncated / reset / out-of-step variants) x a chunking (at once, byte by byte, two pieces, random, empty reads, silences "
        "between and inside fields) x a short-read pattern x the matching Reader calls. A case is non-trivial when the implementation "
        "produced an observation for it (counted per distinct case line)")
    res.extra["trusted_base"] = [
        "harness/c08conn.go: the scripted net.Conn (chunks, short reads, silences that expire an armed read deadline) stands for the "
        "operating system's TCP connection",
        "CityHash128, lz4 and zstd are oracles for the rd family (tables in the case line, as for C05)",
    ]
    res.assumptions = [
        "a Read of the connection returns data or an error, never both (true of the net.Conn implementations of the standard library "
        "and of the harness connection); bufio's deferred error slot is therefore not part of the model's state",
        "the connection's events are finite and end in a permanent error (EOF or a network error); a peer that stays silent for ever "
        "is outside the model",
        "a silence is modelled as a number of Timeout events: one expires one armed read deadline; a read without deadline waits it out",
        "receive_loop_gaps_neutral / receive_loop_erase_gaps hold for silences in front of any subset of the packets of a stream, any "
        "number of them, under the premise gaps_at_boundaries: at every point where the loop calls Client.packet no deadline is armed, "
        "compression is off (decodeBlock's deferred DisableCompression) and the bytes of the packet code arrive without a silence "
        "between them; a deadline that expires between the bytes of a non-canonical multi-byte packet code does lose the bytes already "
        "read (shown in both non-vacuity examples; servers encode codes in one byte). gaps_shape (no silence directly after a byte "
        ">= 128) is a sufficient premise on the shape of the stream alone; gab_check decides the exact premise",
        "the equalities of the gap theorems are modulo the number of loop rounds: the run with silences needs at most one more round "
        "per silence (both directions are proved; a run that exhausts its fuel is outside the equalities)",
        "a packet boundary reached with compression still switched on (no handler of the real client does that) is outside the gap "
        "theorems: the packet code would then be read through the decompressing reader",
        "decode_chunk_independent covers a Prim.parser through a reader program that realizes it: realizers are given for every "
        "primitive of Prim.v, bind, rep, fuel-from-length loops and for every message layout (decode_fields); the column and block "
        "decoders of Columns.v / Block.v are covered by the generic theorems reader_program_flatten / segmentation_independent "
        "only once written as reader programs, which has not been done",
        "ghost quantities of the model (bytes still to come, used for Prim.alloc's budget and loop fuel) are preserved by flattening; "
        "under compression they count raw bytes",
        "context cancellation, the sender goroutine and the handshake are exercised by the do family (direct oracle) but not modelled here",
    ]


def replay(res, path):
    print(open(path).read())
    return 0
