"""C07 — a truncated block or message is never accepted."""
import os
import resource
from lib import common as C
from lib import colfam

BUDGET = {"quick": 9000, "thorough": 150000}
# block / stream level (extension): case lines per family
BLK = {"quick": 1000, "thorough": 12000}
CMP = {"quick": 90, "thorough": 900}
BIG = {"quick": 100, "thorough": 100}     # kinds of fixed-size last columns with a body beyond 1 MiB (all of them)
DO = {"quick": 800, "thorough": 8000}


# ---- the model prints ? for the contents of the target whose DecodeColumn failed half way (as checks/c18.py) ----
def _parse(s):
    out, stack, tok = [], [], []
    cur = out

    def flush():
        if tok:
            cur.append("".join(tok))
            del tok[:]

    for ch in s:
        if ch == "(":
            flush()
            new = []
            cur.append(new)
            stack.append(cur)
            cur = new
        elif ch == ")":
            flush()
            if not stack:
                return None
            cur = stack.pop()
        elif ch == " ":
            flush()
        else:
            tok.append(ch)
    flush()
    return out if not stack else None


def _mask(model, impl):
    if model == "?":
        return "?"
    if isinstance(model, list) and isinstance(impl, list) and len(model) == len(impl):
        return [_mask(m, g) for m, g in zip(model, impl)]
    return impl


def _unparse(x):
    if isinstance(x, list):
        return "(" + " ".join(_unparse(y) for y in x) + ")"
    return x


def masked(model, impl):
    if "?" not in model:
        return impl
    pm, pg = _parse(model), _parse(impl)
    if pm is None or pg is None:
        return impl
    return " ".join(_unparse(x) for x in _mask(pm, pg))


def _comparable(res, rows, model, key, what):
    """Compatibility of a block with its targets is a premise of the block-level theorems (C18/C19's subject).  The
    harness emits the WHOLE block / stream as a case before its cuts: the cuts are compared with the model only
    where the model accepts the whole like the implementation does; elsewhere only the direct oracle applies.
    Returns rows with the observation of incomparable cuts replaced by `-` (skipped by compare_rows)."""
    differs = set()
    for (c, g, o), m in zip(rows, model):
        if g.startswith("ok ") and masked(m, g) != m:
            differs.add(key(c))
    if not differs:
        return rows
    out, n = [], 0
    for c, g, o in rows:
        if key(c) in differs and g != "-":
            out.append((c, "-", o))
            n += 1
        else:
            out.append((c, g, o))
    res.distribution["%s.binding-differs.lines-not-compared" % what] = res.distribution.get("%s.binding-differs.lines-not-compared" % what, 0) + n
    res.notes.append("%s: on %d whole blocks/streams the model binds differently from the implementation (C18/C19's subject, a premise here): "
                     "%d cut lines judged by the direct oracle only" % (what, len(differs), n))
    return out


def _blk_key(c):
    return c.rsplit(" ", 1)[0]


def _do_key(c):
    # recv <rev> <comp> <build> (handlers) <target> (probes) (infer table) x<stream> ...: everything in front of the stream
    parts = c.split(" ")
    depth, upto = 0, 0
    for j, ptk in enumerate(parts):
        depth += ptk.count("(") - ptk.count(")")
        if depth == 0 and ptk.startswith("x") and j >= 7:
            upto = j
            break
    return " ".join(parts[:upto]) if upto else c


def _rows_of_aborted(out):
    rows = []
    if os.path.exists(out):
        with open(out, encoding="latin-1") as f:
            for line in f:
                parts = line.rstrip("\n").split("\t")
                if line.endswith("\n") and len(parts) == 3:
                    rows.append(parts)
    return rows


def _direct(res, fam, n, seed, builds):
    """a family judged by its direct oracle only; a harness taken down (or hung) by the implementation is a finding"""
    wd = C.workdir(res.pid)
    for build in builds:
        tags = ("purego",) if build == "purego" else ()
        binp = C.build_harness(tags=tags)
        out = os.path.join(wd, "%s_%s_%d.tsv" % (fam, build, seed))
        rc, log, stats, dt = C.run_harness(binp, fam, seed, n, res.tier, out, timeout=1500, mem=8 << 30)
        rows = C.read_transcript(out, partial_ok=True) if rc != 0 else C.read_transcript(out)
        for c, g, o in rows:
            if o.startswith("FAIL"):
                res.oracle_fail("%s [%s build]" % (c, build), o[5:])
        res.account(rows)
        _stats(res, fam, build, stats)
        if os.path.exists(out):
            os.remove(out)
        if rc != 0:
            if rc == 124 or "panic" in log or "fatal error" in log or "out of memory" in log:
                res.oracle_fail("harness run %s (%s build) seed=%d after %d cases" % (fam, build, seed, len(rows)),
                                "the implementation took the harness down (or did not return) while decoding a cut block: rc=%s %s"
                                % (rc, log[-500:].replace("\n", " | ")))
                return
            raise C.Infra("harness %s (%s) failed:\n%s" % (fam, build, log[-2000:]))


def _stats(res, fam, build, stats):
    for k, v in stats.items():
        key = "%s.%s.%s" % (fam, build, k)
        res.distribution[key] = res.distribution.get(key, 0) + v


def block_level(res, scale, seed):
    """whole blocks cut everywhere (plain: model Res; compressed, any framing: direct), the real client on cut streams (model Recv)"""
    wd = C.workdir(res.pid)
    try:
        hard = resource.getrlimit(resource.RLIMIT_STACK)[1]
        resource.setrlimit(resource.RLIMIT_STACK, (hard, hard))
    except (ValueError, OSError):
        pass
    # 1. plain blocks: every cut decoded by the real DecodeBlock (direct oracle); sampled cuts against the model
    for build, tags in (("default", ()), ("purego", ("purego",))):
        binp = C.build_harness(tags=tags)
        out = os.path.join(wd, "c07blk_%s_%d.tsv" % (build, seed))
        n = BLK[res.tier] * scale
        if build == "purego":
            n = n // 3
        rc, log, stats, dt = C.run_harness(binp, "c07blk", seed, n, res.tier, out, timeout=1500, mem=8 << 30)
        if rc != 0:
            rows = C.read_transcript(out, partial_ok=True) if os.path.exists(out) else []
            for c, g, o in rows:
                if o.startswith("FAIL"):
                    res.oracle_fail(c, o[5:])
            if rc == 124 or "panic" in log or "fatal error" in log or "out of memory" in log:
                res.oracle_fail("harness run c07blk (%s build) seed=%d after %d cases" % (build, seed, len(rows)),
                                "the implementation took the harness down (or did not return) while decoding a cut block: rc=%s %s"
                                % (rc, log[-500:].replace("\n", " | ")))
                res.account(rows)
                continue
            raise C.Infra("harness c07blk (%s) failed:\n%s" % (build, log[-2000:]))
        rows = C.read_transcript(out)
        model = C.run_eval("Res", [r[0] for r in rows])
        rows = _comparable(res, rows, model, _blk_key, "c07blk(%s)" % build)
        rows_m = [(c, masked(m, g) if g != "-" else g, o) for (c, g, o), m in zip(rows, model)]
        C.compare_rows(res, rows_m, model, "correspondence(block cuts,%s)" % build)
        res.account(rows)
        _stats(res, "c07blk", build, stats)
        small = [(r, m) for r, m in zip(rows, model) if len(r[0]) < 700 and r[1] != "-"]
        if len(res.samples) < 10:
            res.samples += [{"case": r[0][:700], "implementation": r[1][:300], "model": m[:300], "oracle": r[2][:200]}
                            for r, m in small[:2]]
        short = [(r, m) for r, m in zip(rows, model) if len(r[0]) < 1200 and r[1] != "-"]
        ok, k, slog = C.coq_sample("GlueRes", C.sample_pairs([r for r, _ in short], [m for _, m in short], seed, k=8), wd,
                                   "c07blk_" + build)
        res.extra["in_coq_sample"] = res.extra.get("in_coq_sample", 0) + k
        if not ok:
            res.tie_broken("extraction", "vm_compute inside Coq disagrees with the extracted evaluator:\n" + slog)
        os.remove(out)
    # 2. the same blocks through compress.Writer / compress.Reader, one frame and re-framed into 2-3 frames: every cut (direct)
    _direct(res, "c07cmp", CMP[res.tier] * scale, seed, ("default", "purego"))
    # 2b. a fixed-size LAST column whose body exceeds 1 MiB, cut before / inside / at the end of that body (direct)
    _direct(res, "c07big", BIG[res.tier], seed, ("default", "purego"))
    # 3. the real client: the server stream cut at every position of its last block packet
    binp = C.build_harness()
    out = os.path.join(wd, "c07do_%d.tsv" % seed)
    rc, log, stats, dt = C.run_harness(binp, "c07do", seed, DO[res.tier] * scale, res.tier, out, timeout=1500, mem=8 << 30)
    if rc != 0:
        rows = _rows_of_aborted(out)
        for c, g, o in rows:
            if o.startswith("FAIL"):
                res.oracle_fail(c, o[5:])
        if rc == 124 or "panic" in log or "fatal error" in log or "out of memory" in log:
            res.oracle_fail("harness run c07do seed=%d after %d cases" % (seed, len(rows)),
                            "the implementation aborted the process while receiving a cut response: " + log[-600:].replace("\n", " | "))
            res.account(rows)
            return
        raise C.Infra("harness c07do failed:\n" + log[-2000:])
    rows = C.read_transcript(out)
    model = C.run_eval("Recv", [r[0] for r in rows])
    rows = _comparable(res, rows, model, _do_key, "c07do")
    C.compare_rows(res, rows, model, "correspondence(receive loop on a cut stream)")
    res.account(rows)
    _stats(res, "c07do", "default", stats)
    small = [(r, m) for r, m in zip(rows, model) if len(r[0]) < 900]
    res.samples += [{"case": r[0][:900], "implementation": r[1][:400], "model": m[:400], "oracle": r[2][:200]} for r, m in small[:2]]
    ok, n, slog = C.coq_sample("GlueRecv", C.sample_pairs(rows, model, seed, k=8), wd, "c07do")
    res.extra["in_coq_sample"] = res.extra.get("in_coq_sample", 0) + n
    if not ok:
        res.tie_broken("extraction", "vm_compute inside Coq disagrees with the extracted evaluator:\n" + slog)
    os.remove(out)


def explore(res, scale=1, seed=None):
    seed = res.seed if seed is None else seed
    colfam.run_family(res, "c07", BUDGET[res.tier] * scale, seed, builds=("default", "purego"))
    # cuts inside a String value longer than the reader's 1 MiB growth step, at the end of a block (direct oracle)
    colfam.run_family(res, "c07long", 4, seed, builds=("default",), sample=False)
    # blocks ending in LowCardinality columns with UInt16 / UInt32 keys (more than 255 / 65535 distinct values), both builds
    colfam.run_direct(res, "c07wide", 1, seed, builds=("default", "purego"))
    colfam.run_family(res, "c07msg", BUDGET[res.tier] * scale // 3, seed, builds=("default",), glue="Msg", gluemod="GlueMsg")
    block_level(res, scale, seed)
    res.extra["rule"] = ("every cut position (stride for encodings > 600 bytes in the quick tier) of column encodings of the catalogue "
                         "and of protocol messages at revisions around every feature threshold; "
                         "block level (c07blk): whole blocks of 0-4 catalogue columns (nested and stateful kinds favoured), 0..300 rows, zero-row and "
                         "zero-column blocks, revisions on both sides of every feature, encoded by the real Block.EncodeBlock; EVERY cut (stride "
                         "beyond 6000 bytes, all cuts around field boundaries) decoded by the real Block.DecodeBlock into fresh typed targets, "
                         "Results.Auto and reused targets holding an earlier complete block (direct oracle: error, no panic); the cuts around "
                         "every field boundary and a sample of the others are compared with the model (which column fails, what the targets hold); "
                         "big (c07big): for every fixed-size kind (integers, floats, decimals, dates, times, UUID, IP, Bool, enums, Point, FixedString(N) "
                         "inferred and user-sized) a block [UInt8; that kind] whose last body is 1.1-1.3 MiB, cut right before, inside (also at the 1 MiB "
                         "mark) and at the end of that body, typed targets and Results.Auto (direct oracle: error; if accepted the targets' Rows()); "
                         "zero-row header blocks of 1-3 columns at revisions 54453 / 54454 / current are always part of c07blk; "
                         "compressed (c07cmp): the same blocks as one frame of compress.Writer (None/LZ4/LZ4HC/ZSTD) and re-framed into 2-3 frames "
                         "(a payload-less frame in between now and then), every cut of the frame stream read through compress.Reader under "
                         "DecodeBlock, frame boundaries included (direct oracle); client (c07do): the real Connect + Do over the scripted "
                         "connection of C03, a few complete packets then a last Data/Totals/Log/ProfileEvents packet cut at every position "
                         "(direct oracle: Do returns a read error and the callbacks are exactly those of the complete packets; sampled cuts "
                         "compared with the model's receive loop); "
                         "non-trivial = distinct (case kind, error class)")
    res.assumptions = ["compressed streams: cuts of single frames are exercised by the C05 harness (family prefix) and proved in props/C07.v via CompressProofs; "
                       "whole compressed blocks in any framing: family c07cmp (direct) and c07do (model), theorems compressed_*_prefix_rejected",
                       "block-level theorems: the block fits the targets (compatible types: C18/C19's subject), ColumnType.Conflicts irreflexive, "
                       "codec_rt for the compressed half, blocks under the model's allocation budget (~25 GB) for the exact error class",
                       "a target whose DecodeColumn failed half way holds unspecified contents (printed ? by the model and not compared)",
                       "CityHash128, lz4, zstd and ColAuto.Infer are oracle tables in the `recv` case lines (as in C03)"]


def replay(res, path):
    return colfam.replay_file(res, path)
