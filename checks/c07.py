"""C07 — a truncated block or message is never accepted."""
from lib import common as C
from lib import colfam

BUDGET = {"quick": 9000, "thorough": 150000}


def explore(res, scale=1, seed=None):
    seed = res.seed if seed is None else seed
    colfam.run_family(res, "c07", BUDGET[res.tier] * scale, seed, builds=("default", "purego"))
    # cuts inside a String value longer than the reader's 1 MiB growth step, at the end of a block (direct oracle)
    colfam.run_family(res, "c07long", 4, seed, builds=("default",), sample=False)
    # blocks ending in LowCardinality columns with UInt16 / UInt32 keys (more than 255 / 65535 distinct values), both builds
    colfam.run_direct(res, "c07wide", 1, seed, builds=("default", "purego"))
    colfam.run_family(res, "c07msg", BUDGET[res.tier] * scale // 3, seed, builds=("default",), glue="Msg", gluemod="GlueMsg")
    res.extra["rule"] = ("every cut position (stride for encodings > 600 bytes in the quick tier) of column encodings of the catalogue "
                         "and of protocol messages at revisions around every feature threshold; compressed frames' cuts run under C05; "
                         "non-trivial = distinct (case kind, error class)")
    res.assumptions = ["compressed streams: cuts of frames are exercised by the C05 harness (family prefix) and proved in props/C07.v via CompressProofs"]


def replay(res, path):
    return colfam.replay_file(res, path)
