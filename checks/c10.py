"""C10 — cancellation ends the query promptly, sends Cancel and closes the connection.

Gated part: for every scenario of the C04 catalogue (fault-free, plus one representative of every fault class) the
model's coarse state graph INCLUDING the environment step "the caller's context ends" is explored completely; every
transition that is the cancellation itself (one per reachable state = every gate of every scenario) and every
transition after it is one steered run of the real Client.Do (quick tier: a seeded sample).  Handshake: ch.Connect on
a gated connection, the context ending at every gate, watchdog first / hello goroutine first, every server reply.
Free-running part: the context is cancelled from inside the k-th connection call of the query (real timers).
Machinery shared with C04: checks/c04.py, harness/c04.go, harness/c10.go.
"""
import os
import random

from lib import common as C
from checks import c04

BUDGET = {"quick": 1800, "thorough": None}
FREE = {"quick": 250, "thorough": 5000}


def scenarios(tier):
    named = []
    for base in c04.base_scenarios(tier):
        variants = c04.fault_variants(base, tier)
        keep = {}
        for fname, s in variants:
            cls = fname.split("-")[0]
            if tier == "thorough" or fname == "none" or cls not in keep:
                keep.setdefault(cls, 0)
                keep[cls] += 1
                named.append((base[0] + "/" + fname, s))
    # a server repeating the INSERT header block, a Cancel write that fails, a Close that reports an error, a query
    # whose encoding fails: the cancellation at every state of each
    named += c04.extra_scenarios(tier)
    return named


def explore(res, scale=1, seed=None):
    seed = res.seed if seed is None else seed
    wd = C.workdir(res.pid)
    rng = random.Random(seed)
    named = scenarios(res.tier)
    budget = BUDGET[res.tier]
    if budget is not None:
        budget *= scale
    lines = c04.plans_for(named, True, budget, rng, res, "c10")
    gated, other = c04.run_gated(res, "c10", lines, seed, wd, FREE[res.tier] * scale,
                                 "correspondence(Client.Do with the caller's context ending at a chosen instant)")
    hs = [r for r in other if r[0].startswith("hs ")]
    model = C.run_eval("Do", [r[0] for r in hs])
    C.compare_rows(res, hs, model, "correspondence(handshake with the context ending at a chosen gate)", loose_err=False)
    res.distribution["handshake_cases"] = res.distribution.get("handshake_cases", 0) + len(hs)
    res.extra["scenario_fault_pairs"] = len(named)
    res.extra["rule"] = ("gated runs: the model's coarse state graph of every (scenario, fault) pair, the cancellation step "
                         "included, is explored completely; one steered run of the real client per transition that is the "
                         "cancellation or follows it (quick: seeded sample, at least 3 per pair); handshake: addendum x reply x "
                         "instant x race winner, all combinations; free runs: seeded generator, cancellation from inside the "
                         "k-th connection call. A case is non-trivial when the implementation produced an observation: "
                         "counted per distinct case line")
    res.assumptions = c04.ASSUMPTIONS + [
        "the caller's deadline expiring is the same event as a cancellation (ctx.Err() becomes non-nil); the read and write "
        "deadlines derived from it are exercised in the free-running part only",
        "handshake: the watchdog has no gate of its own; 'watchdog first' = the harness waits until the connection is closed",
    ]


def replay(res, path):
    return c04.replay_cases(res, path, "c10", True)
