"""C19 — type inference is total and sound; type compatibility is symmetric."""
import os
import resource
import subprocess
from lib import common as C

BUDGET = {"quick": 12000, "thorough": 300000}


def _translated_functions():
    """The `go_*` definitions gen/TypeFuns.v holds on this run (written by translator/gostr.go from proto/column.go)."""
    try:
        src = open(os.path.join(C.COQ, "gen", "TypeFuns.v")).read()
    except OSError:
        return []
    if "TRANSLATION FAILED" in src:
        return []
    for line in src.splitlines():
        line = line.strip()
        if line.startswith("translated:"):
            return line[len("translated:"):].split()
    return []


def _run_eval(case_lines, timeout=3000):
    """common.run_eval with a large stack: the extracted tokenizer recurses once per character and the
    deep-nesting cases are long."""
    binp = C.build_eval("Ty")
    data = ("\n".join(case_lines) + "\n").encode()

    def big_stack():
        try:
            resource.setrlimit(resource.RLIMIT_STACK, (resource.RLIM_INFINITY, resource.RLIM_INFINITY))
        except (ValueError, OSError):
            pass

    p = subprocess.run([binp], input=data, stdout=subprocess.PIPE, stderr=subprocess.PIPE, timeout=timeout,
                       preexec_fn=big_stack)
    if p.returncode != 0:
        raise C.Infra("model evaluator Ty failed: %s" % p.stderr.decode()[-2000:])
    out = p.stdout.decode("latin-1").split("\n")
    if out and out[-1] == "":
        out.pop()
    if len(out) != len(case_lines):
        raise C.Infra("model evaluator Ty: %d outputs for %d cases" % (len(out), len(case_lines)))
    return out


def explore(res, scale=1, seed=None):
    seed = res.seed if seed is None else seed
    wd = C.workdir(res.pid)
    binp = C.build_harness()
    out = os.path.join(wd, "c19_%d.tsv" % seed)
    rc, log, stats, dt = C.run_harness(binp, "c19", seed, BUDGET[res.tier] * scale, res.tier, out)
    if rc != 0:
        raise C.Infra("harness c19 failed:\n" + log[-2000:])
    rows = C.read_transcript(out)
    # rows the harness marks "-" are checked by the direct oracle only (data blocks; nesting depth 10000, where the
    # unary-number evaluator would need minutes): they are not sent to the model
    todo = [i for i, r in enumerate(rows) if r[1] != "-"]
    evaluated = _run_eval([rows[i][0] for i in todo])
    model = ["-"] * len(rows)
    for i, m in zip(todo, evaluated):
        model[i] = m
    C.compare_rows(res, rows, model, "correspondence(type strings)")
    res.account(rows)
    pairs = 0
    for k, v in stats.items():
        res.distribution[k] = res.distribution.get(k, 0) + v
        if k.startswith("pairs-"):
            pairs += int(k[6:]) * v
    res.extra["conflicts_pairs_compared"] = res.extra.get("conflicts_pairs_compared", 0) + pairs
    if not res.samples:
        picked = []
        seen = set()
        for r, m in zip(rows, model):
            op = r[0].split(" ", 1)[0]
            if op not in seen and len(r[0]) < 300:
                seen.add(op)
                picked.append({"case": r[0][:300], "implementation": r[1][:300], "model": m[:300], "oracle": r[2]})
        res.samples = picked
    short = [(r, m) for r, m in zip(rows, model) if len(r[0]) < 2500 and r[1] != "-"]
    ok, n, slog = C.coq_sample("GlueTy", C.sample_pairs([r for r, _ in short], [m for _, m in short], seed), wd, "c19")
    res.extra["in_coq_sample"] = res.extra.get("in_coq_sample", 0) + n
    if not ok:
        res.tie_broken("extraction", "vm_compute inside Coq disagrees with the extracted evaluator:\n" + slog)
    os.remove(out)
    res.extra["translated_functions"] = _translated_functions()
    res.extra["rule"] = (
        "ColumnType.Base, Elem, isDecimalN, decimalDowncast, normalizeCommas, Conflicts and IsArray are TRANSLATED from "
        "proto/column.go on every run (translator/gostr.go -> coq/gen/TypeFuns.v) and proved equal to the model for all "
        "byte strings (props/C19.v type_functions_are_source; the Conflicts theorems are restated over the translation): "
        "an edit that changes their meaning, or leaves the translated fragment, breaks the proof step of this check. "
        "cases come from the seeded generators of harness/c19.go: a type-string grammar (every base, every legal "
        "parameterisation, compositions to depth 4), a malformed stream (truncation, byte edits, empty/unbalanced "
        "parentheses, non-numeric parameters, case changes, arbitrary bytes, nesting to depth 10000), pools for "
        "Conflicts on all ordered pairs, and pairs built to be equivalent/different. A case is non-trivial when the "
        "implementation produced a value for it (counted per distinct case) or a failure class (counted once per "
        "case kind and class)")
    res.assumptions = [
        "the MiniGo-strings translation (translator/gostr.go: fragment grammar, Go slice bounds as go_slice, int as Z for "
        "index arithmetic only, fuel = length of the receiver) and its primitive table (strings.IndexByte/LastIndexByte/"
        "Cut/Split/Join/TrimSpace/HasPrefix, strconv.Atoi -> model/TypeStr.v) are trusted; the primitives are exercised "
        "against the real library through the correspondence run",
        "time.LoadLocation is an oracle (Section variable zone); the harness tabulates it per case",
        "strings.ToLower is uninterpreted (Section variable to_lower): ColInterval.Infer's outcome is proved independent of it",
        "reflection in ColAuto.Infer is modelled by the regenerated method table (zero-argument, one-result Array/Nullable/LowCardinality methods)",
        "decoding of data by the created column is checked on the implementation only (direct oracle), not proved here (C01)",
        "stack depth on deeply nested types is observed (depth 10000 under recover), not proved",
    ]


def replay(res, path):
    print(open(path).read())
    return 0
