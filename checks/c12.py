"""C12 - no data race inside the library under any permitted concurrent use.

Proof side (common.proof_step): translator/c12*.go re-reads /repo and regenerates coq/gen/Access.v (per goroutine role,
every read / write of a field of ch.Client, ch.queryMetricsTotal, chpool.Client / Pool / connResource and of the captured
locals of Client.Do, with its protection); coq/proofs/RacesProofs.v proves that a table passing `no_conflict` has no
race in any interleaving (discipline_sound) and checks the regenerated table by vm_compute (access_table_ok).

Runtime side: the harness is built with `go build -race`.  Family `c12` (harness/c12.go, c12conn.go) drives the REAL
client against a scripted server whose reader and writer do not synchronise the client's two directions: selects with
progress / profile / log / profile-event telemetry, streamed INSERTs while the server sends Progress on its own clock
(with and without the column-info round, one or two header blocks), compressed variants, OpenTelemetry
instrumentation on and off, Ping, Close and IsClosed from foreign goroutines during Do and Ping, cancellation from
another goroutine and from callbacks, a handshake whose context is cancelled, and a shared chpool.Pool with a
sub-millisecond health check, MinConns, short lifetimes and a concurrent Close.  Direct oracle: (1) the race detector:
a `WARNING: DATA RACE` whose two accesses are attributed to github.com/ClickHouse/ch-go (the innermost frame that is
either library or harness code is library code) is a violation, with the report as replay; (2) the per-query counters
published on the span equal the true counts, callbacks are delivered the scripted number of times, Do ends as scripted.
Then the other builders' scenario families present in the binary (c08, c11r, c13, c03, c04, c09, c02, c10) run under
the same -race binary with small budgets; only their race reports are judged here.

Correspondence (table vs detector): a race the detector reports inside the library while the table has no conflict at
those locations means the table missed an access or assumes an ordering that does not exist: broken tie as well.
"""
import os
import re

from lib import common as C

N = {"quick": 240, "thorough": 6000}
SUITES = [("c08", 600, 12000), ("c11r", 40, 600), ("c13", 300, 4000), ("c03", 200, 3000), ("c04", 200, 3000),
          ("c09", 200, 3000), ("c02", 200, 3000), ("c10", 200, 3000)]
LIB = "github.com/ClickHouse/ch-go"
ACCESS_RE = re.compile(r"^(Read|Write|Previous read|Previous write|Atomic read|Atomic write|Previous atomic read|"
                       r"Previous atomic write) at 0x[0-9a-f]+ by (?:main )?goroutine")


def _parse_stack(lines, i):
    """frames of one stack starting at line i (pairs: '  func()' / '      file:line +0x..'); returns (frames, next i)"""
    frames = []
    while i + 1 < len(lines) and lines[i].startswith("  ") and lines[i].strip():
        fn = lines[i].strip()
        loc = lines[i + 1].strip() if lines[i + 1].startswith("      ") else ""
        m = re.match(r"(.*):(\d+)(?: \+0x[0-9a-f]+)?$", loc)
        frames.append((fn, m.group(1) if m else loc, int(m.group(2)) if m else 0))
        i += 2 if loc else 1
    return frames, i


def parse_races(log):
    """-> list of {case, text, stacks: [(header, frames)], goroutines: [frames]}"""
    out = []
    lines = log.split("\n")
    case = "(before the first case)"
    i = 0
    while i < len(lines):
        ln = lines[i]
        if ln.startswith("C12CASE "):
            case = ln[8:]
        if ln.startswith("WARNING: DATA RACE"):
            j = i + 1
            stacks, gors = [], []
            while j < len(lines) and not lines[j].startswith("=================="):
                if ACCESS_RE.match(lines[j]):
                    fr, j2 = _parse_stack(lines, j + 1)
                    stacks.append((lines[j], fr))
                    j = j2
                    continue
                if lines[j].startswith("Goroutine ") and "created at" in lines[j]:
                    fr, j2 = _parse_stack(lines, j + 1)
                    gors.append(fr)
                    j = j2
                    continue
                j += 1
            out.append({"case": case, "text": "\n".join(lines[i:j]), "stacks": stacks, "goroutines": gors})
            i = j
        i += 1
    return out


def _attr(frames):
    """who owns the access: the innermost frame that is library or harness code"""
    for fn, path, line in frames:
        if fn.startswith(LIB):
            return "lib", (fn, path, line)
        if fn.startswith("main."):
            return "harness", (fn, path, line)
    return "other", None


def _table_loc(frames, fallback):
    """the frame the access table speaks about: the innermost one in package ch or chpool"""
    for fn, path, line in frames:
        rel = _rel(path)
        if fn.startswith(LIB) and ("/" not in rel or rel.startswith("chpool/")):
            return (rel, line)
    return (_rel(fallback[1]), fallback[2])


def _table_fn(frames):
    """function name as the table spells it (Client.encodeBlock) of the innermost frame in package ch / chpool"""
    for fn, path, line in frames:
        rel = _rel(path)
        if fn.startswith(LIB) and ("/" not in rel or rel.startswith("chpool/")):
            name = fn[len(LIB):].lstrip("/")
            name = re.sub(r"^chpool\.", "", name).lstrip(".")
            name = re.sub(r"\(\)$", "", name)
            name = re.sub(r"(\.func\d+)+(\.\d+)*$", "", name)
            return name.replace("(*", "").replace(")", "")
    return "?"


def _through_lib(frames):
    return any(fn.startswith(LIB) for fn, _, _ in frames)


def _rel(path):
    for root in (C.REPO.rstrip("/") + "/",):
        if path.startswith(root):
            return path[len(root):]
    return path


def load_table():
    """(file, line) -> rows of coq/gen/Access.v"""
    tab = {}
    p = os.path.join(C.COQ, "gen", "Access.v")
    if not os.path.exists(p):
        return tab
    for m in re.finditer(r'mk_access "([^"]*)" "([^"]*)" "([^"]*)" "([^"]*)" "([^"]*)" "([^"]*)" "([^"]*)" (\d+)', open(p).read()):
        role, st, fld, kind, prot, fn, f, line = m.groups()
        tab.setdefault((f, int(line)), []).append("%s %s.%s %s %s" % (role, st, fld, kind, prot))
    return tab


def table_conflicts(wd):
    """the conflicts the model finds in the regenerated table (empty when access_table_ok holds)"""
    fn = os.path.join(wd, "conflicts.v")
    with open(fn, "w") as f:
        f.write("From Coq Require Import String List NArith.\nFrom CH Require Import gen.Access model.Races.\n"
                "Definition cs := Eval vm_compute in map (fun p => (a_role (fst p), a_struct (fst p), a_field (fst p), a_fn (fst p), a_file (fst p), a_line (fst p),\n"
                "  (a_role (snd p), a_fn (snd p), a_file (snd p), a_line (snd p), a_prot (fst p), a_prot (snd p)))) (conflicts access_table).\nPrint cs.\n")
    rc, out, _ = C.sh(["coqc", "-Q", C.COQ, "CH", "-w", "-notation-overridden,-ambiguous-paths", fn], cwd=wd, timeout=300)
    if rc != 0:
        return None, out[-800:]
    body = re.sub(r"\s+", " ", re.sub(r"%string|%N", "", out.split("cs =", 1)[-1]))
    items = re.findall(r'\("([^"]*)", "([^"]*)", "([^"]*)", "([^"]*)", "([^"]*)", (\d+), \("([^"]*)", "([^"]*)", "([^"]*)", (\d+), "([^"]*)", "([^"]*)"\)\)', body)
    return items, body[:3000]


def judge_races(res, races, fam, table, conflicts, seed, n):
    lib_n = 0
    for r in races:
        if len(r["stacks"]) < 2:
            continue
        a1, l1 = _attr(r["stacks"][0][1])
        a2, l2 = _attr(r["stacks"][1][1])
        where = "family=%s seed=%d n=%d case=%s" % (fam, seed, n, r["case"])
        if a1 == "lib" and a2 == "lib":
            lib_n += 1
            head = "data-race inside the library: %s at %s:%d vs %s at %s:%d" % (l1[0], _rel(l1[1]), l1[2], l2[0], _rel(l2[1]), l2[2])
            f1, f2 = _table_loc(r["stacks"][0][1], l1), _table_loc(r["stacks"][1][1], l2)
            res.oracle_fail(where, head + "\n" + r["text"][:6000])
            in1, in2 = table.get(f1), table.get(f2)
            g1, g2 = _table_fn(r["stacks"][0][1]), _table_fn(r["stacks"][1][1])
            listed = any(((c[4], int(c[5])) in (f1, f2) and (c[8], int(c[9])) in (f1, f2)) or {c[3], c[7]} == {g1, g2}
                         for c in (conflicts or []))
            if not listed:
                res.tie_broken("correspondence(access table vs race detector)",
                               "the detector reports %s\n  but the table has no conflict between %s:%d (rows: %s) and %s:%d (rows: %s)\n"
                               "  (an access or alias the syntactic table does not see, or an ordering the model assumes)"
                               % (head, f1[0], f1[1], "; ".join(in1 or ["none"]), f2[0], f2[1], "; ".join(in2 or ["none"])))
        elif a1 == "harness" and a2 == "harness" and _through_lib(r["stacks"][0][1]) and _through_lib(r["stacks"][1][1]) and fam == "c12":
            lib_n += 1
            res.oracle_fail(where, "the library ran caller-supplied code on two goroutines at once (callbacks race): %s vs %s\n%s"
                            % (l1[0], l2[0], r["text"][:6000]))
        elif fam == "c12" and "lib" in (a1, a2):
            lib_n += 1
            res.oracle_fail(where, "data-race between the library and data the caller owns under a permitted use: %s vs %s\n%s"
                            % (l1[0] if l1 else "?", l2[0] if l2 else "?", r["text"][:6000]))
        else:
            res.notes.append("race report not attributed to the library in family %s (%s/%s): %s | %s" % (
                fam, a1, a2, l1[0] if l1 else "?", l2[0] if l2 else "?"))
            if fam == "c12":
                raise C.Infra("the C12 harness itself races:\n" + r["text"][:3000])
    return lib_n


def run_family(res, binr, fam, seed, n, wd, timeout):
    out = os.path.join(wd, "%s_%d.tsv" % (fam, seed))
    if os.path.exists(out):
        os.remove(out)
    env = dict(C.GOENV, GORACE="halt_on_error=0 exitcode=66")
    # no address-space limit: the race detector reserves terabytes of virtual memory
    rc, log, stats, dt = C.run_harness(binr, fam, seed, n, res.tier, out, timeout=timeout, env=env, mem=None)
    rows = C.read_transcript(out) if os.path.exists(out) and rc != 2 else []
    if os.path.exists(out):
        os.remove(out)
    return rc, log, stats, rows, dt


def explore(res, scale=1, seed=None):
    seed = res.seed if seed is None else seed
    wd = C.workdir(res.pid)
    table = load_table()
    conflicts = []
    if res.proof is not None and not res.proof["ok"] or res.tie_failures:
        conflicts, txt = table_conflicts(wd)
        if conflicts:
            res.tie_broken("access-table", "conflicts found by no_conflict in the regenerated table (role struct field fn file line / role fn file line / protections):\n  "
                           + "\n  ".join(" ".join(c) for c in conflicts[:30]))
    binr = C.build_harness(race=True)
    n = N[res.tier] * scale
    rc, log, stats, rows, dt = run_family(res, binr, "c12", seed, n, wd, timeout=3000)
    races = parse_races(log)
    if rc not in (0, 66):
        m = re.search(r"(panic: .*|fatal error: .*)", log)
        if m is None:
            raise C.Infra("harness c12 failed (rc=%d):\n%s" % (rc, log[-2500:]))
        last = "(unknown)"
        for mm in re.finditer(r"^C12CASE (.*)$", log, re.M):
            last = mm.group(1)
        res.oracle_fail("family=c12 seed=%d n=%d case=%s" % (seed, n, last),
                        "the process died while the library ran concurrently: " + log[m.start():m.start() + 2500])
    for c, g, o in rows:
        if o.startswith("FAIL"):
            res.oracle_fail("family=c12 seed=%d n=%d case=%s" % (seed, n, c), o[5:])
    nlib = judge_races(res, races, "c12", table, conflicts, seed, n)
    raced_cases = set(r["case"].split(" ", 1)[-1] for r in races)
    res.evaluations += len(rows)
    import hashlib
    for c, g, o in rows:
        res.nontrivial.add(hashlib.sha1(c.encode("latin-1")).hexdigest())
        if c not in raced_cases and not o.startswith("FAIL"):
            res.traces_validated += 1  # detector and oracle agree with the table's verdict (no race) on this scenario
    for k, v in stats.items():
        res.distribution[k] = res.distribution.get(k, 0) + v
    res.distribution["c12.race_reports"] = res.distribution.get("c12.race_reports", 0) + len(races)
    if not res.samples:
        kinds = {}
        for c, g, o in rows:
            kinds.setdefault(c.split(" ")[1], {"case": c, "oracle": o})
        res.samples = list(kinds.values())[:8]

    # the other builders' scenario suites under the race detector
    ran = []
    for fam, nq, nt in SUITES:
        nn = (nq if res.tier == "quick" else nt) * min(scale, 3)
        rc, log, st, srows, dt = run_family(res, binr, fam, seed, nn, wd, timeout=240 if res.tier == "quick" else 2400)
        if rc == 2 and "unknown family" in log:
            continue
        sraces = parse_races(log)
        judge_races(res, sraces, fam, table, conflicts, seed, nn)
        if rc not in (0, 66):
            res.notes.append("suite %s under -race ended with rc=%d (not judged here: %s)" % (fam, rc, log[-200:].replace("\n", " ")))
        ran.append(fam)
        res.distribution["suite:%s.cases" % fam] = res.distribution.get("suite:%s.cases" % fam, 0) + len(srows)
        res.distribution["suite:%s.race_reports" % fam] = res.distribution.get("suite:%s.race_reports" % fam, 0) + len(sraces)
        res.evaluations += len(srows)
        for c, g, o in srows[:100000]:
            res.nontrivial.add(hashlib.sha1((fam + c).encode("latin-1")).hexdigest())
    res.extra["suites_run_under_race"] = ran
    res.extra["access_table_rows"] = sum(len(v) for v in table.values())
    res.extra["rule"] = ("scenarios of family c12 come from the seeded generator (kind cycles through select, streamed insert x3, "
                         "cancel during select / insert, foreign Close during select / insert / ping, handshake cancel, pool; sizes, "
                         "scripts, delays, compression, instrumentation and logger drawn from the PRNG), every one runs the real "
                         "client with 2..12 goroutines under the race detector; the other families are the other properties' "
                         "generators run under the same -race binary.  A case is non-trivial when it ran to the end: counted per "
                         "distinct case line")
    res.extra["trusted_base"] = ["Go race detector (ThreadSanitizer runtime): reports only races that occur on the schedules run",
                                 "harness/c12conn.go scripted server (net.Pipe; reader and writer goroutines not synchronised with each other)"]
    res.assumptions = [
        "permitted use: one Do / Ping at a time per Client (consecutive owner calls are ordered by the caller, or by puddle's exclusive "
        "acquisition for pooled clients); Close / IsClosed from any goroutine after Connect returned; chpool handles used by the acquiring goroutine",
        "net.Conn, *zap.Logger, trace.Tracer, metric.Meter, *puddle.Pool and *puddle.Resource are safe for concurrent use (their contracts): "
        "a method call on such a field is a read of the field only",
        "chpool.connResource is guarded by puddle's resource ownership (treated as a lock), chpool.Client handles are per-holder instances: "
        "stated in coq/model/Races.v, not derived from the source",
        "the access table is syntactic (go/ast, no type checker): aliasing through interfaces, slices and channels is not tracked "
        "(the column-info slice shared by receiver and sender was found by the detector, not by the table); objects behind a pointer "
        "field (writer, reader, compressor) are abstracted into the field",
        "callbacks and column objects supplied by the caller are outside the table; the detector covers them on the schedules run",
        "real data races are a runtime notion: the detector shows their absence only on the interleavings that happened",
    ]


def replay(res, path):
    txt = open(path).read()
    print(txt)
    m = re.search(r"family=(\w+) seed=(\d+) n=(\d+)", txt)
    if not m:
        return 0
    fam, seed, n = m.group(1), int(m.group(2)), int(m.group(3))
    wd = C.workdir(res.pid)
    binr = C.build_harness(race=True)
    rc, log, stats, rows, dt = run_family(res, binr, fam, seed, n, wd, timeout=3000)
    races = parse_races(log)
    fails = [r for r in rows if r[2].startswith("FAIL")]
    print("replayed family=%s seed=%d n=%d: %d race report(s), %d failing case(s)" % (fam, seed, n, len(races), len(fails)))
    for r in races[:3]:
        print(r["text"][:3000])
    for r in fails[:5]:
        print("FAIL", r[2], "::", r[0])
    return 1 if races or fails else 0
