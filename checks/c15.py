"""C15 — the pure-Go build and the default build of the codecs behave identically."""
from lib import common as C
from lib import colfam

BUDGET = {"quick": 500, "thorough": 8000}


def explore(res, scale=1, seed=None):
    seed = res.seed if seed is None else seed
    n = 0
    for fam, k in (("c01", BUDGET[res.tier] * scale), ("c07", BUDGET[res.tier] * scale * 3), ("c15", BUDGET[res.tier] * scale)):
        rows = colfam.run_family(res, fam, k, seed, builds=("default", "purego"))
        n += colfam.compare_builds(res, rows["default"], rows["purego"], fam)
    # column bodies larger than 1 MiB (chunked reads) and 128 KiB (bufio): direct oracle + digest compared between builds
    big = colfam.run_direct(res, "c15big", 1, seed, builds=("default", "purego"))
    n += colfam.compare_builds(res, big["default"], big["purego"], "c15big")
    # the vectored path (WriteColumn + Flush) against the buffer path for every catalogue kind in both builds, the
    # preceding bytes handed over in the Writer's own buffer or chained (direct oracle per build)
    colfam.run_direct(res, "c14col", 1, seed, builds=("default", "purego"))
    # zero rows on a reader with a history (arrays that are all empty), and Bool bytes other than 0/1: what BOTH builds
    # accept must decode and re-encode alike (what only one accepts is the documented divergence, outside the property)
    xr = colfam.run_direct(res, "c15x", 1, seed, builds=("default", "purego"))
    for a, b in zip(xr["default"], xr["purego"]):
        if a[0] != b[0]:
            res.tie_broken("generator", "c15x: the two builds generated different cases: %s | %s" % (a[0][:100], b[0][:100]))
            break
        if a[0].startswith("boolnc"):
            if a[1].startswith("acc") and b[1].startswith("acc") and a[1] != b[1]:
                res.oracle_fail(a[0], "both builds accept these Bool bytes and decode / re-encode them differently: default=%s purego=%s" % (a[1], b[1]))
        elif a[1] != b[1]:
            res.oracle_fail(a[0], "builds differ (c15x): default=%s purego=%s" % (a[1][:300], b[1][:300]))
        n += 1
    res.extra["cases_compared_between_builds"] = n
    res.extra["rule"] = ("the same seeded cases run by the harness compiled without and with -tags purego: encodings (into non-empty "
                         "buffers), decodes into fresh columns, prefixes; family c15: every value of the 8-bit element types "
                         "(16-bit in the thorough tier) and fresh/reset targets; family c15big: 31 fixed-width kinds with bodies of 1-3 MiB, bulk decode vs piecewise decode vs re-encoding, row digests; both transcripts compared with each other and "
                         "with the respective model variant")
    res.assumptions = ["little-endian host", "Bool bytes other than 0/1 are outside the property (proved divergence lemma)"]


def replay(res, path):
    return colfam.replay_file(res, path)
