"""C13 — the handshake negotiates min(client, server) revision and fails cleanly.

Harness family `c13` (harness/c13.go over the scripted connection of harness/c13conn.go) runs the real
ch.Connect / ch.Dial, then a Ping or a Do, and states the property directly on what the implementation did.
The model is coq/model/Handshake.v through coq/model/GlueHs.v (evaluator Hs).
"""
import os
import re
from lib import common as C

BUDGET = {"quick": 2400, "thorough": 30000}


def _canon(impl, model):
    """Whether Close was called when the read of the packet code and the watchdog of the handshake
    expire at the same instant is decided by a race in Connect (never in Dial): the model says `any`
    there and the implementation's answer is not compared."""
    if model.endswith(" any") and re.search(r" [tf]$", impl):
        return impl[:-1] + "any"
    return impl


def explore(res, scale=1, seed=None):
    seed = res.seed if seed is None else seed
    wd = C.workdir(res.pid)
    binp = C.build_harness()
    out = os.path.join(wd, "c13_%d.tsv" % seed)
    rc, log, stats, dt = C.run_harness(binp, "c13", seed, BUDGET[res.tier] * scale, res.tier, out, timeout=1500)
    if rc != 0:
        raise C.Infra("harness c13 failed:\n" + log[-2000:])
    rows = C.read_transcript(out)
    model = C.run_eval("Hs", [r[0] for r in rows])
    rows = [[c, _canon(g, m), o] for (c, g, o), m in zip(rows, model)]
    # Every case runs against the real clock (hellos that arrive 100 ms and more before or after a deadline): on a loaded
    # machine a goroutine can be held up for longer than that.  The generator is a function of the seed, so the same
    # cases are run again - twice at most - and a case is reported only when it fails or disagrees every time (what
    # the library does wrong whenever the case is run reproduces; a late timer of the test bench does not)
    for attempt in range(2):
        bad = [i for i, (r, m) in enumerate(zip(rows, model)) if r[2].startswith("FAIL") or (r[1] != m and r[1] != "-")]
        if not bad or len(bad) > 200:
            break
        out2 = os.path.join(wd, "c13_%d_again%d.tsv" % (seed, attempt))
        rc2, log2, _stats2, _dt2 = C.run_harness(binp, "c13", seed, BUDGET[res.tier] * scale, res.tier, out2, timeout=1500)
        if rc2 != 0 or not os.path.exists(out2):
            break
        rows2 = C.read_transcript(out2)
        os.remove(out2)
        if len(rows2) != len(rows):
            break
        for i in bad:
            c2, g2, o2 = rows2[i]
            if c2 != rows[i][0]:
                continue
            g2 = _canon(g2, model[i])
            if not o2.startswith("FAIL") and (g2 == model[i] or g2 == "-"):
                rows[i] = [c2, g2, o2]
                res.distribution["cases_agreeing_only_when_run_again"] = res.distribution.get("cases_agreeing_only_when_run_again", 0) + 1
    # the whole observation is compared, also for failed handshakes (exception carried, bytes written, closed)
    C.compare_rows(res, rows, model, "correspondence(handshake)", loose_err=False)
    res.account(rows)
    for k, v in stats.items():
        res.distribution[k] = res.distribution.get(k, 0) + v
    res.distribution["harness_wall_s"] = round(res.distribution.get("harness_wall_s", 0) + dt, 1)
    if not res.samples:
        pick = {}
        for r, m in zip(rows, model):
            key = r[1].split(" ", 2)[:2].__repr__()
            if key not in pick and len(r[0]) < 900:
                pick[key] = {"case": r[0][:900], "implementation": r[1][:600], "model": m[:600], "oracle": r[2][:300]}
        res.samples = list(pick.values())[:6]
    small = [(r, m) for r, m in zip(rows, model) if len(r[0]) < 1500 and len(m) < 1500]
    ok, n, slog = C.coq_sample("GlueHs", C.sample_pairs([r for r, _ in small], [m for _, m in small], seed, k=12), wd, "c13")
    res.extra["in_coq_sample"] = res.extra.get("in_coq_sample", 0) + n
    if not ok:
        res.tie_broken("extraction", "vm_compute inside Coq disagrees with the extracted evaluator:\n" + slog)
    os.remove(out)
    res.extra["rule"] = (
        "cases come from the seeded generator of harness/c13.go: client revision x server revision over the feature "
        "thresholds and both neighbours (every one at least once on each side; all 16 pairs around FeatureAddendum / "
        "FeatureParameters; thorough: all pairs) x {hello in 1-3 segments, hello 60-240 ms into a 400-600 ms handshake "
        "timeout with a 20-50 ms read timeout, exception chain, other packet, garbage, accepted-garbage quirk, truncated "
        "hello + cut or stall, cut, stall, hello after the timeout} x Connect/Dial x credentials/database/quota key/client "
        "name strings (empty = default included) x follow-up {none, Ping answered by Pong/exception/other, Do with settings "
        "and parameters answered by Progress/Profile/EndOfStream encoded at the negotiated revision}. A case is non-trivial "
        "when the handshake connected (counted per distinct case) or failed (counted once per failure class)")
    res.extra["partial"] = (
        "real time is observed, not proved: the model's clock is abstract (arrival strictly before the deadline); the harness "
        "keeps every arrival at least 100 ms away from the deadline it is compared with; at the deadline itself Connect's "
        "Close-or-not is a race and is not compared")
    res.assumptions = [
        "the scripted connection accepts every write and delivers timeouts as *net.OpError with Timeout() (what a TCP "
        "connection does); local computation takes no time on the model's clock",
        "the handshake context does not expire between the arrival of the last hello byte and the flush of the addendum",
        "internal/version.Get() (module version from the build info) is an input of the model: 0.0.0 without a name in this build",
        "Do is modelled for queries without input, result columns, external data, compression or a tracing span; of the "
        "receive loop only Progress, Profile, Exception and EndOfStream",
        "the caller's context is not cancelled during the handshake (cancellation is C10's subject)",
    ]


def replay(res, path):
    print(open(path).read())
    return 0
