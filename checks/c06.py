"""C06 — hostile or corrupted input yields an error, never a crash or a bad column."""
from lib import common as C
from lib import colfam

BUDGET = {"quick": 9000, "thorough": 300000}


def _targets_of(item):
    """the target list of one decblock result (ok c r (targets) left | fail (targets) | crash k)"""
    if isinstance(item, list) and item:
        if item[0] == "ok" and len(item) >= 4 and isinstance(item[3], list):
            return item[3]
        if item[0] == "fail" and len(item) >= 2 and isinstance(item[1], list):
            return item[1]
    return None


def _masked_seq(model, impl):
    """Masking for sequences against reused targets.  A column whose DecodeColumn failed half way holds unspecified
    contents (the model prints ? in that block and models the column as reset).  The implementation keeps those contents
    until a later block resets the column, i.e. for as long as the model's contents of that target do not change: they
    stay masked for exactly that long."""
    from checks.c18 import _parse, _unparse, _mask
    pm, pg = _parse(model), _parse(impl)
    if pm is None or pg is None or not pm or pm[0] != "seq" or not pg or pg[0] != "seq" or len(pm) != len(pg):
        return None
    carry = {}      # target index -> the model's contents while the implementation's are unspecified (None = not yet known)
    out = ["seq"]
    for bm, bg in zip(pm[1:], pg[1:]):
        tm, tg = _targets_of(bm), _targets_of(bg)
        if tm is not None and tg is not None and len(tm) == len(tg):
            for i, (xm, xg) in enumerate(zip(tm, tg)):
                if not (isinstance(xm, list) and isinstance(xg, list) and len(xm) == len(xg) and len(xm) >= 3):
                    carry.pop(i, None)
                    continue
                if xm[-1] == "?":
                    carry[i] = None
                    continue
                if i in carry:
                    if carry[i] is None:
                        carry[i] = xm[-1]
                    if carry[i] == xm[-1] and bm[0] == "fail":
                        xg[-1] = xm[-1]       # still the contents of the half-decoded column: not compared
                    else:
                        del carry[i]
        else:
            carry = {}
        out.append(_mask(bm, bg))
    return " ".join(_unparse(x) for x in out)


def _masked_any(model, impl):
    from checks.c18 import masked
    if model.startswith("seq ") and impl.startswith("seq "):
        r = _masked_seq(model, impl)
        if r is not None:
            return r
    return masked(model, impl)


def _run_blocks(res, fam, n, seed, builds=("default",), compare=True):
    """Whole hostile blocks (harness/c06blk.go): the case lines are those of the C18 glue (model/GlueRes.v), the model
    (Results.decode_block_st / run_blocks) runs the same bytes against the same targets.  Contents the model prints as ?
    (a column whose decoding failed half way) are not compared.  A process that dies (fatal out-of-memory, stack
    overflow) is an observation about ch-go: the case named in the pending file is reported."""
    import os
    wd = C.workdir(res.pid)
    for build in builds:
        tags = ("purego",) if build == "purego" else ()
        binp = C.build_harness(tags=tags)
        out = os.path.join(wd, "%s_%s_%d.tsv" % (fam, build, seed))
        pend = os.path.join(wd, "%s_%s_pending.txt" % (fam, build))
        if os.path.exists(pend):
            os.remove(pend)
        rc, log, stats, dt = C.run_harness(binp, fam, seed, n, res.tier, out, extra=["pending=" + pend])
        if rc != 0:
            case = open(pend).read().strip() if os.path.exists(pend) else ""
            if case:
                res.oracle_fail(case[:4000], "process aborted while decoding (rc=%s): %s" % (rc, log[-400:].replace("\n", " ")))
            else:
                raise C.Infra("harness %s (%s) failed:\n%s" % (fam, build, log[-2000:]))
        if rc != 0 and os.path.exists(out):
            # the process died: keep the complete lines of what it had written
            good = [l for l in open(out, errors="replace").read().split("\n") if l.count("\t") == 2]
            open(out, "w").write("".join(l + "\n" for l in good))
        rows = C.read_transcript(out) if os.path.exists(out) else []
        if compare:
            model = C.run_eval("Res", [r[0] for r in rows])
            rows_m = [(c, g if g == "-" else _masked_any(m, g), o) for (c, g, o), m in zip(rows, model)]
            C.compare_rows(res, rows_m, model, "correspondence(%s,%s)" % (fam, build))
            if len(res.samples) < 10:
                seen = set()
                for r, m in zip(rows, model):
                    key = (r[0].split(" ", 1)[0], r[1].split(" ", 1)[0])
                    if key not in seen and len(r[0]) < 700 and r[1] != "-":
                        seen.add(key)
                        res.samples.append({"case": r[0][:400], "implementation": r[1][:400], "model": m[:400], "oracle": r[2][:200]})
            short = [(r, m) for r, m in zip(rows, model) if len(r[0]) < 1200 and r[1] != "-"]
            ok, k, slog = C.coq_sample("GlueRes", C.sample_pairs([r for r, _ in short], [m for _, m in short], seed, k=8), wd,
                                       "%s_%s" % (fam, build))
            res.extra["in_coq_sample"] = res.extra.get("in_coq_sample", 0) + k
            if not ok:
                res.tie_broken("extraction", "vm_compute inside Coq disagrees with the extracted evaluator:\n" + slog)
        else:
            for c, g, o in rows:
                if o.startswith("FAIL"):
                    res.oracle_fail(c, o[5:])
        res.account(rows)
        for k, v in stats.items():
            key = "%s.%s.%s" % (fam, build, k)
            res.distribution[key] = res.distribution.get(key, 0) + v
        if os.path.exists(out):
            os.remove(out)


def explore(res, scale=1, seed=None):
    seed = res.seed if seed is None else seed
    # whole hostile blocks into Results.Auto(), typed Results and reused targets; model = Results.decode_block_st
    _run_blocks(res, "c06blk", (1000 if res.tier == "quick" else 40000) * scale, seed, builds=("default", "purego") if res.tier != "quick" else ("default",))
    # type strings nested 100 000 .. 4 000 000 levels deep: stack and time (the process dying is the observation)
    _run_blocks(res, "c06deep", (64 if res.tier == "quick" else 400) * min(scale, 2), seed, compare=False)
    # the harness runs under an address-space limit (common.run_harness): an allocation driven by an
    # unchecked length takes the process down, which is reported with the pending input as the replay
    colfam.run_family(res, "c06", BUDGET[res.tier] * scale, seed, builds=("default", "purego"))
    # sequences of blocks (with zero-row header-shaped blocks in between) into one set of targets, typed and inferred:
    # consistency after every block (direct oracle)
    colfam.run_family(res, "c06seq", 400 * scale, seed, builds=("default",), sample=False)
    # hostile column type strings in block headers, through automatic inference and every adopting target (direct oracle)
    colfam.run_family(res, "c06type", 6000 * scale, seed, builds=("default",), sample=False)
    colfam.run_family(res, "c06msg", BUDGET[res.tier] * scale // 3, seed, builds=("default",), glue="Msg", gluemod="GlueMsg")
    res.extra["rule"] = ("field-targeted mutants of valid column encodings of the catalogue (8-byte windows set to boundary and huge "
                         "values, single bytes, bit flips, spliced over-long varints, splices between columns, other declared row "
                         "counts) decoded through typed columns in both builds, mutated protocol messages, and blocks whose column type string is malformed (C19's generator plus enum definitions and deep nesting) decoded through inference and through type-adopting targets; whole blocks built from the parts of a real encoder's block with one or two parts mutated (column/row counts at and beyond the caps, names, grammar-aware type-string mutants incl. nesting to 5 000 levels, custom-serialization flag, state prefixes, bodies, block-info loop, cuts) into Results.Auto(), typed Results with AutoResult targets mixed in, and the same targets reused over 2-4 hostile blocks, compared with Results.decode_block_st of the model; type strings nested 100 000 and 4 000 000 levels deep for stack and time; observation: ok with "
                         "contents + Rows() + every Row(i) readable | err | crash; non-trivial = distinct (case kind, class) or distinct accepted input")
    res.assumptions = [
        "resident memory and stack depth are runtime facts: observed under an address-space limit, not proved (partial)",
        "by-design allocations (rows within the 10^8 cap x element width) above a few hundred MiB are not provoked on the implementation",
        "block level: blocks whose type strings exceed 2 000 bytes run on the implementation only (the list-based model is quadratic in the nesting depth); the model of ColAuto.Infer has no depth limit: beyond 64 levels both reject (nothing deeper than 2 wrapper levels is inferable)",
        "block level: what a FAILED DecodeBlock leaves in the target whose DecodeColumn failed is modelled as a reset column and masked in the comparison (the implementation leaves a partially decoded column)",
    ]


def replay(res, path):
    return colfam.replay_file(res, path)
