"""C06 — hostile or corrupted input yields an error, never a crash or a bad column."""
from lib import common as C
from lib import colfam

BUDGET = {"quick": 9000, "thorough": 300000}


def explore(res, scale=1, seed=None):
    seed = res.seed if seed is None else seed
    # the harness runs under an address-space limit (common.run_harness): an allocation driven by an
    # unchecked length takes the process down, which is reported with the pending input as the replay
    colfam.run_family(res, "c06", BUDGET[res.tier] * scale, seed, builds=("default", "purego"))
    # sequences of blocks (with zero-row header-shaped blocks in between) into one set of targets, typed and inferred:
    # consistency after every block (direct oracle)
    colfam.run_family(res, "c06seq", 400 * scale, seed, builds=("default",), sample=False)
    # hostile column type strings in block headers, through automatic inference and every adopting target (direct oracle)
    colfam.run_family(res, "c06type", 6000 * scale, seed, builds=("default",), sample=False)
    colfam.run_family(res, "c06msg", BUDGET[res.tier] * scale // 3, seed, builds=("default",), glue="Msg", gluemod="GlueMsg")
    res.extra["rule"] = ("field-targeted mutants of valid column encodings of the catalogue (8-byte windows set to boundary and huge "
                         "values, single bytes, bit flips, spliced over-long varints, splices between columns, other declared row "
                         "counts) decoded through typed columns in both builds, mutated protocol messages, and blocks whose column type string is malformed (C19's generator plus enum definitions and deep nesting) decoded through inference and through type-adopting targets; observation: ok with "
                         "contents + Rows() + every Row(i) readable | err | crash; non-trivial = distinct (case kind, class) or distinct accepted input")
    res.assumptions = [
        "resident memory and stack depth are runtime facts: observed under an address-space limit, not proved (partial)",
        "by-design allocations (rows within the 10^8 cap x element width) above a few hundred MiB are not provoked on the implementation",
    ]


def replay(res, path):
    return colfam.replay_file(res, path)
