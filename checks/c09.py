"""C09 — streamed INSERT sends one faithful block per input round, then a terminator.

Harness family `c09` (harness/c09.go): the real Client.Do with a scripted OnInput over the scripted
connection; the callback mutates the columns (append / reset + append into the same arrays / overwrite in
place / reset), dumps them for the model and keeps a private encoding of what the next block has to be.
The model (coq/model/Send.v: send_input on the vectored writer of Writer.v, with an adversarial callback
that overwrites every captured slice) is compared byte for byte, including the number of bytes on the wire
at every call; the direct oracle compares the recorded input phase with the private copies.
"""
from lib import common as C
from checks.c02 import run_family

BUDGET = {"quick": 500, "thorough": 12000}


def explore(res, scale=1, seed=None):
    seed = res.seed if seed is None else seed
    rows, model, stats, wd = run_family(res, "c09", scale, seed, BUDGET[res.tier])
    C.compare_rows(res, rows, model, "correspondence(streamed INSERT: status, bytes on the wire at each OnInput call, "
                                     "reference parse, every byte written)")
    res.account(rows)
    for k, v in stats.items():
        res.distribution[k] = res.distribution.get(k, 0) + v
    if not res.samples:
        small = [(r, m) for r, m in zip(rows, model) if len(r[0]) < 2500]
        pick = small[:2] + small[len(small) // 2:len(small) // 2 + 2] + small[-2:]
        res.samples = [{"case": r[0][:2500], "implementation": r[1][:400], "model": m[:400], "oracle": r[2][:300]} for r, m in pick]
    pairs = [(r[0], m) for r, m in zip(rows, model) if r[1] != "-"]
    pairs.sort(key=lambda p: len(p[0]))
    ok, n, slog = C.coq_sample("GlueSend", pairs[:8] + pairs[len(pairs) // 3:len(pairs) // 3 + 4], wd, "c09")
    res.extra["in_coq_sample"] = res.extra.get("in_coq_sample", 0) + n
    if not ok:
        res.tie_broken("extraction", "vm_compute inside Coq disagrees with the extracted evaluator:\n" + slog)
    # size classes the byte-exact family does not reach (the model would have to evaluate megabyte blocks): blocks beyond
    # 1 MiB through the client with every compression mode (rows read back by the library's own decoders; one frame per
    # block), and string values of 4 KiB .. 1 MiB on the vectored path the uncompressed INSERT uses (direct oracles)
    from lib import colfam
    colfam.run_direct(res, "c02big", 8 * scale, seed, builds=("default",))
    colfam.run_direct(res, "c14long", 32 * scale, seed, builds=("default",))
    res.extra["rule"] = (
        "cases come from the seeded generator of harness/c09.go: 1..3 input columns (three quarters from the kinds whose "
        "WriteColumn chains column memory without copying: fixed-width, UInt8, FixedString, Bool and their Array / Nullable "
        "nestings), initial rows 0 or 1..64, scripts of 1..5 OnInput calls (append / reset+append / overwrite in place / reset / "
        "nothing; ending in io.EOF, wrapped io.EOF - with and without rows left - or another error), the five compression modes "
        "in rotation, revisions around the feature thresholds, with and without the column-info block. A case is non-trivial "
        "when Do wrote an input phase (counted per distinct case line)")
    res.extra["trusted_base"] = [
        "CityHash128, lz4 and zstd are oracles (tables in the case line, see C02/C05)",
        "the scripted in-memory net.Conn of harness/c02conn.go",
    ]
    res.assumptions = [
        "the callback history shows the sender only the new contents and the return value; its writes into caller memory are "
        "arbitrary overwrites of the slices captured so far (the theorems quantify over them)",
        "chained caller-owned slices do not alias the writer's staging buffer; two input columns do not share memory",
        "the terminator packet encodes (always true without compression; with compression: the codec accepts the empty block)",
        "the connection accepts every write; the context is not cancelled during the input phase",
        "the inference step of sendInput is modelled as the identity (the scripted server announces the columns' own types)",
        "a callback error: the scripted server has already ended its stream, so no Cancel packet is involved (C10's subject); a "
        "trailing Cancel write is ignored",
    ]


def replay(res, path):
    print(open(path).read())
    return 0
