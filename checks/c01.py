"""C01 — block encode -> decode is the identity for every column type and nesting."""
from lib import common as C
from lib import colfam

BUDGET = {"quick": 700, "thorough": 12000}


def explore(res, scale=1, seed=None):
    seed = res.seed if seed is None else seed
    colfam.run_family(res, "c01", BUDGET[res.tier] * scale, seed, builds=("default", "purego"))
    # String values beyond the reader's 1 MiB growth step, plain and nested, typed and inferred (direct oracle)
    colfam.run_family(res, "c01long", 15, seed, builds=("default",), sample=False)
    # fixed-width column bodies beyond the 1 MiB read chunk and bufio's 128 KiB, both builds (direct oracle)
    colfam.run_direct(res, "c15big", 1, seed, builds=("default", "purego"))
    # documented type equivalences at block level (aliased spellings; direct oracle)
    colfam.run_family(res, "c01alias", 150 * scale, seed, builds=("default",), sample=False)
    # block level, typed targets and Results.Auto (automatic inference wherever the type is inferable), revisions on both
    # sides of FeatureBlockInfo / FeatureCustomSerialization: the equal-schema sub-family of the C18 harness
    colfam.run_family(res, "c18", BUDGET[res.tier] * scale * 3, seed, builds=("default",), extra=("kind=roundtrip",),
                      glue="Res", gluemod="GlueRes")
    # the inference path itself: the class of inferable type trees against ColAuto.Infer on every catalogue kind and on
    # generated type strings (zones, precisions, decimal class boundaries, awkward enum names, nestings to depth 4);
    # first and second block of generated inferable schemas through Results.Auto(); model = GlueAuto (AutoClass.v + GlueRes)
    colfam.run_family(res, "c01auto", BUDGET[res.tier] * scale // 2, seed, builds=("default",), glue="Auto", gluemod="GlueAuto")
    # the vectored path (Block.WriteBlock + Flush, what the client uses for uncompressed INSERTs) must give the bytes of
    # EncodeBlock also for string-backed columns with values of 4 KiB .. 1 MiB followed by rows of other lengths (C14's family)
    colfam.run_direct(res, "c14long", 48 * scale, seed, builds=("default",))
    # one AutoResult target reused for blocks whose types differ only in non-conflicting parameters (Decimal scale and
    # spelling, integer vs the enum over it, zones, DateTime64 precision): the type reported is the last block's (direct oracle)
    colfam.run_direct(res, "c01reuse", 160 * scale, seed, builds=("default",))
    # LowCardinality over floats (NaN never equals itself as a map key, +0 = -0): several encodes of one column object,
    # read back with the library's decoder (direct oracle; the column model has no floats)
    colfam.run_direct(res, "c01lcf", 150 * scale, seed, builds=("default",))
    res.extra["rule"] = ("catalogue of real column kinds (harness/c14.go + c01.go) x row counts 0..257 (65534..65537 dictionary "
                         "boundary once per run) filled by reflection; each case: real Prepare+EncodeState+EncodeColumn into a "
                         "non-empty buffer, real decode into a fresh column with trailing bytes; model runs the same case from the "
                         "dumped struct contents; non-trivial = distinct case whose implementation result is a value")
    res.assumptions = [
        "little-endian host for the unsafe codecs (their build constraint)",
        "LowCardinality over Float / Nullable / Date elements is outside the modelled nestings (Go map-key equality differs from bit equality; lossy element conversion); LowCardinality(Float32/64) is run by the direct-oracle family c01lcf",
        "block level: ColumnType.Conflicts is reflexive (proved in C19) and a typed target adopts its own type string",
        "inference path: time.LoadLocation and strings.ToLower are parameters (zone, tl); a zone is in the class when LoadLocation finds it under the very name it prints",
        "inference path: ColFixedStr{Size: n} of a generated size comes back as ColFixedStrN (other in-memory representation): tied by correspondence, outside the theorems",
    ]


def replay(res, path):
    return colfam.replay_file(res, path)
