"""C04 — a failed query leaves the client closed or exactly at a packet boundary.

Gated part (correspondence + direct oracle): for every scenario x fault of the catalogue below, the coarse state
graph of the Coq model of Client.Do (coq/model/DoLTS.v through GlueDo.v: "release one goroutine at its gate, let the
others run to their gates") is explored completely by asking the extracted evaluator; every transition of that graph
(quick tier: a seeded sample per scenario, every state still covered) becomes one run of the REAL Client.Do, steered
through the same interleaving by gating conn.Read / conn.Write, the user callbacks, a gate column and the vhook points
(build tag verif).  A plan the implementation cannot follow within 2 s is a correspondence failure.
Free-running part (direct oracle only): generated scenarios with real timers, ReadTimeout 30 ms.
"""
import os
import random
import time

from lib import common as C

ITEMS = ["s", "r", "rt", "w", "m", "env"]


# ---------------------------------------------------------------- scenario catalogue
def sc(kind, comp, gate, rows0, rounds, script, cut="n", wf="n", flags=()):
    """flags: environment faults of the scenario - cwf (the Write of the Cancel packet fails), cle (conn.Close reports
    an error although it closed); printed as an optional tenth element so that the old case lines stay valid"""
    def pk(p):
        return "(" + " ".join(str(x) for x in p) + ")"
    b = lambda v: "t" if v else "f"
    return "(sc %s %s %s %d (%s) (%s) %s %s%s)" % (kind, b(comp), b(gate), rows0, " ".join(rounds),
                                                   " ".join(pk(p) for p in script), cut, wf,
                                                   (" (" + " ".join(flags) + ")") if flags else "")


def base_scenarios(tier):
    """(name, kind, comp, gate, rows0, rounds, script, number of data chunks a complete run writes)"""
    out = [
        ("select", "sel", False, False, 0, [], [(1, "data", "ok"), (1, "end")], 1),
        ("select-telemetry", "sel", False, False, 0, [],
         [(1, "prog", "ok"), (1, "tc"), (1, "data", "ok"), (1, "prof", "ok"), (1, "tot", "ok"), (1, "end")], 1),
        ("insert", "ins", False, True, 2, [], [(1, "info"), (4, "end")], 4),
        ("insert-stream", "str", False, True, 2, ["ok", "eof"], [(1, "info"), (3, "prog", "ok"), (6, "end")], 6),
        ("insert-compressed", "ins", True, True, 2, [], [(1, "info"), (2, "end")], 2),
        ("insert-stream-tail", "str", False, False, 0, ["ok", "eoft"], [(1, "info"), (6, "end")], 6),
        ("select-compressed", "sel", True, False, 0, [], [(1, "data", "ok"), (1, "end")], 1),
    ]
    if tier == "thorough":
        out += [
            ("insert-stream-compressed", "str", True, True, 2, ["ok", "ok", "eoft"], [(1, "info"), (5, "end")], 5),
            ("insert-empty", "ins", False, True, 0, [], [(1, "info"), (3, "end")], 3),
        ]
    return out


def fault_variants(base, tier):
    """every fault point of one base scenario: (fault name, scenario s-expression)"""
    name, kind, comp, gate, rows0, rounds, script, nchunks = base
    mk = lambda script=script, rounds=rounds, cut="n", wf="n": sc(kind, comp, gate, rows0, rounds, script, cut, wf)
    out = [("none", mk())]
    n = len(script)
    for k in range(n + 1):                       # cut between packets k-1 and k, and inside packet k
        out.append(("cut-before-%d" % k, mk(cut="(%d f)" % k)))
        if k < n:
            out.append(("cut-inside-%d" % k, mk(cut="(%d t)" % k)))
    for k in range(nchunks):                     # write error inside / at the start of client chunk k
        out.append(("write-fault-%d-partial" % k, mk(wf="(%d t)" % k)))
        out.append(("write-fault-%d-nothing" % k, mk(wf="(%d f)" % k)))
    for j, p in enumerate(script):               # callback j failing
        if len(p) == 3:
            s2 = list(script)
            s2[j] = (p[0], p[1], "err")
            out.append(("callback-%d-fails" % j, mk(script=s2)))
    for j, r in enumerate(rounds):               # OnInput call j failing
        r2 = list(rounds[:j]) + ["err"]
        out.append(("oninput-%d-fails" % j, mk(rounds=r2)))
    for j in range(n):                           # exception before server packet j, once the client wrote a chunks
        avs = sorted(set([0, script[j][0]] + list(range(1, nchunks + 1))))
        if tier == "quick":
            avs = sorted(set([script[j][0], max(1, nchunks // 2), nchunks]))
        for a in avs:
            if a < (script[j - 1][0] if j else 0):
                continue
            s2 = list(script[:j]) + [(a, "exc")]
            out.append(("exception-at-%d-after-%d-chunks" % (j, a), mk(script=s2)))
    for j in range(n):                           # unknown code / unexpected packet / undecodable body in place of packet j
        for bad in ("unk", "unx", "mal"):
            s2 = list(script[:j]) + [(script[j][0], bad)]
            out.append(("%s-at-%d" % (bad, j), mk(script=s2)))
    out.append(("server-silent", mk(script=list(script[:-1]))))
    return out


def extra_scenarios(tier):
    """Faults and environments that are scenario FLAGS or server scripts of their own (found by seeded changes, rounds
    5 and 6), as (name, scenario) pairs: a server that repeats the INSERT header block (the handler Do installs hands
    over one value through a channel of capacity one: the third block waits in a select that also watches the
    context); the Write of the Cancel packet failing; conn.Close reporting an error; sendQuery itself failing."""
    hdr2 = [(1, "info"), (1, "info"), (4, "end")]
    hdr3 = [(1, "info"), (1, "info"), (1, "info"), (4, "end")]
    out = [
        ("insert-header-twice/none", sc("ins", False, False, 2, [], hdr2)),
        ("insert-header-thrice/none", sc("ins", False, False, 2, [], hdr3)),
        ("insert-header-thrice/cancel-write-fails", sc("ins", False, False, 2, [], hdr3, flags=("cwf",))),
        ("insert-stream-header-thrice/none", sc("str", False, False, 2, ["eof"], [(1, "info"), (1, "info"), (1, "info"), (3, "end")])),
        ("select-sendquery-fails/none", sc("selx", False, True, 0, [], [(1, "data", "ok"), (1, "end")])),
        ("select-sendquery-fails/exception-at-0-after-0-chunks", sc("selx", False, True, 0, [], [(0, "exc")])),
        ("select-sendquery-fails/close-reports-error", sc("selx", True, True, 0, [], [(0, "prog", "ok"), (1, "end")], flags=("cle",))),
        ("select/cancel-write-fails", sc("sel", False, False, 0, [], [(1, "data", "ok"), (1, "end")], flags=("cwf",))),
        ("select/callback-0-fails-cancel-write-fails", sc("sel", False, False, 0, [], [(1, "data", "err"), (1, "end")], flags=("cwf",))),
        ("select/server-silent-cancel-write-fails", sc("sel", False, False, 0, [], [(1, "data", "ok")], flags=("cwf", "cle"))),
        ("insert/cancel-write-fails", sc("ins", False, True, 2, [], [(1, "info"), (4, "end")], flags=("cwf",))),
        # the server's exception packet itself is cut: inside its nested element, after one complete element (C04A)
        ("select/exception-cut-inside", sc("sel", False, False, 0, [], [(1, "exc")], cut="(0 t)")),
        ("insert/exception-cut-inside", sc("ins", False, True, 2, [], [(1, "info"), (2, "exc")], cut="(1 t)")),
        ("select/cut-before-0-close-reports-error", sc("sel", False, False, 0, [], [(1, "data", "ok"), (1, "end")], cut="(0 f)", flags=("cle",))),
        ("insert/write-fault-1-partial-close-reports-error", sc("ins", False, True, 2, [], [(1, "info"), (4, "end")], wf="(1 t)", flags=("cle",))),
        # two faults in one run: the server's exception is readable while a later client Write is still to fail (the
        # sender has passed its context check and sits in conn.Write when the receiver returns the exception) (C04E)
        ("insert/exception-at-1-after-2-chunks-write-fault-2-partial", sc("ins", False, True, 2, [], [(1, "info"), (2, "exc")], wf="(2 t)")),
        ("insert/exception-at-1-after-1-chunks-write-fault-3-nothing", sc("ins", False, True, 2, [], [(1, "info"), (1, "exc")], wf="(3 f)")),
        ("insert-stream/exception-at-1-after-3-chunks-write-fault-3-partial", sc("str", False, True, 2, ["ok", "eof"], [(1, "info"), (3, "exc")], wf="(3 t)")),
        ("select/exception-at-0-after-0-chunks-write-fault-0-partial", sc("sel", False, False, 0, [], [(0, "exc")], wf="(0 t)")),
    ]
    if tier == "thorough":
        out += [
            ("insert-stream/cancel-write-fails", sc("str", False, True, 2, ["ok", "eof"], [(1, "info"), (3, "prog", "ok"), (6, "end")], flags=("cwf",))),
            ("insert-compressed-header-thrice/none", sc("ins", True, True, 2, [], [(1, "info"), (1, "info"), (1, "info"), (2, "end")])),
            ("select-telemetry/cancel-write-fails-close-reports-error", sc("sel", False, False, 0, [],
             [(1, "prog", "ok"), (1, "tc"), (1, "data", "ok"), (1, "prof", "ok"), (1, "tot", "ok"), (1, "end")], flags=("cwf", "cle"))),
        ]
    return out


# ---------------------------------------------------------------- the model as an oracle for exploration
def ex_batch(cases):
    """cases: list of (scenario, [items]) -> list of dicts"""
    lines = ["ex %s (%s)" % (s, " ".join(p)) for s, p in cases]
    out = C.run_eval("Do", lines)
    res = []
    for line in out:
        parts = line.split(" | ")
        if len(parts) != 5:
            raise C.Infra("model evaluator Do: unexpected output %r" % line[:300])
        key, en, plan, obs, flags = parts
        res.append({"key": key, "enabled": en.strip("()").split(), "plan": plan[1:-1], "obs": obs[1:-1],
                    "flags": flags.strip("()").split()})
    return res


def explore_graph(scens, max_states=6000):
    """Breadth-first over the coarse state graph of every scenario at once (one evaluator call per layer), the
    environment step 'the caller's context ends' included.
    Returns per scenario: states {key: (prefix, enabled, flags, obs)}, edges {(key, item): key'}."""
    G = [{"states": {}, "edges": {}, "capped": False} for _ in scens]
    frontier = [(i, []) for i in range(len(scens))]
    parent = [None] * len(frontier)
    while frontier:
        res = ex_batch([(scens[i], p) for i, p in frontier])
        nxt, nparent = [], []
        for (i, p), r, par in zip(frontier, res, parent):
            g = G[i]
            if par is not None:
                g["edges"][par] = r["key"]
            if r["key"] in g["states"]:
                continue
            g["states"][r["key"]] = (p, r["enabled"], r["flags"], r["obs"])
            if "ambiguous" in r["flags"]:
                continue            # a select with two ready cases: the Go runtime chooses, the harness cannot steer
            if len(g["states"]) >= max_states:
                g["capped"] = True
                continue
            for it in r["enabled"]:
                nxt.append((i, p + [it]))
                nparent.append((r["key"], it))
        frontier, parent = nxt, nparent
    return G


def _ways(states, edges, allow_env):
    pred = {}
    for (k, it), k2 in edges.items():
        if it == "env" and not allow_env:
            continue
        pred.setdefault(k2, []).append((k, it))
    terminal = [k for k, v in states.items() if not v[3].startswith("nonterminal")]
    way = {k: [] for k in terminal}
    queue = list(terminal)
    while queue:
        k2 = queue.pop(0)
        for k, it in pred.get(k2, []):
            if k not in way and "ambiguous" not in states[k][2]:
                way[k] = [it] + way[k2]
                queue.append(k)
    return way, terminal


def complete_schedules(g, want_env):
    """one full schedule per transition: shortest prefix to the source + the transition + a shortest way to a
    terminal state (without cancelling if possible).  want_env=False: transitions before any cancellation (C04);
    want_env=True: the cancellation at every state, and every transition after it (C10)."""
    states, edges = g["states"], g["edges"]
    way0, terminal = _ways(states, edges, False)
    way1, _ = _ways(states, edges, True)
    out, stuck = [], 0
    for (k, it), k2 in sorted(edges.items()):
        if "ambiguous" in states[k][2] or k2 not in states or "ambiguous" in states[k2][2]:
            continue
        src_cancelled = "env" in states[k][0]
        if want_env != (src_cancelled or it == "env"):
            continue
        w = way0.get(k2, way1.get(k2))
        if w is None:
            stuck += 1
            continue
        out.append(states[k][0] + [it] + w)
    if not want_env:
        for k in terminal:
            if "env" not in states[k][0]:
                out.append(states[k][0])
    uniq = sorted(set(tuple(s) for s in out))
    return [list(s) for s in uniq], stuck


def plans_for(scens_named, want_env, budget, rng, res, tag):
    """explore, choose schedules, ask the model for plans and observations"""
    scens = [s for _, s in scens_named]
    t0 = time.time()
    G = explore_graph(scens)
    cases, nstates, nedges, namb, stuck_total, capped = [], 0, 0, 0, 0, 0
    per = []
    for (name, s), g in zip(scens_named, G):
        scheds, stuck = complete_schedules(g, want_env)
        stuck_total += stuck
        capped += 1 if g["capped"] else 0
        nstates += len(g["states"])
        nedges += len(g["edges"])
        namb += sum(1 for v in g["states"].values() if "ambiguous" in v[2])
        per.append((name, s, scheds))
    total = sum(len(x[2]) for x in per)
    for name, s, scheds in per:
        if budget is not None and total > budget:
            k = max(3, int(len(scheds) * budget / total))
            if len(scheds) > k:
                scheds = sorted(scheds, key=lambda x: (len(x), x))
                scheds = scheds[-1:] + rng.sample(scheds[:-1], k - 1)
        for x in scheds:
            cases.append((name, s, x))
    ex = res.extra
    ex[tag + "_model_states"] = ex.get(tag + "_model_states", 0) + nstates
    ex[tag + "_model_transitions"] = ex.get(tag + "_model_transitions", 0) + nedges
    ex[tag + "_ambiguous_select_states_skipped"] = ex.get(tag + "_ambiguous_select_states_skipped", 0) + namb
    ex[tag + "_schedules_available"] = ex.get(tag + "_schedules_available", 0) + total
    ex[tag + "_graphs_capped"] = ex.get(tag + "_graphs_capped", 0) + capped
    # transitions all of whose continuations pass through a select with two ready cases cannot be steered to the end
    ex[tag + "_transitions_only_completable_through_ambiguous_selects"] = \
        ex.get(tag + "_transitions_only_completable_through_ambiguous_selects", 0) + stuck_total
    r = ex_batch([(s, x) for _, s, x in cases])
    lines = []
    for (name, s, x), rr in zip(cases, r):
        lines.append(("do %s (%s)" % (s, " ".join(x)), rr["plan"], rr["obs"], name))
        if "/callback-" in name and (" prog err)" in s or " prof err)" in s):
            # the same failing telemetry callback, its error wrapping a *ch.Exception met elsewhere (a nested query
            # on another connection): the model's PContX, which for the code as it is now steps like a failing callback
            # (same plan, same observation: checked again through the transcript interface in run_gated)
            sx = s.replace(" prog err)", " prog errx)").replace(" prof err)", " prof errx)")
            lines.append(("do %s (%s)" % (sx, " ".join(x)), rr["plan"], rr["obs"], name + "-wrapping-exception"))
    ex[tag + "_explore_s"] = round(ex.get(tag + "_explore_s", 0) + time.time() - t0, 1)
    return lines


def model_case(c):
    """the model's reading of a case line.  The dynamic type of a callback's error IS part of the model now ([PContX]:
    the callback fails with an error wrapping a *ch.Exception; for [all_fixed] it steps like any failing callback, for
    [before_8cdbcdc] it is finding 22: do_safe_refuted_callback_exception), so the line is passed on unchanged"""
    return c


def run_gated(res, fam, lines, seed, wd, free_n, what):
    binp = C.build_harness(tags=("verif",))
    plans = os.path.join(wd, "%s_plans_%d.txt" % (fam, seed))
    with open(plans, "w") as f:
        for case, plan, obs, name in lines:
            f.write("%s\t%s\n" % (case, plan))
    out = os.path.join(wd, "%s_%d.tsv" % (fam, seed))
    rc, log, stats, dt = C.run_harness(binp, fam, seed, free_n, res.tier, out, extra=["plans=" + plans])
    if rc != 0:
        raise C.Infra("harness %s failed:\n%s" % (fam, log[-2000:]))
    rows = C.read_transcript(out)
    gated = [r for r in rows if r[0].startswith("do ")]
    free = [r for r in rows if not r[0].startswith("do ")]
    if len(gated) != len(lines):
        raise C.Infra("harness %s ran %d of %d plans" % (fam, len(gated), len(lines)))
    # the model is asked again through its transcript interface (command do), independently of the exploration
    model = C.run_eval("Do", [model_case(r[0]) for r in gated])
    for (case, plan, obs, name), m in zip(lines, model):
        if obs != m:
            res.tie_broken("model", "ex and do disagree on %s" % case)
    # a steered run depends on real time (2 s to reach the next gate): a run that disagrees with the model is run
    # again alone, on a quieter machine, before it is reported (a genuine disagreement reproduces)
    for attempt in range(2):
        bad = [i for i, (r, m) in enumerate(zip(gated, model)) if r[1] != m and r[1] != "-"]
        if not bad or len(bad) > 60:
            break
        plans2 = os.path.join(wd, "%s_retry_%d_%d.txt" % (fam, seed, attempt))
        with open(plans2, "w") as f:
            for i in bad:
                f.write("%s\t%s\n" % (lines[i][0], lines[i][1]))
        out2 = os.path.join(wd, "%s_retry_%d_%d.tsv" % (fam, seed, attempt))
        rc2, log2, _st2, _dt2 = C.run_harness(binp, fam, seed + 7 + attempt, 0, res.tier, out2, extra=["plans=" + plans2])
        if rc2 != 0 or not os.path.exists(out2):
            break
        rows2 = [r for r in C.read_transcript(out2) if r[0].startswith("do ")]
        os.remove(out2)
        if len(rows2) != len(bad):
            break
        for i, r2 in zip(bad, rows2):
            if r2[1] == model[i]:
                gated[i] = r2
                res.distribution["steered_runs_agreeing_only_when_rerun_alone"] = \
                    res.distribution.get("steered_runs_agreeing_only_when_rerun_alone", 0) + 1
    C.compare_rows(res, gated, model, what, loose_err=False)
    for c, g, o in free:
        if o.startswith("FAIL"):
            res.oracle_fail(c, o[5:])
    res.account(rows)
    for k, v in stats.items():
        res.distribution[k] = res.distribution.get(k, 0) + v
    names = {}
    for case, plan, obs, name in lines:
        names[name] = names.get(name, 0) + 1
    for k, v in names.items():
        res.distribution["scenario." + k] = res.distribution.get("scenario." + k, 0) + v
    if not res.samples:
        pick = list(zip(gated, model, lines))
        pick = pick[:1] + pick[len(pick) // 2:len(pick) // 2 + 2] + pick[-1:]
        res.samples = [{"case": r[0], "plan followed by the harness": l[1], "implementation": r[1], "model": m, "oracle": r[2]}
                       for r, m, l in pick]
        res.samples += [{"case": r[0], "oracle": r[2]} for r in free[:2]]
    ok, ns, slog = C.coq_sample("GlueDo", [(model_case(c), m) for c, m in C.sample_pairs(gated, model, seed, k=10)], wd, fam)
    res.extra["in_coq_sample"] = res.extra.get("in_coq_sample", 0) + ns
    if not ok:
        res.tie_broken("extraction", "vm_compute inside Coq disagrees with the extracted evaluator:\n" + slog)
    os.remove(out)
    return gated, free


BUDGET = {"quick": 2200, "thorough": None}
FREE = {"quick": 300, "thorough": 6000}

ASSUMPTIONS = [
    "net.Conn.Write calls are atomic with respect to each other; Close makes pending and later Read/Write fail",
    "the connection has no vectored-write fast path (as on TLS): net.Buffers.WriteTo calls Write once per buffer; on a "
    "plain TCP connection the buffers of one flush go out in one writev",
    "errgroup records the first non-nil error and cancels the group context after the function returned (modelled as its own step)",
    "a select with two ready cases (colInfo / ctx.Done) is resolved by the Go runtime: both outcomes are in the model and "
    "covered by the theorems; the harness cannot steer them, such states are skipped in the gated runs and counted",
    "wall-clock promptness ('returns within the read timeout') is observed on the implementation in the free-running part "
    "only; the model proves termination under a bounded number of read timeouts (partial)",
    "server packets are abstracted to five classes (handled / schema block / EndOfStream / Exception / bad); client bytes to "
    "one token per conn.Write with a flag 'ends at a packet boundary'",
]


def explore(res, scale=1, seed=None):
    seed = res.seed if seed is None else seed
    wd = C.workdir(res.pid)
    rng = random.Random(seed)
    named = []
    for base in base_scenarios(res.tier):
        for fname, s in fault_variants(base, res.tier):
            named.append((base[0] + "/" + fname, s))
    extra = extra_scenarios(res.tier)
    named += extra
    budget = BUDGET[res.tier]
    if budget is not None:
        budget *= scale
    lines = plans_for(named, False, budget, rng, res, "c04")
    # the scenarios whose Cancel write fails, or whose server repeats the header block, are about a caller that gives
    # up: for them the cancellation at every state and the transitions after it are steered here as well (C04's oracle
    # judges them: closed, or clean), a seeded sample
    env_named = [(n, s_) for n, s_ in extra if "cwf" in s_ or "header-thrice" in n]
    lines += plans_for(env_named, True, None if budget is None else 150 * scale, rng, res, "c04env")
    run_gated(res, "c04", lines, seed, wd, FREE[res.tier] * scale,
              "correspondence(Client.Do under a steered interleaving: error classes, closed, Close calls, tokens written, "
              "outbound boundary, callbacks, follow-up Ping)")
    res.extra["scenario_fault_pairs"] = len(named)
    res.extra["rule"] = ("gated runs: every (scenario, fault) pair of the catalogue in checks/c04.py (extra_scenarios: a server "
                         "repeating the INSERT header block, the Cancel write failing, Close reporting an error, sendQuery "
                         "failing - the first two also with the cancellation at every state; 7 scenarios quick / 9 thorough x "
                         "every cut position between and inside server packets, every client chunk failing with and without a "
                         "partial write, every callback failing, an exception before every server packet after 0..n client "
                         "chunks, unknown / unexpected / undecodable packet at every position, silent server); the model's "
                         "coarse state graph of each pair is explored completely and each of its transitions is one steered run "
                         "of the real client (quick: a seeded sample of at most ~2200 runs, at least 3 per pair; thorough: all). "
                         "free runs: seeded generator, real timers. A case is non-trivial when the implementation produced an "
                         "observation: counted per distinct case line")
    res.assumptions = ASSUMPTIONS


def replay_cases(res, path, fam, want_env_label):
    """Re-run the cases of a replay file on both sides: the model is asked for the plan of every steered case again,
    the harness follows it; free cases are run 5 times each.  Exit 1 iff a failure is observed again."""
    text = open(path).read()
    print(text)
    do_cases, free_cases, hs_cases = [], [], []
    for line in text.splitlines():
        line = line.strip()
        if line.startswith("case: "):
            line = line[6:]
        if line.startswith("do ("):
            do_cases.append(line)
        elif line.startswith("free (") or line.startswith("busyfree ("):
            free_cases.append(line)
        elif line.startswith("hs "):
            hs_cases.append(line)
    do_cases = list(dict.fromkeys(do_cases))
    free_cases = list(dict.fromkeys(free_cases))
    wd = C.workdir(res.pid)
    lines = []
    if do_cases:
        out = C.run_eval("Do", ["ex" + model_case(c)[2:] for c in do_cases])
        for c, o in zip(do_cases, out):
            parts = o.split(" | ")
            lines.append((c, parts[2][1:-1], parts[3][1:-1], "replay"))
    binp = C.build_harness(tags=("verif",))
    plans = os.path.join(wd, "%s_replay_plans.txt" % fam)
    with open(plans, "w") as f:
        for case, plan, obs, name in lines:
            f.write("%s\t%s\n" % (case, plan))
    frees = os.path.join(wd, "%s_replay_free.txt" % fam)
    with open(frees, "w") as f:
        f.write("\n".join(free_cases) + "\n# replay\n")
    outp = os.path.join(wd, "%s_replay.tsv" % fam)
    rc, log, stats, dt = C.run_harness(binp, fam, res.seed, 0, res.tier, outp, extra=["plans=" + plans, "free=" + frees])
    if rc != 0:
        raise C.Infra("harness %s failed:\n%s" % (fam, log[-2000:]))
    rows = C.read_transcript(outp)
    bad = 0
    model = dict((l[0], l[2]) for l in lines)
    hsm = dict(zip(hs_cases, C.run_eval("Do", hs_cases))) if hs_cases else {}
    for c, g, o in rows:
        m = model.get(c, hsm.get(c, "-"))
        if c.startswith("hs ") and c not in hsm:
            continue
        if c.startswith("free ") and c not in free_cases:
            continue
        verdict = "ok"
        if o.startswith("FAIL"):
            verdict = "PROPERTY FAILS"
            bad += 1
        elif m != "-" and g != "-" and g != m:
            verdict = "MODEL AND IMPLEMENTATION DIFFER"
            bad += 1
        print("REPLAY %s\n  case: %s\n  implementation: %s\n  model:          %s\n  oracle:         %s" % (verdict, c, g, m, o))
    print("replay: %d case(s) re-run, %d reproduce" % (len(rows), bad))
    return 1 if bad else 0


def replay(res, path):
    return replay_cases(res, path, "c04", False)
