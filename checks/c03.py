"""C03 — results, telemetry and exceptions are delivered exactly once, in order.

Harness family `c03` (harness/c03.go, harness/c03conn.go) runs the real ch.Connect + Client.Do over a scripted
in-memory connection; the model is coq/model/Recv.v through coq/model/GlueRecv.v (evaluator Recv).
"""
import os
import resource
from lib import common as C

BUDGET = {"quick": 1500, "thorough": 20000}


def explore(res, scale=1, seed=None):
    seed = res.seed if seed is None else seed
    wd = C.workdir(res.pid)
    binp = C.build_harness()
    out = os.path.join(wd, "c03_%d.tsv" % seed)
    rc, log, stats, dt = C.run_harness(binp, "c03", seed, BUDGET[res.tier] * scale, res.tier, out)
    if rc != 0:
        # a panic inside one of Do's goroutines cannot be recovered by the harness: the process dies.
        # Whatever the direct oracle had found before is still a finding; the abort itself is one too.
        rows = []
        if os.path.exists(out):
            with open(out, encoding="latin-1") as f:
                for line in f:
                    parts = line.rstrip("\n").split("\t")
                    if line.endswith("\n") and len(parts) == 3:
                        rows.append(parts)
        for c, g, o in rows:
            if o.startswith("FAIL"):
                res.oracle_fail(c, o[5:])
        if "panic" in log or "fatal error" in log:
            res.oracle_fail("harness run seed=%d after %d cases" % (seed, len(rows)),
                            "the implementation aborted the process while receiving a scripted response: " + log[-600:].replace("\n", " | "))
            res.account(rows)
            return
        raise C.Infra("harness c03 failed:\n" + log[-2000:])
    rows = C.read_transcript(out)
    # the extracted evaluator recurses along the case line (non-tail-recursive list functions)
    try:
        hard = resource.getrlimit(resource.RLIMIT_STACK)[1]
        resource.setrlimit(resource.RLIMIT_STACK, (hard, hard))
    except (ValueError, OSError):
        pass
    model = C.run_eval("Recv", [r[0] for r in rows])
    C.compare_rows(res, rows, model, "correspondence(receive loop)")
    res.account(rows)
    for k, v in stats.items():
        res.distribution[k] = res.distribution.get(k, 0) + v
    if not res.samples:
        small = [(r, m) for r, m in zip(rows, model) if len(r[0]) < 900]
        pick = small[:2] + small[len(small) // 2:len(small) // 2 + 2] + small[-2:]
        res.samples = [{"case": r[0][:900], "implementation": r[1][:500], "model": m[:500], "oracle": r[2]} for r, m in pick]
    ok, n, slog = C.coq_sample("GlueRecv", C.sample_pairs(rows, model, seed, k=12), wd, "c03")
    res.extra["in_coq_sample"] = res.extra.get("in_coq_sample", 0) + n
    if not ok:
        res.tie_broken("extraction", "vm_compute inside Coq disagrees with the extracted evaluator:\n" + slog)
    os.remove(out)
    res.extra["rule"] = (
        "cases come from the seeded generator of harness/c03.go: a packet script (optional zero-row header block, Data/Totals "
        "blocks of 0..257 rows over 1-6 columns drawn from the column catalogue, empty blocks, Progress, Profile, TableColumns, "
        "Log and ProfileEvents blocks interleaved, then EndOfStream / an exception chain of depth 1-15 / nothing, sometimes "
        "followed by packets that must not be delivered) x revision (18 representatives around every gate) x compression "
        "(off, LZ4, ZSTD, None; every compressed Data/Totals block cut into 1-4 frames at points that are uniform or aimed at the "
        "inside of the block header, a column header, an Array/Map offsets array, a string or a string's length prefix; "
        "payload-less frames in front and in between; now and then a method of its own - LZ4, LZ4HC, ZSTD, None - per frame) x presence and failure point of each of the 7 callbacks x result "
        "binding (typed columns, some pre-filled with stale rows or with names to infer; Results.Auto; empty Results; nil) x "
        "read chunking; 30% of the cases are malformed (cut, bit flip, stray byte after a packet code, foreign packet code, "
        "packet kinds swapped, altered compressed frame, deleted / inserted / duplicated bytes, schema that does not fit the "
        "bound columns). `recv` lines compare the implementation with the model on the very bytes the server sent; `enc` lines "
        "compare the model's server encoder with proto's encoders, `encf` lines the model's framed server (encode_packets_fr: "
        "the cut points and frame methods of the case) with the bytes proto's encoders and compress.Writer produced. The direct oracle (well-formed scripts) compares what the "
        "callbacks saw and what Do returned with what the script prescribes. A case is non-trivial when the implementation "
        "produced a callback trace for it (counted per distinct case line)")
    res.extra["trusted_base"] = [
        "CityHash128, lz4 and zstd are oracles: the harness puts the hash of every frame it wrote (recomputed over the final "
        "bytes after an alteration) and the real codec's output into the case line; ColAuto.Infer is an oracle too (type string "
        "-> column shape, C19's subject); ColumnType.Conflicts is the executable model of model/TypeStr.v",
    ]
    res.assumptions = [
        "codec_rt (decompress after compress is the identity) is a premise of the compressed half of the theorems; the "
        "..._frames theorems cover every framing of every compressed block (any number of admissible frames, any cut points, "
        "payload-less frames except the last, a method per frame) for blocks below the model's allocation budget (~25 GB); "
        "a payload-less LAST frame is excluded: the decoder never asks for it and it would be read as the next packet",
        "Log and ProfileEvents packets are not Compressible() in the library (nor compressed by a server): they never go "
        "through the decompressing reader, so framing applies to Data and Totals blocks only",
        "a bound column's own Infer(type string) is the identity on the type string the column reports, and ColumnType.Conflicts "
        "is irreflexive (premises accept_ok / conflicts_refl of the theorems; C18/C19 are about them)",
        "the reader is a flat byte stream: read timeouts (the `continue` of the receive loop), context cancellation and the "
        "sender / cancel-watcher goroutines are outside this model (C04, C10)",
        "user callbacks are abstract: set or not, and which invocation fails",
        "an empty LowCardinality column keeps the key width of the previous block in an unexported field: printed as 0 on both sides",
    ]


def replay(res, path):
    print(open(path).read())
    return 0
