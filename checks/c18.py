"""C18 — result blocks bind only to compatible targets; mismatches are errors."""
import os
from lib import common as C

BUDGET = {"quick": 8000, "thorough": 150000}


def _parse(s):
    """s-expressions of one transcript field -> nested lists of atoms"""
    out, stack, cur, tok = [], [], None, []
    cur = out

    def flush():
        if tok:
            cur.append("".join(tok))
            del tok[:]

    for ch in s:
        if ch == "(":
            flush()
            new = []
            cur.append(new)
            stack.append(cur)
            cur = new
        elif ch == ")":
            flush()
            if not stack:
                return None
            cur = stack.pop()
        elif ch == " ":
            flush()
        else:
            tok.append(ch)
    flush()
    return out if not stack else None


def _mask(model, impl):
    """the model prints ? where an observable is not modelled (Row(i) of a ColFixedStr below a wrapper); the implementation's
    value at that position is not compared"""
    if model == "?":
        return "?"
    if isinstance(model, list) and isinstance(impl, list) and len(model) == len(impl):
        return [_mask(m, g) for m, g in zip(model, impl)]
    return impl


def _unparse(x):
    if isinstance(x, list):
        return "(" + " ".join(_unparse(y) for y in x) + ")"
    return x


def masked(model, impl):
    if "?" not in model:
        return impl
    pm, pg = _parse(model), _parse(impl)
    if pm is None or pg is None:
        return impl
    return " ".join(_unparse(x) for x in _mask(pm, pg))


def unreset(case, model, impl):
    """(model', impl'): DecodeResult tells a target the block's type (Infer), checks it, and only then resets and decodes
    it.  In a FAILED block the target at which it stopped and the ones after it were not reset; where such a target was
    told another type in that block (an Enum8 column told Enum16 keeps its numbers in the field of the other width), what it
    holds is unspecified until the next block resets it.  The contents of such a target are not compared (its name, type,
    Rows() and the readability of its rows still are)."""
    pc, pm, pg = _parse(case), _parse(model), _parse(impl)
    if pc is None or pm is None or pg is None or len(pc) < 7 or not isinstance(pc[5], list) or not pm or not pg:
        return model, impl
    seq = pm[0] == "seq"
    if seq != (pg[0] == "seq"):
        return model, impl
    bm = pm[1:] if seq else [pm]
    bg = pg[1:] if seq else [pg]
    if len(bm) != len(bg):
        return model, impl
    prev = pc[5]
    changed = False
    for xm, xg in zip(bm, bg):
        if not (isinstance(xm, list) and isinstance(xg, list) and xm and xg and xm[0] == xg[0]):
            return model, impl
        if xm[0] == "ok" and len(xm) >= 4 and len(xg) >= 4:
            tm, tg = xm[3], xg[3]
        elif xm[0] == "fail" and len(xm) >= 2 and len(xg) >= 2:
            tm, tg = xm[1], xg[1]
        else:
            return model, impl
        if not (isinstance(tm, list) and isinstance(tg, list) and len(tm) == len(tg)):
            return model, impl
        if xm[0] == "fail" and isinstance(prev, list) and len(prev) == len(tm):
            for p, a, b in zip(prev, tm, tg):
                if (isinstance(p, list) and isinstance(a, list) and isinstance(b, list) and len(p) >= 3 and len(a) >= 3
                        and len(b) == len(a) and _unparse(p[1]) != _unparse(a[1])):
                    a[-1] = "?"
                    b[-1] = "?"
                    changed = True
        prev = tm
    if not changed:
        return model, impl
    un = lambda p: " ".join(_unparse(x) for x in p)
    return un(pm), un(pg)


def explore(res, scale=1, seed=None):
    seed = res.seed if seed is None else seed
    wd = C.workdir(res.pid)
    total = 0
    for build in (("default", ()), ("purego", ("purego",))):
        binp = C.build_harness(tags=build[1])
        out = os.path.join(wd, "c18_%s_%d.tsv" % (build[0], seed))
        n = BUDGET[res.tier] * scale
        if build[0] == "purego":
            n = n // 4      # the generated codecs differ between the builds, the binding logic does not
        rc, log, stats, dt = C.run_harness(binp, "c18", seed, n, res.tier, out)
        if rc != 0:
            raise C.Infra("harness c18 (%s) failed:\n%s" % (build[0], log[-2000:]))
        rows = C.read_transcript(out)
        # an observation "-" means the implementation's state could not be dumped (or a corrupted count made a decoder
        # allocate a column too large to print): such cases are judged by the oracle only and not run through the model
        todo = [i for i, r in enumerate(rows) if r[1] != "-"]
        evald = C.run_eval("Res", [rows[i][0] for i in todo])
        model = ["-"] * len(rows)
        for i, m in zip(todo, evald):
            model[i] = m
        rows_m, model_m = [], []
        for (c, g, o), m in zip(rows, model):
            if g != "-" and m != "-" and "fail" in g:
                m, g = unreset(c, m, g)
            rows_m.append((c, masked(m, g), o))
            model_m.append(m)
        C.compare_rows(res, rows_m, model_m, "correspondence(result blocks,%s)" % build[0])
        res.account(rows)
        total += len(rows)
        for k, v in stats.items():
            res.distribution["%s.%s" % (build[0], k)] = res.distribution.get("%s.%s" % (build[0], k), 0) + v
        if len(res.samples) < 8:
            seen = set()
            for r, m in zip(rows, model):
                key = (r[0].split(" ", 1)[0], r[1].split(" ", 1)[0])
                if key not in seen and len(r[0]) < 600:
                    seen.add(key)
                    res.samples.append({"case": r[0][:400], "implementation": r[1][:400], "model": m[:400], "oracle": r[2][:200]})
        short = [(r, m) for r, m in zip(rows, model) if len(r[0]) < 1200 and r[1] != "-"]
        ok, k, slog = C.coq_sample("GlueRes", C.sample_pairs([r for r, _ in short], [m for _, m in short], seed, k=10), wd,
                                   "c18_" + build[0])
        res.extra["in_coq_sample"] = res.extra.get("in_coq_sample", 0) + k
        if not ok:
            res.tie_broken("extraction", "vm_compute inside Coq disagrees with the extracted evaluator:\n" + slog)
        os.remove(out)
    # decimal storage classes at their precision boundaries (1-9 / 10-18 / 19-38 / 39-76 digits, ClickHouse's documented
    # rule), plain and under Nullable / Array: own class binds, any other class is an error (direct oracle)
    from lib import colfam
    colfam.run_family(res, "c18cross", 320 * scale, seed, builds=("default",), sample=False, glue="Res", gluemod="GlueRes")
    res.extra["rule"] = (
        "cases come from the seeded generators of harness/c18.go over real Block.EncodeBlock/DecodeBlock with proto.Results, "
        "AutoResult and Results.Auto(): equal schemas (catalogue columns, revisions on both sides of every feature), one column "
        "against one target for pairs of a pool of ~150 column kinds (every type against every other, parameter-only "
        "differences), permuted/renamed/blank/extra/missing targets, zero-row header blocks with and without targets, "
        "sequences of 2-3 blocks with changing schemas against the same targets, altered blocks (cuts, custom-serialization "
        "flag, byte edits), nested adoption (Array / Nullable / LowCardinality / Map, also in each other, around Enum, DateTime, "
        "DateTime64 leaves; 2-3 blocks differing in leaf parameters only against targets built blank or with other parameters; "
        "Map sides containing commas; Tuple, named Tuple and Tuple in Tuple around such leaves), every ordered pair of Tuple / Map types of different arity (also with adopting elements), and failed-then-well-formed "
        "block sequences (cut / altered / foreign-schema block, then blocks of the targets' own schema). After a failed bind "
        "every target is compared with the model as it is - the failing one with its half-decoded column - together with "
        "Rows() and whether Row(i) returns for every i below it. A case is non-trivial when the implementation produced a "
        "value for it (counted per distinct case) or a failure class (counted once per case kind and class)")
    res.assumptions = [
        "time.LoadLocation is an oracle (Section variable zone); the harness tabulates it per case on every substring a column's Infer could pass to it",
        "strings.ToLower is uninterpreted (ColInterval.Infer's outcome does not depend on it, C19)",
        "the column decoders are those of model/Columns.v (C01); what a decoder leaves behind when it fails is model/DecPart.v, one case per DecodeColumn of /repo/proto and per build (ColUInt8 has the pure-Go decoder in both builds; a FixedString of size 64/128/256/512 is taken to be the generated array column, any other size ColFixedStr{Size}); hidden state that Reset does not clear (ColLowCardinality.key, slice capacities) is not modelled: the key is printed 0 while the column has no values and no keys, and Row(i) of a ColFixedStr below a wrapper (which slices within capacity) is not compared",
        "a case in which a corrupted count made a decoder allocate more than 200000 elements is judged by the oracle only (not dumped, not run through the model)",
        "a typed target is identified by its Type() string and element width: ColDateTime / ColDateTime64 / ColInterval are recognised by their names (Alias/Wrap columns are outside the modelled set)",
        "ColTuple as a target hands element i the i-th top-level argument of Tuple(...) and refuses a type with another number of arguments; ColNamed strips '<Name> ' (repaired by the C18y extension and mirrored; ColTuple is not a ColumnOf[T], so a tuple cannot stand below Array / Nullable / Map: tuples are top-level targets or elements of tuples)",
        "after a failed bind the library leaves a half-decoded Nullable / Array / Map / Point / Tuple / LowCardinality target whose Rows() exceeds what Row(i) can return (Row panics): modelled and compared, stated as failing_target_consistent_refuted, not reported as a violation",
    ]


def replay(res, path):
    print(open(path).read())
    return 0
