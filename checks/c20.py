"""C20 — scalar conversions are exact over each type's whole documented range.

harness family `c20` (harness/c20.go) runs the real helpers / temporal columns on batches of instants and
values; every transcript line is also evaluated by the extracted Coq model (coq/model/GlueScal.v) and
compared; the third column is the property evaluated directly on the implementation."""
import os
import re
import subprocess
from concurrent.futures import ThreadPoolExecutor

from lib import common as C

# number of randomly generated batch lines; the exhaustive sweeps (all Dates, every Date32 day, the
# calendar) are fixed by the tier inside the harness
BUDGET = {"quick": 4000, "thorough": 150000}
WORKERS = 12

ASSUMPTIONS = [
    "time.Time is modelled as (unix seconds, nanoseconds, fixed zone offset): only fixed-offset zones "
    "(no DST transitions), no monotonic clock reading",
    "Go's time package (time.Unix, Time.Add, time.Date, Time.Date/Clock, AddDate) is modelled, not verified; "
    "its calendar is the proleptic Gregorian days<->civil bijection proved for all days in the model and "
    "compared with Go on every Date32 day of every run",
    "net/netip.Addr is modelled as zero | 4 bytes | 16 bytes (zones ignored); math/big is the harness's "
    "reference for 128/256-bit values",
    "Interval.Add seconds/minutes/hours: within Go's time.Duration (about +-292 years), the stated guard "
    "of the theorem; day/week/month/quarter/year: |n| <= 2^31 and instants within +-557 000 years",
    "Go's zero Time (0001-01-01 00:00:00 UTC) is mapped to 0 by every ToX helper (library rule); it is "
    "outside every documented range and excluded by hypothesis",
    "the scalar functions are TRANSLATED from /repo/proto/*.go on every run (translator/minigo.go -> "
    "coq/gen/ScalFuns.v) and proved equal to the hand model (theorem scalar_model_is_source); trusted there: "
    "the MiniGo translator (fragment grammar, wrap/quot/rem semantics and the primitive table at the head of "
    "minigo.go: time.Time methods, time.Unix/Date, netip, binary.BigEndian mapped to the Scalars.v definitions)",
    "the temporal columns' methods (ColDate/ColDate32/ColDateTime/ColDateTime64 .Append .AppendArr .Row .loc "
    ".WithPrecision .WithLocation .Infer) are translated on every run too and proved equal to the hand model of "
    "coq/model/ScalCols.v (theorem column_model_is_source); a column object is the value behind its pointer receiver "
    "(no aliasing in the fragment), a slice is a list with Go's index check written out, a range loop is a structural "
    "Fixpoint; the STRING PARSING of Infer is not translated: ColumnType.Elem, strings.Cut/Trim, strconv.ParseUint(s,10,8) "
    "are primitives mapped to model/TypeStr.v (elem_r, cut_byte, trim_set, parse_uint8), time.LoadLocation is a parameter "
    "(zone name -> fixed offset), an error is a boolean (message not modelled)",
]

RULE = ("one transcript line is a batch: a sweep of consecutive/strided days or seconds in one zone at one "
        "time of day, or a list of values. Sweeps enumerate all 65 536 Dates, every Date32 day 1900..2299 "
        "(several zones -12h..+14h; all 27 in the thorough tier) and the calendar of each of those days; "
        "boundary lists and a seeded random stream cover DateTime, DateTime64 at precisions 0..9, the "
        "128/256-bit, IPv4/IPv6 helpers and Interval.Add, about one line in eight outside every documented "
        "range. evaluations = instants/values converted; distinct_nontrivial = distinct batch lines for "
        "which the implementation returned values (a panic class counts once per operation). "
        "Independently of the generated inputs, the scalar conversion functions themselves are translated from "
        "the Go source on each run (coq/gen/ScalFuns.v) and props/C20.v re-proves that each one equals the hand "
        "model (scalar_model_is_source): an edit of a whitelisted function that changes its meaning, or leaves "
        "the translatable fragment, breaks the proof step even if no generated input hits it. The same holds for the "
        "methods of the temporal columns (Append / AppendArr / Row / Infer / WithPrecision): props/C20.v proves over "
        "the translated methods that AppendArr is the fold of Append and that after ANY history of one column object "
        "the next appended value is read back at the object's current precision and zone "
        "(source_column_append_row), so state cached across Infer or across the values of a batch breaks the proof step")


def translated_functions():
    """The go_* definitions the translator wrote on this run, and the ones it could not translate."""
    path = os.path.join(C.COQ, "gen", "ScalFuns.v")
    try:
        text = open(path).read()
    except OSError:
        return [], ["coq/gen/ScalFuns.v was not written"]
    m = re.search(r"^\(\* translated: (.*) \*\)$", text, re.M)
    ok = m.group(1).split() if m else []
    failed = re.findall(r"^\(\* TRANSLATION FAILED: (.*) \*\)$", text, re.M)
    return ok, failed


def par_eval(fam, lines):
    """The extracted evaluator on many lines, in parallel chunks (same binary as common.run_eval)."""
    binp = C.build_eval(fam)
    if not lines:
        return []
    k = max(1, min(WORKERS, len(lines) // 50))
    # interleave so that the long sweep lines are spread over the workers
    chunks = [lines[i::k] for i in range(k)]

    def run(chunk):
        p = subprocess.run([binp], input=("\n".join(chunk) + "\n").encode(), stdout=subprocess.PIPE,
                           stderr=subprocess.PIPE, timeout=3000)
        if p.returncode != 0:
            raise C.Infra("model evaluator %s failed: %s" % (fam, p.stderr.decode()[-2000:]))
        out = p.stdout.decode("latin-1").split("\n")
        if out and out[-1] == "":
            out.pop()
        if len(out) != len(chunk):
            raise C.Infra("model evaluator %s: %d outputs for %d cases" % (fam, len(out), len(chunk)))
        return out

    with ThreadPoolExecutor(max_workers=k) as ex:
        outs = list(ex.map(run, chunks))
    res = [None] * len(lines)
    for i, o in enumerate(outs):
        res[i::k] = o
    return res


def _compare(res, rows, seed, wd, tag):
    model = par_eval("Scal", [r[0] for r in rows])
    C.compare_rows(res, rows, model, "correspondence(scalar conversions)")
    res.account(rows)
    if not res.samples:
        pick = [i for i, r in enumerate(rows) if len(r[0]) < 200 and len(r[1]) < 300]
        idx = pick[:2] + pick[len(pick) // 3:len(pick) // 3 + 2] + pick[-3:]
        res.samples = [{"case": rows[i][0], "implementation": rows[i][1], "model": model[i], "oracle": rows[i][2]}
                       for i in idx]
    ok, n, slog = C.coq_sample("GlueScal", C.sample_pairs(rows, model, seed), wd, tag)
    res.extra["in_coq_sample"] = res.extra.get("in_coq_sample", 0) + n
    if not ok:
        res.tie_broken("extraction", "vm_compute inside Coq disagrees with the extracted evaluator:\n" + slog)
    return model


def explore(res, scale=1, seed=None):
    seed = res.seed if seed is None else seed
    wd = C.workdir(res.pid)
    binp = C.build_harness()
    out = os.path.join(wd, "c20_%d.tsv" % seed)
    rc, log, stats, dt = C.run_harness(binp, "c20", seed, BUDGET[res.tier] * scale, res.tier, out)
    if rc != 0:
        raise C.Infra("harness c20 failed:\n" + log[-2000:])
    rows = C.read_transcript(out)
    _compare(res, rows, seed, wd, "c20")
    inst = sum(v for k, v in stats.items() if re.match(r"(instants|values)\.[a-z0-9]+$", k))
    res.evaluations += max(0, inst - len(rows))      # account() counted lines; report converted instants
    for k, v in stats.items():
        res.distribution[k] = res.distribution.get(k, 0) + v
    res.distribution["batch_lines"] = res.distribution.get("batch_lines", 0) + len(rows)
    if res.tier == "thorough":
        res.extra["exhaustive"] = "all 65536 Dates x 28 zone/time-of-day sweeps; every Date32 day 1900-01-01..2299-12-31 x 28"
    os.remove(out)
    res.assumptions = ASSUMPTIONS
    res.extra["rule"] = RULE
    res.extra["trusted_base"] = [
        "translator/minigo*.go: the MiniGo fragment (grammar, wrap / Z.quot / Z.rem / panic-as-None semantics) and its "
        "primitive table mapping Go's time, net/netip, math and encoding/binary calls to the definitions of "
        "coq/model/Scalars.v (time.Time methods, time.Unix, time.Date, Addr.As4/As16, AddrFrom4/16, BigEndian.Uint32/PutUint32)",
        "translator/minigo*.go, column extension: pointer receiver = its value, slices = lists (slice_at = nth_error, None = the "
        "index panic), range loop = structural Fixpoint, partial calls bound by TRY before their statement; string / error "
        "primitives of coq/model/ScalCols.v mapped to coq/model/TypeStr.v (ct_Elem = elem_r, str_Cut = cut_byte, "
        "str_Trim = trim_set, str_ParseUint8 = parse_uint8), time.LoadLocation = the parameter tzdb, errors = booleans"]
    ok, failed = translated_functions()
    res.extra["translated_functions"] = ok
    if failed:
        res.extra["untranslatable"] = failed
        note = "translator/minigo.go could not translate (outside the MiniGo fragment): " + "; ".join(failed)
        if note not in res.notes:
            res.notes.append(note)
    elif not any("translated from the Go source" in n for n in res.notes):
        ncol = len([n for n in ok if n.startswith("go_Col")])
        res.notes.append("%d scalar functions and %d column methods translated from the Go source on this run "
                         "(coq/gen/ScalFuns.v) and proved equal to the hand model (scalar_model_is_source, "
                         "column_model_is_source)" % (len(ok) - ncol, ncol))


def replay(res, path):
    """Re-run the case lines of a replay file on the implementation and on the model."""
    text = open(path).read()
    print(text)
    cases = [m.group(1).strip() for m in re.finditer(r"^\s*case:\s*(.+)$", text, re.M)]
    cases = [c for c in cases if not c.endswith("...")]
    if not cases:
        print("no case lines in %s" % path)
        return 0
    wd = C.workdir(res.pid)
    binp = C.build_harness()
    inp = os.path.join(wd, "replay_cases.txt")
    out = os.path.join(wd, "replay.tsv")
    with open(inp, "w") as f:
        f.write("\n".join(cases) + "\n")
    rc, log, stats, dt = C.run_harness(binp, "c20replay", res.seed, 0, res.tier, out, extra=["file=" + inp])
    if rc != 0:
        raise C.Infra("harness c20replay failed:\n" + log[-2000:])
    rows = C.read_transcript(out)
    model = par_eval("Scal", [r[0] for r in rows])
    bad = 0
    for (c, g, o), m in zip(rows, model):
        same = C.canon_obs(g) == C.canon_obs(m)
        print("case: %s\n  implementation: %s\n  model:          %s\n  oracle: %s%s" % (
            c[:400], g[:400], m[:400], o, "" if same else "   [model and implementation differ]"))
        if o.startswith("FAIL") or not same:
            bad += 1
    print("replay: %d of %d cases still fail" % (bad, len(rows)))
    return 1 if bad else 0
