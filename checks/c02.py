"""C02 — everything the client writes for a query is a well-formed packet sequence.

Harness family `c02` (harness/c02.go over the scripted connection of harness/c02conn.go): the real
ch.Connect + Client.Do; the bytes Do wrote are parsed by the MODEL's reference server-side parser
(coq/model/Send.v through GlueSend.v, evaluator Send) and compared with expected_packets - the right-hand
side of theorem client_stream_wellformed; a malformed variant of every fifth stream is judged by the
model's parser and by the library's own decoders.  Direct oracle: the library's decoders read the stream
back and the result is compared, field by field and block by block, with what was handed to Do.
"""
import os
import subprocess
from concurrent.futures import ThreadPoolExecutor

from lib import common as C

BUDGET = {"quick": 800, "thorough": 15000}
PAR = 16


def eval_parallel(fam, lines, par=PAR):
    """common.run_eval over `par` processes; the big cases are spread round-robin."""
    binp = C.build_eval(fam)
    if not lines:
        return []
    order = sorted(range(len(lines)), key=lambda i: -len(lines[i]))
    buckets = [order[j::par] for j in range(par)]
    buckets = [b for b in buckets if b]

    def big_stack():
        # the extracted evaluator recurses over the characters of a case line
        import resource
        soft, hard = resource.getrlimit(resource.RLIMIT_STACK)
        want = hard if hard != resource.RLIM_INFINITY else resource.RLIM_INFINITY
        try:
            resource.setrlimit(resource.RLIMIT_STACK, (want, hard))
        except (ValueError, OSError):
            pass

    def one(idx):
        data = ("\n".join(lines[i] for i in idx) + "\n").encode("latin-1")
        p = subprocess.run([binp], input=data, stdout=subprocess.PIPE, stderr=subprocess.PIPE, timeout=3000,
                           preexec_fn=big_stack)
        if p.returncode != 0:
            raise C.Infra("model evaluator %s failed: %s" % (fam, p.stderr.decode()[-2000:]))
        out = p.stdout.decode("latin-1").split("\n")
        if out and out[-1] == "":
            out.pop()
        if len(out) != len(idx):
            raise C.Infra("model evaluator %s: %d outputs for %d cases" % (fam, len(out), len(idx)))
        return out

    with ThreadPoolExecutor(max_workers=par) as ex:
        parts = list(ex.map(one, buckets))
    res = [None] * len(lines)
    for idx, out in zip(buckets, parts):
        for i, o in zip(idx, out):
            res[i] = o
    return res


def run_family(res, fam, scale, seed, budget):
    wd = C.workdir(res.pid)
    binp = C.build_harness()
    out = os.path.join(wd, "%s_%d.tsv" % (fam, seed))
    rc, log, stats, dt = C.run_harness(binp, fam, seed, budget * scale, res.tier, out)
    if rc != 0:
        raise C.Infra("harness %s failed:\n%s" % (fam, log[-2000:]))
    rows = C.read_transcript(out)
    idx = [i for i, r in enumerate(rows) if r[1] != "-"]
    part = eval_parallel("Send", [rows[i][0] for i in idx])
    model = ["-"] * len(rows)
    for i, m in zip(idx, part):
        model[i] = m
    os.remove(out)
    return rows, model, stats, wd


def explore(res, scale=1, seed=None):
    seed = res.seed if seed is None else seed
    # blocks larger than 1 MiB in every compression mode, read back with the library's server-side decoders (direct oracle)
    from lib import colfam
    colfam.run_direct(res, "c02big", 10 * scale, seed, builds=("default",))
    # what an uncompressed INSERT writes for a block is what WriteBlock + Flush give: string values of 4 KiB .. 1 MiB and
    # several big buffered pieces in one flush must equal the buffer encoding (C14's family; direct oracle)
    colfam.run_direct(res, "c14long", 32 * scale, seed, builds=("default",))
    # the streamed-input half of the property ("then the input blocks in order followed by an empty terminator"):
    # the wire of OnInput-driven inserts with reused column memory, parsed by the reference parser, must carry the
    # caller's blocks in order - the C09 family run here with a small budget (oracle texts are about the wire)
    import importlib
    c09 = importlib.import_module("checks.c09")
    rows9, model9, stats9, _wd9 = c09.run_family(res, "c09", scale, seed, max(120, c09.BUDGET[res.tier] // 4))
    C.compare_rows(res, rows9, model9, "correspondence(streamed input blocks on the wire)")
    res.account(rows9)
    for k, v in stats9.items():
        res.distribution["streamed." + k] = res.distribution.get("streamed." + k, 0) + v
    # "nothing else is written": the request that FOLLOWS a failed query on the same client must start with its own
    # first byte (leftover writer state of the failed query would put other bytes, or a panic, in front of it):
    # a reduced run of the steered C04 family, whose oracle judges the follow-up request
    c04 = importlib.import_module("checks.c04")
    named = []
    for base in c04.base_scenarios("quick"):
        for fname, sc_ in c04.fault_variants(base, "quick"):
            if base[0].startswith("insert") and fname.split("-")[0] in ("none", "exception", "oninput"):
                named.append((base[0] + "/" + fname, sc_))
    import random
    lines4 = c04.plans_for(named, False, 450 * scale, random.Random(seed), res, "c02seq")
    c04.run_gated(res, "c04", lines4, seed, C.workdir(res.pid), 0,
                  "correspondence(request following a failed query: tokens written, follow-up Ping)")
    rows, model_raw, stats, wd = run_family(res, "c02", scale, seed, BUDGET[res.tier])
    # after " # ": byte equality of the model's sender with the implementation - a diagnostic of model
    # drift, not part of the property (C02 does not pin the bytes)
    model, drift = [], 0
    for m in model_raw:
        head, sep, tail = m.partition(" # ")
        if sep and tail.strip() == "f":
            drift += 1
        model.append(head)
    # altered streams: the library's decoders tolerate a little more than they write; the harness gives both
    # readings ("reject|accept") where they differ and the model's parser has to give one of them
    for i, (r, m) in enumerate(zip(rows, model)):
        if r[0].startswith("c02m ") and "|" in r[1] and m in r[1].split("|"):
            rows[i] = [r[0], m, r[2]]
    C.compare_rows(res, rows, model, "correspondence(recorded client bytes parsed by the model's server-side parser "
                                     "= expected_packets; sender status)")
    res.account(rows)
    for k, v in stats.items():
        res.distribution[k] = res.distribution.get(k, 0) + v
    res.distribution["sender_bytes_differ_from_model(diagnostic)"] = res.distribution.get(
        "sender_bytes_differ_from_model(diagnostic)", 0) + drift
    if drift:
        res.notes.append("%d streams parse as expected but differ byte-wise from the model's sender (model drift, diagnostic only)" % drift)
    if not res.samples:
        small = [(r, m) for r, m in zip(rows, model_raw) if len(r[0]) < 1500]
        pick = small[:2] + small[len(small) // 2:len(small) // 2 + 2] + small[-2:]
        res.samples = [{"case": r[0][:1500], "implementation": r[1][:200], "model": m[:300], "oracle": r[2][:300]} for r, m in pick]
    pairs = [(r[0], m) for r, m in zip(rows, model_raw) if r[1] != "-"]
    pairs.sort(key=lambda p: len(p[0]))
    ok, n, slog = C.coq_sample("GlueSend", pairs[:8] + pairs[len(pairs) // 3:len(pairs) // 3 + 4], wd, "c02")
    res.extra["in_coq_sample"] = res.extra.get("in_coq_sample", 0) + n
    if not ok:
        res.tie_broken("extraction", "vm_compute inside Coq disagrees with the extracted evaluator:\n" + slog)
    res.extra["rule"] = (
        "cases come from the seeded generator of harness/c02.go: query ids (empty -> generated UUID, long, non-UTF-8), bodies, "
        "0..2 connection + 0..3 query settings with flags, parameters (also below FeatureParameters: refusal), secret, quota "
        "key, initial user, span contexts, external data and input columns from the column catalogue (0..257 rows, row-count "
        "mismatches), every revision within +-1 of every feature threshold (every third case sweeps them in order), the five "
        "compression modes in rotation, with and without the server's column-info block; one altered stream per five good "
        "ones. A case is non-trivial when Do wrote a stream that was parsed (counted per distinct case line); refusals and "
        "below-window revisions are counted once per kind")
    res.extra["trusted_base"] = [
        "CityHash128, lz4 and zstd are oracles: the harness scans the recorded bytes for frames whose checksum verifies and puts "
        "their hash values and codec results into the case line; the model looks them up (coq/model/GlueSend.v)",
        "the scripted in-memory net.Conn of harness/c02conn.go (no vectored writes: net.Buffers.WriteTo calls Write per slice)",
    ]
    res.assumptions = [
        "codec_rt (decompress . compress = id for LZ4 / LZ4HC / ZSTD) and `fits` (block and frame within the 128 MiB limits of the "
        "library's frame reader) are premises of client_stream_wellformed; rejection of corrupt frames is modulo CityHash128 collisions",
        "columns are well-formed (cols_ok): same row count, Prepare succeeds, contents within the library's caps; names and type "
        "strings are byte strings shorter than 2^63",
        "the reference parser is typed: the server knows the schema of the external table and of the INSERT target and accepts "
        "exactly the column's own type string",
        "the connection accepts every write (write failures are C04's subject); the context is not cancelled; the client is open",
        "the input-column inference step of sendInput is modelled as the identity: the scripted server announces exactly the "
        "columns' own types (as a real server does for a matching INSERT)",
        "Go's append never fails; the spare capacity of reallocated buffers does not matter (C14: realloc_independent)",
        "revisions below FeatureSettingsSerializedAsStrings (54429): no server-side Query decoder exists in the library; there the "
        "tie is byte equality of the model's sender with the implementation",
    ]


def replay(res, path):
    print(open(path).read())
    return 0
