"""C11 — a pooled connection has one holder; dead or expired ones are never reissued.

Harness family `c11` (harness/c11.go, harness/c11srv.go): the real chpool.Pool over ch.Options.Dialer handing out
net.Pipe connections served by a scripted ClickHouse server.  Operation histories from the model's alphabet
(New with MinConns and scripted dial outcomes, Acquire, Release once or repeatedly, Client.Do ok / exception / cut /
cancelled, Ping, Pool.Do, Pool.Ping, health check ticks with checkMinConns, the completion of each creation
checkMinConns started, time, Close) run one operation at a time; after each the harness waits for puddle's goroutines
and prints outcome, connection id per handle, Stat() (total, acquired, idle, constructing) and the set of closed
connections.  The dials of the goroutines checkMinConns starts wait at a gate in the harness's dialer, so holders, further
ticks and Close run while creations are in flight; a tick is reported with the number of creations it started.  The same lines run through
the extracted model (coq/model/Pool.v through GluePool.v) and must agree; a direct oracle judges the property on
the implementation alone.  Untimed histories: every history up to a length that grows with the budget over a
six-operation alphabet with MaxConns 1 and 2, then random long ones.  Timed histories follow a slotted real-time
schedule (lifetimes, idle times and the background health check in play; two fifths of them keep the pool AT the
MinConns floor while New's connections outlive their lifetime or idle time); a history whose comparison or oracle
fails is run again alone (timed ones with a longer time unit) and reported only if it fails again, one whose schedule the machine could not keep three times
is not compared (counted).
Family `c11r` (-race build): the same operations from 2..7 goroutines with millisecond lifetimes, a 1-3 ms health
check, MinConns 0..MaxConns (checkMinConns dialing concurrently) and a concurrent Close; direct oracle only (in-flight counter at the server, holders per connection, Stat total,
open connections at dial time, panics, everything closed after Close, data races).
"""
import os
import re
import subprocess
from concurrent.futures import ThreadPoolExecutor

from lib import common as C

BUDGET = {"quick": 33000, "thorough": 420000}
RACE = {"quick": 120, "thorough": 1500}
PAR = 16


def _eval_parallel(fam, lines):
    binp = C.build_eval(fam)
    if len(lines) < 2000:
        return C.run_eval(fam, lines)
    k = (len(lines) + PAR - 1) // PAR
    chunks = [lines[i:i + k] for i in range(0, len(lines), k)]

    def one(chunk):
        p = subprocess.run([binp], input=("\n".join(chunk) + "\n").encode(), stdout=subprocess.PIPE,
                           stderr=subprocess.PIPE, timeout=3000)
        if p.returncode != 0:
            raise C.Infra("model evaluator %s failed: %s" % (fam, p.stderr.decode()[-2000:]))
        out = p.stdout.decode("latin-1").split("\n")
        if out and out[-1] == "":
            out.pop()
        if len(out) != len(chunk):
            raise C.Infra("model evaluator %s: %d outputs for %d cases" % (fam, len(out), len(chunk)))
        return out

    with ThreadPoolExecutor(max_workers=PAR) as ex:
        parts = list(ex.map(one, chunks))
    return [x for part in parts for x in part]


def _crash_excerpt(log):
    m = re.search(r"(panic: .*|fatal error: .*|WARNING: DATA RACE)", log)
    if not m:
        return None
    i = m.start()
    return log[i:i + 1500].replace("\t", " ")


def _case_id(case):
    return int(case.split(" ", 2)[1])


def explore(res, scale=1, seed=None):
    seed = res.seed if seed is None else seed
    wd = C.workdir(res.pid)
    binp = C.build_harness()
    n = BUDGET[res.tier] * scale
    out = os.path.join(wd, "c11_%d.tsv" % seed)
    rc, log, stats, dt = C.run_harness(binp, "c11", seed, n, res.tier, out, timeout=2400)
    if rc != 0:
        ex = _crash_excerpt(log)
        if ex is None:
            raise C.Infra("harness c11 failed:\n" + log[-2000:])
        # a panic in a goroutine the pool started takes the whole process down
        res.oracle_fail("c11 sequential histories seed=%d n=%d" % (seed, n), "panic-in-background-goroutine: " + ex)
        return
    rows = C.read_transcript(out)
    model = _eval_parallel("Pool", [r[0] for r in rows])

    # timed histories depend on the machine keeping a real-time schedule, and every history on puddle's goroutines
    # being scheduled within the harness's patience: a history that disagrees or fails is run again (alone, with a
    # longer time unit) and is reported only if it does so again
    def bad(rws, mdl):
        return [i for i, (r, m) in enumerate(zip(rws, mdl))
                if (r[1] != "-" and C.canon_obs(r[1]) != C.canon_obs(m)) or r[2].startswith("FAIL")]

    redo = bad(rows, model)
    for unit in (80, 160):
        if not redo or len(redo) > 200:
            break
        ids = ",".join(str(_case_id(rows[i][0])) for i in redo)
        out2 = out + ".redo"
        rc2, log2, _, _ = C.run_harness(binp, "c11", seed, n, res.tier, out2, extra=["only=" + ids, "unit=%d" % unit])
        if rc2 != 0:
            break
        rows2 = {_case_id(r[0]): r for r in C.read_transcript(out2)}
        os.remove(out2)
        still = []
        for i in redo:
            r2 = rows2.get(_case_id(rows[i][0]))
            if r2 is None:
                still.append(i)
                continue
            m2 = C.run_eval("Pool", [r2[0]])[0]
            if (r2[1] == "-" or C.canon_obs(r2[1]) == C.canon_obs(m2)) and not r2[2].startswith("FAIL"):
                rows[i], model[i] = r2, m2
                res.notes.append("history %d agreed with the model and the oracle when run again (unit %d ms)" % (_case_id(r2[0]), unit))
            else:
                still.append(i)
        redo = still

    C.compare_rows(res, rows, model, "correspondence(pool histories: outcome, connection per handle, Stat, closed connections)")
    res.account(rows)
    for k, v in stats.items():
        res.distribution[k] = res.distribution.get(k, 0) + v
    if not res.samples:
        pick = list(zip(rows, model))
        timed = [x for x in pick if "(spawn " in x[0][0]] or [x for x in pick if "(tick " in x[0][0]]
        res.samples = [{"case": r[0][:500], "implementation": r[1][:500], "model": m[:500], "oracle": r[2]}
                       for r, m in pick[:2] + pick[3000:3001] + timed[:2] + pick[-1:]]
    ok, ns, slog = C.coq_sample("GluePool", C.sample_pairs(rows, model, seed), wd, "c11")
    res.extra["in_coq_sample"] = res.extra.get("in_coq_sample", 0) + ns
    if not ok:
        res.tie_broken("extraction", "vm_compute inside Coq disagrees with the extracted evaluator:\n" + slog)
    os.remove(out)

    # long histories on one connection: cross the boundaries of chpool's per-connection handle slab (64, then 128)
    outl = os.path.join(wd, "c11long_%d.tsv" % seed)
    rcl, logl, lstats, _ = C.run_harness(binp, "c11long", seed, 3, res.tier, outl, timeout=600)
    if rcl != 0:
        ex = _crash_excerpt(logl)
        if ex is None:
            raise C.Infra("harness c11long failed:\n" + logl[-2000:])
        res.oracle_fail("c11long seed=%d" % seed, "panic-in-long-history: " + ex)
    else:
        lrows = C.read_transcript(outl)
        lmodel = C.run_eval("Pool", [r[0] for r in lrows])
        C.compare_rows(res, lrows, lmodel, "correspondence(long pool histories across the handle slab boundaries)")
        res.account(lrows)
        for k, v in lstats.items():
            res.distribution[k] = res.distribution.get(k, 0) + v
        os.remove(outl)

    # concurrent holders under the race detector: direct oracle only
    if res.oracle_failures:
        res.notes.append("concurrent family not run: the sequential histories already violate the property")
        _tail(res, stats)
        return
    binr = C.build_harness(race=True)
    outr = os.path.join(wd, "c11r_%d.tsv" % seed)
    nr = RACE[res.tier] * scale
    rc, log, rstats, dt = C.run_harness(binr, "c11r", seed, nr, res.tier, outr, timeout=3000)
    rrows = C.read_transcript(outr) if os.path.exists(outr) else []
    for c, g, o in rrows:
        if o.startswith("FAIL"):
            res.oracle_fail(c, o[5:])
    if rc != 0 or "WARNING: DATA RACE" in log:
        ex = _crash_excerpt(log)
        if ex is None:
            raise C.Infra("harness c11r failed:\n" + log[-2000:])
        res.oracle_fail("c11r concurrent holders seed=%d n=%d" % (seed, nr), "concurrent-run-aborted-or-raced: " + ex)
    res.account(rrows)
    for k, v in rstats.items():
        res.distribution[k] = res.distribution.get(k, 0) + v
    if rrows and len(res.samples) < 8:
        res.samples.append({"case": rrows[0][0], "implementation": rrows[0][1], "oracle": rrows[0][2]})
    if os.path.exists(outr):
        os.remove(outr)

    _tail(res, stats)


def _tail(res, stats):
    lens = sorted(int(k.rsplit("len", 1)[1]) for k in stats if k.startswith("c11.exhaustive.len"))
    res.extra["exhaustive_part"] = ("every history of length <= %d over {Acquire, Release h, Do h ok, Do h cut, Pool.Do ok, Close} "
                                    "for MaxConns 1 and 2 with MinConns 0, and of length <= %d for (MaxConns, MinConns) = (1,1), (2,1), (2,2), "
                                    "each followed by release of every handle and Close"
                                    % (lens[-1] if lens else 0, (lens[-1] - 1) if lens else 0))
    res.extra["rule"] = ("histories: enumerated exhaustively up to the stated length, the rest drawn from the seeded generator "
                         "(random long untimed ones with MaxConns 1-3, MinConns 0..MaxConns (and MaxConns+1: New must fail), failing dials "
                         "in New and in Acquire, stale and non-existent handles, all four request outcomes; timed ones with lifetimes 1-3, "
                         "idle times 1-2, a health check every 2-3 time units, MinConns >= 1 in two thirds of them, background creations "
                         "completing at once, later, after Close, or failing; floor histories: MinConns connections expiring together); concurrent runs: "
                         "2..7 goroutines x 20..79 operations.  A case is non-trivial when the implementation produced an "
                         "observation for it: counted per distinct case line")
    res.assumptions = [
        "puddle v2.2.2 keeps its own contract under real concurrency (its mutex, semaphore and generational idle stack are "
        "modelled as atomic pool operations; the semaphore is derived: tokens held = acquired + being destroyed)",
        "what ch.Client does with a request is the environment's choice in the model (the operation carries whether the client "
        "is closed afterwards; the harness reports what it observed): C04/C10 own that behaviour",
        "a holder does not use a handle after releasing it except to call Release again (Do / Ping on a released handle "
        "dereference a nil resource after the repair and are not generated)",
        "a goroutine started by checkMinConns enters CreateResource, and its dial returns, at moments chosen by the history "
        "(model) / by the harness's gate (implementation); how many creations a tick starts depends on a race inside the "
        "implementation (Destroy goroutines vs checkMinConns reading Stat): the harness reports the number it saw and the "
        "model must be able to produce it by some order of those goroutines",
        "time is an abstract counter; the timed histories map it to real time on a slotted schedule with a quarter-unit margin",
        "the handle -> connection map is read from chpool.Client by reflection over field types (not names)",
    ]


def replay(res, path):
    print(open(path).read())
    return 0
