"""C17 — protocol messages encode and decode symmetrically at every revision."""
import os
from lib import common as C

BUDGET = {"quick": 6000, "thorough": 120000}


def explore(res, scale=1, seed=None):
    seed = res.seed if seed is None else seed
    wd = C.workdir(res.pid)
    binp = C.build_harness()
    out = os.path.join(wd, "c17_%d.tsv" % seed)
    rc, log, stats, dt = C.run_harness(binp, "c17", seed, BUDGET[res.tier] * scale, res.tier, out)
    if rc != 0:
        raise C.Infra("harness c17 failed:\n" + log[-2000:])
    rows = C.read_transcript(out)
    model = C.run_eval("Msg", [r[0] for r in rows])
    C.compare_rows(res, rows, model, "correspondence(messages)")
    res.account(rows)
    for k, v in stats.items():
        res.distribution[k] = res.distribution.get(k, 0) + v
    if not res.samples:
        res.samples = [{"case": r[0][:300], "implementation": r[1][:300], "model": m[:300], "oracle": r[2]}
                       for r, m in list(zip(rows, model))[:3] + list(zip(rows, model))[-3:]]
    ok, n, slog = C.coq_sample("GlueMsg", C.sample_pairs(rows, model, seed), wd, "c17")
    res.extra["in_coq_sample"] = res.extra.get("in_coq_sample", 0) + n
    if not ok:
        res.tie_broken("extraction", "vm_compute inside Coq disagrees with the extracted evaluator:\n" + slog)
    os.remove(out)
    res.assumptions = [
        "trace.ParseTraceState inverts TraceState.String (OpenTelemetry, not modelled)",
        "only InterfaceTCP client infos are generated (DecodeAware rejects every other interface)",
    ]


def replay(res, path):
    print(open(path).read())
    return 0
